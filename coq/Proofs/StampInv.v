(* C03, history level: the invariant tying the bus state to the observable trace, and the
   per-step lemma from which the property theorems follow by induction on the history. *)
From DV Require Import Lib.Base Wire.HeaderEdit Proofs.EditProofs Stamp.Stamp Spec.StampSpec Proofs.StampFields Proofs.StampNames.
From Coq Require Import ZArith Lia FinFun.
Local Open Scope N_scope.

(* ---------------- walking a trace ------------------------------------------------------------ *)
(* the obligations of trace_ok / names_ok, item by item, carrying "who is who", the message
   being handled and what every named connection has written so far *)
Definition log_new (v : conn -> cstatus) (i : item) : list (conn * bytes * smsg) :=
  match i with
  | TRecv c m => match v c with CNamed n => [(c, n, m)] | _ => [] end
  | _ => []
  end.

Fixpoint walk (strict : bool) (v : conn -> cstatus) (last : option (conn * smsg)) (lg : list (conn * bytes * smsg))
         (tr : list item) : Prop :=
  match tr with
  | [] => True
  | i :: r =>
      match i with
      | TEmit o s m' => emit_ok strict v last lg o s m'
      | TIssue c n => v c = CUnnamed
      | _ => True
      end /\ walk strict (view_step v i) (last_step last i) (lg ++ log_new v i) r
  end.

Lemma wrote_from_cons v i r : wrote_from v (i :: r) = log_new v i ++ wrote_from (view_step v i) r.
Proof. reflexivity. Qed.

Lemma wrote_from_app : forall a b v, wrote_from v (a ++ b) = wrote_from v a ++ wrote_from (fold_left view_step a v) b.
Proof.
  induction a as [|i a IH]; intros b v; [reflexivity|]. cbn [app fold_left]. rewrite !wrote_from_cons, IH, app_assoc. reflexivity.
Qed.

Lemma walk_app strict : forall a b v l lg,
  walk strict v l lg (a ++ b) <->
  walk strict v l lg a /\ walk strict (fold_left view_step a v) (fold_left last_step a l) (lg ++ wrote_from v a) b.
Proof.
  induction a as [|i a IH]; intros b v l lg; cbn [app walk fold_left].
  - cbn [wrote_from]. rewrite app_nil_r. tauto.
  - rewrite IH, wrote_from_cons, app_assoc. tauto.
Qed.

Lemma walk_at strict : forall pre v l lg i post,
  walk strict v l lg (pre ++ i :: post) ->
  match i with
  | TEmit o s m' => emit_ok strict (fold_left view_step pre v) (fold_left last_step pre l) (lg ++ wrote_from v pre) o s m'
  | TIssue c n => fold_left view_step pre v c = CUnnamed
  | _ => True
  end.
Proof.
  intros pre v l lg i post H. apply walk_app in H. destruct H as [_ H]. cbn [walk] in H. tauto.
Qed.

(* names of connections that have gone away *)
Definition dead_new (v : conn -> cstatus) (i : item) : list bytes :=
  match i with
  | TGone c => match v c with CNamed n => [n] | _ => [] end
  | _ => []
  end.

Fixpoint dead_from (v : conn -> cstatus) (tr : list item) : list bytes :=
  match tr with
  | [] => []
  | i :: r => dead_new v i ++ dead_from (view_step v i) r
  end.

Definition departed (tr : list item) : list bytes := dead_from (fun _ => CAbsent) tr.

Lemma dead_from_app : forall a b v, dead_from v (a ++ b) = dead_from v a ++ dead_from (fold_left view_step a v) b.
Proof.
  induction a as [|i a IH]; intros b v; [reflexivity|]. cbn [app fold_left dead_from]. rewrite IH, app_assoc. reflexivity.
Qed.

Lemma issued_app a b : issued (a ++ b) = issued a ++ issued b.
Proof. unfold issued. apply flat_map_app. Qed.

(* a longer log never hurts *)
Lemma emit_ok_log strict v l lg lg' o s m :
  (forall x, In x lg -> In x lg') -> emit_ok strict v l lg o s m -> emit_ok strict v l lg' o s m.
Proof.
  intros H. unfold emit_ok. destruct o; auto. destruct s; auto.
  intros [A [A' B]]. split; [exact A|]. split; [exact A'|]. destruct (v c); auto. destruct B as [B1 (m0 & B2 & B3)]. split; [exact B1|].
  exists m0. split; [apply H; exact B2 | exact B3].
Qed.

(* ---------------- association-list facts ------------------------------------------------------ *)
Definition cst (o : option (option bytes)) : cstatus :=
  match o with None => CAbsent | Some None => CUnnamed | Some (Some n) => CNamed n end.

Lemma lookup_remove c k l : lookup k (remove_conn c l) = if k =? c then None else lookup k l.
Proof.
  unfold remove_conn. induction l as [|[x y] r IH]; cbn [filter lookup fst].
  - destruct (k =? c); reflexivity.
  - destruct (N.eqb_spec x c) as [E|E]; cbn [negb lookup].
    + rewrite IH. subst x. destruct (N.eqb_spec k c) as [F|F].
      * reflexivity.
      * destruct (N.eqb_spec c k); [congruence|reflexivity].
    + rewrite IH. destruct (N.eqb_spec x k) as [F|F]; [|reflexivity].
      subst x. destruct (N.eqb_spec k c); [congruence|reflexivity].
Qed.

Lemma lookup_set_name c n k l :
  lookup k (set_name c n l) =
  if k =? c then match lookup c l with Some _ => Some (Some n) | None => None end else lookup k l.
Proof.
  induction l as [|[x y] r IH]; cbn [set_name lookup].
  - destruct (k =? c); reflexivity.
  - destruct (N.eqb_spec x c) as [E|E]; cbn [lookup].
    + subst x. destruct (N.eqb_spec c k) as [F|F].
      * subst k. rewrite N.eqb_refl. reflexivity.
      * destruct (N.eqb_spec k c); [congruence|reflexivity].
    + destruct (N.eqb_spec x k) as [F|F].
      * subst x. destruct (N.eqb_spec k c); [congruence|reflexivity].
      * exact IH.
Qed.

(* ---------------- single emissions ------------------------------------------------------------ *)
Definition plain (s : scope) : Prop := match s with SReleased _ => False | _ => True end.

Lemma emit_driver strict v last lg s m' :
  wf_fields (s_fields m') -> sender_is m' drv_name -> emit_ok strict v last lg ODriver s m'.
Proof. intros W S. cbn. split; [apply wf_defined; exact W | exact S]. Qed.

Lemma emit_client_named strict v lg c m n s m' :
  plain s -> addr_ok v s m' -> v c = CNamed n -> wf_fields (s_fields m') -> sender_is m' n -> same_content m m' ->
  emit_ok strict v (Some (c, m)) lg (OClient c) s m'.
Proof.
  intros P Ad V W S C. cbn [emit_ok]. split; [apply wf_defined; exact W|]. split; [exact Ad|].
  destruct s; try contradiction; (split; [exists m; split; [reflexivity|exact C]|]); rewrite V; exact S.
Qed.

Lemma emit_client_unnamed v lg c m m' :
  v c = CUnnamed -> wf_fields (s_fields m') -> sender_is m' not_active -> same_content m m' ->
  emit_ok false v (Some (c, m)) lg (OClient c) SMonitors m'.
Proof.
  intros V W S C. cbn. split; [apply wf_defined; exact W|]. split; [exact Logic.I|]. split; [exists m; split; [reflexivity|exact C]|].
  rewrite V. split; [reflexivity | exact S].
Qed.

(* a kept message, when it is finally dispatched: holds for the literal property as well *)
Lemma emit_released strict v last lg c n m0 m' :
  v c = CNamed n -> wf_fields (s_fields m') -> sender_is m' n -> In (c, n, m0) lg -> same_content m0 m' ->
  emit_ok strict v last lg (OClient c) (SReleased c) m'.
Proof.
  intros V W S L C. cbn. split; [apply wf_defined; exact W|]. split; [exact Logic.I|]. rewrite V. split; [exact S|]. exists m0. auto.
Qed.

(* ---------------- the environment ------------------------------------------------------------- *)
Definition dmsg_wf (d : dmsg) : Prop :=
  match d with DTo _ m => wf_fields (s_fields m) | DBcast m => wf_fields (s_fields m) end.

Lemma emit_dmsg_ok strict b d v last lg :
  dmsg_wf d ->
  match emit_dmsg b d with TEmit o s m' => emit_ok strict v last lg o s m' | _ => False end.
Proof.
  destruct d as [c m|m]; cbn [dmsg_wf emit_dmsg]; intros W.
  - apply emit_driver; [apply from_driver_wf | apply from_driver_sender]; exact W.
  - apply emit_driver; [apply set_sender_wf; exact W | apply set_sender_is; apply W].
Qed.

Lemma error_reply_ok strict b c m e v last lg :
  match error_reply b c m e with TEmit o s m' => emit_ok strict v last lg o s m' | _ => False end.
Proof. unfold error_reply. apply emit_dmsg_ok. exact (new_error_wf m e []). Qed.

(* ---------------- replies built by libdbus itself ----------------------------------------------- *)
Definition edit_codes (es : list edit) : list N :=
  flat_map (fun e => match e with ESet c _ => [c] | _ => [] end) es.

Lemma fold_edits_codes x : forall es m,
  In x (codes (s_fields (fold_left apply_edit es m))) -> In x (codes (s_fields m)) \/ In x (edit_codes es).
Proof.
  induction es as [|e r IH]; intros m H; cbn [fold_left] in H; [left; exact H|].
  destruct (IH _ H) as [A|A]; [|right; cbn [edit_codes flat_map]; apply in_or_app; right; exact A].
  destruct e as [c v|c|]; cbn [apply_edit s_fields] in A.
  - apply set_field_codes_in in A. destruct A as [A|A]; [|left; exact A].
    right. cbn [edit_codes flat_map]. apply in_or_app. left. left. congruence.
  - left. eapply in_codes_filter. exact A.
  - left. eapply in_codes_filter. exact A.
Qed.

Lemma build_codes_in x le t f s es body :
  In x (codes (s_fields (build le t f s es body))) -> x = 8 \/ In x (edit_codes es).
Proof.
  unfold build. cbn [s_fields]. intros H.
  assert (G : In x (codes (s_fields (fold_left apply_edit es (mkSMsg le t f s [] [] [])))) -> x = 8 \/ In x (edit_codes es)).
  { intros X. apply fold_edits_codes in X. cbn [s_fields codes map In] in X. destruct X as [X|X]; [contradiction|]. right. exact X. }
  destruct body; [apply G; exact H|]. apply set_field_codes_in in H. destruct H as [H|H]; [left; exact H | apply G; exact H].
Qed.

Lemma build_get_last le t f s es c v body :
  c <> 8 -> get_field (s_fields (build le t f s (es ++ [ESet c v]) body)) c = Some v.
Proof.
  intros Hc. unfold build. cbn [s_fields]. rewrite fold_left_app. cbn [fold_left apply_edit s_fields].
  destruct body; [apply get_set_same|]. rewrite get_set_other by exact Hc. apply get_set_same.
Qed.

Lemma reply_dest_codes m x : In x (edit_codes (reply_dest m)) -> x = 6.
Proof. unfold reply_dest. destruct (str_field m F_SENDER); cbn; intros H; [destruct H as [H|[]]; symmetry; exact H | contradiction]. Qed.

Lemma edit_codes_app a b : edit_codes (a ++ b) = edit_codes a ++ edit_codes b.
Proof. unfold edit_codes. apply flat_map_app. Qed.

Lemma method_return_no_sender m body : has_no_sender (new_method_return m body).
Proof.
  unfold has_no_sender. apply filter_code_notin. intros H. apply build_codes_in in H.
  destruct H as [H|H]; [discriminate|]. rewrite edit_codes_app in H. apply in_app_or in H.
  destruct H as [H|H]; [apply reply_dest_codes in H; discriminate|]. cbn in H. destruct H as [H|[]]. discriminate.
Qed.

Lemma error_no_sender m e t : has_no_sender (new_error m e t).
Proof.
  unfold has_no_sender. apply filter_code_notin. intros H. apply build_codes_in in H.
  destruct H as [H|H]; [discriminate|]. rewrite edit_codes_app in H. apply in_app_or in H.
  destruct H as [H|H]; [apply reply_dest_codes in H; discriminate|]. cbn in H. destruct H as [H|[H|[]]]; discriminate.
Qed.

Lemma method_return_serial m body :
  get_field (s_fields (new_method_return m body)) F_REPLY_SERIAL = Some (VNum 117 (s_serial m)).
Proof. unfold new_method_return. apply build_get_last. discriminate. Qed.

Lemma error_serial m e t :
  get_field (s_fields (new_error m e t)) F_REPLY_SERIAL = Some (VNum 117 (s_serial m)).
Proof.
  unfold new_error.
  change (reply_dest m ++ [ESet F_ERROR_NAME (VStr 115 e); ESet F_REPLY_SERIAL (VNum 117 (s_serial m))])
    with (reply_dest m ++ [ESet F_ERROR_NAME (VStr 115 e)] ++ [ESet F_REPLY_SERIAL (VNum 117 (s_serial m))]).
  rewrite app_assoc. apply build_get_last. discriminate.
Qed.

Lemma opt_is_true o s : opt_is o s = true -> o = Some s.
Proof. destruct o as [x|]; cbn; [|discriminate]. intros H. apply bytes_eqb_eq in H. congruence. Qed.

Lemma emit_local v lg c m m' :
  str_field m F_DESTINATION = None ->
  (s_type m = 1 \/ str_field m F_INTERFACE = Some peer_iface) ->
  wf_fields (s_fields m') -> has_no_sender m' ->
  get_field (s_fields m') F_REPLY_SERIAL = Some (VNum 117 (s_serial m)) -> (s_type m' = 2 \/ s_type m' = 3) ->
  emit_ok false v (Some (c, m)) lg OLocal (SSelf c) m'.
Proof.
  intros D T W S R Ty. cbn. split; [apply wf_defined; exact W|]. split; [exact S|].
  exists c, m. repeat split; assumption.
Qed.

(* traces that consist of emissions only: who is who, the log and the issued names do not move *)
Definition emits_ok (v : conn -> cstatus) (last : option (conn * smsg)) (lg : list (conn * bytes * smsg)) (tr : list item) : Prop :=
  Forall (fun i => match i with TEmit o s m' => emit_ok false v last lg o s m' | _ => False end) tr.

Lemma emits_walk v last lg tr :
  emits_ok v last lg tr ->
  walk false v last lg tr /\ (forall k, fold_left view_step tr v k = v k) /\ issued tr = [] /\ wrote_from v tr = [] /\ dead_from v tr = [].
Proof.
  induction 1 as [|i r Hi Hr IH]; cbn [walk fold_left issued flat_map dead_from]; [auto|].
  destruct i; try contradiction. cbn [view_step last_step app log_new dead_new]. rewrite wrote_from_cons. cbn [log_new view_step app].
  rewrite app_nil_r. tauto.
Qed.

Lemma emits_dmsgs b v last lg ds : Forall dmsg_wf ds -> emits_ok v last lg (map (emit_dmsg b) ds).
Proof.
  intros H. unfold emits_ok. rewrite Forall_map. eapply Forall_impl; [|exact H].
  intros d Hd. apply emit_dmsg_ok. exact Hd.
Qed.

Section Peer.
  Variable machine_id : bytes.
  Lemma peer_filter_ok c m tr v lg :
    peer_filter machine_id c m = Some tr -> emits_ok v (Some (c, m)) lg tr.
  Proof.
    unfold peer_filter. destruct (str_field m F_DESTINATION) eqn:D; [discriminate|].
    destruct (opt_is (str_field m F_INTERFACE) peer_iface) eqn:I; cbn [negb]; [|discriminate].
    apply opt_is_true in I.
    destruct (is_call m peer_iface mem_ping); [|destruct (is_call m peer_iface mem_getmid)];
      intros H; injection H; intros <-; (constructor; [|constructor]).
    - apply emit_local; auto using new_method_return_wf, method_return_no_sender, method_return_serial.
    - apply emit_local; auto using new_method_return_wf, method_return_no_sender, method_return_serial.
    - apply emit_local; auto using new_error_wf, error_no_sender, error_serial.
  Qed.
End Peer.

(* ---------------- the invariant ------------------------------------------------------------------ *)
Definition name_k (k : nat) : bytes := unique_name 1 (Z.of_nat k).

(* a kept message is a stamped copy of something its writer wrote under the recorded name *)
Definition held_ok (lg : list (conn * bytes * smsg)) (h : held) : Prop :=
  wf_fields (s_fields (h_msg h)) /\ sender_is (h_msg h) (h_sender h) /\
  exists m0, In (h_conn h, h_sender h, m0) lg /\ same_content m0 (h_msg h).

Record Inv (b : bus) (v : conn -> cstatus) (iss : list bytes) (lg : list (conn * bytes * smsg)) (dead : list bytes) : Prop := mkInv {
  inv_view : forall c, v c = cst (lookup c (b_conns b));            (* who is who = BusConnectionData.name *)
  inv_ctr : counters_ok (b_major b) (b_minor b);
  inv_max : (b_minor b <= INT_MAX)%Z;
  inv_iss : iss = map name_k (seq 0 (Z.to_nat (b_minor b)));        (* names issued so far: :1.0 ... :1.(minor-1) *)
  inv_reg : forall n, In n (reg_names b) -> In n iss;               (* registered ':'-names were all issued *)
  inv_held : Forall (held_ok lg) (b_held b);
  (* the registry's ':' entries: exactly one per named connection, whose only owner is that connection *)
  inv_regq : forall n q, In (n, q) (b_reg b) -> exists c, q = [c] /\ lookup c (b_conns b) = Some (Some n);
  inv_regc : forall c n, lookup c (b_conns b) = Some (Some n) -> In (n, [c]) (b_reg b);
  inv_distinct : forall c c' n, lookup c (b_conns b) = Some (Some n) -> lookup c' (b_conns b) = Some (Some n) -> c = c';
  (* the name of a connection that has gone away is nobody's *)
  inv_dead : forall n, In n dead -> In n iss /\ forall c, lookup c (b_conns b) <> Some (Some n)
}.

Lemma Inv_init : Inv bus0 (fun _ => CAbsent) [] [] [].
Proof.
  constructor.
  - intros c. reflexivity.
  - left. split; reflexivity.
  - cbn. unfold INT_MAX. lia.
  - reflexivity.
  - intros n [].
  - constructor.
  - intros n q [].
  - intros c n H. discriminate.
  - intros c c' n H. discriminate.
  - intros n [].
Qed.

Lemma held_ok_log lg lg' h : (forall x, In x lg -> In x lg') -> held_ok lg h -> held_ok lg' h.
Proof. intros H (A & B & m0 & C & D). unfold held_ok. split; [exact A|]. split; [exact B|]. exists m0. auto. Qed.

Lemma Inv_same b v iss lg dead v' iss' lg' :
  Inv b v iss lg dead -> (forall k, v' k = v k) -> iss' = iss -> (forall x, In x lg -> In x lg') -> Inv b v' iss' lg' dead.
Proof.
  intros [A B C D E F G1 G2 G3 G4] Hv -> Hl. constructor; auto.
  - intros c. rewrite Hv. apply A.
  - eapply Forall_impl; [|exact F]. intros h. apply held_ok_log. exact Hl.
Qed.

Lemma minor_nonneg b v iss lg dead : Inv b v iss lg dead -> (0 <= b_minor b)%Z.
Proof. intros I. destruct (inv_ctr _ _ _ _ _ I) as [[_ ->]|[_ H]]; lia. Qed.

Lemma iss_minted b v iss lg dead n :
  Inv b v iss lg dead -> In n iss -> exists k, (0 <= k < b_minor b)%Z /\ n = unique_name 1 k.
Proof.
  intros I H. rewrite (inv_iss _ _ _ _ _ I) in H. apply in_map_iff in H.
  destruct H as (k & <- & Hk). apply in_seq in Hk. exists (Z.of_nat k). split; [|reflexivity].
  pose proof (minor_nonneg _ _ _ _ _ I). lia.
Qed.

Lemma reg_minted b v iss lg dead n :
  Inv b v iss lg dead -> In n (reg_names b) -> exists k, (0 <= k < b_minor b)%Z /\ n = unique_name 1 k.
Proof. intros I H. eapply iss_minted; eauto. apply (inv_reg _ _ _ _ _ I). exact H. Qed.

Lemma live_issued b v iss lg dead c n :
  Inv b v iss lg dead -> lookup c (b_conns b) = Some (Some n) -> In n iss.
Proof.
  intros I H. apply (inv_reg _ _ _ _ _ I). apply (inv_regc _ _ _ _ _ I) in H. unfold reg_names. apply in_map_iff. exists (n, [c]). auto.
Qed.

Lemma cst_unnamed o : cst o = CUnnamed -> o = Some None.
Proof. destruct o as [[?|]|]; cbn; congruence. Qed.

(* state changes that only touch the connection table *)
Lemma Inv_remove b v iss lg dead c :
  Inv b v iss lg dead -> (forall n, lookup c (b_conns b) <> Some (Some n)) ->
  Inv (set_conns b (remove_conn c (b_conns b))) (upd v c CAbsent) iss lg dead.
Proof.
  intros [A B C D E F G1 G2 G3 G4] U. constructor; cbn [set_conns b_major b_minor b_conns b_reg b_held reg_names]; auto.
  - intros k. unfold upd. rewrite lookup_remove. destruct (k =? c); [reflexivity | apply A].
  - intros n q H. destruct (G1 n q H) as (c0 & -> & L). exists c0. split; [reflexivity|]. rewrite lookup_remove.
    destruct (N.eqb_spec c0 c) as [->|_]; [exfalso; exact (U n L) | exact L].
  - intros k n H. rewrite lookup_remove in H. destruct (k =? c); [discriminate|]. apply G2. exact H.
  - intros k k' n H H'. rewrite lookup_remove in H, H'. destruct (k =? c); [discriminate|]. destruct (k' =? c); [discriminate|]. eapply G3; eauto.
  - intros n H. destruct (G4 n H) as [X Y]. split; [exact X|]. intros k. rewrite lookup_remove. destruct (k =? c); [discriminate | apply Y].
Qed.

(* a kept message whose writer is still there *)
Lemma still_there_named b v iss lg dead h :
  Inv b v iss lg dead -> still_there b h = true -> v (h_conn h) = CNamed (h_sender h).
Proof.
  intros I S. unfold still_there, name_of in S. rewrite (inv_view _ _ _ _ _ I).
  destruct (lookup (h_conn h) (b_conns b)) as [[n|]|]; try discriminate. apply bytes_eqb_eq in S. subst n. reflexivity.
Qed.

Section Steps.
  Variable max_completed : N.
  Variable machine_id : bytes.
  Variable send_allowed : bus -> conn -> smsg -> bool.
  Variable driver : bus -> conn -> smsg -> list dmsg.
  Variable reads_args : bus -> conn -> smsg -> bool.
  Variable on_disconnect : bus -> conn -> list dmsg.
  Variable activatable : bytes -> bool.
  Variable granted : bus -> conn -> bytes -> bool.
  (* the rest of the driver builds its messages through the message API: defined fields, none twice *)
  Hypothesis driver_wf : forall b c m, Forall dmsg_wf (driver b c m).
  Hypothesis disc_wf : forall b c, Forall dmsg_wf (on_disconnect b c).

  Notation step' := (step max_completed machine_id send_allowed driver reads_args on_disconnect activatable granted).
  Notation dispatch' := (dispatch max_completed machine_id send_allowed driver reads_args activatable granted).
  Notation run' := (run max_completed machine_id send_allowed driver reads_args on_disconnect activatable granted).

  (* what a step must establish *)
  Definition post (b : bus) (v : conn -> cstatus) (iss : list bytes) (last : option (conn * smsg))
             (lg : list (conn * bytes * smsg)) (dead : list bytes) (sends : Z) (o : outcome) : Prop :=
    match o with
    | Ok b' tr =>
        walk false v last lg tr /\
        Inv b' (fold_left view_step tr v) (iss ++ issued tr) (lg ++ wrote_from v tr) (dead ++ dead_from v tr) /\
        (b_minor b <= b_minor b' <= b_minor b + sends)%Z
    | Fault _ => (b_minor b = INT_MAX /\ sends = 1)%Z
    | Ill => True
    end.

  (* emissions only, and a new state that differs at most in what is kept / owned *)
  Lemma post_emits b b' v iss last lg dead tr :
    Inv b v iss lg dead -> emits_ok v last lg tr ->
    b_major b' = b_major b -> b_minor b' = b_minor b -> b_conns b' = b_conns b -> b_reg b' = b_reg b ->
    Forall (held_ok lg) (b_held b') ->
    post b v iss last lg dead 1 (Ok b' tr).
  Proof.
    intros I E E1 E2 E3 E4 H. destruct (emits_walk _ _ _ _ E) as (A & B & C & D & D'). cbn [post].
    split; [exact A|]. rewrite C, D, D', !app_nil_r. split; [|lia].
    destruct I as [I1 I2 I3 I4 I5 I6 I7 I8 I9 I10]. constructor; unfold reg_names; rewrite ?E1, ?E2, ?E3, ?E4; auto.
    intros c. rewrite B. apply I1.
  Qed.

  Lemma post_same b v iss last lg dead tr : Inv b v iss lg dead -> emits_ok v last lg tr -> post b v iss last lg dead 1 (Ok b tr).
  Proof. intros I E. apply post_emits; auto. apply (inv_held _ _ _ _ _ I). Qed.

  (* bus_driver_handle_hello *)
  Lemma do_hello_ok b c m0 v iss lg dead :
    Inv b v iss lg dead -> v c = CUnnamed -> wire_ok m0 ->
    post b v iss (Some (c, m0)) lg dead 1 (do_hello max_completed b c (stamp not_active m0)).
  Proof.
    intros I V W. unfold do_hello.
    pose proof (stamp_wf not_active m0 W) as Wf.
    assert (Cap : emit_ok false v (Some (c, m0)) lg (OClient c) SMonitors (stamp not_active m0)).
    { apply emit_client_unnamed; auto using stamp_sender, stamp_same_content. }
    destruct (max_completed <=? n_completed b).
    - apply post_same; auto. constructor; [exact Cap|]. constructor; [apply error_reply_ok | constructor].
    - pose proof (minor_nonneg _ _ _ _ _ I) as Nn. pose proof (inv_max _ _ _ _ _ I) as Mx.
      destruct (Z.eq_dec (b_minor b) INT_MAX) as [E|E].
      + destruct (inv_ctr _ _ _ _ _ I) as [[_ Z0]|[M1 _]]; [unfold INT_MAX in E; lia|].
        rewrite M1. rewrite E at 1. cbn [mint]. cbn. split; [exact E | reflexivity].
      + rewrite (mint_fresh (length (reg_names b)) (reg_names b) (b_major b) (b_minor b));
          [| exact (inv_ctr _ _ _ _ _ I) | lia | intros n Hn; eapply reg_minted; eauto].
        set (name := unique_name 1 (b_minor b)).
        set (b' := mkBus 1 (b_minor b + 1) (set_name c name (b_conns b)) ((name, [c]) :: b_reg b) (b_owned b) (b_held b)).
        set (m' := set_sender (stamp not_active m0) name).
        assert (Wm' : wf_fields (s_fields m')) by (apply set_sender_wf; exact Wf).
        assert (V1 : upd v c (CNamed name) c = CNamed name) by (unfold upd; rewrite N.eqb_refl; reflexivity).
        assert (Em' : forall s lg', (match s with SMonitors | SMatches _ => True | _ => False end) -> emit_ok false (upd v c (CNamed name)) (Some (c, m0)) lg' (OClient c) s m').
        { intros s lg' P. apply (emit_client_named false _ lg' c m0 name s m'); [destruct s; try contradiction; exact Logic.I | destruct s; try contradiction; exact Logic.I | exact V1 | exact Wm' | |].
          - apply set_sender_is. apply Wf.
          - apply same_content_restamp. apply stamp_same_content. }
        cbn [post walk view_step last_step fold_left issued flat_map app emit_dmsg noc log_new wrote_from dead_from dead_new].
        rewrite !app_nil_r.
        split; [|split].
        * split; [exact V|]. split; [apply Em'; exact Logic.I|].
          split; [apply emit_driver; [apply from_driver_wf | apply from_driver_sender]; apply new_method_return_wf|].
          split; [apply emit_driver; [apply new_driver_signal_wf; repeat constructor; unfold F_SENDER; lia | reflexivity]|].
          split; [apply emit_driver; [apply from_driver_wf | apply from_driver_sender];
                  apply new_driver_signal_wf; repeat constructor; unfold F_DESTINATION; lia|].
          split; [apply Em'; exact Logic.I | exact Logic.I].
        * unfold b'. constructor; cbn [b_major b_minor b_conns b_reg b_held].
          -- intros k. unfold upd. rewrite lookup_set_name. destruct (k =? c); [|apply (inv_view _ _ _ _ _ I)].
             rewrite (inv_view _ _ _ _ _ I) in V. apply cst_unnamed in V. rewrite V. reflexivity.
          -- right. lia.
          -- lia.
          -- rewrite (inv_iss _ _ _ _ _ I). replace (Z.to_nat (b_minor b + 1)) with (S (Z.to_nat (b_minor b))) by lia.
             rewrite seq_S, map_app. cbn [map plus]. unfold name_k at 3. rewrite Z2Nat.id by lia. reflexivity.
          -- cbn [reg_names map fst]. intros n [<-|Hn]; apply in_or_app; [right; left; reflexivity | left; exact (inv_reg _ _ _ _ _ I n Hn)].
          -- exact (inv_held _ _ _ _ _ I).
          -- pose proof V as V'. rewrite (inv_view _ _ _ _ _ I) in V'. apply cst_unnamed in V'.
             intros n q [H|H].
             ++ injection H; intros <- <-. exists c. split; [reflexivity|]. rewrite lookup_set_name, N.eqb_refl, V'. reflexivity.
             ++ destruct (inv_regq _ _ _ _ _ I n q H) as (c0 & -> & L). exists c0. split; [reflexivity|]. rewrite lookup_set_name.
                destruct (N.eqb_spec c0 c) as [->|_]; [congruence | exact L].
          -- pose proof V as V'. rewrite (inv_view _ _ _ _ _ I) in V'. apply cst_unnamed in V'.
             intros k n H. rewrite lookup_set_name in H. destruct (N.eqb_spec k c) as [->|_].
             ++ rewrite V' in H. injection H; intros <-. left. reflexivity.
             ++ right. apply (inv_regc _ _ _ _ _ I). exact H.
          -- pose proof V as V'. rewrite (inv_view _ _ _ _ _ I) in V'. apply cst_unnamed in V'.
             assert (Fresh : forall k, lookup k (b_conns b) <> Some (Some name)).
             { intros k Hk. apply (live_issued _ _ _ _ _ _ _ I) in Hk. destruct (iss_minted _ _ _ _ _ _ I Hk) as (j & Hj & Ej).
               unfold name in Ej. apply unique_name_inj in Ej; lia. }
             intros k k' n H H'. rewrite lookup_set_name in H, H'.
             destruct (N.eqb_spec k c) as [->|Nk]; destruct (N.eqb_spec k' c) as [->|Nk']; auto.
             ++ rewrite V' in H. injection H; intros <-. exfalso. exact (Fresh _ H').
             ++ rewrite V' in H'. injection H'; intros <-. exfalso. exact (Fresh _ H).
             ++ eapply (inv_distinct _ _ _ _ _ I); eauto.
          -- pose proof V as V'. rewrite (inv_view _ _ _ _ _ I) in V'. apply cst_unnamed in V'.
             intros n H. destruct (inv_dead _ _ _ _ _ I n H) as [X Y]. split; [apply in_or_app; left; exact X|].
             intros k Hk. rewrite lookup_set_name in Hk. destruct (N.eqb_spec k c) as [Ek|Nk].
             ++ rewrite V' in Hk. injection Hk; intros En. destruct (iss_minted _ _ _ _ _ _ I X) as (j & Hj & Ej).
                rewrite <- En in Ej. unfold name in Ej. apply unique_name_inj in Ej; lia.
             ++ exact (Y k Hk).
        * unfold b'. cbn [b_minor]. lia.
  Qed.

  (* "clients must talk to bus driver first": captured under the placeholder, then closed *)
  Lemma post_close b v iss lg dead c m :
    Inv b v iss lg dead -> v c = CUnnamed -> wire_ok m ->
    post b v iss (Some (c, m)) lg dead 1
      (Ok (set_conns b (remove_conn c (b_conns b))) [TEmit (OClient c) SMonitors (stamp not_active m); TGone c]).
  Proof.
    intros I V W. cbn [post walk view_step last_step fold_left issued flat_map app b_minor set_conns log_new wrote_from dead_from dead_new].
    rewrite V, !app_nil_r. split; [|split; [|lia]].
    - split; [|auto]. apply emit_client_unnamed; auto using stamp_wf, stamp_sender, stamp_same_content.
    - apply Inv_remove; [exact I|]. intros n H. rewrite (inv_view _ _ _ _ _ I), H in V. discriminate.
  Qed.

  (* bus_activation_send_pending_auto_activation_messages / try_send_activation_failure *)
  Lemma release_ok b v iss lg dead last name :
    Inv b v iss lg dead -> emits_ok v last lg (release driver b name).
  Proof.
    intros I. unfold release, emits_ok. pose proof (inv_held _ _ _ _ _ I) as H.
    induction H as [|h r Hh Hr IH]; cbn [flat_map]; [constructor|]. apply Forall_app. split; [|exact IH].
    destruct (bytes_eqb (h_name h) name); cbn [andb]; [|constructor].
    destruct (still_there b h) eqn:S; [|constructor].
    destruct Hh as (W & Sd & m0 & L & C). constructor.
    - eapply emit_released; eauto. eapply still_there_named; eauto.
    - apply emits_dmsgs. apply driver_wf.
  Qed.

  Lemma fail_all_ok b v lg last name ename :
    emits_ok v last lg (fail_all b name ename).
  Proof.
    unfold fail_all, emits_ok. induction (b_held b) as [|h r IH]; cbn [flat_map]; [constructor|].
    apply Forall_app. split; [|exact IH].
    destruct (bytes_eqb (h_name h) name && still_there b h); [|constructor].
    constructor; [apply error_reply_ok | constructor].
  Qed.

  Lemma str_field_set_sender m n c0 : c0 <> 7 -> str_field (set_sender m n) c0 = str_field m c0.
  Proof. intros H. unfold str_field. rewrite set_sender_fields, get_set_other by exact H. reflexivity. Qed.

  (* the addressed recipient of a message to a ':' name *)
  Lemma addr_ok_routed b v iss lg dead c d m n :
    Inv b v iss lg dead -> str_field (scrub m) F_DESTINATION = Some d ->
    addr_ok v (SRouted c (if is_prefix [58] d then match resolve b d with Some r => ATo r | None => ANobody end else AUnknown)) (stamp n m).
  Proof.
    intros I D. assert (D' : str_field (stamp n m) F_DESTINATION = Some d).
    { unfold stamp. rewrite str_field_set_sender by (unfold F_DESTINATION; lia). exact D. }
    destruct (is_prefix [58] d); [|exact Logic.I]. unfold resolve.
    destruct (find (fun e => bytes_eqb d (fst e)) (b_reg b)) as [[d' q]|] eqn:F.
    - apply find_some in F. destruct F as [Fi Fe]. cbn [fst] in Fe. apply bytes_eqb_eq in Fe. subst d'.
      destruct (inv_regq _ _ _ _ _ I d q Fi) as (r & -> & L). cbn [addr_ok]. exists d. split; [exact D'|].
      rewrite (inv_view _ _ _ _ _ I), L. reflexivity.
    - cbn [addr_ok]. exists d. split; [exact D'|]. intros r Hr. rewrite (inv_view _ _ _ _ _ I) in Hr.
      destruct (lookup r (b_conns b)) as [[n0|]|] eqn:L; try discriminate. injection Hr; intros ->.
      apply (inv_regc _ _ _ _ _ I) in L. pose proof (find_none _ _ F _ L) as X. cbn [fst] in X. rewrite bytes_eqb_refl in X. discriminate.
  Qed.

  Lemma dispatch_ok b c cname m v iss lg dead :
    Inv b v iss lg dead -> lookup c (b_conns b) = Some cname -> wire_ok m ->
    (forall n, cname = Some n -> In (c, n, m) lg) ->
    post b v iss (Some (c, m)) lg dead 1 (dispatch' b c cname m).
  Proof.
    intros I L W Lg. unfold dispatch.
    destruct (peer_filter machine_id c m) as [tr|] eqn:PF.
    { apply post_same; auto. eapply peer_filter_ok. exact PF. }
    assert (Vc : v c = cst (Some cname)) by (rewrite (inv_view _ _ _ _ _ I), L; reflexivity).
    assert (Named : forall n s, plain s -> addr_ok v s (stamp n m) -> cname = Some n -> emit_ok false v (Some (c, m)) lg (OClient c) s (stamp n m)).
    { intros n s P A ->. apply emit_client_named with (n := n); auto using stamp_wf, stamp_sender, stamp_same_content. }
    assert (Cap0 : cname = None -> emit_ok false v (Some (c, m)) lg (OClient c) SMonitors (stamp not_active m)).
    { intros ->. apply emit_client_unnamed; auto using stamp_wf, stamp_sender, stamp_same_content. }
    destruct (str_field (scrub m) F_DESTINATION) as [d|] eqn:D.
    - (* addressed *)
      destruct (bytes_eqb d drv_name).
      + (* to the driver *)
        destruct cname as [n|].
        * assert (Cap : forall s, (match s with SMonitors | SMatches _ => True | _ => False end) -> emit_ok false v (Some (c, m)) lg (OClient c) s (stamp n m)).
          { intros s P. apply Named; auto; destruct s; try contradiction; exact Logic.I. }
          destruct (send_allowed b c (set_sender (scrub m) n)); cbn [negb].
          2:{ apply post_same; auto. constructor; [apply Cap; exact Logic.I | constructor; [apply error_reply_ok | constructor]]. }
          destruct (is_call (set_sender (scrub m) n) drv_name mem_hello).
          { apply post_same; auto. constructor; [apply Cap; exact Logic.I | constructor; [apply error_reply_ok | constructor]]. }
          assert (Cap3 : forall s, (match s with SMonitors | SMatches _ => True | _ => False end) ->
                    emit_ok false v (Some (c, m)) lg (OClient c) s
                      (if reads_args b c (set_sender (scrub m) n) then to_native (set_sender (scrub m) n) else set_sender (scrub m) n)).
          { intros s P. destruct (reads_args b c (set_sender (scrub m) n)); [|apply Cap; exact P].
            apply emit_client_named with (n := n); auto; try (destruct s; try contradiction; exact Logic.I).
            - rewrite to_native_fields. apply stamp_wf. exact W.
            - apply sender_is_native. apply stamp_sender. exact W.
            - apply same_content_native. apply stamp_same_content. }
          destruct (colon_request_of (set_sender (scrub m) n)).
          { apply post_same; auto. constructor; [apply Cap3; exact Logic.I | constructor; [apply error_reply_ok | constructor]]. }
          assert (Plain : emits_ok v (Some (c, m)) lg
                    (TEmit (OClient c) SMonitors (if reads_args b c (set_sender (scrub m) n) then to_native (set_sender (scrub m) n) else set_sender (scrub m) n)
                     :: map (emit_dmsg b) (driver b c (set_sender (scrub m) n)) ++
                     [TEmit (OClient c) (SMatches c) (if reads_args b c (set_sender (scrub m) n) then to_native (set_sender (scrub m) n) else set_sender (scrub m) n)])).
          { constructor; [apply Cap3; exact Logic.I|]. apply Forall_app. split; [apply emits_dmsgs; apply driver_wf|].
            constructor; [apply Cap3; exact Logic.I | constructor]. }
          destruct (request_name_of (set_sender (scrub m) n)) as [name|]; [|apply post_same; auto].
          destruct (granted b c name); [|apply post_same; auto].
          apply post_emits; auto.
          -- constructor; [apply Cap3; exact Logic.I|]. apply Forall_app. split; [apply emits_dmsgs; apply driver_wf|].
             apply Forall_app. split; [eapply release_ok; eauto|]. constructor; [apply Cap3; exact Logic.I | constructor].
          -- cbn [b_held]. pose proof (inv_held _ _ _ _ _ I) as H. clear - H. induction H as [|h r Hh Hr IH]; cbn [filter]; [constructor|].
             destruct (negb (bytes_eqb (h_name h) name)); [constructor|]; auto.
        * destruct (is_call (set_sender (scrub m) not_active) drv_name mem_hello); cbn [negb].
          2:{ apply post_same; auto. constructor; [apply Cap0; reflexivity | constructor; [apply error_reply_ok | constructor]]. }
          destruct (bytes_eqb (s_sig (set_sender (scrub m) not_active)) []); cbn [negb].
          2:{ apply post_same; auto. constructor; [apply Cap0; reflexivity | constructor; [apply error_reply_ok | constructor]]. }
          apply (do_hello_ok b c m v iss lg dead); auto.
      + destruct cname as [n|].
        * destruct (negb (is_owned b d) && negb (N.testbit (s_flags (set_sender (scrub m) n)) 1) && activatable d).
          -- (* kept for the service being started *)
             apply post_emits; auto.
             ++ constructor; [apply Named; [exact Logic.I | exact Logic.I | reflexivity]|]. apply emits_dmsgs. apply driver_wf.
             ++ cbn [set_held b_held]. apply Forall_app. split; [exact (inv_held _ _ _ _ _ I)|]. constructor; [|constructor].
                unfold held_ok. cbn [h_msg h_sender h_conn]. split; [apply stamp_wf; exact W|]. split; [apply stamp_sender; exact W|].
                exists m. split; [apply Lg; reflexivity | apply stamp_same_content].
          -- apply post_same; auto. constructor; [|apply emits_dmsgs; apply driver_wf].
             apply Named; [exact Logic.I | eapply addr_ok_routed; eauto | reflexivity].
        * apply (post_close b v iss lg dead c m); auto.
    - (* no destination *)
      assert (D0 : str_field m F_DESTINATION = None) by (rewrite <- D; symmetry; apply str_field_scrub; unfold F_DESTINATION; lia).
      destruct (s_type (scrub m) =? 4) eqn:T4; cbn [negb].
      + destruct cname as [n|].
        * apply post_same; auto. constructor; [apply Named; [exact Logic.I | exact Logic.I | reflexivity]|]. apply emits_dmsgs. apply driver_wf.
        * apply (post_close b v iss lg dead c m); auto.
      + destruct (N.eqb_spec (s_type (scrub m)) 1) as [T1|T1].
        * apply post_same; auto. constructor; [|constructor].
          apply emit_local; [exact D0 | left; exact T1 | apply new_error_wf | apply error_no_sender
                            | exact (error_serial (scrub m) _ _) | right; reflexivity].
        * apply post_same; auto. constructor.
  Qed.

  (* ---------------- one event ------------------------------------------------------------------ *)
  Definition event_ok (e : event) : Prop := match e with ESend _ m => wire_ok m | _ => True end.
  Definition sends_of (e : event) : Z := match e with ESend _ _ => 1%Z | _ => 0%Z end.

  (* a connection whose only registry entries are its own leaves the registry without trace *)
  Lemma reg_drop_in c r n q :
    (forall n q, In (n, q) r -> exists k, q = [k]) ->
    In (n, q) (reg_drop c r) <-> (exists k, q = [k] /\ k <> c /\ In (n, [k]) r).
  Proof.
    intros S. unfold reg_drop. rewrite filter_In, in_map_iff. split.
    - intros [((n0, q0) & E & H) Ne]. cbn [fst snd] in E. injection E; intros <- <-. destruct (S _ _ H) as (k & ->).
      cbn [filter snd] in *. destruct (N.eqb_spec k c) as [Ek|Nk]; cbn [negb] in *; [discriminate|].
      exists k. auto.
    - intros (k & -> & Nk & H). split; [|reflexivity]. exists (n, [k]). split; [|exact H]. cbn [fst snd filter].
      destruct (N.eqb_spec k c); [contradiction|reflexivity].
  Qed.

  Lemma step_ok b e v iss last lg dead :
    Inv b v iss lg dead -> event_ok e -> post b v iss last lg dead (sends_of e) (step' b e).
  Proof.
    intros I E. destruct e as [c|c m|c|name ename]; cbn [step sends_of].
    - (* connect *)
      destruct (lookup c (b_conns b)) eqn:L; [exact Logic.I|].
      cbn [post walk view_step last_step fold_left issued flat_map app b_minor set_conns log_new wrote_from dead_from dead_new]. split; [auto|]. split; [|lia].
      rewrite !app_nil_r. destruct I as [A B C D F G G1 G2 G3 G4].
      assert (LK : forall k, lookup k ((c, None) :: b_conns b) = if k =? c then Some None else lookup k (b_conns b)).
      { intros k. cbn [lookup]. rewrite (N.eqb_sym c k). reflexivity. }
      constructor; cbn [set_conns b_major b_minor b_conns b_reg b_held reg_names]; auto.
      + intros k. unfold upd. rewrite LK. destruct (k =? c); [reflexivity | apply A].
      + intros n q H. destruct (G1 n q H) as (c0 & -> & L0). exists c0. split; [reflexivity|]. rewrite LK.
        destruct (N.eqb_spec c0 c) as [->|_]; [congruence | exact L0].
      + intros k n H. rewrite LK in H. destruct (k =? c); [discriminate | apply G2; exact H].
      + intros k k' n H H'. rewrite LK in H, H'. destruct (k =? c); [discriminate|]. destruct (k' =? c); [discriminate|]. eapply G3; eauto.
      + intros n H. destruct (G4 n H) as [X Y]. split; [exact X|]. intros k. rewrite LK. destruct (k =? c); [discriminate | apply Y].
    - (* a message *)
      destruct (lookup c (b_conns b)) as [cname|] eqn:L; [|exact Logic.I].
      assert (Vc : v c = cst (Some cname)) by (rewrite (inv_view _ _ _ _ _ I), L; reflexivity).
      assert (I' : Inv b v iss (lg ++ log_new v (TRecv c m)) dead).
      { eapply Inv_same; eauto. intros x Hx. apply in_or_app. left. exact Hx. }
      assert (Lg : forall n, cname = Some n -> In (c, n, m) (lg ++ log_new v (TRecv c m))).
      { intros n ->. apply in_or_app. right. cbn [log_new]. rewrite Vc. cbn. left. reflexivity. }
      pose proof (dispatch_ok b c cname m v iss _ dead I' L E Lg) as P.
      destruct (dispatch' b c cname m) as [b' tr|f|]; cbn [post] in *; auto.
      cbn [walk view_step last_step fold_left issued flat_map app dead_from dead_new]. rewrite wrote_from_cons. cbn [view_step].
      rewrite app_assoc. tauto.
    - (* disconnect *)
      destruct (lookup c (b_conns b)) as [[n|]|] eqn:L; [| |exact Logic.I].
      + set (ds := map (emit_dmsg b) (on_disconnect b c)).
        destruct (emits_walk v last lg ds (emits_dmsgs b v last lg _ (disc_wf b c))) as (W1 & F1 & I1 & L1 & D1).
        assert (Vc : v c = CNamed n) by (rewrite (inv_view _ _ _ _ _ I), L; reflexivity).
        cbn [post b_minor]. split; [|split; [|lia]].
        * apply walk_app. split; [exact W1|]. cbn [walk view_step last_step]. split; [|split; [|auto]].
          -- apply emit_driver; [apply from_driver_wf | apply from_driver_sender];
               apply new_driver_signal_wf; repeat constructor; unfold F_DESTINATION; lia.
          -- apply emit_driver; [apply new_driver_signal_wf; repeat constructor; unfold F_SENDER; lia | reflexivity].
        * rewrite fold_left_app, issued_app, wrote_from_app, dead_from_app, I1, L1, D1.
          cbn [fold_left view_step issued flat_map app noc wrote_from log_new dead_from dead_new]. rewrite F1, Vc, !app_nil_r.
          pose proof (live_issued _ _ _ _ _ _ _ I L) as Ln.
          destruct I as [A B C D F G G1 G2 G3 G4].
          assert (S1 : forall n q, In (n, q) (b_reg b) -> exists k, q = [k]) by (intros n0 q0 H; destruct (G1 _ _ H) as (k & -> & _); eauto).
          constructor; cbn [b_major b_minor b_conns b_reg b_held reg_names]; auto.
          -- intros k. unfold upd. rewrite lookup_remove. destruct (k =? c); [reflexivity|]. rewrite F1. apply A.
          -- intros x Hx. apply in_map_iff in Hx. destruct Hx as ((n0, q0) & <- & H). apply (reg_drop_in c _ _ _ S1) in H.
             destruct H as (k & -> & _ & H). apply F. unfold reg_names. apply in_map_iff. exists (n0, [k]). auto.
          -- intros n0 q0 H. apply (reg_drop_in c _ _ _ S1) in H. destruct H as (k & -> & Nk & H).
             destruct (G1 _ _ H) as (k' & E' & Lk). injection E'; intros <-. exists k. split; [reflexivity|].
             rewrite lookup_remove. destruct (N.eqb_spec k c); [contradiction | exact Lk].
          -- intros k n0 H. rewrite lookup_remove in H. destruct (N.eqb_spec k c) as [|Nk]; [discriminate|].
             apply (reg_drop_in c _ _ _ S1). exists k. split; [reflexivity|]. split; [exact Nk | apply G2; exact H].
          -- intros k k' n0 H H'. rewrite lookup_remove in H, H'. destruct (k =? c); [discriminate|]. destruct (k' =? c); [discriminate|]. eapply G3; eauto.
          -- intros n0 H. apply in_app_or in H. destruct H as [H|[<-|[]]].
             ++ destruct (G4 n0 H) as [X Y]. split; [exact X|]. intros k. rewrite lookup_remove. destruct (k =? c); [discriminate | apply Y].
             ++ split; [exact Ln|]. intros k Hk. rewrite lookup_remove in Hk. destruct (N.eqb_spec k c) as [|Nk]; [discriminate|].
                apply Nk. eapply G3; eauto.
      + assert (Vc : v c = CUnnamed) by (rewrite (inv_view _ _ _ _ _ I), L; reflexivity).
        cbn [post walk view_step last_step fold_left issued flat_map app b_minor set_conns log_new wrote_from dead_from dead_new]. split; [auto|]. split; [|lia].
        rewrite Vc, !app_nil_r. apply Inv_remove; [exact I|]. intros n0 H. congruence.
    - (* the started process failed *)
      assert (P : post b v iss last lg dead 1 (Ok (set_held b (filter (fun h => negb (bytes_eqb (h_name h) name)) (b_held b))) (fail_all b name ename))).
      { apply post_emits; auto; [apply fail_all_ok; auto|].
        cbn [set_held b_held]. pose proof (inv_held _ _ _ _ _ I) as H. clear - H. induction H as [|h r Hh Hr IH]; cbn [filter]; [constructor|].
        destruct (negb (bytes_eqb (h_name h) name)); [constructor|]; auto. }
      cbn [post] in *. cbn [set_held b_minor] in *. intuition lia.
  Qed.

  (* ---------------- a whole history -------------------------------------------------------------- *)
  Fixpoint sends (h : list event) : Z := match h with [] => 0%Z | e :: r => (sends_of e + sends r)%Z end.

  Lemma sends_nonneg h : (0 <= sends h)%Z.
  Proof. induction h as [|e r IH]; cbn [sends]; [lia|]. destruct e; cbn [sends_of]; lia. Qed.

  Lemma run_ok : forall h b v iss last lg dead tr f b',
    Inv b v iss lg dead -> Forall event_ok h -> run' b h = (tr, f, b') ->
    walk false v last lg tr /\
    Inv b' (fold_left view_step tr v) (iss ++ issued tr) (lg ++ wrote_from v tr) (dead ++ dead_from v tr) /\
    (f <> None -> (INT_MAX <= b_minor b + sends h)%Z).
  Proof.
    induction h as [|e r IH]; intros b v iss last lg dead tr f b' I H R; cbn [run] in R.
    - injection R; intros E1 E2 E3; subst tr f b'. cbn [walk fold_left issued flat_map wrote_from dead_from]. rewrite !app_nil_r.
      split; [exact Logic.I|]. split; [exact I|]. intros X. exfalso. apply X. reflexivity.
    - inversion H as [|? ? He Hr]; subst. pose proof (step_ok b e v iss last lg dead I He) as P.
      pose proof (sends_nonneg r) as Sn.
      destruct (step' b e) as [b1 tr1|flt|].
      + destruct (run' b1 r) as [[tr2 f2] b2] eqn:R2. injection R; intros E1 E2 E3; subst tr f b'.
        cbn [post] in P. destruct P as (W1 & I1 & M1).
        destruct (IH _ _ _ (fold_left last_step tr1 last) _ _ _ _ _ I1 Hr R2) as (W2 & I2 & F2).
        split; [apply walk_app; split; assumption|]. split.
        * rewrite fold_left_app, issued_app, wrote_from_app, dead_from_app, !app_assoc. exact I2.
        * intros Hf. specialize (F2 Hf). cbn [sends]. lia.
      + injection R; intros E1 E2 E3; subst tr f b'. cbn [post] in P. cbn [walk fold_left issued flat_map wrote_from dead_from]. rewrite !app_nil_r.
        split; [exact Logic.I|]. split; [exact I|]. intros _. cbn [sends]. lia.
      + destruct (IH _ _ _ last _ _ _ _ _ I Hr R) as (W2 & I2 & F2). split; [exact W2|]. split; [exact I2|].
        intros Hf. specialize (F2 Hf). cbn [sends]. destruct e; cbn [sends_of]; lia.
  Qed.

  (* ---------------- the property, for this environment ------------------------------------------- *)
  Definition trace_of (h : list event) : list item := fst (fst (run' bus0 h)).
  Definition fault_of (h : list event) : option fault := snd (fst (run' bus0 h)).

  Lemma run_from_init h :
    Forall event_ok h ->
    walk false (fun _ => CAbsent) None [] (trace_of h) /\
    Inv (snd (run' bus0 h)) (view (trace_of h)) (issued (trace_of h)) (wrote (trace_of h)) (departed (trace_of h)) /\
    (fault_of h <> None -> (INT_MAX <= sends h)%Z).
  Proof.
    intros H. unfold trace_of, fault_of. destruct (run' bus0 h) as [[tr f] b'] eqn:R.
    destruct (run_ok h bus0 _ [] None [] [] tr f b' Inv_init H R) as (A & B & C). cbn [fst snd app] in *.
    split; [exact A|]. split; [exact B|]. intros X. specialize (C X). cbn [b_minor bus0] in C. lia.
  Qed.

  Theorem sender_partial h : Forall event_ok h -> trace_ok false (trace_of h).
  Proof.
    intros H. destruct (run_from_init h H) as (W & _ & _). unfold trace_ok. intros pre o s m' post0 E.
    rewrite E in W. exact (walk_at false pre _ _ [] (TEmit o s m') post0 W).
  Qed.

  Lemma name_k_inj a b : name_k a = name_k b -> a = b.
  Proof. unfold name_k. intros H. apply unique_name_inj in H; lia. Qed.

  Theorem names_exact h :
    Forall event_ok h -> issued (trace_of h) = map name_k (seq 0 (length (issued (trace_of h)))).
  Proof.
    intros H. destruct (run_from_init h H) as (_ & I & _). pose proof (inv_iss _ _ _ _ _ I) as E.
    rewrite E at 2. rewrite map_length, seq_length. exact E.
  Qed.

  Theorem names_unique h : Forall event_ok h -> names_ok (trace_of h).
  Proof.
    intros H. pose proof (names_exact h H) as E. destruct (run_from_init h H) as (W & _ & _).
    unfold names_ok. split; [|split].
    - rewrite E. apply FinFun.Injective_map_NoDup; [intros a b; apply name_k_inj | apply seq_NoDup].
    - rewrite E. apply Forall_forall. intros n Hn. apply in_map_iff in Hn. destruct Hn as (k & <- & _).
      apply unique_name_colon.
    - intros pre c n post0 Et. rewrite Et in W. exact (walk_at false pre _ _ [] (TIssue c n) post0 W).
  Qed.

  Theorem no_fault_below_bound h :
    Forall event_ok h -> (sends h < INT_MAX)%Z -> fault_of h = None.
  Proof.
    intros H B. destruct (run_from_init h H) as (_ & _ & F). destruct (fault_of h); [|reflexivity].
    exfalso. assert (X : (INT_MAX <= sends h)%Z) by (apply F; discriminate). lia.
  Qed.

  (* a registered connection that says Hello again only gets an error; nothing changes *)
  Theorem second_hello_refused b c n m :
    lookup c (b_conns b) = Some (Some n) ->
    str_field m F_DESTINATION = Some drv_name ->
    is_call (stamp n m) drv_name mem_hello = true ->
    exists e, In e [err_access; err_failed; err_args] /\
      step' b (ESend c m) = Ok b [TRecv c m; TEmit (OClient c) SMonitors (stamp n m); error_reply b c (stamp n m) e].
  Proof using.
    clear driver_wf disc_wf. intros L D Hc. cbn [step]. rewrite L. unfold dispatch, peer_filter. rewrite D.
    rewrite str_field_scrub by (unfold F_DESTINATION; lia). rewrite D.
    replace (bytes_eqb drv_name drv_name) with true by (symmetry; apply bytes_eqb_refl).
    fold (stamp n m). rewrite Hc.
    destruct (send_allowed b c (stamp n m)); cbn [negb].
    - destruct (bytes_eqb (s_sig (stamp n m)) []); eexists; (split; [|reflexivity]); cbn; tauto.
    - eexists; (split; [|reflexivity]); cbn; tauto.
  Qed.

  (* ---------------- the registry side of the unique-name clause ---------------------------------- *)
  Definition final_bus (h : list event) : bus := snd (run' bus0 h).

  (* every ':' entry of the registry has exactly one owner, no queue, and that owner is the connection
     that was given the name by Hello (TIssue is the only item that names a connection) *)
  Theorem registry_only_hello h :
    Forall event_ok h -> forall n q, In (n, q) (b_reg (final_bus h)) -> exists c, q = [c] /\ view (trace_of h) c = CNamed n.
  Proof.
    intros H n q Hq. destruct (run_from_init h H) as (_ & I & _). unfold final_bus in Hq.
    destruct (inv_regq _ _ _ _ _ I n q Hq) as (c & -> & L). exists c. split; [reflexivity|].
    rewrite (inv_view _ _ _ _ _ I), L. reflexivity.
  Qed.

  Theorem resolve_sound h d r :
    Forall event_ok h -> resolve (final_bus h) d = Some r -> view (trace_of h) r = CNamed d.
  Proof.
    intros H R. unfold resolve in R. destruct (find (fun e => bytes_eqb d (fst e)) (b_reg (final_bus h))) as [[d' q]|] eqn:F; [|discriminate].
    apply find_some in F. destruct F as [Fi Fe]. cbn [fst] in Fe. apply bytes_eqb_eq in Fe. subst d'.
    destruct (registry_only_hello h H d q Fi) as (c & -> & V). injection R; intros <-. exact V.
  Qed.

  (* once the connection that held a name has gone, the name is nobody's, in every later state *)
  Theorem departed_never_again h n :
    Forall event_ok h -> In n (departed (trace_of h)) ->
    In n (issued (trace_of h)) /\ (forall r, view (trace_of h) r <> CNamed n) /\ resolve (final_bus h) n = None.
  Proof.
    intros H Hn. destruct (run_from_init h H) as (_ & I & _). destruct (inv_dead _ _ _ _ _ I n Hn) as [X Y].
    assert (Z : forall r, view (trace_of h) r <> CNamed n).
    { intros r V. rewrite (inv_view _ _ _ _ _ I) in V. destruct (lookup r (b_conns (snd (run' bus0 h)))) as [[n0|]|] eqn:L; try discriminate.
      injection V; intros ->. exact (Y r L). }
    split; [exact X|]. split; [exact Z|].
    destruct (resolve (final_bus h) n) as [r|] eqn:R; [|reflexivity]. exfalso. exact (Z r (resolve_sound h n r H R)).
  Qed.

  (* RequestName (any flags) and ReleaseName of a name beginning with ':' -- somebody else's, one's own, a
     departed or a never minted one -- are refused and change nothing *)
  Theorem colon_request_refused b c n m x :
    lookup c (b_conns b) = Some (Some n) ->
    str_field m F_DESTINATION = Some drv_name ->
    send_allowed b c (stamp n m) = true ->
    colon_request_of (stamp n m) = Some x ->
    step' b (ESend c m) =
    Ok b [TRecv c m;
          TEmit (OClient c) SMonitors (if reads_args b c (stamp n m) then to_native (stamp n m) else stamp n m);
          error_reply b c (stamp n m) err_args].
  Proof using.
    clear driver_wf disc_wf. intros L D A X. cbn [step]. rewrite L. unfold dispatch, peer_filter. rewrite D.
    rewrite str_field_scrub by (unfold F_DESTINATION; lia). rewrite D.
    replace (bytes_eqb drv_name drv_name) with true by (symmetry; apply bytes_eqb_refl).
    fold (stamp n m). rewrite A. cbn [negb].
    assert (Hh : is_call (stamp n m) drv_name mem_hello = false).
    { unfold colon_request_of in X. unfold is_call in *.
      destruct (s_type (stamp n m) =? 1); [|reflexivity]. cbn [andb] in *.
      destruct (str_field (stamp n m) F_MEMBER) as [mb|]; [|reflexivity]. cbn [opt_is] in *.
      destruct (bytes_eqb mb mem_hello) eqn:E; [|reflexivity]. apply bytes_eqb_eq in E. subst mb.
      cbn in X. discriminate. }
    rewrite Hh, X. reflexivity.
  Qed.

  (* a kept message is only ever dispatched for a writer that is still there under the same name,
     and a failed start is only reported to such writers *)
  Theorem release_only_live b name i :
    In i (release driver b name) ->
    match i with
    | TEmit (OClient c) (SReleased c') m' => c' = c /\ exists h, In h (b_held b) /\ h_conn h = c /\ h_msg h = m' /\ name_of b c = Some (h_sender h)
    | TEmit (OClient _) _ _ => False
    | TEmit OLocal _ _ => False
    | TEmit ODriver _ _ => True
    | _ => False
    end.
  Proof using.
    clear driver_wf disc_wf. unfold release. intros H. apply in_flat_map in H. destruct H as (h & Hh & Hi).
    destruct (bytes_eqb (h_name h) name && still_there b h) eqn:S; [|destruct Hi].
    apply andb_prop in S. destruct S as [_ S]. destruct Hi as [<-|Hi].
    - split; [reflexivity|]. exists h. repeat split; auto. unfold still_there in S.
      destruct (name_of b (h_conn h)); [|discriminate]. apply bytes_eqb_eq in S. congruence.
    - apply in_map_iff in Hi. destruct Hi as (d & <- & _). destruct d; exact Logic.I.
  Qed.
End Steps.
