(* C05, hold and release: messages to an unowned activatable name are held and handed to the new owner in arrival order.
   Per (sender a, destination d, recipient b): what b reads from a for destination d is, in order, a subsequence of what
   a wrote to d -- through direct delivery, hold, release, refusals and disconnects alike. *)
From Coq Require Import Lia.
From DV Require Import Lib.Base Routing.Routing Spec.RoutingSpec Proofs.RoutingProofs.
Local Open Scope N_scope.

(* ------------------------------------------------------------------ subsequences *)
Lemma Sub_refl {A} (l : list A) : Sub l l.
Proof. induction l; constructor; auto. Qed.

Lemma Sub_app_r {A} (l1 l2 l3 : list A) : Sub l1 l2 -> Sub l1 (l2 ++ l3).
Proof. induction 1; simpl; try constructor; auto. Qed.

Lemma Sub_skip_l {A} (l0 l1 l2 : list A) : Sub l1 l2 -> Sub l1 (l0 ++ l2).
Proof. induction l0; simpl; auto. intros H. apply Sub_skip. auto. Qed.

Lemma Sub_app {A} (a b c d : list A) : Sub a b -> Sub c d -> Sub (a ++ c) (b ++ d).
Proof. induction 1; simpl; intros H2; [apply Sub_skip_l; auto|constructor; auto|constructor; auto]. Qed.

Lemma Sub_nil_r {A} (l : list A) : Sub l [] -> l = [].
Proof. inversion 1; auto. Qed.

Lemma Sub_trans {A} (l1 l2 l3 : list A) : Sub l1 l2 -> Sub l2 l3 -> Sub l1 l3.
Proof.
  intros H1 H2. revert l1 H1. induction H2; intros l0 H1.
  - apply Sub_nil_r in H1. subst. constructor.
  - inversion H1; subst; constructor; auto.
  - constructor. auto.
Qed.

(* ------------------------------------------------------------------ registry and held-table facts *)
Lemma lookup_none names n : lookup names n = None <-> forall q, ~ In (n, q) names.
Proof.
  induction names as [|[k q0] rest IH]; simpl; [split; auto|]. destruct (k =? n) eqn:E.
  - apply N.eqb_eq in E. subst. split; [discriminate|]. intros H. exfalso. apply (H q0). auto.
  - rewrite IH. apply N.eqb_neq in E. split; intros H q; [intros [X|X]; [inversion X; congruence|apply (H q X)]|intros X; apply (H q); auto].
Qed.

Lemma lookup_set_queue_other names n q n' : n' <> n -> lookup (set_queue names n q) n' = lookup names n'.
Proof.
  intros Hn. induction names as [|[k q0] rest IH]; simpl.
  - destruct q; simpl; auto. destruct (n =? n') eqn:E; auto. apply N.eqb_eq in E. congruence.
  - destruct (k =? n) eqn:E.
    + apply N.eqb_eq in E. subst k. assert (E2 : (n =? n') = false) by (apply N.eqb_neq; congruence).
      destruct q; simpl; rewrite ?E2; auto.
    + simpl. destruct (k =? n'); auto.
Qed.

Lemma lookup_set_queue_same names n q : q <> [] -> lookup (set_queue names n q) n = Some q.
Proof.
  intros Hq. induction names as [|[k q0] rest IH]; simpl.
  - destruct q; [congruence|]. simpl. rewrite N.eqb_refl. auto.
  - destruct (k =? n) eqn:E.
    + destruct q; [congruence|]. simpl. rewrite E. auto.
    + simpl. rewrite E. auto.
Qed.

Definition queues_ok (st : state) : Prop := forall n q, In (n, q) (st_names st) -> q <> [].

Lemma set_queue_nonempty names n q n' q' :
  (forall k x, In (k, x) names -> x <> []) -> In (n', q') (set_queue names n q) -> q' <> [].
Proof.
  intros H. induction names as [|[k q0] rest IH]; simpl.
  - destruct q; simpl; [tauto|]. intros [X|[]]. inversion X. discriminate.
  - destruct (k =? n).
    + destruct q; simpl.
      * intros X. apply (H n' q'). right. auto.
      * intros [X|X]; [inversion X; discriminate|apply (H n' q'); right; auto].
    + simpl. intros [X|X]; [inversion X; subst; apply (H n' q'); left; auto|].
      apply IH; auto. intros k0 x Hx. apply (H k0 x). right. auto.
Qed.

Lemma names_drop_nonempty names c n q : In (n, q) (names_drop names c) -> q <> [].
Proof.
  induction names as [|[k q0] rest IH]; simpl; [tauto|]. destruct (remove_owner q0 c) eqn:E; auto.
  intros [X|X]; auto. inversion X. discriminate.
Qed.

Lemma queues_ok_step cf st e : queues_ok st -> queues_ok (fst (step cf st e)).
Proof.
  intros Hq. unfold step. destruct (negb (wf_event st e)); [exact Hq|].
  destruct e as [fds|c m|c|d|c s n al rp dq|c s n|c s rl|c|c|c s|c]; cbn [fst]; try exact Hq.
  - destruct (dispatch cf st c m) as [st' o] eqn:D. destruct (dispatch_frame _ _ _ _ _ _ D) as (_ & _ & E & _). cbn [fst].
    unfold queues_ok. rewrite E. exact Hq.
  - unfold disconnect. destruct (expire_pass cf (st_now st) (drop_pending (st_pend st) c)) as [pl oo]. cbn [fst]. intros n q H. eapply names_drop_nonempty; eauto.
  - unfold tick. destruct (expire_pass cf (st_now st + d) (st_pend st)) as [pl oo]. exact Hq.
  - destruct (acquire _ c al rp dq) as [q' code]. pose proof (release_name_frame cf (set_names st (set_queue (st_names st) n q')) n) as (_ & _ & Fn & _).
    destruct (release_name cf (set_names st (set_queue (st_names st) n q')) n) as [st2 o2]. cbn [fst] in *.
    unfold queues_ok. rewrite Fn. cbn [st_names set_names]. intros n' x H. eapply set_queue_nonempty; eauto.
  - unfold release. destruct (lookup (st_names st) n) as [q|]; [|exact Hq]. destruct (in_queue q c); [|exact Hq].
    cbn [fst]. unfold queues_ok. cbn [st_names set_names]. intros n' x H. eapply set_queue_nonempty; eauto.
Qed.

(* held table *)
Lemma held_for_filter_other h n n' : n' <> n -> held_for (filter (fun e => negb (fst e =? n)) h) n' = held_for h n'.
Proof.
  intros Hn. induction h as [|[k l] h IH]; simpl; auto. destruct (k =? n) eqn:E; simpl.
  - apply N.eqb_eq in E. subst k. assert (E2 : (n =? n') = false) by (apply N.eqb_neq; congruence). rewrite E2. exact IH.
  - destruct (k =? n'); auto.
Qed.

Lemma held_for_filter_same h n : held_for (filter (fun e => negb (fst e =? n)) h) n = [].
Proof.
  induction h as [|[k l] h IH]; simpl; auto. destruct (k =? n) eqn:E; simpl; auto. rewrite E. exact IH.
Qed.

Lemma held_for_set_held h n l n' : held_for (set_held h n l) n' = if n' =? n then l else held_for h n'.
Proof.
  unfold set_held. destruct (n' =? n) eqn:E.
  - apply N.eqb_eq in E. subst n'. destruct l as [|p l']; simpl; [apply held_for_filter_same|rewrite N.eqb_refl; reflexivity].
  - apply N.eqb_neq in E. destruct l as [|p l']; simpl; [apply held_for_filter_other; auto|].
    assert (E2 : (n =? n') = false) by (apply N.eqb_neq; congruence). rewrite E2. apply held_for_filter_other; auto.
Qed.

Lemma held_for_map_filter h c n :
  held_for (map (fun e => (fst e, filter (fun x => negb (fst x =? c)) (snd e))) h) n = filter (fun x => negb (fst x =? c)) (held_for h n).
Proof. induction h as [|[k l] h IH]; simpl; auto. destruct (k =? n); auto. Qed.

Definition held_dest (st : state) : Prop := forall n l x, In (n, l) (st_held st) -> In x l -> m_dest (snd x) = DName n.
Definition held_unowned (st : state) : Prop := forall n, held_for (st_held st) n <> [] -> lookup (st_names st) n = None.

(* ------------------------------------------------------------------ what a step makes arrive *)
Definition held_msgs (st : state) (a : N) (d : dest) : list msg :=
  match d with
  | DName n => map snd (filter (fun x => fst x =? a) (held_for (st_held st) n))
  | DUnique _ => []
  end.

Lemma arrivals_in_app o1 o2 a d b : arrivals_in (o1 ++ o2) a d b = arrivals_in o1 a d b ++ arrivals_in o2 a d b.
Proof. unfold arrivals_in. apply flat_map_app. Qed.

Lemma arrivals_eav cf st c r m a d b : arrivals_in (eav_out cf st c r m) a d b = [].
Proof.
  unfold arrivals_in. assert (G : forall l, (forall x, In x l -> snd x = OEav c m) ->
    flat_map (fun x => match snd x with OFwd f m0 => if (fst x =? b) && (f =? a) && dest_eqb (m_dest m0) d then [m0] else [] | _ => [] end) l = []).
  { induction l as [|x l IH]; simpl; auto. intros H. rewrite (H x (or_introl eq_refl)). simpl. apply IH. intros; apply H; auto. }
  apply G. intros x Hx. eapply eav_out_in; eauto.
Qed.

Lemma deliver_arrivals cf st c r m a d b :
  arrivals_in (snd (deliver cf st c r m)) a d b = [] \/
  (arrivals_in (snd (deliver cf st c r m)) a d b = [m] /\ c = a /\ dest_eqb (m_dest m) d = true /\ r = b).
Proof.
  unfold deliver. destruct ((0 <? m_nfds m) && negb (conn_fds st r)); [left; reflexivity|].
  destruct (check_security_policy cf (st_now st) (st_pend st) c r m (is_full st r)) as [pl [e|]]; cbn [snd]; [left; reflexivity|].
  change ((r, OFwd c m) :: eav_out cf st c r m) with ([(r, OFwd c m)] ++ eav_out cf st c r m).
  rewrite arrivals_in_app, arrivals_eav, app_nil_r. unfold arrivals_in. simpl.
  destruct ((r =? b) && (c =? a) && dest_eqb (m_dest m) d) eqn:E; [|left; reflexivity].
  right. rewrite !andb_true_iff, !N.eqb_eq in E. simpl. tauto.
Qed.

Lemma release_arrivals cf a n b r : forall l st,
  (forall x, In x l -> m_dest (snd x) = DName n) ->
  Sub (arrivals_in (snd (release_held cf st l r)) a (DName n) b) (map snd (filter (fun x => fst x =? a) l)).
Proof.
  induction l as [|[c m] l IH]; intros st Hd; simpl; [constructor|].
  pose proof (deliver_arrivals cf st c r m a (DName n) b) as D. destruct (deliver cf st c r m) as [st1 o1]. cbn [snd] in *.
  specialize (IH st1 (fun x Hx => Hd x (or_intror Hx))). destruct (release_held cf st1 l r) as [st2 o2]. cbn [snd] in *.
  rewrite arrivals_in_app. destruct D as [->|(-> & -> & _ & _)]; simpl.
  - destruct (c =? a); simpl; [apply Sub_skip|]; exact IH.
  - rewrite N.eqb_refl. simpl. apply Sub_keep. exact IH.
Qed.

Lemma release_arrivals_other cf a d b r n : forall l st,
  (forall x, In x l -> m_dest (snd x) = DName n) -> dest_eqb (DName n) d = false ->
  arrivals_in (snd (release_held cf st l r)) a d b = [].
Proof.
  induction l as [|[c m] l IH]; intros st Hd Hne; simpl; auto.
  pose proof (deliver_arrivals cf st c r m a d b) as D. destruct (deliver cf st c r m) as [st1 o1]. cbn [snd] in *.
  specialize (IH st1 (fun x Hx => Hd x (or_intror Hx)) Hne). destruct (release_held cf st1 l r) as [st2 o2]. cbn [snd] in *.
  rewrite arrivals_in_app, IH, app_nil_r. destruct D as [->|(_ & _ & E & _)]; auto.
  pose proof (Hd (c, m) (or_introl eq_refl)) as X. cbn [snd] in X. rewrite X in E. congruence.
Qed.

(* ------------------------------------------------------------------ invariants of the held table *)
Definition hinv (st : state) : Prop := held_dest st /\ held_unowned st /\ queues_ok st.

Lemma resolve_none_lookup st n : queues_ok st -> resolve st (DName n) = None -> lookup (st_names st) n = None.
Proof.
  intros Hq. simpl. destruct (lookup (st_names st) n) as [[|o q]|] eqn:L; auto; [|discriminate].
  intros _. apply lookup_in in L. exfalso. apply (Hq n [] L). reflexivity.
Qed.

Lemma names_drop_lookup_none names c n : lookup names n = None -> lookup (names_drop names c) n = None.
Proof.
  rewrite !lookup_none. intros H q Hin. apply names_drop_in in Hin. destruct Hin as (q0 & Hin & _). apply (H q0 Hin).
Qed.

Lemma hinv_step cf st e : hinv st -> hinv (fst (step cf st e)).
Proof.
  intros (K & L & Q). split; [|split; [|apply queues_ok_step; exact Q]].
  - (* held_dest *)
    unfold step. destruct (negb (wf_event st e)); [exact K|].
    destruct e as [fds|c m|c|d|c s n al rp dq|c s n|c s rl|c|c|c s|c]; cbn [fst]; try exact K.
    + unfold dispatch. destruct (resolve st (m_dest m)) as [r|].
      * destruct (deliver_frame cf st c r m) as [_ F]. unfold held_dest. rewrite F. exact K.
      * unfold no_owner. destruct (m_dest m) as [u|n] eqn:Ed; [exact K|]. destruct (negb (m_noauto m) && activatable n); [|exact K].
        destruct (can_send cf m false && negb (unknown_type m)); [|exact K]. cbn [fst]. intros n' l x H1 H2. cbn [st_held with_held] in H1.
        apply set_held_in in H1. destruct H1 as [[-> ->]|H1]; [|apply (K n' l x H1 H2)].
        apply in_app_iff in H2. destruct H2 as [H2|[<-|[]]]; [|exact Ed]. destruct (held_for_in _ _ _ H2) as (l0 & H3 & H4). apply (K n l0 x H3 H4).
    + unfold disconnect. destruct (expire_pass cf (st_now st) (drop_pending (st_pend st) c)) as [pl oo]. cbn [fst]. intros n l x H1 H2. cbn [st_held] in H1.
      apply in_map_iff in H1. destruct H1 as ([k l0] & E & H1). simpl in E. injection E as E1 E2. subst n l. apply filter_In in H2. apply (K k l0 x H1). tauto.
    + unfold tick. destruct (expire_pass cf (st_now st + d) (st_pend st)) as [pl oo]. exact K.
    + destruct (acquire _ c al rp dq) as [q' code]. set (st1 := set_names st (set_queue (st_names st) n q')).
      unfold release_name. destruct (held_for (st_held st1) n) as [|x0 l0]; [exact K|].
      destruct (lookup (st_names st1) n) as [[|ow q]|]; try exact K.
      destruct (release_held_frame cf (x0 :: l0) (o_conn ow) (with_held st1 (set_held (st_held st1) n []))) as [_ F].
      destruct (release_held cf (with_held st1 (set_held (st_held st1) n [])) (x0 :: l0) (o_conn ow)) as [st2 o2]. cbn [fst] in *.
      intros n' l x H1 H2. rewrite F in H1. cbn [st_held with_held] in H1. apply set_held_in in H1.
      destruct H1 as [[_ ->]|H1]; [destruct H2|apply (K n' l x H1 H2)].
    + destruct (release (st_names st) c n). exact K.
  - (* held_unowned *)
    unfold step. destruct (negb (wf_event st e)); [exact L|].
    destruct e as [fds|c m|c|d|c s n al rp dq|c s n|c s rl|c|c|c s|c]; cbn [fst]; try exact L.
    + unfold dispatch. destruct (resolve st (m_dest m)) as [r|] eqn:R.
      * destruct (deliver_frame cf st c r m) as [(_ & _ & Fn & _) F]. unfold held_unowned. rewrite F, Fn. exact L.
      * unfold no_owner. destruct (m_dest m) as [u|n] eqn:Ed; [exact L|]. destruct (negb (m_noauto m) && activatable n); [|exact L].
        destruct (can_send cf m false && negb (unknown_type m)); [|exact L]. cbn [fst]. intros n' H. cbn [st_held st_names with_held] in *.
        rewrite held_for_set_held in H. destruct (n' =? n) eqn:E; [apply N.eqb_eq in E; subst n'; apply resolve_none_lookup; auto|apply L; auto].
    + unfold disconnect. destruct (expire_pass cf (st_now st) (drop_pending (st_pend st) c)) as [pl oo]. cbn [fst]. intros n H. cbn [st_held st_names] in *.
      rewrite held_for_map_filter in H. apply names_drop_lookup_none. apply L. intros E. rewrite E in H. apply H. reflexivity.
    + unfold tick. destruct (expire_pass cf (st_now st + d) (st_pend st)) as [pl oo]. exact L.
    + destruct (acquire _ c al rp dq) as [q' code] eqn:A. set (st1 := set_names st (set_queue (st_names st) n q')).
      assert (Hq' : held_for (st_held st) n <> [] -> q' <> []).
      { intros H. rewrite (L n H) in A. simpl in A. inversion A. discriminate. }
      unfold release_name. change (st_held st1) with (st_held st).
      destruct (held_for (st_held st) n) as [|x0 l0] eqn:El.
      * cbn [fst]. intros n' H. cbn [st_held st_names st1 set_names] in *. destruct (N.eq_dec n' n) as [->|Hn]; [congruence|].
        rewrite lookup_set_queue_other by auto. apply L; auto.
      * assert (Lk : lookup (st_names st1) n = Some q') by (apply lookup_set_queue_same; apply Hq'; discriminate).
        rewrite Lk. destruct q' as [|ow q]; [exfalso; apply (Hq' ltac:(discriminate)); reflexivity|].
        destruct (release_held_frame cf (x0 :: l0) (o_conn ow) (with_held st1 (set_held (st_held st) n []))) as [(_ & _ & Fn & _) F].
        destruct (release_held cf (with_held st1 (set_held (st_held st) n [])) (x0 :: l0) (o_conn ow)) as [st2 o2]. cbn [fst] in *.
        intros n' H. rewrite F in H. rewrite Fn. cbn [st_held st_names with_held st1 set_names] in *. rewrite held_for_set_held in H.
        destruct (n' =? n) eqn:E; [congruence|]. apply N.eqb_neq in E. rewrite lookup_set_queue_other by auto. apply L; auto.
    + unfold release. destruct (lookup (st_names st) n) as [q|] eqn:Lk; [|exact L]. destruct (in_queue q c); [|exact L].
      cbn [fst]. intros n' H. cbn [st_held st_names set_names] in *. destruct (N.eq_dec n' n) as [->|Hn]; [rewrite (L n H) in Lk; discriminate|].
      rewrite lookup_set_queue_other by auto. apply L; auto.
Qed.

Lemma hinv_all cf h : hinv (state_of cf h).
Proof.
  induction h as [|e h IH] using rev_ind.
  - split; [intros n l x []|split; [intros n H; reflexivity|intros n q []]].
  - unfold state_of. rewrite run_snoc. cbn [fst]. apply hinv_step; auto.
Qed.

(* ------------------------------------------------------------------ the FIFO theorem *)
Lemma dest_eqb_eq x y : dest_eqb x y = true <-> x = y.
Proof.
  destruct x, y; simpl; try (split; [discriminate|intros H; inversion H]); rewrite N.eqb_eq; split; intros H; [subst|inversion H|subst|inversion H]; auto.
Qed.

Definition wrote (e : event) (a : N) (d : dest) : list msg :=
  match e with ESend c m => if (c =? a) && dest_eqb (m_dest m) d then [m] else [] | _ => [] end.

Lemma written_cons e o tr a d : written ((e, o) :: tr) a d = written tr a d ++ wrote e a d.
Proof. destruct e; simpl; rewrite ?app_nil_r; reflexivity. Qed.

Lemma arrivals_noreply l a d b : arrivals_in (map noreply_of l) a d b = [].
Proof. unfold arrivals_in. induction l; simpl; auto. Qed.

Lemma filter_Sub {A} (f : A -> bool) l : Sub (filter f l) l.
Proof. induction l as [|x l IH]; simpl; [constructor|]. destruct (f x); constructor; auto. Qed.

Lemma map_Sub {A B} (f : A -> B) l1 l2 : Sub l1 l2 -> Sub (map f l1) (map f l2).
Proof. induction 1; simpl; constructor; auto. Qed.

Lemma filter_filter_Sub {A} (f g : A -> bool) l : Sub (filter f (filter g l)) (filter f l).
Proof.
  induction l as [|x l IH]; simpl; [constructor|]. destruct (g x); simpl; destruct (f x); try constructor; auto.
Qed.

Lemma arrivals_drv cf st c s code a d b : arrivals_in ([(c, ODrv s code)] ++ drv_copies cf st c s) a d b = [].
Proof.
  rewrite arrivals_in_app. simpl. unfold arrivals_in.
  assert (G : forall l, (forall x, In x l -> snd x = OCall c s) ->
    flat_map (fun x => match snd x with OFwd f m0 => if (fst x =? b) && (f =? a) && dest_eqb (m_dest m0) d then [m0] else [] | _ => [] end) l = []).
  { induction l as [|x l IH]; simpl; auto. intros H. rewrite (H x (or_introl eq_refl)). simpl. apply IH. intros; apply H; auto. }
  apply G. intros x Hx. eapply drv_copies_in; eauto.
Qed.

Theorem fifo_held_inv cf h a d b :
  Sub (arrived (trace_of cf h) a d b ++ held_msgs (state_of cf h) a d) (written (trace_of cf h) a d).
Proof.
  induction h as [|e h IH] using rev_ind; [destruct d; simpl; constructor|].
  destruct (hinv_all cf h) as (K & L & Q).
  unfold trace_of, state_of. rewrite run_snoc. cbn [fst snd]. fold (trace_of cf h) (state_of cf h).
  set (st := state_of cf h) in *. set (tr := trace_of cf h) in *.
  rewrite written_cons. cbn [arrived]. rewrite <- app_assoc.
  (* steps that forward nothing and leave the held messages of (a, d) alone or shrink them *)
  assert (Quiet : forall st' o, arrivals_in o a d b = [] -> Sub (held_msgs st' a d) (held_msgs st a d) ->
                  Sub (arrived tr a d b ++ arrivals_in o a d b ++ held_msgs st' a d) (written tr a d ++ wrote e a d)).
  { intros st' o Ha Hs. rewrite Ha. simpl. apply Sub_app_r. eapply Sub_trans; [|exact IH]. apply Sub_app; [apply Sub_refl|exact Hs]. }
  unfold step. destruct (negb (wf_event st e)) eqn:W; [apply Quiet; [reflexivity|apply Sub_refl]|].
  destruct e as [fds|c m|c|dd|c s n al rp dq|c s n|c s rl|c|c|c s|c]; cbn [fst snd]; try (apply Quiet; [first [reflexivity|apply arrivals_drv]|apply Sub_refl]).
  - (* send *)
    unfold dispatch. destruct (resolve st (m_dest m)) as [r|] eqn:R.
    + pose proof (deliver_arrivals cf st c r m a d b) as D. destruct (deliver_frame cf st c r m) as [_ F].
      destruct (deliver cf st c r m) as [st1 o1]. cbn [fst snd] in *.
      assert (Hh : held_msgs st1 a d = held_msgs st a d) by (unfold held_msgs; rewrite F; reflexivity).
      destruct D as [D|(D & -> & Ed & ->)]; [apply Quiet; [exact D|rewrite Hh; apply Sub_refl]|].
      rewrite D, Hh. cbn [wrote]. rewrite N.eqb_refl, Ed. simpl.
      assert (Hd0 : held_msgs st a d = []).
      { apply dest_eqb_eq in Ed. unfold held_msgs. destruct d as [u|n]; auto. rewrite Ed in R.
        destruct (held_for (st_held st) n) eqn:E; auto. assert (lookup (st_names st) n = None) by (apply L; rewrite E; discriminate).
        simpl in R. rewrite H in R. discriminate. }
      rewrite Hd0 in *. rewrite app_nil_r in IH. simpl. apply Sub_app; [exact IH|apply Sub_refl].
    + unfold no_owner. destruct (m_dest m) as [u|n] eqn:Ed; [apply Quiet; [reflexivity|apply Sub_refl]|].
      destruct (negb (m_noauto m) && activatable n); [|apply Quiet; [reflexivity|apply Sub_refl]].
      destruct (can_send cf m false && negb (unknown_type m)); [|apply Quiet; [reflexivity|apply Sub_refl]]. cbn [fst snd].
      change (arrivals_in [] a d b) with (@nil msg). simpl app at 2. cbn [wrote]. rewrite Ed.
      unfold held_msgs at 1. cbn [st_held with_held]. destruct d as [u|n'].
      * simpl. rewrite andb_false_r. simpl. unfold held_msgs in IH. rewrite ?app_nil_r in *. exact IH.
      * rewrite held_for_set_held. cbn [dest_eqb]. rewrite (N.eqb_sym n n'). destruct (n' =? n) eqn:En.
        -- apply N.eqb_eq in En. subst n'. rewrite filter_app, map_app. cbn [filter fst]. unfold held_msgs in IH.
           destruct (c =? a); simpl.
           ++ rewrite app_assoc. apply Sub_app; [exact IH|apply Sub_refl].
           ++ rewrite ?app_nil_r in *. exact IH.
        -- rewrite andb_false_r. simpl. unfold held_msgs in IH. rewrite ?app_nil_r in *. exact IH.
  - (* disconnect *)
    unfold disconnect. rewrite expire_pass_spec. cbn [fst snd]. apply Quiet; [apply arrivals_noreply|].
    unfold held_msgs. cbn [st_held]. destruct d as [u|n]; [constructor|]. rewrite held_for_map_filter. apply map_Sub. apply filter_filter_Sub.
  - unfold tick. rewrite expire_pass_spec. cbn [fst snd]. apply Quiet; [apply arrivals_noreply|apply Sub_refl].
  - (* RequestName: release of what was held for n *)
    destruct (acquire _ c al rp dq) as [q' code]. set (st1 := set_names st (set_queue (st_names st) n q')).
    assert (Adrv : forall o st', arrivals_in (o ++ [(c, ODrv s code)] ++ drv_copies cf st' c s) a d b = arrivals_in o a d b) by (intros o st'; rewrite arrivals_in_app, arrivals_drv; apply app_nil_r).
    unfold release_name. change (st_held st1) with (st_held st).
    destruct (held_for (st_held st) n) as [|x0 l0] eqn:El; [cbn [fst snd]; rewrite Adrv; apply Quiet; [reflexivity|apply Sub_refl]|].
    destruct (lookup (st_names st1) n) as [[|ow q]|]; try (cbn [fst snd]; rewrite Adrv; apply Quiet; [reflexivity|apply Sub_refl]).
    assert (Kd : forall x, In x (x0 :: l0) -> m_dest (snd x) = DName n).
    { intros x Hx. rewrite <- El in Hx. destruct (held_for_in _ _ _ Hx) as (l1 & H1 & H2). apply (K n l1 x H1 H2). }
    set (st1' := with_held st1 (set_held (st_held st) n [])).
    pose proof (release_arrivals cf a n b (o_conn ow) (x0 :: l0) st1' Kd) as RA.
    pose proof (release_arrivals_other cf a d b (o_conn ow) n (x0 :: l0) st1' Kd) as RO.
    destruct (release_held_frame cf (x0 :: l0) (o_conn ow) st1') as [_ F].
    destruct (release_held cf st1' (x0 :: l0) (o_conn ow)) as [st2 o2]. cbn [fst snd] in *. rewrite Adrv.
    unfold held_msgs at 1. rewrite F. cbn [st_held st1' with_held]. cbn [wrote]. rewrite app_nil_r.
    destruct d as [u|n'].
    + rewrite RO by reflexivity. simpl. unfold held_msgs in IH. rewrite ?app_nil_r in *. exact IH.
    + rewrite held_for_set_held. destruct (n' =? n) eqn:En.
      * apply N.eqb_eq in En. subst n'. simpl. rewrite app_nil_r. eapply Sub_trans; [|exact IH].
        apply Sub_app; [apply Sub_refl|]. unfold held_msgs. rewrite El. exact RA.
      * rewrite RO; [|simpl; rewrite N.eqb_sym; exact En]. simpl. unfold held_msgs in IH. rewrite ?app_nil_r in *. exact IH.
  - destruct (release (st_names st) c n). cbn [fst snd]. apply Quiet; [apply arrivals_drv|apply Sub_refl].
Qed.

(* what b reads from a for destination d is, in order, a subsequence of what a wrote to d *)
Theorem fifo_held cf h a d b : Sub (arrived (trace_of cf h) a d b) (written (trace_of cf h) a d).
Proof.
  eapply Sub_trans; [|apply fifo_held_inv]. rewrite <- (app_nil_r (arrived (trace_of cf h) a d b)) at 1.
  apply Sub_app; [apply Sub_refl|constructor].
Qed.
