(* C17: several threads in dbus_pending_call_block on one connection
   (PendingCall/Threads.v).  No lost wake-up: with the checks of
   _dbus_connection_do_iteration_unlocked made AFTER the I/O path has been
   acquired, no thread ever sleeps in poll() while a message carrying its
   call's serial is in the incoming queue -- for every interleaving of any
   number of threads, the peer, and other threads' non-reading entry points.
   With the checks made before the acquisition (seeded defect) this fails. *)
From Coq Require Import List NArith ZArith Bool Lia.
Import ListNotations.
From DV Require Import PendingCall.Pending PendingCall.Threads Spec.PendingSpec Proofs.PendingSerial Proofs.PendingLemmas Proofs.PendingInv
  Proofs.PendingRel Proofs.PendingCancel Proofs.PendingFault.
Local Open Scope N_scope.

(* ---- base transitions that do not add to the incoming queue and do not disconnect ---- *)
Definition shr (st st' : state) : Prop := connected st = true -> connected st' = true /\ incl (queue st') (queue st).

Lemma shr_refl st : shr st st. Proof. intros H; split; auto. apply incl_refl. Qed.
Lemma shr_trans a b c : shr a b -> shr b c -> shr a c.
Proof. intros A B H. destruct (A H) as [H1 I1]. destruct (B H1) as [H2 I2]. split; auto. eapply incl_tran; eauto. Qed.
Lemma shr_same st st' : connected st' = connected st -> queue st' = queue st -> shr st st'.
Proof. intros A B H. split; [congruence|rewrite B; apply incl_refl]. Qed.

Lemma u_status_connected st : connected st = true -> u_status st = st.
Proof. intros H. unfold u_status. destruct (queue st); auto. rewrite H. reflexivity. Qed.
Lemma shr_u_status st : shr st (u_status st).
Proof. intros H. rewrite (u_status_connected st H). split; auto. apply incl_refl. Qed.

Lemma shr_start_complete st i m : shr st (fst (start_complete st i m)).
Proof.
  destruct (start_complete st i m) as [s o] eqn:E. apply start_complete_result in E. simpl.
  destruct E as [-> _ _ | n -> _ _ | c x link _ _ _ _ -> _]; apply shr_same; reflexivity.
Qed.
Lemma shr_complete_status st i m :
  shr st (fst (let '(st1, o1) := start_complete st i m in (if fault st1 =? 0 then u_status st1 else st1, o1))).
Proof.
  pose proof (shr_start_complete st i m) as H. destruct (start_complete st i m) as [s o]. simpl in *.
  destruct (fault s =? 0); [eapply shr_trans; [exact H|apply shr_u_status]|exact H].
Qed.

Lemma find_reply_sub q s m q' : find_reply q s = Some (m, q') -> incl q' q.
Proof.
  revert m q'; induction q as [|y q IH]; simpl; intros m q' H; [discriminate|].
  destruct (m_rs y =? s).
  - inversion H; subst. apply incl_tl, incl_refl.
  - destruct (find_reply q s) as [[z r]|] eqn:E; [|discriminate]. inversion H; subst.
    intros x [<-|Hx]; [left; reflexivity|right; eapply IH; eauto].
Qed.

Lemma shr_blk_check st i r : blk_check st i = Some r -> shr st (fst r).
Proof.
  unfold blk_check. destruct (nth_error (calls st) i) as [c|]; [|discriminate].
  destruct (find_reply (queue st) (c_serial c)) as [[m q']|] eqn:Ef; [|discriminate].
  pose proof (shr_complete_status (set_queue st q') i (Some m)) as H.
  destruct (start_complete (set_queue st q') i (Some m)) as [s l]. intros E; inversion E; subst. simpl in *.
  eapply shr_trans; [|exact H]. intros Hc. split; [exact Hc|]. simpl. eapply find_reply_sub; eauto.
Qed.
Lemma shr_timeout_complete st i : shr st (fst (timeout_complete st i)).
Proof. unfold timeout_complete. apply shr_complete_status. Qed.
Lemma shr_blk_recheck st i t : shr st (match blk_recheck st i t with inl r => fst r | inr s => s end).
Proof.
  unfold blk_recheck. pose proof (shr_u_status st) as Q. set (s1 := u_status st) in *.
  destruct (nth_error (calls s1) i) as [c|]; [|exact Q]. destruct (c_completed c); [exact Q|].
  destruct (blk_check s1 i) as [r|] eqn:E; [eapply shr_trans; [exact Q|eapply shr_blk_check; eauto]|].
  destruct (negb (connected s1)); [eapply shr_trans; [exact Q|apply shr_start_complete]|].
  destruct (negb (disc_link s1)); [eapply shr_trans; [exact Q|apply shr_timeout_complete]|].
  destruct (negb (c_finite c)); [exact Q|]. destruct (negb t); [exact Q|].
  eapply shr_trans; [exact Q|apply shr_timeout_complete].
Qed.
Lemma shr_finish st i : shr st (fst (finish st i)).
Proof. unfold finish. destruct (nth_error (calls st) i) as [c|]; [destruct (c_inflight c)|]; simpl; try apply shr_refl. apply shr_same; reflexivity. Qed.

Lemma shr_ev_dispatch st : shr st (fst (ev_dispatch st)).
Proof.
  unfold ev_dispatch. pose proof (shr_u_status st) as Q. set (s1 := u_status st) in *.
  destruct (queue s1) as [|m q] eqn:Eq; [exact Q|]. set (s2 := set_queue s1 q).
  assert (Q2 : shr st s2).
  { eapply shr_trans; [exact Q|]. intros Hc. split; [exact Hc|]. simpl. rewrite Eq. apply incl_tl, incl_refl. }
  destruct (lookup (calls s2) (m_rs m)) as [i|].
  - pose proof (shr_start_complete s2 i (Some m)) as H. destruct (start_complete s2 i (Some m)) as [s3 o3]. simpl in H.
    destruct (fault s3 =? 0); simpl; [eapply shr_trans; [exact Q2|eapply shr_trans; [exact H|apply shr_u_status]]|eapply shr_trans; eauto].
  - destruct (fault s2 =? 0); simpl; [eapply shr_trans; [exact Q2|apply shr_u_status]|exact Q2].
Qed.

Lemma shr_env st e : env_ok e = true -> shr st (fst (step st e)).
Proof.
  intros He. unfold step. destruct (negb (fault st =? 0)); [apply shr_refl|]. destruct e; simpl in *; try discriminate.
  - unfold ev_send. destruct (negb (connected st)); [apply shr_refl|]. unfold next_serial. simpl.
    eapply shr_trans; [|apply shr_u_status]. apply shr_same; reflexivity.
  - unfold ev_plain, next_serial. simpl. eapply shr_trans; [|apply shr_u_status]. apply shr_same; reflexivity.
  - unfold ev_peer. destruct (_ || _); [apply shr_refl|]. destruct k; try destruct (rs =? 0); apply shr_same; reflexivity.
  - destruct (nth_error (calls st) i) as [c|]; simpl; [|apply shr_refl]. unfold ev_peer. destruct (_ || _); [apply shr_refl|].
    destruct k; try destruct (c_serial c =? 0); apply shr_same; reflexivity.
  - apply shr_same; reflexivity.
  - unfold ev_cancel. destruct (nth_error (calls st) i); simpl; [apply shr_same; reflexivity|apply shr_refl].
  - apply shr_ev_dispatch.
  - unfold ev_steal. destruct (nth_error (calls st) i) as [c|]; [destruct (c_completed c)|]; simpl; try apply shr_refl. apply shr_same; reflexivity.
  - apply shr_finish.
  - apply shr_u_status.
Qed.

(* ---- serials of existing calls never change ---- *)
Definition keeps_serials (st st' : state) : Prop :=
  forall i c, nth_error (calls st) i = Some c -> exists c', nth_error (calls st') i = Some c' /\ c_serial c' = c_serial c.

Lemma keeps_of_summary st st' o : summary st st' o -> keeps_serials st st'.
Proof.
  intros S i c Hn.
  assert (Hk : nth_error (cores st) i = Some (core_of c)) by (unfold cores; rewrite nth_error_map, Hn; reflexivity).
  assert (exists k', nth_error (cores st') i = Some k' /\ k_serial k' = c_serial c) as [k' [Hk' Hs]].
  { destruct S as [Hcs _ _ | nf _ _ Hcs | _ _ Hcs | x k2 y _ _ _ _ _ _ Hcs | x k2 _ _ _ _ Hcs | x _ _ Hcs]; rewrite Hcs.
    - eauto.
    - rewrite nth_error_app1 by (apply nth_error_Some; congruence). eauto.
    - eauto.
    - rewrite nth_error_upd, Hk. destruct (Nat.eqb x i); simpl; eauto.
    - rewrite nth_error_upd, Hk. destruct (Nat.eqb x i); simpl; eauto.
    - rewrite nth_error_upd, Hk. destruct (Nat.eqb x i); simpl; eauto. }
  unfold cores in Hk'. rewrite nth_error_map in Hk'. destruct (nth_error (calls st') i) as [c'|]; [|discriminate].
  inversion Hk'; subst. eauto.
Qed.

Lemma keeps_of_good st st' o : good st st' o -> calls_ok st -> calls_ok st' /\ keeps_serials st st'.
Proof. intros G Hok. destruct (G Hok) as [H1 S]. split; auto. eapply keeps_of_summary; eauto. Qed.

Lemma keeps_of_quiet st st' : quiet st st' -> calls_ok st -> calls_ok st' /\ keeps_serials st st'.
Proof. intros Q. apply (keeps_of_good st st' []). apply good_quiet; auto. Qed.

(* ---- the invariant ---- *)
Definition holder (th : thread) : bool := match th_pc th with PHaveIo | PInPoll => true | _ => false end.

Definition sleeping_ok (st : state) (th : thread) : Prop :=
  th_pc th = PInPoll ->
  connected st = true /\ exists c, nth_error (calls st) (th_call th) = Some c /\ forall m, In m (queue st) -> m_rs m <> c_serial c.

Record tinv (ts : tstate) : Prop := mkTinv {
  ti_ok : calls_ok (ts_base ts);
  ti_excl : forall j k tj tk, nth_error (ts_threads ts) j = Some tj -> nth_error (ts_threads ts) k = Some tk ->
                              holder tj = true -> holder tk = true -> j = k;
  ti_io : forall k th, nth_error (ts_threads ts) k = Some th -> holder th = true -> ts_io ts = true;
  ti_sleep : forall k th, nth_error (ts_threads ts) k = Some th -> sleeping_ok (ts_base ts) th
}.

Lemma sleeping_keeps st st' th : sleeping_ok st th -> shr st st' -> keeps_serials st st' -> sleeping_ok st' th.
Proof.
  intros S Q K Hp. destruct (S Hp) as [Hc [c [Hn Hq]]]. destruct (Q Hc) as [Hc' Hi]. destruct (K _ _ Hn) as [c' [Hn' Hs]].
  split; auto. exists c'. split; auto. intros m Hm. rewrite Hs. apply Hq. apply Hi. exact Hm.
Qed.

(* thread k moves from th to th', the base from (ts_base ts) to st', the flag to io' *)
Lemma tinv_update ts k th th' st' io' :
  tinv ts -> nth_error (ts_threads ts) k = Some th ->
  calls_ok st' ->
  (th_pc th = PInPoll \/ (shr (ts_base ts) st' /\ keeps_serials (ts_base ts) st')) ->
  (holder th' = true -> (holder th = true /\ io' = ts_io ts) \/ (holder th = false /\ ts_io ts = false /\ io' = true)) ->
  (holder th' = false -> io' = if holder th then false else ts_io ts) ->
  sleeping_ok st' th' ->
  tinv (mkTS st' io' (upd (ts_threads ts) k (fun _ => th'))).
Proof.
  intros [Hok Hex Hio Hsl] Hk Hok' Hkeep Hh1 Hh0 Hs'.
  assert (NTH : forall j tj, nth_error (upd (ts_threads ts) k (fun _ => th')) j = Some tj ->
                 (j = k /\ tj = th') \/ (j <> k /\ nth_error (ts_threads ts) j = Some tj)).
  { intros j tj H. rewrite nth_error_upd in H. destruct (Nat.eqb k j) eqn:E.
    - apply Nat.eqb_eq in E. subst j. rewrite Hk in H. simpl in H. inversion H. auto.
    - apply Nat.eqb_neq in E. right. split; auto. }
  constructor; simpl.
  - exact Hok'.
  - intros j l tj tl Hj Hl Hhj Hhl.
    destruct (NTH _ _ Hj) as [[-> ->]|[Nj Hj0]]; destruct (NTH _ _ Hl) as [[-> ->]|[Nl Hl0]]; auto.
    + destruct (Hh1 Hhj) as [[Hh _]|[Hh [Hi _]]]; [apply (Hex k l th tl); auto|].
      rewrite (Hio l tl Hl0 Hhl) in Hi. discriminate.
    + destruct (Hh1 Hhl) as [[Hh _]|[Hh [Hi _]]]; [apply (Hex j k tj th); auto|].
      rewrite (Hio j tj Hj0 Hhj) in Hi. discriminate.
    + apply (Hex j l tj tl); auto.
  - intros j tj Hj Hhj. destruct (NTH _ _ Hj) as [[-> ->]|[Nj Hj0]].
    + destruct (Hh1 Hhj) as [[Hh ->]|[_ [_ ->]]]; auto. apply (Hio k th); auto.
    + pose proof (Hio j tj Hj0 Hhj) as Hi. destruct (holder th') eqn:E.
      * destruct (Hh1 eq_refl) as [[_ ->]|[_ [Hf _]]]; auto. congruence.
      * rewrite (Hh0 eq_refl). destruct (holder th) eqn:E2; auto. exfalso. apply Nj. apply (Hex j k tj th); auto.
  - intros j tj Hj. destruct (NTH _ _ Hj) as [[-> ->]|[Nj Hj0]]; [exact Hs'|].
    destruct Hkeep as [Hp|[Q K]].
    + intros Hpj. exfalso. apply Nj. apply (Hex j k tj th); auto; unfold holder; rewrite ?Hpj, ?Hp; reflexivity.
    + eapply sleeping_keeps; eauto.
Qed.

Lemma not_sleeping th p : p <> PInPoll -> forall st, sleeping_ok st (with_pc th p).
Proof. intros H st Hp. simpl in Hp. contradiction. Qed.

Lemma find_reply_none_all q s : find_reply q s = None -> forall m, In m q -> m_rs m <> s.
Proof. apply find_reply_none. Qed.

Definition quiet_pc (p : pc) : bool := match p with PHaveIo | PInPoll => false | _ => true end.

Lemma keeps_refl st : keeps_serials st st. Proof. intros i c H; eauto. Qed.
Lemma keeps_trans a b c : keeps_serials a b -> keeps_serials b c -> keeps_serials a c.
Proof. intros A B i x H. destruct (A _ _ H) as [y [Hy Ey]]. destruct (B _ _ Hy) as [z [Hz Ez]]. exists z. split; auto; congruence. Qed.

(* a thread that does not own the I/O path moves on without taking it *)
Lemma tinv_move ts k th p g st' :
  tinv ts -> nth_error (ts_threads ts) k = Some th -> holder th = false -> quiet_pc p = true ->
  calls_ok st' -> shr (ts_base ts) st' -> keeps_serials (ts_base ts) st' ->
  tinv (mkTS st' (ts_io ts) (upd (ts_threads ts) k (fun _ => mkTh (th_call th) p g))).
Proof.
  intros I Hk Hh Hp Hok Q K. apply (tinv_update ts k th); auto.
  - unfold holder; simpl. destruct p; simpl in Hp; try discriminate; intros H; discriminate.
  - intros _. rewrite Hh. reflexivity.
  - intros H; simpl in H. subst p. discriminate.
Qed.

(* the owner gives the I/O path back *)
Lemma tinv_release ts k th p g st' :
  tinv ts -> nth_error (ts_threads ts) k = Some th -> holder th = true -> quiet_pc p = true ->
  calls_ok st' -> (th_pc th = PInPoll \/ (shr (ts_base ts) st' /\ keeps_serials (ts_base ts) st')) ->
  tinv (mkTS st' false (upd (ts_threads ts) k (fun _ => mkTh (th_call th) p g))).
Proof.
  intros I Hk Hh Hp Hok HK. apply (tinv_update ts k th); auto.
  - unfold holder; simpl. destruct p; simpl in Hp; try discriminate; intros H; discriminate.
  - intros _. rewrite Hh. reflexivity.
  - intros H; simpl in H. subst p. discriminate.
Qed.

(* ---- one step ---- *)
Theorem tinv_step ts s : tinv ts -> step_ok s = true -> tinv (fst (tstep_run true ts s)).
Proof.
  intros I Hs. pose proof (ti_ok _ I) as Hok. destruct s as [k|k|k|k|e]; simpl.
  - (* TRun *)
    destruct (nth_error (ts_threads ts) k) as [th|] eqn:Hk; [|exact I].
    unfold run_thread. destruct (th_pc th) eqn:Hp.
    + (* PStart *)
      assert (Hh : holder th = false) by (unfold holder; rewrite Hp; reflexivity).
      destruct (nth_error (calls (ts_base ts)) (th_call th)) as [c|] eqn:Hn.
      2:{ simpl. apply (tinv_move ts k th PDone (th_gave th) (ts_base ts)); auto using shr_refl, keeps_refl. }
      destruct (c_completed c).
      { simpl. apply (tinv_move ts k th PDone (th_gave th) (ts_base ts)); auto using shr_refl, keeps_refl. }
      destruct (keeps_of_quiet _ _ (quiet_u_status (ts_base ts)) Hok) as [Hok0 K0].
      destruct (blk_check (u_status (ts_base ts)) (th_call th)) as [[s1 o]|] eqn:Eb; simpl.
      * destruct (keeps_of_good _ _ _ (good_blk_check _ _ _ _ Eb) Hok0) as [Hok1 K1].
        apply (tinv_move ts k th PNotify (th_gave th) s1); auto.
        -- eapply shr_trans; [apply shr_u_status|apply (shr_blk_check _ _ _ Eb)].
        -- eapply keeps_trans; eauto.
      * apply (tinv_move ts k th PCheck (th_gave th) (u_status (ts_base ts))); auto using shr_u_status.
    + (* PCheck *)
      assert (Hh : holder th = false) by (unfold holder; rewrite Hp; reflexivity).
      simpl. apply (tinv_move ts k th PWantIo (th_gave th) (ts_base ts)); auto using shr_refl, keeps_refl.
    + (* PWantIo *)
      destruct (ts_io ts) eqn:Eio; [exact I|]. simpl.
      apply (tinv_update ts k th (with_pc th PHaveIo) (ts_base ts) true); auto.
      * right. split; [apply shr_refl|apply keeps_refl].
      * intros _. right. unfold holder. rewrite Hp. auto.
      * simpl; discriminate.
      * apply not_sleeping; discriminate.
    + (* PHaveIo *)
      assert (Hh : holder th = true) by (unfold holder; rewrite Hp; reflexivity).
      simpl. destruct (nothing_to_wait_for (ts_base ts) (th_call th)) eqn:En; simpl.
      * apply (tinv_release ts k th PRecheck (th_gave th) (ts_base ts)); auto. right. split; [apply shr_refl|apply keeps_refl].
      * destruct (connected (ts_base ts)) eqn:Ec.
        -- apply (tinv_update ts k th (with_pc th PInPoll) (ts_base ts) (ts_io ts)); auto.
           ++ right. split; [apply shr_refl|apply keeps_refl].
           ++ simpl; discriminate.
           ++ intros _. split; [exact Ec|]. simpl. unfold nothing_to_wait_for in En.
              destruct (nth_error (calls (ts_base ts)) (th_call th)) as [c|]; [|discriminate]. exists c. split; auto.
              apply orb_false_iff in En. destruct En as [_ En].
              destruct (find_reply (queue (ts_base ts)) (c_serial c)) as [q|] eqn:Ef; [discriminate|].
              apply find_reply_none; exact Ef.
        -- apply (tinv_release ts k th PRecheck (th_gave th) (ts_base ts)); auto. right. split; [apply shr_refl|apply keeps_refl].
    + exact I.
    + (* PRecheck *)
      assert (Hh : holder th = false) by (unfold holder; rewrite Hp; reflexivity).
      pose proof (shr_blk_recheck (ts_base ts) (th_call th) (th_gave th)) as Q.
      destruct (blk_recheck (ts_base ts) (th_call th) (th_gave th)) as [[s1 o]|s1] eqn:Eb; simpl in *.
      * destruct (keeps_of_good _ _ _ (good_blk_recheck_inl _ _ _ _ _ Eb) Hok) as [Hok1 K1].
        apply (tinv_move ts k th PNotify (th_gave th) s1); auto.
      * destruct (keeps_of_quiet _ _ (quiet_blk_recheck_inr _ _ _ _ Eb) Hok) as [Hok1 K1].
        apply (tinv_move ts k th PCheck (th_gave th) s1); auto.
    + (* PNotify *)
      assert (Hh : holder th = false) by (unfold holder; rewrite Hp; reflexivity).
      pose proof (shr_finish (ts_base ts) (th_call th)) as Q.
      destruct (finish (ts_base ts) (th_call th)) as [s1 o] eqn:Ef. simpl in *.
      destruct (keeps_of_good _ _ _ (good_finish _ _ _ _ Ef) Hok) as [Hok1 K1].
      apply (tinv_move ts k th PDone (th_gave th) s1); auto.
    + exact I.
  - (* TWake *)
    destruct (nth_error (ts_threads ts) k) as [th|] eqn:Hk; [|exact I].
    destruct (th_pc th) eqn:Hp; try exact I. destruct (readable (ts_base ts)); [|exact I]. simpl.
    destruct (keeps_of_quiet _ _ (quiet_u_read (ts_base ts)) Hok) as [Hok1 _].
    apply (tinv_release ts k th PRecheck (th_gave th) (u_read (ts_base ts))); auto. unfold holder; rewrite Hp; reflexivity.
  - (* TPollTimeout *)
    destruct (nth_error (ts_threads ts) k) as [th|] eqn:Hk; [|exact I].
    destruct (th_pc th) eqn:Hp; try exact I. destruct (call_finite (ts_base ts) (th_call th)); [|exact I]. simpl.
    apply (tinv_release ts k th PRecheck true (ts_base ts)); auto. unfold holder; rewrite Hp; reflexivity.
  - (* TWaitTimeout *)
    destruct (nth_error (ts_threads ts) k) as [th|] eqn:Hk; [|exact I].
    destruct (th_pc th) eqn:Hp; try exact I. destruct (call_finite (ts_base ts) (th_call th)); [|exact I]. simpl.
    apply (tinv_move ts k th PRecheck true (ts_base ts)); auto using shr_refl, keeps_refl. unfold holder; rewrite Hp; reflexivity.
  - (* TEnv *)
    simpl in Hs. pose proof (shr_env (ts_base ts) e Hs) as Q.
    destruct (step (ts_base ts) e) as [s1 o] eqn:E. simpl in *.
    destruct (keeps_of_good _ _ _ (step_good _ _ _ _ E) Hok) as [Hok1 K1].
    destruct I as [_ Hex Hio Hsl]. constructor; simpl; auto.
    intros j tj Hj. eapply sleeping_keeps; eauto.
Qed.

(* ---- all interleavings ---- *)
Lemma tinv_init st targets : calls_ok st -> tinv (tinit st targets).
Proof.
  intros Hok. unfold tinit. constructor; simpl; auto.
  - intros j k tj tk Hj _ Hh. rewrite nth_error_map in Hj. destruct (nth_error targets j); inversion Hj; subst. discriminate.
  - intros k th Hk Hh. rewrite nth_error_map in Hk. destruct (nth_error targets k); inversion Hk; subst. discriminate.
  - intros k th Hk Hp. rewrite nth_error_map in Hk. destruct (nth_error targets k); inversion Hk; subst. discriminate.
Qed.

Lemma tinv_trun sched : forall ts, tinv ts -> forallb step_ok sched = true -> tinv (fst (trun true ts sched)).
Proof.
  induction sched as [|s r IH]; intros ts I H; simpl; auto.
  simpl in H. apply andb_true_iff in H. destruct H as [H1 H2].
  pose proof (tinv_step ts s I H1) as I1. destruct (tstep_run true ts s) as [t1 o1]. simpl in I1.
  specialize (IH t1 I1 H2). destruct (trun true t1 r). exact IH.
Qed.

(* the statement, with the order of the checks as a parameter *)
Definition no_lost_wakeup_statement (faithful : bool) : Prop :=
  forall st targets sched, calls_ok st -> forallb step_ok sched = true ->
  let ts := fst (trun faithful (tinit st targets) sched) in
  forall k th, nth_error (ts_threads ts) k = Some th -> th_pc th = PInPoll ->
  exists c, nth_error (calls (ts_base ts)) (th_call th) = Some c /\ find_reply (queue (ts_base ts)) (c_serial c) = None.

Theorem no_lost_wakeup : no_lost_wakeup_statement true.
Proof.
  intros st targets sched Hok Hs ts k th Hk Hp.
  pose proof (tinv_trun sched _ (tinv_init st targets Hok) Hs) as I. fold ts in I.
  destruct (ti_sleep _ I k th Hk Hp) as [_ [c [Hn Hq]]]. exists c. split; auto.
  destruct (find_reply (queue (ts_base ts)) (c_serial c)) as [[m q']|] eqn:E; auto.
  apply find_reply_some in E. destruct E as [E1 E2]. exfalso. exact (Hq m E2 E1).
Qed.

(* the owner of the I/O path is unique, whatever the schedule *)
Theorem io_path_exclusive st targets sched : calls_ok st -> forallb step_ok sched = true ->
  let ts := fst (trun true (tinit st targets) sched) in
  forall j k tj tk, nth_error (ts_threads ts) j = Some tj -> nth_error (ts_threads ts) k = Some tk ->
                    holder tj = true -> holder tk = true -> j = k.
Proof. intros Hok Hs ts. exact (ti_excl _ (tinv_trun sched _ (tinv_init st targets Hok) Hs)). Qed.

(* checks before the acquisition (seeded order): refuted.  A sleeps in poll; B waits for the I/O path; the peer answers
   both calls; A wakes, reads both replies and releases the path; B takes it and goes to sleep with its reply queued. *)
Definition w_two_calls : state := fst (run init [ESend false true; ESend false true]).
Definition w_lost_sched : list tstep :=
  [TRun 0; TRun 0; TRun 0; TRun 0; TRun 1; TRun 1; TRun 1;
   TEnv (EPeerReply PReturn 0 1); TEnv (EPeerReply PReturn 1 2); TWake 0; TRun 1; TRun 1].

Lemma calls_ok_two : calls_ok w_two_calls.
Proof. apply (r_ok _ _ _ (rel_run 0 [ESend false true; ESend false true] init [] (rel_init_at 1 ltac:(unfold valid_base, two32; lia)))). Qed.

Theorem seeded_order_refuted : ~ no_lost_wakeup_statement false.
Proof.
  intros H. specialize (H w_two_calls [0%nat; 1%nat] w_lost_sched calls_ok_two eq_refl).
  specialize (H 1%nat (mkTh 1 PInPoll false) eq_refl eq_refl). destruct H as [c [Hn Hf]].
  vm_compute in Hn. inversion Hn; subst. vm_compute in Hf. discriminate.
Qed.

(* the same schedule with the real order: B never sleeps, both calls complete *)
Example faithful_handover :
  let '(ts, o) := two_threads true w_two_calls 0 1 [PM PReturn (inl 0%nat) 1; PM PReturn (inl 1%nat) 2] in
  filter (fun x => match x with TPoll _ | TSleep _ => true | _ => false end) o = [TPoll 0] /\
  map th_pc (ts_threads ts) = [PDone; PDone] /\ map c_completed (calls (ts_base ts)) = [true; true].
Proof. vm_compute. repeat split; reflexivity. Qed.
Example seeded_handover_sleeps :
  let '(ts, o) := two_threads false w_two_calls 0 1 [PM PReturn (inl 0%nat) 1; PM PReturn (inl 1%nat) 2] in
  filter (fun x => match x with TPoll _ | TSleep _ => true | _ => false end) o = [TPoll 0; TPoll 1; TSleep 1].
Proof. vm_compute. reflexivity. Qed.

(* ---- progress at the hand-over: a thread that obtains the I/O path while a reply for its call is queued completes the
        call in its next two steps, without polling ---- *)
Theorem handover_completes ts k th c m q' :
  tinv ts -> fault (ts_base ts) = 0 -> nth_error (ts_threads ts) k = Some th -> th_pc th = PHaveIo ->
  nth_error (calls (ts_base ts)) (th_call th) = Some c -> c_completed c = false ->
  find_reply (queue (ts_base ts)) (c_serial c) = Some (m, q') ->
  let '(ts2, o) := trun true ts [TRun k; TRun k] in
  pc_of ts2 k = PNotify /\ o = [TObs k (OComplete (th_call th) m)] /\
  exists c2, nth_error (calls (ts_base ts2)) (th_call th) = Some c2 /\ c_completed c2 = true /\ c_reply c2 = Some m.
Proof.
  intros I Hf Hk Hp Hn Hc Hfr. pose proof (ti_ok _ I) as Hok.
  simpl. rewrite Hk. unfold run_thread. rewrite Hp. simpl.
  assert (En : nothing_to_wait_for (ts_base ts) (th_call th) = true) by (unfold nothing_to_wait_for; rewrite Hn, Hc, Hfr; reflexivity).
  rewrite En. simpl. rewrite nth_error_upd, Nat.eqb_refl, Hk. simpl.
  (* recheck_status *)
  assert (Hq : exists x q, queue (ts_base ts) = x :: q).
  { destruct (queue (ts_base ts)) as [|x q]; [simpl in Hfr; discriminate|eauto]. }
  destruct Hq as [x [q Hq]].
  assert (Hu : u_status (ts_base ts) = ts_base ts) by (unfold u_status; rewrite Hq; reflexivity).
  unfold blk_recheck. rewrite Hu, Hn, Hc. unfold blk_check. rewrite Hn, Hfr.
  pose proof (find_reply_some _ _ _ _ Hfr) as [Hs _].
  pose proof (Forall_nth_error _ _ _ _ Hok Hn) as (_ & _ & _ & Hr & _).
  rewrite (start_complete_ok (set_queue (ts_base ts) q') (th_call th) c m Hn (Hr Hc) Hs Hc). simpl fault. rewrite Hf. simpl.
  unfold pc_of. simpl. rewrite nth_error_upd, Nat.eqb_refl, nth_error_upd, Nat.eqb_refl, Hk. simpl.
  split; [reflexivity|]. split; [reflexivity|].
  set (s3 := set_calls (set_queue (ts_base ts) q') _).
  destruct (quiet_u_status s3) as (Hcs & _).
  assert (H3 : nth_error (calls s3) (th_call th) = Some (unhash (set_started m (c_link c) (detach_fn (c_serial c) c)))).
  { unfold s3; simpl. apply (nth_error_upd_eq _ _ (fun c' => unhash (set_started m (c_link c) c')) (detach_fn (c_serial c) c)).
    rewrite detach_serial_map, nth_error_map, Hn. reflexivity. }
  (* u_status keeps completed and reply of a call that has left the table *)
  unfold u_status. destruct (queue s3); [|eexists; split; [exact H3|split; reflexivity]].
  destruct (connected s3); [eexists; split; [exact H3|split; reflexivity]|].
  destruct (disc_link s3); simpl.
  - unfold batch_upd. rewrite nth_error_map. simpl in H3. rewrite H3. simpl. eexists; split; [reflexivity|split; reflexivity].
  - eexists; split; [exact H3|split; reflexivity].
Qed.
