(* C13 proofs, part 6: limits act only by refusing; the oversize message; capacity that is
   freed can be used again. *)
From DV Require Import Lib.Base Gen.Tables Wire.Names Registry.RegTypes Registry.Registry
  Spec.NamesSpec Spec.RegistrySpec Proofs.RegistryBase Proofs.RegistryInv Proofs.RegistryMain.
From DV Require Import Limits.Limits Spec.LimitsSpec Proofs.LimitsBase Proofs.LimitsReg Proofs.LimitsInv Proofs.LimitsMain Proofs.LimitsRefuse.
From DV Require Wire.Message.
From Coq Require Import ZifyBool ZifyN ZifyNat.
Local Open Scope N_scope.

(* ---- two configurations -------------------------------------------------------------------------------------- *)
Definition same_result (r1 r2 : state * list lout) : Prop := uncached (fst r1) = uncached (fst r2) /\ snd r1 = snd r2.

Lemma same_result_refl r : same_result r r.
Proof. split; reflexivity. Qed.

Lemma disconnect_irrel L L' s c byb : same_result (disconnect L s c byb) (disconnect L' s c byb).
Proof.
  unfold disconnect. destruct (find_conn (s_conns s) c) as [cn|]; [|apply same_result_refl]. destruct (find_cd (s_cdata s) c) as [d|]; [|apply same_result_refl].
  destruct (step_limit_irrel_other (s_conns s) (s_services s) (s_next s) (max_names_per_connection L) (max_names_per_connection L') (EvDisconnect c)) as [Hc Ho];
    [discriminate|].
  unfold reg. destruct (step (mkBus (s_conns s) (s_services s) (s_next s) (max_names_per_connection L)) (EvDisconnect c)) as [b1 o1].
  destruct (step (mkBus (s_conns s) (s_services s) (s_next s) (max_names_per_connection L')) (EvDisconnect c)) as [b2 o2].
  simpl in Hc, Ho. unfold core in Hc. inversion Hc. subst o2. rewrite H0, H1, H2.
  destruct (existsb is_fault o1); [apply same_result_refl|]. destruct (drop_pending (s_pending s) c) as [pl po]. split; reflexivity.
Qed.

Lemma via_registry_not_refused L s c e :
  refusal (snd (via_registry L s c e)) = false -> no_limit_error (snd (step (reg L s) e)).
Proof.
  intros H c' Hin. destruct (step_error _ _ _ ELimitsExceeded Hin eq_refl) as [_ [Hs _]].
  unfold via_registry in H. destruct (step (reg L s) e) as [b' ro]. simpl in Hs. subst ro. simpl in H. discriminate.
Qed.

Lemma via_registry_irrel L L' s c e :
  refusal (snd (via_registry L s c e)) = false -> refusal (snd (via_registry L' s c e)) = false ->
  via_registry L s c e = via_registry L' s c e.
Proof.
  intros H1 H2. pose proof (via_registry_not_refused _ _ _ _ H1) as N1. pose proof (via_registry_not_refused _ _ _ _ H2) as N2.
  unfold reg in N1, N2. destruct (step_limit_irrel _ _ _ _ _ _ N1 N2) as [Hc Ho].
  unfold via_registry, reg.
  destruct (step (mkBus (s_conns s) (s_services s) (s_next s) (max_names_per_connection L)) e) as [b1 o1].
  destruct (step (mkBus (s_conns s) (s_services s) (s_next s) (max_names_per_connection L')) e) as [b2 o2].
  simpl in Hc, Ho. unfold core in Hc. inversion Hc. subst o2. unfold with_reg. rewrite H0, H3, H4. reflexivity.
Qed.

Theorem limits_act_only_by_refusing_proved : limits_act_only_by_refusing.
Proof.
  intros L L' s e R1 R2 A1 A2. change (same_result (lstep L s e) (lstep L' s e)). destruct e.
  - cbn [lstep] in *. destruct (negb (s_watches s)); [apply same_result_refl|].
    destruct (max_incomplete_connections L <? s_nincomplete s + 1); [discriminate A1|].
    destruct (max_incomplete_connections L' <? s_nincomplete s + 1); [discriminate A2|].
    cbn [step reg b_conns b_services b_next b_limit]. split; [|reflexivity]. unfold uncached. cbn [fst s_conns s_services s_next s_cdata s_rules s_pending s_ncomplete s_nincomplete s_byuser].
    rewrite !map_app. reflexivity.
  - apply same_result_refl.
  - rewrite hello_refusal in R1, R2. cbn [lstep].
    destruct (find_conn (s_conns s) c) as [cn|]; [|apply same_result_refl]. destruct (find_cd (s_cdata s) c) as [d|]; [|apply same_result_refl].
    destruct (d_auth d); cbn [negb]; [|apply same_result_refl].
    destruct (c_active cn); [apply same_result_refl|]. simpl in R1, R2. apply orb_false_iff in R1, R2. destruct R1 as [B1 C1], R2 as [B2 C2].
    rewrite B1, C1, B2, C2.
    destruct (step_limit_irrel_other (s_conns s) (s_services s) (s_next s) (max_names_per_connection L) (max_names_per_connection L') (EvHello c)) as [Hc Ho];
      [discriminate|].
    unfold reg. destruct (step (mkBus (s_conns s) (s_services s) (s_next s) (max_names_per_connection L)) (EvHello c)) as [b1 o1].
    destruct (step (mkBus (s_conns s) (s_services s) (s_next s) (max_names_per_connection L')) (EvHello c)) as [b2 o2].
    simpl in Hc, Ho. unfold core in Hc. inversion Hc. subst o2. rewrite H0, H1, H2.
    destruct (existsb is_fault o1); [apply same_result_refl | split; reflexivity].
  - cbn [lstep]. apply disconnect_irrel.
  - cbn [lstep] in *. rewrite (via_registry_irrel L L'); [apply same_result_refl | assumption | assumption].
  - cbn [lstep] in *. rewrite (via_registry_irrel L L'); [apply same_result_refl | assumption | assumption].
  - rewrite addmatch_refusal in R1, R2. cbn [lstep].
    destruct (find_conn (s_conns s) c) as [cn|]; [|apply same_result_refl]. destruct (find_cd (s_cdata s) c) as [d|]; [|apply same_result_refl].
    destruct (c_active cn); [|apply same_result_refl]. simpl in R1, R2. simpl negb. cbv iota. rewrite R1, R2. apply same_result_refl.
  - apply same_result_refl.
  - cbn [lstep] in *.
    destruct (find_conn (s_conns s) c) as [cn|]; [|apply same_result_refl].
    destruct (negb (c_active cn)); [apply disconnect_irrel|].
    destruct (negb (is_active s d)); [apply same_result_refl|].
    set (pl := if rserial =? 0 then s_pending s else check_reply (s_pending s) d c rserial) in *.
    destruct noreply; [apply same_result_refl|].
    destruct (expect_scan pl c d serial 0) as [count|]; [|apply same_result_refl].
    destruct (max_replies_per_connection L <=? count); [discriminate R1|].
    destruct (max_replies_per_connection L' <=? count); [discriminate R2|]. apply same_result_refl.
  - cbn [lstep]. destruct (find_conn (s_conns s) d) as [dn|]; [|apply same_result_refl].
    destruct (negb (c_active dn)); [apply disconnect_irrel | apply same_result_refl].
  - apply same_result_refl.
  - cbn [lstep]. destruct (find_conn (s_conns s) c) as [cn|]; [|apply same_result_refl].
    destruct (negb (c_active cn)); [apply disconnect_irrel | apply same_result_refl].
  - cbn [lstep]. destruct (find_conn (s_conns s) c) as [cn|]; [|apply same_result_refl]. destruct (find_cd (s_cdata s) c) as [d|]; [|apply same_result_refl].
    destruct (too_long_at (d_maxmsg d) hdr); [apply disconnect_irrel | apply same_result_refl].
Qed.

(* ---- the size test ------------------------------------------------------------------------------------------------ *)
Lemma align8_ge x : x <= (x + 7) / 8 * 8.
Proof. pose proof (N.div_mod (x + 7) 8). pose proof (N.mod_lt (x + 7) 8). lia. Qed.

Lemma too_long_at_spec M hdr :
  too_long_at M hdr = match declared_size hdr with Some n => M <? n | None => true end.
Proof.
  unfold too_long_at, Wire.Message.have_message, declared_size.
  unfold Wire.Message.u32_at. unfold Wire.Message.byte_at, Wire.Body.unpack32, Wire.Body.align_up.
  change DBUS_LITTLE_ENDIAN with 108. change DBUS_BIG_ENDIAN with 66.
  destruct ((nth 0 hdr 0 =? 108) || (nth 0 hdr 0 =? 66)); simpl negb; cbv iota; [|reflexivity].
  cbn [Nat.add].
  set (b4 := nth 4 hdr 0). set (b5 := nth 5 hdr 0). set (b6 := nth 6 hdr 0). set (b7 := nth 7 hdr 0).
  set (b12 := nth 12 hdr 0). set (b13 := nth 13 hdr 0). set (b14 := nth 14 hdr 0). set (b15 := nth 15 hdr 0).
  change (8 =? 0) with false. cbv iota.
  destruct (nth 0 hdr 0 =? 108).
  - set (fl := b12 + 256 * (b13 + 256 * (b14 + 256 * b15))). set (bl := b4 + 256 * (b5 + 256 * (b6 + 256 * b7))).
    replace (b12 + 256 * b13 + 65536 * b14 + 16777216 * b15) with fl by (unfold fl; lia).
    replace (b4 + 256 * b5 + 65536 * b6 + 16777216 * b7) with bl by (unfold bl; lia).
    replace (16 + fl + 8 - 1) with (16 + fl + 7) by lia.
    pose proof (align8_ge (16 + fl)) as Ha. set (hl := (16 + fl + 7) / 8 * 8) in *.
    destruct (M <? fl) eqn:E1; [symmetry; apply N.ltb_lt; apply N.ltb_lt in E1; lia|].
    destruct (M <? bl) eqn:E2; [symmetry; apply N.ltb_lt; apply N.ltb_lt in E2; lia|].
    destruct (M <? bl + hl) eqn:E3.
    + symmetry. apply N.ltb_lt. apply N.ltb_lt in E3. lia.
    + symmetry. apply N.ltb_ge. apply N.ltb_ge in E3. lia.
  - set (fl := b15 + 256 * (b14 + 256 * (b13 + 256 * b12))). set (bl := b7 + 256 * (b6 + 256 * (b5 + 256 * b4))).
    replace (b15 + 256 * b14 + 65536 * b13 + 16777216 * b12) with fl by (unfold fl; lia).
    replace (b7 + 256 * b6 + 65536 * b5 + 16777216 * b4) with bl by (unfold bl; lia).
    replace (16 + fl + 8 - 1) with (16 + fl + 7) by lia.
    pose proof (align8_ge (16 + fl)) as Ha. set (hl := (16 + fl + 7) / 8 * 8) in *.
    destruct (M <? fl) eqn:E1; [symmetry; apply N.ltb_lt; apply N.ltb_lt in E1; lia|].
    destruct (M <? bl) eqn:E2; [symmetry; apply N.ltb_lt; apply N.ltb_lt in E2; lia|].
    destruct (M <? bl + hl) eqn:E3.
    + symmetry. apply N.ltb_lt. apply N.ltb_lt in E3. lia.
    + symmetry. apply N.ltb_ge. apply N.ltb_ge in E3. lia.
Qed.

Lemma too_long_spec L hdr :
  too_long L hdr = match declared_size hdr with Some n => effective_max L <? n | None => true end.
Proof. unfold too_long. rewrite too_long_at_spec. reflexivity. Qed.

(* ---- what a disconnection does ---------------------------------------------------------------------------------------- *)
Lemma linv_no_fault L s c cn : linv L s -> find_conn (s_conns s) c = Some cn ->
  existsb is_fault (snd (step (reg L s) (EvDisconnect c))) = false.
Proof.
  intros I Hf. apply (inv_no_fault (reg L s) c cn (linv_inv L s I)). exact Hf.
Qed.

(* the facts about a disconnection that the theorems below use *)
Record disconnected (L : limits) (s : state) (c : N) (cn : conn) (d : cdata) (s' : state) (o : list lout) (byb : bool) : Prop := mkDisc {
  dc_shapes : shapes (s_conns s') = del_shape (shapes (s_conns s)) c;
  dc_ncomp : s_ncomplete s' = if c_active cn then s_ncomplete s - 1 else s_ncomplete s;
  dc_ninc : s_nincomplete s' = if c_active cn then s_nincomplete s else s_nincomplete s - 1;
  dc_user : s_byuser s' = if c_active cn then set_uid (s_byuser s) (d_uid d) (get_uid (s_byuser s) (d_uid d) - 1) else s_byuser s;
  dc_pending : s_pending s' = fst (drop_pending (s_pending s) c);
  dc_closed : forall x, In (x, OClosed) o <-> (byb = true /\ x = c)
}.

Lemma conv_not_closed o : snd (conv o) <> OClosed.
Proof. unfold conv. destruct o as [x m]. simpl. destruct m; simpl; discriminate. Qed.

Lemma drop_pending_not_closed l c x : ~ In (x, OClosed) (snd (drop_pending l c)).
Proof.
  induction l as [|p l IH]; simpl; [tauto|]. destruct (drop_pending l c) as [r o]. simpl in IH.
  destruct (p_get p =? c); [exact IH|]. destruct (p_send p =? c); simpl; [|exact IH]. intros [H|H]; [discriminate H | exact (IH H)].
Qed.

Lemma disconnect_effect_g B L s c byb cn d : ginv B s -> find_conn (s_conns s) c = Some cn -> find_cd (s_cdata s) c = Some d ->
  disconnected L s c cn d (fst (disconnect L s c byb)) (snd (disconnect L s c byb)) byb.
Proof.
  intros I Hf Hd. pose proof (inv_no_fault (reg L s) c cn (ginv_inv B L s I) Hf) as Nf. unfold disconnect. rewrite Hf, Hd.
  destruct (step (reg L s) (EvDisconnect c)) as [b' ro] eqn:Es. simpl in Nf. rewrite Nf.
  destruct (step_disconnect _ _ _ _ (fun _ => 0) Es Nf) as [cn' [_ [S _]]].
  pose proof (drop_pending_not_closed (s_pending s) c) as Hp.
  destruct (drop_pending (s_pending s) c) as [pl po] eqn:Ep. simpl in Hp. cbn [fst snd].
  constructor; cbn [s_conns s_ncomplete s_nincomplete s_byuser s_pending]; try reflexivity.
  - exact S.
  - rewrite Ep. reflexivity.
  - intros x. split.
    + intros H. apply in_app_or in H. destruct H as [H|H].
      * destruct byb; [|destruct H]. destruct H as [H|[]]. inversion H. auto.
      * exfalso. apply in_app_or in H. destruct H as [H|H]; [|exact (Hp x H)].
        apply in_map_iff in H. destruct H as [y [Ey _]]. apply (conv_not_closed y). rewrite Ey. reflexivity.
    + intros [-> ->]. left. reflexivity.
Qed.

Lemma disconnect_effect L s c byb cn d : linv L s -> find_conn (s_conns s) c = Some cn -> find_cd (s_cdata s) c = Some d ->
  disconnected L s c cn d (fst (disconnect L s c byb)) (snd (disconnect L s c byb)) byb.
Proof. intros [I _]. exact (disconnect_effect_g _ L s c byb cn d I). Qed.

Lemma ginv_find_cd B s c x : ginv B s -> find_conn (s_conns s) c = Some x -> exists d, find_cd (s_cdata s) c = Some d.
Proof.
  intros I Hf. destruct (find_cd (s_cdata s) c) eqn:E; [eauto|]. exfalso. apply find_cd_none in E. rewrite (gi_ids _ _ I) in E.
  apply E. apply find_conn_in in Hf. destruct Hf as [Hin <-]. unfold ids. apply in_map. exact Hin.
Qed.

(* ---- an oversize message removes its sender and nobody else --------------------------------------------------------- *)
(* the test is against the maximum the connection's loader was given when it was accepted *)
Theorem oversize_by_own_maximum B L s c d hdr n :
  ginv B s -> connected s c = true -> find_cd (s_cdata s) c = Some d -> declared_size hdr = Some n -> d_maxmsg d < n ->
  let s' := fst (lstep L s (Message c hdr)) in
  let o := snd (lstep L s (Message c hdr)) in
  connected s' c = false /\
  (forall x, x <> c -> connected s' x = connected s x /\ registered s' x = registered s x) /\
  (forall x, In (x, OClosed) o <-> x = c).
Proof.
  intros I Hc Hd Hn Hlt. cbn [lstep]. unfold connected in Hc. destruct (find_conn (s_conns s) c) as [cn|] eqn:Hf; [|discriminate].
  rewrite Hd, too_long_at_spec, Hn. replace (d_maxmsg d <? n) with true by (symmetry; apply N.ltb_lt; exact Hlt). cbv zeta.
  destruct (disconnect_effect_g B L s c true cn d I Hf Hd) as [S _ _ _ _ Hcl].
  pose proof (ginv_nodup B s I) as Nd. rewrite ids_shapes in Nd.
  split; [|split].
  - rewrite connected_shapes, S, find_shape_del_same by exact Nd. reflexivity.
  - intros x Hx. rewrite !connected_shapes, !registered_shapes, S, find_shape_del by exact Hx. split; reflexivity.
  - intros x. rewrite Hcl. split; [tauto | auto].
Qed.

Theorem fitting_by_own_maximum L s c d hdr n :
  connected s c = true -> find_cd (s_cdata s) c = Some d -> declared_size hdr = Some n -> n <= d_maxmsg d ->
  lstep L s (Message c hdr) = (s, []).
Proof.
  intros Hc Hd Hn Hle. cbn [lstep]. unfold connected in Hc. destruct (find_conn (s_conns s) c); [|discriminate].
  rewrite Hd, too_long_at_spec, Hn. replace (d_maxmsg d <? n) with false by (symmetry; apply N.ltb_ge; exact Hle). reflexivity.
Qed.

(* under one configuration every connection's maximum is the configured one *)
Theorem oversize_only_sender L s c hdr n :
  linv L s -> connected s c = true -> declared_size hdr = Some n -> effective_max L < n ->
  let s' := fst (lstep L s (Message c hdr)) in
  let o := snd (lstep L s (Message c hdr)) in
  connected s' c = false /\
  (forall d, d <> c -> connected s' d = connected s d /\ registered s' d = registered s d) /\
  (forall d, In (d, OClosed) o <-> d = c).
Proof.
  intros I Hc Hn Hlt. pose proof Hc as Hc'. unfold connected in Hc'. destruct (find_conn (s_conns s) c) as [cn|] eqn:Hf; [|discriminate].
  destruct (linv_find_cd L s c cn I Hf) as [d Hd].
  apply (oversize_by_own_maximum _ L s c d hdr n (proj1 I) Hc Hd Hn).
  rewrite (li_maxmsg _ _ I d (proj1 (find_cd_in _ _ _ Hd))). exact Hlt.
Qed.

Theorem fitting_message_harmless L s c hdr n :
  linv L s -> declared_size hdr = Some n -> n <= effective_max L -> connected s c = true ->
  lstep L s (Message c hdr) = (s, []).
Proof.
  intros I Hn Hle Hc. pose proof Hc as Hc'. unfold connected in Hc'. destruct (find_conn (s_conns s) c) as [cn|] eqn:Hf; [|discriminate].
  destruct (linv_find_cd L s c cn I Hf) as [d Hd].
  apply (fitting_by_own_maximum L s c d hdr n Hc Hd Hn).
  rewrite (li_maxmsg _ _ I d (proj1 (find_cd_in _ _ _ Hd))). exact Hle.
Qed.

(* ---- capacity that is freed can be used again ---------------------------------------------------------------------------- *)
(* whatever is not exhausted is not refused (the other direction of refusal_iff_exhausted, as a rule to apply) *)
Theorem capacity_usable L s e r : linv L s -> plain e = true -> demand s e = Some r -> exhausted L s r = false ->
  refusal (snd (lstep L s e)) = false.
Proof. intros I Hp Hd He. rewrite (refusal_iff_exhausted L s e I Hp). unfold should_refuse. rewrite Hd. exact He. Qed.

(* a registered connection that goes away frees a connection slot and a slot of its user *)
Theorem disconnect_frees_connection L s c byb :
  linv L s -> registered s c = true ->
  let s' := fst (disconnect L s c byb) in
  n_registered s' + 1 = n_registered s /\
  n_registered_of s' (uid_of s c) + 1 = n_registered_of s (uid_of s c) /\
  (forall u, u <> uid_of s c -> n_registered_of s' u = n_registered_of s u) /\
  n_unregistered s' = n_unregistered s.
Proof.
  intros I Hr. cbv zeta. pose proof (disconnect_linv L s c byb I) as I'. unfold registered in Hr.
  destruct (find_conn (s_conns s) c) as [cn|] eqn:Hf; [|discriminate].
  destruct (linv_find_cd L s c cn I Hf) as [d Hd].
  destruct (disconnect_effect L s c byb cn d I Hf Hd) as [_ Hc Hi Hu _ _]. rewrite Hr in Hc, Hi, Hu.
  assert (Huid : uid_of s c = d_uid d) by (unfold uid_of; rewrite Hd; reflexivity). rewrite Huid.
  destruct (find_conn_in _ _ _ Hf) as [Hin Hcid].
  assert (P1 : 1 <= n_registered s) by (apply (cnt_pos_in c_active (s_conns s) cn Hin Hr)).
  assert (P2 : 1 <= n_registered_of s (d_uid d)).
  { apply (cnt_pos_in (fun x => c_active x && (uid_of s (c_id x) =? d_uid d)) (s_conns s) cn Hin). rewrite Hr, Hcid, Huid, N.eqb_refl. reflexivity. }
  rewrite <- (li_ncomp _ _ I'), <- (li_ncomp _ _ I), <- (li_ninc _ _ I'), <- (li_ninc _ _ I), Hc, Hi.
  rewrite <- (li_ncomp _ _ I) in P1. rewrite <- (li_user _ _ I) in P2.
  split; [lia|]. split; [|split; [|reflexivity]].
  - rewrite <- (li_user _ _ I'), <- (li_user _ _ I), Hu, get_set_uid, N.eqb_refl. lia.
  - intros u Hne. rewrite <- (li_user _ _ I'), <- (li_user _ _ I), Hu, get_set_uid. apply N.eqb_neq in Hne. rewrite Hne. reflexivity.
Qed.

(* an unregistered connection that goes away frees a slot for another one to be accepted *)
Theorem disconnect_frees_incomplete L s c byb :
  linv L s -> connected s c = true -> registered s c = false ->
  let s' := fst (disconnect L s c byb) in
  n_unregistered s' + 1 = n_unregistered s /\ n_registered s' = n_registered s.
Proof.
  intros I Hc Hr. cbv zeta. pose proof (disconnect_linv L s c byb I) as I'. unfold registered in Hr. unfold connected in Hc.
  destruct (find_conn (s_conns s) c) as [cn|] eqn:Hf; [|discriminate].
  destruct (linv_find_cd L s c cn I Hf) as [d Hd].
  destruct (disconnect_effect L s c byb cn d I Hf Hd) as [_ Hnc Hi _ _ _]. rewrite Hr in Hnc, Hi.
  destruct (find_conn_in _ _ _ Hf) as [Hin Hcid].
  assert (P1 : 1 <= n_unregistered s) by (apply (cnt_pos_in (fun x => negb (c_active x)) (s_conns s) cn Hin); rewrite Hr; reflexivity).
  rewrite <- (li_ncomp _ _ I'), <- (li_ncomp _ _ I), <- (li_ninc _ _ I'), <- (li_ninc _ _ I), Hnc, Hi.
  rewrite <- (li_ninc _ _ I) in P1. split; [lia | reflexivity].
Qed.

(* so does a connection that completes its Hello *)
Theorem hello_frees_incomplete L s c :
  1 <= max_names_per_connection L -> linv L s -> registered s c = false -> registered (fst (lstep L s (Hello c))) c = true ->
  n_unregistered (fst (lstep L s (Hello c))) + 1 = n_unregistered s.
Proof.
  intros Hpos I Hr Hr'. pose proof (hello_linv L s c Hpos I) as I'.
  rewrite <- (li_ninc _ _ I'), <- (li_ninc _ _ I). revert Hr' I'. cbn [lstep]. unfold registered in Hr.
  assert (Same : registered s c = true -> False) by (unfold registered; destruct (find_conn (s_conns s) c); [rewrite Hr|]; discriminate).
  destruct (find_conn (s_conns s) c) as [cn|] eqn:Hf; [|intros H; destruct (Same H)].
  destruct (find_cd (s_cdata s) c) as [d|]; [|intros H; destruct (Same H)].
  destruct (negb (d_auth d)); [intros H; destruct (Same H)|].
  destruct (c_active cn) eqn:Ha; [intros H; destruct (Same H)|].
  destruct (max_completed_connections L <=? s_ncomplete s); [intros H; destruct (Same H)|].
  destruct (max_connections_per_user L <=? get_uid (s_byuser s) (d_uid d)); [intros H; destruct (Same H)|].
  destruct (step (reg L s) (EvHello c)) as [b' ro]. destruct (existsb is_fault ro); [intros H; destruct (Same H)|].
  cbn [fst s_nincomplete]. intros _ _.
  destruct (find_conn_in _ _ _ Hf) as [Hin _].
  assert (P1 : 1 <= n_unregistered s) by (apply (cnt_pos_in (fun x => negb (c_active x)) (s_conns s) cn Hin); rewrite Ha; reflexivity).
  rewrite <- (li_ninc _ _ I) in P1. lia.
Qed.

(* a rule that is removed frees a rule slot *)
Lemma remove_rule_some l c r : In (c, r) l -> exists rl, remove_rule l c r = Some rl.
Proof.
  induction l as [|e l IH]; intros H; [destruct H|]. simpl. destruct (rule_is c r e) eqn:E; [eauto|].
  destruct H as [->|H]; [unfold rule_is in E; simpl in E; rewrite !N.eqb_refl in E; discriminate|].
  destruct (IH H) as [rl ->]. eauto.
Qed.

Theorem removematch_frees_rule L s c r :
  registered s c = true -> connected s c = true -> (exists d, find_cd (s_cdata s) c = Some d) -> In (c, r) (s_rules s) ->
  n_rules (fst (lstep L s (RemoveMatch c (Some r)))) c + 1 = n_rules s c.
Proof.
  intros Hr _ [d Hd] Hin. cbn [lstep]. unfold registered in Hr. destruct (find_conn (s_conns s) c) as [cn|]; [|discriminate].
  rewrite Hd, Hr. cbn [negb]. cbv iota. destruct (remove_rule_some _ _ _ Hin) as [rl Er]. rewrite Er. cbn [fst].
  unfold n_rules. cbn [with_rules s_rules]. pose proof (remove_rule_cnt _ _ _ _ c Er) as X. rewrite N.eqb_refl in X. exact X.
Qed.

(* an answer, an expiry, or the callee's disconnection frees a reply slot of the caller *)
Lemma check_reply_frees l g sd s :
  existsb (pend_match g sd s) l = true ->
  cnt (fun p => p_get p =? g) (check_reply l g sd s) + 1 = cnt (fun p => p_get p =? g) l.
Proof.
  induction l as [|p l IH]; simpl; [discriminate|]. destruct (pend_match g sd s p) eqn:E.
  - intros _. rewrite cnt_cons. unfold pend_match in E. apply andb_true_iff in E. destruct E as [E _]. apply andb_true_iff in E. destruct E as [_ E].
    rewrite E. reflexivity.
  - simpl. intros H. specialize (IH H). rewrite !cnt_cons. lia.
Qed.

Theorem reply_frees_slot L s d c serial :
  registered s d = true -> registered s c = true -> outstanding s c d serial = true ->
  n_awaiting (fst (lstep L s (Reply d c serial))) c + 1 = n_awaiting s c.
Proof.
  intros Hd Hc Ho. cbn [lstep]. unfold registered in Hd. destruct (find_conn (s_conns s) d) as [dn|]; [|discriminate]. rewrite Hd. cbn [negb]. cbv iota.
  unfold is_active. unfold registered in Hc. rewrite Hc. cbn [negb fst]. unfold n_awaiting. cbn [with_pending s_pending].
  apply check_reply_frees. unfold outstanding in Ho. rewrite <- Ho. clear. induction (s_pending s) as [|p l IH]; [reflexivity|]. simpl. rewrite IH. f_equal.
  unfold pend_match. destruct (p_serial p =? serial), (p_get p =? c), (p_send p =? d); reflexivity.
Qed.

Lemma expire_one_frees l g s pl : expire_one l g s = Some pl ->
  cnt (fun p => p_get p =? g) pl + 1 = cnt (fun p => p_get p =? g) l.
Proof.
  revert pl. induction l as [|p l IH]; intros pl; simpl; [discriminate|].
  destruct (expire_one l g s) as [r|].
  - intros H; inversion H; subst. specialize (IH r eq_refl). rewrite !cnt_cons. lia.
  - destruct ((p_get p =? g) && (p_serial p =? s)) eqn:E; [|discriminate]. intros H; inversion H; subst. rewrite cnt_cons.
    apply andb_true_iff in E. destruct E as [E _]. rewrite E. reflexivity.
Qed.

Theorem timeout_frees_slot L s c serial :
  In (c, ONoReply serial) (snd (lstep L s (ReplyTimeout c serial))) ->
  n_awaiting (fst (lstep L s (ReplyTimeout c serial))) c + 1 = n_awaiting s c.
Proof.
  cbn [lstep]. destruct (expire_one (s_pending s) c serial) as [pl|] eqn:E; [|intros []]. intros _. cbn [fst].
  unfold n_awaiting. cbn [with_pending s_pending]. exact (expire_one_frees _ _ _ _ E).
Qed.

Lemma drop_pending_frees l d g : g <> d ->
  cnt (fun p => p_get p =? g) (fst (drop_pending l d)) + cnt (fun p => (p_get p =? g) && (p_send p =? d)) l = cnt (fun p => p_get p =? g) l.
Proof.
  intros Hne. induction l as [|p l IH]; [reflexivity|]. simpl. destruct (drop_pending l d) as [r o]. simpl in IH.
  rewrite !cnt_cons. destruct (p_get p =? d) eqn:E1.
  - apply N.eqb_eq in E1. simpl. replace (p_get p =? g) with false by (symmetry; apply N.eqb_neq; congruence). simpl. lia.
  - destruct (p_send p =? d); simpl; rewrite ?cnt_cons; destruct (p_get p =? g); simpl; lia.
Qed.

Theorem callee_disconnect_frees_slots L s d c byb :
  linv L s -> connected s d = true -> c <> d ->
  n_awaiting (fst (disconnect L s d byb)) c + cnt (fun p => (p_get p =? c) && (p_send p =? d)) (s_pending s) = n_awaiting s c.
Proof.
  intros I Hd Hne. unfold connected in Hd. destruct (find_conn (s_conns s) d) as [dn|] eqn:Hf; [|discriminate].
  destruct (linv_find_cd L s d dn I Hf) as [x Hx].
  destruct (disconnect_effect L s d byb dn x I Hf Hx) as [_ _ _ _ Hp _]. unfold n_awaiting. rewrite Hp.
  apply drop_pending_frees. exact Hne.
Qed.

(* a name that is released (as owner or from the queue) frees a name slot *)
Lemma find_conn_upd cs c f cn : find_conn cs c = Some cn -> c_id (f cn) = c_id cn ->
  find_conn (upd_conn cs c f) c = Some (f cn).
Proof.
  induction cs as [|x cs IH]; simpl; [discriminate|]. destruct (c_id x =? c) eqn:E.
  - intros H Hc. inversion H; subst x. simpl. rewrite Hc, E. reflexivity.
  - intros H Hc. simpl. rewrite E. apply IH; assumption.
Qed.

Lemma deliver_no_fault cs es : (forall e, In e es -> emit_msg e <> MFault) -> existsb is_fault (deliver cs es) = false.
Proof.
  intros H. destruct (existsb is_fault (deliver cs es)) eqn:E; [|reflexivity]. exfalso.
  apply existsb_exists in E. destruct E as [o [Ho Fo]]. apply deliver_msgs in Ho. destruct Ho as [e [He Eo]].
  unfold is_fault in Fo. rewrite Eo in Fo. specialize (H e He). destruct (emit_msg e); try discriminate. apply H. reflexivity.
Qed.

Theorem release_frees_name L s c name q :
  linv L s -> registered s c = true -> requestable name = true ->
  lookup (s_services s) (KW name) = Some q -> queued c q = true ->
  n_names (fst (lstep L s (ReleaseName c name))) c + 1 = n_names s c.
Proof.
  intros I Hr Hq Hl Hqd.
  pose proof (via_registry_linv L s c (EvRelease c name) (or_intror (ex_intro _ name eq_refl)) I) as I'.
  unfold registered in Hr. destruct (find_conn (s_conns s) c) as [cn|] eqn:Hf; [|discriminate].
  pose proof (name_refused_spec name) as Hs. rewrite Hq in Hs. unfold name_refused in Hs. simpl in Hs.
  apply orb_false_iff in Hs. destruct Hs as [Hs E3]. apply orb_false_iff in Hs. destruct Hs as [E1 E2].
  assert (Hfo : exists o, find_owner q c = Some o).
  { destruct (find_owner q c) eqn:E; [eauto|]. apply find_owner_none in E. rewrite E in Hqd. discriminate. }
  destruct Hfo as [o Hfo].
  assert (Hro : exists q' es, remove_owner (KW name) q c = Some (q', es)).
  { unfold remove_owner. destruct q as [|p rest]; [discriminate Hfo|]. destruct (o_conn p =? c); [eauto|]. rewrite Hfo. eauto. }
  destruct Hro as [q' [es Hro]].
  assert (Hcid : c_id cn = c) by (apply find_conn_in in Hf; tauto).
  assert (Hstep : step (reg L s) (EvRelease c name) =
                  (with_services (reg L s) (own_del (s_conns s) c (KW name)) (put_queue (s_services s) (KW name) q'),
                   deliver (own_del (s_conns s) c (KW name)) (es ++ [EUni c (MReply DBUS_RELEASE_NAME_REPLY_RELEASED)]))).
  { simpl. rewrite Hf, Hr. simpl. unfold release_service. rewrite E1, E2, E3. simpl b_services. rewrite Hl, Hcid, Hfo, Hro. reflexivity. }
  revert I'. cbn [lstep]. unfold via_registry. rewrite Hstep.
  rewrite deliver_no_fault.
  2:{ intros e He. apply in_app_or in He. destruct He as [He|[<-|[]]]; [|discriminate].
      pose proof (remove_owner_signals _ _ _ _ _ Hro e He) as Sg. destruct (emit_msg e); try discriminate. }
  cbn [fst]. intros I'.
  set (g := fun x : conn => mkConn (c_id x) (c_active x) (c_match x) (remove_last (KW name) (c_owned x))).
  assert (Hf' : find_conn (s_conns (with_reg s (with_services (reg L s) (own_del (s_conns s) c (KW name)) (put_queue (s_services s) (KW name) q')))) c = Some (g cn)).
  { simpl. unfold own_del. apply (find_conn_upd (s_conns s) c g cn Hf). reflexivity. }
  destruct (find_conn_in _ _ _ Hf') as [Hin' Hc'].
  destruct (find_conn_in _ _ _ Hf) as [Hin _].
  pose proof (linv_names_exact L _ (g cn) I' Hin') as N1. rewrite Hc' in N1.
  pose proof (linv_names_exact L s cn I Hin) as N2. rewrite Hcid in N2. rewrite <- N1, <- N2.
  assert (Hk : In (KW name) (c_owned cn)).
  { destruct (inv_owned _ (linv_inv L s I) cn Hin) as [_ Ho]. apply Ho. simpl. unfold mget. rewrite Hl, Hcid. exact Hqd. }
  simpl. unfold nlen. pose proof (remove_last_length_in _ _ Hk). lia.
Qed.
