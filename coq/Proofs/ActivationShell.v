(* C19, Exec lines: _dbus_shell_parse_argv (Helper.shell_parse) recovers every
   argument vector from its canonical shell quoting -- each argument in single
   quotes, an embedded single quote written '\'' , arguments separated by one
   blank -- for ALL argument vectors (any bytes but NUL, including blanks,
   newlines, backslashes, double quotes, '#', '$').  Hence every argv can be put
   into an Exec line, and what the launch decision executes is exactly what the
   line denotes under the shell's quoting rules. *)
From DV Require Import Lib.Base Activation.Helper.
Local Open Scope N_scope.

Fixpoint esc (a : bytes) : bytes :=
  match a with
  | [] => []
  | c :: r => if c =? 39 then 39 :: 92 :: 39 :: 39 :: esc r else c :: esc r
  end.

Definition squote (a : bytes) : bytes := 39 :: esc a ++ [39].

Fixpoint join_blank (l : list bytes) : bytes :=
  match l with
  | [] => []
  | [a] => a
  | a :: r => a ++ 32 :: join_blank r
  end.

(* inside a single-quoted word, up to and including the closing quote *)
Lemma tokenize_word a : forall q cur acc tail,
  tokenize (esc a ++ 39 :: tail) (QQuote 39) q cur acc = tokenize tail QNone false (39 :: rev (esc a) ++ cur) acc.
Proof.
  induction a as [|c r IH]; intros q cur acc tail.
  - reflexivity.
  - cbn [esc]. destruct (c =? 39) eqn:E.
    + cbn [app]. cbn [tokenize]. cbn. rewrite IH. f_equal.
      cbn [rev]. rewrite <- !app_assoc. reflexivity.
    + cbn [app tokenize]. rewrite E. cbn [andb]. rewrite IH. f_equal.
      cbn [rev]. rewrite <- app_assoc. reflexivity.
Qed.

Lemma unquote_word a : forall acc tail,
  unquote (esc a ++ 39 :: tail) USq acc = unquote tail UNone (rev a ++ acc).
Proof.
  induction a as [|c r IH]; intros acc tail.
  - reflexivity.
  - cbn [esc]. destruct (c =? 39) eqn:E.
    + apply N.eqb_eq in E. subst c. cbn [app unquote]. cbn. rewrite IH. f_equal. cbn [rev]. rewrite <- app_assoc. reflexivity.
    + cbn [app unquote]. rewrite E. rewrite IH. f_equal. cbn [rev]. rewrite <- app_assoc. reflexivity.
Qed.

Lemma unquote_squote a : unquote (squote a) UNone [] = Some a.
Proof.
  unfold squote. cbn [unquote]. cbn. rewrite unquote_word. cbn [unquote]. rewrite app_nil_r, rev_involutive. reflexivity.
Qed.

Lemma rev_squote a : rev (39 :: rev (esc a) ++ [39]) = squote a.
Proof. cbn [rev]. rewrite rev_app_distr, rev_involutive. reflexivity. Qed.

Lemma rev_squote' a : rev (rev (esc a) ++ [39]) ++ [39] = squote a.
Proof. rewrite rev_app_distr, rev_involutive. reflexivity. Qed.

Lemma tokenize_quoted argv : argv <> [] -> forall q acc,
  tokenize (join_blank (map squote argv)) QNone q [] acc = Some (rev acc ++ map squote argv).
Proof.
  induction argv as [|a r IH]; intros Hne q acc; [congruence|].
  destruct r as [|b r].
  - cbn [map join_blank]. unfold squote at 1. cbn [tokenize]. cbn.
    rewrite tokenize_word. cbn [tokenize]. cbn [rev]. rewrite rev_squote'. reflexivity.
  - change (join_blank (map squote (a :: b :: r))) with (squote a ++ 32 :: join_blank (map squote (b :: r))).
    remember (join_blank (map squote (b :: r))) as tail eqn:Et.
    unfold squote at 1. cbn [app]. rewrite <- app_assoc. cbn [app tokenize]. cbn.
    rewrite tokenize_word. cbn [tokenize]. cbn.
    subst tail. rewrite IH by discriminate.
    cbn [rev]. rewrite rev_squote'. rewrite <- app_assoc. reflexivity.
Qed.

Lemma cstr_id s : ~ In 0 s -> cstr s = s.
Proof.
  induction s as [|c r IH]; intros H; [reflexivity|]. cbn [cstr].
  destruct (c =? 0) eqn:E; [apply N.eqb_eq in E; subst; exfalso; apply H; left; reflexivity|].
  rewrite IH; [reflexivity|]. intros Hin. apply H. right. exact Hin.
Qed.

Lemma esc_no_zero a : ~ In 0 a -> ~ In 0 (esc a).
Proof.
  induction a as [|c r IH]; intros H; [exact H|]. cbn [esc].
  assert (~ In 0 r) as Hr by (intros Hin; apply H; right; exact Hin).
  destruct (c =? 39) eqn:E.
  - intros [F|[F|[F|[F|F]]]]; try discriminate. exact (IH Hr F).
  - intros [F|F]; [apply H; left; exact F | exact (IH Hr F)].
Qed.

Lemma join_no_zero l : (forall a, In a l -> ~ In 0 a) -> ~ In 0 (join_blank l).
Proof.
  induction l as [|a r IH]; intros H; [intros []|].
  destruct r as [|b r]; [apply H; left; reflexivity|].
  change (join_blank (a :: b :: r)) with (a ++ 32 :: join_blank (b :: r)).
  intros Hin. apply in_app_iff in Hin. destruct Hin as [Hin|[Hin|Hin]]; [exact (H a (or_introl eq_refl) Hin) | discriminate |].
  apply IH in Hin; [exact Hin|]. intros x Hx. apply H. right. exact Hx.
Qed.

Lemma map_opt_unquote argv : map_opt (fun t => unquote t UNone []) (map squote argv) = Some argv.
Proof.
  induction argv as [|a r IH]; [reflexivity|]. cbn [map map_opt]. rewrite unquote_squote, IH. reflexivity.
Qed.

Theorem shell_parse_quoted argv : argv <> [] -> (forall a, In a argv -> ~ In 0 a) ->
  shell_parse (join_blank (map squote argv)) = ShOk argv.
Proof.
  intros Hne Hz. unfold shell_parse. rewrite cstr_id.
  - rewrite (tokenize_quoted argv Hne false []). cbn [rev app]. rewrite map_opt_unquote. reflexivity.
  - apply join_no_zero. intros x Hx. apply in_map_iff in Hx. destruct Hx as [a [<- Ha]].
    unfold squote. intros [F|F]; [discriminate|]. apply in_app_iff in F. destruct F as [F|[F|[]]]; [|discriminate].
    exact (esc_no_zero a (Hz a Ha) F).
Qed.

(* an unterminated quote is an error (the launch is refused), never a guess *)
Lemma unclosed_quote_refused a : ~ In 0 a -> shell_parse (39 :: esc a) = ShErr.
Proof.
  intros Hz. unfold shell_parse. rewrite cstr_id.
  - cbn [tokenize]. cbn.
    assert (forall a q cur acc, tokenize (esc a) (QQuote 39) q cur acc = None) as H.
    { clear. induction a as [|c r IH]; intros q cur acc; [reflexivity|]. cbn [esc]. destruct (c =? 39) eqn:E.
      - cbn [tokenize]. cbn. apply IH.
      - cbn [tokenize]. rewrite E. cbn [andb]. apply IH. }
    rewrite H. reflexivity.
  - intros [F|F]; [discriminate | exact (esc_no_zero a Hz F)].
Qed.

Example ex_quoted : shell_parse (join_blank (map squote [[47; 120]; [97; 32; 39; 98]; []])) = ShOk [[47; 120]; [97; 32; 39; 98]; []].
Proof. vm_compute. reflexivity. Qed.
