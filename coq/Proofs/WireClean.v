(* Clean corollaries for the wire theorems (C01 / C02).

   1. The wire-level premises [wire_ok] of the completeness theorems
      (Proofs/BodyComplete.v, Proofs/LoaderComplete.v) follow from well-formedness:
        - every string the specification accepts (UTF-8 string, object path,
          signature) consists of bytes < 256, so the "string bytes are bytes"
          premise is not a premise ([wfb_bytes_ok]);
        - signatures the grammar accepts are accepted by the C automaton
          (SigAutomaton.spec_signature_validate);
        - array element alignments agree with the generated table as soon as the
          value's own type is a parser-produced type ([tygood]); inside a value
          this propagates to every nested (also empty) array, and through
          variants because [sig_roundtrips] makes the contained type a parsed one.
      Hence [loader_complete_clean] / [demarshal_complete_clean]: no premise
      besides [wf_msg] (and the descriptor count).

   2. (part D) The specification decoder is sound w.r.t. the encoder (canonicity): whatever
      [dec] / [dec_seq] / [spec_decode_message] accept (on bytes < 256) is the canonical
      encoding of the value / message they return, and that value / message is well
      formed ([dec_sound], [dec_seq_sound], [spec_decode_sound]); with the round trips of
      Proofs/CodecRoundtrip.v / CodecMessage.v: decoder and encoder are mutually inverse
      ([spec_decode_iff]); and everything the specification decoder accepts, the loader
      model accepts ([decode_implies_load]). *)
From DV Require Import Lib.Base Gen.Tables Wire.Body Wire.Message Wire.Utf8 Spec.Codec Spec.NamesSpec Spec.Utf8Spec Wire.HeaderEdit
  Proofs.CodecBasics Proofs.CodecWf Proofs.CodecDecEq Proofs.CodecRoundtrip Proofs.CodecMessage Proofs.BodyCursor Proofs.BodyVbEq Proofs.BodyComplete
  Proofs.BodyLocal Proofs.NamesProofs Proofs.Utf8Proofs Proofs.SigRoundtrip Proofs.SigAutomaton Proofs.LoaderProofs Proofs.LoaderComplete
  Proofs.BodySound Proofs.LoaderSound.
From Coq Require Import ZArith ZifyBool ZifyN ZifyNat Arith.
Local Open Scope N_scope.
Ltac Zify.zify_post_hook ::= Z.div_mod_to_equations.

(* ---- A. strings accepted by the specification consist of bytes ------------------------------- *)
Lemma ab_cons c r : c < 256 -> all_bytes r = true -> all_bytes (c :: r) = true.
Proof. intros Hc Hr. unfold all_bytes in *. cbn [forallb]. rewrite Hr. unfold is_byte. replace (c <? 256) with true by lia. reflexivity. Qed.

Lemma utf8_bytes_fuel : forall f s, spec_utf8_fuel f s = true -> all_bytes s = true.
Proof.
  induction f as [|f IH]; intros s H; [discriminate|].
  cbn [spec_utf8_fuel] in H. unfold in_range, cont, in_range in H.
  destruct s as [|c1 r1]; [reflexivity|].
  destruct ((1 <=? c1) && (c1 <=? 127)) eqn:E1; [apply ab_cons; [lia | apply IH; exact H]|].
  destruct r1 as [|c2 r2]; [discriminate|].
  destruct ((194 <=? c1) && (c1 <=? 223)) eqn:E2.
  { apply andb_true_iff in H. destruct H as [H2 H]. apply ab_cons; [lia|]. apply ab_cons; [lia|]. apply IH; exact H. }
  destruct r2 as [|c3 r3]; [discriminate|].
  destruct (c1 =? 224) eqn:E3.
  { apply andb_true_iff in H. destruct H as [H2 H]. apply andb_true_iff in H2. destruct H2 as [H2 H3].
    apply ab_cons; [lia|]. apply ab_cons; [lia|]. apply ab_cons; [lia|]. apply IH; exact H. }
  destruct ((225 <=? c1) && (c1 <=? 236) || (238 <=? c1) && (c1 <=? 239)) eqn:E4.
  { apply andb_true_iff in H. destruct H as [H2 H]. apply andb_true_iff in H2. destruct H2 as [H2 H3].
    apply ab_cons; [lia|]. apply ab_cons; [lia|]. apply ab_cons; [lia|]. apply IH; exact H. }
  destruct (c1 =? 237) eqn:E5.
  { apply andb_true_iff in H. destruct H as [H2 H]. apply andb_true_iff in H2. destruct H2 as [H2 H3].
    apply ab_cons; [lia|]. apply ab_cons; [lia|]. apply ab_cons; [lia|]. apply IH; exact H. }
  destruct r3 as [|c4 r4]; [discriminate|].
  destruct (c1 =? 240) eqn:E6.
  { apply andb_true_iff in H. destruct H as [H2 H]. apply andb_true_iff in H2. destruct H2 as [H2 H4].
    apply andb_true_iff in H2. destruct H2 as [H2 H3].
    apply ab_cons; [lia|]. apply ab_cons; [lia|]. apply ab_cons; [lia|]. apply ab_cons; [lia|]. apply IH; exact H. }
  destruct ((241 <=? c1) && (c1 <=? 243)) eqn:E7.
  { apply andb_true_iff in H. destruct H as [H2 H]. apply andb_true_iff in H2. destruct H2 as [H2 H4].
    apply andb_true_iff in H2. destruct H2 as [H2 H3].
    apply ab_cons; [lia|]. apply ab_cons; [lia|]. apply ab_cons; [lia|]. apply ab_cons; [lia|]. apply IH; exact H. }
  destruct (c1 =? 244) eqn:E8; [|discriminate].
  apply andb_true_iff in H. destruct H as [H2 H]. apply andb_true_iff in H2. destruct H2 as [H2 H4].
  apply andb_true_iff in H2. destruct H2 as [H2 H3].
  apply ab_cons; [lia|]. apply ab_cons; [lia|]. apply ab_cons; [lia|]. apply ab_cons; [lia|]. apply IH; exact H.
Qed.

Lemma spec_utf8_bytes s : spec_utf8 s = true -> all_bytes s = true.
Proof. apply utf8_bytes_fuel. Qed.

Lemma path_loop_bytes : forall s since len, path_loop s since len = true -> all_bytes s = true.
Proof.
  induction s as [|c r IH]; intros since len H; [reflexivity|].
  cbn [path_loop] in H. change SLASH with 47 in H.
  destruct (c =? 47) eqn:E.
  - destruct (since <? 2); [discriminate|]. apply ab_cons; [lia | apply (IH _ _ H)].
  - destruct (valid_name_character c) eqn:V; [|discriminate].
    apply ab_cons; [|apply (IH _ _ H)].
    destruct (N.lt_ge_cases c 256) as [Hlt|Hge]; [exact Hlt|]. rewrite gen_name, (big_alnum_us c Hge) in V. discriminate.
Qed.

Lemma spec_path_bytes s : spec_path s = true -> all_bytes s = true.
Proof.
  rewrite <- path_correct. unfold validate_path. destruct s as [|c r]; [discriminate|]. change SLASH with 47.
  destruct (c =? 47) eqn:E; [|discriminate]. intros H. apply ab_cons; [lia | apply (path_loop_bytes _ _ _ H)].
Qed.

Lemma tygood_print_bytes : forall t, tygood t = true -> all_bytes (print_ty t) = true.
Proof.
  induction t as [c| |t IH|ts IH|k v IH] using ty_ind'; cbn [tygood print_ty]; intros H.
  - apply ab_cons; [|reflexivity]. destruct (N.lt_ge_cases c 256) as [Hlt|Hge]; [exact Hlt|]. rewrite (big_basic_code c Hge) in H. discriminate.
  - reflexivity.
  - apply ab_cons; [lia | apply IH; exact H].
  - apply andb_true_iff in H. destruct H as [_ H]. apply ab_cons; [lia|]. rewrite ab_app. apply andb_true_iff. split; [|reflexivity].
    induction IH as [|x r Hx Hr IHr]; [reflexivity|]. cbn [forallb flat_map] in *. apply andb_true_iff in H. destruct H as [H1 H2].
    rewrite ab_app, (Hx H1), (IHr H2). reflexivity.
  - apply andb_true_iff in H. destruct H as [Hk Hv]. apply ab_cons; [lia|]. apply ab_cons.
    + destruct (N.lt_ge_cases k 256) as [Hlt|Hge]; [exact Hlt|]. rewrite (big_basic_code k Hge) in Hk. discriminate.
    + rewrite ab_app, (IH Hv). reflexivity.
Qed.

Lemma tygood_prints_bytes : forall ts, forallb tygood ts = true -> all_bytes (flat_map print_ty ts) = true.
Proof.
  induction ts as [|t r IH]; intros H; [reflexivity|]. cbn [forallb flat_map] in *. apply andb_true_iff in H. destruct H as [H1 H2].
  rewrite ab_app, (tygood_print_bytes t H1), (IH H2). reflexivity.
Qed.

Lemma parsed_bytes s ts : parse_sig s = Some ts -> all_bytes s = true.
Proof.
  intros P. pose proof (parse_sig_tygood s ts P) as G. apply parse_sig_sound in P. destruct P as [-> _].
  apply tygood_prints_bytes. exact G.
Qed.

Lemma validate_signature_bytes s : validate_signature s = true -> all_bytes s = true.
Proof. intros H. destruct (validate_signature_sound s H) as (ts & P & _). exact (parsed_bytes s ts P). Qed.

Lemma spec_signature_bytes s : spec_signature s = true -> all_bytes s = true.
Proof. intros H. apply validate_signature_bytes. apply spec_signature_validate. exact H. Qed.

(* ---- B. the wire premises follow from well-formedness -------------------------------------------- *)
(* every string payload consists of bytes *)
Fixpoint bytes_ok (v : val) : bool :=
  match v with
  | VNum _ _ => true
  | VStr _ s => all_bytes s
  | VArr _ vs => forallb bytes_ok vs
  | VStruct fs => forallb bytes_ok fs
  | VDictE k x => bytes_ok k && bytes_ok x
  | VVar _ x => bytes_ok x
  end.

Lemma sig_model_tygood t : sig_model t = true -> tygood t = true.
Proof.
  unfold sig_model. intros H. apply andb_true_iff in H. destruct H as [_ H].
  destruct (parse_sig (print_ty t)) as [[|t' [|? ?]]|] eqn:P; try discriminate. apply ty_eqb_eq in H. subst t'.
  pose proof (parse_sig_tygood _ _ P) as G. cbn [forallb] in G. rewrite andb_true_r in G. exact G.
Qed.

Lemma sig_model_validate t : sig_model t = true -> validate_signature (print_ty t) = true.
Proof. unfold sig_model. intros H. apply andb_true_iff in H. destruct H as [H _]. apply andb_true_iff in H. exact (proj2 H). Qed.

Lemma forallb_map' {A B} (f : A -> B) (g : B -> bool) l : forallb g (map f l) = forallb (fun x => g (f x)) l.
Proof. induction l as [|x r IH]; [reflexivity|]. cbn [map forallb]. rewrite IH. reflexivity. Qed.

Definition WK (le : bool) (v : val) : Prop :=
  forall depth pos, wfx le depth pos v = true -> tygood (ty_of_val v) = true -> wire_ok v = true.

Lemma wfxs_wire_ok le : forall vs, Forall (WK le) vs ->
  forall depth pos, wfxs le vs depth pos = true -> forallb (fun x => tygood (ty_of_val x)) vs = true -> forallb wire_ok vs = true.
Proof.
  induction 1 as [|x r Hx Hr IH]; intros depth pos Hw Hg; [reflexivity|].
  cbn [wfxs forallb] in *. apply andb_true_iff in Hw. destruct Hw as [W1 W2]. apply andb_true_iff in Hg. destruct Hg as [G1 G2].
  rewrite (Hx _ _ W1 G1). cbn [andb]. apply (IH _ _ W2 G2).
Qed.

Lemma elems_tygood et : forall vs, tygood et = true -> forallb (fun x => ty_eqb (ty_of_val x) et) vs = true ->
  forallb (fun x => tygood (ty_of_val x)) vs = true.
Proof.
  induction vs as [|x r IH]; intros G H; [reflexivity|]. cbn [forallb] in *. apply andb_true_iff in H. destruct H as [H1 H2].
  apply ty_eqb_eq in H1. rewrite H1, G. cbn [andb]. apply IH; assumption.
Qed.

(* the relaxed well-formedness (hence the specification's) implies the wire premises *)
Theorem wfx_wire_ok le : forall v depth pos, wfx le depth pos v = true -> tygood (ty_of_val v) = true -> wire_ok v = true.
Proof.
  induction v as [c n|c s|et vs IH|fs IH|k x IHk IHx|t x IHx] using val_ind'; intros depth pos H G.
  - reflexivity.
  - cbn [wfx wire_ok] in *. apply andb_true_iff in H. destruct H as [_ H].
    destruct (c =? 115) eqn:E1; [apply andb_true_iff in H; rewrite (spec_utf8_bytes s (proj1 H)); replace (c =? 103) with false by lia; reflexivity|].
    destruct (c =? 111) eqn:E2; [apply andb_true_iff in H; rewrite (spec_path_bytes s (proj1 H)); replace (c =? 103) with false by lia; reflexivity|].
    destruct (c =? 103) eqn:E3; [|discriminate]. rewrite (validate_signature_bytes s H), H. reflexivity.
  - rewrite wfx_arr in H. apply andb_true_iff in H. destruct H as [_ H]. apply andb_true_iff in H. destruct H as [H Hws].
    apply andb_true_iff in H. destruct H as [Hty _]. cbn [ty_of_val tygood] in G.
    destruct (tygood_align et G) as [Ha Hc]. cbn [wire_ok]. rewrite Ha, N.eqb_refl.
    replace ((spec_align et =? 1) || (spec_align et =? 2) || (spec_align et =? 4) || (spec_align et =? 8)) with true by lia.
    cbn [andb]. apply (wfxs_wire_ok le vs IH _ _ Hws). apply (elems_tygood et); assumption.
  - rewrite wfx_struct in H. apply andb_true_iff in H. destruct H as [_ H]. apply andb_true_iff in H. destruct H as [_ Hws].
    cbn [ty_of_val tygood] in G. apply andb_true_iff in G. destruct G as [_ G]. cbn [wire_ok].
    apply (wfxs_wire_ok le fs IH _ _ Hws). rewrite forallb_map' in G. exact G.
  - rewrite wfx_dict in H. apply andb_true_iff in H. destruct H as [_ H]. apply andb_true_iff in H. destruct H as [Hk Hws].
    cbn [ty_of_val tygood] in G. apply andb_true_iff in G. destruct G as [Gk Gx].
    cbn [wfxs] in Hws. apply andb_true_iff in Hws. destruct Hws as [W1 W2]. apply andb_true_iff in W2. destruct W2 as [W2 _].
    cbn [wire_ok]. rewrite (IHx _ _ W2 Gx), andb_true_r. apply (IHk _ _ W1).
    destruct k; try discriminate; exact Gk.
  - cbn [wfx] in H. apply andb_true_iff in H. destruct H as [_ H]. apply andb_true_iff in H. destruct H as [H Hx].
    apply andb_true_iff in H. destruct H as [Hty Hsm]. apply ty_eqb_eq in Hty.
    cbn [wire_ok]. rewrite (sig_model_validate t Hsm). cbn [andb]. apply (IHx _ _ Hx). rewrite Hty. apply sig_model_tygood. exact Hsm.
Qed.

Corollary wfb_wire_ok le v depth pos : wfb le depth pos v = true -> tygood (ty_of_val v) = true -> wire_ok v = true.
Proof. intros H G. apply (wfx_wire_ok le v depth pos); [exact (proj1 (wfb_wfx le v depth pos H)) | exact G]. Qed.

(* in particular the "string bytes are bytes" premise is implied *)
Lemma wire_ok_bytes_ok : forall v, wire_ok v = true -> bytes_ok v = true.
Proof.
  induction v as [c n|c s|et vs IH|fs IH|k x IHk IHx|t x IHx] using val_ind'; cbn [wire_ok bytes_ok]; intros H.
  - reflexivity.
  - apply andb_true_iff in H. exact (proj1 H).
  - apply andb_true_iff in H. destruct H as [_ H]. rewrite forallb_forall in *. rewrite Forall_forall in IH. intros x Hin. apply (IH x Hin). apply H. exact Hin.
  - rewrite forallb_forall in *. rewrite Forall_forall in IH. intros x Hin. apply (IH x Hin). apply H. exact Hin.
  - apply andb_true_iff in H. destruct H as [H1 H2]. rewrite (IHk H1), (IHx H2). reflexivity.
  - apply andb_true_iff in H. destruct H as [_ H]. apply IHx. exact H.
Qed.

Corollary wfb_bytes_ok le v depth pos : wfb le depth pos v = true -> tygood (ty_of_val v) = true -> bytes_ok v = true.
Proof. intros H G. apply wire_ok_bytes_ok. exact (wfb_wire_ok le v depth pos H G). Qed.

Lemma wfxs_wire_ok_all le vs depth pos : wfxs le vs depth pos = true -> forallb tygood (map ty_of_val vs) = true -> forallb wire_ok vs = true.
Proof.
  intros H G. apply (wfxs_wire_ok le vs) with (depth := depth) (pos := pos); [|exact H|rewrite forallb_map' in G; exact G].
  apply Forall_forall. intros v _ d p. apply wfx_wire_ok.
Qed.

Lemma wfsb_wire_ok le vs depth pos : wfsb le vs depth pos = true -> forallb tygood (map ty_of_val vs) = true -> forallb wire_ok vs = true.
Proof.
  intros H G. apply (wfxs_wire_ok_all le vs depth pos); [|exact G].
  apply (wfsb_wfxs le vs); [|exact H]. apply Forall_forall. intros v _ d p. apply wfb_wfx.
Qed.

(* the body validator accepts the canonical encoding of every well-formed body whose types are signature types *)
Theorem validate_body_complete_clean le vs sg : wfsb le vs 0 0 = true -> parse_sig sg = Some (map ty_of_val vs) ->
  validate_body le (map ty_of_val vs) (encs le vs 0) = V_VALID.
Proof.
  intros H P. apply validate_body_complete; [exact H|]. apply (wfsb_wire_ok le vs 0 0 H). exact (parse_sig_tygood _ _ P).
Qed.

(* ---- C. messages: no wire premise at all ------------------------------------------------------------- *)
Definition msg_bytes_ok (m : smsg) : bool :=
  forallb (fun f => bytes_ok (sf_val f)) (s_fields m) && forallb bytes_ok (s_body m).

Lemma wf_msg_wire m : wf_msg m = true ->
  wire_ok (fields_val (s_le m) (s_fields m)) = true /\ forallb wire_ok (s_body m) = true.
Proof.
  intros H. destruct (wf_msg_inv m H) as (_ & _ & _ & _ & _ & Wf & _ & _ & _ & Hp & Wb & _). split.
  - apply (wfb_wire_ok (s_le m) _ 0 12 Wf). reflexivity.
  - apply (wfsb_wire_ok (s_le m) _ 0 0 Wb). exact (parse_sig_tygood _ _ Hp).
Qed.

(* so the bytes premise is implied too *)
Lemma wf_msg_bytes_ok m : wf_msg m = true -> msg_bytes_ok m = true.
Proof.
  intros H. destruct (wf_msg_wire m H) as [Kf Kb]. unfold msg_bytes_ok. apply andb_true_iff. split.
  - unfold fields_val in Kf. cbn [wire_ok] in Kf. apply andb_true_iff in Kf. destruct Kf as [_ Kf].
    rewrite forallb_map' in Kf. rewrite forallb_forall in *. intros f Hin. specialize (Kf f Hin).
    unfold enc_field in Kf. cbn [wire_ok forallb] in Kf. rewrite andb_true_r in Kf. apply andb_true_iff in Kf. destruct Kf as [_ Kf].
    apply andb_true_iff in Kf. apply wire_ok_bytes_ok. exact (proj2 Kf).
  - rewrite forallb_forall in *. intros v Hin. apply wire_ok_bytes_ok. apply Kb. exact Hin.
Qed.

Theorem loader_complete_clean m rest avail :
  wf_msg m = true -> spec_nfds (s_fields m) <= avail ->
  let E := spec_encode_message m in
  have_message DBUS_MAXIMUM_MESSAGE_LENGTH (E ++ rest) = HaveOk (s_le m) (m_flen m) (m_hlen m) (m_blen m) true /\
  exists hs, Forall2 (hf_ok (s_le m)) (s_fields m) hs /\
    load_message (s_le m) (m_flen m) (m_hlen m) (m_blen m) avail (E ++ rest)
      = inl (mkMsg (firstn (N.to_nat (m_hlen m)) E) (m_bodyb m) hs (spec_nfds (s_fields m))) /\
    firstn (N.to_nat (m_hlen m)) E ++ m_bodyb m = E.
Proof. intros H Hf. destruct (wf_msg_wire m H) as [Kf Kb]. exact (loader_complete m rest avail H Kf Kb Hf). Qed.

Theorem demarshal_complete_clean m rest :
  wf_msg m = true -> spec_nfds (s_fields m) = 0 -> nlen rest < 16 ->
  exists hs, Forall2 (hf_ok (s_le m)) (s_fields m) hs /\
    demarshal (spec_encode_message m ++ rest) = DemMsg (loaded_msg m hs) /\
    m_header (loaded_msg m hs) ++ m_body (loaded_msg m hs) = spec_encode_message m.
Proof. intros H Hf Hr. destruct (wf_msg_wire m H) as [Kf Kb]. exact (demarshal_complete m rest H Kf Kb Hf Hr). Qed.

Theorem loader_first_message_clean m rest :
  wf_msg m = true -> spec_nfds (s_fields m) = 0 ->
  exists hs more, Forall2 (hf_ok (s_le m)) (s_fields m) hs /\
    l_msgs (feed loader_new (spec_encode_message m ++ rest) 0) = loaded_msg m hs :: more.
Proof. intros H Hf. destruct (wf_msg_wire m H) as [Kf Kb]. exact (loader_first_message m rest H Kf Kb Hf). Qed.

Print Assumptions loader_complete_clean.
Print Assumptions demarshal_complete_clean.

(* ---- D. the specification decoder is sound w.r.t. the encoder (canonicity) ------------------------ *)
Lemma take_inv n d x r : take n d = Some (x, r) -> d = x ++ r /\ nlen x = n.
Proof.
  unfold take. destruct (nlen d <? n) eqn:E; [discriminate|]. intros H. injection H as <- <-.
  split; [symmetry; apply firstn_skipn|]. apply nlen_firstn. lia.
Qed.

Lemma skip_pad_inv pos a d p1 d1 : skip_pad pos a d = Some (p1, d1) -> d = zeros (pad_amount pos a) ++ d1 /\ p1 = pos + pad_amount pos a.
Proof.
  unfold skip_pad. destruct (take (pad_amount pos a) d) as [[z r]|] eqn:T; [|discriminate].
  destruct (forallb (N.eqb 0) z) eqn:Z; [|discriminate]. intros H. injection H as <- <-.
  destruct (take_inv _ _ _ _ T) as [-> L]. apply all_zero_zeros_eq in Z. rewrite L in Z. rewrite <- Z. split; reflexivity.
Qed.

Definition DRES (le : bool) (t : ty) (depth pos : N) (data : bytes) (v : val) (pos' : N) (rest : bytes) : Prop :=
  ty_of_val v = t /\ wfb le depth pos v = true /\ data = enc le v pos ++ rest /\ pos' = pos + nlen (enc le v pos).

Definition DSOUND (le : bool) (d : nat) : Prop :=
  forall t depth pos data v pos' rest, tygood t = true -> all_bytes data = true ->
    dec le d t depth pos data = Some (v, pos', rest) -> DRES le t depth pos data v pos' rest.

Lemma decs_sound le d : DSOUND le d -> forall ts depth pos data vs pos' rest, forallb tygood ts = true -> all_bytes data = true ->
  decs le d ts depth pos data = Some (vs, pos', rest) ->
  map ty_of_val vs = ts /\ wfsb le vs depth pos = true /\ data = encs le vs pos ++ rest /\ pos' = pos + nlen (encs le vs pos).
Proof.
  intros IH. induction ts as [|t r IHr]; intros depth pos data vs pos' rest Hg Hb H.
  - cbn [decs] in H. injection H as <- <- <-. cbn. repeat split. lia.
  - cbn [decs forallb] in *. apply andb_true_iff in Hg. destruct Hg as [G1 G2].
    destruct (dec le d t depth pos data) as [[[v p1] d1]|] eqn:D; [|discriminate].
    destruct (decs le d r depth p1 d1) as [[[vs' p2] d2]|] eqn:Ds; [|discriminate]. injection H as <- <- <-.
    destruct (IH _ _ _ _ _ _ _ G1 Hb D) as (T1 & W1 & E1 & P1).
    assert (Hb1 : all_bytes d1 = true) by (rewrite E1 in Hb; apply ab_app_inv in Hb; exact (proj2 Hb)).
    destruct (IHr _ _ _ _ _ _ G2 Hb1 Ds) as (T2 & W2 & E2 & P2). subst p1.
    cbn [map wfsb encs]. rewrite T1, T2, W1, W2. repeat split.
    + rewrite E1, E2, app_assoc. reflexivity.
    + rewrite nlen_app. lia.
Qed.

Lemma dec_elems_sound le d : DSOUND le d -> forall n et depth pos reg vs, tygood et = true -> all_bytes reg = true ->
  dec_elems le d et depth n pos reg = Some vs ->
  forallb (fun x => ty_eqb (ty_of_val x) et) vs = true /\ wfsb le vs (depth + 1) pos = true /\ reg = encs le vs pos.
Proof.
  intros IH. induction n as [|n IHn]; intros et depth pos reg vs Hg Hb H; [discriminate|].
  cbn [dec_elems] in H. destruct reg as [|b0 reg0]; [injection H as <-; repeat split|].
  destruct (dec le d et (depth + 1) pos (b0 :: reg0)) as [[[v p1] r1]|] eqn:D; [|discriminate].
  destruct (dec_elems le d et depth n p1 r1) as [vs'|] eqn:Ds; [|discriminate]. injection H as <-.
  destruct (IH _ _ _ _ _ _ _ Hg Hb D) as (T1 & W1 & E1 & P1).
  assert (Hb1 : all_bytes r1 = true) by (rewrite E1 in Hb; apply ab_app_inv in Hb; exact (proj2 Hb)).
  destruct (IHn _ _ _ _ _ Hg Hb1 Ds) as (T2 & W2 & E2). subst p1.
  cbn [forallb wfsb encs]. rewrite T1, ty_eqb_refl, T2, W1, W2. repeat split. rewrite E1, E2 at 1. reflexivity.
Qed.

Lemma depth_chk depth : (max_value_depth <? depth) = false -> (depth <=? max_value_depth) = true.
Proof. lia. Qed.

Lemma not_fixed_basic c : is_basic_code c = true -> fixed_size c = None -> c = 115 \/ c = 111 \/ c = 103.
Proof.
  intros H F. apply basic_code_cases in H.
  destruct H as [->|[->|[->|[->|[->|[->|[->|[->|[->|[->|[->|[->| ->]]]]]]]]]]]]; try (vm_compute in F; discriminate); lia.
Qed.

Lemma dec_string_sound le d c depth pos data v pos' rest : (c = 115 \/ c = 111) -> all_bytes data = true ->
  dec le (S d) (TBasic c) depth pos data = Some (v, pos', rest) -> DRES le (TBasic c) depth pos data v pos' rest.
Proof.
  intros Hc Hb H. rewrite (dec_string le d c) in H by exact Hc.
  destruct (max_value_depth <? depth) eqn:Hd; [discriminate|]. apply depth_chk in Hd.
  destruct (skip_pad pos 4 data) as [[p1 d1]|] eqn:SP; [|discriminate]. destruct (skip_pad_inv _ _ _ _ _ SP) as [-> ->].
  destruct (take 4 d1) as [[lb d2]|] eqn:T; [|discriminate]. destruct (take_inv _ _ _ _ T) as [-> Lb]. cbv zeta in H.
  destruct (take (num_of le lb) d2) as [[s d3]|] eqn:T2; [|discriminate]. destruct (take_inv _ _ _ _ T2) as [-> Ls].
  destruct d3 as [|z d4]; [discriminate|]. destruct z; [|discriminate].
  destruct (if c =? 115 then spec_utf8 s else spec_path s) eqn:Ok; [|discriminate]. injection H as <- <- <-.
  apply ab_app_inv in Hb. destruct Hb as [_ Hb]. apply ab_app_inv in Hb. destruct Hb as [Hbl _].
  destruct (bytes_of_num le lb Hbl) as [E1 E2]. rewrite Lb in E2. change (256 ^ 4) with 4294967296 in E2.
  assert (L4 : length lb = 4%nat) by (unfold nlen in Lb; lia). rewrite L4 in E1.
  assert (Eenc : enc le (VStr c s) pos = zeros (pad_amount pos 4) ++ lb ++ s ++ [0]).
  { rewrite enc_str. replace (c =? 103) with false by lia. rewrite Ls, E1. reflexivity. }
  unfold DRES. split; [reflexivity|]. split.
  - cbn [wfb]. rewrite Hd. cbn [andb]. destruct Hc as [-> | ->]; cbn [N.eqb Pos.eqb] in *; rewrite Ok; cbn [andb]; lia.
  - rewrite Eenc. split; [rewrite <- !app_assoc; reflexivity|].
    rewrite !nlen_app, nlen_zeros, Lb, Ls. change (nlen [0]) with 1. lia.
Qed.

Lemma dec_signature_sound le d depth pos data v pos' rest :
  dec le (S d) (TBasic 103) depth pos data = Some (v, pos', rest) -> DRES le (TBasic 103) depth pos data v pos' rest.
Proof.
  intros H. rewrite dec_signature in H.
  destruct (max_value_depth <? depth) eqn:Hd; [discriminate|]. apply depth_chk in Hd.
  destruct data as [|len d1]; [discriminate|].
  destruct (take len d1) as [[s d2]|] eqn:T; [|discriminate]. destruct (take_inv _ _ _ _ T) as [-> Ls].
  destruct d2 as [|z d3]; [discriminate|]. destruct z; [|discriminate].
  destruct (spec_signature s) eqn:Ok; [|discriminate]. injection H as <- <- <-.
  unfold DRES. split; [reflexivity|]. split; [cbn [wfb N.eqb Pos.eqb]; rewrite Hd, Ok; reflexivity|].
  rewrite enc_str. cbn [N.eqb Pos.eqb]. rewrite Ls. split; [cbn [app]; rewrite <- app_assoc; reflexivity|].
  rewrite nlen_cons, nlen_app. change (nlen [0]) with 1. lia.
Qed.

Theorem dec_sound_fuel le : forall d, DSOUND le d.
Proof.
  induction d as [|d IH]; intros t depth pos data v pos' rest Hg Hb H; [discriminate|].
  destruct t as [c| |et|ts|k vt].
  - (* basic *)
    destruct (fixed_size c) as [sz|] eqn:Hsz.
    + rewrite (dec_fixed le d c sz) in H by exact Hsz.
      destruct (max_value_depth <? depth) eqn:Hd; [discriminate|]. apply depth_chk in Hd.
      destruct (skip_pad pos sz data) as [[p1 d1]|] eqn:SP; [|discriminate]. destruct (skip_pad_inv _ _ _ _ _ SP) as [-> ->].
      destruct (take sz d1) as [[b d2]|] eqn:T; [|discriminate]. destruct (take_inv _ _ _ _ T) as [-> Lb]. cbv zeta in H.
      destruct ((c =? 98) && negb ((num_of le b =? 0) || (num_of le b =? 1))) eqn:Eb; [discriminate|]. injection H as <- <- <-.
      apply ab_app_inv in Hb. destruct Hb as [_ Hb]. apply ab_app_inv in Hb. destruct Hb as [Hbb _].
      destruct (bytes_of_num le b Hbb) as [Eb1 Eb2]. rewrite Lb in Eb2.
      assert (Eenc : enc le (VNum c (num_of le b)) pos = zeros (pad_amount pos sz) ++ b).
      { rewrite enc_num, Hsz. f_equal. rewrite <- Eb1 at 2. f_equal. unfold nlen in Lb. lia. }
      unfold DRES. split; [reflexivity|]. split.
      * cbn [wfb]. rewrite Hd, Hsz. cbn [andb]. apply andb_true_iff. split; lia.
      * rewrite Eenc. split; [rewrite <- app_assoc; reflexivity|]. rewrite nlen_app, nlen_zeros. lia.
    + cbn [tygood] in Hg. destruct (not_fixed_basic c Hg Hsz) as [-> | [-> | ->]].
      * apply (dec_string_sound le d 115); [lia | exact Hb | exact H].
      * apply (dec_string_sound le d 111); [lia | exact Hb | exact H].
      * apply (dec_signature_sound le d); exact H.
  - (* variant *)
    rewrite dec_variant in H.
    destruct (max_value_depth <? depth) eqn:Hd; [discriminate|]. apply depth_chk in Hd.
    destruct data as [|len d1]; [discriminate|].
    destruct (take len d1) as [[s d2]|] eqn:T; [|discriminate]. destruct (take_inv _ _ _ _ T) as [-> Ls].
    destruct d2 as [|z d3]; [discriminate|]. destruct z; [|discriminate].
    destruct (spec_single_signature s) eqn:Ss; [|discriminate].
    destruct (parse_sig s) as [[|ct [|? ?]]|] eqn:P; try discriminate.
    destruct (dec le d ct (depth + 1) (pos + 1 + len + 1) d3) as [[[x p2] d5]|] eqn:D; [|discriminate]. injection H as <- <- <-.
    pose proof (parse_sig_tygood _ _ P) as G. cbn [forallb] in G. rewrite andb_true_r in G.
    destruct (parse_sig_sound _ _ P) as [Es _]. cbn [flat_map] in Es. rewrite app_nil_r in Es. subst s.
    assert (Hb3 : all_bytes d3 = true).
    { apply ab_cons_inv in Hb. destruct Hb as [_ Hb]. apply ab_app_inv in Hb. destruct Hb as [_ Hb]. apply ab_cons_inv in Hb. exact (proj2 Hb). }
    destruct (IH _ _ _ _ _ _ _ G Hb3 D) as (T1 & W1 & E1 & P1).
    assert (Hl : nlen (print_ty ct) <= 255).
    { unfold spec_single_signature, spec_signature in Ss. apply andb_true_iff in Ss. destruct Ss as [Ss _]. apply andb_true_iff in Ss. destruct Ss as [Ss _]. lia. }
    unfold DRES. split; [reflexivity|]. split.
    + cbn [wfb]. rewrite Hd, T1, ty_eqb_refl. unfold sig_roundtrips. rewrite Ss, P, ty_eqb_refl.
      replace (nlen (print_ty ct) <? 256) with true by lia. cbn [andb].
      replace (pos + (nlen (print_ty ct) + 2)) with (pos + 1 + len + 1) by lia. exact W1.
    + rewrite enc_var. cbv zeta.
      assert (Hp : pos + nlen (nlen (print_ty ct) :: print_ty ct ++ [0]) = pos + 1 + len + 1).
      { rewrite nlen_cons, nlen_app. change (nlen [0]) with 1. lia. }
      rewrite Hp. split.
      * rewrite E1 at 1. rewrite Ls. cbn [app]. rewrite <- !app_assoc. reflexivity.
      * rewrite P1. rewrite nlen_app, nlen_cons, nlen_app. change (nlen [0]) with 1. lia.
  - (* array *)
    cbn [tygood] in Hg. rewrite dec_array in H.
    destruct (max_value_depth <? depth) eqn:Hd; [discriminate|]. apply depth_chk in Hd.
    destruct (skip_pad pos 4 data) as [[p1 d1]|] eqn:SP; [|discriminate]. destruct (skip_pad_inv _ _ _ _ _ SP) as [-> ->].
    destruct (take 4 d1) as [[lb d2]|] eqn:T; [|discriminate]. destruct (take_inv _ _ _ _ T) as [-> Lb]. cbv zeta in H.
    destruct (max_array <? num_of le lb) eqn:Hm; [discriminate|].
    destruct (skip_pad (pos + pad_amount pos 4 + 4) (spec_align et) d2) as [[p2 d3]|] eqn:SP2; [|discriminate].
    destruct (skip_pad_inv _ _ _ _ _ SP2) as [-> ->].
    destruct (take (num_of le lb) d3) as [[region rest']|] eqn:T2; [|discriminate]. destruct (take_inv _ _ _ _ T2) as [-> Lr].
    destruct (dec_elems le d et depth (S (length region)) _ region) as [vs|] eqn:De; [|discriminate]. injection H as <- <- <-.
    apply ab_app_inv in Hb. destruct Hb as [_ Hb]. apply ab_app_inv in Hb. destruct Hb as [Hbl Hb].
    apply ab_app_inv in Hb. destruct Hb as [_ Hb]. apply ab_app_inv in Hb. destruct Hb as [Hbr _].
    destruct (dec_elems_sound le d IH _ et depth _ region vs Hg Hbr De) as (Ht & Hws & Ereg).
    fold (arr_start pos et) in *.
    destruct (bytes_of_num le lb Hbl) as [E1 E2].
    assert (L4 : length lb = 4%nat) by (unfold nlen in Lb; lia). rewrite L4 in E1.
    assert (Eenc : enc le (VArr et vs) pos = zeros (pad_amount pos 4) ++ lb ++ zeros (pad_amount (pos + pad_amount pos 4 + 4) (spec_align et)) ++ region).
    { rewrite enc_arr. cbv zeta. fold (arr_start pos et). rewrite <- Ereg, Lr, E1. reflexivity. }
    unfold DRES. split; [reflexivity|]. split.
    + rewrite wfb_arr. rewrite Hd, Ht, Hws, <- Ereg, Lr. cbn [andb]. rewrite andb_true_r. lia.
    + rewrite Eenc. split; [rewrite <- !app_assoc; reflexivity|].
      rewrite !nlen_app, !nlen_zeros, Lb, Lr. unfold arr_start. lia.
  - (* struct *)
    cbn [tygood] in Hg. apply andb_true_iff in Hg. destruct Hg as [Hne Hg]. rewrite dec_struct in H.
    destruct (max_value_depth <? depth) eqn:Hd; [discriminate|]. apply depth_chk in Hd.
    destruct (skip_pad pos 8 data) as [[p1 d1]|] eqn:SP; [|discriminate]. destruct (skip_pad_inv _ _ _ _ _ SP) as [-> ->].
    destruct (decs le d ts (depth + 1) _ d1) as [[[vs p2] d2]|] eqn:Ds; [|discriminate]. injection H as <- <- <-.
    apply ab_app_inv in Hb. destruct Hb as [_ Hb].
    destruct (decs_sound le d IH _ _ _ _ _ _ _ Hg Hb Ds) as (Tm & Ws & E1 & P1).
    unfold DRES. split; [cbn [ty_of_val]; rewrite Tm; reflexivity|]. split.
    + rewrite wfb_struct, Hd, Ws. destruct vs; [subst ts; discriminate|reflexivity].
    + rewrite enc_struct. split; [rewrite E1 at 1; rewrite <- app_assoc; reflexivity|]. rewrite nlen_app, nlen_zeros. lia.
  - (* dict entry *)
    cbn [tygood] in Hg. rewrite dec_dict in H.
    destruct (max_value_depth <? depth) eqn:Hd; [discriminate|]. apply depth_chk in Hd.
    destruct (skip_pad pos 8 data) as [[p1 d1]|] eqn:SP; [|discriminate]. destruct (skip_pad_inv _ _ _ _ _ SP) as [-> ->].
    destruct (decs le d [TBasic k; vt] (depth + 1) _ d1) as [[[vs p2] d2]|] eqn:Ds; [|discriminate].
    destruct vs as [|kv [|vv [|? ?]]]; try discriminate. injection H as <- <- <-.
    apply ab_app_inv in Hb. destruct Hb as [_ Hb].
    assert (Hg2 : forallb tygood [TBasic k; vt] = true) by (cbn [forallb tygood]; rewrite andb_true_r; exact Hg).
    destruct (decs_sound le d IH _ _ _ _ _ _ _ Hg2 Hb Ds) as (Tm & Ws & E1 & P1).
    cbn [map] in Tm. injection Tm as Tk Tv.
    assert (Hkb : is_basic_val kv = true /\ match kv with VNum c _ => c | VStr c _ => c | _ => 0 end = k).
    { destruct kv; cbn [ty_of_val] in Tk; try discriminate; injection Tk as ->; split; reflexivity. }
    destruct Hkb as [Hkb Hkc].
    unfold DRES. split; [cbn [ty_of_val]; rewrite Hkc, Tv; reflexivity|]. split.
    + rewrite wfb_dict, Hd, Hkb, Ws. reflexivity.
    + rewrite enc_dict. split; [rewrite E1 at 1; rewrite <- app_assoc; reflexivity|]. rewrite nlen_app, nlen_zeros. lia.
Qed.

(* the decoder is the inverse of the encoder in both directions *)
Theorem dec_sound le d t depth pos data v pos' rest : tygood t = true -> all_bytes data = true ->
  dec le d t depth pos data = Some (v, pos', rest) ->
  ty_of_val v = t /\ wfb le depth pos v = true /\ data = enc le v pos ++ rest /\ pos' = pos + nlen (enc le v pos).
Proof. exact (dec_sound_fuel le d t depth pos data v pos' rest). Qed.

Lemma dec_seq_cons le t r pos data : dec_seq le (t :: r) pos data =
  match dec le DEC_FUEL t 0 pos data with
  | Some (v, p, d) => match dec_seq le r p d with Some (vs, p2, d2) => Some (v :: vs, p2, d2) | None => None end
  | None => None
  end.
Proof. reflexivity. Qed.

Theorem dec_seq_sound le : forall ts pos data vs pos' rest, forallb tygood ts = true -> all_bytes data = true ->
  dec_seq le ts pos data = Some (vs, pos', rest) ->
  map ty_of_val vs = ts /\ wfsb le vs 0 pos = true /\ data = encs le vs pos ++ rest /\ pos' = pos + nlen (encs le vs pos).
Proof.
  induction ts as [|t r IHr]; intros pos data vs pos' rest Hg Hb H.
  - cbn [dec_seq] in H. injection H as <- <- <-. cbn. repeat split. lia.
  - rewrite dec_seq_cons in H. cbn [forallb] in Hg. apply andb_true_iff in Hg. destruct Hg as [G1 G2].
    generalize dependent DEC_FUEL. intros fuel H.
    destruct (dec le fuel t 0 pos data) as [[[v p1] d1]|] eqn:D; [|discriminate].
    destruct (dec_seq le r p1 d1) as [[[vs' p2] d2]|] eqn:Ds; [|discriminate]. injection H as <- <- <-.
    destruct (dec_sound le _ _ _ _ _ _ _ _ G1 Hb D) as (T1 & W1 & E1 & P1).
    assert (Hb1 : all_bytes d1 = true) by (rewrite E1 in Hb; apply ab_app_inv in Hb; exact (proj2 Hb)).
    destruct (IHr _ _ _ _ _ G2 Hb1 Ds) as (T2 & W2 & E2 & P2). subst p1.
    cbn [map wfsb encs]. rewrite T1, T2, W1, W2. repeat split.
    + rewrite E1, E2, app_assoc. reflexivity.
    + rewrite nlen_app. lia.
Qed.

(* ---- messages ------------------------------------------------------------------------------------ *)
Lemma to_sfields_inv le : forall fvs fs, to_sfields fvs = Some fs ->
  forallb (fun x => ty_eqb (ty_of_val x) (TStruct [TBasic 121; TVariant])) fvs = true -> fvs = map (enc_field le) fs.
Proof.
  induction fvs as [|v r IH]; intros fs H Ht.
  - cbn in H. injection H as <-. reflexivity.
  - cbn [to_sfields forallb] in *. apply andb_true_iff in Ht. destruct Ht as [T1 T2].
    destruct (to_sfield v) as [f|] eqn:Ef; [|discriminate]. destruct (to_sfields r) as [fs'|] eqn:Er; [|discriminate]. injection H as <-.
    cbn [map]. rewrite <- (IH fs' eq_refl T2). f_equal.
    unfold to_sfield in Ef. destruct v as [| | |l| | ]; try discriminate. destruct l as [|a l]; [discriminate|].
    destruct a as [ca code| | | | | ]; try discriminate. destruct l as [|b l]; [discriminate|].
    destruct b as [| | | | |t x]; try discriminate. destruct l as [|? ?]; [|discriminate]. injection Ef as <-.
    apply ty_eqb_eq in T1. cbn [ty_of_val map] in T1. injection T1 as ->. reflexivity.
Qed.

Lemma skipn_add {A} : forall a b (l : list A), skipn (a + b) l = skipn b (skipn a l).
Proof. induction a as [|a IH]; intros b l; [reflexivity|]. destruct l as [|x l]; [cbn; rewrite skipn_nil; reflexivity|]. cbn. apply IH. Qed.

Lemma split_at {A} (n : N) (l : list A) : n <= nlen l -> exists a b, l = a ++ b /\ nlen a = n.
Proof. intros H. exists (firstn (N.to_nat n) l), (skipn (N.to_nat n) l). split; [symmetry; apply firstn_skipn | apply nlen_firstn; exact H]. Qed.

Lemma app_eq_len {A} : forall (a c b d : list A), a ++ b = c ++ d -> length a = length c -> a = c /\ b = d.
Proof.
  induction a as [|x a IH]; intros [|y c] b d H L; try discriminate; [split; [reflexivity|exact H]|].
  cbn [app] in H. injection H as -> H. cbn [length] in L. destruct (IH c b d H ltac:(lia)) as [-> ->]. split; reflexivity.
Qed.

Lemma len4_bytes le b : all_bytes b = true -> nlen b = 4 -> bytes_of le 4 (num_of le b) = b /\ num_of le b < 4294967296.
Proof.
  intros Hb L. destruct (bytes_of_num le b Hb) as [E1 E2]. rewrite L in E2. change (256 ^ 4) with 4294967296 in E2.
  assert (L4 : length b = 4%nat) by (unfold nlen in L; lia). rewrite L4 in E1. split; assumption.
Qed.

Theorem spec_decode_sound d m n : all_bytes d = true -> spec_decode_message d = Some (m, n) ->
  firstn (N.to_nat n) d = spec_encode_message m /\ wf_msg m = true /\ n = nlen (spec_encode_message m).
Proof.
  intros Hb H. unfold spec_decode_message in H.
  destruct d as [|bo [|mt [|fl [|ver r0]]]]; try discriminate.
  destruct (negb ((bo =? 108) || (bo =? 66))) eqn:Ebo; [discriminate|].
  destruct ((mt =? 0) || negb (ver =? 1)) eqn:Emt; [discriminate|].
  destruct (take 4 r0) as [[blb r1]|] eqn:T1; [|discriminate].
  destruct (take 4 r1) as [[srb r2]|] eqn:T2; [|discriminate].
  cbv zeta in H.
  destruct (num_of (bo =? 108) srb =? 0) eqn:Esr; [discriminate|].
  destruct (take 4 r2) as [[flb r3]|] eqn:T3; [|discriminate].
  set (le := bo =? 108) in *. set (flen := num_of le flb) in *. set (blen := num_of le blb) in *. set (serial := num_of le srb) in *.
  set (hlen := 16 + flen + pad_amount (16 + flen) 8) in *.
  destruct ((max_message <? flen) || (max_message <? blen)) eqn:Elim; [discriminate|].
  destruct (max_message <? hlen + blen) eqn:Etot; [discriminate|].
  destruct (take (hlen + blen) (bo :: mt :: fl :: ver :: r0)) as [[whole tl]|] eqn:TW; [|discriminate].
  remember (dec le DEC_FUEL fields_array_ty 0 12 (firstn (N.to_nat (4 + flen)) (skipn 12 whole))) as DF eqn:EDF. symmetry in EDF.
  destruct DF as [[[fv pf] rf]|]; [|discriminate]. destruct fv as [| |et fvs| | |]; try discriminate. destruct rf; [|discriminate].
  destruct (to_sfields fvs) as [fs|] eqn:TS; [|discriminate].
  destruct (forallb (N.eqb 0) (firstn (N.to_nat (hlen - (16 + flen))) (skipn (N.to_nat (16 + flen)) whole))) eqn:PZ; cbn [negb] in H; [|discriminate].
  destruct (fields_ok [] fs && mandatory_ok mt fs) eqn:FO; cbn [negb] in H; [|discriminate].
  change (match find (fun f : sfield => sf_code f =? 8) fs with Some (mkSField _ _ (VStr _ s)) => s | _ => [] end) with (sig_of_fields fs) in H.
  destruct (parse_sig (sig_of_fields fs)) as [tys|] eqn:PS; [|discriminate].
  destruct (spec_signature (sig_of_fields fs)) eqn:SS; cbn [negb] in H; [|discriminate].
  remember (dec_seq le tys 0 (skipn (N.to_nat hlen) whole)) as DB eqn:EDB. symmetry in EDB.
  destruct DB as [[[vals pb] rb]|]; [|discriminate]. destruct rb; [|discriminate].
  injection H as <- <-.
  (* the pieces of the buffer *)
  destruct (take_inv _ _ _ _ T1) as [-> L1]. destruct (take_inv _ _ _ _ T2) as [-> L2]. destruct (take_inv _ _ _ _ T3) as [-> L3].
  clear T1 T2 T3.
  apply ab_cons_inv in Hb. destruct Hb as [Bbo Hb]. apply ab_cons_inv in Hb. destruct Hb as [Bmt Hb].
  apply ab_cons_inv in Hb. destruct Hb as [Bfl Hb]. apply ab_cons_inv in Hb. destruct Hb as [Bver Hb].
  apply ab_app_inv in Hb. destruct Hb as [Bblb Hb]. apply ab_app_inv in Hb. destruct Hb as [Bsrb Hb]. apply ab_app_inv in Hb. destruct Hb as [Bflb Br3].
  destruct (len4_bytes le blb Bblb L1) as [Eblb Mblb]. destruct (len4_bytes le srb Bsrb L2) as [Esrb Msrb]. destruct (len4_bytes le flb Bflb L3) as [Eflb Mflb].
  fold blen in Eblb, Mblb. fold serial in Esrb, Msrb. fold flen in Eflb, Mflb.
  set (H12 := [bo; mt; fl; ver] ++ blb ++ srb) in *.
  assert (LH12 : length H12 = 12%nat) by (unfold H12; rewrite !app_length; unfold nlen in L1, L2; cbn [length]; lia).
  assert (ED : bo :: mt :: fl :: ver :: blb ++ srb ++ flb ++ r3 = (H12 ++ flb) ++ r3) by (unfold H12; cbn [app]; rewrite <- !app_assoc; reflexivity).
  rewrite ED in *. clear ED.
  assert (LH16 : length (H12 ++ flb) = 16%nat) by (rewrite app_length, LH12; unfold nlen in L3; lia).
  unfold max_message in *.
  (* whole = H16 ++ W *)
  destruct (take_inv _ _ _ _ TW) as [EDW LW].
  assert (Ewhole : whole = firstn (N.to_nat (hlen + blen)) ((H12 ++ flb) ++ r3)).
  { rewrite EDW. symmetry. apply firstn_app_exact. unfold nlen in LW. lia. }
  rewrite firstn_app, LH16 in Ewhole. rewrite (firstn_all2 (H12 ++ flb)) in Ewhole by (rewrite LH16; unfold hlen; lia).
  set (W := firstn (N.to_nat (hlen + blen) - 16) r3) in *.
  assert (LWW : nlen W = flen + pad_amount (16 + flen) 8 + blen).
  { rewrite Ewhole, nlen_app in LW. unfold nlen at 1 in LW. rewrite LH16 in LW. unfold hlen in LW. lia. }
  destruct (split_at flen W ltac:(lia)) as (P & W1 & EW & LP).
  assert (LW1 : nlen W1 = pad_amount (16 + flen) 8 + blen) by (rewrite EW, nlen_app in LWW; lia).
  destruct (split_at (pad_amount (16 + flen) 8) W1 ltac:(lia)) as (Z & B & EW1 & LZ).
  assert (LB : nlen B = blen) by (rewrite EW1, nlen_app in LW1; lia).
  assert (Bw : all_bytes W = true) by (apply ab_firstn; exact Br3).
  rewrite EW in Bw. apply ab_app_inv in Bw. destruct Bw as [BP Bw]. rewrite EW1 in Bw. apply ab_app_inv in Bw. destruct Bw as [BZ BB].
  rewrite EW, EW1 in Ewhole.
  (* the three regions the decoder looks at *)
  assert (A1 : firstn (N.to_nat (4 + flen)) (skipn 12 whole) = flb ++ P).
  { rewrite Ewhole. rewrite <- app_assoc. rewrite skipn_app_exact by exact LH12. rewrite app_assoc.
    apply firstn_app_exact. rewrite app_length. unfold nlen in L3, LP. lia. }
  assert (A2 : firstn (N.to_nat (hlen - (16 + flen))) (skipn (N.to_nat (16 + flen)) whole) = Z).
  { rewrite Ewhole. rewrite app_assoc. rewrite skipn_app_exact by (rewrite app_length, LH16; unfold nlen in LP; lia).
    apply firstn_app_exact. unfold hlen. unfold nlen in LZ. lia. }
  assert (A3 : skipn (N.to_nat hlen) whole = B).
  { rewrite Ewhole. rewrite !app_assoc. apply skipn_app_exact. rewrite !app_length, LH12. unfold hlen. unfold nlen in L3, LP, LZ. lia. }
  rewrite A1 in EDF. rewrite A2 in PZ. rewrite A3 in EDB. clear A1 A2 A3.
  (* the header field array *)
  assert (Bfp : all_bytes (flb ++ P) = true) by (rewrite ab_app, Bflb, BP; reflexivity).
  destruct (dec_sound le _ _ _ _ _ _ _ _ (eq_refl : tygood fields_array_ty = true) Bfp EDF) as (Tf & Wf & Ef & _).
  cbn [ty_of_val] in Tf. unfold fields_array_ty in Tf. injection Tf as ->.
  pose proof Wf as Wf'. rewrite wfb_arr in Wf'. apply andb_true_iff in Wf'. destruct Wf' as [_ Wf']. apply andb_true_iff in Wf'. destruct Wf' as [Wf' _].
  apply andb_true_iff in Wf'. destruct Wf' as [Tfs _].
  rewrite (to_sfields_inv le fvs fs TS Tfs) in *. change (VArr (TStruct [TBasic 121; TVariant]) (map (enc_field le) fs)) with (fields_val le fs) in *.
  rewrite enc_fields_val, app_nil_r in Ef. set (payload := encs le (map (enc_field le) fs) 16) in *.
  destruct (app_eq_len _ _ _ _ Ef ltac:(rewrite bytes_of_len4; unfold nlen in L3; lia)) as [Eflb2 EP].
  assert (Lpay : nlen payload = flen) by (rewrite <- EP; exact LP).
  (* padding and body *)
  apply all_zero_zeros_eq in PZ. rewrite LZ in PZ.
  destruct (dec_seq_sound le _ _ _ _ _ _ (parse_sig_tygood _ _ PS) BB EDB) as (Tb & Wb & Eb & _). rewrite app_nil_r in Eb.
  assert (Hbo : bo = if le then 108 else 66) by (unfold le in *; destruct (bo =? 108) eqn:E1; lia).
  assert (Hver : ver = 1) by lia.
  set (M := mkSMsg le mt fl serial fs (sig_of_fields fs) vals).
  assert (Eenc : whole = spec_encode_message M).
  { rewrite encode_shape. unfold M, m_blen, m_flen, m_bodyb, m_payload. cbn [s_le s_type s_flags s_serial s_fields s_body].
    fold payload. rewrite <- Eb, LB, Lpay, Eblb, Esrb, Eflb, <- PZ, <- EP.
    rewrite Ewhole. unfold H12. rewrite Hbo, Hver. rewrite <- !app_assoc. reflexivity. }
  split; [|split].
  - rewrite EDW. rewrite firstn_app_exact by (unfold nlen in LW; lia). exact Eenc.
  - apply andb_true_iff in FO. destruct FO as [FO1 FO2].
    unfold wf_msg, M. cbn [s_le s_type s_flags s_serial s_fields s_sig s_body].
    rewrite Wf, FO1, FO2, SS, PS, Wb, bytes_eqb_refl. rewrite <- Tb, tys_eq_refl.
    fold payload. rewrite <- Eb, LB, Lpay. fold hlen. unfold max_message.
    repeat (apply andb_true_iff; split); try reflexivity; try lia.
  - fold M. rewrite <- Eenc. symmetry. exact LW.
Qed.
Print Assumptions spec_decode_sound.

(* decoder and encoder are mutually inverse on exact buffers *)
Corollary spec_decode_iff d m : all_bytes d = true ->
  (spec_decode_message d = Some (m, nlen d) <-> d = spec_encode_message m /\ wf_msg m = true).
Proof.
  intros Hb. split.
  - intros H. destruct (spec_decode_sound d m _ Hb H) as (E & W & _). split; [|exact W].
    rewrite <- E. unfold nlen. rewrite Nat2N.id. symmetry. apply firstn_all.
  - intros [-> W]. apply message_roundtrip. exact W.
Qed.

(* whatever the specification decoder accepts, the loader model accepts (with the same framing and bytes) *)
Theorem decode_implies_load d m n fds : all_bytes d = true -> spec_decode_message d = Some (m, n) ->
  spec_nfds (s_fields m) <= fds ->
  n = m_hlen m + m_blen m /\
  have_message DBUS_MAXIMUM_MESSAGE_LENGTH d = HaveOk (s_le m) (m_flen m) (m_hlen m) (m_blen m) true /\
  exists msg, load_message (s_le m) (m_flen m) (m_hlen m) (m_blen m) fds d = inl msg /\
              m_header msg ++ m_body msg = firstn (N.to_nat n) d /\ m_nfds msg = spec_nfds (s_fields m).
Proof.
  intros Hb H F. destruct (spec_decode_sound d m n Hb H) as (E & W & Hn).
  assert (Hd : d = spec_encode_message m ++ skipn (N.to_nat n) d) by (rewrite <- E; symmetry; apply firstn_skipn).
  destruct (loader_complete_clean m (skipn (N.to_nat n) d) fds W F) as (Hh & hs & _ & Hl & Hbytes). cbv zeta in *.
  rewrite <- Hd in Hh, Hl. split; [rewrite Hn; apply encode_len|]. split; [exact Hh|].
  eexists. split; [exact Hl|]. cbn [m_header m_body m_nfds]. split; [rewrite Hbytes, E; reflexivity | reflexivity].
Qed.

Print Assumptions dec_sound.
Print Assumptions spec_decode_iff.
Print Assumptions decode_implies_load.
