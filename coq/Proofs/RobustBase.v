(* C10 — basic facts about the connection table and single steps of Robust/Bus.v,
   and the two "local" theorems:
     invalid_disconnects_sender_only : what exactly a step does when the loader
                                       finds the stream invalid;
     preauth_silent                  : bytes of an unauthenticated client never reach the core. *)
From DV Require Import Lib.Base Wire.Message Robust.Bus.
From Coq Require Import ZArith ZifyBool ZifyN ZifyNat Arith.
Local Open Scope N_scope.

Section Base.
  Context {A S O : Type}.
  Variable P : ops A S O.
  Variable cf : cfg.

  (* ---- table lemmas ------------------------------------------------------- *)
  Lemma find_conn_id l c (x : conn A) : find_conn l c = Some x -> c_id x = c.
  Proof. unfold find_conn. intros H. apply find_some in H. destruct H as [_ H]. apply N.eqb_eq in H. exact H. Qed.

  Lemma find_conn_in l c (x : conn A) : find_conn l c = Some x -> In x l.
  Proof. unfold find_conn. intros H. apply find_some in H. tauto. Qed.

  Lemma find_remove_same (l : list (conn A)) c : find_conn (remove_conn l c) c = None.
  Proof.
    unfold find_conn, remove_conn. induction l as [|y r IH]; [reflexivity|]. cbn [filter].
    destruct (c_id y =? c) eqn:E; cbn [negb]; [exact IH|]. cbn [find]. rewrite E. exact IH.
  Qed.

  Lemma find_remove_other (l : list (conn A)) c d : d <> c -> find_conn (remove_conn l c) d = find_conn l d.
  Proof.
    intros Hd. unfold find_conn, remove_conn. induction l as [|y r IH]; [reflexivity|]. cbn [filter find].
    destruct (c_id y =? c) eqn:E; cbn [negb].
    - apply N.eqb_eq in E. destruct (c_id y =? d) eqn:E2; [apply N.eqb_eq in E2; congruence|]. exact IH.
    - cbn [find]. destruct (c_id y =? d); [reflexivity|exact IH].
  Qed.

  Lemma remove_update (l : list (conn A)) x : remove_conn (update_conn l x) (c_id x) = remove_conn l (c_id x).
  Proof.
    unfold remove_conn. induction l as [|y r IH]; [reflexivity|]. cbn [update_conn].
    destruct (c_id y =? c_id x) eqn:E; cbn [filter].
    - rewrite N.eqb_refl, E. reflexivity.
    - rewrite E. cbn [negb]. rewrite IH. reflexivity.
  Qed.

  Lemma find_update_same (l : list (conn A)) x y : find_conn l (c_id x) = Some y -> find_conn (update_conn l x) (c_id x) = Some x.
  Proof.
    unfold find_conn. induction l as [|z r IH]; [discriminate|]. cbn [find update_conn].
    destruct (c_id z =? c_id x) eqn:E.
    - intros _. cbn [find]. rewrite N.eqb_refl. reflexivity.
    - intros H. cbn [find]. rewrite E. apply IH. exact H.
  Qed.

  Lemma find_update_other (l : list (conn A)) x d : d <> c_id x -> find_conn (update_conn l x) d = find_conn l d.
  Proof.
    intros Hd. unfold find_conn. induction l as [|z r IH]; [reflexivity|]. cbn [find update_conn].
    destruct (c_id z =? c_id x) eqn:E.
    - cbn [find]. apply N.eqb_eq in E. destruct (c_id z =? d) eqn:E2; [apply N.eqb_eq in E2; congruence|].
      destruct (c_id x =? d) eqn:E3; [apply N.eqb_eq in E3; congruence|]. reflexivity.
    - cbn [find]. destruct (c_id z =? d); [reflexivity|exact IH].
  Qed.

  Lemma update_none (l : list (conn A)) x : find_conn l (c_id x) = None -> update_conn l x = l.
  Proof.
    unfold find_conn. induction l as [|z r IH]; [reflexivity|]. cbn [find update_conn].
    destruct (c_id z =? c_id x); [discriminate|]. intros H. rewrite IH by exact H. reflexivity.
  Qed.

  (* ---- run ---------------------------------------------------------------- *)
  Lemma run_app (st : state A S) h1 h2 :
    run P cf st (h1 ++ h2) =
    let '(st1, o1) := run P cf st h1 in let '(st2, o2) := run P cf st1 h2 in (st2, o1 ++ o2).
  Proof.
    revert st. induction h1 as [|e r IH]; intros st; cbn [run app].
    - destruct (run P cf st h2). reflexivity.
    - destruct (step P cf st e) as [st1 o1]. rewrite IH.
      destruct (run P cf st1 r) as [st2 o2]. destruct (run P cf st2 h2) as [st3 o3]. rewrite app_assoc. reflexivity.
  Qed.

  (* events of a connection that is not in the table do nothing *)
  Definition about (c : N) (e : event) : bool :=
    match e with ERead c' _ _ => c' =? c | EEof c' => c' =? c | _ => false end.

  Lemma absent_noop (st : state A S) c e : find_conn (s_conns st) c = None -> about c e = true -> step P cf st e = (st, []).
  Proof.
    intros Hn Ha. destruct e as [c'|c' d w|c'|d]; cbn [about] in Ha; try discriminate; apply N.eqb_eq in Ha; subst c'; cbn [step]; unfold read; rewrite Hn; reflexivity.
  Qed.

  (* ---- dispatch_all ------------------------------------------------------- *)
  Lemma dispatch_all_active_mono k c a ms : a = true -> snd (fst (dispatch_all P k c a ms)) = true.
  Proof.
    revert k a. induction ms as [|m r IH]; intros k a Ha; cbn [dispatch_all]; [exact Ha|].
    destruct (o_dispatch P k c a m) as [[k1 o1] v].
    specialize (IH k1 (match v with VComplete => true | _ => a end)).
    destruct (dispatch_all P k1 c (match v with VComplete => true | _ => a end) r) as [[[k2 o2] a2] c2]. cbn [fst snd] in *.
    apply IH. destruct v; auto.
  Qed.

  (* ---- what a step does when the stream turns out invalid ------------------ *)
  (* C10, second sentence: "A client that sends an invalid message is disconnected, and
     nothing of that message becomes visible to any other client" — on the model: the
     step's whole effect is (1) the dispatch of the messages that were complete and valid
     before the invalid one, (2) bus_connection_disconnected for the sender.  The table
     loses exactly the sender's entry; time, every other connection's record (loader,
     phase, registration) are untouched; the invalid bytes are an argument of neither
     o_dispatch nor o_disconnect. *)
  Theorem invalid_disconnects_sender_only (st : state A S) c d w x :
    find_conn (s_conns st) c = Some x -> c_phase x = PMsg ->
    l_corrupted (feed (c_loader x) d 0) = true ->
    exists k1 o1 act cl k2 o2,
      dispatch_all P (s_core st) c (c_active x) (l_msgs (feed (c_loader x) d 0)) = (k1, o1, act, cl) /\
      o_disconnect P k1 c act = (k2, o2) /\
      step P cf st (ERead c d w) =
        (mkSt (s_now st) (remove_conn (s_conns st) c) k2, map OCore o1 ++ map OCore o2 ++ [OGone c]).
  Proof.
    intros Hf Hp Hc. pose proof (find_conn_id _ _ _ Hf) as Hid.
    cbn [step]. unfold read. rewrite Hf, Hp. unfold msg_part. rewrite Hid.
    destruct (dispatch_all P (s_core st) c (c_active x) (l_msgs (feed (c_loader x) d 0))) as [[[k1 o1] act] cl] eqn:Hd.
    rewrite Hc. cbn [orb]. unfold drop. cbn [s_core c_id c_active s_now s_conns].
    destruct (o_disconnect P k1 c act) as [k2 o2] eqn:Ho.
    exists k1, o1, act, cl, k2, o2. split; [reflexivity|]. split; [exact Ho|].
    match goal with |- context [update_conn _ ?y] => pose proof (remove_update (s_conns st) y) as R; cbn [c_id] in R; rewrite R end.
    rewrite <- ?app_assoc. reflexivity.
  Qed.

  Corollary invalid_sender_gone (st : state A S) c d w x :
    find_conn (s_conns st) c = Some x -> c_phase x = PMsg -> l_corrupted (feed (c_loader x) d 0) = true ->
    let st' := fst (step P cf st (ERead c d w)) in
    find_conn (s_conns st') c = None /\
    (forall e, e <> c -> find_conn (s_conns st') e = find_conn (s_conns st) e) /\
    s_now st' = s_now st /\
    In (OGone c) (snd (step P cf st (ERead c d w))).
  Proof.
    intros Hf Hp Hc. destruct (invalid_disconnects_sender_only st c d w x Hf Hp Hc) as (k1 & o1 & act & cl & k2 & o2 & _ & _ & E).
    rewrite E. cbn [fst snd s_conns s_now]. repeat split.
    - apply find_remove_same.
    - intros e He. apply find_remove_other. exact He.
    - rewrite !in_app_iff. right. right. left. reflexivity.
  Qed.

  (* ---- before authentication nothing reaches the core ----------------------- *)
  Definition unauthenticated (x : conn A) : bool := match c_phase x with PMsg => false | _ => true end.

  (* outputs that are handshake bytes to c, or c's own departure *)
  Definition own_only (c : N) (k : S) (k' : S) (o : list (out O)) : Prop :=
    (k' = k /\ forall y, In y o -> exists r, y = OAuth c r) \/
    (exists active o2 r, (k', o2) = o_disconnect P k c active /\ (o = map OCore o2 ++ [OGone c] \/ o = OAuth c r :: map OCore o2 ++ [OGone c])).

  (* as long as the handshake has not completed in this very step, a read on an
     unauthenticated connection calls o_dispatch never: the core is either untouched
     or told about the disconnection of c *)
  Theorem preauth_silent (st : state A S) c d w x :
    find_conn (s_conns st) c = Some x -> unauthenticated x = true ->
    (forall a, c_phase x = PAuth a -> match snd (o_auth_feed P a d) with ADone _ => False | _ => True end) ->
    (c_phase x = PCred -> match d with b :: rest => b =? 0 = true -> match snd (o_auth_feed P (o_auth_init P) rest) with ADone _ => False | _ => True end | [] => True end) ->
    let '(st', o) := step P cf st (ERead c d w) in
    own_only c (s_core st) (s_core st') o.
  Proof.
    intros Hf Hu Ha Hc. pose proof (find_conn_id _ _ _ Hf) as Hid.
    cbn [step]. unfold read. rewrite Hf.
    assert (Hauth : forall a dd, match snd (o_auth_feed P a dd) with ADone _ => False | _ => True end ->
                    let '(st', o) := auth_part P st x a dd w in own_only c (s_core st) (s_core st') o).
    { intros a dd Hnd. unfold auth_part. destruct (o_auth_feed P a dd) as [[a' reply] v]. cbn [snd] in Hnd.
      destruct (negb w && negb match reply with [] => true | _ => false end) eqn:Hw.
      - unfold drop. destruct (o_disconnect P (s_core st) (c_id x) (c_active x)) as [k o2] eqn:Ho. cbn [s_core].
        right. exists (c_active x), o2, []. rewrite <- Hid, Ho. split; [reflexivity|left; reflexivity].
      - destruct v as [| |u]; [| |contradiction].
        + cbn [s_core]. left. split; [reflexivity|]. intros y Hy. destruct reply; [destruct Hy|]. destruct Hy as [<-|[]]. rewrite Hid. eexists. reflexivity.
        + unfold drop. destruct (o_disconnect P (s_core st) (c_id x) (c_active x)) as [k o2] eqn:Ho. cbn [s_core].
          right. exists (c_active x), o2, reply. rewrite <- Hid, Ho. split; [reflexivity|].
          destruct reply; [left; reflexivity|right; reflexivity]. }
    unfold unauthenticated in Hu. destruct (c_phase x) as [|a|] eqn:Hp; [| |discriminate].
    - destruct d as [|b rest].
      + left. split; [reflexivity|]. intros y [].
      + destruct (b =? 0) eqn:Hb.
        * apply Hauth. apply (Hc eq_refl). reflexivity.
        * unfold drop. destruct (o_disconnect P (s_core st) (c_id x) (c_active x)) as [k o2] eqn:Ho. cbn [s_core].
          right. exists (c_active x), o2, []. rewrite <- Hid, Ho. split; [reflexivity|left; reflexivity].
    - apply Hauth. apply (Ha a eq_refl).
  Qed.
  (* ---- lifting an invariant of the core through the connection layer ---------------- *)
  Section CoreInv.
    Variable Q : S -> Prop.
    Hypothesis Hdisp : forall k c a m, Q k -> Q (fst (fst (o_dispatch P k c a m))).
    Hypothesis Hdisc : forall k c a, Q k -> Q (fst (o_disconnect P k c a)).
    Hypothesis Htick : forall k d, Q k -> Q (fst (o_tick P k d)).

    Lemma dispatch_all_core k c a ms : Q k -> Q (fst (fst (fst (dispatch_all P k c a ms)))).
    Proof.
      revert k a. induction ms as [|m r IH]; intros k a Hk; cbn [dispatch_all]; [exact Hk|].
      pose proof (Hdisp k c a m Hk) as H1. destruct (o_dispatch P k c a m) as [[k1 o1] v]. cbn [fst] in H1.
      specialize (IH k1 (match v with VComplete => true | _ => a end) H1).
      destruct (dispatch_all P k1 c _ r) as [[[k2 o2] a2] c2]. exact IH.
    Qed.

    Lemma drop_core (st : state A S) x : Q (s_core st) -> Q (s_core (fst (drop P st x))).
    Proof. intros H. unfold drop. pose proof (Hdisc (s_core st) (c_id x) (c_active x) H) as H1. destruct (o_disconnect P _ _ _). exact H1. Qed.

    Lemma msg_part_core (st : state A S) x d : Q (s_core st) -> Q (s_core (fst (msg_part P st x d))).
    Proof.
      intros H. unfold msg_part. pose proof (dispatch_all_core (s_core st) (c_id x) (c_active x) (l_msgs (feed (c_loader x) d 0)) H) as H1.
      destruct (dispatch_all P _ _ _ _) as [[[k o] act] cl]. cbn [fst] in H1.
      match goal with |- context [drop P ?s ?y] => pose proof (drop_core s y H1) as H2; destruct (drop P s y) end.
      destruct (_ || cl); [exact H2|exact H1].
    Qed.

    Lemma auth_part_core (st : state A S) x a d w : Q (s_core st) -> Q (s_core (fst (auth_part P st x a d w))).
    Proof.
      intros H. unfold auth_part. destruct (o_auth_feed P a d) as [[a' reply] v].
      destruct (negb w && _); [apply drop_core; exact H|].
      destruct v as [| |u]; [exact H | pose proof (drop_core st x H) as H1; destruct (drop P st x); exact H1 |].
      match goal with |- context [msg_part P st ?y u] => pose proof (msg_part_core st y u H) as H1; destruct (msg_part P st y u) end. exact H1.
    Qed.

    Lemma expire_list_core now (l : list (conn A)) k : Q k -> Q (snd (fst (expire_list P cf now l k))).
    Proof.
      revert k. induction l as [|x r IH]; intros k H; cbn [expire_list]; [exact H|].
      destruct (c_active x).
      - specialize (IH k H). destruct (expire_list P cf now r k) as [[kept k'] o]. exact IH.
      - destruct (auth_timeout cf <=? now - c_since x); [|exact H].
        pose proof (Hdisc k (c_id x) false H) as H1. destruct (o_disconnect P k (c_id x) false) as [k1 o1]. cbn [fst] in H1.
        specialize (IH k1 H1). destruct (expire_list P cf now r k1) as [[kept k2] o2]. exact IH.
    Qed.

    Lemma expire_core (st : state A S) : Q (s_core st) -> Q (s_core (fst (expire P cf st))).
    Proof. intros H. unfold expire. pose proof (expire_list_core (s_now st) (s_conns st) (s_core st) H) as H1. destruct (expire_list P cf _ _ _) as [[kept k] o]. exact H1. Qed.

    Theorem step_core (st : state A S) e : Q (s_core st) -> Q (s_core (fst (step P cf st e))).
    Proof.
      intros H. destruct e as [c|c d w|c|d]; cbn [step].
      - unfold accept. destruct (negb _); [exact H|]. destruct (find_conn _ c); [exact H|]. apply expire_core. exact H.
      - unfold read. destruct (find_conn _ c) as [x|]; [|exact H]. destruct (c_phase x).
        + destruct d as [|b r]; [exact H|]. destruct (b =? 0); [apply auth_part_core; exact H|apply drop_core; exact H].
        + apply auth_part_core; exact H.
        + apply msg_part_core; exact H.
      - destruct (find_conn _ c); [apply drop_core; exact H|exact H].
      - pose proof (expire_core (mkSt (s_now st + d) (s_conns st) (s_core st)) H) as H1. destruct (expire P cf _) as [st1 o1]. cbn [fst] in H1.
        pose proof (Htick (s_core st1) d H1) as H2. destruct (o_tick P (s_core st1) d) as [k o2]. exact H2.
    Qed.

    Theorem run_core (st : state A S) h : Q (s_core st) -> Q (s_core (fst (run P cf st h))).
    Proof.
      revert st. induction h as [|e r IH]; intros st H; cbn [run]; [exact H|].
      pose proof (step_core st e H) as H1. destruct (step P cf st e) as [st1 o1]. specialize (IH st1 H1). destruct (run P cf st1 r). exact IH.
    Qed.
  End CoreInv.
End Base.
