(* C14: without a failing allocation nobody is ever told NoMemory - no handler
   stages that error or fails with it.  (Used to state the retry clause
   without a side condition.) *)
From DV Require Import Spec.OomSpec Proofs.OomGeneric Proofs.OomLists Proofs.OomInv Proofs.OomMain.
Local Open Scope N_scope.

Definition not_oom (o : out) : Prop := snd o <> MError ENoMemory.

Inductive clean {A} : prog A -> Prop :=
| cl_ret a : clean (Ret a)
| cl_fail e : e <> ENoMemory -> clean (Fail e)
| cl_stop : clean Stop
| cl_alloc k : clean k -> clean (Alloc k)
| cl_stage o k : not_oom o -> clean k -> clean (Stage o k)
| cl_get k : (forall b, clean (k b)) -> clean (Get k)
| cl_act a k : clean k -> clean (Act a k).

Lemma clean_bind A B (p : prog A) (f : A -> prog B) : clean p -> (forall a, clean (f a)) -> clean (bind p f).
Proof. induction 1; simpl; intros Hf; try (constructor; auto); auto. Qed.

Lemma interp_clean A (p : prog A) F : clean p -> forall s, Forall not_oom (s_msgs s) ->
  match interp F p s with
  | Ok _ s' | Oom s' => Forall not_oom (s_msgs s')
  | Err e s' => Forall not_oom (s_msgs s') /\ e <> ENoMemory
  | Halt => True
  end.
Proof.
  induction 1 as [a|e He| |k Hk IH|o k Ho Hk IH|k Hk IH|a k Hk IH]; intros s Hs; simpl; auto.
  - destruct (F (s_i s)); [exact Hs|]. apply IH; exact Hs.
  - destruct (any_fail F (s_i s) (stage_cost (s_msgs s) o)); [exact Hs|]. apply IH. simpl.
    apply Forall_app; split; [exact Hs|constructor; [exact Ho|constructor]].
  - apply IH; exact Hs.
  - destruct (do_action a (s_bus s)) as [[b' hs]|]; [|exact I]. apply IH; exact Hs.
Qed.

Lemma clean_allocs n : clean (allocs n).
Proof. induction n; simpl; constructor; auto. Qed.

Lemma clean_stage_all rs m : m <> MError ENoMemory -> clean (stage_all rs m).
Proof. intros Hm. induction rs as [|r more IH]; simpl; constructor; auto. Qed.

Lemma clean_broadcast sg m : m <> MError ENoMemory -> clean (broadcast sg m).
Proof.
  intros Hm. unfold broadcast, get. simpl. constructor. intros b.
  apply clean_bind; [apply clean_allocs|]. intros _. apply clean_stage_all; exact Hm.
Qed.

Lemma clean_send_from_driver act c m : m <> MError ENoMemory -> clean (send_from_driver act c m).
Proof.
  intros Hm. unfold send_from_driver, alloc, stage. destruct act; simpl; repeat constructor; exact Hm.
Qed.

Ltac nm := (discriminate || (unfold not_oom; simpl; discriminate)).

Lemma clean_send_noc k o n : clean (send_noc k o n).
Proof. unfold send_noc. apply clean_bind; [apply clean_allocs|]. intros _. apply clean_broadcast; nm. Qed.
Lemma clean_send_acquired c k : clean (send_acquired c k).
Proof. unfold send_acquired. apply clean_bind; [apply clean_allocs|]. intros _. apply clean_send_from_driver; nm. Qed.
Lemma clean_send_lost c k : clean (send_lost c k).
Proof. unfold send_lost. apply clean_bind; [apply clean_allocs|]. intros _. apply clean_send_from_driver; nm. Qed.
Lemma clean_send_reply c code : clean (send_reply c (MReply code)).
Proof. unfold send_reply. apply clean_bind; [apply clean_allocs|]. intros _. apply clean_send_from_driver; nm. Qed.
Lemma clean_send_ack c : clean (send_ack c).
Proof. unfold send_ack, alloc. simpl. constructor. apply clean_send_from_driver; nm. Qed.
Lemma clean_act a : clean (act a).
Proof. unfold act; repeat constructor. Qed.

Ltac cl :=
  repeat first
    [ apply clean_allocs | apply clean_send_noc | apply clean_send_acquired | apply clean_send_lost | apply clean_send_reply
    | apply clean_send_ack | apply clean_act | apply clean_broadcast; nm | apply clean_send_from_driver; nm
    | apply clean_bind; [|intros ?]
    | match goal with
      | |- clean (if ?x then _ else _) => destruct x
      | |- clean (match ?x with _ => _ end) => destruct x
      end
    | apply cl_ret | apply cl_stop | apply cl_fail; discriminate | apply cl_alloc | apply cl_get; intros ? | apply cl_act
    | apply cl_stage; [nm|] ].

Lemma clean_ensure k c flags : clean (ensure k c flags).
Proof. unfold ensure, alloc. cl. Qed.

Lemma clean_add_owner k q c flags : clean (add_owner k q c flags).
Proof. unfold add_owner. cl. Qed.

Lemma clean_remove_owner k q c : clean (remove_owner k q c).
Proof. unfold remove_owner, add_restore. cl. Qed.

Lemma clean_swap_owner k q c : clean (swap_owner k q c).
Proof. unfold swap_owner, add_restore. cl. Qed.

Lemma clean_handler b e c p : handler b e = Some (c, p) -> clean p.
Proof.
  destruct e as [|c0|c0 name flags|c0 name|c0 r|c0 r|c0 d tag|c0 j tag ie|c0 m]; simpl; try discriminate;
    destruct (find_conn (b_conns b) c0) as [cn|]; try discriminate; intros H; inversion H; subst; clear H.
  - unfold hello, alloc, get. cl; apply clean_ensure.
  - unfold not_yet, request_name, acquire_service, get. cl; first [apply clean_ensure | apply clean_add_owner | apply clean_remove_owner | apply clean_swap_owner].
  - unfold not_yet, release_name, release_service, get. cl; apply clean_remove_owner.
  - unfold not_yet, add_match, get. cl.
  - unfold not_yet, remove_match. cl.
  - unfold call, get, stage. cl.
  - unfold reply, get, stage. cl.
  - unfold signal. cl.
Qed.

Lemma clean_error_reply act c e : e <> ENoMemory -> clean (error_reply act c e).
Proof.
  intros He. unfold error_reply, alloc. simpl. constructor. apply clean_send_from_driver. intros H; inversion H; contradiction.
Qed.

Lemma run_request_clean c p b b' o : clean p -> run_request no_fail c p b = OOk b' o -> Forall not_oom o.
Proof.
  intros Hcl. unfold run_request.
  assert (Hcl3 : clean (allocs 3 ;;; p)) by (apply clean_bind; [apply clean_allocs|intros _; exact Hcl]).
  pose proof (interp_clean _ _ no_fail Hcl3 (mkSt b [] [] 0) (Forall_nil _)) as Hi.
  destruct (interp no_fail (allocs 3 ;;; p) (mkSt b [] [] 0)) as [a s1|s1|e1 s1|] eqn:E1.
  - unfold executed. intros H; inversion H; subst; exact Hi.
  - exfalso. eapply interp_nofail_no_oom; exact E1.
  - destruct Hi as [Hm He].
    pose proof (interp_clean _ _ no_fail (clean_error_reply (is_active (s_bus s1) c) c e1 He) s1 Hm) as Hi2.
    destruct (interp no_fail (error_reply (is_active (s_bus s1) c) c e1) s1) as [a2 s2|s2|e2 s2|] eqn:E2.
    + unfold executed. intros H; inversion H; subst; exact Hi2.
    + exfalso. eapply interp_nofail_no_oom; exact E2.
    + discriminate.
    + discriminate.
  - discriminate.
Qed.

(* the unfailed request never tells anybody NoMemory *)
Theorem unfailed_never_oom b e b' o : step b e = OOk b' o -> Forall not_oom o.
Proof.
  unfold step, step_f.
  destruct e; try (intros H; inversion H; subst; constructor);
    match goal with |- context [handler ?b ?ev] => destruct (handler b ev) as [[rc rp]|] eqn:Hh end; try discriminate;
    apply run_request_clean; eapply clean_handler; exact Hh.
Qed.

(* "succeeds when retried": the clause of the specification, without side condition *)
Theorem retry_covered_strong b e c F :
  inv b -> requester e = Some c -> uncovered b e = false -> retry_ok b c e (step_f F b e).
Proof.
  intros Hinv Hreq Hun b' Hf.
  apply (retry_covered b e c F Hinv Hreq Hun b' Hf).
  intros Heq. rewrite Hf in Heq. symmetry in Heq. apply unfailed_never_oom in Heq.
  inversion Heq as [|x l Hx Hl]; subst. apply Hx. reflexivity.
Qed.
