(* C20 proofs, part 4: the dispatch procedure of ObjTree/Dispatch.v preserves any
   simulation between two implementations of the tree primitives: same callbacks
   run in the same order, related final states, and replies that differ at most
   by UnknownMethod-for-UnknownObject (the only place where *found_object is
   used).  Also: the re-dispatch loop never runs out of fuel. *)
From DV Require Import Lib.Base ObjTree.ObjTree ObjTree.Dispatch.
From Coq Require Import Arith.
Local Open Scope nat_scope.

Definition reply_rel (ra rb : reply) : Prop := ra = rb \/ (ra = RepUnknownMethod /\ rb = RepUnknownObject).

Definition found_rel (fa fb : option bool) : Prop :=
  match fa, fb with
  | None, None => True
  | Some x, Some y => y = true -> x = true
  | _, _ => False
  end.

Lemma remove_n_length h l : mem_n h l = true -> length (remove_n h l) < length l.
Proof.
  induction l as [|x l IH]; simpl; [discriminate|]. destruct (N.eqb x h); simpl; [lia|].
  intros H. apply IH in H. lia.
Qed.

Section Sim.
  Variables A B : Type.
  Variable oa : tree_ops A.
  Variable ob : tree_ops B.
  Variable strict : bool.
  Variable R : A -> B -> Prop.

  Hypothesis H_step : forall a b o, R a b ->
    exists a' b' r, o_step oa a o = Ok (a', r) /\ o_step ob b o = Ok (b', r) /\ R a' b'.
  Hypothesis H_entries : forall a b p, R a b ->
    exists es fa fb, o_entries oa a p = Ok (es, fa) /\ o_entries ob b p = Ok (es, fb) /\ (fb = true -> fa = true).
  Hypothesis H_reg : forall a b q, R a b ->
    exists r, o_registration oa a q = Ok r /\ o_registration ob b q = Ok r.
  Hypothesis H_present : forall a b q, R a b ->
    exists r, o_present oa a q = Ok r /\ o_present ob b q = Ok r.
  Hypothesis H_children : forall a b p, R a b ->
    exists l, o_children oa a p = Ok l /\ o_children ob b p = Ok l.

  Lemma update_dead_sim a b : R a b -> forall w d,
    exists d', update_dead A oa a w d = Ok d' /\ update_dead B ob b w d = Ok d'.
  Proof.
    intros HR. induction w as [|q w IH]; intros d; simpl; [eauto|].
    destruct (H_present a b q HR) as (r & -> & ->). destruct r; apply IH.
  Qed.

  Lemma run_actions_sim : forall acts a b w d, R a b ->
    exists a' b' d', run_actions A oa a acts w d = Ok (a', d') /\ run_actions B ob b acts w d = Ok (b', d') /\ R a' b'.
  Proof.
    induction acts as [|o acts IH]; intros a b w d HR; simpl; [eauto 6|].
    destruct (H_step a b o HR) as (a' & b' & r & -> & -> & HR').
    destruct (update_dead_sim a' b' HR' w d) as (d' & -> & ->). apply IH; auto.
  Qed.

  Lemma invoke_sim p bh : forall es a b d oom, R a b ->
    exists a' b' log r oom',
      invoke_snapshot A oa strict a p es d bh oom = Ok (a', log, r, oom') /\
      invoke_snapshot B ob strict b p es d bh oom = Ok (b', log, r, oom') /\ R a' b' /\
      length oom' <= length oom /\ (r = RNeedMemory -> length oom' < length oom).
  Proof.
    induction es as [|q es IH]; intros a b d oom HR; simpl.
    - exists a, b, [], RNotYet, oom. repeat split; auto. discriminate.
    - destruct (existsb (path_eqb' q) d).
      + apply IH; auto.
      + destruct (H_reg a b q HR) as (r & -> & ->). destruct r as [[h fb]|]; [|apply IH; auto].
        destruct (strict && negb (path_eqb' q p || fb)); [apply IH; auto|].
        destruct (mem_n h oom) eqn:Em.
        * exists a, b, [h], RNeedMemory, (remove_n h oom). pose proof (remove_n_length h oom Em).
          repeat split; auto. lia.
        * destruct (run_actions_sim (actions bh h) a b es d HR) as (a1 & b1 & d1 & -> & -> & HR1).
          destruct (accepts bh h).
          -- exists a1, b1, [h], RHandled, oom. repeat split; auto. discriminate.
          -- destruct (IH a1 b1 d1 oom HR1) as (a2 & b2 & log & r & oom' & -> & -> & HR2 & Hl & Hn).
             exists a2, b2, (h :: log), r, oom'. repeat split; auto.
  Qed.

  Lemma default_introspect_sim a b m p : R a b ->
    exists r, default_introspect A oa a m p = Ok r /\ default_introspect B ob b m p = Ok r.
  Proof.
    intros HR. unfold default_introspect. destruct (is_method_call m IfIntrospectable MemIntrospect); [|eauto].
    destruct (H_children a b p HR) as (l & -> & ->). eauto.
  Qed.

  Lemma tree_dispatch_sim a b m bh oom : R a b ->
    exists a' b' log r rep fa fb oom',
      tree_dispatch_msg A oa strict a m bh oom = Ok (a', log, r, rep, fa, oom') /\
      tree_dispatch_msg B ob strict b m bh oom = Ok (b', log, r, rep, fb, oom') /\ R a' b' /\ found_rel fa fb /\
      length oom' <= length oom /\ (r = RNeedMemory -> length oom' < length oom) /\
      (m_path m <> None -> fa <> None).
  Proof.
    intros HR. unfold tree_dispatch_msg. destruct (m_path m) as [p|].
    - destruct (H_entries a b p HR) as (es & fa & fb & -> & -> & Hf).
      destruct (invoke_sim p bh es a b [] oom HR) as (a1 & b1 & log & r & oom' & -> & -> & HR1 & Hl & Hn).
      destruct r.
      + exists a1, b1, log, RHandled, None, (Some fa), (Some fb), oom'. repeat split; auto; try discriminate; try exact Hf.
      + destruct (default_introspect_sim a1 b1 m p HR1) as (ri & -> & ->). destruct ri as [ri|].
        * exists a1, b1, log, RHandled, (Some ri), (Some fa), (Some fb), oom'. repeat split; auto; try discriminate; try exact Hf.
        * exists a1, b1, log, RNotYet, None, (Some fa), (Some fb), oom'. repeat split; auto; try discriminate; try exact Hf.
      + exists a1, b1, log, RNeedMemory, None, (Some fa), (Some fb), oom'. repeat split; auto; try discriminate; try exact Hf.
    - exists a, b, [], RNotYet, None, None, None, oom. repeat split; auto; try discriminate; try exact I; try congruence.
  Qed.

  Lemma run_filters_sim bh : forall fs a b oom, R a b ->
    exists a' b' log r oom',
      run_filters A oa a fs bh oom = Ok (a', log, r, oom') /\
      run_filters B ob b fs bh oom = Ok (b', log, r, oom') /\ R a' b' /\
      length oom' <= length oom /\ (r = RNeedMemory -> length oom' < length oom).
  Proof.
    induction fs as [|f fs IH]; intros a b oom HR; simpl.
    - exists a, b, [], RNotYet, oom. repeat split; auto. discriminate.
    - destruct (mem_n f oom) eqn:Em.
      + exists a, b, [f], RNeedMemory, (remove_n f oom). pose proof (remove_n_length f oom Em).
        repeat split; auto. lia.
      + destruct (run_actions_sim (actions bh f) a b [] [] HR) as (a1 & b1 & d1 & -> & -> & HR1).
        destruct (accepts bh f).
        * exists a1, b1, [f], RHandled, oom. repeat split; auto. discriminate.
        * destruct (IH a1 b1 oom HR1) as (a2 & b2 & log & r & oom' & -> & -> & HR2 & Hl & Hn).
          exists a2, b2, (f :: log), r, oom'. repeat split; auto.
  Qed.

  Definition opt_reply_rel (x y : option reply) : Prop :=
    match x, y with
    | None, None => True
    | Some ra, Some rb => reply_rel ra rb
    | _, _ => False
    end.

  (* a method call always carries a PATH (checked when the message is loaded: C01) *)
  Definition well_formed (m : msg) : Prop := m_type m = MethodCall -> m_path m <> None.

  Lemma attempt_sim a b fs m bh oom : R a b -> well_formed m ->
    exists a' b' log ra rb oom',
      attempt A oa strict a fs m bh oom = Ok (a', log, ra, oom') /\
      attempt B ob strict b fs m bh oom = Ok (b', log, rb, oom') /\ R a' b' /\ opt_reply_rel ra rb /\
      (ra = None -> length oom' < length oom).
  Proof.
    intros HR WF. unfold attempt. destruct (m_reply_pending m).
    { exists a, b, [], (Some RepPendingCompleted), (Some RepPendingCompleted), oom.
      repeat split; auto; [left; auto | discriminate]. }
    destruct (peer_filter m) as [r|].
    { exists a, b, [], (Some r), (Some r), oom. repeat split; auto; [left; auto | discriminate]. }
    destruct (run_filters_sim bh fs a b oom HR) as (a1 & b1 & l1 & r1 & oom1 & -> & -> & HR1 & Hl1 & Hn1).
    destruct r1.
    - exists a1, b1, l1, (Some RepByCallback), (Some RepByCallback), oom1.
      repeat split; auto; [left; auto | discriminate].
    - destruct (tree_dispatch_sim a1 b1 m bh oom1 HR1)
        as (a2 & b2 & l2 & r2 & rep & fa & fb & oom2 & -> & -> & HR2 & Hf & Hl2 & Hn2 & Hp).
      destruct r2.
      + destruct rep as [rep|].
        * exists a2, b2, (l1 ++ l2), (Some rep), (Some rep), oom2. repeat split; auto; [left; auto | discriminate].
        * exists a2, b2, (l1 ++ l2), (Some RepByCallback), (Some RepByCallback), oom2.
          repeat split; auto; [left; auto | discriminate].
      + destruct (type_eqb (m_type m) MethodCall) eqn:Et.
        * assert (m_type m = MethodCall) by (destruct (m_type m); auto; discriminate).
          specialize (Hp (WF H)). destruct fa as [fa|]; [|congruence]. destruct fb as [fb|]; [|contradiction].
          simpl in Hf. destruct fa, fb.
          -- exists a2, b2, (l1 ++ l2), (Some RepUnknownMethod), (Some RepUnknownMethod), oom2.
             repeat split; auto; [left; auto | discriminate].
          -- exists a2, b2, (l1 ++ l2), (Some RepUnknownMethod), (Some RepUnknownObject), oom2.
             repeat split; auto; [right; auto | discriminate].
          -- specialize (Hf eq_refl). discriminate.
          -- exists a2, b2, (l1 ++ l2), (Some RepUnknownObject), (Some RepUnknownObject), oom2.
             repeat split; auto; [left; auto | discriminate].
        * exists a2, b2, (l1 ++ l2), (Some RepNone), (Some RepNone), oom2.
          repeat split; auto; [left; auto | discriminate].
      + exists a2, b2, (l1 ++ l2), None, None, oom2. repeat split; auto. intros _. specialize (Hn2 eq_refl). lia.
    - exists a1, b1, l1, None, None, oom1. repeat split; auto.
  Qed.

  Lemma conn_dispatch_sim fs m bh : well_formed m -> forall fuel a b oom, R a b -> length oom < fuel ->
    exists a' b' log ra rb,
      conn_dispatch A oa strict fuel a fs m bh oom = Ok (a', log, ra) /\
      conn_dispatch B ob strict fuel b fs m bh oom = Ok (b', log, rb) /\ R a' b' /\ reply_rel ra rb.
  Proof.
    intros WF. induction fuel as [|fuel IH]; intros a b oom HR Hlen; [lia|]. simpl.
    destruct (attempt_sim a b fs m bh oom HR WF) as (a1 & b1 & log & ra & rb & oom1 & -> & -> & HR1 & Hr & Hn).
    destruct ra as [ra|], rb as [rb|]; simpl in Hr; try contradiction.
    - exists a1, b1, log, ra, rb. auto.
    - specialize (Hn eq_refl).
      destruct (IH a1 b1 oom1 HR1) as (a2 & b2 & log2 & ra & rb & -> & -> & HR2 & Hr2); [lia|].
      exists a2, b2, (log ++ log2), ra, rb. auto.
  Qed.

  Theorem dispatch_message_sim a b fs m bh oom : R a b -> well_formed m ->
    exists a' b' log ra rb,
      dispatch_message_gen A oa strict a fs m bh oom = Ok (a', log, ra) /\
      dispatch_message_gen B ob strict b fs m bh oom = Ok (b', log, rb) /\ R a' b' /\ reply_rel ra rb.
  Proof. intros HR WF. apply conn_dispatch_sim; auto. Qed.
End Sim.
