(* C15 proofs, part 3: the invariant of the bus state and its preservation by every event. *)
From Coq Require Import Permutation.
From DV Require Import Lib.Base Gen.Tables Fds.Fds Proofs.FdsBase Proofs.FdsInv.
Require Import ZifyBool ZifyN ZifyNat.
Local Open Scope N_scope.

Definition all_conns (st : state) : list conn := st_conns st ++ st_dead st.

(* a later record of the same connection *)
Definition ext_conn (x x' : conn) : Prop := same_conn x x' /\ exists L, c_loaded x' = c_loaded x ++ L.
Definition covers (A A' : list conn) : Prop := forall y, In y A -> exists y', In y' A' /\ ext_conn y y'.

Lemma ext_conn_refl x : ext_conn x x.
Proof. split; [apply same_conn_refl | exists []; rewrite app_nil_r; reflexivity]. Qed.

Definition closed_tag (x : conn) : list (fd * why) := map (fun f => (f, WConnClosed (c_id x))) (c_pend x).

Record Inv (cf : cfg) (st : state) : Prop := mkInv {
  inv_bal : bal (st_led st) (held st);
  inv_live : forall x, In x (st_conns st) -> conn_ok x /\ timer_ok cf (st_now st) x /\ bounded cf x;
  inv_dead : forall x, In x (st_dead st) -> conn_ok x /\ incl (closed_tag x) (g_closed (st_led st));
  inv_recv : forall c f, In (c, f) (g_recv (st_led st)) -> exists x, In x (all_conns st) /\ c_id x = c /\ c_neg x = true;
  inv_deliv : forall r s d F, In (r, (s, (d, F))) (g_deliv (st_led st)) ->
      (exists x, In x (all_conns st) /\ c_id x = s /\ In (d, F) (c_loaded x)) /\
      (F <> [] -> exists y, In y (all_conns st) /\ c_id y = r /\ c_neg y = true);
  inv_ids : NoDup (map c_id (all_conns st)) /\ forall x, In x (all_conns st) -> c_id x < st_next st }.

(* ---------------------------------------------------------------- transport of facts along covers *)
Lemma neg_fact_covers A A' c :
  covers A A' -> (exists x, In x A /\ c_id x = c /\ c_neg x = true) -> exists x, In x A' /\ c_id x = c /\ c_neg x = true.
Proof.
  intros Hc (x & Hin & Hid & Hn). destruct (Hc x Hin) as (x' & Hin' & (S1 & S2 & S3) & _).
  exists x'. splits; congruence.
Qed.

Lemma loaded_fact_covers A A' s m :
  covers A A' -> (exists x, In x A /\ c_id x = s /\ In m (c_loaded x)) -> exists x, In x A' /\ c_id x = s /\ In m (c_loaded x).
Proof.
  intros Hc (x & Hin & Hid & Hl). destruct (Hc x Hin) as (x' & Hin' & (S1 & _) & (L & HL)).
  exists x'. splits; auto; try congruence. rewrite HL. apply in_or_app. left; auto.
Qed.

Lemma held_split l1 x l2 :
  Permutation (concat (map c_pend (l1 ++ x :: l2))) (c_pend x ++ concat (map c_pend (l1 ++ l2))).
Proof.
  rewrite !map_app, !concat_app. simpl. rewrite !app_assoc.
  apply Permutation_app_tail. apply Permutation_app_comm.
Qed.

(* ---------------------------------------------------------------- teardown of one connection *)
Lemma Inv_drop_conn cf st l1 x l2 :
  Inv cf st -> st_conns st = l1 ++ x :: l2 -> (forall y, In y l1 -> c_id y <> c_id x) ->
  Inv cf (drop_conn st x).
Proof.
  intros [Hbal Hlive Hdead Hrecv Hdeliv [Hnd Hlt]] Hcs Hn.
  assert (Hdel : del_conn (st_conns st) (c_id x) = l1 ++ l2) by (rewrite Hcs; apply del_conn_split; exact Hn).
  assert (Hcov : covers (all_conns st) (all_conns (drop_conn st x))).
  { intros y Hy. exists y. split; [|apply ext_conn_refl].
    unfold all_conns in *. simpl. rewrite Hdel. rewrite Hcs in Hy.
    apply in_app_or in Hy. destruct Hy as [Hy|Hy].
    - apply in_app_or in Hy. destruct Hy as [Hy|[<-|Hy]].
      + apply in_or_app. left. apply in_or_app. left; auto.
      + apply in_or_app. right. apply in_or_app. right. left; auto.
      + apply in_or_app. left. apply in_or_app. right; auto.
    - apply in_or_app. right. apply in_or_app. left; auto. }
  assert (Hperm : Permutation (all_conns (drop_conn st x)) (all_conns st)).
  { unfold all_conns. simpl. rewrite Hdel, Hcs.
    rewrite <- !app_assoc. apply Permutation_app_head. simpl.
    rewrite app_assoc. eapply Permutation_trans; [apply Permutation_app_comm|]. simpl. reflexivity. }
  constructor.
  - unfold held, drop_conn; simpl. rewrite Hdel. apply bal_close.
    eapply bal_perm; [exact Hbal|]. unfold held. rewrite Hcs. apply held_split.
  - simpl. rewrite Hdel. intros y Hy. apply Hlive. rewrite Hcs.
    apply in_app_or in Hy. apply in_or_app. destruct Hy; [left|right; right]; auto.
  - simpl. intros y Hy. apply in_app_or in Hy. destruct Hy as [Hy|[<-|[]]].
    + destruct (Hdead y Hy) as [A B]. split; auto. intros e He. apply in_or_app. left. apply B; auto.
    + split.
      * apply Hlive. rewrite Hcs. apply in_or_app. right. left; auto.
      * intros e He. apply in_or_app. right. exact He.
  - simpl. intros c f Hin. eapply neg_fact_covers; [exact Hcov|]. apply Hrecv with f. exact Hin.
  - simpl. intros r s d F Hin. destruct (Hdeliv r s d F Hin) as [A B]. split.
    + eapply loaded_fact_covers; eauto.
    + intros Hne. eapply neg_fact_covers; eauto.
  - split.
    + eapply Permutation_NoDup; [|exact Hnd]. apply Permutation_map. symmetry. exact Hperm.
    + intros y Hy. simpl. apply Hlt. eapply Permutation_in; [exact Hperm|exact Hy].
Qed.

Lemma Inv_set_fault cf st : Inv cf st -> Inv cf (set_fault st).
Proof. intros [A B C D E F]. constructor; auto. Qed.

(* ---------------------------------------------------------------- close_conns (pending-fd timeout) *)
Lemma close_conns_fields ex : forall led,
  g_recv (close_conns led ex) = g_recv led /\
  g_closed (close_conns led ex) = g_closed led ++ concat (map closed_tag ex) /\
  g_deliv (close_conns led ex) = g_deliv led.
Proof.
  unfold close_conns. induction ex as [|x ex IH]; intros led; simpl.
  - rewrite app_nil_r. auto.
  - destruct (IH (led_close led (c_pend x) (WConnClosed (c_id x)))) as (A & B & C).
    rewrite A, B, C. simpl. rewrite <- app_assoc. auto.
Qed.

Lemma close_conns_bal ex : forall led H,
  bal led (concat (map c_pend ex) ++ H) -> bal (close_conns led ex) H.
Proof.
  unfold close_conns. induction ex as [|x ex IH]; intros led H B; simpl in *; auto.
  apply IH. apply bal_close. rewrite <- app_assoc in B. exact B.
Qed.

(* ---------------------------------------------------------------- one event *)
Lemma Inv_init cf : Inv cf init.
Proof.
  constructor; simpl.
  - unfold bal, recv_of, closed_of, held; simpl. constructor.
  - intros ? [].
  - intros ? [].
  - intros ? ? [].
  - intros ? ? ? ? [].
  - split; [constructor | intros ? []].
Qed.

Theorem Inv_step cf st e : 0 < fd_timeout cf -> Inv cf st -> Inv cf (fst (step cf st e)).
Proof.
  intros Hpos HI. destruct e as [neg listen|c ps fds|c|d]; unfold step.
  - (* connect *)
    simpl.
    destruct HI as [Hbal Hlive Hdead Hrecv Hdeliv [Hnd Hlt]].
    set (nc := mkConn (st_next st) neg listen None [] None [] []).
    assert (Hperm : Permutation ((st_conns st ++ [nc]) ++ st_dead st) (nc :: all_conns st)).
    { unfold all_conns. rewrite <- app_assoc. simpl. symmetry. apply Permutation_middle. }
    assert (Hcov : covers (all_conns st) ((st_conns st ++ [nc]) ++ st_dead st)).
    { intros y Hy. exists y. split; [|apply ext_conn_refl].
      eapply Permutation_in; [symmetry; exact Hperm|]. right; auto. }
    constructor; simpl.
    + unfold held; simpl. rewrite map_app, concat_app. simpl. rewrite app_nil_r. exact Hbal.
    + intros x Hx. apply in_app_or in Hx. destruct Hx as [Hx|[<-|[]]]; auto.
      unfold conn_ok, timer_ok, bounded; simpl. splits; auto. intros ? ? []. unfold nlen; simpl; lia.
    + exact Hdead.
    + intros c f Hin. eapply neg_fact_covers; [exact Hcov|]. eapply Hrecv; eauto.
    + intros r s d F Hin. destruct (Hdeliv r s d F Hin) as [A B]. split.
      * eapply loaded_fact_covers; eauto.
      * intros Hne. eapply neg_fact_covers; eauto.
    + unfold all_conns; simpl. split.
      * eapply Permutation_NoDup; [apply Permutation_map; symmetry; exact Hperm|].
        simpl. constructor; auto. intros Hin. apply in_map_iff in Hin. destruct Hin as (y & Hid & Hy).
        apply Hlt in Hy. lia.
      * intros y Hy. eapply Permutation_in in Hy; [|exact Hperm]. destruct Hy as [<-|Hy].
        -- simpl. lia.
        -- apply Hlt in Hy. lia.
  - (* write *)
    destruct (find_conn (st_conns st) c) as [x|] eqn:Ef; [|simpl; apply Inv_set_fault; exact HI].
    destruct (find_conn_split _ _ _ Ef) as (l1 & l2 & Hcs & Hid & Hn).
    destruct HI as [Hbal Hlive Hdead Hrecv Hdeliv [Hnd Hlt]].
    assert (Hx : In x (st_conns st)) by (rewrite Hcs; apply in_or_app; right; left; auto).
    destruct (Hlive x Hx) as (Ok & Tk & Bk).
    pose proof (pump_spec cf (st_now st) (st_conns st) (fuel_for ps) Hpos x ps fds (st_led st) [] Ok Tk Bk) as P.
    destruct (pump (fuel_for ps) cf (st_now st) (st_conns st) x ps fds (st_led st) []) as [[[x' led2] o] rs].
    destruct P as (S1 & O1 & T1 & B1 & (L1 & X1) & Bal1 & (k & Rv1 & Hneg) & (Y1 & Cl1) & (D1 & Dv1 & K1)).
    assert (Hid' : c_id x' = c_id x) by apply S1.
    assert (Hn' : forall y, In y l1 -> c_id y <> c_id x) by (intros y Hy; rewrite Hid; apply Hn; auto).
    assert (Hupd : upd_conn (st_conns st) x' = l1 ++ x' :: l2) by (rewrite Hcs; apply upd_conn_split; auto).
    set (st1 := mkState (upd_conn (st_conns st) x') (st_dead st) (st_next st) (st_now st) led2 (st_fault st)).
    assert (HI1 : Inv cf st1).
    { assert (Hcov : covers (all_conns st) (all_conns st1)).
      { intros y Hy. unfold all_conns in *. simpl. rewrite Hupd. rewrite Hcs in Hy.
        apply in_app_or in Hy. destruct Hy as [Hy|Hy].
        - apply in_app_or in Hy. destruct Hy as [Hy|[<-|Hy]].
          + exists y. split; [|apply ext_conn_refl]. apply in_or_app. left. apply in_or_app. left; auto.
          + exists x'. split; [|split; [exact S1 | exists L1; exact X1]].
            apply in_or_app. left. apply in_or_app. right. left; auto.
          + exists y. split; [|apply ext_conn_refl]. apply in_or_app. left. apply in_or_app. right. right; auto.
        - exists y. split; [|apply ext_conn_refl]. apply in_or_app. right; auto. }
      assert (Hx'in : In x' (all_conns st1)).
      { unfold all_conns; simpl. rewrite Hupd. apply in_or_app. left. apply in_or_app. right. left; auto. }
      constructor; simpl.
      - unfold held; simpl. rewrite Hupd.
        eapply bal_perm; [|symmetry; apply held_split].
        apply Bal1. eapply bal_perm; [exact Hbal|]. unfold held. rewrite Hcs. apply held_split.
      - rewrite Hupd. intros y Hy. apply in_app_or in Hy. destruct Hy as [Hy|[<-|Hy]].
        + apply Hlive. rewrite Hcs. apply in_or_app. left; auto.
        + auto.
        + apply Hlive. rewrite Hcs. apply in_or_app. right. right; auto.
      - intros y Hy. destruct (Hdead y Hy) as [A B]. split; auto.
        intros e He. rewrite Cl1. apply in_or_app. left. apply B; auto.
      - intros c0 f Hin. rewrite Rv1 in Hin. apply in_app_or in Hin. destruct Hin as [Hin|Hin].
        + eapply neg_fact_covers; [exact Hcov|]. eapply Hrecv; eauto.
        + unfold tag in Hin. apply in_map_iff in Hin. destruct Hin as (f' & Heq & Hf). inversion Heq; subst.
          exists x'. splits; auto.
          destruct S1 as (_ & -> & _). apply Hneg. intros E. rewrite E in Hf. destruct Hf.
      - intros r s d F Hin. rewrite Dv1 in Hin. apply in_app_or in Hin. destruct Hin as [Hin|Hin].
        + destruct (Hdeliv r s d F Hin) as [A B]. split.
          * eapply loaded_fact_covers; eauto.
          * intros Hne. eapply neg_fact_covers; eauto.
        + specialize (K1 _ Hin). simpl in K1. destruct K1 as (-> & Hl & Hr). split.
          * exists x'. splits; auto.
          * intros Hne. destruct (Hr Hne) as (y & Hy & Hyid & Hyn).
            eapply neg_fact_covers; [exact Hcov|]. exists y. splits; auto.
            unfold all_conns. apply in_or_app. left; auto.
      - assert (Hids : map c_id (all_conns st1) = map c_id (all_conns st)).
        { unfold all_conns; simpl. rewrite Hupd, Hcs. rewrite !map_app. simpl. rewrite Hid'. reflexivity. }
        split.
        + rewrite Hids. exact Hnd.
        + intros y Hy. pose proof (in_map c_id _ _ Hy) as Hm. rewrite Hids in Hm.
          apply in_map_iff in Hm. destruct Hm as (z & <- & Hz). apply Hlt. exact Hz. }
    assert (Hdrop : Inv cf (drop_conn st1 x')).
    { eapply Inv_drop_conn; [exact HI1 | exact Hupd |]. intros y Hy. rewrite Hid'. apply Hn'; auto. }
    fold st1. destruct rs; simpl; auto using Inv_set_fault.
  - (* disconnect *)
    destruct (find_conn (st_conns st) c) as [x|] eqn:Ef; [|simpl; apply Inv_set_fault; exact HI].
    destruct (find_conn_split _ _ _ Ef) as (l1 & l2 & Hcs & Hid & Hn).
    simpl. eapply Inv_drop_conn; [exact HI | exact Hcs |]. intros y Hy. rewrite Hid. apply Hn; auto.
  - (* tick *)
    simpl. destruct HI as [Hbal Hlive Hdead Hrecv Hdeliv [Hnd Hlt]].
    set (now' := st_now st + d).
    set (ex := filter (expired cf now') (st_conns st)).
    set (keep := filter (fun x => negb (expired cf now' x)) (st_conns st)).
    destruct (close_conns_fields ex (st_led st)) as (Fr & Fc & Fd).
    assert (Hperm : Permutation (st_conns st) (ex ++ keep)) by apply filter_split_perm.
    assert (Hperm2 : Permutation (keep ++ st_dead st ++ ex) (all_conns st)).
    { unfold all_conns. eapply Permutation_trans; [|apply Permutation_app_tail; symmetry; exact Hperm].
      rewrite <- (app_assoc ex keep). rewrite (app_assoc keep). apply Permutation_app_comm. }
    assert (Hcov : covers (all_conns st) (keep ++ st_dead st ++ ex)).
    { intros y Hy. exists y. split; [|apply ext_conn_refl]. eapply Permutation_in; [symmetry; exact Hperm2|exact Hy]. }
    constructor; simpl.
    + unfold held; simpl. apply close_conns_bal.
      eapply bal_perm; [exact Hbal|]. unfold held. rewrite <- concat_app, <- map_app.
      apply concat_perm. apply Permutation_map. exact Hperm.
    + intros x Hx. unfold keep in Hx. apply filter_In in Hx. destruct Hx as [Hx Hne].
      destruct (Hlive x Hx) as (A & B & C). splits; auto.
      unfold timer_ok, expired in *. destruct (c_pend x); destruct (c_since x) as [t|]; auto.
      fold now'. destruct (t + fd_timeout cf <=? now') eqn:E; [discriminate|]. unfold now' in *. lia.
    + intros x Hx. apply in_app_or in Hx. destruct Hx as [Hx|Hx].
      * destruct (Hdead x Hx) as [A B]. split; auto. intros e He. rewrite Fc. apply in_or_app. left. apply B; auto.
      * split.
        -- apply Hlive. unfold ex in Hx. apply filter_In in Hx. apply Hx.
        -- intros e He. rewrite Fc. apply in_or_app. right. apply in_concat. exists (closed_tag x). split; auto.
           apply in_map. exact Hx.
    + intros c f Hin. rewrite Fr in Hin. eapply neg_fact_covers; [exact Hcov|]. eapply Hrecv; eauto.
    + intros r s dd F Hin. rewrite Fd in Hin. destruct (Hdeliv r s dd F Hin) as [A B]. split.
      * eapply loaded_fact_covers; eauto.
      * intros Hne. eapply neg_fact_covers; eauto.
    + unfold all_conns; simpl. split.
      * eapply Permutation_NoDup; [apply Permutation_map; symmetry; exact Hperm2|exact Hnd].
      * intros y Hy. apply Hlt. eapply Permutation_in; [exact Hperm2|exact Hy].
Qed.

(* ---------------------------------------------------------------- histories *)
Theorem Inv_run cf evs : 0 < fd_timeout cf -> forall st, Inv cf st -> Inv cf (run cf st evs).
Proof.
  intros Hpos. induction evs as [|e evs IH]; intros st HI; simpl; auto.
  apply IH. apply Inv_step; auto.
Qed.
