(* Assembly of the C08 statements from the lemma files. *)
From DV Require Import Lib.Base Auth.Types Gen.AuthTables Auth.Sha1 Wire.Utf8 Auth.Server Auth.Transport
  Proofs.AuthInv Proofs.AuthBasics Proofs.AuthShape Proofs.AuthTrace Proofs.AuthTransport.
Require Import ZifyBool ZifyN ZifyNat.
Local Open Scope N_scope.

Lemma lrun_Inv e : forall ls, Inv e (lrun e core_init ls).
Proof.
  induction ls as [|l ls IH] using rev_ind; [apply Inv_init|].
  rewrite lrun_snoc. unfold lstep. destruct (in_end_state (lrun e core_init ls)); [exact IH|].
  apply Inv_process_line. exact IH.
Qed.

(* every state the object can be in, for every input, chunking and environment *)
Theorem identity_invariant e evs a : run e auth_init evs = Some a ->
  let c := a_core a in
  (a_state c = WaitingForAuth \/ a_state c = WaitingForData -> get_identity a = creds_empty) /\
  (a_state c = WaitingForBegin \/ a_state c = Authenticated ->
     exists m, a_mech c = Some m /\ permitted e m /\ established e m (get_identity a)).
Proof.
  intros H. apply run_reach in H. destruct H as (ls & rs & R). pose proof (reach_Inv _ _ _ _ _ R) as I.
  cbv zeta. unfold get_identity. destruct I. split.
  - intros [X|X]; [destruct (I_idle X) as [Y _]; exact Y | destruct (I_data X) as [Y _]; exact Y].
  - intros X. destruct (I_begin X) as (m & Hm & He). exists m. repeat split; auto.
Qed.

Theorem authenticated_only_after_valid_exchange e evs a :
  run e auth_init evs = Some a -> a_state (a_core a) = Authenticated ->
  exists ls pre okl mid bl post m d,
    (* all input = the processed lines, each with its CRLF, then the bytes handed over as message data *)
    fed evs = join_lines ls ++ a_incoming a /\ unused_bytes a = Some (a_incoming a) /\
    ls = pre ++ okl :: mid ++ bl :: post /\
    (* okl completed mechanism m from a state that was not WaitingForBegin *)
    ok_step e (lrun e core_init pre) okl /\ permitted e m /\
    a_mech (fst (process_line e (lrun e core_init pre) okl)) = Some m /\
    mech_condition e (lrun e core_init pre) m d /\ payload_of okl d /\
    (* the server stayed in WaitingForBegin until a BEGIN line *)
    a_state (lrun e core_init (pre ++ okl :: mid)) = WaitingForBegin /\ command_word bl = str_BEGIN /\
    (* and the identity the application sees is the one that step established *)
    get_identity a = a_authorized (fst (process_line e (lrun e core_init pre) okl)) /\
    established e m (get_identity a).
Proof.
  intros H Hs. apply run_reach in H. destruct H as (ls & rs & R).
  assert (Hnc : is_crashed (a_core a) = false) by (unfold is_crashed; rewrite Hs; reflexivity).
  pose proof (reach_framing _ _ _ _ _ R Hnc) as Hf.
  destruct (reach_lrun _ _ _ _ _ R) as [Hl|Hl]; [|congruence].
  pose proof (lrun_granted e ls) as G. cbv zeta in G. rewrite <- Hl in G.
  destruct (G (or_intror Hs)) as (pre & okl & post & Hls & Hok & Hau & Hb).
  destruct (Hb Hs) as (mid & bl & post' & Hp & Hw & Hm).
  destruct (ok_step_conditions e _ okl (lrun_Inv e pre) Hok) as (m & d & Hperm & Hmech & Hcond & Hpay).
  exists ls, pre, okl, mid, bl, post', m, d.
  split; [exact Hf|]. split; [unfold unused_bytes, in_end_state; rewrite Hs; reflexivity|].
  split; [rewrite Hls, Hp; reflexivity|]. split; [exact Hok|]. split; [exact Hperm|]. split; [exact Hmech|].
  split; [exact Hcond|]. split; [exact Hpay|]. split; [exact Hm|]. split; [exact Hw|]. split; [exact Hau|].
  (* the established identity: the invariant right after the ok step *)
  unfold get_identity. rewrite Hau.
  destruct Hok as (Hend & Hn & Hst).
  pose proof (Inv_process_line e _ okl (lrun_Inv e pre)) as I. destruct I.
  destruct (I_begin (or_introl Hst)) as (m' & Hm' & He). assert (m' = m) by congruence. subst m'. exact He.
Qed.

Theorem framing e evs a : run e auth_init evs = Some a -> is_crashed (a_core a) = false ->
  exists ls, fed evs = join_lines ls ++ a_incoming a /\
             (unused_bytes a <> None -> in_end_state (a_core a) = true).
Proof.
  intros H Hc. apply run_reach in H. destruct H as (ls & rs & R). exists ls.
  split; [eapply reach_framing; eauto|]. unfold unused_bytes. destruct (in_end_state (a_core a)); auto.
Qed.

Theorem bounded_rejections e evs a : run e auth_init evs = Some a ->
  exists ls rs, reach e (fed evs) ls rs a /\
    a_failures (a_core a) = count_rej rs /\ count_rej rs <= max_failures /\
    (count_rej rs = max_failures -> in_end_state (a_core a) = true).
Proof.
  intros H. apply run_reach in H. destruct H as (ls & rs & R). exists ls, rs. split; [exact R|]. eapply reach_rejections; eauto.
Qed.

Theorem buffer_bound e a ev a' : step e a ev = Some a' ->
  in_end_state (a_core a') = true \/
  (nlen (a_incoming a') <= MAX_BUFFER /\ nlen (a_outgoing a') <= MAX_BUFFER /\ find_crlf (a_incoming a') = None).
Proof. destruct ev; cbn [step]; unfold do_work; apply work_bound. Qed.

Theorem step_total e a ev : step e a ev <> None.
Proof. destruct ev; cbn [step]; apply do_work_total. Qed.

(* ---------- transport ---------- *)
Theorem transport_gate te evs :
  let t := fst (trun te transport_init evs) in
  let consumed := snd (trun te transport_init evs) in
  (tr_authenticated t = true ->
     a_state (a_core (tr_auth t)) = Authenticated /\ a_outgoing (tr_auth t) = [] /\ admission te (get_identity (tr_auth t)) = true) /\
  (tr_authenticated t = false -> tr_loader t = [] /\ tr_recovered t = false) /\
  exists aevs after, run (t_env te) auth_init aevs = Some (tr_auth t) /\ consumed = fed aevs ++ after /\
     (tr_recovered t = false -> after = [] /\ tr_loader t = []) /\
     (tr_recovered t = true -> tr_loader t = a_incoming (tr_auth t) ++ after).
Proof.
  cbv zeta. pose proof (TInv_run te evs transport_init [] (TInv_init te)) as I. cbn [app] in I.
  destruct I as [Hr Ha Hu]. split; [exact Ha|]. split; [exact Hu|]. exact Hr.
Qed.

Theorem anonymous_only_if_enabled te id : admission te id = true -> c_uid id = None -> t_allow_anonymous te = true.
Proof.
  unfold admission. intros H Hn. rewrite Hn in H. cbn [opt_N_eqb] in H.
  destruct (t_unix_user_fn te); rewrite !orb_false_r in H; exact H.
Qed.

(* ---------- the specification's state machine, over whole conversations ---------- *)
From DV Require Import Spec.AuthSpec Proofs.AuthLex Proofs.AuthRefine.

(* a line the two known deviations do not apply to *)
Definition line_ok (e : env) (c : core) (line : bytes) : Prop :=
  in_end_state c = true \/
  (a_state (fst (process_line e c line)) <> Crashed /\ odd_hex (hexarg_of line) = false).
Fixpoint lines_ok (e : env) (c : core) (ls : list bytes) : Prop :=
  match ls with [] => True | l :: r => line_ok e c l /\ lines_ok e (lstep e c l) r end.
(* responses of the model, line by line *)
Fixpoint lresps (e : env) (c : core) (ls : list bytes) : list (list kind) :=
  match ls with
  | [] => []
  | l :: r => (if in_end_state c then [] else map kind_of (snd (process_line e c l))) :: lresps e (lstep e c l) r
  end.

Lemma abs_end c : in_end_state c = true -> forall e l, spec_step e (abs c) l = (abs c, []).
Proof.
  intros H e l. unfold spec_step, abs at 1. cbn [sp_phase]. unfold abs_phase, in_end_state in *.
  destruct (a_state c); try discriminate; reflexivity.
Qed.

Theorem lrun_refines e : forall ls c, Inv e c -> lines_ok e c ls ->
  spec_run e (abs c) ls = (abs (lrun e c ls), lresps e c ls).
Proof.
  induction ls as [|l ls IH]; intros c I Hok; [reflexivity|].
  destruct Hok as [Hl Hr]. cbn [spec_run lresps]. unfold lrun. cbn [fold_left]. fold (lrun e (lstep e c l) ls).
  assert (Hstep : spec_step e (abs c) l = (abs (lstep e c l), if in_end_state c then [] else map kind_of (snd (process_line e c l)))).
  { unfold lstep. destruct (in_end_state c) eqn:He; [apply abs_end; exact He|].
    destruct Hl as [X|[Hnc Ho]]; [congruence|]. apply refine_step; auto. }
  rewrite Hstep. rewrite IH; auto.
  unfold lstep. destruct (in_end_state c); [exact I|apply Inv_process_line; exact I].
Qed.

(* the literal claim "for every line the server answers as the state machine prescribes" ... *)
Definition responses_full_statement : Prop :=
  forall e c line, Inv e c -> in_end_state c = false ->
    spec_step e (abs c) line = (abs (fst (process_line e c line)), map kind_of (snd (process_line e c line))).

Definition env1 (asserts : bool) : env :=
  mkEnv (mkCreds (Some 0) None None) None [] false asserts 0 (fun _ => None) [] true (fun _ => None) (fun _ _ => []) (fun _ => None).

(* ... is refuted twice: "AUTH EXTERNAL 3" (dangling hex digit, accepted) and, with assertions, "AUTH \n" (abort) *)
Theorem responses_refuted_odd_hex : ~ responses_full_statement.
Proof.
  intros H. specialize (H (env1 false) core_init [65;85;84;72;32;69;88;84;69;82;78;65;76;32;51] (Inv_init _) eq_refl).
  vm_compute in H. discriminate.
Qed.
