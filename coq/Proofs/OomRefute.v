(* C14: the literal property, and concrete (history, request, failing index)
   witnesses on which the faithful model - and the real bus, see
   corpus/C14 - violates it.  All by computation. *)
From DV Require Import Spec.OomSpec.
Local Open Scope N_scope.

(* the property as written, for single failures *)
Definition C14_full_statement : Prop :=
  forall mn mr mp h b e c k,
    run (init_bus mn mr mp) h = Some b -> requester e = Some c -> find_conn (b_conns b) c <> None ->
    atomic b c (step b e) (step_oom k b e) /\ retry_ok b c e (step_oom k b e).

(* "com.example.A" *)
Definition nameA : bytes := [99;111;109;46;101;120;97;109;112;108;101;46;65].

Definition three_clients : list event := [EvConnect; EvHello 0; EvConnect; EvHello 1; EvConnect; EvHello 2].

(* F10a: c1 owns A, c2 waits; c2 releases; the 4th allocation (first one of the reply) fails *)
Definition hist_waiter := three_clients ++ [EvRequest 1 nameA 0; EvRequest 2 nameA 0].
(* F10a: ... c2 asks again with DO_NOT_QUEUE: answer EXISTS, c2 dropped from the queue *)
Definition hist_exists := hist_waiter.
(* F10b: c1 owns A without ALLOW_REPLACEMENT and asks again with it *)
Definition hist_flags := three_clients ++ [EvRequest 1 nameA 0].
(* F10c: a fourth connection says Hello; the allocation after bus_connection_complete fails *)
Definition hist_hello := three_clients ++ [EvConnect].
(* former F14.1: the owner releases its name; an allocation of the reply fails; restore_ownership runs *)
Definition hist_release := three_clients ++ [EvRequest 1 nameA 0].
(* former F14.1: c1 owns A with ALLOW_REPLACEMENT, c2 takes it over with REPLACE_EXISTING *)
Definition hist_replace := three_clients ++ [EvRequest 1 nameA 1].

Ltac not_atomic :=
  let H := fresh in let b' := fresh in let H1 := fresh in let H2 := fresh in
  intros [H|(b' & H1 & H2)];
  [ vm_compute in H; discriminate
  | vm_compute in H1; try discriminate; inversion H1; subst; destruct H2 as (Hc & Hs & _); vm_compute in Hc, Hs; discriminate ].

Lemma waiter_release_refuted :
  exists b, run (init_bus 512 512 128) hist_waiter = Some b /\ ~ atomic b 2 (step b (EvRelease 2 nameA)) (step_oom 3 b (EvRelease 2 nameA)).
Proof. eexists; split; [vm_compute; reflexivity|]. not_atomic. Qed.

Lemma exists_branch_refuted :
  exists b, run (init_bus 512 512 128) hist_exists = Some b /\ ~ atomic b 2 (step b (EvRequest 2 nameA 4)) (step_oom 3 b (EvRequest 2 nameA 4)).
Proof. eexists; split; [vm_compute; reflexivity|]. not_atomic. Qed.

Lemma flag_refresh_refuted :
  exists b, run (init_bus 512 512 128) hist_flags = Some b /\ ~ atomic b 1 (step b (EvRequest 1 nameA 1)) (step_oom 3 b (EvRequest 1 nameA 1)).
Proof. eexists; split; [vm_compute; reflexivity|]. not_atomic. Qed.

Lemma hello_refuted :
  exists b, run (init_bus 512 512 128) hist_hello = Some b /\ ~ atomic b 3 (step b (EvHello 3)) (step_oom 9 b (EvHello 3)).
Proof. eexists; split; [vm_compute; reflexivity|]. not_atomic. Qed.

(* ... and the retried Hello is refused *)
Lemma hello_retry_refuted :
  exists b b', run (init_bus 512 512 128) hist_hello = Some b /\ step_oom 9 b (EvHello 3) = OOk b' [(3, MError ENoMemory)] /\
               step b' (EvHello 3) = OOk b' [(3, MError EFailed)].
Proof. do 2 eexists; split; [vm_compute; reflexivity|]. split; vm_compute; reflexivity. Qed.

(* Regression inputs: the former witnesses of finding F14.1 (restore_ownership could not be run;
   fixed in /repo).  An allocation of the reply fails after bus_service_remove_owner /
   bus_service_swap_owner succeeded: the hook puts everything back. *)
Lemma release_primary_restored :
  exists b, run (init_bus 512 512 128) hist_release = Some b /\
            step_oom 25 b (EvRelease 1 nameA) = OOk b [(1, MError ENoMemory)] /\
            step_oom 25 b (EvRelease 1 nameA) <> step b (EvRelease 1 nameA).
Proof. eexists; split; [vm_compute; reflexivity|]. split; [vm_compute; reflexivity|]. vm_compute; discriminate. Qed.

Lemma replace_restored :
  exists b, run (init_bus 512 512 128) hist_replace = Some b /\
            step_oom 40 b (EvRequest 2 nameA 2) = OOk b [(2, MError ENoMemory)] /\
            step_oom 40 b (EvRequest 2 nameA 2) <> step b (EvRequest 2 nameA 2).
Proof. eexists; split; [vm_compute; reflexivity|]. split; [vm_compute; reflexivity|]. vm_compute; discriminate. Qed.

Theorem full_statement_refuted : ~ C14_full_statement.
Proof.
  intros H. destruct waiter_release_refuted as (b & Hr & Hn).
  destruct (H 512 512 128 hist_waiter b (EvRelease 2 nameA) 2 3 Hr eq_refl) as [Ha _].
  - revert Hr. vm_compute. intros Hr; inversion Hr; subst. discriminate.
  - exact (Hn Ha).
Qed.
