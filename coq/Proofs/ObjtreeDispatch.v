(* C20 proofs, part 5: the tree primitives of the C code (model_ops) simulate the
   flat-map primitives (spec_ops) under [refines]; consequences for the dispatch
   of one message after any history. *)
From DV Require Import Lib.Base ObjTree.ObjTree ObjTree.Dispatch Spec.ObjtreeSpec Spec.ObjtreeSpecDispatch
  Proofs.ObjtreeOrder Proofs.ObjtreeProofs Proofs.ObjtreeOracle Proofs.ObjtreeSim.
From Coq Require Import Sorted Arith.
Local Open Scope nat_scope.

(* ---- the list of referenced subtrees ----------------------------------------------------- *)
Definition own_entry (n : node) (pre : path) : list path :=
  match nhandler n with Some _ => if nfallback n then [pre] else [] | None => [] end.

Fixpoint entries_at (n : node) (pre r : path) : list path :=
  match r with
  | [] => match nhandler n with Some _ => [pre] | None => [] end
  | e :: r' => match child_of e (nkids n) with Some c => entries_at c (pre ++ [e]) r' | None => [] end ++ own_entry n pre
  end.

Lemma snapshot_cons_false n up full :
  snapshot (n :: up) false full = own_entry n (firstn (length up) full) ++ snapshot up false full.
Proof. unfold own_entry. simpl. destruct (nhandler n); auto. destruct (nfallback n); auto. Qed.

Lemma firstn_exact {A} (a b : list A) n : n = length a -> firstn n (a ++ b) = a.
Proof. intros ->. rewrite firstn_app, firstn_all, Nat.sub_diag. simpl. apply app_nil_r. Qed.

Lemma find_deepest_snapshot : forall r n up pre, wf n -> length pre = length up ->
  exists chain ex, find_deepest n up r = Ok (chain, ex) /\
    match chain with
    | Some ch => snapshot ch ex (pre ++ r) = entries_at n pre r ++ snapshot up false (pre ++ r)
    | None => entries_at n pre r = []
    end.
Proof.
  induction r as [|e r IH]; intros n up pre W Hl.
  - simpl. exists (Some (n :: up)), true. split; auto. simpl.
    rewrite (firstn_exact pre []) by auto. destruct (nhandler n); reflexivity.
  - simpl. destruct (wf_inv _ W) as (Hs & _).
    assert (Hpre : firstn (length up) (pre ++ e :: r) = pre) by (apply firstn_exact; auto).
    destruct (find_child_child_of e (nkids n) Hs) as [(k & c & -> & -> & Hin) | (i & -> & ->)].
    + destruct (IH c (n :: up) (pre ++ [e]) (proj1 (wf_child n c W Hin))) as (chain & ex & -> & Hc).
      { rewrite app_length. simpl. lia. }
      rewrite <- app_assoc in Hc. change ([e] ++ r) with (e :: r) in Hc.
      destruct chain as [ch|].
      * exists (Some ch), ex. split; auto. rewrite Hc, snapshot_cons_false, Hpre, app_assoc. reflexivity.
      * rewrite Hc. simpl. destruct (nfallback n) eqn:Efb.
        -- exists (Some (n :: up)), false. split; auto. rewrite snapshot_cons_false, Hpre. reflexivity.
        -- exists None, ex. split; auto. unfold own_entry. rewrite Efb. destruct (nhandler n); reflexivity.
    + simpl. destruct (nfallback n) eqn:Efb.
      * exists (Some (n :: up)), false. split; auto. rewrite snapshot_cons_false, Hpre. reflexivity.
      * exists None, false. split; auto. unfold own_entry. rewrite Efb. destruct (nhandler n); reflexivity.
Qed.

(* the same list, from a registration map *)
Definition entries_m (m : path -> option registration) (p : path) : list path :=
  (match m p with Some _ => [p] | None => [] end) ++
  filter (fun q => match m q with Some (_, true) => true | _ => false end) (proper_prefixes p).

Lemma filter_map_comm {A B} (f : B -> bool) (g : A -> B) l : filter f (map g l) = map g (filter (fun x => f (g x)) l).
Proof. induction l; simpl; auto. destruct (f (g a)); simpl; congruence. Qed.

Lemma entries_m_cons m e r :
  entries_m m (e :: r) = map (cons e) (entries_m (fun q => m (e :: q)) r) ++
                         (match m [] with Some (_, true) => [[]] | _ => [] end).
Proof.
  unfold entries_m. rewrite proper_prefixes_cons, filter_app, filter_map_comm, map_app. simpl.
  rewrite <- app_assoc. f_equal.
  - destruct (m (e :: r)); reflexivity.
  - f_equal. destruct (m []) as [[h [|]]|]; reflexivity.
Qed.

Lemma entries_m_ext m1 m2 p : (forall q, m1 q = m2 q) -> entries_m m1 p = entries_m m2 p.
Proof.
  intros H. unfold entries_m. rewrite H. f_equal. apply filter_ext. intros q. rewrite H. reflexivity.
Qed.

Lemma entries_m_none p : entries_m (fun _ => None) p = [].
Proof. unfold entries_m. simpl. induction (proper_prefixes p); simpl; auto. Qed.

Lemma entries_at_amap : forall r n pre, entries_at n pre r = map (app pre) (entries_m (amap n) r).
Proof.
  induction r as [|e r IH]; intros n pre.
  - unfold entries_m. simpl. rewrite amap_nil. unfold reg_of. destruct (nhandler n); simpl; rewrite ?app_nil_r; reflexivity.
  - rewrite entries_m_cons, map_app, map_map. simpl. f_equal.
    + destruct (child_of e (nkids n)) as [c|] eqn:Ec.
      * rewrite IH. rewrite (entries_m_ext (amap c) (fun q => amap n (e :: q))).
        -- apply map_ext. intros q. rewrite <- app_assoc. reflexivity.
        -- intros q. rewrite amap_cons, Ec. reflexivity.
      * rewrite (entries_m_ext (fun q => amap n (e :: q)) (fun _ => None)).
        -- rewrite entries_m_none. reflexivity.
        -- intros q. rewrite amap_cons, Ec. reflexivity.
    + unfold own_entry. rewrite amap_nil. unfold reg_of. destruct (nhandler n); simpl; auto.
      destruct (nfallback n); simpl; rewrite ?app_nil_r; reflexivity.
Qed.

Lemma s_entries_is s p : fst (s_entries s p) = entries_m (s_lookup s) p.
Proof. reflexivity. Qed.

Lemma found_of_find_deepest t p : wf t ->
  exists chain ex, find_deepest t [] p = Ok (chain, ex) /\
    (match chain with Some _ => true | None => false end) = found_at t p.
Proof.
  intros W. destruct (find_deepest_ok p t [] W) as (chain & ex & E & Hf & _). eauto.
Qed.

Lemma m_entries_ok t s p : refines t s ->
  exists es fa, m_entries t p = Ok (es, fa) /\ es = fst (s_entries s p) /\ (snd (s_entries s p) = true -> fa = true).
Proof.
  intros R. pose proof R as [W A]. unfold m_entries.
  destruct (find_deepest_snapshot p t [] [] W eq_refl) as (chain & ex & E & Hc).
  destruct (found_of_find_deepest t p W) as (chain' & ex' & E' & Hf). rewrite E in E'. inversion E'; subst chain' ex'.
  rewrite E. simpl in Hc.
  assert (Hes : entries_at t [] p = fst (s_entries s p)).
  { rewrite entries_at_amap, s_entries_is. rewrite (entries_m_ext (amap t) (s_lookup s)) by auto.
    rewrite <- (map_id (entries_m (s_lookup s) p)) at 2. apply map_ext. reflexivity. }
  assert (Hk : snd (s_entries s p) = true -> found_at t p = true).
  { simpl. intros K. apply known_object_b_correct in K. eapply known_object_found; eauto. }
  destruct chain as [ch|].
  - exists (snapshot ch ex p), true. rewrite Hc, app_nil_r. auto.
  - exists [], false. rewrite <- Hes, Hc. repeat split; auto. intros K. specialize (Hk K). simpl in Hf. congruence.
Qed.

(* ---- registration and presence of the node at a path ------------------------------------------- *)
Lemma m_registration_ok t s q : refines t s -> m_registration t q = Ok (s_lookup s q).
Proof.
  intros [W A]. unfold m_registration. rewrite lookup_subtree_ok by auto. rewrite <- A. unfold amap, reg_of.
  destruct (node_at t q) as [c|]; auto.
Qed.

Lemma In_s_lookup s k r : In (k, r) s -> s_lookup s k <> None.
Proof.
  induction s as [|[k' r'] s IH]; simpl; [tauto|]. intros [H|H].
  - inversion H; subst. rewrite path_eqb_refl. discriminate.
  - destruct (path_eqb k' k); [discriminate | auto].
Qed.

Lemma present_iff t s q : refines t s -> (node_at t q <> None <-> s_present s q = true).
Proof.
  intros [W A]. destruct q as [|e q]; [simpl; split; auto; discriminate|].
  change (s_present s (e :: q)) with (existsb (fun x => is_prefix (e :: q) (fst x)) s).
  assert (Hne : e :: q <> []) by discriminate. remember (e :: q) as p eqn:Ep. clear Ep. rewrite existsb_exists. split.
  - intros H. destruct (node_at t p) as [c|] eqn:Ec; [|congruence].
    destruct (wf_node_at p t c W Ec) as [Wc Kc]. specialize (Kc Hne).
    destruct (keepable_has_reg c Wc Kc) as [r Hr].
    assert (Hl : s_lookup s (p ++ r) <> None).
    { rewrite <- A. unfold amap in *. rewrite node_at_app, Ec. exact Hr. }
    destruct (s_lookup s (p ++ r)) as [reg|] eqn:El; [|congruence].
    destruct (s_lookup_in _ _ _ El) as (k & Hin & ->). exists (p ++ r, reg). split; auto.
    apply is_prefix_spec. simpl. eauto.
  - intros ([k reg] & Hin & Hp). simpl in Hp. apply is_prefix_spec in Hp. destruct Hp as [r ->].
    apply In_s_lookup in Hin. rewrite <- A in Hin. unfold amap in Hin. rewrite node_at_app in Hin.
    destruct (node_at t p); congruence.
Qed.

Lemma m_present_ok t s q : refines t s -> m_present t q = Ok (s_present s q).
Proof.
  intros R. pose proof R as [W A]. unfold m_present. rewrite lookup_subtree_ok by auto.
  pose proof (present_iff t s q R) as H. destruct (node_at t q) as [c|].
  - destruct (s_present s q); auto. assert (false = true) by (apply H; discriminate). discriminate.
  - destruct (s_present s q); auto. exfalso. apply (proj2 H); auto.
Qed.

Lemma list_registered_ok t s p : refines t s -> list_registered t p = Ok (s_children s p).
Proof.
  intros [W A]. destruct (children_spec t p W) as (l & El & Hs & Hm). rewrite El. f_equal.
  destruct (s_children_correct s p) as [Os Om]. apply sorted_same_members; auto.
  intros e. rewrite Hm, Om. unfold s_child, s_registered.
  split; intros [q Hq]; exists q; [rewrite <- A | rewrite A]; exact Hq.
Qed.

(* ---- the simulation, instantiated -------------------------------------------------------------- *)
Theorem dispatch_refines t s strict fs m bh oom : refines t s -> well_formed m ->
  exists t' s' log r r',
    dispatch_message_gen node model_ops strict t fs m bh oom = Ok (t', log, r) /\
    dispatch_message_gen sstate spec_ops strict s fs m bh oom = Ok (s', log, r') /\
    refines t' s' /\ reply_rel r r'.
Proof.
  apply (dispatch_message_sim node sstate model_ops spec_ops strict refines).
  - intros a b o R. destruct (step_refines a b o R) as (a' & r & E & Er & R'). simpl.
    exists a', (fst (s_step b o)), r. rewrite E. split; [reflexivity|]. split; [|exact R'].
    subst r. destruct (s_step b o); reflexivity.
  - intros a b p R. destruct (m_entries_ok a b p R) as (es & fa & E & -> & Hf). simpl.
    exists (fst (s_entries b p)), fa, (snd (s_entries b p)). rewrite E. split; [reflexivity|]. split; [|exact Hf].
    destruct (s_entries b p); reflexivity.
  - intros a b q R. exists (s_lookup b q). simpl. rewrite (m_registration_ok a b q R). auto.
  - intros a b q R. exists (s_present b q). simpl. rewrite (m_present_ok a b q R). auto.
  - intros a b p R. exists (s_children b p). simpl. rewrite (list_registered_ok a b p R). auto.
Qed.

(* for every history: the model of the C dispatch agrees with the lax flat-map dispatch *)
Lemma dispatch_after_history ops fs m b oom : well_formed m ->
  exists t t' s' log r r',
    run ops = Ok t /\ dispatch_message t fs m b oom = Ok (t', log, r) /\
    s_dispatch_message_lax (s_run ops) fs m b oom = Ok (s', log, r') /\
    refines t' s' /\ reply_rel r r'.
Proof.
  intros WF. destruct (run_refines ops) as (t & Er & R).
  destruct (dispatch_refines t _ false fs m b oom R WF) as (t' & s' & log & r & r' & E1 & E2 & R' & Hr).
  exists t, t', s', log, r, r'. auto.
Qed.
