(* C03 + C01/C02 composed: what the addressee's libdbus makes of a message the bus has stamped and relayed.
   stamp (Stamp/Stamp.v) followed by the canonical serialisation is what the correspondence run compares with
   the daemon's output byte for byte; here those bytes go through the loader and reader models. *)
From DV Require Import Lib.Base Spec.Codec Wire.Body Wire.Message Wire.HeaderEdit Wire.Reader Stamp.Stamp.
From DV Require Import Proofs.CodecWf Proofs.CodecMessage Proofs.EditProofs Proofs.LoaderComplete Proofs.StampBytes Proofs.EndToEnd.
Local Open Scope N_scope.

Theorem relayed_message_received m n rest avail :
  wf_msg m = true -> name_ok n = true -> stamp_fits n m = true ->
  let m' := stamp n m in
  spec_nfds (s_fields m') <= avail ->
  exists msg,
    load_message (s_le m) (m_flen m') (m_hlen m') (m_blen m') avail (spec_encode_message m' ++ rest) = inl msg /\
    m_header msg ++ m_body msg = spec_encode_message m' /\
    m_body msg = encs (s_le m) (s_body m) 0 /\
    read_all (s_le m) (s_sig m) (m_body msg) = inl (s_body m) /\
    get_field (s_fields m') 7 = Some (VStr 115 n).
Proof.
  intros W Hn Hfit m' Hf.
  pose proof (stamp_wf_msg n m W Hn Hfit) as W'. fold m' in W'.
  destruct (writer_loader_reader m' rest avail W' Hf) as (_ & _ & msg & Hl & He & Hb & Hr). cbv zeta in *.
  exists msg. unfold m_bodyb in Hb. unfold m' in Hl, Hb, Hr. rewrite stamp_unfold in Hl, Hb, Hr.
  cbn [s_le s_sig s_body] in Hl, Hb, Hr. rewrite <- stamp_unfold in Hl. fold m' in Hl.
  split; [exact Hl|]. split; [exact He|]. split; [exact Hb|]. split; [exact Hr|].
  unfold m'. rewrite stamp_unfold. cbn [s_fields]. unfold stamp_fields. apply get_set_same.
Qed.
Print Assumptions relayed_message_received.
