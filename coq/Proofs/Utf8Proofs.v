(* The model of _dbus_string_validate_utf8 (Wire/Utf8.v, driven by the
   UTF8_COMPUTE / UTF8_LENGTH / UNICODE_VALID tables GENERATED from the C
   macros) accepts exactly the well-formed UTF-8 byte sequences of Unicode
   Table 3-7 without NUL (Spec/Utf8Spec.v), for every string of bytes. *)
From DV Require Import Lib.Base Gen.Tables Wire.Utf8 Spec.Utf8Spec.
From Coq Require Import ZArith ZifyBool ZifyN ZifyNat Arith.
Local Open Scope N_scope.
Ltac Zify.zify_post_hook ::= Z.div_mod_to_equations.

Definition is_byte (c : N) : bool := c <? 256.
Definition all_bytes (s : bytes) : bool := forallb is_byte s.

(* ---- finite facts about the generated tables (256-way sweeps) ------------ *)
Definition classify (c : N) : N * N :=
  if c <? 128 then (1, 127) else if c <? 192 then (0, 0) else if c <? 224 then (2, 31)
  else if c <? 240 then (3, 15) else if c <? 248 then (4, 7) else if c <? 252 then (5, 3)
  else if c <? 254 then (6, 1) else (0, 0).

Definition payload (c : N) : N :=
  if c <? 128 then c else if c <? 192 then 0 else if c <? 224 then c - 192
  else if c <? 240 then c - 224 else if c <? 248 then c - 240 else if c <? 252 then c - 248
  else if c <? 254 then c - 252 else 0.

Definition pair_eqb (a b : N * N) : bool := (fst a =? fst b) && (snd a =? snd b).

Lemma sweep_bytes (P : N -> bool) : forallb P (nseq 256) = true -> forall c, c < 256 -> P c = true.
Proof. intros H c Hc. rewrite forallb_forall in H. apply H. apply nseq_in. exact Hc. Qed.

Lemma compute_spec c : c < 256 -> utf8_compute c = classify c.
Proof.
  intros Hc. pose proof (sweep_bytes (fun c => pair_eqb (utf8_compute c) (classify c))) as H.
  specialize (H ltac:(vm_compute; reflexivity) c Hc). unfold pair_eqb in H.
  apply andb_true_iff in H. destruct H as [H1 H2]. apply N.eqb_eq in H1, H2.
  destruct (utf8_compute c), (classify c). cbn in *. congruence.
Qed.

Lemma payload_spec c : c < 256 -> N.land c (snd (utf8_compute c)) = payload c.
Proof.
  intros Hc. apply N.eqb_eq.
  apply (sweep_bytes (fun c => N.land c (snd (utf8_compute c)) =? payload c)); [vm_compute; reflexivity | exact Hc].
Qed.

Lemma cont_spec b : b < 256 -> (N.land b 192 =? 128) = cont b.
Proof.
  intros Hb. apply Bool.eqb_prop.
  apply (sweep_bytes (fun b => Bool.eqb (N.land b 192 =? 128) (cont b))); [vm_compute; reflexivity | exact Hb].
Qed.

Lemma cont_payload b : b < 256 -> cont b = true -> N.land b 63 = b - 128.
Proof.
  intros Hb Hc. apply N.eqb_eq.
  pose proof (sweep_bytes (fun b => negb (cont b) || (N.land b 63 =? b - 128)) ltac:(vm_compute; reflexivity) b Hb) as H.
  cbv beta in H. rewrite Hc in H. exact H.
Qed.

Lemma cont_range b : cont b = true -> 128 <= b /\ b <= 191.
Proof. unfold cont, in_range. lia. Qed.

(* ---- bit arithmetic: (acc << 6) | x = acc*64 + x for x < 64 --------------- *)
Lemma lor_shift6 a x : x < 64 -> N.lor (N.shiftl a 6) x = a * 64 + x.
Proof.
  intros Hx. rewrite N.shiftl_mul_pow2. change (2 ^ 6) with 64.
  assert (Hland : N.land (a * 64) x = 0).
  { apply N.bits_inj. intros n. rewrite N.land_spec, N.bits_0.
    destruct (N.lt_ge_cases n 6) as [Hn|Hn].
    - replace (a * 64) with (a * 2 ^ 6) by reflexivity. rewrite N.mul_pow2_bits_low by exact Hn. reflexivity.
    - assert (N.testbit x n = false).
      { destruct (N.eq_dec x 0) as [->|Hne]; [apply N.bits_0 | ].
        apply N.bits_above_log2.
        assert (N.log2 x < 6). { apply N.log2_lt_pow2; [lia | change (2^6) with 64; exact Hx]. } lia. }
      rewrite H. apply andb_false_r. }
  rewrite <- N.lxor_lor by exact Hland. symmetry. apply N.add_nocarry_lxor. exact Hland.
Qed.

(* ---- closed forms of the generated step functions ------------------------- *)
Lemma utf8_length_spec r :
  utf8_length r = if r <? 128 then 1 else if r <? 2048 then 2 else if r <? 65536 then 3
                  else if r <? 2097152 then 4 else if r <? 67108864 then 5 else 6.
Proof.
  unfold utf8_length, utf8_length_steps. cbn [step_lookup].
  replace (0 <=? r) with true by lia.
  destruct (128 <=? r) eqn:H1; [|replace (r <? 128) with true by lia; reflexivity].
  replace (r <? 128) with false by lia.
  destruct (2048 <=? r) eqn:H2; [|replace (r <? 2048) with true by lia; reflexivity].
  replace (r <? 2048) with false by lia.
  destruct (65536 <=? r) eqn:H3; [|replace (r <? 65536) with true by lia; reflexivity].
  replace (r <? 65536) with false by lia.
  destruct (2097152 <=? r) eqn:H4; [|replace (r <? 2097152) with true by lia; reflexivity].
  replace (r <? 2097152) with false by lia.
  destruct (67108864 <=? r) eqn:H5; [replace (r <? 67108864) with false by lia|replace (r <? 67108864) with true by lia]; reflexivity.
Qed.

Lemma unicode_valid_spec r :
  unicode_valid r = (r <? 55296) || ((57344 <=? r) && (r <? 1114112)).
Proof.
  unfold unicode_valid, unicode_valid_steps. cbn [step_lookup].
  replace (0 <=? r) with true by lia.
  destruct (55296 <=? r) eqn:H1; [|lia].
  destruct (57344 <=? r) eqn:H2; [|lia].
  destruct (1114112 <=? r) eqn:H3; lia.
Qed.

(* ---- UTF8_GET ------------------------------------------------------------- *)
Lemma get1 acc b : b < 256 -> utf8_get acc [b] = if cont b then acc * 64 + (b - 128) else BAD_UNICHAR.
Proof.
  intros Hb. cbn [utf8_get]. rewrite cont_spec by exact Hb. destruct (cont b) eqn:Hc; cbn [negb]; [|reflexivity].
  rewrite cont_payload by assumption. apply lor_shift6. apply cont_range in Hc. lia.
Qed.

Lemma get_cons acc b r : b < 256 ->
  utf8_get acc (b :: r) = if cont b then utf8_get (acc * 64 + (b - 128)) r else BAD_UNICHAR.
Proof.
  intros Hb. cbn [utf8_get]. rewrite cont_spec by exact Hb. destruct (cont b) eqn:Hc; cbn [negb]; [|reflexivity].
  rewrite cont_payload by assumption. rewrite lor_shift6; [reflexivity|]. apply cont_range in Hc. lia.
Qed.

Lemma bad_rejected len : (negb (utf8_length BAD_UNICHAR =? len)) || negb (unicode_valid BAD_UNICHAR) = true.
Proof. rewrite unicode_valid_spec. unfold BAD_UNICHAR. cbn. apply orb_true_r. Qed.

(* ---- acceptance conditions as arithmetic ---------------------------------- *)
Lemma len_is_2 r : (utf8_length r =? 2) = (128 <=? r) && (r <? 2048).
Proof. rewrite utf8_length_spec. destruct (r <? 128) eqn:?; destruct (r <? 2048) eqn:?; destruct (r <? 65536) eqn:?; destruct (r <? 2097152) eqn:?; destruct (r <? 67108864) eqn:?; lia. Qed.
Lemma len_is_3 r : (utf8_length r =? 3) = (2048 <=? r) && (r <? 65536).
Proof. rewrite utf8_length_spec. destruct (r <? 128) eqn:?; destruct (r <? 2048) eqn:?; destruct (r <? 65536) eqn:?; destruct (r <? 2097152) eqn:?; destruct (r <? 67108864) eqn:?; lia. Qed.
Lemma len_is_4 r : (utf8_length r =? 4) = (65536 <=? r) && (r <? 2097152).
Proof. rewrite utf8_length_spec. destruct (r <? 128) eqn:?; destruct (r <? 2048) eqn:?; destruct (r <? 65536) eqn:?; destruct (r <? 2097152) eqn:?; destruct (r <? 67108864) eqn:?; lia. Qed.
Lemma len_is_5 r : (utf8_length r =? 5) = (2097152 <=? r) && (r <? 67108864).
Proof. rewrite utf8_length_spec. destruct (r <? 128) eqn:?; destruct (r <? 2048) eqn:?; destruct (r <? 65536) eqn:?; destruct (r <? 2097152) eqn:?; destruct (r <? 67108864) eqn:?; lia. Qed.
Lemma len_is_6 r : (utf8_length r =? 6) = (67108864 <=? r).
Proof. rewrite utf8_length_spec. destruct (r <? 128) eqn:?; destruct (r <? 2048) eqn:?; destruct (r <? 65536) eqn:?; destruct (r <? 2097152) eqn:?; destruct (r <? 67108864) eqn:?; lia. Qed.

Definition ok2 (c : N) : bool := 194 <=? c.
Definition ok3 (c c2 : N) : bool :=
  ((c =? 224) && (160 <=? c2)) || ((c =? 237) && (c2 <=? 159)) || (negb (c =? 224) && negb (c =? 237)).
Definition ok4 (c c2 : N) : bool :=
  ((c =? 240) && (144 <=? c2)) || ((241 <=? c) && (c <=? 243)) || ((c =? 244) && (c2 <=? 143)).

Lemma acc2 c c2 : 192 <= c -> c < 224 -> 128 <= c2 -> c2 <= 191 ->
  (utf8_length ((c - 192) * 64 + (c2 - 128)) =? 2) && unicode_valid ((c - 192) * 64 + (c2 - 128)) = ok2 c.
Proof. intros. rewrite len_is_2, unicode_valid_spec. unfold ok2. lia. Qed.

Lemma acc3 c c2 c3 : 224 <= c -> c < 240 -> 128 <= c2 -> c2 <= 191 -> 128 <= c3 -> c3 <= 191 ->
  let r := ((c - 224) * 64 + (c2 - 128)) * 64 + (c3 - 128) in
  (utf8_length r =? 3) && unicode_valid r = ok3 c c2.
Proof. intros. subst r. rewrite len_is_3, unicode_valid_spec. unfold ok3. lia. Qed.

Lemma acc4 c c2 c3 c4 : 240 <= c -> c < 248 -> 128 <= c2 -> c2 <= 191 -> 128 <= c3 -> c3 <= 191 -> 128 <= c4 -> c4 <= 191 ->
  let r := (((c - 240) * 64 + (c2 - 128)) * 64 + (c3 - 128)) * 64 + (c4 - 128) in
  (utf8_length r =? 4) && unicode_valid r = ok4 c c2.
Proof. intros. subst r. rewrite len_is_4, unicode_valid_spec. unfold ok4. lia. Qed.

Lemma acc5 r : (utf8_length r =? 5) && unicode_valid r = false.
Proof. rewrite len_is_5, unicode_valid_spec. lia. Qed.
Lemma acc6 r : (utf8_length r =? 6) && unicode_valid r = false.
Proof. rewrite len_is_6, unicode_valid_spec. lia. Qed.

Lemma check_shape (r len : N) (K : option bool) :
  (if negb (utf8_length r =? len) then Some false else if negb (unicode_valid r) then Some false else K)
  = if (utf8_length r =? len) && unicode_valid r then K else Some false.
Proof. destruct (utf8_length r =? len), (unicode_valid r); reflexivity. Qed.

Lemma bad_check len K : (if (utf8_length BAD_UNICHAR =? len) && unicode_valid BAD_UNICHAR then K else Some false) = Some false.
Proof. replace (unicode_valid BAD_UNICHAR) with false by (rewrite unicode_valid_spec; reflexivity). rewrite andb_false_r. reflexivity. Qed.

(* ---- the specification rejects every sequence with an impossible lead byte -- *)
Lemma spec_reject f c r : in_range 1 127 c = false -> (194 <=? c) && (c <=? 244) = false ->
  spec_utf8_fuel (S f) (c :: r) = false.
Proof.
  intros H1 H2. cbn [spec_utf8_fuel]. rewrite H1.
  destruct r as [|c2 r2]; [reflexivity|].
  replace (in_range 194 223 c) with false by (unfold in_range in *; lia).
  destruct r2 as [|c3 r3]; [reflexivity|].
  replace (c =? 224) with false by (unfold in_range in *; lia).
  replace (in_range 225 236 c || in_range 238 239 c) with false by (unfold in_range in *; lia).
  replace (c =? 237) with false by (unfold in_range in *; lia).
  destruct r3 as [|c4 r4]; [reflexivity|].
  replace (c =? 240) with false by (unfold in_range in *; lia).
  replace (in_range 241 243 c) with false by (unfold in_range in *; lia).
  replace (c =? 244) with false by (unfold in_range in *; lia).
  reflexivity.
Qed.

Lemma all_bytes_cons c r : all_bytes (c :: r) = true -> c < 256 /\ all_bytes r = true.
Proof. unfold all_bytes. cbn [forallb]. unfold is_byte at 1. intros H. apply andb_true_iff in H. destruct H as [H1 H2]. split; [lia|exact H2]. Qed.

Lemma nlen_cons' {A} (x : A) l : nlen (x :: l) = nlen l + 1.
Proof. unfold nlen. cbn [length]. lia. Qed.

(* one iteration of the C loop on a lead byte >= 128, in closed form *)
Lemma model_step f c rest : c < 256 -> 128 <= c ->
  utf8_loop (S f) (c :: rest) =
  let '(len, mask) := classify c in
  if len =? 0 then Some false
  else if nlen (c :: rest) <? len then Some false
  else let n := N.to_nat (len - 1) in
       let r := utf8_get (payload c) (firstn n rest) in
       if (utf8_length r =? len) && unicode_valid r then utf8_loop f (skipn n rest) else Some false.
Proof.
  intros Hc H128. cbn [utf8_loop].
  replace (c =? 0) with false by lia. replace (c <? 128) with false by lia.
  rewrite <- (payload_spec c Hc). rewrite (compute_spec c Hc).
  destruct (classify c) as [len mask] eqn:Hcl. cbn [snd].
  destruct (len =? 0); [reflexivity|]. destruct (nlen (c :: rest) <? len); [reflexivity|].
  cbv zeta. apply check_shape.
Qed.

Lemma spec2 f c c2 r2 : in_range 1 127 c = false -> in_range 194 223 c = true ->
  spec_utf8_fuel (S f) (c :: c2 :: r2) = cont c2 && spec_utf8_fuel f r2.
Proof. intros H1 H2. cbn [spec_utf8_fuel]. rewrite H1, H2. reflexivity. Qed.

Lemma spec3 f c c2 c3 r3 : 224 <= c -> c < 240 ->
  spec_utf8_fuel (S f) (c :: c2 :: c3 :: r3) = cont c2 && cont c3 && ok3 c c2 && spec_utf8_fuel f r3.
Proof.
  intros H1 H2. cbn [spec_utf8_fuel].
  replace (in_range 1 127 c) with false by (unfold in_range; lia).
  replace (in_range 194 223 c) with false by (unfold in_range; lia).
  unfold ok3, cont, in_range.
  destruct (c =? 224) eqn:E1.
  - destruct (spec_utf8_fuel f r3); lia.
  - destruct ((225 <=? c) && (c <=? 236) || (238 <=? c) && (c <=? 239)) eqn:E2.
    + destruct (spec_utf8_fuel f r3); lia.
    + replace (c =? 237) with true by lia. destruct (spec_utf8_fuel f r3); lia.
Qed.

Lemma spec4 f c c2 c3 c4 r4 : 240 <= c -> c < 248 ->
  spec_utf8_fuel (S f) (c :: c2 :: c3 :: c4 :: r4) = cont c2 && cont c3 && cont c4 && ok4 c c2 && spec_utf8_fuel f r4.
Proof.
  intros H1 H2. cbn [spec_utf8_fuel].
  replace (in_range 1 127 c) with false by (unfold in_range; lia).
  replace (in_range 194 223 c) with false by (unfold in_range; lia).
  replace (c =? 224) with false by lia.
  replace (in_range 225 236 c || in_range 238 239 c) with false by (unfold in_range; lia).
  replace (c =? 237) with false by lia.
  unfold ok4, cont, in_range.
  destruct (c =? 240) eqn:E1.
  - destruct (spec_utf8_fuel f r4); lia.
  - destruct ((241 <=? c) && (c <=? 243)) eqn:E2.
    + destruct (spec_utf8_fuel f r4); lia.
    + destruct (c =? 244) eqn:E3.
      * destruct (spec_utf8_fuel f r4); lia.
      * destruct (spec_utf8_fuel f r4); lia.
Qed.

Lemma spec_short2 f c : in_range 1 127 c = false -> spec_utf8_fuel (S f) [c] = false.
Proof. intros H. cbn [spec_utf8_fuel]. rewrite H. reflexivity. Qed.

Lemma spec_short3 f c c2 : in_range 1 127 c = false -> in_range 194 223 c = false -> spec_utf8_fuel (S f) [c; c2] = false.
Proof. intros H1 H2. cbn [spec_utf8_fuel]. rewrite H1, H2. reflexivity. Qed.

Lemma spec_short4 f c c2 c3 : 240 <= c -> spec_utf8_fuel (S f) [c; c2; c3] = false.
Proof.
  intros H. cbn [spec_utf8_fuel].
  replace (in_range 1 127 c) with false by (unfold in_range; lia).
  replace (in_range 194 223 c) with false by (unfold in_range; lia).
  replace (c =? 224) with false by lia.
  replace (in_range 225 236 c || in_range 238 239 c) with false by (unfold in_range; lia).
  replace (c =? 237) with false by lia. reflexivity.
Qed.

Theorem utf8_correct_fuel : forall f s, all_bytes s = true -> (length s < f)%nat ->
  utf8_loop f s = Some (spec_utf8_fuel f s).
Proof.
  induction f as [|f IH]; intros s Hb Hl; [lia|].
  destruct s as [|c rest]; [reflexivity|].
  apply all_bytes_cons in Hb. destruct Hb as [Hc Hrest]. cbn [length] in Hl.
  destruct (N.lt_ge_cases c 128) as [Hlow|Hhigh].
  - (* ASCII or NUL *)
    cbn [utf8_loop]. destruct (c =? 0) eqn:E0.
    + rewrite spec_reject; [reflexivity | unfold in_range; lia | lia].
    + replace (c <? 128) with true by lia. rewrite IH by (assumption || lia).
      cbn [spec_utf8_fuel]. replace (in_range 1 127 c) with true by (unfold in_range; lia). reflexivity.
  - rewrite model_step by assumption. unfold classify.
    replace (c <? 128) with false by lia.
    destruct (c <? 192) eqn:E192.
    { cbv beta iota. change (0 =? 0) with true. cbv iota. rewrite spec_reject; [reflexivity | unfold in_range; lia | lia]. }
    destruct (c <? 224) eqn:E224.
    { (* two bytes *)
      cbv beta iota. change (2 =? 0) with false. cbv iota.
      destruct rest as [|c2 r2].
      - replace (nlen [c] <? _) with true by (cbn; reflexivity). rewrite spec_short2; [reflexivity | unfold in_range; lia].
      - apply all_bytes_cons in Hrest. destruct Hrest as [Hc2 Hr2].
        replace (nlen (c :: c2 :: r2) <? 2) with false by (rewrite !nlen_cons'; lia).
        change (N.to_nat (2 - 1)) with 1%nat. cbn [firstn skipn]. cbv zeta.
        rewrite get1 by exact Hc2. unfold payload.
        replace (c <? 128) with false by lia. rewrite E192, E224.
        destruct (cont c2) eqn:Hk.
        + apply cont_range in Hk. rewrite acc2 by lia. unfold ok2.
          destruct (194 <=? c) eqn:E194.
          * rewrite IH by (assumption || (cbn [length] in Hl; lia)).
            rewrite spec2; [|unfold in_range; lia|unfold in_range; lia].
            replace (cont c2) with true by (unfold cont, in_range; lia). reflexivity.
          * rewrite spec_reject; [reflexivity | unfold in_range; lia | lia].
        + rewrite bad_check.
          destruct (194 <=? c) eqn:E194.
          * rewrite spec2; [|unfold in_range; lia|unfold in_range; lia]. rewrite Hk. reflexivity.
          * rewrite spec_reject; [reflexivity | unfold in_range; lia | lia]. }
    destruct (c <? 240) eqn:E240.
    { (* three bytes *)
      cbv beta iota. change (3 =? 0) with false. cbv iota.
      destruct rest as [|c2 [|c3 r3]].
      - replace (nlen [c] <? _) with true by (cbn; reflexivity). rewrite spec_short2; [reflexivity | unfold in_range; lia].
      - replace (nlen [c; c2] <? _) with true by (cbn; reflexivity). rewrite spec_short3; [reflexivity | unfold in_range; lia | unfold in_range; lia].
      - apply all_bytes_cons in Hrest. destruct Hrest as [Hc2 Hr2].
        apply all_bytes_cons in Hr2. destruct Hr2 as [Hc3 Hr3].
        replace (nlen (c :: c2 :: c3 :: r3) <? 3) with false by (rewrite !nlen_cons'; lia).
        change (N.to_nat (3 - 1)) with 2%nat. cbn [firstn skipn]. cbv zeta.
        rewrite get_cons by exact Hc2. unfold payload.
        replace (c <? 128) with false by lia. rewrite E192, E224, E240.
        rewrite spec3 by lia.
        destruct (cont c2) eqn:Hk2; [|rewrite bad_check; reflexivity].
        rewrite get1 by exact Hc3.
        destruct (cont c3) eqn:Hk3; [|rewrite bad_check; reflexivity].
        apply cont_range in Hk2, Hk3.
        rewrite (acc3 c c2 c3) by lia. cbn [andb].
        destruct (ok3 c c2); [|reflexivity].
        rewrite IH by (assumption || (cbn [length] in Hl; lia)). reflexivity. }
    destruct (c <? 248) eqn:E248.
    { (* four bytes *)
      cbv beta iota. change (4 =? 0) with false. cbv iota.
      destruct rest as [|c2 [|c3 [|c4 r4]]].
      - replace (nlen [c] <? _) with true by (cbn; reflexivity). rewrite spec_short2; [reflexivity | unfold in_range; lia].
      - replace (nlen [c; c2] <? _) with true by (cbn; reflexivity). rewrite spec_short3; [reflexivity | unfold in_range; lia | unfold in_range; lia].
      - replace (nlen [c; c2; c3] <? _) with true by (cbn; reflexivity). rewrite spec_short4; [reflexivity | lia].
      - apply all_bytes_cons in Hrest. destruct Hrest as [Hc2 Hr2].
        apply all_bytes_cons in Hr2. destruct Hr2 as [Hc3 Hr3].
        apply all_bytes_cons in Hr3. destruct Hr3 as [Hc4 Hr4].
        replace (nlen (c :: c2 :: c3 :: c4 :: r4) <? 4) with false by (rewrite !nlen_cons'; lia).
        change (N.to_nat (4 - 1)) with 3%nat. cbn [firstn skipn]. cbv zeta.
        rewrite get_cons by exact Hc2. unfold payload.
        replace (c <? 128) with false by lia. rewrite E192, E224, E240, E248.
        rewrite spec4 by lia.
        destruct (cont c2) eqn:Hk2; [|rewrite bad_check; reflexivity].
        rewrite get_cons by exact Hc3.
        destruct (cont c3) eqn:Hk3; [|rewrite bad_check; reflexivity].
        rewrite get1 by exact Hc4.
        destruct (cont c4) eqn:Hk4; [|rewrite bad_check; reflexivity].
        apply cont_range in Hk2, Hk3, Hk4.
        rewrite (acc4 c c2 c3 c4) by lia. cbn [andb].
        destruct (ok4 c c2); [|reflexivity].
        rewrite IH by (assumption || (cbn [length] in Hl; lia)). reflexivity. }
    destruct (c <? 252) eqn:E252.
    { cbv beta iota. change (5 =? 0) with false. cbv iota. destruct (nlen (c :: rest) <? 5).
      - rewrite spec_reject; [reflexivity | unfold in_range; lia | lia].
      - cbv zeta. rewrite acc5. rewrite spec_reject; [reflexivity | unfold in_range; lia | lia]. }
    destruct (c <? 254) eqn:E254.
    { cbv beta iota. change (6 =? 0) with false. cbv iota. destruct (nlen (c :: rest) <? 6).
      - rewrite spec_reject; [reflexivity | unfold in_range; lia | lia].
      - cbv zeta. rewrite acc6. rewrite spec_reject; [reflexivity | unfold in_range; lia | lia]. }
    cbv beta iota. change (0 =? 0) with true. cbv iota. rewrite spec_reject; [reflexivity | unfold in_range; lia | lia].
Qed.

Theorem utf8_correct : forall s, all_bytes s = true -> validate_utf8 s = Some (spec_utf8 s).
Proof. intros s H. unfold validate_utf8, spec_utf8. apply utf8_correct_fuel; [exact H | lia]. Qed.
