(* C17: the part of "no schedule crashes the library" that holds.  As long as
   nobody blocks on a call after cancelling it, the NULL timeout_link of F17.3
   is unreachable: a call that is neither cancelled nor completed on a live
   connection is in the table and still owns its timeout_link, or a message
   with its serial is in the incoming queue. *)
From Coq Require Import List NArith Bool Lia ZArith ZifyBool ZifyN ZifyNat.
Import ListNotations.
From DV Require Import PendingCall.Pending Spec.PendingSpec Proofs.PendingSerial Proofs.PendingLemmas Proofs.PendingInv
  Proofs.PendingRel Proofs.PendingCancel Proofs.PendingFault Proofs.PendingLive.
Local Open Scope N_scope.

Definition has_msg (q : list msg) (s : N) : Prop := exists m, In m q /\ m_rs m = s.

Definition live_ok (st : state) : Prop :=
  connected st = true ->
  forall i c, nth_error (calls st) i = Some c -> c_cancelled c = false -> c_completed c = false ->
    c_intable c = true /\ (c_link c = true \/ has_msg (queue st) (c_serial c)).

Definition nodup (st : state) : Prop := NoDup (map c_serial (calls st)).
Definition fresh (st : state) : Prop := Forall (fun c => c_serial c <> serial st) (calls st).

(* ---- primitives that keep cancelled / completed / serial / intable / link of every call and only add to the queue ---- *)
Definition same_live (c c' : call) : Prop :=
  c_cancelled c' = c_cancelled c /\ c_completed c' = c_completed c /\ c_serial c' = c_serial c /\
  c_intable c' = c_intable c /\ c_link c' = c_link c.

Definition jq (st st' : state) : Prop :=
  (connected st' = true -> connected st = true /\ Forall2 same_live (calls st) (calls st')) /\
  (forall m, In m (queue st) -> In m (queue st')).

Lemma same_live_refl c : same_live c c.
Proof. unfold same_live; auto. Qed.
Lemma same_live_trans a b c : same_live a b -> same_live b c -> same_live a c.
Proof. unfold same_live. intuition congruence. Qed.

Lemma Forall2_refl_sl l : Forall2 same_live l l.
Proof. induction l; constructor; auto using same_live_refl. Qed.
Lemma Forall2_trans_sl a : forall b c, Forall2 same_live a b -> Forall2 same_live b c -> Forall2 same_live a c.
Proof.
  induction a; intros b c H1 H2; inversion H1; subst; inversion H2; subst; constructor; eauto using same_live_trans.
Qed.
Lemma Forall2_upd_sl l i f : (forall c, same_live c (f c)) -> Forall2 same_live l (upd l i f).
Proof. intros H. revert i; induction l; intros [|i]; simpl; constructor; auto using same_live_refl, Forall2_refl_sl. Qed.
Lemma Forall2_nth_sl l l' i c' : Forall2 same_live l l' -> nth_error l' i = Some c' -> exists c, nth_error l i = Some c /\ same_live c c'.
Proof.
  intros H. revert i; induction H; intros [|i] Hn; simpl in *; try discriminate.
  - inversion Hn; subst. eauto.
  - eauto.
Qed.

Lemma jq_refl st : jq st st.
Proof. split; auto. intros; split; auto. apply Forall2_refl_sl. Qed.
Lemma jq_trans a b c : jq a b -> jq b c -> jq a c.
Proof.
  intros [A1 A2] [B1 B2]. split; auto. intros Hc. destruct (B1 Hc) as [Hb F2]. destruct (A1 Hb) as [Ha F1].
  split; auto. eapply Forall2_trans_sl; eauto.
Qed.

Lemma live_jq st st' : jq st st' -> live_ok st -> live_ok st'.
Proof.
  intros [A1 A2] L Hc i c' Hn Hcan Hcomp. destruct (A1 Hc) as [Hc0 F].
  destruct (Forall2_nth_sl _ _ _ _ F Hn) as [c [Hn0 (E1 & E2 & E3 & E4 & E5)]].
  destruct (L Hc0 i c Hn0) as [Ht Hl]; try congruence.
  split; [congruence|]. destruct Hl as [Hl|[m [Hin Hm]]]; [left; congruence|right]. exists m. split; auto. congruence.
Qed.

Lemma jq_queue_received st m : jq st (queue_received st m).
Proof.
  unfold queue_received. split; simpl.
  - intros Hc. split; auto. destruct (m_rs m =? 0); [apply Forall2_refl_sl|].
    destruct (lookup (calls st) (m_rs m)); [|apply Forall2_refl_sl]. apply Forall2_upd_sl. intros c; unfold same_live; simpl; auto.
  - intros x Hx. apply in_or_app; auto.
Qed.

Lemma jq_fold_received w : forall st, jq st (fold_left queue_received w st).
Proof. induction w as [|m w IH]; intros st; simpl; [apply jq_refl|]. eapply jq_trans; [apply jq_queue_received|apply IH]. Qed.

Lemma jq_u_read st : jq st (u_read st).
Proof.
  unfold u_read. destruct (connected st) eqn:Hc; [|apply jq_refl].
  assert (Q : jq st (fold_left queue_received (wire st) (set_wire st []))).
  { eapply jq_trans; [|apply jq_fold_received]. split; simpl; auto. intros; split; auto. apply Forall2_refl_sl. }
  destruct (peer_closed st); [|exact Q]. destruct Q as [Q1 Q2]. split; simpl; [discriminate|exact Q2].
Qed.

Lemma jq_u_status st : jq st (u_status st).
Proof.
  unfold u_status. destruct (queue st) eqn:Hq; [|apply jq_refl].
  destruct (connected st) eqn:Hc; [apply jq_refl|].
  destruct (disc_link st); split; simpl; try (intros H; rewrite Hc in H; discriminate); try rewrite Hq; simpl; auto.
  intros m [].
Qed.

Lemma jq_u_flush st : jq st (u_flush st).
Proof.
  unfold u_flush. eapply jq_trans; [|apply jq_u_status]. destruct (outgoing st && connected st); [apply jq_u_read|apply jq_refl].
Qed.

Lemma jq_blk_iter st f st' t : blk_iter st f = Some (st', t) -> jq st st'.
Proof.
  unfold blk_iter. destruct (negb (connected st)); [intros H; inversion H; apply jq_refl|].
  destruct (wire st); [|intros H; inversion H; apply jq_u_read].
  destruct (peer_closed st); [intros H; inversion H; apply jq_u_read|].
  destruct f; [intros H; inversion H; apply jq_refl|discriminate].
Qed.

Lemma jq_blk_recheck_inr st i t st' : blk_recheck st i t = inr st' -> jq st st'.
Proof.
  unfold blk_recheck. intros H.
  destruct (nth_error (calls (u_status st)) i) as [c|]; [|discriminate].
  destruct (c_completed c); [discriminate|].
  destruct (blk_check (u_status st) i); [discriminate|].
  destruct (negb (connected (u_status st))); [discriminate|].
  destruct (negb (disc_link (u_status st))); [discriminate|].
  destruct (negb (c_finite c)); [inversion H; subst; apply jq_u_status|].
  destruct (negb t); [inversion H; subst; apply jq_u_status|discriminate].
Qed.

(* ---- a completion takes exactly one call out of the picture ---- *)
Lemma detach_only_self l s j cj : NoDup (map c_serial l) -> nth_error l j = Some cj -> c_serial cj <> s -> detach_fn s cj = cj.
Proof. intros _ _ Hne. unfold detach_fn. assert ((c_serial cj =? s) = false) as -> by (apply N.eqb_neq; auto). rewrite andb_false_r. reflexivity. Qed.

Definition live_but (i : nat) (st : state) : Prop :=
  connected st = true ->
  forall j c, j <> i -> nth_error (calls st) j = Some c -> c_cancelled c = false -> c_completed c = false ->
    c_intable c = true /\ (c_link c = true \/ has_msg (queue st) (c_serial c)).

Lemma live_but_of st i : live_ok st -> live_but i st.
Proof. intros L Hc j c _. apply L; auto. Qed.

Lemma live_complete st i c f :
  nodup st -> nth_error (calls st) i = Some c -> (forall c', c_completed (f c') = true) -> live_but i st ->
  live_ok (set_calls st (upd (detach_serial (calls st) (c_serial c)) i f)).
Proof.
  intros Hnd Hn Hf L Hc j cj' Hj Hcan Hcomp. simpl in *.
  destruct (Nat.eq_dec i j) as [->|Hne].
  - rewrite nth_error_upd, Nat.eqb_refl in Hj. destruct (nth_error (detach_serial (calls st) (c_serial c)) j); [|discriminate].
    simpl in Hj. inversion Hj; subst. rewrite Hf in Hcomp. discriminate.
  - rewrite nth_error_upd_neq in Hj by auto. rewrite detach_serial_map, nth_error_map in Hj.
    destruct (nth_error (calls st) j) as [cj|] eqn:Hj0; [|discriminate]. simpl in Hj. inversion Hj; subst. clear Hj.
    assert (Hs : c_serial cj <> c_serial c).
    { intro E. apply Hne. symmetry. eapply nth_error_nodup_serial; eauto. }
    rewrite (detach_only_self _ _ j cj Hnd Hj0 Hs) in *. apply (L Hc j cj); auto.
Qed.

Lemma find_reply_keeps q s m q' x : find_reply q s = Some (m, q') -> In x q -> m_rs x <> s -> In x q'.
Proof.
  revert m q'; induction q as [|y q IH]; simpl; intros m q' H Hin Hne; [contradiction|].
  destruct (m_rs y =? s) eqn:E.
  - inversion H; subst. destruct Hin as [<-|Hin]; auto. apply N.eqb_eq in E. contradiction.
  - destruct (find_reply q s) as [[z r]|] eqn:Ef; [|discriminate]. inversion H; subst.
    destruct Hin as [<-|Hin]; [left; reflexivity|right; eapply IH; eauto].
Qed.

(* taking messages with reply serial s out of the queue only matters to the call with serial s *)
Lemma live_take st q' i c :
  nodup st -> nth_error (calls st) i = Some c ->
  (forall x, In x (queue st) -> m_rs x <> c_serial c -> In x q') -> live_ok st -> live_but i (set_queue st q').
Proof.
  intros Hnd Hn Hq L Hc j cj Hne Hj Hcan Hcomp. simpl in *.
  destruct (L Hc j cj Hj Hcan Hcomp) as [Ht Hl]. split; auto.
  destruct Hl as [Hl|[m [Hin Hm]]]; [left; auto|right]. exists m. split; auto. apply Hq; auto.
  rewrite Hm. intro E. apply Hne. eapply nth_error_nodup_serial; eauto.
Qed.

Lemma start_complete_none_ok st i c :
  nth_error (calls st) i = Some c -> c_reply c = None -> c_link c = true -> c_completed c = false ->
  start_complete st i None =
  (set_calls st (upd (detach_serial (calls st) (c_serial c)) i (fun c' => unhash (set_started (noreply (c_serial c)) false c'))),
   [OComplete i (noreply (c_serial c))]).
Proof.
  intros Hn Hr Hl Hc. unfold start_complete. rewrite Hn, Hl, Hr, Hc. simpl. rewrite N.eqb_refl. simpl.
  rewrite start_calls_eq by exact Hn. reflexivity.
Qed.

(* the ways a wait can complete its call *)
Lemma live_blk_check st i st' o :
  calls_ok st -> nodup st -> live_ok st -> fault st = 0 -> open_at i st -> blk_check st i = Some (st', o) -> live_ok st' /\ fault st' = 0.
Proof.
  intros Hok Hnd L Hf Ho H. split; [|eapply blk_check_f0; eauto].
  unfold blk_check in H. destruct (nth_error (calls st) i) as [c|] eqn:Hn; [|discriminate].
  destruct (find_reply (queue st) (c_serial c)) as [[m q']|] eqn:Ef; [|discriminate].
  pose proof (find_reply_some _ _ _ _ Ef) as [Hs _].
  pose proof (Forall_nth_error _ _ _ _ Hok Hn) as (_ & _ & _ & Hr & _).
  pose proof (open_at_call _ _ _ Ho Hn) as Hcc.
  rewrite (start_complete_ok (set_queue st q') i c m Hn (Hr Hcc) Hs Hcc) in H. simpl fault in H. rewrite Hf in H. simpl in H.
  inversion H; subst. apply (live_jq _ _ (jq_u_status _)).
  apply (live_complete (set_queue st q') i c); auto.
  apply (live_take st q' i c); auto. intros x Hx Hne. eapply find_reply_keeps; eauto.
Qed.

Lemma live_timeout_complete st i c :
  calls_ok st -> nodup st -> live_ok st -> fault st = 0 -> connected st = true ->
  nth_error (calls st) i = Some c -> c_completed c = false -> c_cancelled c = false -> find_reply (queue st) (c_serial c) = None ->
  live_ok (fst (timeout_complete st i)) /\ fault (fst (timeout_complete st i)) = 0.
Proof.
  intros Hok Hnd L Hf Hc Hn Hcc Hcan Hnone.
  pose proof (Forall_nth_error _ _ _ _ Hok Hn) as (_ & _ & _ & Hr & _).
  assert (Hl : c_link c = true).
  { destruct (L Hc i c Hn Hcan Hcc) as [_ [Hl|[m [Hin Hm]]]]; auto. exfalso. eapply find_reply_none; eauto. }
  unfold timeout_complete. rewrite (start_complete_none_ok st i c Hn (Hr Hcc) Hl Hcc). simpl fault. rewrite Hf. simpl.
  split; [|rewrite (quiet_fault _ _ (quiet_u_status _)); exact Hf].
  apply (live_jq _ _ (jq_u_status _)). apply (live_complete st i c); auto. apply live_but_of; auto.
Qed.

Definition not_cancelled (i : nat) (st : state) : Prop := forall c, nth_error (calls st) i = Some c -> c_cancelled c = false.

Lemma not_cancelled_jq i st st' : jq st st' -> connected st' = true -> not_cancelled i st -> not_cancelled i st'.
Proof.
  intros [A _] Hc H c' Hn. destruct (A Hc) as [_ F]. destruct (Forall2_nth_sl _ _ _ _ F Hn) as [c [Hn0 (E1 & _)]].
  rewrite E1. apply H; auto.
Qed.

Lemma nodup_quiet st st' : quiet st st' -> nodup st -> nodup st'.
Proof.
  intros (Hc & _) H. unfold nodup in *. assert (E : map c_serial (calls st') = map k_serial (cores st')) by (unfold cores; rewrite map_map; reflexivity).
  rewrite E, Hc. unfold cores. rewrite map_map. exact H.
Qed.

Lemma live_blk_recheck st i t st' o :
  calls_ok st -> nodup st -> live_ok st -> fault st = 0 -> (connected (u_status st) = true -> not_cancelled i (u_status st)) ->
  blk_recheck st i t = inl (st', o) -> live_ok st' /\ fault st' = 0.
Proof.
  intros Hok Hnd L Hf Hnc. unfold blk_recheck.
  pose proof (quiet_u_status st) as Q. pose proof (live_jq _ _ (jq_u_status st) L) as L1.
  pose proof (nodup_quiet _ _ Q Hnd) as Hnd1. pose proof (quiet_ok _ _ Q Hok) as Hok1.
  set (s1 := u_status st) in *. assert (Hf1 : fault s1 = 0) by (rewrite (quiet_fault _ _ Q); auto).
  destruct (nth_error (calls s1) i) as [c|] eqn:Hn; [|intros H; inversion H; subst; auto].
  destruct (c_completed c) eqn:Hcc; [intros H; inversion H; subst; auto|].
  assert (Ho : open_at i s1).
  { intros k Hk. unfold cores in Hk. rewrite nth_error_map, Hn in Hk. inversion Hk; subst. exact Hcc. }
  destruct (blk_check s1 i) as [[s l]|] eqn:E.
  { intros H; inversion H; subst. eapply live_blk_check; eauto. }
  assert (Hnone : find_reply (queue s1) (c_serial c) = None).
  { unfold blk_check in E. rewrite Hn in E. destruct (find_reply (queue s1) (c_serial c)) as [[m q']|]; [|reflexivity].
    destruct (start_complete (set_queue s1 q') i (Some m)); discriminate. }
  destruct (connected s1) eqn:Hc; simpl.
  2:{ intros H; inversion H as [H1].
      pose proof (Forall_nth_error _ _ _ _ Hok1 Hn) as (_ & _ & _ & Hr & _).
      rewrite (start_complete_ok s1 i c (disconnected_err (c_serial c)) Hn (Hr Hcc) eq_refl Hcc) in H1. inversion H1; subst. split; [|exact Hf1].
      intros Hc'. simpl in Hc'. congruence. }
  destruct (negb (disc_link s1)).
  { intros H; inversion H as [H1]. pose proof (live_timeout_complete s1 i c Hok1 Hnd1 L1 Hf1 Hc Hn Hcc (Hnc eq_refl c Hn) Hnone) as [A B].
    rewrite H1 in A, B. auto. }
  destruct (negb (c_finite c)); [discriminate|]. destruct (negb t); [discriminate|].
  intros H; inversion H as [H1]. pose proof (live_timeout_complete s1 i c Hok1 Hnd1 L1 Hf1 Hc Hn Hcc (Hnc eq_refl c Hn) Hnone) as [A B].
  rewrite H1 in A, B. auto.
Qed.

(* ---- the remaining events ---- *)
Lemma live_mark st i c f :
  nodup st -> nth_error (calls st) i = Some c -> (forall c', c_cancelled (f c') = true) -> live_ok st ->
  live_ok (set_calls st (upd (detach_serial (calls st) (c_serial c)) i f)).
Proof.
  intros Hnd Hn Hf L Hc j cj' Hj Hcan Hcomp. simpl in *.
  destruct (Nat.eq_dec i j) as [->|Hne].
  - rewrite nth_error_upd, Nat.eqb_refl in Hj. destruct (nth_error (detach_serial (calls st) (c_serial c)) j); [|discriminate].
    simpl in Hj. inversion Hj; subst. rewrite Hf in Hcan. discriminate.
  - rewrite nth_error_upd_neq in Hj by auto. rewrite detach_serial_map, nth_error_map in Hj.
    destruct (nth_error (calls st) j) as [cj|] eqn:Hj0; [|discriminate]. simpl in Hj. inversion Hj; subst. clear Hj.
    assert (Hs : c_serial cj <> c_serial c).
    { intro E. apply Hne. symmetry. eapply nth_error_nodup_serial; eauto. }
    rewrite (detach_only_self _ _ j cj Hnd Hj0 Hs) in *. apply (L Hc j cj); auto.
Qed.

Lemma live_ev_dispatch st : calls_ok st -> nodup st -> live_ok st -> fault st = 0 -> live_ok (fst (ev_dispatch st)).
Proof.
  intros Hok Hnd L Hf. unfold ev_dispatch.
  pose proof (quiet_u_status st) as Q. pose proof (live_jq _ _ (jq_u_status st) L) as L1.
  pose proof (nodup_quiet _ _ Q Hnd) as Hnd1. pose proof (quiet_ok _ _ Q Hok) as Hok1.
  set (s1 := u_status st) in *. assert (Hf1 : fault s1 = 0) by (rewrite (quiet_fault _ _ Q); auto).
  destruct (queue s1) as [|m q] eqn:Hq; [exact L1|].
  simpl calls. destruct (lookup (calls s1) (m_rs m)) as [i|] eqn:El.
  - destruct (lookup_some _ _ _ El) as [c [Hn [Ht Hs]]].
    pose proof (Forall_nth_error _ _ _ _ Hok1 Hn) as (Hc1 & _ & _ & Hr & _). destruct (Hc1 Ht) as [Hcc _].
    rewrite (start_complete_ok (set_queue s1 q) i c m Hn (Hr Hcc) (eq_sym Hs) Hcc). simpl fault. rewrite Hf1. simpl.
    apply (live_jq _ _ (jq_u_status _)). apply (live_complete (set_queue s1 q) i c); auto.
    apply (live_take s1 q i c); auto. intros x Hx Hne. rewrite Hq in Hx. destruct Hx as [<-|Hx]; auto. congruence.
  - simpl fault. rewrite Hf1. simpl. apply (live_jq _ _ (jq_u_status _)).
    intros Hc j cj Hj Hcan Hcomp. simpl in *. destruct (L1 Hc j cj Hj Hcan Hcomp) as [Ht Hl]. split; auto.
    destruct Hl as [Hl|[x [Hx Hm]]]; [left; auto|right]. exists x. split; auto. rewrite Hq in Hx. destruct Hx as [<-|Hx]; auto.
    exfalso. eapply (lookup_none _ _ El cj); eauto. eapply nth_error_In; eauto.
Qed.

Lemma live_ev_fire st i : calls_ok st -> live_ok st -> live_ok (fst (ev_fire st i)).
Proof.
  intros Hok L. unfold ev_fire. destruct (nth_error (calls st) i) as [c|] eqn:Hn; [|exact L].
  destruct (c_tadded c) eqn:Hta; [|exact L]. simpl. apply (live_jq _ _ (jq_u_status _)).
  pose proof (Forall_nth_error _ _ _ _ Hok Hn) as (_ & _ & Hti & _ & Htl). rewrite (Htl Hta).
  intros Hc j cj' Hj Hcan Hcomp. simpl in *. rewrite nth_error_upd in Hj. destruct (Nat.eqb i j) eqn:E.
  - apply Nat.eqb_eq in E. subst j. rewrite Hn in Hj. simpl in Hj. inversion Hj; subst. simpl in *.
    split; [auto|]. right. exists (noreply (c_serial c)). split; [apply in_or_app; right; left; reflexivity|reflexivity].
  - destruct (L Hc j cj' Hj Hcan Hcomp) as [Ht Hl]. split; auto. destruct Hl as [Hl|[x [Hx Hm]]]; [left; auto|right].
    exists x. split; auto. apply in_or_app; auto.
Qed.

Lemma live_ev_cancel st i : nodup st -> live_ok st -> live_ok (fst (ev_cancel st i)).
Proof.
  intros Hnd L. unfold ev_cancel. destruct (nth_error (calls st) i) as [c|] eqn:Hn; [|exact L].
  simpl. apply (live_mark st i c); auto.
Qed.

Lemma live_ev_send st f nf : fresh st -> live_ok st -> live_ok (fst (ev_send st f nf)).
Proof.
  intros Hfr L. unfold ev_send. destruct (negb (connected st)) eqn:Hcn; [exact L|]. unfold next_serial. simpl.
  apply (live_jq _ _ (jq_u_status _)).
  assert (Hd : detach_serial (calls st) (serial st) = calls st).
  { rewrite detach_serial_map. rewrite <- (map_id (calls st)) at 2. apply map_ext_in. intros c Hin.
    unfold fresh in Hfr. rewrite Forall_forall in Hfr. specialize (Hfr c Hin). unfold detach_fn.
    assert ((c_serial c =? serial st) = false) as -> by (apply N.eqb_neq; auto). rewrite andb_false_r. reflexivity. }
  intros Hc j cj Hj Hcan Hcomp. simpl in *. rewrite Hd in Hj.
  destruct (Nat.lt_ge_cases j (length (calls st))) as [Hlt|Hge].
  - rewrite nth_error_app1 in Hj by auto. apply (L Hc j cj); auto.
  - rewrite nth_error_app2 in Hj by auto. destruct (j - length (calls st))%nat as [|k]; simpl in Hj.
    + inversion Hj; subst. simpl. auto.
    + destruct k; discriminate.
Qed.

Definition blocking (e : event) : bool :=
  match e with EBlock _ | EBlockCheck _ | EBlockStep _ _ => true | _ => false end.

Lemma jq_simple st st' : connected st' = connected st -> Forall2 same_live (calls st) (calls st') -> queue st' = queue st -> jq st st'.
Proof. intros Hc F Hq. split; [intros H; split; congruence|intros m Hm; rewrite Hq; auto]. Qed.

(* everything that is not a wait and not send / fire / cancel / dispatch *)
Lemma jq_other st e :
  fault st = 0 ->
  match e with
  | EPlain | EPeer _ _ _ | EPeerReply _ _ _ | EPeerClose | ERead | EWatch | ESteal _ | ELocalClose | EFinish _ | EStatus | EIter => jq st (fst (step st e))
  | _ => True
  end.
Proof.
  intros Hf. unfold step. rewrite Hf. simpl. destruct e; simpl; auto.
  - unfold ev_plain, next_serial. simpl. eapply jq_trans; [|apply jq_u_status]. apply jq_simple; auto using Forall2_refl_sl.
  - unfold ev_peer. destruct (peer_closed st || negb (connected st)); [apply jq_refl|].
    destruct k; try destruct (rs =? 0); try apply jq_refl; apply jq_simple; auto using Forall2_refl_sl.
  - destruct (nth_error (calls st) i) as [c|]; simpl; [|apply jq_refl]. unfold ev_peer.
    destruct (peer_closed st || negb (connected st)); [apply jq_refl|].
    destruct k; try destruct (c_serial c =? 0); try apply jq_refl; apply jq_simple; auto using Forall2_refl_sl.
  - apply jq_simple; auto using Forall2_refl_sl.
  - unfold ev_read. destruct (connected (u_status st)); [eapply jq_trans; [apply jq_u_status|apply jq_u_read]|apply jq_u_status].
  - unfold ev_watch. destruct (connected st); simpl; [eapply jq_trans; [apply jq_u_read|apply jq_u_status]|apply jq_refl].
  - unfold ev_steal. destruct (nth_error (calls st) i) as [c|]; [destruct (c_completed c)|]; simpl; try apply jq_refl.
    apply jq_simple; auto. apply Forall2_upd_sl. intros x; unfold same_live; simpl; auto.
  - unfold ev_local_close. destruct (connected st) eqn:Hc; [|apply jq_refl].
    eapply jq_trans; [|apply jq_u_status]. split; simpl; [discriminate|auto].
  - unfold finish. destruct (nth_error (calls st) i) as [c|]; [destruct (c_inflight c)|]; simpl; try apply jq_refl.
    apply jq_simple; auto. apply Forall2_upd_sl. intros x; unfold same_live; simpl; auto.
  - apply jq_u_status.
  - apply jq_u_read.
Qed.

Lemma step_f0_nonblocking st e : calls_ok st -> fault st = 0 -> blocking e = false -> fault (fst (step st e)) = 0.
Proof.
  intros Hok Hf Hb. unfold step. rewrite Hf. simpl.
  destruct e; simpl; try discriminate.
  - destruct (ev_send st finite nf) as [s o] eqn:E. unfold ev_send in E. destruct (negb (connected st)); [inversion E; subst; auto|].
    unfold next_serial in E. inversion E; subst. simpl. rewrite (quiet_fault _ _ (quiet_u_status _)). exact Hf.
  - unfold ev_plain, next_serial. simpl. rewrite (quiet_fault _ _ (quiet_u_status _)). exact Hf.
  - rewrite (quiet_fault _ _ (quiet_ev_peer st k rs tag)). exact Hf.
  - destruct (nth_error (calls st) i); simpl; [rewrite (quiet_fault _ _ (quiet_ev_peer _ _ _ _))|]; exact Hf.
  - exact Hf.
  - unfold ev_read. destruct (connected (u_status st)); [rewrite (quiet_fault _ _ (quiet_u_read _))|]; rewrite (quiet_fault _ _ (quiet_u_status _)); exact Hf.
  - unfold ev_watch. destruct (connected st); simpl; [rewrite (quiet_fault _ _ (quiet_u_status _)), (quiet_fault _ _ (quiet_u_read _))|]; exact Hf.
  - unfold ev_fire. destruct (nth_error (calls st) i) as [c|]; [destruct (c_tadded c)|]; simpl; auto.
    rewrite (quiet_fault _ _ (quiet_u_status _)). exact Hf.
  - unfold ev_cancel. destruct (nth_error (calls st) i); simpl; exact Hf.
  - apply ev_dispatch_f0; auto.
  - unfold ev_steal. destruct (nth_error (calls st) i) as [c|]; [destruct (c_completed c)|]; simpl; exact Hf.
  - unfold ev_local_close. destruct (connected st); [rewrite (quiet_fault _ _ (quiet_u_status _))|]; exact Hf.
  - unfold finish. destruct (nth_error (calls st) i) as [c|]; [destruct (c_inflight c)|]; simpl; exact Hf.
  - rewrite (quiet_fault _ _ (quiet_u_status _)). exact Hf.
  - rewrite (quiet_fault _ _ (quiet_u_read _)). exact Hf.
Qed.

Lemma live_ev_block st i :
  calls_ok st -> nodup st -> live_ok st -> fault st = 0 -> not_cancelled i st ->
  live_ok (fst (ev_block st i)) /\ fault (fst (ev_block st i)) = 0.
Proof.
  intros Hok Hnd L Hf Hnc. unfold ev_block.
  destruct (nth_error (calls st) i) as [c|] eqn:Hn; [|auto].
  destruct (c_completed c) eqn:Hcc; [auto|].
  assert (Ho : open_at i st).
  { intros k Hk. unfold cores in Hk. rewrite nth_error_map, Hn in Hk. inversion Hk; subst. exact Hcc. }
  pose proof (quiet_u_flush st) as Q0. pose proof (jq_u_flush st) as J0. set (s0 := u_flush st) in *.
  assert (Hf0 : fault s0 = 0) by (rewrite (quiet_fault _ _ Q0); auto).
  assert (Hok0 : calls_ok s0) by (apply (quiet_ok _ _ Q0); auto).
  assert (Hnd0 : nodup s0) by (apply (nodup_quiet _ _ Q0); auto).
  assert (L0 : live_ok s0) by (apply (live_jq _ _ J0); auto).
  destruct (blk_check s0 i) as [[s l]|] eqn:E1.
  { simpl. eapply live_blk_check; eauto. eapply open_at_quiet; eauto. }
  destruct (blk_iter s0 (c_finite c)) as [[st1 t1]|] eqn:E2; [|simpl; auto].
  pose proof (quiet_blk_iter _ _ _ _ E2) as Q1. pose proof (jq_blk_iter _ _ _ _ E2) as J1.
  assert (Hf1 : fault st1 = 0) by (rewrite (quiet_fault _ _ Q1); auto).
  assert (Hok1 : calls_ok st1) by (apply (quiet_ok _ _ Q1); auto).
  assert (Hnd1 : nodup st1) by (apply (nodup_quiet _ _ Q1); auto).
  assert (L1 : live_ok st1) by (apply (live_jq _ _ J1); auto).
  assert (J01 : jq st st1) by (eapply jq_trans; eauto).
  destruct (blk_recheck st1 i t1) as [[s l]|st2] eqn:E3.
  { simpl. eapply live_blk_recheck; eauto. intros Hc. eapply (not_cancelled_jq i st); [|exact Hc|exact Hnc].
    eapply jq_trans; [exact J01|apply jq_u_status]. }
  pose proof (quiet_blk_recheck_inr _ _ _ _ E3) as Q2. pose proof (jq_blk_recheck_inr _ _ _ _ E3) as J2.
  assert (Hf2 : fault st2 = 0) by (rewrite (quiet_fault _ _ Q2); auto).
  assert (Hok2 : calls_ok st2) by (apply (quiet_ok _ _ Q2); auto).
  assert (Hnd2 : nodup st2) by (apply (nodup_quiet _ _ Q2); auto).
  assert (L2 : live_ok st2) by (apply (live_jq _ _ J2); auto).
  destruct (blk_iter st2 (c_finite c)) as [[st3 t2]|] eqn:E4; [|simpl; auto].
  pose proof (quiet_blk_iter _ _ _ _ E4) as Q3. pose proof (jq_blk_iter _ _ _ _ E4) as J3.
  assert (Hf3 : fault st3 = 0) by (rewrite (quiet_fault _ _ Q3); auto).
  assert (Hok3 : calls_ok st3) by (apply (quiet_ok _ _ Q3); auto).
  assert (Hnd3 : nodup st3) by (apply (nodup_quiet _ _ Q3); auto).
  assert (L3 : live_ok st3) by (apply (live_jq _ _ J3); auto).
  assert (J03 : jq st st3) by (eapply jq_trans; [exact J01|eapply jq_trans; eauto]).
  destruct (blk_recheck st3 i (t1 || t2)) as [[s l]|st4] eqn:E5.
  { simpl. eapply live_blk_recheck; eauto. intros Hc. eapply (not_cancelled_jq i st); [|exact Hc|exact Hnc].
    eapply jq_trans; [exact J03|apply jq_u_status]. }
  simpl. split; [apply (live_jq _ _ (jq_blk_recheck_inr _ _ _ _ E5)); auto|].
  rewrite (quiet_fault _ _ (quiet_blk_recheck_inr _ _ _ _ E5)). auto.
Qed.

Definition well (st : state) (e : event) : Prop := forall i, block_on i e = true -> not_cancelled i st.

Theorem live_step st e :
  calls_ok st -> nodup st -> fresh st -> live_ok st -> fault st = 0 -> well st e ->
  live_ok (fst (step st e)) /\ fault (fst (step st e)) = 0.
Proof.
  intros Hok Hnd Hfr L Hf Hw.
  destruct (blocking e) eqn:Hb.
  - unfold step. rewrite Hf. simpl. destruct e; try discriminate; simpl.
    + apply live_ev_block; auto. apply Hw. simpl. apply Nat.eqb_refl.
    + destruct (nth_error (calls st) i) as [c|] eqn:Hn; [|auto]. destruct (c_completed c) eqn:Hcc; [auto|].
      destruct (blk_check st i) as [[s l]|] eqn:E; [|auto]. simpl. eapply live_blk_check; eauto.
      intros k Hk. unfold cores in Hk. rewrite nth_error_map, Hn in Hk. inversion Hk; subst. exact Hcc.
    + destruct (blk_recheck st i timedout) as [[s l]|s2] eqn:E; simpl.
      * eapply live_blk_recheck; eauto. intros Hc. eapply (not_cancelled_jq i st); [apply jq_u_status|exact Hc|].
        apply Hw. simpl. apply Nat.eqb_refl.
      * split; [apply (live_jq _ _ (jq_blk_recheck_inr _ _ _ _ E)); auto|].
        rewrite (quiet_fault _ _ (quiet_blk_recheck_inr _ _ _ _ E)). auto.
  - split; [|apply step_f0_nonblocking; auto].
    pose proof (jq_other st e Hf) as J.
    destruct e; try discriminate; try (apply (live_jq _ _ J); exact L); unfold step; rewrite Hf; simpl.
    + apply live_ev_send; auto.
    + apply live_ev_fire; auto.
    + apply live_ev_cancel; auto.
    + apply live_ev_dispatch; auto.
Qed.

(* ---- histories ---- *)
Lemma rel_fresh k0 st tr : rel k0 st tr -> N.of_nat (length (drawn tr)) < two32 - 1 -> fresh st.
Proof.
  intros R Hn. destruct (r_drawn _ _ _ R) as [n [Hd Hs]]. rewrite Hd, length_serials_from in Hn.
  unfold fresh. apply Forall_forall. intros c Hc.
  assert (Hin : In (c_serial c) (drawn tr)).
  { apply call_serials_in_drawn. rewrite (r_serials _ _ _ R). unfold cores. rewrite map_map. apply (in_map c_serial) in Hc. exact Hc. }
  rewrite Hd in Hin. apply serials_from_in in Hin. destruct Hin as [k [Hk Hks]].
  rewrite Hs, Hks. intro E.
  replace (k0 + N.of_nat n) with ((k0 + N.of_nat k) + N.of_nat (n - k)) in E by lia.
  apply spec_serial_inj_window in E; unfold M32; lia.
Qed.

(* nobody waits for a call that has been cancelled (c_cancelled is set by ECancel and by nothing else) *)
Fixpoint well_behaved (st : state) (h : list event) : Prop :=
  match h with
  | [] => True
  | e :: r => well st e /\ well_behaved (fst (step st e)) r
  end.

Lemma live_init b : live_ok (init_at b).
Proof. intros _ i c Hn. destruct i; discriminate. Qed.

Theorem no_fault_run k0 h : forall st tr,
  rel k0 st tr -> N.of_nat (length (drawn (tr ++ snd (run st h)))) < two32 - 1 -> live_ok st -> fault st = 0 -> well_behaved st h ->
  fault (fst (run st h)) = 0.
Proof.
  induction h as [|e h IH]; intros st tr R Hn L Hf Hw; simpl; auto.
  destruct Hw as [Hw1 Hw2]. simpl in Hn.
  destruct (step st e) as [st1 o1] eqn:E. simpl in Hw2.
  assert (Hn0 : N.of_nat (length (drawn tr)) < two32 - 1).
  { destruct (run st1 h) as [s2 o2]. simpl in Hn. rewrite drawn_app, app_length in Hn. unfold two32. lia. }
  pose proof (r_ok _ _ _ R) as Hok.
  assert (Hnd : nodup st) by (eapply rel_nodup; [exact R|unfold two32 in *; lia]).
  pose proof (rel_fresh _ _ _ R Hn0) as Hfr.
  pose proof (live_step st e Hok Hnd Hfr L Hf Hw1) as [L1 Hf1]. rewrite E in L1, Hf1. simpl in L1, Hf1.
  destruct (step_good _ _ _ _ E Hok) as [Hok1 S]. pose proof (rel_step _ _ _ _ _ R S Hok1) as R1.
  specialize (IH st1 (tr ++ o1) R1).
  destruct (run st1 h) as [s2 o2]. simpl in *. apply IH; auto. rewrite <- app_assoc. exact Hn.
Qed.

Theorem no_fault_partial b h : valid_base b -> nowrap_at b h -> well_behaved (init_at b) h -> fault (fst (run (init_at b) h)) = 0.
Proof. intros Hb Hn Hw. apply (no_fault_run (b - 1) h (init_at b) []); auto using rel_init_at, live_init. Qed.
