(* C07: RemoveMatch compares PARSED rules.  match_rule_equal holds exactly when the two rules stand for the same
   constraint set in the sense of the specification (Spec.MatchSpec.srule_eqb): the map from the rule record to
   its constraint set is injective on the records the parser can produce.  So different spellings of one rule
   remove each other, and nothing else does. *)
From DV Require Import Lib.Base Match.Rule Match.Matcher Match.Bus Spec.MatchSpec
  Proofs.MatchRecipients Proofs.MatchSemantics Proofs.MatchHistory Proofs.MatchTokenize Proofs.MatchParse.
From Coq Require Import ZArith ZifyBool ZifyN ZifyNat.
Local Open Scope N_scope.

(* args[] as the parser leaves it: the highest slot is set (args_len = highest argument number + 1) *)
Fixpoint canonb (l : list (option (argkind * bytes))) : bool :=
  match l with
  | [] => true
  | [x] => isSome x
  | _ :: r => canonb r
  end.

Lemma canonb_set_nth : forall n l x, canonb l = true -> canonb (set_nth l n x) = true.
Proof.
  induction n as [|n IH]; intros l x H.
  - destruct l as [|y [|z l]]; simpl in *; auto.
  - destruct l as [|y l].
    + simpl. specialize (IH [] x eq_refl). destruct (set_nth [] n x) eqn:E; [destruct n; discriminate | exact IH].
    + simpl. destruct l as [|z l].
      * specialize (IH [] x eq_refl). destruct (set_nth [] n x) eqn:E; [destruct n; discriminate | exact IH].
      * specialize (IH (z :: l) x H). destruct (set_nth (z :: l) n x) eqn:E; [destruct n; discriminate | exact IH].
Qed.

Lemma parse_token_canon r t r' : canonb (r_args r) = true -> parse_token r t = Some r' -> canonb (r_args r') = true.
Proof.
  intros Hc H. destruct t as [key value]. unfold parse_token in H.
  repeat match type of H with
         | (if ?c then _ else _) = Some _ => destruct c eqn:?; try discriminate
         | match ?x with Some _ => _ | None => _ end = Some _ => destruct x eqn:?; try discriminate
         end;
    try (inversion H; subst; exact Hc).
  unfold parse_arg_match in H.
  destruct (nlen key <? 4); [discriminate|].
  destruct (parse_uint (skipn 3 key)) as [[arg consumed]|]; [|discriminate].
  match type of H with match ?K with _ => _ end = _ => destruct K as [kind|] end; [|discriminate].
  destruct (DBUS_MAXIMUM_MATCH_RULE_ARG_NUMBER <? arg); [discriminate|].
  destruct (arg_slot_taken r arg); [discriminate|].
  inversion H; subst. simpl. now apply canonb_set_nth.
Qed.

Lemma parse_tokens_canon : forall ts r r', canonb (r_args r) = true -> parse_tokens r ts = Some r' -> canonb (r_args r') = true.
Proof.
  induction ts as [|t ts IH]; intros r r' Hc H; simpl in H; [inversion H; now subst|].
  destruct (parse_token r t) as [r1|] eqn:E; [|discriminate]. eapply IH; [|exact H]. eapply parse_token_canon; eauto.
Qed.

Lemma parse_rule_canon c text r : parse_rule c text = POk r -> canonb (r_args r) = true.
Proof.
  unfold parse_rule. destruct (DBUS_MAXIMUM_MATCH_RULE_LENGTH <? nlen text); [discriminate|].
  destruct (tokenize text) as [toks|]; [|discriminate].
  destruct (parse_tokens (empty_rule c) (token_prefix toks)) as [r0|] eqn:E; [|discriminate].
  intros H; inversion H; subst. eapply parse_tokens_canon; [|exact E]. reflexivity.
Qed.

(* ---- which constraints abs_rule contains --------------------------------------------------------------------------- *)
Lemma in_arg_constraints : forall l i n k v,
  In (CArg n k v) (arg_constraints l i) <-> exists j, n = i + N.of_nat j /\ nth_error l j = Some (Some (k, v)).
Proof.
  induction l as [|x l IH]; intros i n k v; simpl.
  - split; [intros [] | intros [j [_ H]]; destruct j; discriminate].
  - destruct x as [[k0 v0]|]; simpl; rewrite IH.
    + split.
      * intros [E|[j [E1 E2]]]; [inversion E; subst; exists 0%nat; split; [lia|reflexivity] | exists (S j); split; [lia|exact E2]].
      * intros [[|j] [E1 E2]]; [left; simpl in E2; inversion E2; subst; f_equal; lia | right; exists j; split; [lia|exact E2]].
    + split.
      * intros [j [E1 E2]]. exists (S j). split; [lia|exact E2].
      * intros [[|j] [E1 E2]]; [discriminate | exists j; split; [lia|exact E2]].
Qed.

Lemma arg_constraints_only_args l i c : In c (arg_constraints l i) -> exists n k v, c = CArg n k v.
Proof.
  revert i; induction l as [|x l IH]; intros i H; simpl in H; [destruct H|].
  destruct x as [[k v]|]; [destruct H as [<-|H]; eauto|]; eauto.
Qed.

Ltac not_arg H := let n := fresh in let k := fresh in let v := fresh in let E := fresh in
  apply arg_constraints_only_args in H; destruct H as [n [k [v E]]]; discriminate E.

Lemma abs_in r c : In c (sr_cons (abs_rule r)) <->
  match c with
  | CType t => r_type r = Some t
  | CIface s => r_iface r = Some s
  | CMember s => r_member r = Some s
  | CSender s => r_sender r = Some s
  | CDest s => r_dest r = Some s
  | CPath s => r_path r = Some (false, s)
  | CPathNs s => r_path r = Some (true, s)
  | CArg n k v => nth_error (r_args r) (N.to_nat n) = Some (Some (k, v))
  end.
Proof.
  destruct r as [o ty ifc mem snd dst pth ev ar]. unfold abs_rule.
  cbn [sr_cons r_type r_iface r_member r_sender r_dest r_path r_args].
  assert (Harg : forall n k v, In (CArg n k v) (arg_constraints ar 0) <-> nth_error ar (N.to_nat n) = Some (Some (k, v))).
  { intros n k v. rewrite in_arg_constraints. split.
    - intros [j [E1 E2]]. replace (N.to_nat n) with j by lia. exact E2.
    - intros H. exists (N.to_nat n). split; [lia | exact H]. }
  destruct ty, ifc, mem, snd, dst, pth as [[[|] ?]|]; cbn [opt_list app]; destruct c; split; intros H;
    try (apply Harg; repeat (destruct H as [H|H]; [discriminate H|]); exact H);
    try (repeat right; apply Harg; exact H);
    try (repeat (destruct H as [H|H]; [try discriminate H; inversion H; reflexivity|]); not_arg H);
    try discriminate H;
    try (inversion H; subst; simpl; tauto).
Qed.

(* ---- injectivity ------------------------------------------------------------------------------------------------------ *)
Lemma canon_args_eq : forall la lb,
  canonb la = true -> canonb lb = true ->
  (forall j p, nth_error la j = Some (Some p) <-> nth_error lb j = Some (Some p)) -> la = lb.
Proof.
  assert (Hnil : forall l, canonb l = true -> (forall j p, nth_error l j <> Some (Some p)) -> l = []).
  { induction l as [|x l IH]; intros Hc Hn; [reflexivity|]. exfalso.
    destruct l as [|y l].
    - simpl in Hc. destruct x as [p|]; [|discriminate]. apply (Hn 0%nat p). reflexivity.
    - assert (y :: l = []) by (apply IH; [exact Hc | intros j p; apply (Hn (S j) p)]). discriminate. }
  induction la as [|x la IH]; intros lb Ha Hb H.
  - symmetry. apply Hnil; [assumption|]. intros j p F. apply H in F. destruct j; discriminate.
  - destruct lb as [|y lb].
    + apply Hnil; [assumption|]. intros j p F. apply H in F. destruct j; discriminate.
    + assert (x = y).
      { destruct x as [p|], y as [q|]; try reflexivity.
        - assert (E : nth_error (Some q :: lb) 0 = Some (Some p)) by (apply H; reflexivity). simpl in E. congruence.
        - assert (E : nth_error (@None (argkind * bytes) :: lb) 0 = Some (Some p)) by (apply H; reflexivity). discriminate.
        - assert (E : nth_error (@None (argkind * bytes) :: la) 0 = Some (Some q)) by (apply H; reflexivity). discriminate. }
      subst y. f_equal.
      destruct la as [|x1 la], lb as [|y1 lb]; try reflexivity.
      * exfalso. assert (E : y1 :: lb = []).
        { apply Hnil; [exact Hb|]. intros j p F. assert (G : nth_error (x :: []) (S j) = Some (Some p)) by (apply H; exact F). destruct j; discriminate. }
        discriminate.
      * exfalso. assert (E : x1 :: la = []).
        { apply Hnil; [exact Ha|]. intros j p F. assert (G : nth_error (x :: []) (S j) = Some (Some p)) by (apply H; exact F). destruct j; discriminate. }
        discriminate.
      * apply IH; [exact Ha | exact Hb|]. intros j p. apply (H (S j) p).
Qed.

Lemma srule_eqb_iff a b : srule_eqb a b = true <->
  sr_owner a = sr_owner b /\ sr_eaves a = sr_eaves b /\ (forall c, In c (sr_cons a) <-> In c (sr_cons b)).
Proof.
  unfold srule_eqb. rewrite !andb_true_iff, N.eqb_eq, Bool.eqb_true_iff, !subset_cons_incl. unfold incl. split.
  - intros [[[H1 H2] H3] H4]. repeat split; auto.
  - intros [H1 [H2 H3]]. repeat split; auto; intros c; apply H3.
Qed.

(* two records with canonical args[] that stand for the same constraint set are the same record *)
Theorem abs_rule_injective a b :
  canonb (r_args a) = true -> canonb (r_args b) = true ->
  srule_eqb (abs_rule a) (abs_rule b) = true -> a = b.
Proof.
  intros Ha Hb H. apply srule_eqb_iff in H. destruct H as [Ho [He Hc]].
  assert (Hf : forall (c : constraint), (In c (sr_cons (abs_rule a)) <-> In c (sr_cons (abs_rule b)))) by exact Hc.
  assert (Hopt : forall {A} (x y : option A), (forall v, x = Some v <-> y = Some v) -> x = y).
  { intros A x y Hxy. destruct x as [v|]; [symmetry; now apply Hxy|]. destruct y as [w|]; [|reflexivity]. now apply Hxy. }
  assert (Et : r_type a = r_type b) by (apply Hopt; intros v; pose proof (Hf (CType v)) as G; rewrite !abs_in in G; exact G).
  assert (Ei : r_iface a = r_iface b) by (apply Hopt; intros v; pose proof (Hf (CIface v)) as G; rewrite !abs_in in G; exact G).
  assert (Em : r_member a = r_member b) by (apply Hopt; intros v; pose proof (Hf (CMember v)) as G; rewrite !abs_in in G; exact G).
  assert (Es : r_sender a = r_sender b) by (apply Hopt; intros v; pose proof (Hf (CSender v)) as G; rewrite !abs_in in G; exact G).
  assert (Ed : r_dest a = r_dest b) by (apply Hopt; intros v; pose proof (Hf (CDest v)) as G; rewrite !abs_in in G; exact G).
  assert (Ep : r_path a = r_path b).
  { apply Hopt. intros [[|] p].
    - pose proof (Hf (CPathNs p)) as G; rewrite !abs_in in G; exact G.
    - pose proof (Hf (CPath p)) as G; rewrite !abs_in in G; exact G. }
  assert (Ea : r_args a = r_args b).
  { apply canon_args_eq; [assumption|assumption|]. intros j [k v].
    pose proof (Hf (CArg (N.of_nat j) k v)) as G. rewrite !abs_in in G. rewrite Nat2N.id in G. exact G. }
  destruct a, b. simpl in *. congruence.
Qed.

Lemma srule_eqb_refl a : srule_eqb a a = true.
Proof. apply srule_eqb_iff. repeat split; auto. Qed.

(* match_rule_equal on parsed rules = equality of rules in the sense of the specification *)
Theorem rule_equal_is_spec_equal c1 s1 c2 s2 r1 r2 :
  parse_rule c1 s1 = POk r1 -> parse_rule c2 s2 = POk r2 ->
  rule_equal r1 r2 = srule_eqb (abs_rule r1) (abs_rule r2).
Proof.
  intros H1 H2. destruct (srule_eqb (abs_rule r1) (abs_rule r2)) eqn:E.
  - apply rule_equal_eq. apply abs_rule_injective; [eapply parse_rule_canon; eauto | eapply parse_rule_canon; eauto | exact E].
  - destruct (rule_equal r1 r2) eqn:E2; [|reflexivity]. apply rule_equal_eq in E2. subst. now rewrite srule_eqb_refl in E.
Qed.

(* every stored rule has canonical args *)
Lemma reachable_canon limit m : reachable limit m -> Forall (fun r => canonb (r_args r) = true) m.
Proof.
  induction 1 as [|m c text priv Hr IH|m c text Hr IH|m c name Hr IH].
  - constructor.
  - unfold handle_add_match. destruct (limit <=? n_match_rules m c); [assumption|].
    destruct (parse_rule c text) as [| |r] eqn:Ep; simpl; auto.
    destruct (r_eaves r && negb priv); simpl; [assumption|].
    unfold add_rule. apply Forall_app. split; [assumption|]. constructor; [eapply parse_rule_canon; eauto | constructor].
  - unfold handle_remove_match. destruct (parse_rule c text) as [| |r] eqn:Ep; simpl; auto.
    pose proof (remove_rule_by_value_spec m r) as Hs.
    destruct (remove_rule_by_value m r) as [m'|]; simpl; [|assumption].
    destruct Hs as [l1 [r0 [l2 [-> [-> _]]]]]. apply Forall_app in IH. destruct IH as [Ha Hb]. inversion Hb; subst. apply Forall_app. auto.
  - apply Forall_forall. intros r Hin. apply disconnect_sublist in Hin. rewrite Forall_forall in IH. auto.
Qed.

(* RemoveMatch, in the terms of the specification: it succeeds exactly when the caller's argument, read as the
   specification reads rules, equals a rule that is held; otherwise MatchRuleNotFound *)
Theorem remove_match_spec limit m c text r :
  reachable limit m -> parse_rule c text = POk r ->
  (snd (handle_remove_match m c text) = RepOk <-> exists x, In x m /\ srule_eqb (abs_rule x) (abs_rule r) = true) /\
  (snd (handle_remove_match m c text) = RepNotFound <-> forall x, In x m -> srule_eqb (abs_rule x) (abs_rule r) = false).
Proof.
  intros Hr Hp. pose proof (reachable_canon _ _ Hr) as Hc. rewrite Forall_forall in Hc.
  pose proof (parse_rule_canon _ _ _ Hp) as Hcr.
  assert (Heq : forall x, In x m -> (srule_eqb (abs_rule x) (abs_rule r) = true <-> x = r)).
  { intros x Hx. split; [apply abs_rule_injective; auto | intros ->; apply srule_eqb_refl]. }
  pose proof (remove_not_found m c text) as Hnf.
  unfold handle_remove_match in *. rewrite Hp in *.
  pose proof (remove_rule_by_value_spec m r) as Hs.
  destruct (remove_rule_by_value m r) as [m'|]; simpl in *.
  - destruct Hs as [l1 [x [l2 [-> [_ [He _]]]]]]. apply rule_equal_eq in He. subst x. split.
    + split; [|reflexivity]. intros _. exists r. split; [apply in_or_app; right; now left | apply srule_eqb_refl].
    + split; [discriminate|]. intros H. assert (Hin : In r (l1 ++ r :: l2)) by (apply in_or_app; right; now left).
      specialize (H r Hin). now rewrite srule_eqb_refl in H.
  - split.
    + split; [discriminate|]. intros [x [Hx E]]. apply Heq in E; [|assumption]. subst x. specialize (Hs r Hx). now rewrite rule_equal_refl in Hs.
    + split; [|reflexivity]. intros _ x Hx. destruct (srule_eqb (abs_rule x) (abs_rule r)) eqn:E; [|reflexivity].
      apply Heq in E; [|assumption]. subst x. specialize (Hs r Hx). now rewrite rule_equal_refl in Hs.
Qed.
