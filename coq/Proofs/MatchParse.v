(* C07: the per-key checks of bus_match_rule_parse against the specification's
   reading of an item list: validity of every value, one use per key, and the
   constraints the accepted rule stands for.  Two classes of items are left out
   (and shown to be real exceptions in Props/C07.v): argument keys that are not
   plain decimal (strtoul accepts more), and bus-name values that begin with ':'
   without being well-formed unique names (finding F2 of C16). *)
From DV Require Import Lib.Base Match.Rule Match.Matcher Spec.MatchSpec Proofs.NamesProofs
  Proofs.MatchRecipients Proofs.MatchSemantics Proofs.MatchHistory Proofs.MatchTokenize.
From Coq Require Import ZArith ZifyBool ZifyN ZifyNat.
Local Open Scope N_scope.

(* ---- values ------------------------------------------------------------------------ *)
Lemma match58_bool (c : N) (r : bytes) (A B : bool) : c <> 58 -> (match c :: r with 58 :: _ => A | _ => B end) = B.
Proof.
  intros H. destruct c as [|p]; [reflexivity|].
  do 6 (destruct p as [p|p|]; try reflexivity). exfalso. apply H. reflexivity.
Qed.

Lemma match58_prop (c : N) (r : bytes) : c <> 58 -> (match c :: r with 58 :: _ => False | _ => True end).
Proof.
  intros H. destruct c as [|p]; [exact I|].
  do 6 (destruct p as [p|p|]; try exact I). exfalso. apply H. reflexivity.
Qed.

Lemma bus_name_agree v : f2_value v = false -> validate_bus_name v = spec_bus_name v.
Proof.
  intros H. destruct v as [|c r]; [reflexivity|].
  destruct (N.eq_dec c 58) as [->|Hne].
  - unfold f2_value in H. apply negb_false_iff in H. rewrite (unique_spec_implies_model _ H). symmetry. exact H.
  - apply wellknown_correct. apply match58_prop; assumption.
Qed.

Lemma namespace_agree v : f2_value v = false -> validate_bus_namespace v = spec_namespace_value v.
Proof.
  intros H. destruct v as [|c r]; [reflexivity|].
  destruct (N.eq_dec c 58) as [->|Hne].
  - unfold f2_value in H. apply negb_false_iff in H. unfold spec_namespace_value. rewrite H.
    change (validate_bus_namespace (58 :: r)) with (validate_bus_name (58 :: r)).
    apply unique_spec_implies_model. exact H.
  - rewrite bus_namespace_correct by (apply match58_prop; assumption).
    unfold spec_namespace_value. rewrite match58_bool by assumption. apply andb_true_r.
Qed.

Lemma type_agree v : type_from_string v = spec_type_value v.
Proof.
  unfold type_from_string, spec_type_value.
  destruct (bytes_eqb v S_method_call) eqn:E1; [apply bytes_eqb_eq in E1; subst; reflexivity|].
  destruct (bytes_eqb v S_method_return) eqn:E2; [apply bytes_eqb_eq in E2; subst; reflexivity|].
  destruct (bytes_eqb v S_signal) eqn:E3; [reflexivity|].
  destruct (bytes_eqb v S_error) eqn:E4; reflexivity.
Qed.

(* ---- the argument number: strtoul on a plain decimal numeral ----------------------------- *)
Lemma take_digits_split : forall s d rest, take_digits s = (d, rest) ->
  s = d ++ rest /\ forallb is_digit d = true /\ match rest with c :: _ => is_digit c = false | [] => True end.
Proof.
  induction s as [|c s IH]; intros d rest H; simpl in H.
  - inversion H; subst. auto.
  - destruct (is_digit c) eqn:Ec.
    + destruct (take_digits s) as [d' rest'] eqn:E. inversion H; subst.
      destruct (IH d' rest eq_refl) as [E1 [E2 E3]]. simpl. rewrite Ec, E2. split; [congruence|auto].
    + inversion H; subst. simpl. auto.
Qed.

Lemma digit_range c : is_digit c = true -> 48 <= c <= 57.
Proof. unfold is_digit. lia. Qed.

Lemma nondigit_stops c base : is_digit c = false -> 8 <= base <= 10 ->
  match digit_val c with Some d => (d <? base) = false | None => True end.
Proof.
  unfold is_digit, digit_val. intros H Hb.
  destruct ((48 <=? c) && (c <=? 57)) eqn:E1; [discriminate|].
  destruct ((97 <=? c) && (c <=? 122)) eqn:E2; [lia|].
  destruct ((65 <=? c) && (c <=? 90)) eqn:E3; [lia|exact I].
Qed.

Lemma digit_val_digit c : is_digit c = true -> digit_val c = Some (c - 48).
Proof. unfold is_digit, digit_val. intros ->. reflexivity. Qed.

Lemma digits_loop_stop base c r v n ovf : is_digit c = false -> 8 <= base <= 10 ->
  digits_loop base (c :: r) v n ovf = (v, n, ovf).
Proof.
  intros Hc Hb. pose proof (nondigit_stops c base Hc Hb) as H. simpl.
  destruct (digit_val c) as [d|]; [rewrite H|]; reflexivity.
Qed.

Lemma digits10 : forall d rest v n ovf,
  forallb is_digit d = true -> match rest with c :: _ => is_digit c = false | [] => True end ->
  exists v' ovf', digits_loop 10 (d ++ rest) v n ovf = (v', n + nlen d, ovf') /\
                  (ovf' = false -> ovf = false /\ v' = dec_value d v).
Proof.
  induction d as [|c d IH]; intros rest v n ovf Hd Hr.
  - simpl. exists v, ovf. unfold nlen. simpl. rewrite N.add_0_r. split; [|auto].
    destruct rest as [|c r]; [reflexivity|]. apply digits_loop_stop; [assumption|lia].
  - simpl in Hd. apply andb_true_iff in Hd. destruct Hd as [Hc Hd].
    cbn [app digits_loop]. rewrite (digit_val_digit c Hc).
    pose proof (digit_range c Hc) as Hrange.
    replace (c - 48 <? 10) with true by lia.
    destruct (ULONG_LIMIT <=? v * 10 + (c - 48)) eqn:Eo.
    + destruct (IH rest 0 (n + 1) true Hd Hr) as [v' [ovf' [E1 E2]]].
      exists v', ovf'. rewrite E1. split.
      * f_equal. f_equal. unfold nlen. simpl length. lia.
      * intros H. destruct (E2 H) as [F _]. discriminate.
    + destruct (IH rest (v * 10 + (c - 48)) (n + 1) ovf Hd Hr) as [v' [ovf' [E1 E2]]].
      exists v', ovf'. rewrite E1. split.
      * f_equal. f_equal. unfold nlen. simpl length. lia.
      * intros H. destruct (E2 H) as [F1 F2]. split; [assumption|]. simpl. exact F2.
Qed.

Lemma dec_value_mono : forall d acc, forallb is_digit d = true -> acc <= dec_value d acc.
Proof.
  induction d as [|c d IH]; intros acc H; simpl; [lia|].
  simpl in H. apply andb_true_iff in H. destruct H as [Hc Hd]. pose proof (digit_range c Hc).
  specialize (IH (acc * 10 + (c - 48)) Hd). lia.
Qed.

(* on the digits that follow "arg" in a plain key, strtoul computes the decimal value, unless the numeral
   has more than two digits — and then the value, if any, is at least 100 *)
Definition plain_rest (rest : bytes) : bool :=
  match rest with
  | c :: c2 :: _ => is_digit c && negb ((c =? 48) && (is_digit c2 || (c2 =? 120) || (c2 =? 88)))
  | [c] => is_digit c
  | [] => true
  end.

Lemma is_digit_cases c : is_digit c = true ->
  c = 48 \/ c = 49 \/ c = 50 \/ c = 51 \/ c = 52 \/ c = 53 \/ c = 54 \/ c = 55 \/ c = 56 \/ c = 57.
Proof. unfold is_digit. lia. Qed.

Lemma parse_uint_plain rest d suffix :
  rest <> [] -> plain_rest rest = true -> take_digits rest = (d, suffix) ->
  canonical_numeral d = true /\
  match parse_uint rest with
  | Some (v, n) => n = nlen d /\ v = dec_value d 0
  | None => 2 < nlen d
  end.
Proof.
  intros Hne Hp Ht. destruct (take_digits_split _ _ _ Ht) as [Es [Hd Hs]].
  destruct rest as [|c rest']; [congruence|].
  assert (Hc : is_digit c = true).
  { destruct rest'; simpl in Hp; [assumption|]. apply andb_true_iff in Hp. tauto. }
  destruct d as [|c' d']; [simpl in Ht; rewrite Hc in Ht; destruct (take_digits rest'); discriminate|].
  assert (c' = c) by (simpl in Es; congruence). subst c'.
  destruct (N.eq_dec c 48) as [->|Hnz].
  - (* "0": the next character is neither a digit nor x/X, so the octal branch reads one digit *)
    assert (Hd' : d' = []).
    { destruct d' as [|c2 d'']; [reflexivity|]. exfalso.
      simpl in Es. inversion Es. subst rest'. cbn [forallb] in Hd.
      apply andb_true_iff in Hd. destruct Hd as [_ Hd]. apply andb_true_iff in Hd. destruct Hd as [Hc2 _].
      cbn [app plain_rest] in Hp. rewrite Hc2 in Hp. rewrite N.eqb_refl in Hp. rewrite Hc in Hp. discriminate. }
    subst d'. split; [reflexivity|].
    simpl in Es. inversion Es; subst rest'. clear Es.
    destruct suffix as [|x r].
    + vm_compute. auto.
    + assert (Hx : is_digit x = false) by exact Hs.
      assert (Hnx : is_x x = false).
      { simpl in Hp. rewrite Hx in Hp. cbn [orb] in Hp. unfold is_x. destruct ((x =? 120) || (x =? 88)); [discriminate|reflexivity]. }
      unfold parse_uint. cbn [skip_space]. change (isspace_c 48) with false. cbn iota.
      rewrite Hnx. cbn [digits_loop]. change (digit_val 48) with (Some 0). cbn iota.
      change (0 <? 8) with true. cbn iota. change (ULONG_LIMIT <=? 0 * 8 + 0) with false. cbn iota.
      pose proof (nondigit_stops x 8 Hx ltac:(lia)) as Hstop.
      destruct (digit_val x) as [dx|]; [rewrite Hstop|]; vm_compute; auto.
  - (* a non-zero first digit: decimal *)
    split.
    { destruct (is_digit_cases c Hc) as [->|[->|[->|[->|[->|[->|[->|[->|[->| ->]]]]]]]]]; try congruence; destruct d'; reflexivity. }
    assert (Hshape : parse_uint (c :: rest') =
                     let '(v, nd, ovf) := digits_loop 10 (c :: rest') 0 0 false in
                     if nd =? 0 then None else if ovf then None else Some (v, 0 + 0 + 0 + nd)).
    { destruct (is_digit_cases c Hc) as [->|[->|[->|[->|[->|[->|[->|[->|[->| ->]]]]]]]]]; try congruence; reflexivity. }
    rewrite Hshape. rewrite Es.
    destruct (digits10 (c :: d') suffix 0 0 false Hd Hs) as [v' [ovf' [E1 E2]]]. rewrite E1.
    replace (0 + nlen (c :: d') =? 0) with false by (unfold nlen; simpl length; lia).
    destruct ovf'.
    + (* overflow: the numeral is long *)
      destruct d' as [|c2 [|c3 d'']]; try (unfold nlen; simpl length; lia); exfalso.
      * cbn [app digits_loop] in E1. rewrite (digit_val_digit c Hc) in E1. pose proof (digit_range c Hc).
        replace (c - 48 <? 10) with true in E1 by lia. replace (ULONG_LIMIT <=? 0 * 10 + (c - 48)) with false in E1 by (unfold ULONG_LIMIT; lia).
        destruct suffix as [|x r]; [simpl in E1; inversion E1|].
        rewrite digits_loop_stop in E1 by (auto; lia). inversion E1.
      * cbn [forallb] in Hd. apply andb_true_iff in Hd. destruct Hd as [_ Hd]. apply andb_true_iff in Hd. destruct Hd as [Hc2 _].
        cbn [app digits_loop] in E1. rewrite (digit_val_digit c Hc), (digit_val_digit c2 Hc2) in E1.
        pose proof (digit_range c Hc). pose proof (digit_range c2 Hc2).
        replace (c - 48 <? 10) with true in E1 by lia. replace (ULONG_LIMIT <=? 0 * 10 + (c - 48)) with false in E1 by (unfold ULONG_LIMIT; lia).
        cbn iota in E1. replace (c2 - 48 <? 10) with true in E1 by lia.
        replace (ULONG_LIMIT <=? (0 * 10 + (c - 48)) * 10 + (c2 - 48)) with false in E1 by (unfold ULONG_LIMIT; lia).
        destruct suffix as [|x r]; [simpl in E1; inversion E1|].
        rewrite digits_loop_stop in E1 by (auto; lia). inversion E1.
    + destruct (E2 eq_refl) as [_ ->]. split; [lia|reflexivity].
Qed.

(* ---- the argument key as a whole ------------------------------------------------------------------- *)
Lemma ends_with_short : forall l q, (length l < length q)%nat -> ends_with l q = false.
Proof.
  induction l as [|x l IH]; intros q H.
  - destruct q; [simpl in H; lia | reflexivity].
  - cbn [ends_with]. rewrite (bytes_eqb_len_ne (x :: l) q) by lia. apply IH. simpl in H. lia.
Qed.

Lemma ends_with_app : forall p s q, length s = length q -> ends_with (p ++ s) q = bytes_eqb s q.
Proof.
  induction p as [|x p IH]; intros s q H.
  - simpl. destruct s as [|y s].
    + destruct q; [reflexivity | discriminate].
    + cbn [ends_with]. destruct (bytes_eqb (y :: s) q) eqn:E; [reflexivity|].
      apply ends_with_short. simpl in H. lia.
  - cbn [app ends_with]. rewrite (bytes_eqb_len_ne (x :: p ++ s) q) by (simpl; rewrite app_length; lia).
    apply IH. assumption.
Qed.

Lemma nlen_app {A} (a b : list A) : nlen (a ++ b) = nlen a + nlen b.
Proof. unfold nlen. rewrite app_length. lia. Qed.

Lemma canonical_first d : canonical_numeral d = true -> d = [48] \/ exists c r, d = c :: r /\ c <> 48.
Proof.
  destruct d as [|c r]; [discriminate|]. intros H.
  destruct (N.eq_dec c 48) as [->|Hne]; [|right; eauto].
  destruct r; [left; reflexivity|]. simpl in H. discriminate.
Qed.

Definition add_arg (r : rule) (n : N) (k : argkind) (v : bytes) : rule :=
  mkRule (r_owner r) (r_type r) (r_iface r) (r_member r) (r_sender r) (r_dest r) (r_path r) (r_eaves r)
         (set_nth (r_args r) (N.to_nat n) (k, v)).

Lemma plain_arg_key_rest rest : plain_arg_key (S_arg ++ rest) = plain_rest rest.
Proof. reflexivity. Qed.

Lemma arg_key_step r rest value :
  plain_rest rest = true ->
  (bytes_eqb (S_arg ++ rest) S_arg0namespace = true -> f2_value value = false) ->
  parse_arg_match r (S_arg ++ rest) value =
  match spec_arg_key (S_arg ++ rest) with
  | Some (n, ArgNamespace) =>
      if spec_namespace_value value then (if arg_slot_taken r n then None else Some (add_arg r n ArgNamespace value)) else None
  | Some (n, kind) => if arg_slot_taken r n then None else Some (add_arg r n kind value)
  | None => None
  end.
Proof.
  intros Hp Hf2.
  destruct rest as [|c0 rest0]; [reflexivity|].
  remember (c0 :: rest0) as rest eqn:Erest.
  assert (Hne : rest <> []) by (subst; discriminate).
  assert (Hpos : 1 <= nlen rest) by (subst; unfold nlen; simpl length; lia).
  clear Erest c0 rest0.
  set (key := S_arg ++ rest) in *.
  unfold parse_arg_match, spec_arg_key. rewrite max_arg_eq.
  assert (Hpre : is_prefix S_arg key = true) by (apply is_prefix_iff; exists rest; reflexivity).
  rewrite Hpre. cbn [negb]. change (skipn 3 key) with rest.
  assert (Hlen : nlen key = 3 + nlen rest) by (unfold key; rewrite nlen_app; reflexivity).
  - replace (nlen key <? 4) with false by lia.
    destruct (take_digits rest) as [d suffix] eqn:Ht.
    destruct (parse_uint_plain rest d suffix Hne Hp Ht) as [Hcan Hpu].
    destruct (take_digits_split _ _ _ Ht) as [Es [Hd Hs]].
    rewrite Hcan. cbn [negb].
    assert (Hlen2 : nlen key = 3 + nlen d + nlen suffix) by (rewrite Hlen, Es, nlen_app; lia).
    assert (Hkey : key = S_arg ++ d ++ suffix) by (unfold key; now rewrite Es).
    destruct (parse_uint rest) as [[arg consumed]|].
    2:{ replace (2 <? nlen d) with true by lia. reflexivity. }
    destruct Hpu as [-> ->].
    destruct (2 <? nlen d) eqn:Elong.
    + (* three or more digits: the value exceeds 63 whatever follows *)
      assert (Hbig : SPEC_MAX_ARG <? dec_value d 0 = true).
      { destruct (canonical_first d Hcan) as [->|[c [rr [-> Hc]]]]; [unfold nlen in Elong; simpl in Elong; lia|].
        destruct rr as [|c2 [|c3 r']]; try (unfold nlen in Elong; simpl in Elong; lia).
        cbn [forallb] in Hd. apply andb_true_iff in Hd. destruct Hd as [H1 Hd]. apply andb_true_iff in Hd. destruct Hd as [H2 Hd].
        apply andb_true_iff in Hd. destruct Hd as [H3 Hd].
        pose proof (digit_range c H1). pose proof (digit_range c2 H2). pose proof (digit_range c3 H3).
        cbn [dec_value]. pose proof (dec_value_mono r' (((0 * 10 + (c - 48)) * 10 + (c2 - 48)) * 10 + (c3 - 48)) Hd).
        unfold SPEC_MAX_ARG. lia. }
      match goal with |- match ?K with Some _ => _ | None => None end = None => destruct K end; [|reflexivity].
      rewrite Hbig. reflexivity.
    + destruct (SPEC_MAX_ARG <? dec_value d 0) eqn:Ebig.
      { match goal with |- match ?K with Some _ => _ | None => None end = None => destruct K end; reflexivity. }
      (* the suffix decides the kind *)
      destruct suffix as [|s0 suffix'].
      * (* argN *)
        replace (3 + nlen d =? nlen key) with true by (rewrite Hlen2; unfold nlen; simpl length; lia).
        reflexivity.
      * set (suffix := s0 :: suffix') in *.
        replace (3 + nlen d =? nlen key) with false by (rewrite Hlen2; unfold suffix, nlen; simpl length; lia).
        assert (Hends : ((3 + nlen d + 4 =? nlen key) && ends_with key S_path) = bytes_eqb suffix S_path).
        { destruct (N.eq_dec (nlen suffix) 4) as [E4|N4].
          - replace (3 + nlen d + 4 =? nlen key) with true by lia. cbn [andb].
            rewrite Hkey. rewrite app_assoc. apply ends_with_app. unfold nlen, suffix in E4 |- *. simpl length in *. lia.
          - replace (3 + nlen d + 4 =? nlen key) with false by lia. cbn [andb].
            symmetry. apply bytes_eqb_len_ne. unfold nlen, suffix in N4 |- *. simpl length in *. lia. }
        rewrite Hends.
        destruct (bytes_eqb suffix S_path) eqn:Epath.
        -- (* argNpath *) reflexivity.
        -- assert (Hns : bytes_eqb key S_arg0namespace = bytes_eqb suffix S_namespace && (dec_value d 0 =? 0)).
           { rewrite Hkey. change S_arg0namespace with (S_arg ++ [48] ++ S_namespace).
             rewrite bytes_eqb_app.
             destruct (canonical_first d Hcan) as [->|[c [rr [-> Hc]]]].
             - cbn [app]. change ([48] ++ S_namespace) with (48 :: S_namespace).
               cbn [bytes_eqb]. rewrite N.eqb_refl. cbn [andb dec_value]. now rewrite andb_true_r.
             - cbn [forallb] in Hd. apply andb_true_iff in Hd. destruct Hd as [H1 Hd]. pose proof (digit_range c H1).
               assert ((dec_value (c :: rr) 0 =? 0) = false) as ->.
               { cbn [dec_value]. pose proof (dec_value_mono rr (0 * 10 + (c - 48)) Hd). lia. }
               rewrite andb_false_r. cbn [app]. change ([48] ++ S_namespace) with (48 :: S_namespace).
               cbn [bytes_eqb]. replace (c =? 48) with false by lia. reflexivity. }
           rewrite Hns.
           destruct (bytes_eqb suffix S_namespace && (dec_value d 0 =? 0)) eqn:Ens.
           ++ (* arg0namespace *)
              rewrite Hns in Hf2. rewrite (namespace_agree value (Hf2 eq_refl)).
              destruct (spec_namespace_value value); reflexivity.
           ++ reflexivity.
Qed.

(* ---- one item -------------------------------------------------------------------------------------- *)
Definition set_eaves (r : rule) (b : bool) : rule :=
  mkRule (r_owner r) (r_type r) (r_iface r) (r_member r) (r_sender r) (r_dest r) (r_path r) b (r_args r).

Definition occupied (r : rule) (k : keyclass) : bool :=
  match k with
  | KType => isSome (r_type r)
  | KSender => isSome (r_sender r)
  | KIface => isSome (r_iface r)
  | KMember => isSome (r_member r)
  | KPathAny => isSome (r_path r)
  | KDest => isSome (r_dest r)
  | KArgN n => arg_slot_taken r n
  end.

Definition add_cons (r : rule) (c : constraint) : rule :=
  match c with
  | CType t => mkRule (r_owner r) (Some t) (r_iface r) (r_member r) (r_sender r) (r_dest r) (r_path r) (r_eaves r) (r_args r)
  | CSender s => mkRule (r_owner r) (r_type r) (r_iface r) (r_member r) (Some s) (r_dest r) (r_path r) (r_eaves r) (r_args r)
  | CIface s => mkRule (r_owner r) (r_type r) (Some s) (r_member r) (r_sender r) (r_dest r) (r_path r) (r_eaves r) (r_args r)
  | CMember s => mkRule (r_owner r) (r_type r) (r_iface r) (Some s) (r_sender r) (r_dest r) (r_path r) (r_eaves r) (r_args r)
  | CPath s => mkRule (r_owner r) (r_type r) (r_iface r) (r_member r) (r_sender r) (r_dest r) (Some (false, s)) (r_eaves r) (r_args r)
  | CPathNs s => mkRule (r_owner r) (r_type r) (r_iface r) (r_member r) (r_sender r) (r_dest r) (Some (true, s)) (r_eaves r) (r_args r)
  | CDest s => mkRule (r_owner r) (r_type r) (r_iface r) (r_member r) (r_sender r) (Some s) (r_path r) (r_eaves r) (r_args r)
  | CArg n k v => add_arg r n k v
  end.

(* the two classes of items outside the theorem *)
Definition item_in_scope (t : token) : bool :=
  let (k, v) := t in
  plain_arg_key k &&
  negb ((bytes_eqb k S_sender || bytes_eqb k S_destination || bytes_eqb k S_arg0namespace) && f2_value v).

Definition step_spec (r : rule) (t : token) : option rule :=
  match item_meaning_of t with
  | IBad => None
  | IEaves b => Some (set_eaves r b)
  | ICons c => if occupied r (class_of c) then None else Some (add_cons r c)
  end.

Lemma token_step r t : item_in_scope t = true -> parse_token r t = step_spec r t.
Proof.
  destruct t as [k v]. unfold item_in_scope. intros Hs. apply andb_true_iff in Hs. destruct Hs as [Hplain Hf2].
  apply negb_true_iff in Hf2.
  unfold parse_token, step_spec, item_meaning_of.
  destruct (bytes_eqb k S_type) eqn:K1.
  { rewrite type_agree. destruct (spec_type_value v); cbn [occupied class_of]; destruct (isSome (r_type r)); reflexivity. }
  destruct (bytes_eqb k S_sender) eqn:K2.
  { cbn [orb andb] in Hf2. rewrite (bus_name_agree v Hf2).
    destruct (spec_bus_name v); cbn [occupied class_of negb]; destruct (isSome (r_sender r)); reflexivity. }
  destruct (bytes_eqb k S_interface) eqn:K3.
  { rewrite interface_correct. destruct (spec_interface v); cbn [occupied class_of negb]; destruct (isSome (r_iface r)); reflexivity. }
  destruct (bytes_eqb k S_member) eqn:K4.
  { rewrite member_correct. destruct (spec_member v); cbn [occupied class_of negb]; destruct (isSome (r_member r)); reflexivity. }
  destruct (bytes_eqb k S_path) eqn:K5.
  { apply bytes_eqb_eq in K5. subst k. cbn [orb]. rewrite path_correct.
    change (bytes_eqb S_path S_path_namespace) with false.
    destruct (spec_path v); cbn [occupied class_of negb]; destruct (isSome (r_path r)); reflexivity. }
  destruct (bytes_eqb k S_path_namespace) eqn:K6.
  { cbn [orb]. rewrite path_correct.
    destruct (spec_path v); cbn [occupied class_of negb]; destruct (isSome (r_path r)); reflexivity. }
  cbn [orb].
  destruct (bytes_eqb k S_destination) eqn:K7.
  { cbn [orb andb] in Hf2. rewrite (bus_name_agree v Hf2).
    destruct (spec_bus_name v); cbn [occupied class_of negb]; destruct (isSome (r_dest r)); reflexivity. }
  destruct (bytes_eqb k S_eavesdrop) eqn:K8.
  { destruct (bytes_eqb v S_true); [reflexivity|]. destruct (bytes_eqb v S_false); reflexivity. }
  destruct (is_prefix S_arg k) eqn:Kp.
  - apply is_prefix_iff in Kp. destruct Kp as [rest ->].
    rewrite arg_key_step.
    + destruct (spec_arg_key (S_arg ++ rest)) as [[n [| |]]|]; cbn [occupied class_of add_cons]; try reflexivity.
      destruct (spec_namespace_value v); reflexivity.
    + exact Hplain.
    + intros E. rewrite E in Hf2. rewrite !orb_true_r in Hf2. exact Hf2.
  - unfold spec_arg_key. rewrite Kp. reflexivity.
Qed.

Fixpoint fold_spec (r : rule) (ts : list token) : option rule :=
  match ts with
  | [] => Some r
  | t :: rest => match step_spec r t with None => None | Some r' => fold_spec r' rest end
  end.

Lemma parse_tokens_fold : forall ts r, forallb item_in_scope ts = true -> parse_tokens r ts = fold_spec r ts.
Proof.
  induction ts as [|t ts IH]; intros r H; simpl; [reflexivity|].
  simpl in H. apply andb_true_iff in H. destruct H as [Ht Hts].
  rewrite (token_step r t Ht). destruct (step_spec r t); [apply IH; assumption | reflexivity].
Qed.

(* ---- what add_cons does to the occupied keys and to the constraint set ----------------------------- *)
Lemma nth_error_set_nth {A} : forall (l : list (option A)) n x m,
  nth_error (set_nth l n x) m =
  if Nat.eqb m n then Some (Some x)
  else match nth_error l m with
       | Some y => Some y
       | None => if Nat.ltb m n then Some None else None
       end.
Proof.
  intros l n; revert l; induction n as [|n IH]; intros l x m.
  - destruct l as [|y l]; destruct m as [|m]; simpl; try reflexivity.
    + destruct m; reflexivity.
    + destruct (nth_error l m); reflexivity.
  - destruct l as [|y l]; destruct m as [|m]; simpl; try reflexivity.
    + rewrite IH. destruct (Nat.eqb m n); [reflexivity|]. destruct m; reflexivity.
    + rewrite IH. reflexivity.
Qed.

Lemma taken_add_arg r n k v m : arg_slot_taken (add_arg r n k v) m = arg_slot_taken r m || (m =? n).
Proof.
  unfold arg_slot_taken, add_arg. cbn [r_args]. rewrite nth_error_set_nth.
  destruct (Nat.eqb (N.to_nat m) (N.to_nat n)) eqn:E.
  - apply PeanoNat.Nat.eqb_eq in E. replace (m =? n) with true by lia. now rewrite orb_true_r.
  - apply PeanoNat.Nat.eqb_neq in E. replace (m =? n) with false by lia. rewrite orb_false_r.
    destruct (nth_error (r_args r) (N.to_nat m)) as [[y|]|]; try reflexivity.
    destruct (Nat.ltb (N.to_nat m) (N.to_nat n)); reflexivity.
Qed.

Lemma keyclass_eqb_eq a b : keyclass_eqb a b = true <-> a = b.
Proof.
  destruct a, b; simpl; try (split; congruence).
  rewrite N.eqb_eq. split; congruence.
Qed.

Lemma keyclass_eqb_sym a b : keyclass_eqb a b = keyclass_eqb b a.
Proof. destruct a, b; simpl; try reflexivity. apply N.eqb_sym. Qed.

Lemma occupied_add_cons r c k : occupied (add_cons r c) k = occupied r k || keyclass_eqb k (class_of c).
Proof.
  destruct c; destruct k; cbn [add_cons occupied class_of keyclass_eqb r_type r_sender r_iface r_member r_path r_dest isSome];
    rewrite ?orb_false_r, ?orb_true_r; try reflexivity.
  all: try (unfold arg_slot_taken, add_arg; cbn [r_args]; reflexivity).
  apply taken_add_arg.
Qed.

Lemma occupied_set_eaves r b k : occupied (set_eaves r b) k = occupied r k.
Proof. destruct k; reflexivity. Qed.

Lemma in_arg_constraints_set : forall n l i k v x,
  match nth_error l n with Some (Some _) => False | _ => True end ->
  (In x (arg_constraints (set_nth l n (k, v)) i) <-> x = CArg (i + N.of_nat n) k v \/ In x (arg_constraints l i)).
Proof.
  induction n as [|n IH]; intros l i k v x Hfree.
  - destruct l as [|y l]; simpl in *.
    + rewrite N.add_0_r. split; [intros [H|[]]; auto | intros [H|[]]; auto].
    + destruct y as [[k0 v0]|]; [contradiction|]. simpl. rewrite N.add_0_r. split; intros [H|H]; auto.
  - destruct l as [|y l]; simpl in *.
    + assert (Hnil : match nth_error (@nil (option (argkind * bytes))) n with Some (Some _) => False | _ => True end) by (destruct n; exact I).
      rewrite (IH [] (i + 1) k v x Hnil). simpl.
      replace (i + 1 + N.of_nat n) with (i + N.pos (Pos.of_succ_nat n)) by lia. tauto.
    + destruct y as [[k0 v0]|]; simpl; rewrite (IH l (i + 1) k v x Hfree);
        replace (i + 1 + N.of_nat n) with (i + N.pos (Pos.of_succ_nat n)) by lia; tauto.
Qed.

Lemma in_opt_list {A} (o : option A) f x : In x (opt_list o f) <-> exists y, o = Some y /\ x = f y.
Proof.
  destruct o; simpl; split.
  - intros [<-|[]]. eauto.
  - intros [y [E ->]]. inversion E. auto.
  - intros [].
  - intros [y [E _]]. discriminate.
Qed.

Lemma cons_add_cons r c x : occupied r (class_of c) = false ->
  (In x (sr_cons (abs_rule (add_cons r c))) <-> x = c \/ In x (sr_cons (abs_rule r))).
Proof.
  intros Hfree. unfold abs_rule. cbn [sr_cons].
  destruct c; cbn [add_cons r_type r_iface r_member r_sender r_dest r_path r_args r_owner r_eaves class_of occupied] in *.
  1-7: repeat rewrite in_app_iff; repeat rewrite in_opt_list.
  - destruct (r_type r); [discriminate|]. simpl. split.
    + intros [[y [E ->]]|H]; [inversion E; auto | right; tauto].
    + intros [->|H]; [left; eauto | destruct H as [[y [E _]]|H]; [discriminate | auto]].
  - destruct (r_sender r); [discriminate|]. simpl. split.
    + intros [H|[H|[H|[[y [E ->]]|H]]]]; try (inversion E; auto); right; tauto.
    + intros [->|H]; [right; right; right; left; eauto|].
      destruct H as [H|[H|[H|[[y [E _]]|H]]]]; try discriminate; tauto.
  - destruct (r_iface r); [discriminate|]. simpl. split.
    + intros [H|[[y [E ->]]|H]]; try (inversion E; auto); right; tauto.
    + intros [->|H]; [right; left; eauto|].
      destruct H as [H|[[y [E _]]|H]]; try discriminate; tauto.
  - destruct (r_member r); [discriminate|]. simpl. split.
    + intros [H|[H|[[y [E ->]]|H]]]; try (inversion E; auto); right; tauto.
    + intros [->|H]; [right; right; left; eauto|].
      destruct H as [H|[H|[[y [E _]]|H]]]; try discriminate; tauto.
  - destruct (r_path r); [discriminate|]. simpl. assert (CPath s = x <-> x = CPath s) by (split; congruence). tauto.
  - destruct (r_path r); [discriminate|]. simpl. assert (CPathNs s = x <-> x = CPathNs s) by (split; congruence). tauto.
  - destruct (r_dest r); [discriminate|]. simpl. split.
    + intros [H|[H|[H|[H|[[y [E ->]]|H]]]]]; try (inversion E; auto); right; tauto.
    + intros [->|H]; [right; right; right; right; left; eauto|].
      destruct H as [H|[H|[H|[H|[[y [E _]]|H]]]]]; try discriminate; tauto.
  - unfold add_arg. cbn [r_type r_iface r_member r_sender r_dest r_path r_args].
    repeat rewrite in_app_iff.
    rewrite (in_arg_constraints_set (N.to_nat n) (r_args r) 0 k v x).
    + rewrite N2Nat.id. simpl. tauto.
    + unfold arg_slot_taken in Hfree. destruct (nth_error (r_args r) (N.to_nat n)) as [[y|]|]; [discriminate|exact I|exact I].
Qed.

Lemma cons_set_eaves r b : sr_cons (abs_rule (set_eaves r b)) = sr_cons (abs_rule r).
Proof. reflexivity. Qed.

(* ---- the whole item list ------------------------------------------------------------------------------- *)
Definition item_valid (t : token) : bool := match item_meaning_of t with IBad => false | _ => true end.

Lemma constraints_of_cons t ts :
  constraints_of (t :: ts) = match item_meaning_of t with ICons c => c :: constraints_of ts | _ => constraints_of ts end.
Proof. reflexivity. Qed.

Lemma eaves_of_cons t ts cur :
  eaves_of (t :: ts) cur = match item_meaning_of t with IEaves b => eaves_of ts b | _ => eaves_of ts cur end.
Proof. reflexivity. Qed.

Lemma existsb_keyclass k l : existsb (keyclass_eqb k) l = true <-> In k l.
Proof.
  rewrite existsb_exists. split.
  - intros [x [Hin E]]. apply keyclass_eqb_eq in E. now subst.
  - intros H. exists k. split; [assumption | now apply keyclass_eqb_eq].
Qed.

Lemma add_cons_eaves r c : r_eaves (add_cons r c) = r_eaves r.
Proof. destruct c; reflexivity. Qed.
Lemma add_cons_owner r c : r_owner (add_cons r c) = r_owner r.
Proof. destruct c; reflexivity. Qed.

Lemma fold_spec_inv : forall ts r,
  match fold_spec r ts with
  | Some r' =>
      forallb item_valid ts = true /\
      classes_distinct (map class_of (constraints_of ts)) = true /\
      (forall c, In c (constraints_of ts) -> occupied r (class_of c) = false) /\
      r_eaves r' = eaves_of ts (r_eaves r) /\ r_owner r' = r_owner r /\
      (forall k, occupied r' k = occupied r k || existsb (keyclass_eqb k) (map class_of (constraints_of ts))) /\
      (forall x, In x (sr_cons (abs_rule r')) <-> In x (sr_cons (abs_rule r)) \/ In x (constraints_of ts))
  | None =>
      forallb item_valid ts = false \/
      classes_distinct (map class_of (constraints_of ts)) = false \/
      (exists c, In c (constraints_of ts) /\ occupied r (class_of c) = true)
  end.
Proof.
  induction ts as [|t ts IH]; intros r.
  - cbn [fold_spec constraints_of eaves_of forallb map classes_distinct existsb].
    split; [reflexivity|]. split; [reflexivity|]. split; [intros c []|]. split; [reflexivity|]. split; [reflexivity|]. split.
    + intros k. now rewrite orb_false_r.
    + intros x. simpl. tauto.
  - cbn [fold_spec]. unfold step_spec. rewrite constraints_of_cons, eaves_of_cons.
    cbn [forallb]. unfold item_valid at 1 3.
    destruct (item_meaning_of t) as [|b|c] eqn:Em.
    + left. reflexivity.
    + (* eavesdrop item *)
      specialize (IH (set_eaves r b)).
      destruct (fold_spec (set_eaves r b) ts) as [r'|].
      * destruct IH as (I1 & I2 & I3 & I4 & I5 & I6 & I7).
        split; [exact I1|]. split; [exact I2|]. split.
        { intros c Hc. rewrite <- (occupied_set_eaves r b). auto. }
        split; [exact I4|]. split; [exact I5|]. split.
        { intros k. rewrite I6, occupied_set_eaves. reflexivity. }
        intros x. rewrite I7, cons_set_eaves. tauto.
      * destruct IH as [I|[I|[c [I1 I2]]]]; auto.
        right. right. exists c. rewrite occupied_set_eaves in I2. auto.
    + (* a constraint *)
      destruct (occupied r (class_of c)) eqn:Eo.
      * right. right. exists c. split; [now left | assumption].
      * specialize (IH (add_cons r c)).
        destruct (fold_spec (add_cons r c) ts) as [r'|].
        -- destruct IH as (I1 & I2 & I3 & I4 & I5 & I6 & I7).
           split; [exact I1|]. split.
           { cbn [map classes_distinct]. rewrite I2, andb_true_r. apply negb_true_iff.
             destruct (existsb (keyclass_eqb (class_of c)) (map class_of (constraints_of ts))) eqn:Ex; [|reflexivity].
             apply existsb_keyclass in Ex. apply in_map_iff in Ex. destruct Ex as [c' [Ec' Hc']].
             specialize (I3 c' Hc'). rewrite occupied_add_cons, Ec' in I3.
             assert (keyclass_eqb (class_of c) (class_of c) = true) by now apply keyclass_eqb_eq.
             rewrite H, orb_true_r in I3. discriminate. }
           split.
           { intros c' [<-|Hc']; [assumption|]. specialize (I3 c' Hc'). rewrite occupied_add_cons in I3.
             apply orb_false_iff in I3. tauto. }
           rewrite add_cons_eaves in I4. rewrite add_cons_owner in I5.
           split; [exact I4|]. split; [exact I5|]. split.
           { intros k. rewrite I6, occupied_add_cons. cbn [map existsb]. now rewrite orb_assoc. }
           intros x. rewrite I7, (cons_add_cons r c x Eo). simpl. split; intros H; intuition (subst; auto).
        -- destruct IH as [I|[I|[c' [I1 I2]]]].
           ++ left. exact I.
           ++ right. left. cbn [map classes_distinct]. rewrite I. apply andb_false_r.
           ++ rewrite occupied_add_cons in I2. apply orb_true_iff in I2. destruct I2 as [I2|I2].
              ** right. right. exists c'. split; [now right | assumption].
              ** right. left. cbn [map classes_distinct].
                 assert (existsb (keyclass_eqb (class_of c)) (map class_of (constraints_of ts)) = true) as ->.
                 { apply existsb_keyclass. apply keyclass_eqb_eq in I2. rewrite <- I2. now apply in_map. }
                 reflexivity.
Qed.

Lemma constraint_eqb_eq a b : constraint_eqb a b = true <-> a = b.
Proof.
  destruct a, b; simpl; try (split; congruence); try (rewrite bytes_eqb_eq; split; congruence).
  - rewrite N.eqb_eq. split; congruence.
  - rewrite !andb_true_iff, N.eqb_eq, argkind_eqb_eq, bytes_eqb_eq. split; [intros [[-> ->] ->]; reflexivity | intros E; inversion E; auto].
Qed.

Lemma subset_cons_incl a b : subset_cons a b = true <-> incl a b.
Proof.
  unfold subset_cons, incl. rewrite forallb_forall. split.
  - intros H x Hx. specialize (H x Hx). apply existsb_exists in H. destruct H as [y [Hy E]]. apply constraint_eqb_eq in E. now subst.
  - intros H x Hx. apply existsb_exists. exists x. split; [auto | now apply constraint_eqb_eq].
Qed.

(* The per-key checks accept exactly the item lists the specification accepts, and the accepted rule stands
   for exactly the constraints (and the eavesdrop switch) the specification reads from the items. *)
Theorem parse_tokens_spec c ts :
  forallb item_in_scope ts = true ->
  match parse_tokens (empty_rule c) ts with
  | Some r => items_ok ts = true /\ srule_eqb (abs_rule r) (mkSRule c (eaves_of ts false) (constraints_of ts)) = true
  | None => items_ok ts = false
  end.
Proof.
  intros Hs. rewrite (parse_tokens_fold ts (empty_rule c) Hs).
  pose proof (fold_spec_inv ts (empty_rule c)) as H.
  destruct (fold_spec (empty_rule c) ts) as [r|].
  - destruct H as (I1 & I2 & I3 & I4 & I5 & I6 & I7).
    split.
    + unfold items_ok. fold item_valid. rewrite I2, andb_true_r. exact I1.
    + unfold srule_eqb. cbn [sr_owner sr_eaves sr_cons abs_rule].
      rewrite I5, I4. cbn [empty_rule r_owner r_eaves]. rewrite N.eqb_refl, Bool.eqb_reflx. cbn [andb].
      apply andb_true_iff. split; apply subset_cons_incl; intros x Hx.
      * apply I7 in Hx. destruct Hx as [[]|Hx]. assumption.
      * apply I7. now right.
  - unfold items_ok. fold item_valid. destruct H as [H|[H|[c0 [_ H]]]].
    + rewrite H. reflexivity.
    + rewrite H. apply andb_false_r.
    + exfalso. destruct (class_of c0) as [| | | | | |n]; simpl in H; try discriminate.
      unfold arg_slot_taken in H. simpl in H. destruct (N.to_nat n); discriminate.
Qed.

(* ---- AddMatch / RemoveMatch argument -> rule, outside the known classes -------------------------------- *)

Definition parse_agrees (c : N) (s : bytes) : Prop :=
  match parse_rule c s, spec_parse c s with
  | POk r, SPOk sr => srule_eqb (abs_rule r) sr = true
  | PInvalid, SPInvalid | PLimits, SPLimits => True
  | _, _ => False
  end.

Theorem parse_rule_spec c s ts e :
  no_nul s -> bs_sensitive SItemStart s = false ->
  spec_tokens s = (ts, e) -> e <> SEmptyKey -> (length ts < MAX_RULE_TOKENS)%nat ->
  forallb item_in_scope ts = true ->
  parse_agrees c s.
Proof.
  intros Hn Hb Hs He Hl Hsc. unfold parse_agrees, parse_rule, spec_parse. rewrite max_len_eq.
  destruct (SPEC_MAX_RULE_LENGTH <? nlen s); [exact I|].
  pose proof (tokenize_agrees s ts e Hn Hb Hs He Hl) as Ht. rewrite Hs.
  destruct (tokenize s) as [toks|]; simpl in Ht.
  - destruct e; try discriminate. inversion Ht as [Hp]. rewrite Hp.
    pose proof (parse_tokens_spec c ts Hsc) as Hps.
    destruct (parse_tokens (empty_rule c) ts) as [r|].
    + destruct Hps as [Hok Heq]. rewrite Hok. exact Heq.
    + rewrite Hps. exact I.
  - destruct e; try discriminate; exact I.
Qed.
