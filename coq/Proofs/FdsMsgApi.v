(* C15 proofs, part 8: descriptor ownership through the message API (coq/Fds/MsgApi.v). *)
From Coq Require Import Permutation.
From DV Require Import Lib.Base Fds.MsgApi Proofs.FdsBase.
Require Import ZifyBool ZifyN ZifyNat.
Local Open Scope N_scope.

(* ---------------------------------------------------------------- lists and the descriptor table *)
Lemma NoDup_app_snoc {A} (l : list A) x : NoDup l -> ~ In x l -> NoDup (l ++ [x]).
Proof.
  intros Hn Hx. apply (Permutation_NoDup (l := x :: l)); [|constructor; auto].
  apply Permutation_cons_append.
Qed.

Lemma NoDup_app_disjoint {A} (a b : list A) x : NoDup (a ++ b) -> In x a -> In x b -> False.
Proof.
  induction a as [|y a IH]; simpl; [tauto|]. intros Hn [->|Ha] Hb.
  - inversion Hn; subst. apply H1. apply in_or_app. right; auto.
  - inversion Hn; subst. eapply IH; eauto.
Qed.

Lemma perm_mid3 {A} (a b x : list A) f : Permutation (a ++ b ++ f :: x) (f :: a ++ b ++ x).
Proof. rewrite !app_assoc. symmetry. apply Permutation_middle. Qed.

Lemma perm_mid4 {A} (a b c x : list A) f : Permutation (a ++ b ++ c ++ f :: x) (f :: a ++ b ++ c ++ x).
Proof. rewrite !app_assoc. symmetry. apply Permutation_middle. Qed.

Lemma perm_snoc_front {A} (a r : list A) f : Permutation ((a ++ [f]) ++ r) (f :: a ++ r).
Proof. rewrite <- app_assoc. simpl. symmetry. apply Permutation_middle. Qed.

Lemma NoDup_app_tail {A} (a b : list A) : NoDup (a ++ b) -> NoDup b.
Proof. induction a; simpl; auto. intros H. inversion H; auto. Qed.

Lemma file_of_in t f fl : file_of t f = Some fl -> In f (map fst t).
Proof.
  induction t as [|[g x] t IH]; simpl; [discriminate|].
  destruct (g =? f) eqn:E; [intros _; left; apply N.eqb_eq; auto | intros H; right; auto].
Qed.

Lemma file_of_notin t f : ~ In f (map fst t) -> file_of t f = None.
Proof.
  induction t as [|[g x] t IH]; simpl; auto. intros H.
  destruct (g =? f) eqn:E; [exfalso; apply H; left; apply N.eqb_eq; auto | apply IH; tauto].
Qed.

Lemma file_of_app_old t g x f : f <> g -> file_of (t ++ [(g, x)]) f = file_of t f.
Proof.
  intros Hne. induction t as [|[h y] t IH]; simpl.
  - assert (g =? f = false) as -> by (apply N.eqb_neq; congruence). reflexivity.
  - destruct (h =? f); auto.
Qed.

Lemma file_of_app_new t g x : ~ In g (map fst t) -> file_of (t ++ [(g, x)]) g = Some x.
Proof.
  intros H. induction t as [|[h y] t IH]; simpl.
  - rewrite N.eqb_refl. reflexivity.
  - simpl in H. destruct (h =? g) eqn:E; [exfalso; apply H; left; apply N.eqb_eq; auto | apply IH; tauto].
Qed.

Lemma k_remove_perm t f : In f (map fst t) -> Permutation (map fst t) (f :: map fst (k_remove t f)).
Proof.
  induction t as [|[g x] t IH]; simpl; [tauto|].
  destruct (g =? f) eqn:E.
  - apply N.eqb_eq in E. subst. intros _. reflexivity.
  - apply N.eqb_neq in E. intros [H|H]; [congruence|]. simpl.
    eapply Permutation_trans; [apply perm_skip; apply IH; exact H|]. apply perm_swap.
Qed.

Lemma file_of_remove t f f' : f' <> f -> file_of (k_remove t f) f' = file_of t f'.
Proof.
  intros Hne. induction t as [|[g x] t IH]; simpl; auto.
  destruct (g =? f) eqn:E.
  - apply N.eqb_eq in E. subst. assert (f =? f' = false) as -> by (apply N.eqb_neq; congruence). reflexivity.
  - simpl. destruct (g =? f'); auto.
Qed.

Lemma del1_perm l f : In f l -> Permutation l (f :: del1 l f).
Proof.
  induction l as [|g l IH]; simpl; [tauto|].
  destruct (g =? f) eqn:E.
  - apply N.eqb_eq in E. subst. intros _. reflexivity.
  - apply N.eqb_neq in E. intros [H|H]; [congruence|].
    eapply Permutation_trans; [apply perm_skip; apply IH; exact H|]. apply perm_swap.
Qed.

Lemma mem_in f l : mem f l = true -> In f l.
Proof.
  unfold mem. intros H. apply existsb_exists in H. destruct H as (x & Hx & E). apply N.eqb_eq in E. subst. exact Hx.
Qed.

(* ---------------------------------------------------------------- message table *)
Lemma find_msg_split ms h m :
  find_msg ms h = Some m -> exists l1 l2, ms = l1 ++ m :: l2 /\ lm_h m = h /\ (forall y, In y l1 -> lm_h y <> h).
Proof.
  induction ms as [|y ms IH]; simpl; [discriminate|].
  destruct (lm_h y =? h) eqn:E.
  - intros H; inversion H; subst. exists [], ms. split; [reflexivity|]. split; [apply N.eqb_eq; exact E|]. intros ? [].
  - intros H. destruct (IH H) as (l1 & l2 & -> & Hid & Hn). exists (y :: l1), l2. repeat split; auto.
    intros z [<-|Hz]; [apply N.eqb_neq; auto | auto].
Qed.

Lemma upd_msg_split l1 l2 m m' :
  lm_h m' = lm_h m -> (forall y, In y l1 -> lm_h y <> lm_h m) -> upd_msg (l1 ++ m :: l2) m' = l1 ++ m' :: l2.
Proof.
  intros Hid Hn. induction l1 as [|y l1 IH]; simpl.
  - rewrite Hid, N.eqb_refl. reflexivity.
  - assert (lm_h y =? lm_h m' = false) as -> by (apply N.eqb_neq; rewrite Hid; apply Hn; left; auto).
    rewrite IH; auto. intros z Hz. apply Hn. right; auto.
Qed.

Lemma del_msg_split l1 l2 m :
  (forall y, In y l1 -> lm_h y <> lm_h m) -> del_msg (l1 ++ m :: l2) (lm_h m) = l1 ++ l2.
Proof.
  intros Hn. induction l1 as [|y l1 IH]; simpl.
  - rewrite N.eqb_refl. reflexivity.
  - assert (lm_h y =? lm_h m = false) as -> by (apply N.eqb_neq; apply Hn; left; auto).
    rewrite IH; auto. intros z Hz. apply Hn. right; auto.
Qed.

Lemma held_msgs_split l1 m l2 :
  Permutation (concat (map lm_fds (l1 ++ m :: l2))) (lm_fds m ++ concat (map lm_fds (l1 ++ l2))).
Proof.
  rewrite !map_app, !concat_app. simpl. rewrite !app_assoc. apply Permutation_app_tail. apply Permutation_app_comm.
Qed.

(* ---------------------------------------------------------------- the invariant, with descriptors "in hand" *)
(* X: descriptors the library has just duplicated or detached and not yet put anywhere *)
Record LInvX (st : lstate) (X : list fdn) : Prop := mkLInvX {
  lx_nodup : NoDup (open_fds st);
  lx_lt : forall f, In f (open_fds st) -> f < ls_next st;
  lx_dlt : forall f, In f (ls_dups st) -> f < ls_next st;
  lx_open : Permutation (open_fds st) (ls_app st ++ lib_held st ++ X);
  lx_dups : Permutation (ls_dups st) (ls_closed st ++ lib_held st ++ ls_given st ++ X);
  lx_dnodup : NoDup (ls_dups st);
  lx_appdup : forall f, In f (ls_app st) -> In f (ls_dups st) -> In f (ls_given st);
  lx_src : forall m, In m (ls_msgs st) -> files_of st (lm_fds m) = map Some (lm_src m) }.

Definition LInv (st : lstate) : Prop := LInvX st [].

Lemma LInvX_perm st X X' : Permutation X X' -> LInvX st X -> LInvX st X'.
Proof.
  intros P [A B C D E F G H]. constructor; auto.
  - rewrite D. apply Permutation_app_head. apply Permutation_app_head. exact P.
  - rewrite E. do 3 apply Permutation_app_head. exact P.
Qed.

Lemma open_in_parts st X f : LInvX st X -> In f (lib_held st ++ X) -> In f (open_fds st).
Proof.
  intros I H. eapply Permutation_in; [symmetry; apply (lx_open _ _ I)|]. apply in_or_app. right. exact H.
Qed.

(* a successful dup: a fresh number for the same file, in hand *)
Lemma lib_dup_some st X f ok st1 g :
  LInvX st X -> lib_dup st f ok = (st1, Some g) ->
  LInvX st1 (X ++ [g]) /\ g = ls_next st /\ ls_msgs st1 = ls_msgs st /\ ls_app st1 = ls_app st /\ ls_given st1 = ls_given st /\
  file_of (ls_open st1) g = file_of (ls_open st) f /\ file_of (ls_open st) f <> None /\
  (forall f', In f' (open_fds st) -> file_of (ls_open st1) f' = file_of (ls_open st) f').
Proof.
  intros [A B C D E F G H] L. unfold lib_dup in L.
  destruct (file_of (ls_open st) f) as [fl|] eqn:Ef; [|inversion L].
  destruct ok; inversion L; subst; clear L.
  assert (Hfresh : ~ In (ls_next st) (open_fds st)) by (intros Hin; apply B in Hin; lia).
  assert (Hold : forall f', In f' (open_fds st) -> file_of (ls_open st ++ [(ls_next st, fl)]) f' = file_of (ls_open st) f').
  { intros f' Hin. apply file_of_app_old. intros ->. contradiction. }
  splits; auto; simpl.
  - constructor; simpl; unfold open_fds, lib_held, files_of in *; simpl.
    + rewrite map_app. simpl. apply NoDup_app_snoc; auto.
    + intros f0 Hin. rewrite map_app in Hin. apply in_app_or in Hin. destruct Hin as [Hin|[<-|[]]]; [apply B in Hin|simpl]; lia.
    + intros f0 Hin. apply in_app_or in Hin. destruct Hin as [Hin|[<-|[]]]; [apply C in Hin|]; lia.
    + rewrite map_app. simpl. rewrite D. rewrite <- !app_assoc. reflexivity.
    + rewrite E. rewrite <- !app_assoc. reflexivity.
    + apply NoDup_app_snoc; auto. intros Hin. apply C in Hin. lia.
    + intros f0 Ha Hd. apply in_app_or in Hd. destruct Hd as [Hd|[<-|[]]]; auto.
      exfalso. apply Hfresh. rewrite D. apply in_or_app. left. exact Ha.
    + intros m Hm. rewrite <- (H m Hm). apply map_ext_in. intros f0 Hf0. apply Hold.
      rewrite D. apply in_or_app. right. apply in_or_app. left. apply in_concat. exists (lm_fds m). split; auto.
      apply in_map. exact Hm.
  - apply file_of_app_new. exact Hfresh.
  - congruence.
Qed.

Lemma lib_dup_none st f ok st1 : lib_dup st f ok = (st1, None) -> st1 = st.
Proof.
  unfold lib_dup. destruct (file_of (ls_open st) f); [destruct ok|]; intros H; inversion H; reflexivity.
Qed.

(* closing a descriptor that is in hand *)
Lemma lib_close_inv st X f : LInvX st (f :: X) -> LInvX (lib_close st f) X.
Proof.
  intros I. pose proof I as [A B C D E F G H].
  assert (Hin : In f (open_fds st)).
  { rewrite D. apply in_or_app. right. apply in_or_app. right. left; auto. }
  assert (Hp : Permutation (open_fds st) (f :: map fst (k_remove (ls_open st) f))) by (apply k_remove_perm; exact Hin).
  assert (Hnd : NoDup (f :: map fst (k_remove (ls_open st) f))) by (eapply Permutation_NoDup; eauto).
  constructor; simpl; unfold open_fds, lib_held, files_of in *; simpl.
  - inversion Hnd; auto.
  - intros f0 H0. apply B. rewrite Hp. right; auto.
  - exact C.
  - apply Permutation_cons_inv with (a := f). rewrite <- Hp, D. apply perm_mid3.
  - rewrite E. eapply Permutation_trans; [apply perm_mid4|]. symmetry. apply perm_snoc_front.
  - exact F.
  - exact G.
  - intros m Hm. rewrite <- (H m Hm). apply map_ext_in. intros f0 Hf0. apply file_of_remove.
    intros ->. exfalso.
    assert (Hd : NoDup (ls_app st ++ concat (map lm_fds (ls_msgs st)) ++ f :: X)) by (eapply Permutation_NoDup; [exact D|exact A]).
    apply NoDup_app_tail in Hd.
    apply (NoDup_app_disjoint _ _ f Hd).
    + apply in_concat. exists (lm_fds m). split; auto. apply in_map; auto.
    + left; auto.
Qed.

Lemma lib_close_all_inv l : forall st X, LInvX st (l ++ X) -> LInvX (lib_close_all st l) X.
Proof.
  induction l as [|f l IH]; intros st X I; simpl in *; auto.
  apply IH. apply lib_close_inv. exact I.
Qed.

Lemma lib_close_fields st f :
  ls_msgs (lib_close st f) = ls_msgs st /\ ls_app (lib_close st f) = ls_app st /\ ls_given (lib_close st f) = ls_given st /\
  ls_dups (lib_close st f) = ls_dups st.
Proof. unfold lib_close; simpl; auto. Qed.

Lemma lib_close_all_fields l : forall st,
  ls_msgs (lib_close_all st l) = ls_msgs st /\ ls_app (lib_close_all st l) = ls_app st /\
  ls_given (lib_close_all st l) = ls_given st /\ ls_dups (lib_close_all st l) = ls_dups st /\
  ls_closed (lib_close_all st l) = ls_closed st ++ l.
Proof.
  induction l as [|f l IH]; intros st; simpl.
  - rewrite app_nil_r. auto.
  - destruct (IH (lib_close st f)) as (A & B & C & D & E). rewrite A, B, C, D, E. simpl.
    rewrite <- app_assoc. auto.
Qed.

Lemma open_in_old st f ok st' g f' : lib_dup st f ok = (st', Some g) -> In f' (open_fds st) -> In f' (open_fds st').
Proof.
  unfold lib_dup. destruct (file_of (ls_open st) f); [destruct ok|]; intros H; inversion H; subst.
  unfold open_fds; simpl. rewrite map_app. intros Hin. apply in_or_app. left; auto.
Qed.

Lemma open_in_new st f ok st' g : lib_dup st f ok = (st', Some g) -> In g (open_fds st').
Proof.
  unfold lib_dup. destruct (file_of (ls_open st) f); [destruct ok|]; intros H; inversion H; subst.
  unfold open_fds; simpl. rewrite map_app. apply in_or_app. right. left; auto.
Qed.

Lemma In_firstn {A} n (l : list A) x : In x (firstn n l) -> In x l.
Proof. revert n. induction l; intros [|n]; simpl; try tauto. intros [->|H]; eauto. Qed.

(* duplicating a list in order: the dups are in hand, they denote the same files in the same order *)
Lemma dup_list_inv l : forall st X pos fail_at st1 made all,
  LInvX st X -> (forall f, In f l -> In f (open_fds st)) ->
  dup_list st l pos fail_at = (st1, made, all) ->
  LInvX st1 (X ++ made) /\ ls_msgs st1 = ls_msgs st /\ ls_app st1 = ls_app st /\ ls_given st1 = ls_given st /\
  files_of st1 made = files_of st (firstn (length made) l) /\
  (all = true -> length made = length l) /\
  (forall f', In f' (open_fds st) -> file_of (ls_open st1) f' = file_of (ls_open st) f') /\
  (forall f', In f' (open_fds st) -> In f' (open_fds st1)).
Proof.
  induction l as [|f l IH]; intros st X pos fail_at st1 made all I Hop H; simpl in H.
  - inversion H; subst. rewrite app_nil_r. splits; auto.
  - destruct (lib_dup st f (match fail_at with Some k => negb (Nat.eqb k pos) | None => true end)) as [st' [g|]] eqn:Ed.
    + destruct (lib_dup_some _ _ _ _ _ _ I Ed) as (I1 & Hg & Hm & Ha & Hgv & Hfile & Hsome & Hold).
      destruct (dup_list st' l (S pos) fail_at) as [[st2 made2] all2] eqn:Er. inversion H; subst st1 made all. clear H.
      assert (Hop' : forall f0, In f0 l -> In f0 (open_fds st')).
      { intros f0 Hf0. eapply open_in_old; eauto. apply Hop. right; auto. }
      destruct (IH _ _ _ _ _ _ _ I1 Hop' Er) as (I2 & Hm2 & Ha2 & Hgv2 & Hf2 & Hall & Hold2 & Hin2).
      assert (Hinst' : forall f', In f' (open_fds st) -> In f' (open_fds st')) by (intros; eapply open_in_old; eauto).
      splits.
      * rewrite <- app_assoc in I2. exact I2.
      * congruence.
      * congruence.
      * congruence.
      * simpl. unfold files_of in *. simpl. f_equal.
        -- rewrite Hold2; [exact Hfile|]. eapply open_in_new; eauto.
        -- rewrite Hf2. apply map_ext_in. intros f0 Hf0. apply Hold. apply Hop. right.
           eapply In_firstn; eauto.
      * intros Ht. simpl. f_equal. auto.
      * intros f' Hf'. rewrite Hold2 by auto. apply Hold. exact Hf'.
      * intros f' Hf'. apply Hin2. apply Hinst'. exact Hf'.
    + apply lib_dup_none in Ed. subst st'. inversion H; subst. rewrite app_nil_r. splits; auto. discriminate.
Qed.

(* ---------------------------------------------------------------- moving descriptors between places *)
Lemma perm_insert_mid {A} (h x h' x' g : list A) :
  Permutation (h ++ x) (h' ++ x') -> Permutation (h ++ g ++ x) (h' ++ g ++ x').
Proof.
  intros P.
  eapply Permutation_trans; [apply Permutation_app_head; apply Permutation_app_comm|].
  rewrite app_assoc. eapply Permutation_trans; [apply Permutation_app_comm|].
  eapply Permutation_trans; [apply Permutation_app_head; exact P|].
  eapply Permutation_trans; [apply Permutation_app_comm|]. rewrite <- app_assoc.
  apply Permutation_app_head. apply Permutation_app_comm.
Qed.

Lemma LInvX_set_msgs st X ms' X' :
  LInvX st X -> Permutation (lib_held st ++ X) (concat (map lm_fds ms') ++ X') ->
  (forall m, In m ms' -> files_of st (lm_fds m) = map Some (lm_src m)) ->
  LInvX (set_msgs st ms') X'.
Proof.
  intros [A B C D E F G H] P Hs. constructor; simpl; auto; unfold lib_held in *; simpl.
  - rewrite D. apply Permutation_app_head. exact P.
  - rewrite E. apply Permutation_app_head. apply perm_insert_mid. exact P.
Qed.

Lemma LInvX_give st l X : LInvX st (l ++ X) -> LInvX (give st l) X.
Proof.
  intros [A B C D E F G H]. constructor; simpl; auto; unfold lib_held in *; simpl.
  - rewrite D. rewrite <- !app_assoc. apply Permutation_app_head.
    rewrite !app_assoc. apply Permutation_app_tail. apply Permutation_app_comm.
  - rewrite E. rewrite <- !app_assoc. reflexivity.
  - intros f Ha Hd. apply in_app_or in Ha. apply in_or_app. destruct Ha as [Ha|Ha]; [left; auto | right; auto].
Qed.

Lemma LInvX_fault st X : LInvX st X -> LInvX (lfault st) X.
Proof. intros [A B C D E F G H]. constructor; auto. Qed.

Lemma msg_fds_open st X m : LInvX st X -> In m (ls_msgs st) -> forall f, In f (lm_fds m) -> In f (open_fds st).
Proof.
  intros I Hm f Hf. eapply open_in_parts; eauto. apply in_or_app. left.
  apply in_concat. exists (lm_fds m). split; auto. apply in_map; auto.
Qed.

Lemma del1_in l f g : In g (del1 l f) -> In g l.
Proof.
  induction l as [|x l IH]; simpl; auto. destruct (x =? f); [right; auto|]. intros [->|H]; [left|right]; auto.
Qed.

(* ---------------------------------------------------------------- one call of the API *)
Theorem LInv_step st e : LInv st -> LInv (fst (lstep st e)).
Proof.
  unfold LInv. intros I. destruct e as [fl|h|h f dok wok|h h' fa|h idx dok|h want fa mm|h|h|f]; unfold lstep.
  - (* open *)
    destruct I as [A B C D E F G H]. simpl.
    assert (Hfresh : ~ In (ls_next st) (open_fds st)) by (intros Hin; apply B in Hin; lia).
    constructor; simpl; unfold open_fds, lib_held, files_of in *; simpl.
    + rewrite map_app. simpl. apply NoDup_app_snoc; auto.
    + intros f0 Hin. rewrite map_app in Hin. apply in_app_or in Hin. destruct Hin as [Hin|[<-|[]]]; [apply B in Hin|simpl]; lia.
    + intros f0 Hin. apply C in Hin. lia.
    + rewrite map_app. simpl. rewrite D, !app_nil_r. rewrite <- !app_assoc.
      apply Permutation_app_head. apply Permutation_app_comm.
    + exact E.
    + exact F.
    + intros f0 Ha Hd. apply in_app_or in Ha. destruct Ha as [Ha|[<-|[]]]; auto. apply C in Hd. lia.
    + intros m Hm. rewrite <- (H m Hm). apply map_ext_in. intros f0 Hf0. apply file_of_app_old.
      intros ->. apply Hfresh. rewrite D. apply in_or_app. right. apply in_or_app. left.
      apply in_concat. exists (lm_fds m). split; auto. apply in_map; auto.
  - (* new *)
    destruct (find_msg (ls_msgs st) h); simpl; [apply LInvX_fault; exact I|].
    apply (LInvX_set_msgs st [] _ []); auto.
    + unfold lib_held. rewrite map_app, concat_app. simpl. rewrite !app_nil_r. reflexivity.
    + intros m Hm. apply in_app_or in Hm. destruct Hm as [Hm|[<-|[]]]; [apply (lx_src _ _ I); auto | reflexivity].
  - (* append *)
    destruct (find_msg (ls_msgs st) h) as [m|] eqn:Ef; [|simpl; apply LInvX_fault; exact I].
    destruct (find_msg_split _ _ _ Ef) as (l1 & l2 & Hms & Hid & Hn).
    destruct (lib_dup st f dok) as [st1 [g|]] eqn:Ed.
    + destruct (lib_dup_some _ _ _ _ _ _ I Ed) as (I1 & Hg & Hm1 & Ha & Hgv & Hfile & Hsome & Hold). simpl in I1.
      destruct wok; simpl.
      * set (m' := mkLM h (lm_refs m) (lm_fds m ++ [g]) (lm_src m ++ [match file_of (ls_open st) f with Some x => x | None => 0 end])).
        assert (Hu : upd_msg (ls_msgs st1) m' = l1 ++ m' :: l2).
        { rewrite Hm1, Hms. apply upd_msg_split; simpl; auto. intros y Hy. rewrite Hid. apply Hn; auto. }
        rewrite Hu. apply (LInvX_set_msgs st1 [g] _ []); auto.
        -- unfold lib_held. rewrite Hm1, Hms. rewrite app_nil_r.
           eapply Permutation_trans; [apply Permutation_app_tail; apply held_msgs_split|].
           eapply Permutation_trans; [|symmetry; apply held_msgs_split]. simpl.
           rewrite <- !app_assoc. apply Permutation_app_head. apply Permutation_app_comm.
        -- intros y Hy. apply in_app_or in Hy. destruct Hy as [Hy|[<-|Hy]].
           ++ apply (lx_src _ _ I1). rewrite Hm1, Hms. apply in_or_app. left; auto.
           ++ simpl. unfold files_of. rewrite !map_app. simpl. f_equal.
              ** apply (lx_src _ _ I1 m). rewrite Hm1, Hms. apply in_or_app. right. left; auto.
              ** rewrite Hfile. destruct (file_of (ls_open st) f); [reflexivity|congruence].
           ++ apply (lx_src _ _ I1). rewrite Hm1, Hms. apply in_or_app. right. right; auto.
      * apply lib_close_inv. exact I1.
    + apply lib_dup_none in Ed. subst st1. simpl. exact I.
  - (* copy *)
    destruct (find_msg (ls_msgs st) h) as [m|] eqn:Ef; [|simpl; apply LInvX_fault; exact I].
    destruct (find_msg (ls_msgs st) h') eqn:Ef'; [simpl; apply LInvX_fault; exact I|].
    destruct (find_msg_split _ _ _ Ef) as (l1 & l2 & Hms & Hid & Hn).
    assert (Hmin : In m (ls_msgs st)) by (rewrite Hms; apply in_or_app; right; left; auto).
    destruct (dup_list st (lm_fds m) 0 fa) as [[st1 made] all] eqn:Ed.
    destruct (dup_list_inv _ _ _ _ _ _ _ _ I (msg_fds_open _ _ _ I Hmin) Ed) as (I1 & Hm1 & Ha & Hgv & Hf & Hall & Hold & _).
    simpl in I1. destruct all; simpl.
    + apply (LInvX_set_msgs st1 made _ []); auto.
      * unfold lib_held. rewrite map_app, concat_app. simpl. rewrite !app_nil_r. reflexivity.
      * intros y Hy. apply in_app_or in Hy. destruct Hy as [Hy|[<-|[]]]; [apply (lx_src _ _ I1); auto|].
        simpl. rewrite Hf. rewrite (Hall eq_refl), firstn_all. apply (lx_src _ _ I). exact Hmin.
    + apply lib_close_all_inv. rewrite app_nil_r. exact I1.
  - (* get_basic *)
    destruct (find_msg (ls_msgs st) h) as [m|] eqn:Ef; [|simpl; apply LInvX_fault; exact I].
    destruct (nth_error (lm_fds m) (N.to_nat idx)) as [f|] eqn:En; [|simpl; exact I].
    destruct (lib_dup st f dok) as [st1 [g|]] eqn:Ed; simpl.
    + destruct (lib_dup_some _ _ _ _ _ _ I Ed) as (I1 & _). apply LInvX_give. rewrite app_nil_r. exact I1.
    + apply lib_dup_none in Ed. subst. exact I.
  - (* get_args *)
    destruct (find_msg (ls_msgs st) h) as [m|] eqn:Ef; [|simpl; apply LInvX_fault; exact I].
    destruct (find_msg_split _ _ _ Ef) as (l1 & l2 & Hms & Hid & Hn).
    assert (Hmin : In m (ls_msgs st)) by (rewrite Hms; apply in_or_app; right; left; auto).
    destruct (dup_list st (firstn want (lm_fds m)) 0 fa) as [[st1 made] all] eqn:Ed.
    assert (Hop : forall f, In f (firstn want (lm_fds m)) -> In f (open_fds st)).
    { intros f Hf. eapply msg_fds_open; eauto. eapply In_firstn; eauto. }
    destruct (dup_list_inv _ _ _ _ _ _ _ _ I Hop Ed) as (I1 & _). simpl in I1.
    destruct (all && Nat.leb want (length (lm_fds m)) && negb mm); simpl.
    + apply LInvX_give. rewrite app_nil_r. exact I1.
    + apply lib_close_all_inv. rewrite app_nil_r. exact I1.
  - (* ref *)
    destruct (find_msg (ls_msgs st) h) as [m|] eqn:Ef; [|simpl; apply LInvX_fault; exact I].
    destruct (find_msg_split _ _ _ Ef) as (l1 & l2 & Hms & Hid & Hn). simpl.
    set (m' := mkLM h (lm_refs m + 1) (lm_fds m) (lm_src m)).
    assert (Hu : upd_msg (ls_msgs st) m' = l1 ++ m' :: l2).
    { rewrite Hms. apply upd_msg_split; simpl; auto. intros y Hy. rewrite Hid. apply Hn; auto. }
    rewrite Hu. apply (LInvX_set_msgs st [] _ []); auto.
    + unfold lib_held. rewrite Hms, !app_nil_r.
      eapply Permutation_trans; [apply held_msgs_split|]. symmetry. apply (held_msgs_split l1 m' l2).
    + intros y Hy. apply in_app_or in Hy. destruct Hy as [Hy|[<-|Hy]].
      * apply (lx_src _ _ I). rewrite Hms. apply in_or_app. left; auto.
      * simpl. apply (lx_src _ _ I m). rewrite Hms. apply in_or_app. right. left; auto.
      * apply (lx_src _ _ I). rewrite Hms. apply in_or_app. right. right; auto.
  - (* unref *)
    destruct (find_msg (ls_msgs st) h) as [m|] eqn:Ef; [|simpl; apply LInvX_fault; exact I].
    destruct (find_msg_split _ _ _ Ef) as (l1 & l2 & Hms & Hid & Hn).
    destruct (lm_refs m <=? 1); simpl.
    + apply lib_close_all_inv. rewrite app_nil_r.
      assert (Hd : del_msg (ls_msgs st) h = l1 ++ l2).
      { rewrite Hms, <- Hid. apply del_msg_split. intros y Hy. rewrite Hid. apply Hn; auto. }
      rewrite Hd. apply (LInvX_set_msgs st [] _ (lm_fds m)); auto.
      * unfold lib_held. rewrite Hms, app_nil_r.
        eapply Permutation_trans; [apply held_msgs_split|]. apply Permutation_app_comm.
      * intros y Hy. apply (lx_src _ _ I). rewrite Hms. apply in_app_or in Hy. apply in_or_app.
        destruct Hy; [left|right; right]; auto.
    + set (m' := mkLM h (lm_refs m - 1) (lm_fds m) (lm_src m)).
      assert (Hu : upd_msg (ls_msgs st) m' = l1 ++ m' :: l2).
      { rewrite Hms. apply upd_msg_split; simpl; auto. intros y Hy. rewrite Hid. apply Hn; auto. }
      rewrite Hu. apply (LInvX_set_msgs st [] _ []); auto.
      * unfold lib_held. rewrite Hms, !app_nil_r.
        eapply Permutation_trans; [apply held_msgs_split|]. symmetry. apply (held_msgs_split l1 m' l2).
      * intros y Hy. apply in_app_or in Hy. destruct Hy as [Hy|[<-|Hy]].
        -- apply (lx_src _ _ I). rewrite Hms. apply in_or_app. left; auto.
        -- simpl. apply (lx_src _ _ I m). rewrite Hms. apply in_or_app. right. left; auto.
        -- apply (lx_src _ _ I). rewrite Hms. apply in_or_app. right. right; auto.
  - (* the application closes one of its own *)
    destruct (mem f (ls_app st)) eqn:Em; simpl; [|apply LInvX_fault; exact I].
    apply mem_in in Em. destruct I as [A B C D E F G H].
    assert (Hin : In f (open_fds st)) by (rewrite D; apply in_or_app; left; auto).
    assert (Hp : Permutation (open_fds st) (f :: map fst (k_remove (ls_open st) f))) by (apply k_remove_perm; exact Hin).
    assert (Hnd : NoDup (f :: map fst (k_remove (ls_open st) f))) by (eapply Permutation_NoDup; eauto).
    constructor; simpl; unfold open_fds, lib_held, files_of in *; simpl.
    + inversion Hnd; auto.
    + intros f0 H0. apply B. rewrite Hp. right; auto.
    + exact C.
    + apply Permutation_cons_inv with (a := f). rewrite <- Hp, D.
      eapply Permutation_trans; [apply Permutation_app_tail; apply del1_perm; exact Em|]. reflexivity.
    + exact E.
    + exact F.
    + intros f0 Ha Hd. apply G; auto. eapply del1_in; eauto.
    + intros m Hm. rewrite <- (H m Hm). apply map_ext_in. intros f0 Hf0. apply file_of_remove.
      intros ->. assert (Hd : NoDup (ls_app st ++ concat (map lm_fds (ls_msgs st)) ++ [])) by (eapply Permutation_NoDup; [exact D|exact A]).
      apply (NoDup_app_disjoint _ _ f Hd); auto. apply in_or_app. left.
      apply in_concat. exists (lm_fds m). split; auto. apply in_map; auto.
Qed.

Lemma LInv_init : LInv linit.
Proof.
  constructor; simpl; unfold open_fds, lib_held; simpl; try constructor; intros; try contradiction; auto.
Qed.

Theorem LInv_run evs : forall st, LInv st -> LInv (lrun st evs).
Proof. induction evs as [|e evs IH]; intros st I; simpl; auto. apply IH. apply LInv_step. exact I. Qed.

(* ---------------------------------------------------------------- what the invariant says *)
Definition lreach (evs : list lev) : lstate := lrun linit evs.

Lemma lreach_inv evs : LInv (lreach evs).
Proof. apply LInv_run. apply LInv_init. Qed.

(* every descriptor the library duplicated is in exactly one place: closed by the library (once), in a live
   message (once), or handed to the application *)
Theorem api_conservation evs :
  let st := lreach evs in
  Permutation (ls_dups st) (ls_closed st ++ lib_held st ++ ls_given st) /\
  NoDup (ls_closed st ++ lib_held st ++ ls_given st).
Proof.
  intros st. destruct (lreach_inv evs) as [A B C D E F G H]. fold st in A, B, C, D, E, F, G, H.
  rewrite app_nil_r in E. split; [exact E|]. eapply Permutation_NoDup; [exact E|exact F].
Qed.

(* the process's descriptor table is the application's descriptors plus what live messages hold, nothing else;
   with every message released it is the application's descriptors alone *)
Theorem api_open_table evs :
  let st := lreach evs in
  Permutation (open_fds st) (ls_app st ++ lib_held st) /\ NoDup (open_fds st) /\
  (ls_msgs st = [] -> Permutation (open_fds st) (ls_app st)).
Proof.
  intros st. destruct (lreach_inv evs) as [A B C D E F G H]. fold st in A, B, C, D, E, F, G, H.
  rewrite app_nil_r in D. splits; auto.
  intros Hnil. rewrite D. unfold lib_held. rewrite Hnil. simpl. rewrite app_nil_r. reflexivity.
Qed.

(* the library closes only what it duplicated itself and still owns: never a descriptor of the application *)
Theorem api_closes_only_own evs f :
  let st := lreach evs in
  In f (ls_closed st) -> In f (ls_dups st) /\ ~ In f (ls_given st) /\ ~ In f (ls_app st) /\ ~ In f (open_fds st).
Proof.
  intros st Hc. destruct (api_conservation evs) as [P N]. fold st in P, N.
  destruct (lreach_inv evs) as [A B C D E F G H]. fold st in A, B, C, D, E, F, G, H.
  assert (Hd : In f (ls_dups st)) by (rewrite P; apply in_or_app; left; auto).
  assert (Hg : ~ In f (ls_given st)).
  { intros Hg. apply (NoDup_app_disjoint _ _ f N Hc). apply in_or_app. right; auto. }
  assert (Ha : ~ In f (ls_app st)) by (intros Ha; apply Hg; apply G; auto).
  splits; auto.
  intros Ho. rewrite D, app_nil_r in Ho. apply in_app_or in Ho. destruct Ho as [Ho|Ho]; [auto|].
  apply (NoDup_app_disjoint _ _ f N Hc). apply in_or_app. left; auto.
Qed.

(* the descriptors of a message denote, in order, the open files they were duplicated from *)
Theorem api_identity evs m :
  let st := lreach evs in In m (ls_msgs st) -> files_of st (lm_fds m) = map Some (lm_src m).
Proof. intros st Hm. apply (lx_src _ _ (lreach_inv evs)). exact Hm. Qed.

(* reading a descriptor out hands the application a new descriptor for the same open file *)
Theorem api_get_same_file st h idx st' g :
  LInv st -> lstep st (LGet h idx true) = (st', RFd (Some g)) ->
  exists m f, find_msg (ls_msgs st) h = Some m /\ nth_error (lm_fds m) (N.to_nat idx) = Some f /\
              file_of (ls_open st') g = file_of (ls_open st) f /\ file_of (ls_open st) f <> None /\
              In g (ls_app st') /\ ~ In g (open_fds st).
Proof.
  intros I. unfold lstep.
  destruct (find_msg (ls_msgs st) h) as [m|] eqn:Ef; [|intros H; inversion H].
  destruct (nth_error (lm_fds m) (N.to_nat idx)) as [f|] eqn:En; [|intros H; inversion H].
  destruct (lib_dup st f true) as [st1 [g'|]] eqn:Ed; intros H; inversion H; subst.
  destruct (lib_dup_some _ _ _ _ _ _ I Ed) as (I1 & Hg & _ & Ha & _ & Hfile & Hsome & _).
  exists m, f. splits; auto.
  - simpl. apply in_or_app. right. left; auto.
  - subst g. intros Hin. apply (lx_lt _ _ I) in Hin. lia.
Qed.

(* a copy holds new descriptors for the same open files, in the same order *)
Theorem api_copy_same_files st h h' st' :
  LInv st -> lstep st (LCopy h h' None) = (st', RBool true) ->
  exists m m', find_msg (ls_msgs st) h = Some m /\ In m' (ls_msgs st') /\ lm_h m' = h' /\
               lm_src m' = lm_src m /\ files_of st' (lm_fds m') = files_of st (lm_fds m) /\
               (forall f, In f (lm_fds m') -> ~ In f (open_fds st)).
Proof.
  intros I. unfold lstep.
  destruct (find_msg (ls_msgs st) h) as [m|] eqn:Ef; [|intros H; inversion H].
  destruct (find_msg (ls_msgs st) h') eqn:Ef'; [intros H; inversion H|].
  destruct (find_msg_split _ _ _ Ef) as (l1 & l2 & Hms & Hid & Hn).
  assert (Hmin : In m (ls_msgs st)) by (rewrite Hms; apply in_or_app; right; left; auto).
  destruct (dup_list st (lm_fds m) 0 None) as [[st1 made] all] eqn:Ed.
  destruct (dup_list_inv _ _ _ _ _ _ _ _ I (msg_fds_open _ _ _ I Hmin) Ed) as (I1 & Hm1 & Ha & Hgv & Hf & Hall & Hold & _).
  destruct all; intros H; inversion H; subst. clear H.
  exists m, (mkLM h' 1 made (lm_src m)). simpl. splits; auto.
  - apply in_or_app. right. left; auto.
  - unfold files_of in *. simpl. rewrite Hf, (Hall eq_refl), firstn_all. reflexivity.
  - intros f Hf0 Hin. simpl in I1.
    assert (Hnd : NoDup (open_fds st1)) by apply (lx_nodup _ _ I1).
    pose proof (lx_open _ _ I1) as Hp. unfold lib_held in Hp. rewrite Ha, Hm1 in Hp. fold (lib_held st) in Hp.
    assert (Hnd2 : NoDup (ls_app st ++ lib_held st ++ made)) by (eapply Permutation_NoDup; [exact Hp|exact Hnd]).
    pose proof (lx_open _ _ I) as Hp0. rewrite app_nil_r in Hp0. rewrite Hp0 in Hin.
    rewrite app_assoc in Hnd2. apply (NoDup_app_disjoint _ _ f Hnd2 Hin Hf0).
Qed.
