(* The byte-level header editor (Wire/HeaderBytes.v) refines the abstract editor
   (Wire/HeaderEdit.v): on the header bytes of the specification encoding of an abstract
   message, with ANY cache state that is consistent with those bytes, every edit produces
   exactly the header bytes of the specification encoding of the edited abstract message,
   and a consistent cache.  Unbounded: all field lists (known and unknown fields, any
   order, unknown fields of any type), both byte orders, all values.  See the end of the
   file for the statements. *)
From DV Require Import Lib.Base Gen.Tables Wire.Body Wire.Message Wire.Utf8 Wire.Names Wire.Reader Spec.Codec Spec.NamesSpec Spec.Utf8Spec Wire.HeaderEdit
  Wire.HeaderBytes
  Proofs.CodecBasics Proofs.CodecWf Proofs.CodecRoundtrip Proofs.BodyCursor Proofs.BodyComplete Proofs.BodyLocal
  Proofs.NamesProofs Proofs.Utf8Proofs Proofs.CodecDecEq Proofs.SigRoundtrip Proofs.SigAutomaton Proofs.BodySound Proofs.WireClean
  Proofs.CodecMessage Proofs.LoaderProofs Proofs.LoaderComplete Proofs.WireClean2 Proofs.ReaderProofs Proofs.EditProofs.
From Coq Require Import ZArith ZifyBool ZifyN ZifyNat Arith.
Local Open Scope N_scope.
Ltac Zify.zify_post_hook ::= Z.div_mod_to_equations.

(* ================= A. the encoding of a value depends on its position only modulo 8 ========== *)
Definition al_ok (a : N) : Prop := a = 1 \/ a = 2 \/ a = 4 \/ a = 8.

Lemma pad_cong p p' a : al_ok a -> p mod 8 = p' mod 8 -> pad_amount p a = pad_amount p' a.
Proof. intros [-> | [-> | [-> | ->]]] H; unfold pad_amount; lia. Qed.

Lemma add_cong p p' k : p mod 8 = p' mod 8 -> (p + k) mod 8 = (p' + k) mod 8.
Proof. intros H. lia. Qed.

Lemma spec_align_ok t : al_ok (spec_align t).
Proof.
  unfold al_ok. destruct t as [c| |t'|ts|k v]; cbn [spec_align]; try lia.
  destruct (fixed_size c) as [sz|] eqn:E.
  - destruct (fixed_width_size c sz E) as [_ H]. exact H.
  - destruct (c =? 103); lia.
Qed.

Lemma encs_cong_F le vs : Forall (fun v => forall p p', p mod 8 = p' mod 8 -> enc le v p = enc le v p') vs ->
  forall p p', p mod 8 = p' mod 8 -> encs le vs p = encs le vs p'.
Proof.
  induction 1 as [|x r Hx Hr IH]; intros p p' H; [reflexivity|].
  cbn [encs]. rewrite (Hx p p' H). f_equal. apply IH. apply add_cong. exact H.
Qed.

Lemma enc_cong le : forall v p p', p mod 8 = p' mod 8 -> enc le v p = enc le v p'.
Proof.
  induction v as [c n|c s|et vs IH|fs IH|k x IHk IHx|t x IHx] using val_ind'; intros p p' H.
  - rewrite !enc_num. destruct (fixed_size c) as [sz|] eqn:E; [|reflexivity].
    destruct (fixed_width_size c sz E) as [_ A]. rewrite (pad_cong p p' sz A H). reflexivity.
  - rewrite !enc_str. destruct (c =? 103); [reflexivity|]. rewrite (pad_cong p p' 4 ltac:(unfold al_ok; lia) H). reflexivity.
  - rewrite !enc_arr. cbv zeta. rewrite (pad_cong p p' 4 ltac:(unfold al_ok; lia) H).
    assert (H1 : (p + pad_amount p' 4 + 4) mod 8 = (p' + pad_amount p' 4 + 4) mod 8) by lia.
    rewrite (pad_cong _ _ _ (spec_align_ok et) H1).
    rewrite (encs_cong_F le vs IH (p + pad_amount p' 4 + 4 + pad_amount (p' + pad_amount p' 4 + 4) (spec_align et))
                                    (p' + pad_amount p' 4 + 4 + pad_amount (p' + pad_amount p' 4 + 4) (spec_align et))) by lia.
    reflexivity.
  - rewrite !enc_struct. rewrite (pad_cong p p' 8 ltac:(unfold al_ok; lia) H).
    rewrite (encs_cong_F le fs IH (p + pad_amount p' 8) (p' + pad_amount p' 8)) by lia. reflexivity.
  - rewrite !enc_dict. rewrite (pad_cong p p' 8 ltac:(unfold al_ok; lia) H).
    rewrite (encs_cong_F le [k; x] (Forall_cons k IHk (Forall_cons x IHx (Forall_nil _))) (p + pad_amount p' 8) (p' + pad_amount p' 8)) by lia.
    reflexivity.
  - rewrite !enc_var. cbv zeta. f_equal. apply IHx. apply add_cong. exact H.
Qed.

Lemma encs_cong le vs p p' : p mod 8 = p' mod 8 -> encs le vs p = encs le vs p'.
Proof. apply encs_cong_F. apply Forall_forall. intros v _. apply enc_cong. Qed.

Lemma rwfs_cong_F le vs : Forall (fun v => forall p p', p mod 8 = p' mod 8 -> rwf le p v = rwf le p' v) vs ->
  forall p p', p mod 8 = p' mod 8 -> rwfs le vs p = rwfs le vs p'.
Proof.
  induction 1 as [|x r Hx Hr IH]; intros p p' H; [reflexivity|].
  cbn [rwfs]. rewrite (Hx p p' H). f_equal. rewrite (enc_cong le x p p' H). apply IH. apply add_cong. exact H.
Qed.

Lemma rwf_cong le : forall v p p', p mod 8 = p' mod 8 -> rwf le p v = rwf le p' v.
Proof.
  induction v as [c n|c s|et vs IH|fs IH|k x IHk IHx|t x IHx] using val_ind'; intros p p' H.
  - reflexivity.
  - reflexivity.
  - rewrite !rwf_arr. unfold arr_start. rewrite (pad_cong p p' 4 ltac:(unfold al_ok; lia) H).
    assert (H1 : (p + pad_amount p' 4 + 4) mod 8 = (p' + pad_amount p' 4 + 4) mod 8) by lia.
    rewrite (pad_cong _ _ _ (spec_align_ok et) H1).
    set (a := p + pad_amount p' 4 + 4 + pad_amount (p' + pad_amount p' 4 + 4) (spec_align et)).
    set (b := p' + pad_amount p' 4 + 4 + pad_amount (p' + pad_amount p' 4 + 4) (spec_align et)).
    assert (Hab : a mod 8 = b mod 8) by (subst a b; lia).
    rewrite (encs_cong le vs a b Hab). rewrite (rwfs_cong_F le vs IH a b Hab). reflexivity.
  - rewrite !rwf_struct. rewrite (pad_cong p p' 8 ltac:(unfold al_ok; lia) H).
    rewrite (rwfs_cong_F le fs IH (p + pad_amount p' 8) (p' + pad_amount p' 8)) by lia. reflexivity.
  - rewrite !rwf_dict. rewrite (pad_cong p p' 8 ltac:(unfold al_ok; lia) H).
    rewrite (rwfs_cong_F le [k; x] (Forall_cons k IHk (Forall_cons x IHx (Forall_nil _))) (p + pad_amount p' 8) (p' + pad_amount p' 8)) by lia.
    reflexivity.
  - cbn [rwf]. f_equal. apply IHx. apply add_cong. exact H.
Qed.

Lemma rwfs_cong le vs p p' : p mod 8 = p' mod 8 -> rwfs le vs p = rwfs le vs p'.
Proof. apply rwfs_cong_F. apply Forall_forall. intros v _. apply rwf_cong. Qed.

Lemma encs_app le : forall a b p, encs le (a ++ b) p = encs le a p ++ encs le b (p + nlen (encs le a p)).
Proof.
  induction a as [|x a IH]; intros b p.
  - cbn [app encs]. rewrite nlen_nil, N.add_0_r. reflexivity.
  - cbn [app encs]. rewrite IH, <- app_assoc. do 2 f_equal. rewrite nlen_app. f_equal. lia.
Qed.

Lemma rwfs_app le : forall a b p, rwfs le (a ++ b) p = rwfs le a p && rwfs le b (p + nlen (encs le a p)).
Proof.
  induction a as [|x a IH]; intros b p.
  - cbn [app encs rwfs]. rewrite nlen_nil, N.add_0_r. reflexivity.
  - cbn [app encs rwfs]. rewrite IH, <- andb_assoc. do 2 f_equal. rewrite nlen_app. f_equal. lia.
Qed.

(* ================= B. the header bytes of an abstract message ================================== *)
Definition elems (le : bool) (fs : list sfield) : list val := map (enc_field le) fs.
Definition payload (le : bool) (fs : list sfield) : bytes := encs le (elems le fs) 16.
Definition hdr_fixed (le : bool) (mt fl blen serial : N) : bytes :=
  [if le then 108 else 66; mt; fl; 1] ++ bytes_of le 4 blen ++ bytes_of le 4 serial.
Definition hdr_unpadded (le : bool) (mt fl blen serial : N) (fs : list sfield) : bytes :=
  hdr_fixed le mt fl blen serial ++ bytes_of le 4 (nlen (payload le fs)) ++ payload le fs.
Definition hdr_pad (le : bool) (fs : list sfield) : N := pad_amount (16 + nlen (payload le fs)) 8.
Definition hdr_bytes (le : bool) (mt fl blen serial : N) (fs : list sfield) : bytes :=
  hdr_unpadded le mt fl blen serial fs ++ zeros (hdr_pad le fs).

Definition msg_hdr_bytes (m : smsg) : bytes :=
  hdr_bytes (s_le m) (s_type m) (s_flags m) (nlen (encs (s_le m) (s_body m) 0)) (s_serial m) (s_fields m).

Lemma enc_fields_val le fs : enc le (fields_val le fs) 12 = bytes_of le 4 (nlen (payload le fs)) ++ payload le fs.
Proof.
  unfold fields_val. rewrite enc_arr. cbv zeta.
  change (pad_amount 12 4) with 0. change (12 + 0 + 4) with 16. change (spec_align (TStruct [TBasic 121; TVariant])) with 8.
  change (pad_amount 16 8) with 0. change (16 + 0) with 16. cbn [zeros repeat N.to_nat app]. reflexivity.
Qed.

Lemma nlen_hdr_fixed le mt fl blen serial : nlen (hdr_fixed le mt fl blen serial) = 12.
Proof. unfold hdr_fixed. rewrite !nlen_app, !(bytes_of_length le 4). reflexivity. Qed.

Lemma nlen_hdr_unpadded le mt fl blen serial fs : nlen (hdr_unpadded le mt fl blen serial fs) = 16 + nlen (payload le fs).
Proof. unfold hdr_unpadded. rewrite !nlen_app, nlen_hdr_fixed, (bytes_of_length le 4). lia. Qed.

(* the specification encoding = header bytes ++ body bytes *)
Theorem spec_encode_split m : spec_encode_message m = msg_hdr_bytes m ++ encs (s_le m) (s_body m) 0.
Proof.
  unfold spec_encode_message, msg_hdr_bytes, hdr_bytes. rewrite enc_seq_encs. fold (fields_val (s_le m) (s_fields m)).
  rewrite enc_fields_val. fold (hdr_fixed (s_le m) (s_type m) (s_flags m) (nlen (encs (s_le m) (s_body m) 0)) (s_serial m)).
  fold (hdr_unpadded (s_le m) (s_type m) (s_flags m) (nlen (encs (s_le m) (s_body m) 0)) (s_serial m) (s_fields m)).
  rewrite nlen_hdr_unpadded. unfold hdr_pad. rewrite <- app_assoc. reflexivity.
Qed.

Definition areader (tp p : N) : reader := mkR K_ARRAY false false tp p 16 0.

Lemma recurse_root d : recurse HSIG d root_reader = inl (areader 7 16).
Proof. reflexivity. Qed.

(* _dbus_type_reader_next on an array reader only moves value_pos (and, at the end, type_pos) *)
Lemma array_next_frame le sigz d drain r t r1 : r_klass r = K_ARRAY -> array_next le sigz d drain r t = inl r1 ->
  exists tp, r1 = mkR K_ARRAY (r_finished r) (r_tval r) tp (r_vpos r1) (r_start r) (r_lenoff r).
Proof.
  intros K H. unfold array_next in H.
  repeat match type of H with
         | match ?x with _ => _ end = _ => destruct x eqn:?; try discriminate
         | (let '(_, _) := ?x in _) = _ => destruct x eqn:?
         end.
  all: repeat match goal with
         | E : match ?x with _ => _ end = _ |- _ => destruct x eqn:?; try discriminate
         | E : (let '(_, _) := ?x in _) = _ |- _ => destruct x eqn:?
         end.
  all: repeat match goal with E : inl _ = inl _ |- _ => injection E as E; try subst end.
  all: eexists; destruct r; cbn in *; subst; reflexivity.
Qed.

Lemma rnext_array_frame le sigz d n r r' b : r_klass r = K_ARRAY -> rnext le sigz d n r = inl (r', b) ->
  exists tp, r' = mkR K_ARRAY (r_finished r) (r_tval r) tp (r_vpos r') (r_start r) (r_lenoff r).
Proof.
  intros K H. destruct n as [|n]; [discriminate|]. cbn [rnext] in H.
  destruct (current_type le sigz d r) as [t|]; [|discriminate].
  destruct (t =? T_INVALID).
  { injection H as <- <-. exists (r_tpos r). destruct r; cbn in *. subst. reflexivity. }
  rewrite K in H.
  match type of H with match ?x with _ => _ end = _ => destruct x as [r1|] eqn:E; [|discriminate] end.
  destruct (current_type le sigz d r1); [|discriminate]. injection H as <- <-.
  exact (array_next_frame _ _ _ _ _ _ _ K E).
Qed.

Definition val_pos (f : sfield) (p : N) : N :=
  let p0 := p + pad_amount p 8 in
  let q := p0 + 1 + (nlen (print_ty (sf_ty f)) + 2) in
  q + pad_amount q (spec_align (sf_ty f)).

Definition vreader (f : sfield) (p : N) : reader :=
  mkR K_VARIANT false true (p + pad_amount p 8 + 2) (val_pos f p) 0 0.

Lemma elem_facts le f p : rwf le p (enc_field le f) = true ->
  sf_code f < 256 /\ ty_of_val (sf_val f) = sf_ty f /\ ty_okb (sf_ty f) = true /\ nlen (print_ty (sf_ty f)) < 256 /\
  rwf le (val_pos f p) (sf_val f) = true /\
  enc le (enc_field le f) p =
    zeros (pad_amount p 8) ++ sf_code f :: nlen (print_ty (sf_ty f)) :: print_ty (sf_ty f) ++ 0 ::
    zeros (pad_amount (p + pad_amount p 8 + 1 + (nlen (print_ty (sf_ty f)) + 2)) (spec_align (sf_ty f))) ++ enc le (sf_val f) (val_pos f p).
Proof.
  destruct f as [code t x]. unfold enc_field, val_pos. cbn [sf_code sf_ty sf_val]. intros W.
  rewrite rwf_struct in W. cbn [isnil negb andb rwfs] in W. rewrite enc_byte, nlen1 in W.
  apply andb_true_iff in W. destruct W as [Wc W]. rewrite andb_true_r in W.
  cbn [rwf fixed_size N.eqb Pos.eqb] in Wc. change (256 ^ 1) with 256 in Wc.
  cbn [rwf] in W. apply andb_true_iff in W. destruct W as [W Wx]. apply andb_true_iff in W. destruct W as [W Wl].
  apply andb_true_iff in W. destruct W as [Wt Wok]. apply ty_eqb_eq in Wt.
  set (p0 := p + pad_amount p 8) in *. set (q := p0 + 1 + (nlen (print_ty t) + 2)) in *.
  split; [lia|]. split; [exact Wt|]. split; [exact Wok|]. split; [lia|].
  split.
  - rewrite <- Wt. rewrite rwf_split. exact Wx.
  - rewrite enc_struct. fold p0. cbn [encs]. rewrite enc_byte, nlen1. rewrite N.mod_small by lia.
    rewrite enc_var. cbv zeta. rewrite app_nil_r. cbn [app]. rewrite <- app_assoc. cbn [app].
    replace (p0 + 1 + nlen (nlen (print_ty t) :: print_ty t ++ [0])) with q by (subst q; rewrite nlen_cons, nlen_app; change (nlen [0]) with 1; lia).
    rewrite (rwf_enc_split le x q Wx). rewrite Wt. reflexivity.
Qed.

Lemma hsig_struct_at tp tl : bytes_from HSIG tp = 40 :: tl -> tp = 7.
Proof.
  unfold bytes_from. intros H.
  assert (E : N.to_nat tp = 7%nat).
  { destruct (N.to_nat tp) as [|[|[|[|[|[|[|[|[|[|[|[|[|k]]]]]]]]]]]]]; cbn in H; try discriminate; reflexivity. }
  lia.
Qed.

Section Walk.
  Variables (le : bool) (d : bytes).
  Local Notation LVL := (lvl_ok le HSIG d).

  Lemma enc_in_data p x rest : bytes_from d p = x ++ rest -> (length x <= length d)%nat.
  Proof.
    intros H. assert (L : (length (bytes_from d p) <= length d)%nat) by (unfold bytes_from; rewrite skipn_length; lia).
    rewrite H, app_length in L. lia.
  Qed.

  (* one element of the fields array under the array reader: everything the header code does with it *)
  Lemma elem_step tp p f rest : LVL (areader tp p) (elems le (f :: rest)) ->
    tp = 7 /\
    rwf le p (enc_field le f) = true /\
    (exists tl, bytes_from d p = enc le (enc_field le f) p ++ tl) /\
    current_type le HSIG d (areader tp p) = inl DBUS_TYPE_STRUCT /\
    (exists sub, recurse HSIG d (areader tp p) = inl sub /\ r_vpos sub = p + pad_amount p 8 /\
       read_code le d sub = inl (sf_code f) /\
       variant_of le d sub = inl (vreader f p)) /\
    current_type le HSIG d (vreader f p) = inl (code_of (sf_ty f)) /\
    (exists tl, bytes_from d (val_pos f p) = enc le (sf_val f) (val_pos f p) ++ tl) /\
    (exists tp', rnext le HSIG d (hfuel d) (areader tp p) = inl (areader tp' (p + nlen (enc le (enc_field le f) p)), negb (isnil rest)) /\
                 LVL (areader tp' (p + nlen (enc le (enc_field le f) p))) (elems le rest)).
  Proof.
    intros L. cbn [elems map] in L. fold (elems le rest) in L.
    pose proof (lvl_at_val le HSIG d _ _ _ L) as A.
    pose proof A as ([tl0 D0] & [tlt T] & W). cbn [r_vpos areader] in D0, W.
    destruct (elem_facts le f p W) as (Hc & Hty & Hok & Hl & Wx & Eshape).
    assert (Htp : tp = 7).
    { unfold tstr in T. cbn [r_tval r_tpos areader ty_of_val enc_field print_ty] in T. exact (hsig_struct_at tp _ T). }
    split; [exact Htp|]. split; [exact W|]. split; [eexists; exact D0|].
    split. { rewrite (ct_cons le HSIG d _ _ _ L). reflexivity. }
    (* the struct *)
    destruct (R_struct le HSIG d _ _ A) as (sub & Hr & Ls & Ks & Vs & Ts). cbn [r_vpos areader] in Vs.
    pose proof (lvl_at_val le HSIG d _ _ _ Ls) as As. pose proof As as ([tl1 D1] & _ & W1).
    assert (Hcode : read_code le d sub = inl (sf_code f)).
    { unfold read_code. rewrite (ct_cons le HSIG d _ _ _ Ls). cbn [ty_of_val code_of]. change (121 =? DBUS_TYPE_BYTE) with true. cbn [negb].
      unfold read_basic. rewrite (ct_cons le HSIG d _ _ _ Ls). cbn [ty_of_val code_of].
      rewrite (read_basic_num le d 121 1 (sf_code f) _ tl1 eq_refl ltac:(change (256 ^ 1) with 256; lia) D1). reflexivity. }
    (* next inside the struct: to the variant *)
    destruct (next_all le HSIG d (VNum 121 (sf_code f)) (hfuel d) sub [VVar (sf_ty f) (sf_val f)] ltac:(cbn [height]; unfold hfuel; lia) Ls)
      as (sub' & Hn & Ls' & Vs' & Ks' & _).
    pose proof (lvl_at_val le HSIG d _ _ _ Ls') as Av. pose proof Av as ([tl2 D2] & [tlv Tv] & Wv).
    pose proof (rwf_tygood le _ _ Wv) as Gv.
    pose proof (first_type_print _ _ _ _ Gv Tv) as Fv. cbn [ty_of_val code_of] in Fv.
    rewrite enc_byte, nlen1 in Vs'. rewrite Vs in Vs'.
    set (p0 := p + pad_amount p 8) in *.
    set (sg := print_ty (sf_ty f)) in *.
    set (q := p0 + 1 + (nlen sg + 2)) in *.
    pose proof (ty_okb_tygood _ Hok) as Gt. destruct (type_align_code _ Gt) as [Al Sal].
    assert (Hvar : recurse HSIG d sub' = inl (vreader f p)).
    { rewrite (recurse_variant_eq HSIG d sub' Fv). rewrite Vs'.
      rewrite enc_var in D2. cbv zeta in D2. rewrite Vs' in D2. fold sg in D2.
      cbn [app] in D2. rewrite <- !app_assoc in D2. cbn [app] in D2.
      rewrite (get_byte_at _ _ _ _ D2).
      assert (D3 : bytes_from d (p0 + 1 + 1) = sg ++ 0 :: enc le (sf_val f) (p0 + 1 + nlen (nlen sg :: sg ++ [0])) ++ tl2).
      { change (nlen sg :: sg ++ 0 :: enc le (sf_val f) (p0 + 1 + nlen (nlen sg :: sg ++ [0])) ++ tl2)
          with ([nlen sg] ++ sg ++ 0 :: enc le (sf_val f) (p0 + 1 + nlen (nlen sg :: sg ++ [0])) ++ tl2) in D2.
        exact (bf_step _ _ _ _ D2). }
      rewrite (first_type_print _ _ _ _ Gt D3), Al.
      replace (p0 + 1 + 1 + nlen sg + 1) with q by (subst q; lia). rewrite (align_up_pad _ _ Sal).
      unfold vreader, val_pos. fold p0 sg q. f_equal. f_equal; lia. }
    split.
    { exists sub. split; [exact Hr|]. split; [exact Vs|]. split; [exact Hcode|].
      unfold variant_of. rewrite Hn. cbn [fst]. rewrite (ct_cons le HSIG d _ _ _ Ls'). cbn [ty_of_val code_of].
      change (DBUS_TYPE_VARIANT =? DBUS_TYPE_VARIANT) with true. cbn [negb]. exact Hvar. }
    (* inside the variant *)
    destruct (R_variant le HSIG d _ _ _ Av) as (var & Hr2 & Lv & Kv & _). rewrite Hvar in Hr2. injection Hr2 as <-.
    split. { rewrite (ct_cons le HSIG d _ _ _ Lv). rewrite Hty. reflexivity. }
    split. { destruct Lv as ([tl3 D3] & _). cbn [r_vpos vreader encs] in D3. rewrite app_nil_r in D3. eexists. exact D3. }
    (* next on the array level *)
    assert (Hh : (height (enc_field le f) < hfuel d)%nat).
    { pose proof (height_bound le _ _ W) as B. pose proof (enc_in_data _ _ _ D0) as B2.
      cbn [ty_of_val enc_field print_ty length flat_map map app] in B. unfold hfuel. cbn [length app] in B. lia. }
    destruct (next_all le HSIG d (enc_field le f) (hfuel d) (areader tp p) (elems le rest) Hh L) as (r' & Hn' & L' & V' & K' & _).
    destruct (rnext_array_frame le HSIG d (hfuel d) (areader tp p) _ _ eq_refl Hn') as [tp' E']. cbn [r_finished r_tval r_start r_lenoff areader] in E'.
    cbn [r_vpos areader] in V'. rewrite V' in E'. fold (areader tp' (p + nlen (enc le (enc_field le f) p))) in E'. subst r'.
    exists tp'. split; [|exact L']. rewrite Hn'. f_equal. f_equal. unfold elems. destruct rest; reflexivity.
  Qed.
End Walk.

(* ================= D. the data of a header and the start of every walk ========================= *)
(* [A]: the 12 fixed bytes; [T]: whatever follows the fields array (final padding, reserved padding) *)
Definition hdata (le : bool) (A : bytes) (fs : list sfield) (T : bytes) : bytes :=
  A ++ bytes_of le 4 (nlen (payload le fs)) ++ payload le fs ++ T.

Definition fixed_ok (le : bool) (A : bytes) : Prop := nlen A = 12 /\ exists A', A = (if le then 108 else 66) :: A'.

(* what the reader needs of the field list *)
Definition hok (le : bool) (fs : list sfield) : Prop := rwf le 12 (fields_val le fs) = true.

Lemma hok_rwfs le fs : hok le fs -> rwfs le (elems le fs) 16 = true /\ nlen (payload le fs) < 4294967296.
Proof.
  unfold hok, fields_val. rewrite rwf_arr. intros H. apply andb_true_iff in H. destruct H as [H Hs].
  apply andb_true_iff in H. destruct H as [_ Hl]. split; [exact Hs|]. unfold payload, elems. change (arr_start 12 (TStruct [TBasic 121; TVariant])) with 16 in Hl. lia.
Qed.

Lemma hok_of_rwfs le fs : rwfs le (elems le fs) 16 = true -> nlen (payload le fs) < 4294967296 -> hok le fs.
Proof.
  intros Hs Hl. unfold hok, fields_val. rewrite rwf_arr. change (arr_start 12 (TStruct [TBasic 121; TVariant])) with 16.
  fold (elems le fs). rewrite Hs, andb_true_r. apply andb_true_iff. split; [|unfold payload in Hl; lia].
  apply andb_true_iff. split; [reflexivity|]. clear. induction fs as [|f r IH]; [reflexivity|]. cbn [elems map forallb]. exact IH.
Qed.

Lemma bytes_from_app12 (A X : bytes) : nlen A = 12 -> bytes_from (A ++ X) 12 = X.
Proof. intros H. unfold bytes_from. rewrite <- H. apply skipn_nlen_app. Qed.

Lemma hb_le_hdata le A fs T : fixed_ok le A -> hb_le (hdata le A fs T) = inl le.
Proof. intros [_ [A' ->]]. unfold hb_le, hdata. cbn. destruct le; reflexivity. Qed.

Lemma hdata_root le A fs T : fixed_ok le A -> hok le fs -> lvl_ok le HSIG (hdata le A fs T) (areader 7 16) (elems le fs).
Proof.
  intros [H12 _] W.
  assert (A0 : at_val le HSIG (hdata le A fs T) root_reader (fields_val le fs)).
  { split; [|split; [|exact W]].
    - exists T. unfold root_reader, reader_init. cbn [r_vpos]. unfold hdata, FIELDS_ARRAY_LENGTH_OFFSET.
      rewrite (bytes_from_app12 A _ H12), enc_fields_val, <- app_assoc. reflexivity.
    - exists [0]. reflexivity. }
  destruct (R_array le HSIG _ _ _ _ A0) as (sub & Hr & L & _). rewrite recurse_root in Hr. injection Hr as <-. exact L.
Qed.

Lemma lvl_nil_ct le d tp p : lvl_ok le HSIG d (areader tp p) [] -> current_type le HSIG d (areader tp p) = inl T_INVALID.
Proof. apply ct_nil. Qed.

Lemma lvl_fuel le d r vs : lvl_ok le HSIG d r vs -> (length vs < S (length d))%nat.
Proof. intros L. pose proof (lvl_len le HSIG d r vs L). lia. Qed.

(* ---- the position of the element behind a prefix ---------------------------------------------- *)
Definition end_of (le : bool) (pre : list sfield) (p : N) : N := p + nlen (encs le (elems le pre) p).

Lemma end_of_cons le f pre p : end_of le (f :: pre) p = end_of le pre (p + nlen (enc le (enc_field le f) p)).
Proof. unfold end_of. cbn [elems map encs]. rewrite nlen_app. fold (elems le pre). lia. Qed.

Lemma end_of_nil le p : end_of le [] p = p.
Proof. unfold end_of. cbn. lia. Qed.

Lemma elems_app le a b : elems le (a ++ b) = elems le a ++ elems le b.
Proof. unfold elems. apply map_app. Qed.

(* walking over a prefix *)
Lemma walk_prefix le d : forall pre rest tp p, lvl_ok le HSIG d (areader tp p) (elems le (pre ++ rest)) ->
  exists tp', lvl_ok le HSIG d (areader tp' (end_of le pre p)) (elems le rest) /\ (pre = [] -> tp' = tp).
Proof.
  induction pre as [|f pre IH]; intros rest tp p L.
  - exists tp. rewrite end_of_nil. split; [exact L | reflexivity].
  - cbn [app] in L. destruct (elem_step le d tp p f (pre ++ rest) L) as (_ & _ & _ & _ & _ & _ & _ & (tp' & _ & L')).
    destruct (IH rest tp' _ L') as (tp'' & L'' & _). exists tp''. rewrite end_of_cons. split; [exact L''|discriminate].
Qed.

(* ================= E. _dbus_header_cache_revalidate ============================================= *)
Fixpoint cache_fold (le : bool) (fs : list sfield) (p : N) (c : cache) : cache :=
  match fs with
  | [] => c
  | f :: r => cache_fold le r (p + nlen (enc le (enc_field le f) p))
                         (if DBUS_HEADER_FIELD_LAST <? sf_code f then c else cache_set c (sf_code f) (CPos (val_pos f p)))
  end.

Lemma reval_loop_ok le d : forall rest n tp p c, (length rest < n)%nat -> lvl_ok le HSIG d (areader tp p) (elems le rest) ->
  reval_loop n le d (areader tp p) c = inl (cache_fold le rest p c).
Proof.
  induction rest as [|f rest IH]; intros n tp p c Hn L; (destruct n as [|n]; [cbn [length] in Hn; lia|]); cbn [reval_loop].
  - rewrite (lvl_nil_ct le d tp p L). reflexivity.
  - destruct (elem_step le d tp p f rest L) as (_ & _ & _ & Hct & (sub & Hr & _ & Hcode & Hvar) & _ & _ & (tp' & Hnx & L')).
    rewrite Hct. change (DBUS_TYPE_STRUCT =? T_INVALID) with false. cbv iota. rewrite Hr, Hcode.
    cbn [cache_fold]. destruct (DBUS_HEADER_FIELD_LAST <? sf_code f).
    + rewrite Hnx. cbn [fst]. apply IH; [cbn [length] in Hn; lia | exact L'].
    + rewrite Hvar. cbn [r_vpos vreader]. rewrite Hnx. cbn [fst]. apply IH; [cbn [length] in Hn; lia | exact L'].
Qed.

Definition cache_of (le : bool) (fs : list sfield) : cache := cache_fold le fs 16 (cache_all CNonexistent).

Theorem revalidate_ok le A fs T : fixed_ok le A -> hok le fs -> cache_revalidate (hdata le A fs T) = inl (cache_of le fs).
Proof.
  intros HA W. unfold cache_revalidate. rewrite (hb_le_hdata le A fs T HA), recurse_root.
  pose proof (hdata_root le A fs T HA W) as L. apply reval_loop_ok; [|exact L]. pose proof (lvl_fuel _ _ _ _ L) as F. unfold elems in F. rewrite map_length in F. exact F.
Qed.

(* ---- what the revalidated cache says ----------------------------------------------------------- *)
Lemma cache_set_nat_length c i e : length (cache_set_nat c i e) = length c.
Proof. revert i. induction c as [|x c IH]; intros [|i]; cbn; auto. Qed.

Lemma cache_set_nat_same : forall c i e d0, (i < length c)%nat -> nth i (cache_set_nat c i e) d0 = e.
Proof. induction c as [|x c IH]; intros [|i] e d0 H; cbn in *; try lia; auto. apply IH. lia. Qed.

Lemma cache_set_nat_other : forall c i j e d0, i <> j -> nth j (cache_set_nat c i e) d0 = nth j c d0.
Proof. induction c as [|x c IH]; intros [|i] [|j] e d0 H; cbn in *; try congruence; auto. Qed.

Lemma cache_fold_length le : forall fs p c, length (cache_fold le fs p c) = length c.
Proof.
  induction fs as [|f r IH]; intros p c; [reflexivity|]. cbn [cache_fold]. rewrite IH.
  destruct (DBUS_HEADER_FIELD_LAST <? sf_code f); [reflexivity|]. apply cache_set_nat_length.
Qed.

Definition has_code (k : N) (fs : list sfield) : bool := existsb (fun f => sf_code f =? k) fs.

Lemma cache_fold_absent le k : forall fs p c, has_code k fs = false -> cache_get (cache_fold le fs p c) k = cache_get c k.
Proof.
  induction fs as [|f r IH]; intros p c H; [reflexivity|]. cbn [has_code existsb] in H. apply orb_false_iff in H. destruct H as [H1 H2].
  cbn [cache_fold]. rewrite IH by exact H2. destruct (DBUS_HEADER_FIELD_LAST <? sf_code f); [reflexivity|].
  unfold cache_get, cache_set. apply cache_set_nat_other. lia.
Qed.

Lemma cache_fold_present le k : forall pre f post p c, length c = 11%nat -> k <= 10 -> sf_code f = k -> has_code k post = false ->
  cache_get (cache_fold le (pre ++ f :: post) p c) k = CPos (val_pos f (end_of le pre p)).
Proof.
  induction pre as [|g pre IH]; intros f post p c Hc Hk Hf Hp.
  - cbn [app cache_fold]. rewrite end_of_nil. rewrite (cache_fold_absent le k post _ _ Hp).
    unfold DBUS_HEADER_FIELD_LAST. replace (10 <? sf_code f) with false by lia. rewrite Hf.
    unfold cache_get, cache_set. apply cache_set_nat_same. lia.
  - cbn [app cache_fold]. rewrite end_of_cons. apply IH; try assumption.
    destruct (DBUS_HEADER_FIELD_LAST <? sf_code g); [exact Hc|]. unfold cache_set. rewrite cache_set_nat_length. exact Hc.
Qed.

Lemma cache_of_length le fs : length (cache_of le fs) = 11%nat.
Proof. unfold cache_of. rewrite cache_fold_length. reflexivity. Qed.

Lemma cache_of_absent le fs k : k <= 10 -> has_code k fs = false -> cache_get (cache_of le fs) k = CNonexistent.
Proof.
  intros Hk H. unfold cache_of. rewrite (cache_fold_absent le k fs _ _ H). unfold cache_get, cache_all.
  apply nth_repeat_lt || (destruct (N.to_nat k) as [|[|[|[|[|[|[|[|[|[|[|n]]]]]]]]]]] eqn:E; try reflexivity; lia).
Qed.

(* ================= F. find_field_for_modification ============================================== *)
Lemma find_loop_found le d field : forall pre f post n tp p, (length (pre ++ f :: post) < n)%nat ->
  has_code field pre = false -> sf_code f = field ->
  lvl_ok le HSIG d (areader tp p) (elems le (pre ++ f :: post)) ->
  find_loop n le d field (areader tp p) = inl (true, areader 7 (end_of le pre p)) /\
  lvl_ok le HSIG d (areader 7 (end_of le pre p)) (elems le (f :: post)).
Proof.
  induction pre as [|g pre IH]; intros f post n tp p Hn Hpre Hf L; (destruct n as [|n]; [cbn [length] in Hn; lia|]); cbn [find_loop].
  - cbn [app] in L. destruct (elem_step le d tp p f post L) as (Htp & _ & _ & Hct & (sub & Hr & _ & Hcode & _) & _).
    rewrite Hct. change (DBUS_TYPE_STRUCT =? T_INVALID) with false. cbv iota. rewrite Hr, Hcode, Hf, N.eqb_refl.
    rewrite end_of_nil. subst tp. split; [reflexivity | exact L].
  - cbn [app] in L. cbn [has_code existsb] in Hpre. apply orb_false_iff in Hpre. destruct Hpre as [Hg Hpre].
    destruct (elem_step le d tp p g (pre ++ f :: post) L) as (_ & _ & _ & Hct & (sub & Hr & _ & Hcode & _) & _ & _ & (tp' & Hnx & L')).
    rewrite Hct. change (DBUS_TYPE_STRUCT =? T_INVALID) with false. cbv iota. rewrite Hr, Hcode, Hg, Hnx. cbn [fst].
    rewrite end_of_cons. apply IH; try assumption. cbn [app length] in Hn. lia.
Qed.

Lemma find_loop_none le d field : forall rest n tp p, (length rest < n)%nat -> has_code field rest = false ->
  lvl_ok le HSIG d (areader tp p) (elems le rest) ->
  exists r, find_loop n le d field (areader tp p) = inl (false, r).
Proof.
  induction rest as [|g rest IH]; intros n tp p Hn Hc L; (destruct n as [|n]; [cbn [length] in Hn; lia|]); cbn [find_loop].
  - rewrite (lvl_nil_ct le d tp p L). eexists. reflexivity.
  - cbn [has_code existsb] in Hc. apply orb_false_iff in Hc. destruct Hc as [Hg Hc].
    destruct (elem_step le d tp p g rest L) as (_ & _ & _ & Hct & (sub & Hr & _ & Hcode & _) & _ & _ & (tp' & Hnx & L')).
    rewrite Hct. change (DBUS_TYPE_STRUCT =? T_INVALID) with false. cbv iota. rewrite Hr, Hcode, Hg, Hnx. cbn [fst].
    apply (IH n tp' _ ltac:(cbn [length] in Hn; lia) Hc L').
Qed.

Lemma fs_fuel le d r fs : lvl_ok le HSIG d r (elems le fs) -> (length fs < S (length d))%nat.
Proof. intros L. pose proof (lvl_fuel _ _ _ _ L) as F. unfold elems in F. rewrite map_length in F. exact F. Qed.

Lemma find_found le A fs T field pre f post : fixed_ok le A -> hok le fs -> fs = pre ++ f :: post ->
  has_code field pre = false -> sf_code f = field ->
  find_field_for_modification le (hdata le A fs T) field = inl (true, areader 7 (end_of le pre 16), root_reader) /\
  lvl_ok le HSIG (hdata le A fs T) (areader 7 (end_of le pre 16)) (elems le (f :: post)).
Proof.
  intros HA W -> Hpre Hf. pose proof (hdata_root le A _ T HA W) as L.
  destruct (find_loop_found le _ field pre f post _ 7 16 (fs_fuel _ _ _ _ L) Hpre Hf L) as [E L'].
  unfold find_field_for_modification. rewrite recurse_root, E. split; [reflexivity | exact L'].
Qed.

Lemma find_none le A fs T field : fixed_ok le A -> hok le fs -> has_code field fs = false ->
  exists r, find_field_for_modification le (hdata le A fs T) field = inl (false, r, root_reader).
Proof.
  intros HA W Hc. pose proof (hdata_root le A _ T HA W) as L.
  destruct (find_loop_none le _ field fs _ 7 16 (fs_fuel _ _ _ _ L) Hc L) as [r E].
  exists r. unfold find_field_for_modification. rewrite recurse_root, E. reflexivity.
Qed.

(* ---- first occurrence of a code --------------------------------------------------------------- *)
Lemma split_first k : forall fs, has_code k fs = true ->
  exists pre f post, fs = pre ++ f :: post /\ sf_code f = k /\ has_code k pre = false.
Proof.
  induction fs as [|g fs IH]; intros H; [discriminate|]. cbn [has_code existsb] in H.
  destruct (sf_code g =? k) eqn:E.
  - exists [], g, fs. split; [reflexivity|]. split; [lia | reflexivity].
  - cbn [orb] in H. destruct (IH H) as (pre & f & post & -> & Hf & Hp). exists (g :: pre), f, post.
    split; [reflexivity|]. split; [exact Hf|]. cbn [has_code existsb]. rewrite E. exact Hp.
Qed.

Lemma has_code_app k a b : has_code k (a ++ b) = has_code k a || has_code k b.
Proof. unfold has_code. apply existsb_app. Qed.

Lemma get_field_first fs pre f post : fs = pre ++ f :: post -> has_code (sf_code f) pre = false -> get_field fs (sf_code f) = Some (sf_val f).
Proof.
  intros -> H. unfold get_field. induction pre as [|g pre IH]; cbn [app find].
  - rewrite N.eqb_refl. reflexivity.
  - cbn [has_code existsb] in H. apply orb_false_iff in H. destruct H as [H1 H2]. rewrite H1. exact (IH H2).
Qed.

Lemma get_field_none fs k : has_code k fs = false -> get_field fs k = None.
Proof.
  unfold get_field. induction fs as [|g fs IH]; intros H; [reflexivity|]. cbn [has_code existsb] in H.
  apply orb_false_iff in H. destruct H as [H1 H2]. cbn [find]. rewrite H1. exact (IH H2).
Qed.

(* ---- known fields: unique and of the type of the table ------------------------------------------ *)
Fixpoint uniqb (fs : list sfield) : bool :=
  match fs with
  | [] => true
  | f :: r => ((10 <? sf_code f) || negb (has_code (sf_code f) r)) && uniqb r
  end.

Definition typed_known (fs : list sfield) : bool :=
  forallb (fun f => (10 <? sf_code f) || match field_ty (sf_code f) with Some t => ty_eqb t (sf_ty f) | None => false end) fs.

Lemma uniqb_split : forall pre f post, uniqb (pre ++ f :: post) = true -> sf_code f <= 10 -> has_code (sf_code f) post = false.
Proof.
  induction pre as [|g pre IH]; intros f post H Hk; cbn [app uniqb] in H; apply andb_true_iff in H; destruct H as [H1 H2].
  - replace (10 <? sf_code f) with false in H1 by lia. cbn [orb] in H1. destruct (has_code (sf_code f) post); [discriminate|reflexivity].
  - exact (IH f post H2 Hk).
Qed.

Lemma typed_known_at pre f post : typed_known (pre ++ f :: post) = true -> sf_code f <= 10 -> field_ty (sf_code f) = Some (sf_ty f).
Proof.
  unfold typed_known. rewrite forallb_app. intros H Hk. apply andb_true_iff in H. destruct H as [_ H]. cbn [forallb] in H.
  apply andb_true_iff in H. destruct H as [H _]. replace (10 <? sf_code f) with false in H by lia. cbn [orb] in H.
  destruct (field_ty (sf_code f)) as [t|]; [|discriminate]. apply ty_eqb_eq in H. congruence.
Qed.

Definition hwf (le : bool) (fs : list sfield) : Prop := hok le fs /\ uniqb fs = true /\ typed_known fs = true.

(* ================= G. the cache: consistency, _dbus_header_cache_check, the getters ============== *)
(* every entry that is not UNKNOWN is what a fresh _dbus_header_cache_revalidate of these bytes computes *)
Definition cache_consistent (d : bytes) (c : cache) : Prop :=
  length c = 11%nat /\
  forall k, k <= 10 -> cache_get c k = CUnknown \/ exists full, cache_revalidate d = inl full /\ cache_get c k = cache_get full k.

(* the same, against the abstract field list *)
Definition cache_sem (le : bool) (fs : list sfield) (c : cache) : Prop :=
  length c = 11%nat /\ forall k, k <= 10 -> cache_get c k = CUnknown \/ cache_get c k = cache_get (cache_of le fs) k.

Lemma consistent_sem le A fs T c : fixed_ok le A -> hok le fs -> (cache_consistent (hdata le A fs T) c <-> cache_sem le fs c).
Proof.
  intros HA W. unfold cache_consistent, cache_sem. rewrite (revalidate_ok le A fs T HA W). split; intros [Hl H]; (split; [exact Hl|]); intros k Hk.
  - destruct (H k Hk) as [E|(full & E1 & E2)]; [left; exact E|]. injection E1 as <-. right. exact E2.
  - destruct (H k Hk) as [E|E]; [left; exact E|]. right. eexists. split; [reflexivity | exact E].
Qed.

Lemma cache_sem_unknown le fs : cache_sem le fs (cache_all CUnknown).
Proof.
  split; [reflexivity|]. intros k Hk. left. unfold cache_get, cache_all.
  destruct (N.to_nat k) as [|[|[|[|[|[|[|[|[|[|[|[|n]]]]]]]]]]]]; reflexivity.
Qed.

Lemma cache_sem_full le fs : cache_sem le fs (cache_of le fs).
Proof. split; [apply cache_of_length|]. intros k _. right. reflexivity. Qed.

Lemma cache_consistent_unknown d : cache_consistent d (cache_all CUnknown).
Proof.
  split; [reflexivity|]. intros k Hk. left. unfold cache_get, cache_all.
  destruct (N.to_nat k) as [|[|[|[|[|[|[|[|[|[|[|[|n]]]]]]]]]]]]; reflexivity.
Qed.

(* the truth about a field in the revalidated cache *)
Lemma cache_of_entry le fs k : k <= 10 -> uniqb fs = true ->
  (has_code k fs = false /\ cache_get (cache_of le fs) k = CNonexistent) \/
  (exists pre f post, fs = pre ++ f :: post /\ sf_code f = k /\ has_code k pre = false /\ has_code k post = false /\
                      cache_get (cache_of le fs) k = CPos (val_pos f (end_of le pre 16))).
Proof.
  intros Hk U. destruct (has_code k fs) eqn:E.
  - right. destruct (split_first k fs E) as (pre & f & post & -> & Hf & Hp). exists pre, f, post.
    assert (Hpost : has_code k post = false) by (rewrite <- Hf; apply (uniqb_split pre f post U); lia).
    repeat (split; [assumption || reflexivity|]). unfold cache_of. apply cache_fold_present; auto.
  - left. split; [reflexivity|]. apply cache_of_absent; assumption.
Qed.

(* _dbus_header_cache_check *)
Lemma cache_check_ok le A fs T pad c k : fixed_ok le A -> hok le fs -> cache_sem le fs c -> k <= 10 ->
  exists c1, cache_check (mkH (hdata le A fs T) pad c) k =
             inl (match cache_get (cache_of le fs) k with CNonexistent => false | _ => true end, mkH (hdata le A fs T) pad c1) /\
             cache_sem le fs c1 /\ cache_get c1 k = cache_get (cache_of le fs) k.
Proof.
  intros HA W [Hl Hc] Hk. unfold cache_check. cbn [h_cache h_data h_padding]. unfold DBUS_HEADER_FIELD_LAST.
  replace (10 <? k) with false by lia.
  destruct (cache_get c k) eqn:E.
  - rewrite (revalidate_ok le A fs T HA W). exists (cache_of le fs). split; [|split; [apply cache_sem_full | reflexivity]].
    destruct (cache_get (cache_of le fs) k); reflexivity.
  - destruct (Hc k Hk) as [X|X]; [congruence|]. exists c. rewrite E in *. rewrite <- X. split; [reflexivity|]. split; [split; assumption | reflexivity].
  - destruct (Hc k Hk) as [X|X]; [congruence|]. exists c. rewrite E in *. rewrite <- X. split; [reflexivity|]. split; [split; assumption | reflexivity].
Qed.

(* the value of a known field has the shape of its type, and _dbus_marshal_read_basic reads it back *)
Lemma field_ty_cases k t : field_ty k = Some t -> 1 <= k <= 10 /\ (t = TBasic 111 \/ t = TBasic 115 \/ t = TBasic 117 \/ t = TBasic 103) /\
  expected_type k = code_of t.
Proof.
  unfold field_ty. intros H.
  destruct ((k =? 1) || (k =? 10)) eqn:E1.
  { injection H as <-. split; [lia|]. split; [auto|]. apply orb_true_iff in E1. destruct E1 as [E|E]; apply N.eqb_eq in E; subst k; reflexivity. }
  destruct ((k =? 2) || (k =? 3) || (k =? 4) || (k =? 6) || (k =? 7)) eqn:E2.
  { injection H as <-. split; [lia|]. split; [auto|]. rewrite !orb_true_iff, !N.eqb_eq in E2. destruct E2 as [[[[E|E]|E]|E]|E]; subst k; reflexivity. }
  destruct ((k =? 5) || (k =? 9)) eqn:E3.
  { injection H as <-. split; [lia|]. split; [auto|]. apply orb_true_iff in E3. destruct E3 as [E|E]; apply N.eqb_eq in E; subst k; reflexivity. }
  destruct (k =? 8) eqn:E4; [|discriminate]. injection H as <-. split; [lia|]. split; [auto|]. apply N.eqb_eq in E4. subst k. reflexivity.
Qed.

Lemma read_known_value le d p x t tl : (t = TBasic 111 \/ t = TBasic 115 \/ t = TBasic 117 \/ t = TBasic 103) ->
  ty_of_val x = t -> rwf le p x = true -> bytes_from d p = enc le x p ++ tl ->
  marshal_read_basic le d p (code_of t) = inl x.
Proof.
  intros Ht Hty W D.
  destruct x as [c n|c s| | | | ]; cbn [ty_of_val] in Hty; try (destruct Ht as [Ht|[Ht|[Ht|Ht]]]; congruence).
  - assert (c = 117).
    { cbn [rwf] in W. destruct Ht as [-> | [-> | [-> | ->]]]; injection Hty as ->; try discriminate W. reflexivity. }
    subst c. subst t. cbn [code_of]. cbn [rwf] in W. change (fixed_size 117) with (Some 4) in W. cbv iota in W.
    apply (read_basic_num le d 117 4 n p tl eq_refl ltac:(lia) D).
  - subst t. cbn [code_of]. cbn [rwf] in W. apply andb_true_iff in W. destruct W as [Wz W].
    destruct Ht as [Ht|[Ht|[Ht|Ht]]]; injection Ht as ->.
    + apply (read_basic_str le d 111 s p tl ltac:(auto)); [|exact Wz|exact D]. cbn in W. lia.
    + apply (read_basic_str le d 115 s p tl ltac:(auto)); [|exact Wz|exact D]. cbn in W. lia.
    + cbn in W. discriminate.
    + apply (read_basic_sig le d s p tl Wz D).
Qed.

(* _dbus_header_get_field_basic through the cache = the abstract lookup *)
Theorem hb_get_ok le A fs T pad c k : fixed_ok le A -> hwf le fs -> cache_sem le fs c -> 1 <= k <= 10 ->
  exists c1, hb_get k (mkH (hdata le A fs T) pad c) = inl (get_field fs k, mkH (hdata le A fs T) pad c1) /\ cache_sem le fs c1.
Proof.
  intros HA (W & U & Ty) Hc Hk. unfold hb_get. unfold DBUS_HEADER_FIELD_INVALID, DBUS_HEADER_FIELD_LAST.
  replace ((k =? 0) || (10 <? k)) with false by lia.
  destruct (cache_check_ok le A fs T pad c k HA W Hc ltac:(lia)) as (c1 & E & Hc1 & G). rewrite E. exists c1. split; [|exact Hc1].
  destruct (cache_of_entry le fs k ltac:(lia) U) as [[Hn Ce]|(pre & f & post & Efs & Hf & Hpre & Hpost & Ce)].
  - rewrite Ce. cbn [negb]. rewrite (get_field_none fs k Hn). reflexivity.
  - rewrite Ce. cbn [negb h_cache h_data]. rewrite G, Ce. rewrite (hb_le_hdata le A fs T HA).
    pose proof (hdata_root le A fs T HA W) as L. subst fs.
    destruct (walk_prefix le _ pre (f :: post) 7 16 L) as (tp' & L' & _).
    destruct (elem_step le _ tp' _ f post L') as (_ & We & _ & _ & _ & _ & [tl D] & _).
    destruct (elem_facts le f _ We) as (_ & Hty & _ & _ & Wx & _).
    pose proof (typed_known_at pre f post Ty ltac:(lia)) as Hft. rewrite Hf in Hft.
    destruct (field_ty_cases k _ Hft) as (_ & Hcases & Hex). rewrite Hex.
    rewrite (read_known_value le _ _ (sf_val f) (sf_ty f) tl Hcases Hty Wx D).
    rewrite <- Hf at 1. rewrite (get_field_first _ pre f post eq_refl ltac:(rewrite Hf; exact Hpre)). reflexivity.
Qed.

(* ================= H. DBusString primitives on concatenations ==================================== *)
Lemma firstn_nlen_app {A} (a b : list A) : firstn (N.to_nat (nlen a)) (a ++ b) = a.
Proof. unfold nlen. rewrite Nat2N.id. rewrite firstn_app, Nat.sub_diag, firstn_all. cbn. apply app_nil_r. Qed.

Lemma str_insert_app a b ins p : p = nlen a -> str_insert p ins (a ++ b) = inl (a ++ ins ++ b).
Proof.
  intros ->. unfold str_insert. rewrite nlen_app. replace (nlen a + nlen b <? nlen a) with false by lia.
  rewrite firstn_nlen_app, skipn_nlen_app. reflexivity.
Qed.

Lemma str_overwrite_app a old b new p : p = nlen a -> nlen old = nlen new -> str_overwrite p new (a ++ old ++ b) = inl (a ++ new ++ b).
Proof.
  intros -> H. unfold str_overwrite. rewrite !nlen_app. replace (nlen a + (nlen old + nlen b) <? nlen a + nlen new) with false by lia.
  rewrite firstn_nlen_app. rewrite <- H. replace (nlen a + nlen old) with (nlen (a ++ old)) by (rewrite nlen_app; reflexivity).
  replace (a ++ old ++ b) with ((a ++ old) ++ b) by (rewrite <- app_assoc; reflexivity). rewrite skipn_nlen_app. reflexivity.
Qed.

Lemma str_replace_app a old b ins p l : p = nlen a -> l = nlen old -> str_replace ins (a ++ old ++ b) p l = inl (a ++ ins ++ b).
Proof.
  intros -> ->. unfold str_replace. rewrite !nlen_app. replace (nlen a + (nlen old + nlen b) <? nlen a + nlen old) with false by lia.
  rewrite firstn_nlen_app. replace (nlen a + nlen old) with (nlen (a ++ old)) by (rewrite nlen_app; reflexivity).
  replace (a ++ old ++ b) with ((a ++ old) ++ b) by (rewrite <- app_assoc; reflexivity). rewrite skipn_nlen_app. reflexivity.
Qed.

Lemma str_shorten_app a b n : n = nlen b -> str_shorten n (a ++ b) = inl a.
Proof.
  intros ->. unfold str_shorten. rewrite nlen_app. replace (nlen a + nlen b <? nlen b) with false by lia.
  replace (nlen a + nlen b - nlen b) with (nlen a) by lia. rewrite firstn_nlen_app. reflexivity.
Qed.

Lemma str_slice_app a x b p q : p = nlen a -> q = p + nlen x -> str_slice (a ++ x ++ b) p q = inl x.
Proof.
  intros -> ->. unfold str_slice. rewrite !nlen_app.
  replace ((nlen a + nlen x <? nlen a) || (nlen a + (nlen x + nlen b) <? nlen a + nlen x)) with false by lia.
  rewrite skipn_nlen_app. replace (nlen a + nlen x - nlen a) with (nlen x) by lia. rewrite firstn_nlen_app. reflexivity.
Qed.

(* a slice described through bytes_from *)
Lemma data_split (d : bytes) p : p <= nlen d -> exists a, d = a ++ bytes_from d p /\ nlen a = p.
Proof.
  intros H. exists (firstn (N.to_nat p) d). unfold bytes_from. split; [symmetry; apply firstn_skipn|].
  unfold nlen in *. rewrite firstn_length. lia.
Qed.

Lemma bytes_from_bound (d : bytes) p x tl : bytes_from d p = x ++ tl -> 0 < nlen x -> p + nlen x <= nlen d.
Proof.
  intros H Hx. unfold bytes_from in H. assert (L : length (skipn (N.to_nat p) d) = length (x ++ tl)) by (rewrite H; reflexivity).
  rewrite skipn_length, app_length in L. unfold nlen in *. lia.
Qed.

Lemma str_slice_from d p x tl : bytes_from d p = x ++ tl -> 0 < nlen x -> str_slice d p (p + nlen x) = inl x.
Proof.
  intros H Hx. pose proof (bytes_from_bound d p x tl H Hx) as B.
  destruct (data_split d p ltac:(lia)) as (a & E & Ha). rewrite H in E. rewrite E. apply str_slice_app; [symmetry; exact Ha | reflexivity].
Qed.

Lemma zeros_app a b : zeros a ++ zeros b = zeros (a + b).
Proof. unfold zeros. rewrite N2Nat.inj_add. symmetry. apply repeat_app. Qed.

(* ---- _dbus_marshal_write_basic = the specification encoder, for the values of header fields ------ *)
Definition hval_ok (v : val) : bool :=
  match v with
  | VNum c n => (c =? 117) && (n <? 4294967296)
  | VStr c s => ((c =? 115) || (c =? 111) || (c =? 103)) && nz s && (if c =? 103 then nlen s <? 256 else nlen s <? 4294967296)
  | _ => false
  end.

Lemma hval_rwf le p v : hval_ok v = true -> rwf le p v = true.
Proof.
  destruct v as [c n|c s| | | | ]; try discriminate; cbn [hval_ok rwf]; intros H.
  - apply andb_true_iff in H. destruct H as [Hc Hn]. apply N.eqb_eq in Hc. subst c. cbn. exact Hn.
  - apply andb_true_iff in H. destruct H as [H Hl]. apply andb_true_iff in H. destruct H as [Hc Hz]. rewrite Hz. cbn [andb].
    destruct (c =? 103) eqn:E; [exact Hl|]. rewrite Hl, andb_true_r. cbn [orb] in Hc. rewrite orb_false_r in Hc. exact Hc.
Qed.

Lemma marshal_write_enc le a b v p : hval_ok v = true -> p = nlen a ->
  marshal_write le (a ++ b) p v = inl (a ++ enc le v p ++ b, p + nlen (enc le v p)).
Proof.
  intros H ->. destruct v as [c n|c s| | | | ]; try discriminate; cbn [hval_ok] in H.
  - apply andb_true_iff in H. destruct H as [Hc Hn]. apply N.eqb_eq in Hc. subst c. cbn [marshal_write].
    change (117 =? DBUS_TYPE_UINT32) with true. cbv iota. rewrite (align_up_pad _ 4 ltac:(lia)).
    replace (nlen a + pad_amount (nlen a) 4 - nlen a) with (pad_amount (nlen a) 4) by lia.
    rewrite (str_insert_app a b _ _ eq_refl). rewrite enc_num. change (fixed_size 117) with (Some 4). cbv iota.
    rewrite nlen_app, nlen_zeros, (bytes_of_length le 4). change (N.to_nat 4) with 4%nat. f_equal. f_equal. lia.
  - apply andb_true_iff in H. destruct H as [H Hl]. apply andb_true_iff in H. destruct H as [Hc Hz].
    cbn [marshal_write]. rewrite enc_str. destruct (c =? 103) eqn:E3.
    + apply N.eqb_eq in E3. subst c. change ((103 =? DBUS_TYPE_STRING) || (103 =? DBUS_TYPE_OBJECT_PATH)) with false.
      change (103 =? DBUS_TYPE_SIGNATURE) with true. cbv iota. unfold DBUS_MAXIMUM_SIGNATURE_LENGTH.
      replace (255 <? nlen s) with false by lia. rewrite (str_insert_app a b _ _ eq_refl). f_equal. f_equal.
      rewrite nlen_cons, nlen_app. change (nlen [0]) with 1. lia.
    + replace ((c =? DBUS_TYPE_STRING) || (c =? DBUS_TYPE_OBJECT_PATH)) with true
        by (unfold DBUS_TYPE_STRING, DBUS_TYPE_OBJECT_PATH; lia).
      rewrite (align_up_pad _ 4 ltac:(lia)).
      replace (nlen a + pad_amount (nlen a) 4 - nlen a) with (pad_amount (nlen a) 4) by lia.
      rewrite (str_insert_app a b _ _ eq_refl). f_equal. f_equal.
      rewrite !nlen_app, nlen_zeros, (bytes_of_length le 4). change (nlen [0]) with 1. lia.
Qed.

(* ================= I. the replacement block ===================================================== *)
(* the bytes of an element behind its alignment padding *)
Definition ebody (le : bool) (f : sfield) (p : N) : bytes :=
  encs le [VNum 121 (sf_code f); VVar (sf_ty f) (sf_val f)] (p + pad_amount p 8).

Lemma enc_elem le f p : enc le (enc_field le f) p = zeros (pad_amount p 8) ++ ebody le f p.
Proof. unfold enc_field, ebody. apply enc_struct. Qed.

Lemma ebody_nonempty le f p : 0 < nlen (ebody le f p).
Proof. unfold ebody. cbn [encs]. rewrite enc_byte, !nlen_app, nlen1. lia. Qed.

Lemma ebody_cong le f p q : ebody le f p = ebody le f q.
Proof. unfold ebody. apply encs_cong. unfold pad_amount. lia. Qed.

Lemma end_ge le pre p : p <= end_of le pre p.
Proof. unfold end_of. lia. Qed.

Section Copy.
  Variables (le : bool) (d : bytes) (sa : reader).
  Local Notation LVL := (lvl_ok le HSIG d).

  (* elements in front of start_after: nothing is written, the writer stays disabled *)
  Lemma copy_pre : forall pre rest tp p out, LVL (areader tp p) (elems le (pre ++ rest)) -> end_of le pre p <= r_vpos sa ->
    exists tp', LVL (areader tp' (end_of le pre p)) (elems le rest) /\ (pre = [] -> tp' = tp) /\
      forall n, copy_after (length pre + n) le d sa (areader tp p) false out = copy_after n le d sa (areader tp' (end_of le pre p)) false out.
  Proof.
    induction pre as [|g pre IH]; intros rest tp p out L Hsa.
    - exists tp. rewrite end_of_nil. split; [exact L|]. split; [reflexivity|]. intros n. reflexivity.
    - cbn [app] in L. destruct (elem_step le d tp p g (pre ++ rest) L) as (_ & W & _ & Hct & (sub & Hr & Vs & _) & _ & _ & (tp' & Hnx & L')).
      rewrite end_of_cons in Hsa. pose proof (end_ge le pre (p + nlen (enc le (enc_field le g) p))) as Hge.
      pose proof (rwf_nonempty le _ _ W) as Hne.
      destruct (IH rest tp' _ out L' Hsa) as (tp'' & L'' & _ & Hc). exists tp''. rewrite end_of_cons. split; [exact L''|]. split; [discriminate|].
      intros n. cbn [length Nat.add copy_after]. rewrite Hct. change (DBUS_TYPE_STRUCT =? T_INVALID) with false. cbv iota.
      cbn [r_vpos r_tval r_tpos areader]. replace (p =? r_vpos sa) with false by lia. cbn [andb]. rewrite Hr, Hnx. cbn [fst orb r_vpos areader].
      rewrite Vs.
      assert (Hlen : nlen (enc le (enc_field le g) p) = pad_amount p 8 + nlen (ebody le g p)) by (rewrite enc_elem, nlen_app, nlen_zeros; reflexivity).
      pose proof (ebody_nonempty le g p) as Hbn.
      replace (r_vpos sa <? p + pad_amount p 8) with false by lia.
      replace (r_vpos sa <? p + nlen (enc le (enc_field le g) p)) with false by lia. apply Hc.
  Qed.

  (* elements behind start_after: each is written as padding to 8 + its bytes *)
  Lemma copy_tail : forall gs n tp p en out Q, (length gs < n)%nat -> LVL (areader tp p) (elems le gs) ->
    en = true \/ r_vpos sa < p -> Q mod 8 = nlen out mod 8 ->
    exists tp', copy_after n le d sa (areader tp p) en out =
                inl (areader tp' (end_of le gs p), en || negb (isnil gs), out ++ encs le (elems le gs) Q).
  Proof.
    induction gs as [|g gs IH]; intros n tp p en out Q Hn L Hen HQ; (destruct n as [|n]; [cbn [length] in Hn; lia|]); cbn [copy_after].
    - rewrite (lvl_nil_ct le d tp p L). change (T_INVALID =? T_INVALID) with true. cbv iota. exists tp.
      rewrite end_of_nil. cbn [isnil negb elems map encs]. rewrite orb_false_r, app_nil_r. reflexivity.
    - destruct (elem_step le d tp p g gs L) as (_ & W & [tl D] & Hct & (sub & Hr & Vs & _) & _ & _ & (tp' & Hnx & L')).
      rewrite Hct. change (DBUS_TYPE_STRUCT =? T_INVALID) with false. cbv iota. rewrite Hr, Hnx. cbn [fst r_vpos r_tval r_tpos areader].
      rewrite Vs.
      assert (En1 : (if (p =? r_vpos sa) && Bool.eqb false (r_tval sa) && (7 =? r_tpos sa) then en else en || (r_vpos sa <? p + pad_amount p 8)) = true).
      { destruct Hen as [-> | Hlt]; [destruct ((p =? r_vpos sa) && Bool.eqb false (r_tval sa) && (7 =? r_tpos sa)); reflexivity|].
        replace (p =? r_vpos sa) with false by lia. cbn [andb]. replace (r_vpos sa <? p + pad_amount p 8) with true by lia. apply orb_true_r. }
      assert (Htp : tp = 7) by (destruct (elem_step le d tp p g gs L) as (X & _); exact X). subst tp.
      rewrite En1. rewrite enc_elem in D. rewrite <- app_assoc in D.
      assert (D1 : bytes_from d (p + pad_amount p 8) = ebody le g p ++ tl) by (apply (bf_step' d p _ _ _ D); rewrite nlen_zeros; reflexivity).
      replace (p + nlen (enc le (enc_field le g) p)) with (p + pad_amount p 8 + nlen (ebody le g p)) by (rewrite enc_elem, nlen_app, nlen_zeros; lia).
      rewrite (str_slice_from d _ _ tl D1 (ebody_nonempty le g p)).
      set (out' := out ++ zeros (align_up (nlen out) 8 - nlen out) ++ ebody le g p).
      assert (Eout : out' = out ++ enc le (enc_field le g) Q).
      { subst out'. rewrite enc_elem. rewrite (align_up_pad _ 8 ltac:(lia)).
        replace (nlen out + pad_amount (nlen out) 8 - nlen out) with (pad_amount (nlen out) 8) by lia.
        rewrite (pad_cong Q (nlen out) 8 ltac:(unfold al_ok; lia) HQ). rewrite (ebody_cong le g Q p). reflexivity. }
      destruct (IH n tp' (p + pad_amount p 8 + nlen (ebody le g p)) true out' (Q + nlen (enc le (enc_field le g) Q)) ltac:(cbn [length] in Hn; lia)) as (tp'' & Hc).
      + replace (p + pad_amount p 8 + nlen (ebody le g p)) with (p + nlen (enc le (enc_field le g) p)) by (rewrite enc_elem, nlen_app, nlen_zeros; lia). exact L'.
      + left. reflexivity.
      + rewrite Eout, nlen_app. lia.
      + exists tp''.
        replace (if (p =? r_vpos sa) && Bool.eqb false (r_tval sa) && (7 =? r_tpos sa) then true else true || (r_vpos sa <? p + pad_amount p 8 + nlen (ebody le g p))) with true
          by (destruct ((p =? r_vpos sa) && Bool.eqb false (r_tval sa) && (7 =? r_tpos sa)); reflexivity).
        rewrite Hc. rewrite end_of_cons. cbn [isnil negb elems map encs]. fold (elems le gs). rewrite orb_true_r.
        replace (p + nlen (enc le (enc_field le g) p)) with (p + pad_amount p 8 + nlen (ebody le g p)) by (rewrite enc_elem, nlen_app, nlen_zeros; lia).
        rewrite Eout, <- app_assoc. reflexivity.
  Qed.
End Copy.

(* _dbus_type_reader_next on the root reader: behind the fields array *)
Lemma root_next le A fs T : fixed_ok le A -> hok le fs ->
  exists r', rnext le HSIG (hdata le A fs T) (hfuel (hdata le A fs T)) root_reader = inl (r', false) /\ r_vpos r' = 16 + nlen (payload le fs).
Proof.
  intros [H12 HA] W. set (d := hdata le A fs T).
  assert (D : bytes_from d 12 = enc le (fields_val le fs) 12 ++ T).
  { subst d. unfold hdata. rewrite (bytes_from_app12 A _ H12), enc_fields_val, <- app_assoc. reflexivity. }
  assert (L : lvl_ok le HSIG d root_reader [fields_val le fs]).
  { split; [|split; [|split]].
    - exists T. cbn [encs]. rewrite app_nil_r. exact D.
    - cbn [rwfs]. unfold root_reader, reader_init, FIELDS_ARRAY_LENGTH_OFFSET. cbn [r_vpos]. rewrite W. reflexivity.
    - reflexivity.
    - exists []. reflexivity. }
  assert (Hh : (height (fields_val le fs) < hfuel d)%nat).
  { pose proof (height_bound le _ _ W) as B. pose proof (enc_in_data d _ _ _ D) as B2.
    change (length (print_ty (ty_of_val (fields_val le fs)))) with 5%nat in B. unfold hfuel. lia. }
  destruct (next_all le HSIG d (fields_val le fs) (hfuel d) root_reader [] Hh L) as (r' & E & _ & V & _).
  exists r'. split; [exact E|]. rewrite V. unfold root_reader, reader_init, FIELDS_ARRAY_LENGTH_OFFSET. cbn [r_vpos].
  rewrite enc_fields_val, nlen_app, (bytes_of_length le 4). fold (payload le fs). lia.
Qed.

Lemma payload_split le pre f post :
  payload le (pre ++ f :: post) =
  encs le (elems le pre) 16 ++ enc le (enc_field le f) (end_of le pre 16) ++ encs le (elems le post) (end_of le [f] (end_of le pre 16)).
Proof.
  unfold payload, end_of. rewrite elems_app, encs_app. cbn [elems map encs]. rewrite app_nil_r. reflexivity.
Qed.

Lemma val_pos_ge f p : p + pad_amount p 8 + 4 <= val_pos f p.
Proof. unfold val_pos. pose proof (print_ty_cons (sf_ty f)) as (c & r & E). rewrite E, nlen_cons. lia. Qed.

(* replacement_block_replace, for a deletion (start_after = the array reader at the element) and for the
   replacement of a variable-length value (start_after = the variant's sub-reader) *)
Lemma rbr_ok le A pre f post T sa cut newval before old :
  fixed_ok le A -> hok le (pre ++ f :: post) ->
  let fs := pre ++ f :: post in
  let e0 := end_of le pre 16 in
  let e1 := end_of le [f] e0 in
  (sa = areader 7 e0 /\ cut = e0) \/ (sa = vreader f e0 /\ cut = val_pos f e0) ->
  payload le fs = before ++ old ++ encs le (elems le post) e1 -> nlen before + 16 = cut ->
  let tail := encs le (elems le post) (cut + nlen newval) in
  replacement_block_replace le (hdata le A fs T) (zeros (cut mod 8) ++ newval) (cut mod 8) sa root_reader =
  inl (A ++ bytes_of le 4 (nlen (before ++ newval ++ tail)) ++ (before ++ newval ++ tail) ++ T).
Proof.
  intros HA W fs e0 e1 Hsa Hsplit Hcut tail. set (d := hdata le A fs T).
  pose proof (hdata_root le A fs T HA W) as L0. fold d in L0.
  pose proof (fs_fuel le d _ fs L0) as Hfuel.
  unfold replacement_block_replace. rewrite recurse_root.
  (* positions *)
  assert (Hsa_pos : r_vpos sa = cut) by (destruct Hsa as [[-> ->]|[-> ->]]; reflexivity).
  assert (He0 : e0 <= cut).
  { destruct Hsa as [[_ ->]|[_ ->]]; [lia|]. pose proof (val_pos_ge f e0). lia. }
  (* the elements in front *)
  destruct (copy_pre le d sa pre (f :: post) 7 16 (zeros (cut mod 8) ++ newval) L0 ltac:(fold e0; lia)) as (tp1 & L1 & _ & Hpre). fold e0 in L1, Hpre.
  replace (S (length d)) with (length pre + S (length d - length pre))%nat by (subst fs; rewrite app_length in Hfuel; lia).
  rewrite Hpre. clear Hpre.
  (* the element that holds start_after *)
  destruct (elem_step le d tp1 e0 f post L1) as (Htp & We & [tl0 D0] & Hct & (sub & Hr & Vs & _) & _ & _ & (tp2 & Hnx & L2)). subst tp1.
  destruct (elem_facts le f e0 We) as (_ & _ & _ & _ & Wx & Eshape).
  assert (He1 : e1 = e0 + nlen (enc le (enc_field le f) e0)).
  { subst e1. unfold end_of. cbn [elems map encs]. rewrite app_nil_r. reflexivity. }
  rewrite <- He1 in Hnx, L2.
  assert (Hvp_lt : val_pos f e0 < e1).
  { rewrite He1, Eshape. pose proof (rwf_nonempty le _ _ Wx). pose proof (val_pos_ge f e0).
    rewrite !nlen_app, !nlen_cons, !nlen_app, !nlen_cons, !nlen_app, !nlen_zeros. unfold val_pos in *. cbv zeta in *. lia. }
  pose proof (rwf_nonempty le _ _ We) as Hne.
  set (n1 := (length d - length pre)%nat).
  set (blk := zeros (cut mod 8) ++ newval).
  assert (Htarget : exists en, copy_after (S n1) le d sa (areader 7 e0) false blk = copy_after n1 le d sa (areader tp2 e1) en blk /\ (en = true \/ r_vpos sa < e1)).
  { cbn [copy_after]. rewrite Hct. change (DBUS_TYPE_STRUCT =? T_INVALID) with false. cbv iota. rewrite Hr, Hnx. cbn [fst r_vpos r_tval r_tpos areader]. rewrite Vs.
    destruct Hsa as [[-> ->]|[-> ->]]; cbn [r_vpos r_tval r_tpos areader vreader].
    - rewrite N.eqb_refl. cbn [Bool.eqb andb N.eqb Pos.eqb]. exists false. split; [reflexivity|]. right. lia.
    - cbn [Bool.eqb]. rewrite andb_false_r. cbn [andb orb]. pose proof (val_pos_ge f e0).
      replace (val_pos f e0 <? e0 + pad_amount e0 8) with false by lia. replace (val_pos f e0 <? e1) with true by lia.
      exists true. split; [reflexivity|]. left. reflexivity. }
  destruct Htarget as (en & Htarget & Hen).
  replace (S (length d - length pre)) with (S n1) by reflexivity. rewrite Htarget. clear Htarget.
  (* the elements behind *)
  destruct (copy_tail le d sa post n1 tp2 e1 en blk (cut + nlen newval)) as (tp3 & Htail).
  { subst n1 fs. rewrite app_length in Hfuel. cbn [length] in Hfuel. lia. }
  { exact L2. }
  { exact Hen. }
  { subst blk. rewrite nlen_app, nlen_zeros. lia. }
  rewrite Htail. clear Htail. fold tail.
  (* the root reader moves behind the array *)
  destruct (root_next le A fs T HA W) as (rend & Hrn & Vrend). fold d in Hrn. rewrite Hrn. cbn [fst r_start r_lenoff areader].
  rewrite Hsa_pos, Vrend.
  assert (Hpl : nlen (payload le fs) = nlen before + nlen old + nlen (encs le (elems le post) e1)) by (rewrite Hsplit, !nlen_app; lia).
  replace (16 + nlen (payload le fs) <? cut) with false by lia.
  (* the moved block *)
  assert (Hmoved : str_slice (blk ++ tail) (cut mod 8) (nlen (blk ++ tail)) = inl (newval ++ tail)).
  { subst blk. rewrite <- app_assoc. replace (zeros (cut mod 8) ++ newval ++ tail) with (zeros (cut mod 8) ++ (newval ++ tail) ++ []) by (rewrite app_nil_r; reflexivity).
    apply str_slice_app; [rewrite nlen_zeros; reflexivity|]. rewrite !nlen_app, nlen_zeros. cbn. lia. }
  rewrite Hmoved.
  (* _dbus_string_replace_len *)
  assert (Hd : d = (A ++ bytes_of le 4 (nlen (payload le fs)) ++ before) ++ (old ++ encs le (elems le post) e1) ++ T).
  { subst d. unfold hdata. rewrite Hsplit at 2. rewrite <- !app_assoc. reflexivity. }
  destruct HA as [H12 HA'].
  rewrite Hd at 1.
  rewrite (str_replace_app _ _ _ (newval ++ tail) cut (16 + nlen (payload le fs) - cut)).
  2:{ rewrite !nlen_app, H12, (bytes_of_length le 4). lia. }
  2:{ rewrite nlen_app. lia. }
  (* the fix-up of the array length *)
  assert (Hpast : (en || negb (isnil post)) || (cut <? end_of le post e1) = true).
  { destruct Hen as [-> | Hlt]; [reflexivity|]. pose proof (end_ge le post e1). replace (cut <? end_of le post e1) with true by lia. apply orb_true_r. }
  cbn [r_vpos areader]. rewrite Hpast.
  replace (16 - 0 - 4) with 12 by reflexivity.
  rewrite <- !app_assoc.
  rewrite (str_overwrite_app A (bytes_of le 4 (nlen (payload le fs))) _ _ 12 (eq_sym H12)).
  2:{ rewrite !(bytes_of_length le 4). reflexivity. }
  f_equal. f_equal. f_equal. f_equal.
  subst blk. rewrite !nlen_app, nlen_zeros. lia.
Qed.

(* ================= K. the operations ============================================================ *)
(* ---- padding ------------------------------------------------------------------------------------ *)
Lemma hdata_app le A fs T X : hdata le A fs T ++ X = hdata le A fs (T ++ X).
Proof. unfold hdata. rewrite <- !app_assoc. reflexivity. Qed.

Lemma hdr_pad_lt le fs : hdr_pad le fs < 8.
Proof. unfold hdr_pad, pad_amount. lia. Qed.

Lemma reserve_ok le A fs c :
  reserve_header_padding (mkH (hdata le A fs (zeros (hdr_pad le fs))) (hdr_pad le fs) c) = inl (mkH (hdata le A fs (zeros 7)) 7 c).
Proof.
  unfold reserve_header_padding. cbn [h_padding h_data h_cache]. unfold MAX_POSSIBLE_HEADER_PADDING. pose proof (hdr_pad_lt le fs).
  replace (7 <? hdr_pad le fs) with false by lia. rewrite hdata_app, zeros_app. replace (hdr_pad le fs + (7 - hdr_pad le fs)) with 7 by lia. reflexivity.
Qed.

Lemma nlen_hdata0 le A fs : nlen A = 12 -> nlen (A ++ bytes_of le 4 (nlen (payload le fs)) ++ payload le fs) = 16 + nlen (payload le fs).
Proof. intros H. rewrite !nlen_app, H, (bytes_of_length le 4). lia. Qed.

Lemma correct_ok le A fs c : nlen A = 12 ->
  correct_header_padding (mkH (hdata le A fs (zeros 7)) 7 c) = inl (mkH (hdata le A fs (zeros (hdr_pad le fs))) (hdr_pad le fs) c).
Proof.
  intros H12. unfold correct_header_padding. cbn [h_padding h_data h_cache]. change (negb (7 =? 7)) with false. cbv iota.
  assert (E : hdata le A fs (zeros 7) = (A ++ bytes_of le 4 (nlen (payload le fs)) ++ payload le fs) ++ zeros 7) by (unfold hdata; rewrite <- !app_assoc; reflexivity).
  rewrite E. rewrite (str_shorten_app _ (zeros 7) 7) by (rewrite nlen_zeros; reflexivity).
  rewrite (nlen_hdata0 le A fs H12). rewrite (align_up_pad _ 8 ltac:(lia)).
  replace (16 + nlen (payload le fs) + pad_amount (16 + nlen (payload le fs)) 8 - (16 + nlen (payload le fs))) with (hdr_pad le fs) by (unfold hdr_pad; lia).
  f_equal. f_equal.
  - unfold hdata. rewrite <- !app_assoc. reflexivity.
  - rewrite nlen_app, (nlen_hdata0 le A fs H12), nlen_zeros. lia.
Qed.

Lemma hdr_bytes_hdata le mt fl bl sr fs : hdr_bytes le mt fl bl sr fs = hdata le (hdr_fixed le mt fl bl sr) fs (zeros (hdr_pad le fs)).
Proof. unfold hdr_bytes, hdr_unpadded, hdata. rewrite <- !app_assoc. reflexivity. Qed.

Lemma fixed_ok_hdr le mt fl bl sr : fixed_ok le (hdr_fixed le mt fl bl sr).
Proof. split; [apply nlen_hdr_fixed|]. eexists. reflexivity. Qed.

(* ---- elements are position independent ---------------------------------------------------------- *)
Lemma rwf_elem le f p : rwf le p (enc_field le f) = rwf le 0 (enc_field le f).
Proof. unfold enc_field. rewrite !rwf_struct. f_equal. apply rwfs_cong. unfold pad_amount. lia. Qed.

Definition fields_rwf (le : bool) (fs : list sfield) : bool := forallb (fun f => rwf le 0 (enc_field le f)) fs.

Lemma rwfs_elems le : forall fs p, rwfs le (elems le fs) p = fields_rwf le fs.
Proof.
  induction fs as [|f r IH]; intros p; [reflexivity|]. cbn [elems map rwfs fields_rwf forallb]. rewrite rwf_elem. f_equal. apply IH.
Qed.

Lemma hok_iff le fs : hok le fs <-> fields_rwf le fs = true /\ nlen (payload le fs) < 4294967296.
Proof.
  split.
  - intros H. destruct (hok_rwfs le fs H) as [H1 H2]. rewrite rwfs_elems in H1. split; assumption.
  - intros [H1 H2]. apply hok_of_rwfs; [rewrite rwfs_elems; exact H1 | exact H2].
Qed.

Lemma nlen_enc_elem le f p : nlen (enc le (enc_field le f) p) = pad_amount p 8 + nlen (ebody le f 0).
Proof. rewrite enc_elem, nlen_app, nlen_zeros. rewrite (ebody_cong le f p 0). reflexivity. Qed.

Lemma end_mono le : forall gs p p', p <= p' -> end_of le gs p <= end_of le gs p'.
Proof.
  induction gs as [|g gs IH]; intros p p' H; [rewrite !end_of_nil; exact H|].
  rewrite !end_of_cons. apply IH. rewrite !nlen_enc_elem. unfold pad_amount. lia.
Qed.

Lemma payload_app le a b : payload le (a ++ b) = encs le (elems le a) 16 ++ encs le (elems le b) (end_of le a 16).
Proof. unfold payload, end_of. rewrite elems_app, encs_app. reflexivity. Qed.

Lemma nlen_payload_end le fs : 16 + nlen (payload le fs) = end_of le fs 16.
Proof. reflexivity. Qed.

Lemma end_of_app le a b p : end_of le (a ++ b) p = end_of le b (end_of le a p).
Proof. unfold end_of. rewrite elems_app, encs_app, nlen_app. lia. Qed.

(* deleting one element never makes the array longer *)
Lemma payload_delete_le le pre f post : nlen (payload le (pre ++ post)) <= nlen (payload le (pre ++ f :: post)).
Proof.
  pose proof (nlen_payload_end le (pre ++ post)) as E1. pose proof (nlen_payload_end le (pre ++ f :: post)) as E2.
  rewrite end_of_app in E1, E2. rewrite end_of_cons in E2.
  pose proof (end_mono le post (end_of le pre 16) (end_of le pre 16 + nlen (enc le (enc_field le f) (end_of le pre 16))) ltac:(lia)). lia.
Qed.

(* ---- _dbus_type_reader_delete on an element ---------------------------------------------------- *)
Lemma reader_delete_ok le A pre f post T : fixed_ok le A -> hok le (pre ++ f :: post) ->
  reader_delete le (hdata le A (pre ++ f :: post) T) (areader 7 (end_of le pre 16)) root_reader = inl (hdata le A (pre ++ post) T).
Proof.
  intros HA W. unfold reader_delete. cbn [r_klass r_vpos areader].
  pose proof (rbr_ok le A pre f post T (areader 7 (end_of le pre 16)) (end_of le pre 16) [] (encs le (elems le pre) 16)
                     (enc le (enc_field le f) (end_of le pre 16)) HA W) as R. cbv zeta in R.
  rewrite app_nil_r in R. rewrite R; [| left; split; reflexivity | apply payload_split | unfold end_of; lia].
  unfold hdata. cbn [app nlen length N.of_nat]. rewrite N.add_0_r. rewrite payload_app. reflexivity.
Qed.

(* ---- the abstract editor on a split list ---------------------------------------------------------- *)
Lemma del_field_absent k : forall fs, has_code k fs = false -> del_field fs k = fs.
Proof.
  unfold del_field. induction fs as [|g fs IH]; intros H; [reflexivity|]. cbn [has_code existsb] in H.
  apply orb_false_iff in H. destruct H as [H1 H2]. cbn [filter]. rewrite H1. cbn [negb]. f_equal. exact (IH H2).
Qed.

Lemma del_field_app fs1 fs2 k : del_field (fs1 ++ fs2) k = del_field fs1 k ++ del_field fs2 k.
Proof. unfold del_field. apply filter_app. Qed.

Lemma del_field_split k pre f post : has_code k pre = false -> sf_code f = k -> has_code k post = false ->
  del_field (pre ++ f :: post) k = pre ++ post.
Proof.
  intros H1 H2 H3. rewrite del_field_app, (del_field_absent k pre H1). f_equal.
  unfold del_field at 1. cbn [filter]. rewrite H2, N.eqb_refl. cbn [negb]. exact (del_field_absent k post H3).
Qed.

Lemma set_field_split k v : forall pre f post, has_code k pre = false -> sf_code f = k ->
  set_field (pre ++ f :: post) k v = pre ++ mk_field k v :: post.
Proof.
  induction pre as [|g pre IH]; intros f post H1 H2; cbn [app set_field].
  - rewrite H2, N.eqb_refl. reflexivity.
  - cbn [has_code existsb] in H1. apply orb_false_iff in H1. destruct H1 as [Hg H1]. rewrite Hg. f_equal. exact (IH f post H1 H2).
Qed.

Lemma set_field_absent k v : forall fs, has_code k fs = false -> set_field fs k v = fs ++ [mk_field k v].
Proof.
  induction fs as [|g fs IH]; intros H; [reflexivity|]. cbn [has_code existsb] in H. apply orb_false_iff in H. destruct H as [Hg H].
  cbn [app set_field]. rewrite Hg. f_equal. exact (IH H).
Qed.

(* ---- hwf is kept when an element is removed ------------------------------------------------------- *)
Lemma uniqb_remove : forall pre f post, uniqb (pre ++ f :: post) = true -> uniqb (pre ++ post) = true.
Proof.
  induction pre as [|g pre IH]; intros f post H; cbn [app uniqb] in *; apply andb_true_iff in H; destruct H as [H1 H2].
  - exact H2.
  - apply andb_true_iff. split; [|exact (IH f post H2)].
    destruct (10 <? sf_code g); [reflexivity|]. cbn [orb] in *. rewrite has_code_app in *. cbn [has_code existsb] in H1.
    unfold has_code in *.
    destruct (existsb (fun f0 => sf_code f0 =? sf_code g) pre), (sf_code f =? sf_code g), (existsb (fun f0 => sf_code f0 =? sf_code g) post); cbn in *; congruence.
Qed.

Lemma typed_remove pre f post : typed_known (pre ++ f :: post) = true -> typed_known (pre ++ post) = true.
Proof.
  unfold typed_known. rewrite !forallb_app. cbn [forallb]. intros H. apply andb_true_iff in H. destruct H as [H1 H2].
  apply andb_true_iff in H2. destruct H2 as [_ H2]. rewrite H1, H2. reflexivity.
Qed.

Lemma fields_rwf_app le a b : fields_rwf le (a ++ b) = fields_rwf le a && fields_rwf le b.
Proof. unfold fields_rwf. apply forallb_app. Qed.

Lemma hwf_remove le pre f post : hwf le (pre ++ f :: post) -> hwf le (pre ++ post).
Proof.
  intros (W & U & Ty). split; [|split; [exact (uniqb_remove _ _ _ U) | exact (typed_remove _ _ _ Ty)]].
  apply hok_iff in W. destruct W as [W1 W2]. apply hok_iff. split.
  - rewrite fields_rwf_app in *. cbn [fields_rwf forallb] in W1. apply andb_true_iff in W1. destruct W1 as [Wa Wb].
    apply andb_true_iff in Wb. destruct Wb as [_ Wb]. rewrite Wa. exact Wb.
  - pose proof (payload_delete_le le pre f post). lia.
Qed.

(* ---- _dbus_header_delete_field ---------------------------------------------------------------------- *)
Theorem hb_delete_ok dbg le mt fl bl sr fs c k : hwf le fs -> cache_sem le fs c -> k <= 10 ->
  exists c', hb_delete dbg k (mkH (hdr_bytes le mt fl bl sr fs) (hdr_pad le fs) c) =
             inl (mkH (hdr_bytes le mt fl bl sr (del_field fs k)) (hdr_pad le (del_field fs k)) c') /\
             cache_sem le (del_field fs k) c' /\ hwf le (del_field fs k).
Proof.
  intros HW Hc Hk. pose proof HW as (W & U & Ty). pose proof (fixed_ok_hdr le mt fl bl sr) as HA. set (A := hdr_fixed le mt fl bl sr) in *.
  rewrite hdr_bytes_hdata. fold A. unfold hb_delete, cache_known_nonexistent. cbn [h_cache h_data h_padding].
  unfold DBUS_HEADER_FIELD_LAST. replace (10 <? k) with false by lia.
  destruct (cache_of_entry le fs k Hk U) as [[Hn Ce]|(pre & f & post & Efs & Hf & Hpre & Hpost & Ce)].
  - (* the field does not exist: nothing happens, whatever the cache knows *)
    rewrite (del_field_absent k fs Hn). exists c. rewrite hdr_bytes_hdata. fold A. split; [|split; assumption].
    destruct (cache_get c k) eqn:E; try reflexivity.
    + rewrite (hb_le_hdata le A fs _ HA). destruct (find_none le A fs (zeros (hdr_pad le fs)) k HA W Hn) as [r Hfind]. rewrite Hfind. reflexivity.
    + rewrite (hb_le_hdata le A fs _ HA). destruct (find_none le A fs (zeros (hdr_pad le fs)) k HA W Hn) as [r Hfind]. rewrite Hfind. reflexivity.
  - (* the field exists *)
    assert (Hck : match cache_get c k with CNonexistent => false | _ => true end = true).
    { destruct Hc as [_ Hc]. destruct (Hc k Hk) as [X|X]; rewrite X; [reflexivity|]. rewrite Ce. reflexivity. }
    destruct (cache_get c k) eqn:E; try discriminate Hck.
    all: rewrite (hb_le_hdata le A fs _ HA);
      destruct (find_found le A fs (zeros (hdr_pad le fs)) k pre f post HA W Efs Hpre Hf) as [Hfind _]; rewrite Hfind; cbn [negb];
      rewrite reserve_ok; cbn [h_data h_padding h_cache]; subst fs;
      rewrite (reader_delete_ok le A pre f post (zeros 7) HA W);
      rewrite (correct_ok le A (pre ++ post) c (proj1 HA)); cbn [h_data h_padding h_cache];
      rewrite (del_field_split k pre f post Hpre Hf Hpost); rewrite hdr_bytes_hdata; fold A;
      pose proof (hwf_remove le pre f post HW) as HW';
      (destruct dbg;
       [ destruct (cache_check_ok le A (pre ++ post) (zeros (hdr_pad le (pre ++ post))) (hdr_pad le (pre ++ post)) (cache_all CUnknown) k HA (proj1 HW')
                    (cache_sem_unknown le (pre ++ post)) Hk) as (c1 & Ecc & Hc1 & _);
         rewrite Ecc; rewrite (cache_of_absent le (pre ++ post) k Hk ltac:(rewrite has_code_app, Hpre, Hpost; reflexivity)); cbn [fst snd];
         exists c1; split; [reflexivity | split; assumption]
       | exists (cache_all CUnknown); split; [reflexivity | split; [apply cache_sem_unknown | exact HW']] ]).
Qed.

(* ---- an element = head (padding, code, variant signature, padding) ++ value ------------------------ *)
Definition fhead (code : N) (t : ty) (p : N) : bytes :=
  zeros (pad_amount p 8) ++ code :: nlen (print_ty t) :: print_ty t ++ 0 ::
  zeros (pad_amount (p + pad_amount p 8 + 1 + (nlen (print_ty t) + 2)) (spec_align t)).

Lemma enc_fhead le f p : rwf le p (enc_field le f) = true ->
  enc le (enc_field le f) p = fhead (sf_code f) (sf_ty f) p ++ enc le (sf_val f) (val_pos f p).
Proof.
  intros W. destruct (elem_facts le f p W) as (_ & _ & _ & _ & _ & E). rewrite E. unfold fhead.
  rewrite <- !app_assoc. cbn [app]. rewrite <- !app_assoc. reflexivity.
Qed.

Lemma nlen_fhead f p : p + nlen (fhead (sf_code f) (sf_ty f) p) = val_pos f p.
Proof. unfold fhead, val_pos. rewrite !nlen_app, !nlen_cons, !nlen_app, !nlen_cons, !nlen_zeros. lia. Qed.

(* the edited value of a header field: of the type of the table, and marshallable *)
Definition edit_val_ok (k : N) (v : val) : Prop := field_ty k = Some (ty_of_val v) /\ hval_ok v = true.

Lemma mk_field_rwf le k v p : edit_val_ok k v -> rwf le p (enc_field le (mk_field k v)) = true.
Proof.
  intros [Ht Hv]. destruct (field_ty_cases k _ Ht) as (Hk & Hc & _).
  unfold mk_field, enc_field. cbn [sf_code sf_ty sf_val]. rewrite rwf_struct. cbn [isnil negb andb rwfs].
  rewrite enc_byte, nlen1. apply andb_true_iff. split.
  - cbn [rwf fixed_size N.eqb Pos.eqb]. change (256 ^ 1) with 256. lia.
  - rewrite andb_true_r. cbn [rwf]. rewrite ty_eqb_refl. cbn [andb]. rewrite (hval_rwf le _ v Hv), andb_true_r.
    destruct Hc as [-> | [-> | [-> | ->]]]; reflexivity.
Qed.

Lemma val_typecode_ty v : hval_ok v = true -> code_of (ty_of_val v) = val_typecode v.
Proof. destruct v; try discriminate; reflexivity. Qed.

(* the stored value of a known field with the type of [v] has the same shape *)
Lemma type_fixed_cases t : t = TBasic 111 \/ t = TBasic 115 \/ t = TBasic 117 \/ t = TBasic 103 ->
  (t = TBasic 117 /\ type_fixed (code_of t) = true) \/ (t <> TBasic 117 /\ type_fixed (code_of t) = false).
Proof. intros [-> | [-> | [-> | ->]]]; [right|right|left|right]; (split; [try discriminate; reflexivity | reflexivity]). Qed.

Section SetPresent.
  Variables (le : bool) (A : bytes) (pre : list sfield) (f : sfield) (post : list sfield) (k : N) (v : val).
  Hypothesis HA : fixed_ok le A.
  Hypothesis W : hok le (pre ++ f :: post).
  Hypothesis Hf : sf_code f = k.
  Hypothesis Hty : sf_ty f = ty_of_val v.
  Hypothesis Hv : edit_val_ok k v.
  Let fs := pre ++ f :: post.
  Let e0 := end_of le pre 16.
  Let d := hdata le A fs (zeros 7).

  Lemma set_basic_field_ok : lvl_ok le HSIG d (areader 7 e0) (elems le (f :: post)) ->
    set_basic_field le d (areader 7 e0) k v root_reader = inl (hdata le A (pre ++ mk_field k v :: post) (zeros 7)).
  Proof.
    intros L. destruct Hv as [Hft Hvo].
    destruct (elem_step le d 7 e0 f post L) as (_ & We & [tl0 D0] & _ & (sub & Hr & _ & Hcode & Hvar) & Hctv & [tlv Dv] & _).
    destruct (elem_facts le f e0 We) as (_ & Hxty & _ & _ & Wx & _).
    unfold set_basic_field. rewrite Hr, Hcode, Hf, N.eqb_refl. cbn [negb]. rewrite Hvar, Hctv, Hty, (val_typecode_ty v Hvo), N.eqb_refl. cbn [negb].
    unfold reader_set_basic. rewrite Hctv, Hty.
    destruct (field_ty_cases k _ Hft) as (_ & Hcases & _).
    (* the new element *)
    set (f' := mk_field k v).
    assert (Wf' : rwf le e0 (enc_field le f') = true) by (apply mk_field_rwf; split; assumption).
    assert (Hhead : fhead (sf_code f') (sf_ty f') e0 = fhead (sf_code f) (sf_ty f) e0) by (subst f'; unfold mk_field; cbn [sf_code sf_ty]; rewrite Hf, Hty; reflexivity).
    assert (Hvp : val_pos f' e0 = val_pos f e0) by (subst f'; unfold val_pos, mk_field; cbn [sf_ty]; rewrite Hty; reflexivity).
    assert (Hsplit : payload le fs = (encs le (elems le pre) 16 ++ fhead (sf_code f) (sf_ty f) e0) ++ enc le (sf_val f) (val_pos f e0) ++
                                     encs le (elems le post) (end_of le [f] e0)).
    { subst fs e0. rewrite payload_split, (enc_fhead le f _ We), <- !app_assoc. reflexivity. }
    assert (Hnew : forall tail, (encs le (elems le pre) 16 ++ fhead (sf_code f) (sf_ty f) e0) ++ enc le v (val_pos f e0) ++ tail =
                                encs le (elems le pre) 16 ++ enc le (enc_field le f') e0 ++ tail).
    { intros tail. rewrite (enc_fhead le f' _ Wf'), Hhead, Hvp, <- !app_assoc. reflexivity. }
    assert (Hcutpos : nlen (encs le (elems le pre) 16 ++ fhead (sf_code f) (sf_ty f) e0) + 16 = val_pos f e0).
    { rewrite nlen_app. pose proof (nlen_fhead f e0). subst e0. unfold end_of in *. lia. }
    destruct (type_fixed_cases _ Hcases) as [[Eu Hfix]|[Nu Hfix]]; rewrite Hfix.
    - (* UINT32: overwritten in place *)
      assert (Ev : exists n, v = VNum 117 n /\ n < 4294967296).
      { destruct v as [c n|c s| | | | ]; cbn [ty_of_val] in Eu; try discriminate. injection Eu as ->. cbn [hval_ok] in Hvo. exists n. split; [reflexivity|lia].
        injection Eu as ->. cbn in Hvo. discriminate. }
      destruct Ev as (n & -> & Hn).
      assert (Ex : exists n0, sf_val f = VNum 117 n0).
      { rewrite Hty in Hxty. cbn [ty_of_val] in Hxty. destruct (sf_val f) as [c n0|c s| | | | ]; cbn [ty_of_val] in Hxty; try discriminate; injection Hxty as ->.
        - eexists. reflexivity.
        - cbn in Wx. rewrite andb_false_r in Wx. discriminate. }
      destruct Ex as (n0 & Ex).
      assert (Hal : pad_amount (val_pos f e0) 4 = 0).
      { unfold val_pos. rewrite Hty. cbn [ty_of_val spec_align fixed_size N.eqb Pos.eqb orb]. apply pad_amount_aligned. lia. }
      unfold reader_set_basic_fixed_length. cbn [r_vpos vreader]. change (117 =? DBUS_TYPE_UINT32) with true. cbn [negb].
      rewrite (align_up_pad _ 4 ltac:(lia)), Hal, N.add_0_r, N.eqb_refl. cbn [negb].
      assert (Hd : d = (A ++ bytes_of le 4 (nlen (payload le fs)) ++ encs le (elems le pre) 16 ++ fhead (sf_code f) (sf_ty f) e0) ++
                       bytes_of le 4 n0 ++ (encs le (elems le post) (end_of le [f] e0) ++ zeros 7)).
      { subst d. unfold hdata. rewrite Hsplit at 2. rewrite Ex, (enc_u32p le n0 _ Hal), <- !app_assoc. reflexivity. }
      rewrite Hd at 1. rewrite (str_overwrite_app _ (bytes_of le 4 n0) _ (bytes_of le 4 n) (val_pos f e0)).
      2:{ rewrite !nlen_app in *. rewrite (proj1 HA), (bytes_of_length le 4). lia. }
      2:{ rewrite !(bytes_of_length le 4). reflexivity. }
      (* the same bytes as the header of the edited list *)
      assert (Hp' : payload le (pre ++ f' :: post) = (encs le (elems le pre) 16 ++ fhead (sf_code f) (sf_ty f) e0) ++ bytes_of le 4 n ++ encs le (elems le post) (end_of le [f] e0)).
      { assert (Hends : end_of le [f'] e0 = end_of le [f] e0).
        { unfold end_of. cbn [elems map encs]. rewrite !app_nil_r.
          rewrite (enc_fhead le f' _ Wf'), (enc_fhead le f _ We), Hhead, Hvp, Ex. change (sf_val f') with (VNum 117 n).
          rewrite !nlen_app, !(enc_u32p le _ _ Hal), !(bytes_of_length le 4). reflexivity. }
        rewrite payload_split. fold e0. rewrite <- (enc_u32p le n (val_pos f e0) Hal), Hnew, Hends. reflexivity. }
      unfold hdata. rewrite Hp'. f_equal. rewrite <- !app_assoc. do 2 f_equal.
      f_equal. rewrite Hsplit, Ex, (enc_u32p le n0 _ Hal), !nlen_app, !(bytes_of_length le 4). lia.
    - (* string-like: the replacement block *)
      unfold reader_set_basic_variable_length. cbn [r_vpos vreader].
      set (k8 := val_pos f e0 mod 8).
      replace (zeros k8) with (zeros k8 ++ []) at 1 by apply app_nil_r.
      rewrite (marshal_write_enc le (zeros k8) [] v (nlen (zeros k8)) Hvo eq_refl). cbn [fst]. rewrite app_nil_r.
      rewrite nlen_zeros. rewrite (enc_cong le v k8 (val_pos f e0)) by (subst k8; lia).
      pose proof (rbr_ok le A pre f post (zeros 7) (vreader f e0) (val_pos f e0) (enc le v (val_pos f e0))
                         (encs le (elems le pre) 16 ++ fhead (sf_code f) (sf_ty f) e0) (enc le (sf_val f) (val_pos f e0)) HA W) as R.
      cbv zeta in R. fold e0 fs d in R. fold k8 in R. rewrite R; [|right; split; reflexivity|exact Hsplit|exact Hcutpos].
      unfold hdata. rewrite Hnew. rewrite payload_split. fold e0.
      replace (end_of le [f'] e0) with (val_pos f e0 + nlen (enc le v (val_pos f e0))); [reflexivity|].
      unfold end_of. cbn [elems map encs]. rewrite app_nil_r. rewrite (enc_fhead le f' _ Wf'), Hhead, Hvp, nlen_app.
      change (sf_val f') with v. pose proof (nlen_fhead f e0). lia.
  Qed.
End SetPresent.

(* ---- the append branch of _dbus_header_set_field_basic ------------------------------------------------ *)
Lemma append_field_ok le A fs k v : fixed_ok le A -> hok le fs -> edit_val_ok k v ->
  append_field le (hdata le A fs (zeros 7)) k v = inl (hdata le A (fs ++ [mk_field k v]) (zeros 7)).
Proof.
  intros HA W Hv. pose proof Hv as [Hft Hvo]. destruct (hok_rwfs le fs W) as [_ Hlen]. destruct HA as [H12 HA'].
  destruct (field_ty_cases k _ Hft) as (Hk & Hcases & _).
  set (P := payload le fs) in *. set (vp := 16 + nlen P).
  set (f' := mk_field k v).
  assert (Wf' : rwf le vp (enc_field le f') = true) by (apply mk_field_rwf; exact Hv).
  (* the type of the value *)
  set (tc := val_typecode v).
  assert (Htc : ty_of_val v = TBasic tc /\ type_align tc = inl (spec_align (TBasic tc)) /\ al_ok (spec_align (TBasic tc))).
  { subst tc. rewrite <- (val_typecode_ty v Hvo). unfold al_ok. destruct Hcases as [E|[E|[E|E]]]; rewrite E; cbn; (split; [reflexivity|split; [reflexivity|lia]]). }
  destruct Htc as (Etc & Hal & Halok). set (al := spec_align (TBasic tc)) in *.
  unfold append_field, FIELDS_ARRAY_LENGTH_OFFSET, FIRST_FIELD_OFFSET, MAX_POSSIBLE_HEADER_PADDING. fold tc.
  (* the array length *)
  assert (Hnum : get_num le (hdata le A fs (zeros 7)) 12 4 = inl (nlen P)).
  { apply (get_num_at le _ 12 4 (nlen P) (P ++ zeros 7)); [|change (256 ^ 4) with 4294967296; exact Hlen].
    unfold hdata. rewrite (bytes_from_app12 A _ H12). reflexivity. }
  rewrite Hnum. fold vp.
  set (D0 := A ++ bytes_of le 4 (nlen P) ++ P).
  assert (HD0 : nlen D0 = vp) by (subst D0 vp; rewrite !nlen_app, H12, (bytes_of_length le 4); lia).
  assert (Hd : hdata le A fs (zeros 7) = D0 ++ zeros 7) by (subst D0; unfold hdata; fold P; rewrite <- !app_assoc; reflexivity).
  rewrite Hd. rewrite nlen_app, HD0, nlen_zeros, N.eqb_refl. cbn [negb].
  rewrite (align_up_pad vp 8 ltac:(lia)). set (pd := pad_amount vp 8). replace (vp + pd - vp) with pd by lia.
  rewrite (str_insert_app D0 (zeros 7) (zeros pd) vp (eq_sym HD0)).
  replace (D0 ++ zeros pd ++ zeros 7) with ((D0 ++ zeros pd) ++ zeros 7) by (rewrite <- !app_assoc; reflexivity).
  rewrite (str_insert_app (D0 ++ zeros pd) (zeros 7) [k mod 256] (vp + pd)) by (rewrite nlen_app, HD0, nlen_zeros; reflexivity).
  replace ((D0 ++ zeros pd) ++ [k mod 256] ++ zeros 7) with ((D0 ++ zeros pd ++ [k mod 256]) ++ zeros 7) by (rewrite <- !app_assoc; reflexivity).
  rewrite (str_insert_app (D0 ++ zeros pd ++ [k mod 256]) (zeros 7) [1; tc; 0] (vp + pd + 1)) by (rewrite !nlen_app, HD0, nlen_zeros; cbn; lia).
  rewrite Hal. rewrite (align_up_pad _ _ Halok). set (pq := pad_amount (vp + pd + 4) al). replace (vp + pd + 4 + pq - (vp + pd + 4)) with pq by lia.
  replace ((D0 ++ zeros pd ++ [k mod 256]) ++ [1; tc; 0] ++ zeros 7) with ((D0 ++ zeros pd ++ [k mod 256] ++ [1; tc; 0]) ++ zeros 7) by (rewrite <- !app_assoc; reflexivity).
  rewrite (str_insert_app (D0 ++ zeros pd ++ [k mod 256] ++ [1; tc; 0]) (zeros 7) (zeros pq) (vp + pd + 4)) by (rewrite !nlen_app, HD0, nlen_zeros; cbn; lia).
  replace ((D0 ++ zeros pd ++ [k mod 256] ++ [1; tc; 0]) ++ zeros pq ++ zeros 7) with ((D0 ++ zeros pd ++ [k mod 256] ++ [1; tc; 0] ++ zeros pq) ++ zeros 7)
    by (rewrite <- !app_assoc; reflexivity).
  rewrite (marshal_write_enc le (D0 ++ zeros pd ++ [k mod 256] ++ [1; tc; 0] ++ zeros pq) (zeros 7) v (vp + pd + 4 + pq) Hvo)
    by (rewrite !nlen_app, HD0, !nlen_zeros; change (nlen [k mod 256]) with 1; change (nlen [1; tc; 0]) with 3; lia).
  (* the length word *)
  subst D0. rewrite <- !app_assoc.
  rewrite (str_overwrite_app A (bytes_of le 4 (nlen P)) _ (bytes_of le 4 (vp + pd + 4 + pq + nlen (enc le v (vp + pd + 4 + pq)) - 16)) 12 (eq_sym H12))
    by (rewrite !(bytes_of_length le 4); reflexivity).
  (* the header of fs ++ [f'] *)
  assert (Hvp' : val_pos f' vp = vp + pd + 4 + pq).
  { subst f' pq pd al. unfold val_pos, mk_field. cbn [sf_ty]. rewrite Etc. cbn [print_ty]. change (nlen [tc]) with 1.
    replace (vp + pad_amount vp 8 + 1 + (1 + 2)) with (vp + pad_amount vp 8 + 4) by lia. reflexivity. }
  assert (Hhead : fhead (sf_code f') (sf_ty f') vp = zeros pd ++ [k mod 256] ++ [1; tc; 0] ++ zeros pq).
  { subst f' pq pd al. unfold fhead, mk_field. cbn [sf_code sf_ty]. rewrite Etc. cbn [print_ty app]. change (nlen [tc]) with 1.
    replace (vp + pad_amount vp 8 + 1 + (1 + 2)) with (vp + pad_amount vp 8 + 4) by lia. rewrite N.mod_small by lia. reflexivity. }
  assert (HP' : payload le (fs ++ [f']) = P ++ zeros pd ++ [k mod 256] ++ [1; tc; 0] ++ zeros pq ++ enc le v (vp + pd + 4 + pq)).
  { rewrite payload_app. fold P. f_equal. cbn [elems map encs]. rewrite app_nil_r.
    replace (end_of le fs 16) with vp by reflexivity. rewrite (enc_fhead le f' _ Wf'), Hhead, Hvp'. change (sf_val f') with v.
    rewrite <- !app_assoc. reflexivity. }
  unfold hdata. rewrite HP'. f_equal. rewrite <- !app_assoc. f_equal.
  f_equal. rewrite !nlen_app, !nlen_zeros. change (nlen [k mod 256]) with 1. change (nlen [1; tc; 0]) with 3. f_equal. unfold vp at 1. lia.
Qed.

(* ---- _dbus_header_set_field_basic ----------------------------------------------------------------------- *)
Theorem hb_set_ok le mt fl bl sr fs c k v : hwf le fs -> cache_sem le fs c -> edit_val_ok k v ->
  hb_set_field k v (mkH (hdr_bytes le mt fl bl sr fs) (hdr_pad le fs) c) =
  inl (mkH (hdr_bytes le mt fl bl sr (set_field fs k v)) (hdr_pad le (set_field fs k v)) (cache_all CUnknown)).
Proof.
  intros (W & U & Ty) Hc Hv. pose proof Hv as [Hft Hvo]. destruct (field_ty_cases k _ Hft) as (Hk & _ & _).
  pose proof (fixed_ok_hdr le mt fl bl sr) as HA. set (A := hdr_fixed le mt fl bl sr) in *.
  rewrite !hdr_bytes_hdata. fold A. unfold hb_set_field. unfold DBUS_HEADER_FIELD_LAST. replace (10 <? k) with false by lia.
  rewrite reserve_ok.
  destruct (cache_check_ok le A fs (zeros 7) 7 c k HA W Hc ltac:(lia)) as (c1 & Ecc & _ & _). rewrite Ecc. cbn [h_data h_padding h_cache].
  rewrite (hb_le_hdata le A fs _ HA).
  destruct (cache_of_entry le fs k ltac:(lia) U) as [[Hn Ce]|(pre & f & post & Efs & Hf & Hpre & Hpost & Ce)]; rewrite Ce.
  - rewrite (append_field_ok le A fs k v HA W Hv). rewrite (set_field_absent k v fs Hn).
    rewrite (correct_ok le A _ c1 (proj1 HA)). reflexivity.
  - subst fs.
    destruct (find_found le A _ (zeros 7) k pre f post HA W eq_refl Hpre Hf) as [Hfind L]. rewrite Hfind. cbn [negb].
    assert (Hty : sf_ty f = ty_of_val v).
    { pose proof (typed_known_at pre f post Ty ltac:(lia)) as X. rewrite Hf, Hft in X. injection X as X. symmetry. exact X. }
    rewrite (set_basic_field_ok le A pre f post k v HA W Hf Hty Hv L). rewrite (set_field_split k v pre f post Hpre Hf).
    rewrite (correct_ok le A _ c1 (proj1 HA)). reflexivity.
Qed.

(* ---- hwf is kept by a set (given that the new array still fits its length word) ---------------------------- *)
Lemma has_code_replace c pre f f' post : sf_code f' = sf_code f -> has_code c (pre ++ f' :: post) = has_code c (pre ++ f :: post).
Proof. intros H. rewrite !has_code_app. cbn [has_code existsb]. rewrite H. reflexivity. Qed.

Lemma uniqb_replace : forall pre f f' post, sf_code f' = sf_code f -> uniqb (pre ++ f' :: post) = uniqb (pre ++ f :: post).
Proof.
  induction pre as [|g pre IH]; intros f f' post H; cbn [app uniqb].
  - rewrite H. reflexivity.
  - rewrite (has_code_replace (sf_code g) pre f f' post H), (IH f f' post H). reflexivity.
Qed.

Lemma uniqb_snoc : forall fs f', has_code (sf_code f') fs = false -> uniqb fs = true -> uniqb (fs ++ [f']) = true.
Proof.
  induction fs as [|g fs IH]; intros f' Hn U.
  - cbn. rewrite orb_true_r. reflexivity.
  - cbn [has_code existsb] in Hn. apply orb_false_iff in Hn. destruct Hn as [Hg Hn]. cbn [app uniqb] in *.
    apply andb_true_iff in U. destruct U as [U1 U2]. rewrite (IH f' Hn U2), andb_true_r.
    destruct (10 <? sf_code g); [reflexivity|]. cbn [orb] in *. rewrite has_code_app. cbn [has_code existsb]. rewrite orb_false_r.
    replace (sf_code f' =? sf_code g) with false by lia. rewrite orb_false_r. exact U1.
Qed.

Lemma mk_field_typed k v : edit_val_ok k v ->
  ((10 <? sf_code (mk_field k v)) || match field_ty (sf_code (mk_field k v)) with Some t => ty_eqb t (sf_ty (mk_field k v)) | None => false end) = true.
Proof. intros [Hft _]. unfold mk_field. cbn [sf_code sf_ty]. rewrite Hft, ty_eqb_refl. apply orb_true_r. Qed.

Lemma hwf_set le fs k v : hwf le fs -> edit_val_ok k v -> nlen (payload le (set_field fs k v)) < 4294967296 -> hwf le (set_field fs k v).
Proof.
  intros (W & U & Ty) Hv Hsz. apply hok_iff in W. destruct W as [W1 _].
  destruct (has_code k fs) eqn:E.
  - destruct (split_first k fs E) as (pre & f & post & -> & Hf & Hpre). rewrite (set_field_split k v pre f post Hpre Hf) in *.
    split; [|split].
    + apply hok_iff. split; [|exact Hsz]. rewrite fields_rwf_app in *. cbn [fields_rwf forallb] in *.
      apply andb_true_iff in W1. destruct W1 as [Wa Wb]. apply andb_true_iff in Wb. destruct Wb as [_ Wb].
      rewrite Wa, (mk_field_rwf le k v 0 Hv), Wb. reflexivity.
    + rewrite (uniqb_replace pre f (mk_field k v) post); [exact U | cbn; symmetry; exact Hf].
    + unfold typed_known in *. rewrite forallb_app in *. cbn [forallb] in *. apply andb_true_iff in Ty. destruct Ty as [Ta Tb].
      apply andb_true_iff in Tb. destruct Tb as [_ Tb]. rewrite Ta, Tb, (mk_field_typed k v Hv). reflexivity.
  - rewrite (set_field_absent k v fs E) in *. split; [|split].
    + apply hok_iff. split; [|exact Hsz]. rewrite fields_rwf_app. cbn [fields_rwf forallb]. rewrite W1, (mk_field_rwf le k v 0 Hv). reflexivity.
    + apply uniqb_snoc; [cbn; exact E | exact U].
    + unfold typed_known in *. rewrite forallb_app. cbn [forallb]. rewrite Ty, (mk_field_typed k v Hv). reflexivity.
Qed.

(* ================= P. a well-formed message has a well-formed header ================================ *)
Lemma field_ty_some k t : field_ty k = Some t -> 1 <= k <= 10.
Proof. intros H. exact (proj1 (field_ty_cases k t H)). Qed.

Lemma field_ty_none k : field_ty k = None -> k = 0 \/ 10 < k.
Proof.
  unfold field_ty. destruct ((k =? 1) || (k =? 10)) eqn:E1; [discriminate|].
  destruct ((k =? 2) || (k =? 3) || (k =? 4) || (k =? 6) || (k =? 7)) eqn:E2; [discriminate|].
  destruct ((k =? 5) || (k =? 9)) eqn:E3; [discriminate|]. destruct (k =? 8) eqn:E4; [discriminate|]. intros _. lia.
Qed.

Lemma fields_ok_hwf : forall fs seen, fields_ok seen fs = true ->
  uniqb fs = true /\ typed_known fs = true /\ (forall k, 1 <= k <= 10 -> existsb (N.eqb k) seen = true -> has_code k fs = false).
Proof.
  induction fs as [|f r IH]; intros seen H.
  - split; [reflexivity|]. split; [reflexivity|]. intros; reflexivity.
  - cbn [fields_ok] in H. destruct (sf_code f =? 0) eqn:E0; [discriminate|].
    destruct (field_ty (sf_code f)) as [t|] eqn:Et.
    + apply andb_true_iff in H. destruct H as [H Hr]. apply andb_true_iff in H. destruct H as [H _]. apply andb_true_iff in H. destruct H as [Hty Hseen].
      pose proof (field_ty_some _ _ Et) as Hk. destruct (IH _ Hr) as (U & Ty & Hs).
      assert (Hnot : has_code (sf_code f) r = false) by (apply Hs; [exact Hk | cbn [existsb]; rewrite N.eqb_refl; reflexivity]).
      split; [|split].
      * cbn [uniqb]. rewrite Hnot, U. cbn [negb]. rewrite orb_true_r. reflexivity.
      * unfold typed_known in *. cbn [forallb]. rewrite Et, Hty, Ty, orb_true_r. reflexivity.
      * intros k Hk' Hin. change (has_code k (f :: r)) with ((sf_code f =? k) || has_code k r). rewrite (Hs k Hk' ltac:(cbn [existsb]; rewrite Hin; apply orb_true_r)), orb_false_r.
        destruct (sf_code f =? k) eqn:E; [|reflexivity]. apply N.eqb_eq in E. subst k. rewrite Hin in Hseen. discriminate.
    + destruct (field_ty_none _ Et) as [Hz|Hbig]; [lia|]. destruct (IH _ H) as (U & Ty & Hs). split; [|split].
      * cbn [uniqb]. replace (10 <? sf_code f) with true by lia. exact U.
      * unfold typed_known in *. cbn [forallb]. replace (10 <? sf_code f) with true by lia. exact Ty.
      * intros k Hk' Hin. change (has_code k (f :: r)) with ((sf_code f =? k) || has_code k r). rewrite (Hs k Hk' Hin), orb_false_r. lia.
Qed.

Theorem wf_msg_hwf m : wf_msg m = true -> hwf (s_le m) (s_fields m).
Proof.
  intros H. unfold wf_msg in H. cbv zeta in H. repeat (apply andb_true_iff in H; destruct H as [H ?]).
  match goal with Hw : wfb _ 0 12 _ = true |- _ => rename Hw into Wf end.
  match goal with Hf : fields_ok [] _ = true |- _ => rename Hf into Fo end.
  destruct (fields_ok_hwf _ _ Fo) as (U & Ty & _). split; [|split; assumption].
  unfold hok. destruct (wfb_wfx (s_le m) _ _ _ Wf) as [X _]. apply (wfx_rwf (s_le m) _ 0 12 X). reflexivity.
Qed.

(* ================= Q. _dbus_header_remove_unknown_fields ============================================== *)
Lemma lvl_nil_tp le d tp tp2 p : lvl_ok le HSIG d (areader tp p) [] -> lvl_ok le HSIG d (areader tp2 p) [].
Proof.
  intros (D & Wr & Fin & (et & L & H1 & H2 & _ & H4)). split; [exact D|]. split; [exact Wr|]. split; [exact Fin|].
  exists et, L. split; [exact H1|]. split; [exact H2|]. split; [intros X; exfalso; apply X; reflexivity | exact H4].
Qed.

Lemma lvl_tp7 le d tp p rest : lvl_ok le HSIG d (areader tp p) (elems le rest) -> lvl_ok le HSIG d (areader 7 p) (elems le rest).
Proof.
  intros L. destruct rest as [|g rest]; [exact (lvl_nil_tp le d tp 7 p L)|].
  destruct (elem_step le d tp p g rest L) as (-> & _). exact L.
Qed.

Lemma strip_loop_ok le A : fixed_ok le A -> forall rest kept n tp c,
  (length rest < n)%nat -> hwf le (kept ++ rest) -> cache_sem le (kept ++ rest) c ->
  lvl_ok le HSIG (hdata le A (kept ++ rest) (zeros (hdr_pad le (kept ++ rest)))) (areader tp (end_of le kept 16)) (elems le rest) ->
  exists c', strip_loop n (areader tp (end_of le kept 16)) (mkH (hdata le A (kept ++ rest) (zeros (hdr_pad le (kept ++ rest)))) (hdr_pad le (kept ++ rest)) c) =
             inl (mkH (hdata le A (kept ++ strip_unknown rest) (zeros (hdr_pad le (kept ++ strip_unknown rest)))) (hdr_pad le (kept ++ strip_unknown rest)) c') /\
             cache_sem le (kept ++ strip_unknown rest) c' /\ hwf le (kept ++ strip_unknown rest).
Proof.
  intros HA. induction rest as [|g rest IH]; intros kept n tp c Hn HW Hc L; (destruct n as [|n]; [cbn [length] in Hn; lia|]); cbn [strip_loop h_data].
  - rewrite (hb_le_hdata le A _ _ HA). rewrite (lvl_nil_ct le _ tp _ L). change (T_INVALID =? T_INVALID) with true. cbv iota.
    exists c. cbn [strip_unknown filter]. split; [reflexivity|]. split; assumption.
  - rewrite (hb_le_hdata le A _ _ HA).
    destruct (elem_step le _ tp _ g rest L) as (Htp & _ & _ & Hct & (sub & Hr & _ & Hcode & _) & _ & _ & (tp' & Hnx & L')). subst tp.
    rewrite Hct. change (DBUS_TYPE_STRUCT =? T_INVALID) with false. cbv iota. rewrite Hr, Hcode.
    unfold strip_unknown. cbn [filter]. fold (strip_unknown rest). unfold DBUS_HEADER_FIELD_LAST.
    destruct (10 <? sf_code g) eqn:Eg.
    + (* unknown field: deleted, the same reader goes on *)
      replace (sf_code g <=? 10) with false by lia.
      rewrite reserve_ok. cbn [h_data h_padding h_cache].
      rewrite (reader_delete_ok le A kept g rest (zeros 7) HA (proj1 HW)).
      rewrite (correct_ok le A _ c (proj1 HA)). cbn [h_data h_padding h_cache].
      pose proof (hwf_remove le kept g rest HW) as HW'.
      pose proof (hdata_root le A (kept ++ rest) (zeros (hdr_pad le (kept ++ rest))) HA (proj1 HW')) as L0.
      destruct (walk_prefix le _ kept rest 7 16 L0) as (tp2 & L2 & _). apply lvl_tp7 in L2.
      apply (IH kept n 7 (cache_all CUnknown) ltac:(cbn [length] in Hn; lia) HW' (cache_sem_unknown le _) L2).
    + replace (sf_code g <=? 10) with true by lia. rewrite Hnx. cbn [fst].
      replace (kept ++ g :: rest) with ((kept ++ [g]) ++ rest) in * by (rewrite <- app_assoc; reflexivity).
      replace (kept ++ g :: strip_unknown rest) with ((kept ++ [g]) ++ strip_unknown rest) by (rewrite <- app_assoc; reflexivity).
      replace (end_of le kept 16 + nlen (enc le (enc_field le g) (end_of le kept 16))) with (end_of le (kept ++ [g]) 16) in *
        by (rewrite end_of_app, end_of_cons, end_of_nil; reflexivity).
      apply (IH (kept ++ [g]) n tp' c ltac:(cbn [length] in Hn; lia) HW Hc L').
Qed.

Theorem hb_strip_ok le mt fl bl sr fs c : hwf le fs -> cache_sem le fs c ->
  exists c', hb_strip (mkH (hdr_bytes le mt fl bl sr fs) (hdr_pad le fs) c) =
             inl (mkH (hdr_bytes le mt fl bl sr (strip_unknown fs)) (hdr_pad le (strip_unknown fs)) c') /\
             cache_sem le (strip_unknown fs) c' /\ hwf le (strip_unknown fs).
Proof.
  intros HW Hc. pose proof (fixed_ok_hdr le mt fl bl sr) as HA. set (A := hdr_fixed le mt fl bl sr) in *.
  rewrite !hdr_bytes_hdata. fold A. unfold hb_strip. cbn [h_data]. rewrite recurse_root.
  pose proof (hdata_root le A fs (zeros (hdr_pad le fs)) HA (proj1 HW)) as L.
  apply (strip_loop_ok le A HA fs [] _ 7 c (fs_fuel _ _ _ _ L) HW Hc L).
Qed.

(* ================= R. serial and body length ============================================================ *)
Lemma hdr_bytes_shape le mt fl bl sr fs :
  hdr_bytes le mt fl bl sr fs =
  [if le then 108 else 66; mt; fl; 1] ++ bytes_of le 4 bl ++ bytes_of le 4 sr ++
  (bytes_of le 4 (nlen (payload le fs)) ++ payload le fs ++ zeros (hdr_pad le fs)).
Proof. unfold hdr_bytes, hdr_unpadded, hdr_fixed. rewrite <- !app_assoc. reflexivity. Qed.

Lemma hb_le_hdr le mt fl bl sr fs : hb_le (hdr_bytes le mt fl bl sr fs) = inl le.
Proof. rewrite hdr_bytes_hdata. apply hb_le_hdata. apply fixed_ok_hdr. Qed.

Theorem hb_update_lengths_ok le mt fl bl sr fs c n :
  hb_update_lengths n (mkH (hdr_bytes le mt fl bl sr fs) (hdr_pad le fs) c) = inl (mkH (hdr_bytes le mt fl n sr fs) (hdr_pad le fs) c).
Proof.
  unfold hb_update_lengths. cbn [h_data h_padding h_cache]. rewrite hb_le_hdr. rewrite !hdr_bytes_shape. unfold BODY_LENGTH_OFFSET.
  rewrite (str_overwrite_app [if le then 108 else 66; mt; fl; 1] (bytes_of le 4 bl) _ (bytes_of le 4 n) 4 eq_refl) by (rewrite !(bytes_of_length le 4); reflexivity).
  reflexivity.
Qed.

Theorem hb_set_serial_ok le mt fl bl sr fs c s : sr < 4294967296 -> sr = 0 \/ s = 0 ->
  hb_set_serial s (mkH (hdr_bytes le mt fl bl sr fs) (hdr_pad le fs) c) = inl (mkH (hdr_bytes le mt fl bl s fs) (hdr_pad le fs) c).
Proof.
  intros Hsr H0. unfold hb_set_serial. cbn [h_data h_padding h_cache]. rewrite hb_le_hdr. rewrite !hdr_bytes_shape. unfold SERIAL_OFFSET.
  set (rest := bytes_of le 4 (nlen (payload le fs)) ++ payload le fs ++ zeros (hdr_pad le fs)).
  assert (Hnum : get_num le ([if le then 108 else 66; mt; fl; 1] ++ bytes_of le 4 bl ++ bytes_of le 4 sr ++ rest) 8 4 = inl sr).
  { apply (get_num_at le _ 8 4 sr rest); [|change (256 ^ 4) with 4294967296; exact Hsr].
    replace ([if le then 108 else 66; mt; fl; 1] ++ bytes_of le 4 bl ++ bytes_of le 4 sr ++ rest)
      with (([if le then 108 else 66; mt; fl; 1] ++ bytes_of le 4 bl) ++ bytes_of le 4 sr ++ rest) by (rewrite <- app_assoc; reflexivity).
    unfold bytes_from. replace 8 with (nlen ([if le then 108 else 66; mt; fl; 1] ++ bytes_of le 4 bl)) by (rewrite nlen_app, (bytes_of_length le 4); reflexivity).
    apply skipn_nlen_app. }
  rewrite Hnum. replace (negb ((sr =? 0) || (s =? 0))) with false by lia.
  replace ([if le then 108 else 66; mt; fl; 1] ++ bytes_of le 4 bl ++ bytes_of le 4 sr ++ rest)
    with (([if le then 108 else 66; mt; fl; 1] ++ bytes_of le 4 bl) ++ bytes_of le 4 sr ++ rest) by (rewrite <- app_assoc; reflexivity).
  rewrite (str_overwrite_app _ (bytes_of le 4 sr) rest (bytes_of le 4 s) 8) by (rewrite ?nlen_app, !(bytes_of_length le 4); reflexivity).
  rewrite <- app_assoc. reflexivity.
Qed.

(* ================= S. the refinement theorems ============================================================= *)
Definition edit_ok (e : edit) : Prop :=
  match e with ESet k v => edit_val_ok k v | EDel k => k <= 10 | EStrip => True end.

Definition efields (fs : list sfield) (e : edit) : list sfield :=
  match e with ESet k v => set_field fs k v | EDel k => del_field fs k | EStrip => strip_unknown fs end.

Lemma apply_edit_fields m e : s_fields (apply_edit m e) = efields (s_fields m) e.
Proof. destruct e; reflexivity. Qed.

Lemma sem_consistent le mt fl bl sr fs c : hok le fs -> cache_sem le fs c -> cache_consistent (hdr_bytes le mt fl bl sr fs) c.
Proof. intros W H. rewrite hdr_bytes_hdata. exact (proj2 (consistent_sem le _ fs (zeros (hdr_pad le fs)) c (fixed_ok_hdr le mt fl bl sr) W) H). Qed.

Lemma consistent_sem_hdr le mt fl bl sr fs c : hok le fs -> cache_consistent (hdr_bytes le mt fl bl sr fs) c -> cache_sem le fs c.
Proof. intros W H. rewrite hdr_bytes_hdata in H. exact (proj1 (consistent_sem le _ fs (zeros (hdr_pad le fs)) c (fixed_ok_hdr le mt fl bl sr) W) H). Qed.

(* one edit, on the level of field lists *)
Theorem hb_apply_ok dbg le mt fl bl sr fs c e : hwf le fs -> cache_sem le fs c -> edit_ok e ->
  exists c', hb_apply dbg e (mkH (hdr_bytes le mt fl bl sr fs) (hdr_pad le fs) c) =
             inl (mkH (hdr_bytes le mt fl bl sr (efields fs e)) (hdr_pad le (efields fs e)) c') /\
             cache_consistent (hdr_bytes le mt fl bl sr (efields fs e)) c' /\
             (nlen (payload le (efields fs e)) < 4294967296 -> cache_sem le (efields fs e) c' /\ hwf le (efields fs e)).
Proof.
  intros HW Hc He. destruct e as [k v|k|]; cbn [hb_apply efields edit_ok] in *.
  - exists (cache_all CUnknown). split; [exact (hb_set_ok le mt fl bl sr fs c k v HW Hc He)|]. split; [apply cache_consistent_unknown|].
    intros Hsz. split; [apply cache_sem_unknown | exact (hwf_set le fs k v HW He Hsz)].
  - destruct (hb_delete_ok dbg le mt fl bl sr fs c k HW Hc He) as (c' & E & Hc' & HW'). exists c'. split; [exact E|].
    split; [exact (sem_consistent le mt fl bl sr _ c' (proj1 HW') Hc') | intros _; split; assumption].
  - destruct (hb_strip_ok le mt fl bl sr fs c HW Hc) as (c' & E & Hc' & HW'). exists c'. split; [exact E|].
    split; [exact (sem_consistent le mt fl bl sr _ c' (proj1 HW') Hc') | intros _; split; assumption].
Qed.

(* ---- on the level of messages ------------------------------------------------------------------------------ *)
Definition hdr_of (m : smsg) (c : cache) : hdr := mkH (msg_hdr_bytes m) (hdr_pad (s_le m) (s_fields m)) c.

Lemma msg_hdr_bytes_edit m e :
  msg_hdr_bytes (apply_edit m e) = hdr_bytes (s_le m) (s_type m) (s_flags m) (nlen (encs (s_le m) (s_body m) 0)) (s_serial m) (efields (s_fields m) e).
Proof. destruct e; reflexivity. Qed.

(* REFINEMENT: an edit of the header bytes of the specification encoding of m, with any cache state consistent
   with those bytes, gives the header bytes of the specification encoding of the edited message and a consistent cache *)
Theorem hb_refines dbg m e c : wf_msg m = true -> edit_ok e -> cache_consistent (msg_hdr_bytes m) c ->
  exists c', hb_apply dbg e (hdr_of m c) = inl (hdr_of (apply_edit m e) c') /\ cache_consistent (msg_hdr_bytes (apply_edit m e)) c'.
Proof.
  intros Hwf He Hc. pose proof (wf_msg_hwf m Hwf) as HW. unfold hdr_of, msg_hdr_bytes in *.
  pose proof (consistent_sem_hdr _ _ _ _ _ _ c (proj1 HW) Hc) as Hs.
  destruct (hb_apply_ok dbg _ (s_type m) (s_flags m) (nlen (encs (s_le m) (s_body m) 0)) (s_serial m) _ c e HW Hs He) as (c' & E & Hc' & _).
  exists c'. rewrite apply_edit_fields. destruct (edit_frame m e) as (-> & -> & -> & -> & _ & ->). split; [exact E | exact Hc'].
Qed.

(* the whole message: edited header bytes ++ untouched body bytes = the specification encoding of the edited message *)
Corollary hb_refines_message dbg m e c : wf_msg m = true -> edit_ok e -> cache_consistent (msg_hdr_bytes m) c ->
  exists h', hb_apply dbg e (hdr_of m c) = inl h' /\
             h_data h' ++ encs (s_le m) (s_body m) 0 = spec_encode_message (apply_edit m e) /\
             cache_consistent (h_data h') (h_cache h').
Proof.
  intros Hwf He Hc. destruct (hb_refines dbg m e c Hwf He Hc) as (c' & E & Hc'). eexists. split; [exact E|].
  cbn [h_data h_cache hdr_of]. split; [|exact Hc']. rewrite spec_encode_split.
  destruct (edit_frame m e) as (-> & _ & _ & _ & _ & ->). reflexivity.
Qed.

(* ---- sequences of edits ---------------------------------------------------------------------------------------- *)
Fixpoint run_ok (le : bool) (fs : list sfield) (es : list edit) : Prop :=
  match es with
  | [] => True
  | e :: r => edit_ok e /\ nlen (payload le (efields fs e)) < 4294967296 /\ run_ok le (efields fs e) r
  end.

Theorem hb_run_ok dbg le mt fl bl sr : forall es fs c, hwf le fs -> cache_sem le fs c -> run_ok le fs es ->
  exists c', hb_run dbg es (mkH (hdr_bytes le mt fl bl sr fs) (hdr_pad le fs) c) =
             inl (mkH (hdr_bytes le mt fl bl sr (fold_left efields es fs)) (hdr_pad le (fold_left efields es fs)) c') /\
             cache_sem le (fold_left efields es fs) c' /\ hwf le (fold_left efields es fs).
Proof.
  induction es as [|e r IH]; intros fs c HW Hc Hr; cbn [hb_run fold_left].
  - exists c. split; [reflexivity|]. split; assumption.
  - destruct Hr as (He & Hsz & Hr). destruct (hb_apply_ok dbg le mt fl bl sr fs c e HW Hc He) as (c1 & E & _ & Hn). rewrite E.
    destruct (Hn Hsz) as [Hc1 HW1]. exact (IH _ c1 HW1 Hc1 Hr).
Qed.

Lemma fold_edit_fields : forall es m, s_fields (fold_left apply_edit es m) = fold_left efields es (s_fields m).
Proof. induction es as [|e r IH]; intros m; [reflexivity|]. cbn [fold_left]. rewrite IH, apply_edit_fields. reflexivity. Qed.

Theorem hb_run_refines dbg m es c : wf_msg m = true -> run_ok (s_le m) (s_fields m) es -> cache_consistent (msg_hdr_bytes m) c ->
  exists c', hb_run dbg es (hdr_of m c) = inl (hdr_of (fold_left apply_edit es m) c') /\
             cache_consistent (msg_hdr_bytes (fold_left apply_edit es m)) c'.
Proof.
  intros Hwf Hr Hc. pose proof (wf_msg_hwf m Hwf) as HW. unfold hdr_of, msg_hdr_bytes in *.
  pose proof (consistent_sem_hdr _ _ _ _ _ _ c (proj1 HW) Hc) as Hs.
  destruct (hb_run_ok dbg _ (s_type m) (s_flags m) (nlen (encs (s_le m) (s_body m) 0)) (s_serial m) es _ c HW Hs Hr) as (c' & E & Hc' & HW').
  exists c'. rewrite fold_edit_fields. destruct (edits_frame es m) as (-> & -> & -> & -> & _ & ->).
  split; [exact E | exact (sem_consistent _ _ _ _ _ _ c' (proj1 HW') Hc')].
Qed.

(* ---- reading through the cache ------------------------------------------------------------------------------------ *)
Theorem hb_get_refines le mt fl bl sr fs c k : hwf le fs -> cache_consistent (hdr_bytes le mt fl bl sr fs) c -> 1 <= k <= 10 ->
  exists c', hb_get k (mkH (hdr_bytes le mt fl bl sr fs) (hdr_pad le fs) c) = inl (get_field fs k, mkH (hdr_bytes le mt fl bl sr fs) (hdr_pad le fs) c') /\
             cache_consistent (hdr_bytes le mt fl bl sr fs) c'.
Proof.
  intros HW Hc Hk. pose proof (consistent_sem_hdr _ _ _ _ _ _ c (proj1 HW) Hc) as Hs. rewrite hdr_bytes_hdata in *.
  destruct (hb_get_ok le _ fs (zeros (hdr_pad le fs)) (hdr_pad le fs) c k (fixed_ok_hdr le mt fl bl sr) HW Hs Hk) as (c1 & E & Hc1).
  exists c1. split; [exact E|]. exact (proj2 (consistent_sem le _ fs (zeros (hdr_pad le fs)) c1 (fixed_ok_hdr le mt fl bl sr) (proj1 HW)) Hc1).
Qed.

Theorem hb_get_msg m c k : wf_msg m = true -> cache_consistent (msg_hdr_bytes m) c -> 1 <= k <= 10 ->
  exists c', hb_get k (hdr_of m c) = inl (get_field (s_fields m) k, hdr_of m c') /\ cache_consistent (msg_hdr_bytes m) c'.
Proof. intros Hwf Hc Hk. exact (hb_get_refines _ _ _ _ _ _ c k (wf_msg_hwf m Hwf) Hc Hk). Qed.

(* a subsequent get of the edited field returns the new value, THROUGH THE CACHE; every other field reads as before *)
Theorem hb_set_then_get dbg m c k v k' : wf_msg m = true -> edit_val_ok k v -> cache_consistent (msg_hdr_bytes m) c ->
  nlen (payload (s_le m) (set_field (s_fields m) k v)) < 4294967296 -> 1 <= k' <= 10 ->
  exists h' h'', hb_apply dbg (ESet k v) (hdr_of m c) = inl h' /\
                 hb_get k' h' = inl (if k' =? k then Some v else get_field (s_fields m) k', h'') /\
                 h_data h'' = h_data h' /\ cache_consistent (h_data h'') (h_cache h'').
Proof.
  intros Hwf He Hc Hsz Hk'. pose proof (wf_msg_hwf m Hwf) as HW. unfold hdr_of, msg_hdr_bytes in *.
  pose proof (consistent_sem_hdr _ _ _ _ _ _ c (proj1 HW) Hc) as Hs.
  destruct (hb_apply_ok dbg _ (s_type m) (s_flags m) (nlen (encs (s_le m) (s_body m) 0)) (s_serial m) _ c (ESet k v) HW Hs He) as (c' & E & Hc' & Hn).
  destruct (Hn Hsz) as [_ HW']. cbn [efields] in *.
  destruct (hb_get_refines _ (s_type m) (s_flags m) (nlen (encs (s_le m) (s_body m) 0)) (s_serial m) _ c' k' HW' Hc' Hk') as (c'' & G & Hc'').
  eexists. eexists. split; [exact E|]. split.
  - rewrite G. apply f_equal. apply (f_equal2 pair); [|reflexivity].
    destruct (k' =? k) eqn:Ek; [apply N.eqb_eq in Ek; subst k'; apply get_set_same | apply get_set_other; lia].
  - split; [reflexivity | exact Hc''].
Qed.

Theorem hb_delete_then_get dbg m c k k' : wf_msg m = true -> 1 <= k <= 10 -> cache_consistent (msg_hdr_bytes m) c -> 1 <= k' <= 10 ->
  exists h' h'', hb_apply dbg (EDel k) (hdr_of m c) = inl h' /\
                 hb_get k' h' = inl (if k' =? k then None else get_field (s_fields m) k', h'') /\
                 h_data h'' = h_data h' /\ cache_consistent (h_data h'') (h_cache h'').
Proof.
  intros Hwf Hk Hc Hk'. pose proof (wf_msg_hwf m Hwf) as HW. unfold hdr_of, msg_hdr_bytes in *.
  pose proof (consistent_sem_hdr _ _ _ _ _ _ c (proj1 HW) Hc) as Hs.
  destruct (hb_delete_ok dbg _ (s_type m) (s_flags m) (nlen (encs (s_le m) (s_body m) 0)) (s_serial m) _ c k HW Hs ltac:(lia)) as (c' & E & Hc' & HW').
  pose proof (sem_consistent _ (s_type m) (s_flags m) (nlen (encs (s_le m) (s_body m) 0)) (s_serial m) _ c' (proj1 HW') Hc') as Hcc.
  destruct (hb_get_refines _ (s_type m) (s_flags m) (nlen (encs (s_le m) (s_body m) 0)) (s_serial m) _ c' k' HW' Hcc Hk') as (c'' & G & Hc'').
  eexists. eexists. split; [exact E|]. split.
  - rewrite G. apply f_equal. apply (f_equal2 pair); [|reflexivity].
    destruct (k' =? k) eqn:Ek; [apply N.eqb_eq in Ek; subst k'; apply get_del_same | apply get_del_other; lia].
  - split; [reflexivity | exact Hc''].
Qed.

(* what a consistent cache entry says about the bytes *)
Theorem cache_truth le mt fl bl sr fs c k : hwf le fs -> cache_consistent (hdr_bytes le mt fl bl sr fs) c -> k <= 10 ->
  match cache_get c k with
  | CUnknown => True
  | CNonexistent => get_field fs k = None
  | CPos p => exists f tl, get_field fs k = Some (sf_val f) /\ sf_code f = k /\
                           bytes_from (hdr_bytes le mt fl bl sr fs) p = enc le (sf_val f) p ++ tl
  end.
Proof.
  intros (W & U & Ty) Hc Hk. pose proof (consistent_sem_hdr _ _ _ _ _ _ c W Hc) as [_ Hs].
  destruct (Hs k Hk) as [E|E]; rewrite E; [exact I|].
  destruct (cache_of_entry le fs k Hk U) as [[Hn Ce]|(pre & f & post & Efs & Hf & Hpre & Hpost & Ce)]; rewrite Ce.
  - exact (get_field_none fs k Hn).
  - subst fs. rewrite hdr_bytes_hdata. pose proof (hdata_root le _ _ (zeros (hdr_pad le (pre ++ f :: post))) (fixed_ok_hdr le mt fl bl sr) W) as L.
    destruct (walk_prefix le _ pre (f :: post) 7 16 L) as (tp' & L' & _).
    destruct (elem_step le _ tp' _ f post L') as (_ & _ & _ & _ & _ & _ & [tl D] & _).
    exists f, tl. split; [|split; [exact Hf | exact D]]. rewrite <- Hf. apply (get_field_first _ pre f post eq_refl). rewrite Hf. exact Hpre.
Qed.

(* the layout of every result: zero padding up to a multiple of 8, [h_padding] counts it, the length word is the array length *)
Theorem hdr_layout le mt fl bl sr fs :
  hdr_bytes le mt fl bl sr fs = hdr_unpadded le mt fl bl sr fs ++ zeros (hdr_pad le fs) /\
  nlen (hdr_bytes le mt fl bl sr fs) mod 8 = 0 /\ hdr_pad le fs < 8 /\
  (nlen (payload le fs) < 4294967296 -> get_num le (hdr_bytes le mt fl bl sr fs) 12 4 = inl (nlen (payload le fs))).
Proof.
  split; [reflexivity|]. split; [|split; [apply hdr_pad_lt|]].
  - unfold hdr_bytes. rewrite nlen_app, nlen_hdr_unpadded, nlen_zeros. unfold hdr_pad, pad_amount. lia.
  - intros H. rewrite hdr_bytes_hdata. apply (get_num_at le _ 12 4 _ (payload le fs ++ zeros (hdr_pad le fs))); [|change (256 ^ 4) with 4294967296; exact H].
    unfold hdata. rewrite (bytes_from_app12 _ _ (nlen_hdr_fixed le mt fl bl sr)). reflexivity.
Qed.

(* with the abstract theorems: if the edited abstract message is well formed, the edited bytes decode (per the
   specification) to exactly the edited message -- every other field, the body, flags, serial unchanged *)
Corollary hb_edit_decodes dbg m e c : wf_msg m = true -> edit_ok e -> cache_consistent (msg_hdr_bytes m) c ->
  wf_msg (apply_edit m e) = true ->
  exists h', hb_apply dbg e (hdr_of m c) = inl h' /\
             spec_decode_message (h_data h' ++ encs (s_le m) (s_body m) 0) =
             Some (apply_edit m e, nlen (h_data h' ++ encs (s_le m) (s_body m) 0)).
Proof.
  intros Hwf He Hc Hwf'. destruct (hb_refines_message dbg m e c Hwf He Hc) as (h' & E & Hb & _).
  exists h'. split; [exact E|]. rewrite Hb. apply message_roundtrip. exact Hwf'.
Qed.

(* ================= T. locally built headers ================================================================= *)
Lemma hb_create_is le mt : hb_create le mt = mkH (hdr_bytes le mt 0 0 0 []) (hdr_pad le []) (cache_all CUnknown).
Proof. destruct le; reflexivity. Qed.

Lemma hwf_nil le : hwf le [].
Proof. split; [|split; reflexivity]. apply hok_of_rwfs; [reflexivity | cbn; lia]. Qed.

(* dbus_message_new followed by any sequence of header edits with NO getter in between (the cache stays
   invalidated until somebody reads): the bytes are those of the abstractly built header *)
Theorem hb_build_ok dbg le mt es : run_ok le [] es ->
  exists c', hb_run dbg es (hb_create le mt) =
             inl (mkH (hdr_bytes le mt 0 0 0 (fold_left efields es [])) (hdr_pad le (fold_left efields es [])) c') /\
             cache_consistent (hdr_bytes le mt 0 0 0 (fold_left efields es [])) c' /\ hwf le (fold_left efields es []).
Proof.
  intros Hr. rewrite hb_create_is.
  destruct (hb_run_ok dbg le mt 0 0 0 es [] (cache_all CUnknown) (hwf_nil le) (cache_sem_unknown le []) Hr) as (c' & E & Hc' & HW').
  exists c'. split; [exact E|]. split; [exact (sem_consistent le mt 0 0 0 _ c' (proj1 HW') Hc') | exact HW'].
Qed.

Theorem hb_toggle_flag_ok le mt fl bl sr fs c flag value :
  hb_toggle_flag flag value (mkH (hdr_bytes le mt fl bl sr fs) (hdr_pad le fs) c) =
  inl (mkH (hdr_bytes le mt (if value then N.lor fl flag else N.ldiff fl flag) bl sr fs) (hdr_pad le fs) c).
Proof.
  unfold hb_toggle_flag. cbn [h_data h_padding h_cache]. rewrite !hdr_bytes_shape. cbn [app].
  change (get_byte ((if le then 108 else 66) :: mt :: fl :: 1 :: bytes_of le 4 bl ++ bytes_of le 4 sr ++ bytes_of le 4 (nlen (payload le fs)) ++ payload le fs ++ zeros (hdr_pad le fs)) 2) with (@inl N rerr fl).
  set (rest := 1 :: bytes_of le 4 bl ++ bytes_of le 4 sr ++ bytes_of le 4 (nlen (payload le fs)) ++ payload le fs ++ zeros (hdr_pad le fs)).
  change ((if le then 108 else 66) :: mt :: fl :: rest) with ([if le then 108 else 66; mt] ++ [fl] ++ rest).
  cbv iota. rewrite (str_overwrite_app [if le then 108 else 66; mt] [fl] rest [if value then N.lor fl flag else N.ldiff fl flag] 2 eq_refl eq_refl). reflexivity.
Qed.
