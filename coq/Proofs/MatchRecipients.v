(* C07: recipient-set construction (bus_matchmaker_get_recipients) — each
   connection at most once, and exactly the connections owning a rule that
   matches; the (type, interface) pools lose nothing. *)
From DV Require Import Lib.Base Match.Rule Match.Matcher Match.Bus.
From Coq Require Import ZifyBool ZifyN ZifyNat Permutation.
Local Open Scope N_scope.

(* what the parser guarantees about a stored rule and the matcher relies on *)
Definition type_wf (r : rule) : Prop :=
  match r_type r with Some t => valid_type t = true | None => True end.

Lemma opt_N_same_eq a b : opt_N_same a b = true <-> a = b.
Proof.
  destruct a, b; simpl; try (split; congruence).
  rewrite N.eqb_eq. split; congruence.
Qed.

Lemma opt_bytes_same_eq a b : opt_bytes_same a b = true <-> a = b.
Proof.
  destruct a, b; simpl; try (split; congruence).
  rewrite bytes_eqb_eq. split; congruence.
Qed.

Lemma in_pool_iff t i r : in_pool t i r = true <-> r_type r = t /\ r_iface r = i.
Proof. unfold in_pool. rewrite andb_true_iff, opt_N_same_eq, opt_bytes_same_eq. tauto. Qed.

(* inside its pool a rule needs no type / interface test *)
Lemma skip_sound ns r s a m :
  (r_type r = None \/ r_type r = Some (m_type m)) ->
  (r_iface r = None \/ (exists i, r_iface r = Some i /\ m_iface m = Some i)) ->
  rule_matches ns r s a m true = rule_matches ns r s a m false.
Proof.
  intros Ht Hi. unfold rule_matches. cbn [negb andb].
  assert (E1 : match r_type r with Some t => negb (t =? m_type m) | None => false end = false).
  { destruct Ht as [-> | ->]; [reflexivity|]. now rewrite N.eqb_refl. }
  assert (E2 : match r_iface r with
               | Some i => match m_iface m with Some mi => negb (bytes_eqb mi i) | None => true end
               | None => false end = false).
  { destruct Hi as [-> | [i [-> ->]]]; [reflexivity|]. now rewrite bytes_eqb_refl. }
  rewrite E1, E2. reflexivity.
Qed.

(* a rule whose evaluation gets past the type and interface tests sits in one of the four pools
   that get_recipients scans *)
Lemma full_match_type ns r s a m :
  rule_matches ns r s a m false <> Some false -> r_type r = None \/ r_type r = Some (m_type m).
Proof.
  unfold rule_matches. cbn [negb andb]. destruct (r_type r) as [t|]; [|auto].
  destruct (t =? m_type m) eqn:E; cbn [negb]; [apply N.eqb_eq in E; subst; auto | congruence].
Qed.

Lemma full_match_iface ns r s a m :
  rule_matches ns r s a m false <> Some false ->
  r_iface r = None \/ (exists i, r_iface r = Some i /\ m_iface m = Some i).
Proof.
  unfold rule_matches. cbn [negb andb].
  destruct (match r_type r with Some t => negb (t =? m_type m) | None => false end); [congruence|].
  destruct (r_iface r) as [i|]; [|auto].
  destruct (m_iface m) as [mi|]; [|congruence].
  destruct (bytes_eqb mi i) eqn:E; cbn [negb]; [|congruence].
  apply bytes_eqb_eq in E; subst. intros _. right. eauto.
Qed.

(* ---- recipients_from_list ------------------------------------------------------ *)
Definition hit ns s a m (r : rule) : Prop := rule_matches ns r s a m true = Some true.

Lemma existsb_eqb_In c l : existsb (N.eqb c) l = true <-> In c l.
Proof.
  rewrite existsb_exists. split.
  - intros [x [Hin E]]. apply N.eqb_eq in E. now subst.
  - intros H. exists c. split; [assumption | apply N.eqb_refl].
Qed.

Lemma rfl_spec ns s a m : forall rules seen acc acc' seen',
  recipients_from_list ns rules s a m seen acc = Some (acc', seen') ->
  NoDup acc -> (forall c, In c acc -> In c seen) ->
  NoDup acc' /\ (forall c, In c acc' -> In c seen') /\
  (forall c, In c acc' <-> In c acc \/ (~ In c seen /\ exists r, In r rules /\ r_owner r = c /\ hit ns s a m r)) /\
  (forall c, In c seen' <-> In c seen \/ In c acc') /\
  (forall r, In r rules -> rule_matches ns r s a m true <> None).
Proof.
  induction rules as [|r rest IH]; intros seen acc acc' seen' H Hnd Hsub; simpl in H.
  - inversion H; subst. split; [assumption|]. split; [assumption|]. split.
    + intros c. split; [auto|]. intros [Hc|[_ [r [[] _]]]]. assumption.
    + split; [|intros r []]. intros c. split; [auto|]. intros [Hc|Hc]; auto.
  - destruct (rule_matches ns r s a m true) as [[|]|] eqn:Em; [| |discriminate].
    + destruct (existsb (N.eqb (r_owner r)) seen) eqn:Es.
      * apply existsb_eqb_In in Es.
        destruct (IH _ _ _ _ H Hnd Hsub) as [E1 [E2 [E3 [E4 E5]]]].
        split; [assumption|]. split; [assumption|]. split; [|split; [assumption|]].
        -- intros c. rewrite E3. split.
           ++ intros [Hc|[Hn [r' [Hr' Hh]]]]; [auto|]. right. split; [assumption|]. exists r'. simpl. tauto.
           ++ intros [Hc|[Hn [r' [[->|Hr'] [Ho Hh]]]]]; [auto| |].
              ** subst. contradiction.
              ** right. split; [assumption|]. eauto.
        -- intros r' [<-|Hr']; [congruence | now apply E5].
      * assert (Hns : ~ In (r_owner r) seen).
        { intros Hin. apply existsb_eqb_In in Hin. congruence. }
        assert (Hnd' : NoDup (acc ++ [r_owner r])).
        { apply Permutation.Permutation_NoDup with (l := r_owner r :: acc).
          - apply Permutation.Permutation_cons_append.
          - constructor; [|assumption]. intros Hin. apply Hns. now apply Hsub. }
        assert (Hsub' : forall c, In c (acc ++ [r_owner r]) -> In c (r_owner r :: seen)).
        { intros c Hc. apply in_app_or in Hc. destruct Hc as [Hc|[<-|[]]]; simpl; auto. }
        destruct (IH _ _ _ _ H Hnd' Hsub') as [E1 [E2 [E3 [E4 E5]]]].
        split; [assumption|]. split; [assumption|]. split; [|split].
        -- intros c. rewrite E3. split.
           ++ intros [Hc|[Hn [r' [Hr' Hh]]]].
              ** apply in_app_or in Hc. destruct Hc as [Hc|[<-|[]]]; [auto|]. right. split; [assumption|].
                 exists r. simpl. unfold hit. auto.
              ** right. split; [intros Hs; apply Hn; now right|]. exists r'. simpl. tauto.
           ++ intros [Hc|[Hn [r' [[->|Hr'] [Ho Hh]]]]].
              ** left. apply in_or_app. auto.
              ** left. apply in_or_app. right. simpl. auto.
              ** destruct (N.eq_dec (r_owner r) c) as [->|Hne].
                 --- left. apply in_or_app. right. simpl. auto.
                 --- right. split; [intros [Heq|Hs]; [congruence|contradiction]|]. eauto.
        -- intros c. rewrite E4. simpl. split.
           ++ intros [[<-|Hc]|Hc]; auto. right. apply E3. left. apply in_or_app. right. simpl. auto.
           ++ intros [Hc|Hc]; auto.
        -- intros r' [<-|Hr']; [congruence | now apply E5].
    + destruct (IH _ _ _ _ H Hnd Hsub) as [E1 [E2 [E3 [E4 E5]]]].
      split; [assumption|]. split; [assumption|]. split; [|split; [assumption|]].
      * intros c. rewrite E3. split.
        -- intros [Hc|[Hn [r' [Hr' Hh]]]]; [auto|]. right. split; [assumption|]. exists r'. simpl. tauto.
        -- intros [Hc|[Hn [r' [[->|Hr'] [Ho Hh]]]]]; [auto| |].
           ++ unfold hit in Hh. congruence.
           ++ right. split; [assumption|]. eauto.
      * intros r' [<-|Hr']; [congruence | now apply E5].
Qed.

(* ---- bus_matchmaker_get_recipients ------------------------------------------------ *)
Lemma pool_in mk t i r : In r (pool mk t i) <-> In r mk /\ r_type r = t /\ r_iface r = i.
Proof. unfold pool. rewrite filter_In, in_pool_iff. tauto. Qed.

Definition full ns s a m (r : rule) : Prop := rule_matches ns r s a m false = Some true.

Theorem get_recipients_exact ns mk s a m l :
  Forall type_wf mk ->
  get_recipients ns mk s a m = Some l ->
  NoDup l /\
  (forall c, In c l <-> a <> Some c /\ exists r, In r mk /\ r_owner r = c /\ full ns s a m r) /\
  (forall r, In r mk -> rule_matches ns r s a m false <> None).
Proof.
  intros Hwf H. unfold get_recipients in H.
  set (seen0 := match a with Some x => [x] | None => [] end) in *.
  set (P1 := pool mk None None) in *.
  set (P2 := match m_iface m with Some i => pool mk None (Some i) | None => [] end) in *.
  set (P3 := if valid_type (m_type m) then pool mk (Some (m_type m)) None else []) in *.
  set (P4 := if valid_type (m_type m) then match m_iface m with Some i => pool mk (Some (m_type m)) (Some i) | None => [] end else []) in *.
  destruct (recipients_from_list ns P1 s a m seen0 []) as [[a1 s1]|] eqn:R1; [|discriminate].
  destruct (recipients_from_list ns P2 s a m s1 a1) as [[a2 s2]|] eqn:R2; [|discriminate].
  destruct (recipients_from_list ns P3 s a m s2 a2) as [[a3 s3]|] eqn:R3; [|discriminate].
  destruct (recipients_from_list ns P4 s a m s3 a3) as [[a4 s4]|] eqn:R4; [|discriminate].
  inversion H; subst a4; clear H.
  destruct (rfl_spec _ _ _ _ _ _ _ _ _ R1 (NoDup_nil _) (fun c (F : In c []) => match F with end)) as [N1 [S1 [I1 [Z1 F1]]]].
  destruct (rfl_spec _ _ _ _ _ _ _ _ _ R2 N1 S1) as [N2 [S2 [I2 [Z2 F2]]]].
  destruct (rfl_spec _ _ _ _ _ _ _ _ _ R3 N2 S2) as [N3 [S3 [I3 [Z3 F3]]]].
  destruct (rfl_spec _ _ _ _ _ _ _ _ _ R4 N3 S3) as [N4 [S4 [I4 [Z4 F4]]]].
  split; [assumption|].
  (* every pool member is a rule of mk for which the skipped tests are true *)
  assert (Hp : forall r, In r P1 \/ In r P2 \/ In r P3 \/ In r P4 ->
                         In r mk /\ rule_matches ns r s a m true = rule_matches ns r s a m false).
  { intros r Hr. unfold P1, P2, P3, P4 in Hr.
    destruct Hr as [Hr|[Hr|[Hr|Hr]]].
    - apply pool_in in Hr. destruct Hr as [Hin [Ht Hi]]. split; [assumption|]. apply skip_sound; auto.
    - destruct (m_iface m) as [i|] eqn:Ei; [|destruct Hr].
      apply pool_in in Hr. destruct Hr as [Hin [Ht Hi]]. split; [assumption|]. apply skip_sound; [auto|]. right. eauto.
    - destruct (valid_type (m_type m)); [|destruct Hr].
      apply pool_in in Hr. destruct Hr as [Hin [Ht Hi]]. split; [assumption|]. apply skip_sound; auto.
    - destruct (valid_type (m_type m)); [|destruct Hr].
      destruct (m_iface m) as [i|] eqn:Ei; [|destruct Hr].
      apply pool_in in Hr. destruct Hr as [Hin [Ht Hi]]. split; [assumption|]. apply skip_sound; [auto|]. right. eauto. }
  (* every rule of mk that matches in full is in one of the pools *)
  assert (Hq : forall r, In r mk -> rule_matches ns r s a m false <> Some false -> In r P1 \/ In r P2 \/ In r P3 \/ In r P4).
  { intros r Hin Hf.
    pose proof (full_match_type _ _ _ _ _ Hf) as Ht.
    pose proof (full_match_iface _ _ _ _ _ Hf) as Hi.
    rewrite Forall_forall in Hwf. specialize (Hwf r Hin). unfold type_wf in Hwf.
    unfold P1, P2, P3, P4.
    destruct Ht as [Ht|Ht]; destruct Hi as [Hi|[i [Hi Hm]]].
    - left. apply pool_in. auto.
    - right. left. rewrite Hm. apply pool_in. auto.
    - right. right. left. rewrite Ht in Hwf. rewrite Hwf. apply pool_in. auto.
    - right. right. right. rewrite Ht in Hwf. rewrite Hwf, Hm. apply pool_in. auto. }
  assert (Hseen0 : forall c, In c seen0 <-> a = Some c).
  { intros c. unfold seen0. destruct a as [x|]; simpl; split; try tauto; try congruence.
    - intros [->|[]]. reflexivity.
    - intros E. inversion E. auto. }
  split.
  2:{ intros r Hin Hnone.
      assert (Hnf : rule_matches ns r s a m false <> Some false) by congruence.
      destruct (Hp r (Hq r Hin Hnf)) as [_ Heq].
      destruct (Hq r Hin Hnf) as [Hr|[Hr|[Hr|Hr]]]; [apply (F1 r Hr)|apply (F2 r Hr)|apply (F3 r Hr)|apply (F4 r Hr)]; congruence. }
  intros c. split.
  - intros Hc.
    (* trace c back through the four stages *)
    assert (Hfrom : (~ In c seen0) /\ exists r, (In r P1 \/ In r P2 \/ In r P3 \/ In r P4) /\ r_owner r = c /\ hit ns s a m r).
    { apply I4 in Hc. destruct Hc as [Hc|[Hn [r [Hr Hh]]]].
      - apply I3 in Hc. destruct Hc as [Hc|[Hn [r [Hr Hh]]]].
        + apply I2 in Hc. destruct Hc as [Hc|[Hn [r [Hr Hh]]]].
          * apply I1 in Hc. destruct Hc as [[]|[Hn [r [Hr Hh]]]]. split; [assumption|]. exists r. tauto.
          * split; [intros F; apply Hn; apply Z1; auto|]. exists r. tauto.
        + split; [intros F; apply Hn; apply Z2; left; apply Z1; auto|]. exists r. tauto.
      - split; [intros F; apply Hn; apply Z3; left; apply Z2; left; apply Z1; auto|]. exists r. tauto. }
    destruct Hfrom as [Hn [r [Hr [Ho Hh]]]]. split.
    + intros E. apply Hn. now apply Hseen0.
    + destruct (Hp r Hr) as [Hin Heq]. exists r. split; [assumption|]. split; [assumption|].
      unfold full, hit in *. congruence.
  - intros [Hna [r [Hin [Ho Hf]]]].
    assert (Hn0 : ~ In c seen0) by (intros F; apply Hna; now apply Hseen0).
    assert (Hnf : rule_matches ns r s a m false <> Some false) by (unfold full in Hf; congruence).
    destruct (Hq r Hin Hnf) as [Hr|[Hr|[Hr|Hr]]];
      (assert (Hh : hit ns s a m r) by (unfold hit; destruct (Hp r) as [_ ->]; [tauto | exact Hf])).
    + apply I4. left. apply I3. left. apply I2. left. apply I1. right. split; [assumption|]. eauto.
    + destruct (in_dec N.eq_dec c a1) as [Hc|Hc].
      * apply I4. left. apply I3. left. apply I2. left. assumption.
      * apply I4. left. apply I3. left. apply I2. right. split; [|eauto].
        intros F. apply Z1 in F. tauto.
    + destruct (in_dec N.eq_dec c a2) as [Hc|Hc].
      * apply I4. left. apply I3. left. assumption.
      * apply I4. left. apply I3. right. split; [|eauto].
        intros F. apply Z2 in F. destruct F as [F|F]; [|contradiction]. apply Z1 in F. destruct F as [F|F]; [contradiction|].
        apply Hc. apply I2. auto.
    + destruct (in_dec N.eq_dec c a3) as [Hc|Hc].
      * apply I4. left. assumption.
      * apply I4. right. split; [|eauto].
        intros F. apply Z3 in F. destruct F as [F|F]; [|contradiction]. apply Z2 in F. destruct F as [F|F].
        -- apply Z1 in F. destruct F as [F|F]; [contradiction|]. apply Hc. apply I3. left. apply I2. auto.
        -- apply Hc. apply I3. auto.
Qed.

(* no rule of mk is evaluated to a Fault without get_recipients reporting it *)
