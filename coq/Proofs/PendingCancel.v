(* C17: "a cancelled call is never notified" -- the part that holds (nobody
   blocks on the call after the cancel), by showing what can cause a
   completion: a dispatch only completes calls that are still in the table,
   and a cancelled call is not in the table. *)
From Coq Require Import List NArith Bool Lia ZArith ZifyBool ZifyN ZifyNat.
Import ListNotations.
From DV Require Import PendingCall.Pending Spec.PendingSpec Proofs.PendingSerial Proofs.PendingLemmas Proofs.PendingInv Proofs.PendingRel.
Local Open Scope N_scope.

Lemma run_app st a b : run st (a ++ b) = let '(s1, o1) := run st a in let '(s2, o2) := run s1 b in (s2, o1 ++ o2).
Proof.
  revert st; induction a as [|e a IH]; intros st; simpl.
  - destruct (run st b); reflexivity.
  - destruct (step st e) as [s1 o1]. rewrite IH. destruct (run s1 a) as [s2 o2]. destruct (run s2 b) as [s3 o3].
    rewrite app_assoc. reflexivity.
Qed.

(* observations of the completing sub-functions *)
Lemma sc_obs st i m st' o j x : start_complete st i m = (st', o) -> In (OComplete j x) o -> j = i.
Proof.
  intros H Hin. apply start_complete_result in H. destruct H as [-> -> _ | n -> _ -> | c y link _ _ _ _ -> ->]; simpl in Hin.
  - contradiction.
  - destruct Hin as [H|[]]; discriminate.
  - destruct Hin as [H|[]]. inversion H; auto.
Qed.

Lemma blk_check_obs st i st' o j x : blk_check st i = Some (st', o) -> In (OComplete j x) o -> j = i.
Proof.
  unfold blk_check. destruct (nth_error (calls st) i) as [c|]; [|discriminate].
  destruct (find_reply (queue st) (c_serial c)) as [[m q']|]; [|discriminate].
  destruct (start_complete (set_queue st q') i (Some m)) as [s l] eqn:E. intros H; inversion H; subst. eapply sc_obs; eauto.
Qed.

Lemma timeout_complete_obs st i st' o j x : timeout_complete st i = (st', o) -> In (OComplete j x) o -> j = i.
Proof.
  unfold timeout_complete. destruct (start_complete st i None) as [s l] eqn:E. intros H; inversion H; subst. eapply sc_obs; eauto.
Qed.

Lemma blk_recheck_obs st i t st' o j x : blk_recheck st i t = inl (st', o) -> In (OComplete j x) o -> j = i.
Proof.
  unfold blk_recheck.
  destruct (nth_error (calls (u_status st)) i) as [c|]; [|intros H; inversion H; subst; intros []].
  destruct (c_completed c); [intros H; inversion H; subst; intros []|].
  destruct (blk_check (u_status st) i) as [r|] eqn:E.
  { intros H; inversion H; subst. eapply blk_check_obs; eauto. }
  destruct (negb (connected (u_status st))).
  { intros H; inversion H as [H1]. eapply sc_obs; eauto. }
  destruct (negb (disc_link (u_status st))).
  { intros H; inversion H as [H1]. eapply timeout_complete_obs; eauto. }
  destruct (negb (c_finite c)); [discriminate|]. destruct (negb t); [discriminate|].
  intros H; inversion H as [H1]. eapply timeout_complete_obs; eauto.
Qed.

Lemma ev_block_obs st i st' o j x : ev_block st i = (st', o) -> In (OComplete j x) o -> j = i.
Proof.
  unfold ev_block.
  destruct (nth_error (calls st) i) as [c|]; [|intros H; inversion H; subst; intros []].
  destruct (c_completed c); [intros H; inversion H; subst; intros []|].
  destruct (blk_check (u_flush st) i) as [r|] eqn:E1.
  { intros H; subst r. eapply blk_check_obs; eauto. }
  destruct (blk_iter (u_flush st) (c_finite c)) as [[st1 t1]|]; [|intros H; inversion H; subst; intros [H1|[]]; discriminate].
  destruct (blk_recheck st1 i t1) as [r|st2] eqn:E3.
  { intros H; subst r. eapply blk_recheck_obs; eauto. }
  destruct (blk_iter st2 (c_finite c)) as [[st3 t2]|]; [|intros H; inversion H; subst; intros [H1|[]]; discriminate].
  destruct (blk_recheck st3 i (t1 || t2)) as [r|st4] eqn:E5.
  { intros H; subst r. eapply blk_recheck_obs; eauto. }
  intros H; inversion H; subst; intros [H1|[]]; discriminate.
Qed.

(* what can cause call j to complete: a thread waiting for it, or a dispatch while it is not cancelled *)
Lemma complete_cause st e st' o j x :
  calls_ok st -> step st e = (st', o) -> In (OComplete j x) o ->
  block_on j e = true \/ exists k, nth_error (cores st) j = Some k /\ k_cancelled k = false.
Proof.
  intros Hok. unfold step. destruct (negb (fault st =? 0)).
  { intros H; inversion H; subst. intros [H1|[]]; discriminate. }
  destruct e; simpl.
  - unfold ev_send. destruct (negb (connected st)); [|unfold next_serial]; intros H; inversion H; subst; intros [H1|[]]; discriminate.
  - unfold ev_plain, next_serial. intros H; inversion H; subst; intros [H1|[]]; discriminate.
  - intros H; inversion H; subst; intros [].
  - destruct (nth_error (calls st) i); intros H; inversion H; subst; intros [].
  - intros H; inversion H; subst; intros [].
  - intros H; inversion H; subst; intros [].
  - unfold ev_watch. destruct (connected st); intros H; inversion H; subst; intros [H1|[]]; discriminate.
  - unfold ev_fire. destruct (nth_error (calls st) i) as [c|]; [destruct (c_tadded c)|]; intros H; inversion H; subst; intros [H1|[]]; discriminate.
  - unfold ev_cancel. destruct (nth_error (calls st) i); intros H; inversion H; subst; intros [].
  - intros H Hin. left. apply Nat.eqb_eq. eapply ev_block_obs; eauto.
  - (* dispatch *)
    unfold ev_dispatch. destruct (queue (u_status st)) as [|m q] eqn:Eq.
    { intros H; inversion H; subst; intros [H1|[]]; discriminate. }
    set (st2 := set_queue (u_status st) q).
    assert (Q2 : quiet st st2) by (eapply quiet_trans; [apply quiet_u_status|apply quiet_set_queue]).
    destruct (lookup (calls st2) (m_rs m)) as [i|] eqn:El.
    + destruct (start_complete st2 i (Some m)) as [st3 o3] eqn:E.
      assert (forall o', (o' = o3 \/ exists d, o' = o3 ++ [ODispatch d]) -> In (OComplete j x) o' ->
              exists k, nth_error (cores st) j = Some k /\ k_cancelled k = false) as Hgen.
      { intros o' Ho' Hin. assert (Hin3 : In (OComplete j x) o3).
        { destruct Ho' as [->|[d ->]]; auto. apply in_app_or in Hin. destruct Hin as [|[H1|[]]]; auto; discriminate. }
        pose proof (sc_obs _ _ _ _ _ _ _ E Hin3) as ->.
        apply lookup_some in El. destruct El as [c [Hn [Ht _]]].
        destruct Q2 as (Hc & _ & _ & Hok2). pose proof (Forall_nth_error _ _ _ _ (Hok2 Hok) Hn) as (Hc1 & _).
        exists (core_of c). split; [rewrite <- Hc; unfold cores; rewrite nth_error_map, Hn; reflexivity|]. simpl. apply Hc1; auto. }
      destruct (fault st3 =? 0); intros H; inversion H; subst; intros Hin; right.
      * eapply Hgen; [right; eexists; reflexivity|exact Hin].
      * eapply Hgen; [left; reflexivity|exact Hin].
    + destruct (fault st2 =? 0); intros H; inversion H; subst; simpl; intros Hin; destruct Hin as [H1|Hin]; try discriminate;
        try destruct Hin as [H1|[]]; try discriminate; try contradiction.
  - unfold ev_steal. destruct (nth_error (calls st) i) as [c|]; [destruct (c_completed c)|]; intros H; inversion H; subst; intros [H1|[]]; discriminate.
  - intros H; inversion H; subst; intros [].
  - unfold finish. destruct (nth_error (calls st) i) as [c|]; [destruct (c_inflight c); [destruct (c_hasnotify c)|]|];
      intros H; inversion H; subst; simpl; intros Hin; try contradiction; destruct Hin as [H1|[]]; discriminate.
  - intros H; inversion H; subst; intros [].
  - intros H; inversion H; subst; intros [].
  - destruct (nth_error (calls st) i) as [c|]; [|intros H; inversion H; subst; intros []].
    destruct (c_completed c); [intros H; inversion H; subst; intros []|].
    destruct (blk_check st i) as [r|] eqn:E; [|intros H; inversion H; subst; intros []].
    intros H Hin; subst r. left. apply Nat.eqb_eq. eapply blk_check_obs; eauto.
  - destruct (blk_recheck st i timedout) as [r|s2] eqn:E; [|intros H; inversion H; subst; intros []].
    intros H Hin; subst r. left. apply Nat.eqb_eq. eapply blk_recheck_obs; eauto.
Qed.

(* the cancelled, not completed state of call i *)
Definition cancelled_open (i : nat) (st : state) : Prop :=
  fault st <> 0 \/ exists k, nth_error (cores st) i = Some k /\ k_cancelled k = true /\ k_completed k = false.

Lemma in_filter_key o x : In x (filter key o) -> In x o.
Proof. intros H. apply filter_In in H. tauto. Qed.

Lemma cancelled_open_step i st e st' o :
  calls_ok st -> cancelled_open i st -> block_on i e = false -> step st e = (st', o) ->
  calls_ok st' /\ cancelled_open i st' /\ count_complete i o = 0%nat /\ count_notify i o = 0%nat.
Proof.
  intros Hok [Hf|[k [Hn [Hcan Hcomp]]]] Hb E.
  { unfold step in E. apply N.eqb_neq in Hf. rewrite Hf in E. simpl in E. inversion E; subst. repeat split; auto. left. apply N.eqb_neq; auto. }
  destruct (step_good _ _ _ _ E Hok) as [Hok' S]. split; [exact Hok'|].
  rewrite (count_complete_key i o), (count_notify_key i o).
  destruct S as [Hc Hs Hk | nf Hk Hs Hc | Hk Hs Hc | j k' x Hn' Hcm Hif Hrs Hk Hs Hc | j k' Hn' Hif Hk Hs Hc | j Hk Hs Hc]; rewrite Hk.
  - split; [right; rewrite Hc; eauto|auto].
  - split; [right; rewrite Hc, nth_error_app1 by (apply nth_error_Some; congruence); eauto|auto].
  - split; [right; rewrite Hc; eauto|auto].
  - destruct (Nat.eq_dec j i) as [->|Hne].
    + exfalso. assert (Hin : In (OComplete i x) o) by (apply in_filter_key; rewrite Hk; left; reflexivity).
      destruct (complete_cause _ _ _ _ _ _ Hok E Hin) as [Hb'|[k2 [Hn2 Hc2]]]; congruence.
    + split; [right; rewrite Hc, nth_error_upd_neq by auto; eauto|].
      unfold count_complete, count_notify; simpl. destruct (Nat.eqb i j) eqn:Eij; [apply Nat.eqb_eq in Eij; congruence|auto].
  - destruct (Nat.eq_dec j i) as [->|Hne].
    + exfalso. rewrite Hn in Hn'. inversion Hn'; subst k'.
      unfold cores in Hn. rewrite nth_error_map in Hn. destruct (nth_error (calls st) i) as [c|] eqn:Hc0; [|discriminate].
      inversion Hn; subst. pose proof (Forall_nth_error _ _ _ _ Hok Hc0) as (_ & Hi & _). simpl in *. rewrite Hi in Hcomp; auto. discriminate.
    + split; [right; rewrite Hc, nth_error_upd_neq by auto; eauto|].
      destruct (k_hasnotify k'); unfold count_complete, count_notify; simpl; auto.
      destruct (Nat.eqb i j) eqn:Eij; [apply Nat.eqb_eq in Eij; congruence|auto].
  - split; [|auto]. right. rewrite Hc, nth_error_upd. destruct (Nat.eqb j i); rewrite Hn; simpl; eauto.
Qed.

Lemma cancelled_open_run i h : forall st,
  calls_ok st -> cancelled_open i st -> no_block_on i h ->
  count_complete i (snd (run st h)) = 0%nat /\ count_notify i (snd (run st h)) = 0%nat.
Proof.
  induction h as [|e h IH]; intros st Hok Hq Hnb; simpl; auto.
  unfold no_block_on in Hnb. simpl in Hnb. apply andb_true_iff in Hnb. destruct Hnb as [Hb Hnb]. apply negb_true_iff in Hb.
  destruct (step st e) as [st1 o1] eqn:E. destruct (cancelled_open_step _ _ _ _ _ Hok Hq Hb E) as (Hok1 & Hq1 & C1 & N1).
  specialize (IH st1 Hok1 Hq1 Hnb). destruct (run st1 h) as [st2 o2]. simpl in *.
  rewrite count_complete_app, count_notify_app. lia.
Qed.

Lemma fst_run_trace b h : run (init_at b) h = (fst (run (init_at b) h), trace_at b h).
Proof. unfold trace_at. destruct (run (init_at b) h); reflexivity. Qed.

(* the call exists and has not completed when it is cancelled; afterwards nobody blocks on it *)
Theorem cancel_silent_partial b h1 h2 i :
  valid_base b ->
  (i < length (call_serials (trace_at b h1)))%nat -> count_complete i (trace_at b h1) = 0%nat -> no_block_on i h2 ->
  let tr2 := snd (run (fst (run (init_at b) (h1 ++ [ECancel i]))) h2) in
  count_complete i tr2 = 0%nat /\ count_notify i tr2 = 0%nat.
Proof.
  intros Hb Hlen Hcc Hnb. simpl.
  pose proof (rel_trace b h1 Hb) as R. set (st0 := fst (run (init_at b) h1)) in *.
  rewrite run_app, fst_run_trace. fold st0. simpl.
  destruct (step st0 (ECancel i)) as [st1 o1] eqn:E. simpl.
  assert (Hok0 : calls_ok st0) by (apply (r_ok _ _ _ R)).
  destruct (step_good _ _ _ _ E Hok0) as [Hok1 _].
  apply cancelled_open_run; auto.
  destruct (fault st0 =? 0) eqn:Ef.
  2:{ left. unfold step in E. rewrite Ef in E. simpl in E. inversion E; subst. apply N.eqb_neq; auto. }
  right. rewrite (r_serials _ _ _ R), map_length in Hlen.
  destruct (nth_error (cores st0) i) as [k|] eqn:Hk; [|apply nth_error_None in Hk; lia].
  pose proof (r_counts _ _ _ R i) as Hcnt. rewrite Hk in Hcnt. destruct Hcnt as [Hc1 _]. rewrite Hcc in Hc1.
  unfold step in E. rewrite Ef in E. simpl in E. unfold ev_cancel in E.
  unfold cores in Hk. rewrite nth_error_map in Hk. destruct (nth_error (calls st0) i) as [c|] eqn:Hc; [|discriminate].
  inversion E; subst. exists (k_cancel k). unfold cores; simpl.
  rewrite (map_upd core_of k_cancel) by reflexivity. rewrite cores_detach, nth_error_upd, Nat.eqb_refl, nth_error_map, Hc. simpl.
  simpl in Hk. inversion Hk; subst. simpl in *. repeat split; auto. destruct (c_completed c); simpl in *; [discriminate|reflexivity].
Qed.
