(* Proofs for C06, construction of the policy: a tree of configuration files
   (<include>, <includedir>, bus_policy_merge) denotes the flat sequence of
   <policy> elements that textual inclusion gives; connection admission; reload. *)
From DV Require Import Lib.Base Gen.Tables Gen.PolicyTables Policy.Policy Policy.PolicyConfig Policy.PolicyBus
     Spec.PolicySpec Spec.PolicyConfigSpec Proofs.PolicyProofs.
From Coq Require Import ZifyBool ZifyN ZifyNat.
Local Open Scope N_scope.

Scheme cfg_items_mut := Induction for cfg_items Sort Prop
  with cfg_item_mut := Induction for cfg_item Sort Prop
  with inc_target_mut := Induction for inc_target Sort Prop
  with dir_entries_mut := Induction for dir_entries Sort Prop.
Combined Scheme cfg_mutind from cfg_items_mut, cfg_item_mut, inc_target_mut, dir_entries_mut.

(* ------------------------------------------------------------------ association lists keyed by uid / gid *)
Definition alist_wf (l : list (N * list rule)) : Prop := NoDup (map fst l).

Lemma in_keys_append l k r x : In x (map fst (alist_append l k r)) -> In x (map fst l) \/ x = k.
Proof.
  induction l as [|[k0 rs] t IH]; simpl.
  - intros [H|[]]; auto.
  - destruct (k0 =? k) eqn:E; simpl; intros [H|H]; auto. apply IH in H. tauto.
Qed.

Lemma alist_append_wf l k r : alist_wf l -> alist_wf (alist_append l k r).
Proof.
  unfold alist_wf. induction l as [|[k0 rs] t IH]; simpl; intros H.
  - repeat constructor; auto.
  - inversion H as [|? ? Hn Ht]; subst. destruct (k0 =? k) eqn:E; simpl.
    + constructor; auto.
    + constructor; auto. intros Hin. apply in_keys_append in Hin. destruct Hin as [Hin|Hin]; auto.
      subst. rewrite N.eqb_refl in E. discriminate.
Qed.

Lemma fold_append_wf k rs d : alist_wf d -> alist_wf (fold_left (fun d' r => alist_append d' k r) rs d).
Proof. revert d. induction rs as [|r t IH]; simpl; intros d H; auto. apply IH. apply alist_append_wf; auto. Qed.

Lemma fold_append_find k0 rs d k :
  alist_find (fold_left (fun d' r => alist_append d' k0 r) rs d) k = alist_find d k ++ (if k0 =? k then rs else []).
Proof.
  revert d. induction rs as [|r t IH]; intros d; simpl.
  - destruct (k0 =? k); rewrite app_nil_r; auto.
  - rewrite IH, alist_find_append. destruct (k0 =? k); simpl; rewrite <- ?app_assoc, ?app_nil_r; auto.
Qed.

Definition all_for (s : list (N * list rule)) (k : N) : list rule := flat_map (fun e => if fst e =? k then snd e else []) s.

Lemma merge_alist_wf d s : alist_wf d -> alist_wf (merge_alist d s).
Proof.
  unfold merge_alist. revert d. induction s as [|e t IH]; simpl; intros d H; auto. apply IH. apply fold_append_wf; auto.
Qed.

Lemma merge_alist_find d s k : alist_find (merge_alist d s) k = alist_find d k ++ all_for s k.
Proof.
  unfold merge_alist, all_for. revert d. induction s as [|e t IH]; intros d; simpl.
  - rewrite app_nil_r; auto.
  - rewrite IH, fold_append_find, <- app_assoc. reflexivity.
Qed.

Lemma all_for_absent s k : ~ In k (map fst s) -> all_for s k = [].
Proof.
  unfold all_for. induction s as [|[k0 rs] t IH]; simpl; intros H; auto.
  destruct (k0 =? k) eqn:E. { apply N.eqb_eq in E. subst. tauto. }
  simpl. apply IH. tauto.
Qed.

Lemma all_for_find s k : alist_wf s -> all_for s k = alist_find s k.
Proof.
  unfold alist_wf. induction s as [|[k0 rs] t IH]; simpl; intros H; auto.
  inversion H as [|? ? Hn Ht]; subst. unfold all_for in *. simpl. destruct (k0 =? k) eqn:E.
  - apply N.eqb_eq in E. subst. fold (all_for t k). rewrite all_for_absent by auto. apply app_nil_r.
  - simpl. apply IH; auto.
Qed.

(* ------------------------------------------------------------------ policies *)
Definition policy_wf (p : policy) : Prop := alist_wf (p_uid p) /\ alist_wf (p_gid p).

Lemma policy_empty_wf : policy_wf policy_empty.
Proof. split; constructor. Qed.

Lemma policy_add_wf p c r : policy_wf p -> policy_wf (policy_add p c r).
Proof. intros [H1 H2]. destruct c as [| |u|g|[|]|]; split; simpl; auto using alist_append_wf. Qed.

Lemma policy_add_conn_wf p c cr : policy_wf p -> policy_wf (policy_add_conn p c cr).
Proof. intros [H1 H2]. destruct c as [| |u|g|[|]|]; split; simpl; auto. Qed.

Lemma policy_merge_wf p q : policy_wf p -> policy_wf (policy_merge p q).
Proof. intros [H1 H2]. split; simpl; apply merge_alist_wf; auto. Qed.

Lemma view_add_conn p c cr c' : view (policy_add_conn p c cr) c' = view p c'.
Proof. destruct c as [| |u|g|[|]|]; destruct c' as [| |u'|g'|[|]|]; reflexivity. Qed.

Lemma conn_default_add p c r : p_conn_default (policy_add p c r) = p_conn_default p.
Proof. destruct c as [| |u|g|[|]|]; reflexivity. Qed.
Lemma conn_mandatory_add p c r : p_conn_mandatory (policy_add p c r) = p_conn_mandatory p.
Proof. destruct c as [| |u|g|[|]|]; reflexivity. Qed.
Lemma conn_default_add_conn p c cr :
  p_conn_default (policy_add_conn p c cr) = p_conn_default p ++ (if pctx_eqb c CDefault then [cr] else []).
Proof. destruct c as [| |u|g|[|]|]; simpl; rewrite ?app_nil_r; reflexivity. Qed.
Lemma conn_mandatory_add_conn p c cr :
  p_conn_mandatory (policy_add_conn p c cr) = p_conn_mandatory p ++ (if pctx_eqb c CMandatory then [cr] else []).
Proof. destruct c as [| |u|g|[|]|]; simpl; rewrite ?app_nil_r; reflexivity. Qed.

Lemma view_merge p q c : policy_wf q -> view (policy_merge p q) c = view p c ++ view q c.
Proof.
  intros [H1 H2]. destruct c as [| |u|g|[|]|]; simpl; auto.
  - rewrite merge_alist_find, all_for_find; auto.
  - rewrite merge_alist_find, all_for_find; auto.
Qed.

Lemma view_empty c : view policy_empty c = [].
Proof. destruct c as [| |u|g|[|]|]; reflexivity. Qed.

Section Config.
  Variables ru rg : name_resolver.

  (* [p'] is [p] extended by what the flat configuration [cfg] says, context by context *)
  Definition ext (p p' : policy) (cfg : list policy_elem) : Prop :=
    (forall c, c <> CIgnored -> view p' c = view p c ++ select (cfg_rules ru rg cfg) c) /\
    p_conn_default p' = p_conn_default p ++ cfg_conn ru rg cfg CDefault /\
    p_conn_mandatory p' = p_conn_mandatory p ++ cfg_conn ru rg cfg CMandatory.

  Lemma ext_refl p : ext p p [].
  Proof. repeat split; intros; simpl; rewrite app_nil_r; auto. Qed.

  Lemma select_app (a b : rule_cfg) c : select (a ++ b) c = select a c ++ select b c.
  Proof. unfold select. apply flat_map_app. Qed.

  Lemma ext_trans p p1 p2 c1 c2 : ext p p1 c1 -> ext p1 p2 c2 -> ext p p2 (c1 ++ c2).
  Proof.
    intros [A1 [A2 A3]] [B1 [B2 B3]]. unfold ext, cfg_rules, cfg_conn. rewrite map_app, !flat_map_app.
    repeat split.
    - intros c Hc. rewrite B1, A1 by auto. rewrite select_app, app_assoc. reflexivity.
    - rewrite B2, A2, app_assoc. reflexivity.
    - rewrite B3, A3, app_assoc. reflexivity.
  Qed.

  Lemma ext_merge p q cfg : policy_wf q -> ext policy_empty q cfg -> ext p (policy_merge p q) cfg.
  Proof.
    intros W [A1 [A2 A3]]. repeat split.
    - intros c Hc. rewrite view_merge by auto. rewrite A1 by auto. rewrite view_empty. reflexivity.
    - simpl. rewrite A2. reflexivity.
    - simpl. rewrite A3. reflexivity.
  Qed.

  Lemma ext_nil_elems p c : ext p p [(c, [])].
  Proof.
    unfold ext, cfg_rules, cfg_conn, select. simpl. repeat split.
    - intros c' _. destruct (pctx_eqb c c'); rewrite ?app_nil_r; reflexivity.
    - destruct (pctx_eqb c CDefault); rewrite ?app_nil_r; reflexivity.
    - destruct (pctx_eqb c CMandatory); rewrite ?app_nil_r; reflexivity.
  Qed.

  Lemma elem_ok_eq c allow a :
    elem_ok ru rg c (allow, a) =
    match rule_from_element ru rg allow a with
    | EErr => false | ERule _ => true | EConn None => true
    | EConn (Some _) => match c with CUser _ | CGroup _ => false | _ => true end
    end.
  Proof. reflexivity. Qed.

  (* one <policy> element *)
  Lemma load_rules_spec c els : forall p, policy_wf p ->
    match load_rules ru rg p c els with
    | None => forallb (elem_ok ru rg c) els = false
    | Some p' => forallb (elem_ok ru rg c) els = true /\ policy_wf p' /\ ext p p' [(c, els)]
    end.
  Proof.
    induction els as [|[allow a] t IH]; intros p W.
    - simpl. split; [reflexivity|]. split; [exact W | apply ext_nil_elems].
    - cbn [load_rules forallb]. rewrite elem_ok_eq.
      destruct (rule_from_element ru rg allow a) as [|r|[cr|]] eqn:E.
      + reflexivity.
      + specialize (IH (policy_add p c r) (policy_add_wf p c r W)).
        destruct (load_rules ru rg (policy_add p c r) c t) as [p'|]; [|exact IH].
        destruct IH as [F [W' [A1 [A2 A3]]]]. split; [exact F|]. split; [exact W'|].
        unfold ext, cfg_rules, cfg_conn, select in *. cbn [map flat_map fst snd elems_rules elems_conn] in *. rewrite E.
        repeat split.
        * intros c' Hc. rewrite A1 by auto. rewrite view_add by auto. rewrite !app_nil_r.
          destruct (pctx_eqb c c'); simpl; rewrite <- ?app_assoc, ?app_nil_r; auto.
        * rewrite A2, conn_default_add. reflexivity.
        * rewrite A3, conn_mandatory_add. reflexivity.
      + destruct c as [| |u|g|ac|] eqn:Ec; try reflexivity;
          match goal with |- context [policy_add_conn p ?cc cr] =>
            specialize (IH (policy_add_conn p cc cr) (policy_add_conn_wf p cc cr W));
            destruct (load_rules ru rg (policy_add_conn p cc cr) cc t) as [p'|]; [|exact IH];
            destruct IH as [F [W' [A1 [A2 A3]]]]; (split; [exact F|]); (split; [exact W'|]);
            unfold ext, cfg_rules, cfg_conn, select in *; cbn [map flat_map fst snd elems_rules elems_conn] in *; rewrite E;
            repeat split;
            [ intros c' Hc; rewrite A1 by auto; rewrite view_add_conn; reflexivity
            | rewrite A2, conn_default_add_conn; simpl; rewrite ?app_nil_r, <- ?app_assoc; reflexivity
            | rewrite A3, conn_mandatory_add_conn; simpl; rewrite ?app_nil_r, <- ?app_assoc; reflexivity ]
          end.
      + specialize (IH p W). destruct (load_rules ru rg p c t) as [p'|]; [|exact IH].
        destruct IH as [F [W' [A1 [A2 A3]]]]. split; [exact F|]. split; [exact W'|].
        unfold ext, cfg_rules, cfg_conn, select in *. cbn [map flat_map fst snd elems_rules elems_conn] in *. rewrite E.
        repeat split; auto.
  Qed.

  (* unfolding equations of the mutual fixpoints *)
  Lemma load_items_cons it rest p :
    load_items ru rg (ICons it rest) p = match load_item ru rg it p with LOk p' => load_items ru rg rest p' | LErr a => LErr a end.
  Proof. reflexivity. Qed.
  Lemma denote_cons code it rest :
    denote ru rg code (ICons it rest) =
    match denote_item ru rg code it with
    | DFatal a => DFatal a
    | DOk c1 => match denote ru rg code rest with DFatal a => DFatal a | DOk c2 => DOk (c1 ++ c2) end
    end.
  Proof. reflexivity. Qed.
  Lemma load_item_policy c els p :
    load_item ru rg (IPolicy c els) p = match load_rules ru rg p c els with Some p' => LOk p' | None => LErr false end.
  Proof. reflexivity. Qed.
  Lemma denote_item_policy code c els :
    denote_item ru rg code (IPolicy c els) = if forallb (elem_ok ru rg c) els then DOk [(c, els)] else DFatal false.
  Proof. reflexivity. Qed.
  Lemma include_file_file its im p :
    include_file ru rg (TFile its) im p =
    match load_items ru rg its policy_empty with
    | LOk q => LOk (policy_merge p q)
    | LErr absent => if absent && im then LOk p else LErr absent
    end.
  Proof. reflexivity. Qed.
  Lemma denote_target_file code its im :
    denote_target ru rg code (TFile its) im =
    match denote ru rg code its with DOk c => DOk c | DFatal a => if code && a && im then DOk [] else DFatal a end.
  Proof. reflexivity. Qed.
  Lemma include_dir_cons is_conf t rest p :
    include_dir ru rg (DCons is_conf t rest) p =
    include_dir ru rg rest (if is_conf then match include_file ru rg t true p with LOk p' => p' | LErr _ => p end else p).
  Proof. reflexivity. Qed.
  Lemma denote_dir_cons code is_conf t rest :
    denote_dir ru rg code (DCons is_conf t rest) =
    (if is_conf then match denote_target ru rg code t true with DOk c => c | DFatal _ => [] end else []) ++ denote_dir ru rg code rest.
  Proof. reflexivity. Qed.

  (* a loader agrees with a denotation *)
  Definition agrees (d : denot) (l : policy -> lres) : Prop :=
    forall p, policy_wf p ->
      match d with
      | DFatal a => l p = LErr a
      | DOk cfg => exists p', l p = LOk p' /\ policy_wf p' /\ ext p p' cfg
      end.

  Theorem load_agrees :
    (forall its, agrees (denote ru rg true its) (load_items ru rg its)) /\
    (forall it, agrees (denote_item ru rg true it) (load_item ru rg it)) /\
    (forall t, forall im, agrees (denote_target ru rg true t im) (include_file ru rg t im)) /\
    (forall fs, forall p, policy_wf p -> exists p', include_dir ru rg fs p = LOk p' /\ policy_wf p' /\ ext p p' (denote_dir ru rg true fs)).
  Proof.
    apply cfg_mutind.
    - (* INil *) intros p W. simpl. exists p. auto using ext_refl.
    - (* ICons *) intros it Hit rest Hrest p W. rewrite denote_cons, load_items_cons.
      specialize (Hit p W). destruct (denote_item ru rg true it) as [a|c1].
      + rewrite Hit. reflexivity.
      + destruct Hit as [p1 [L1 [W1 E1]]]. rewrite L1. specialize (Hrest p1 W1).
        destruct (denote ru rg true rest) as [a|c2].
        * exact Hrest.
        * destruct Hrest as [p2 [L2 [W2 E2]]]. exists p2. eauto using ext_trans.
    - (* IPolicy *) intros c els p W. rewrite denote_item_policy, load_item_policy. pose proof (load_rules_spec c els p W) as H.
      destruct (load_rules ru rg p c els) as [p'|].
      + destruct H as [F [W' E]]. rewrite F. exists p'. auto.
      + rewrite H. reflexivity.
    - (* IInclude *) intros im t Ht p W. apply Ht; auto.
    - (* IIncludeDir *) intros fs Hfs p W. apply (Hfs p W).
    - (* TMissing *) intros im p W. simpl. destruct im; [exists p; auto using ext_refl | reflexivity].
    - (* TBroken *) intros im p W. reflexivity.
    - (* TCircular *) intros im p W. reflexivity.
    - (* TFile *) intros its Hits im p W. rewrite denote_target_file, include_file_file.
      specialize (Hits policy_empty policy_empty_wf). destruct (denote ru rg true its) as [a|c].
      + rewrite Hits. simpl. destruct (a && im); [exists p; auto using ext_refl | reflexivity].
      + destruct Hits as [q [L [Wq E]]]. rewrite L. exists (policy_merge p q). auto using policy_merge_wf, ext_merge.
    - (* DNil *) intros p W. exists p. simpl. auto using ext_refl.
    - (* DCons *) intros is_conf t Ht rest Hrest p W. rewrite denote_dir_cons, include_dir_cons. destruct is_conf.
      + specialize (Ht true p W). destruct (denote_target ru rg true t true) as [a|c].
        * rewrite Ht. destruct (Hrest p W) as [p2 [L2 [W2 E2]]]. exists p2. auto.
        * destruct Ht as [p1 [L1 [W1 E1]]]. rewrite L1. destruct (Hrest p1 W1) as [p2 [L2 [W2 E2]]].
          exists p2. eauto using ext_trans.
      + destruct (Hrest p W) as [p2 [L2 [W2 E2]]]. exists p2. auto.
  Qed.

  (* the top-level file *)
  Theorem load_config_denotes its :
    match denote ru rg true its with
    | DFatal a => load_config ru rg its = LErr a
    | DOk cfg => exists p, load_config ru rg its = LOk p /\ ext policy_empty p cfg
    end.
  Proof.
    pose proof (proj1 load_agrees its policy_empty policy_empty_wf) as H. unfold load_config.
    destruct (denote ru rg true its); auto. destruct H as [p [L [W E]]]. eauto.
  Qed.

  Lemma ext_client_rules p cfg uid gids atc :
    ext policy_empty p cfg -> client_rules p uid gids atc = spec_client_rules (cfg_rules ru rg cfg) uid gids atc.
  Proof.
    intros [A _]. rewrite client_rules_view. unfold spec_client_rules.
    rewrite (flat_map_ext _ (fun g => select (cfg_rules ru rg cfg) (CGroup g))).
    2:{ intros g. rewrite A by discriminate. rewrite view_empty. reflexivity. }
    rewrite !A by discriminate. rewrite !view_empty. cbn [concat app]. rewrite app_nil_r. reflexivity.
  Qed.

  (* the tree of files is read as its textual inclusion, in the documented context order *)
  Theorem config_tree_order its p :
    load_config ru rg its = LOk p ->
    exists cfg, denote ru rg true its = DOk cfg /\
      forall uid gids atc, client_rules p uid gids atc = spec_client_rules (cfg_rules ru rg cfg) uid gids atc.
  Proof.
    intros L. pose proof (load_config_denotes its) as H. destruct (denote ru rg true its) as [a|cfg].
    - rewrite H in L. discriminate.
    - destruct H as [p' [L' E]]. rewrite L' in L. inversion L; subst p'. exists cfg. split; auto.
      intros. apply ext_client_rules; auto.
  Qed.

  Theorem config_tree_fatal its a : denote ru rg true its = DFatal a <-> load_config ru rg its = LErr a.
  Proof.
    pose proof (load_config_denotes its) as H. destruct (denote ru rg true its) as [a'|cfg].
    - rewrite H. split; intros E; inversion E; auto.
    - destruct H as [p [L _]]. rewrite L. split; discriminate.
  Qed.

  (* ---------------------------------------------------------------- connection admission *)
  Lemma conn_fold_last (f : conn_rule -> bool) l init :
    fold_left (fun a cr => if f cr then cr_allow cr else a) l init =
    match find f (rev l) with Some cr => cr_allow cr | None => init end.
  Proof.
    revert init. induction l as [|x t IH] using rev_ind; intros init; simpl; auto.
    rewrite fold_left_app, rev_app_distr. simpl. destruct (f x); auto.
  Qed.

  Theorem admission_spec its p owner uid dbg :
    load_config ru rg its = LOk p ->
    exists cfg, denote ru rg true its = DOk cfg /\ allow_unix_user p owner uid dbg = spec_admit ru rg cfg owner uid dbg.
  Proof.
    intros L. pose proof (load_config_denotes its) as H. destruct (denote ru rg true its) as [a|cfg].
    - rewrite H in L. discriminate.
    - destruct H as [p' [L' [_ [A2 A3]]]]. rewrite L' in L. inversion L; subst p'. exists cfg. split; auto.
      unfold allow_unix_user, spec_admit. destruct dbg as [groups|]; auto.
      unfold list_allows_user. simpl in A2, A3. rewrite A2, A3.
      rewrite <- fold_left_app.
      apply (conn_fold_last (fun cr => conn_rule_applies cr uid groups)).
  Qed.

  (* ---------------------------------------------------------------- the literal page: ignore_missing (D4) *)
  Definition fails_absent (t : inc_target) : bool :=
    match t with
    | TFile its => match denote ru rg false its with DFatal true => true | _ => false end
    | _ => false
    end.

  (* no <include ignore_missing="yes"> names an existing file whose own loading fails with "file not found" *)
  Fixpoint no_swallow (its : cfg_items) : bool :=
    match its with INil => true | ICons it rest => no_swallow_item it && no_swallow rest end
  with no_swallow_item (it : cfg_item) : bool :=
    match it with
    | IPolicy _ _ => true
    | IInclude im t => no_swallow_target t && negb (im && fails_absent t)
    | IIncludeDir fs => no_swallow_dir fs
    end
  with no_swallow_target (t : inc_target) : bool :=
    match t with TFile its => no_swallow its | _ => true end
  with no_swallow_dir (fs : dir_entries) : bool :=
    match fs with DNil => true | DCons _ t rest => no_swallow_target t && no_swallow_dir rest end.

  Definition dir_part (code : bool) (t : inc_target) : list policy_elem :=
    match denote_target ru rg code t true with DOk c => c | DFatal _ => [] end.

  Theorem literal_include_partial :
    (forall its, no_swallow its = true -> denote ru rg true its = denote ru rg false its) /\
    (forall it, no_swallow_item it = true -> denote_item ru rg true it = denote_item ru rg false it) /\
    (forall t, no_swallow_target t = true ->
               (forall im, negb (im && fails_absent t) = true -> denote_target ru rg true t im = denote_target ru rg false t im) /\
               dir_part true t = dir_part false t) /\
    (forall fs, no_swallow_dir fs = true -> denote_dir ru rg true fs = denote_dir ru rg false fs).
  Proof.
    apply cfg_mutind.
    - reflexivity.
    - intros it Hit rest Hrest H. change (no_swallow_item it && no_swallow rest = true) in H.
      apply andb_true_iff in H. destruct H as [H1 H2]. rewrite !denote_cons, Hit, Hrest; auto.
    - reflexivity.
    - intros im t Ht H. change (no_swallow_target t && negb (im && fails_absent t) = true) in H.
      apply andb_true_iff in H. destruct H as [H1 H2]. apply (proj1 (Ht H1)); auto.
    - intros fs Hfs H. change (denote_item ru rg true (IIncludeDir fs)) with (DOk (denote_dir ru rg true fs)).
      change (denote_item ru rg false (IIncludeDir fs)) with (DOk (denote_dir ru rg false fs)). rewrite Hfs; auto.
    - intros _. split; auto.
    - intros _. split; auto.
    - intros _. split; auto.
    - intros its Hits H. specialize (Hits H). unfold dir_part. rewrite !denote_target_file. rewrite Hits. split.
      + intros im Him. rewrite !denote_target_file, Hits. unfold fails_absent in Him.
        destruct (denote ru rg false its) as [[|]|c]; simpl in *; auto.
        destruct im; simpl in *; auto; discriminate.
      + destruct (denote ru rg false its) as [[|]|c]; reflexivity.
    - reflexivity.
    - intros is_conf t Ht rest Hrest H. change (no_swallow_target t && no_swallow_dir rest = true) in H.
      apply andb_true_iff in H. destruct H as [H1 H2].
      rewrite !denote_dir_cons, Hrest by auto. destruct is_conf; auto.
      destruct (Ht H1) as [_ Hd]. unfold dir_part in Hd. rewrite Hd. reflexivity.
  Qed.
End Config.

(* D4 witness: <include ignore_missing="yes">B</include> where B exists, denies ownership of everything, and itself
   includes an absent file: the code drops B silently, the page makes the absent file fatal *)
Definition w_deny_own_attrs : attrs :=
  mkAttrs None None None None None None None None None None None None None None None None None None None (Some [42]) None None None None.
Definition w_tree_d4 : cfg_items :=
  ICons (IInclude true (TFile (ICons (IPolicy CDefault [(false, w_deny_own_attrs)]) (ICons (IInclude false TMissing) INil)))) INil.

Theorem literal_include_refuted :
  load_config (fun _ => None) (fun _ => None) w_tree_d4 = LOk policy_empty /\
  denote (fun _ => None) (fun _ => None) false w_tree_d4 = DFatal true.
Proof. split; vm_compute; reflexivity. Qed.
