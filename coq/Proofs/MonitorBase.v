(* C18, part 1: what the loops of Monitor.v compute, in the declarative terms of Spec/MonitorSpec.v. *)
From Coq Require Import ZifyBool ZifyN ZifyNat Permutation.
From DV Require Import Lib.Base Monitor.Monitor Spec.MonitorSpec.
Local Open Scope N_scope.

(* ---------------------------------------------------------------- small facts *)
Lemma memN_In c l : memN c l = true <-> In c l.
Proof.
  unfold memN. rewrite existsb_exists. split.
  - intros (x & Hx & E). apply N.eqb_eq in E. subst; auto.
  - intros H. exists c. split; auto. apply N.eqb_refl.
Qed.

Lemma memN_false c l : memN c l = false <-> ~ In c l.
Proof. rewrite <- memN_In. destruct (memN c l); split; congruence. Qed.

Lemma memN_app c l1 l2 : memN c (l1 ++ l2) = memN c l1 || memN c l2.
Proof. unfold memN. apply existsb_app. Qed.

Lemma memN_filter_neq c x l : memN c (filter (fun y => negb (y =? x)) l) = memN c l && negb (c =? x).
Proof.
  induction l as [|y l IH]; simpl; auto.
  destruct (y =? x) eqn:E; simpl.
  - rewrite IH. apply N.eqb_eq in E. subst. destruct (c =? x) eqn:E2; simpl.
    + rewrite andb_false_r. reflexivity.
    + rewrite andb_true_r. reflexivity.
  - rewrite IH. destruct (c =? y) eqn:E2; simpl; auto.
    apply N.eqb_eq in E2. subst. rewrite E. reflexivity.
Qed.

Lemma name_eqb_eq a b : name_eqb a b = true <-> a = b.
Proof.
  destruct a, b; simpl; try (split; congruence); rewrite N.eqb_eq; split; congruence.
Qed.

Lemma name_eqb_refl a : name_eqb a a = true.
Proof. apply name_eqb_eq; reflexivity. Qed.

Lemma name_eqb_neq a b : name_eqb a b = false <-> a <> b.
Proof. rewrite <- name_eqb_eq. destruct (name_eqb a b); split; congruence. Qed.

Lemma ktype_eqb_eq a b : ktype_eqb a b = true <-> a = b.
Proof. destruct a, b; simpl; split; congruence. Qed.

Lemma mtype_eqb_eq a b : mtype_eqb a b = true <-> a = b.
Proof.
  destruct a as [x|x], b as [y|y]; simpl; try (split; congruence).
  - rewrite ktype_eqb_eq. split; congruence.
  - rewrite N.eqb_eq. split; congruence.
Qed.

(* ---------------------------------------------------------------- ownership *)
Lemma primary_spec own n c : primary own n = Some c <-> primary_owner own n c.
Proof.
  induction own as [|[k o] own IH]; simpl.
  - split; [discriminate|]. intros (l1 & l2 & H & _). destruct l1; discriminate.
  - destruct (name_eqb k n) eqn:E.
    + apply name_eqb_eq in E. subst k. split.
      * intros H. inversion H; subst. exists [], own. split; auto.
      * intros (l1 & l2 & H & Hn). destruct l1 as [|p l1]; simpl in H.
        -- inversion H; subst; auto.
        -- inversion H; subst. exfalso. apply (Hn o). left; reflexivity.
    + apply name_eqb_neq in E. rewrite IH. split.
      * intros (l1 & l2 & -> & Hn). exists ((k, o) :: l1), l2. split; auto.
        intros c' [H|H]; [inversion H; subst; congruence | apply (Hn c'); auto].
      * intros (l1 & l2 & H & Hn). destruct l1 as [|p l1]; simpl in H.
        -- inversion H; subst; congruence.
        -- inversion H; subst. exists l1, l2. split; auto. intros c' Hc. apply (Hn c'). right; auto.
Qed.

Lemma primary_In own n c : primary own n = Some c -> In (n, c) own.
Proof.
  intros H. apply primary_spec in H. destruct H as (l1 & l2 & -> & _). apply in_or_app. right; left; reflexivity.
Qed.

Lemma is_primary_spec own c n : is_primary own c n = true <-> primary_owner own n c.
Proof.
  unfold is_primary. rewrite <- primary_spec. destruct (primary own n) as [o|].
  - rewrite N.eqb_eq. split; congruence.
  - split; discriminate.
Qed.

Lemma queue_In own n c : In c (queue own n) <-> In (n, c) own.
Proof.
  unfold queue. rewrite in_map_iff. split.
  - intros ([k o] & E & H). simpl in E. subst o. apply filter_In in H. destruct H as [H E].
    simpl in E. apply name_eqb_eq in E. subst; auto.
  - intros H. exists (n, c). split; auto. apply filter_In. split; auto. simpl. apply name_eqb_refl.
Qed.

Lemma owned_In own c n : In n (owned own c) <-> In (n, c) own.
Proof.
  unfold owned. rewrite in_map_iff. split.
  - intros ([k o] & E & H). simpl in E. subst k. apply filter_In in H. destruct H as [H E].
    simpl in E. apply N.eqb_eq in E. subst; auto.
  - intros H. exists (n, c). split; auto. apply filter_In. split; auto. simpl. apply N.eqb_refl.
Qed.

Lemma unlink_In own n c k o : In (k, o) (unlink own n c) <-> In (k, o) own /\ ~ (k = n /\ o = c).
Proof.
  unfold unlink. rewrite filter_In. simpl. rewrite negb_true_iff, andb_false_iff, name_eqb_neq, N.eqb_neq.
  split; [tauto|]. intros [H1 H2]. split; auto.
  destruct (name_eqb k n) eqn:E; [apply name_eqb_eq in E | apply name_eqb_neq in E; auto].
  right. intros ->. apply H2; auto.
Qed.

Lemma primary_head own n : primary own n = hd_error (queue own n).
Proof.
  unfold queue. induction own as [|[k o] own IH]; simpl; auto.
  destruct (name_eqb k n); simpl; auto.
Qed.

(* ---------------------------------------------------------------- one rule *)
Lemma opt_type_ok_spec f t : opt_type_ok f t = true <-> (forall x, f = Some x -> t = TKnown x).
Proof.
  destruct f as [x|]; unfold opt_type_ok.
  - rewrite mtype_eqb_eq. split; [intros <- y H; inversion H; auto | intros H; symmetry; apply H; auto].
  - split; [discriminate | auto].
Qed.

Lemma opt_code_ok_spec f v : opt_code_ok f v = true <-> (forall x, f = Some x -> v = x /\ x <> 0).
Proof.
  destruct f as [x|]; simpl.
  - rewrite andb_true_iff, negb_true_iff, N.eqb_neq, N.eqb_eq. split.
    + intros [H1 H2] y H. inversion H; subst. split; congruence.
    + intros H. destruct (H x eq_refl) as [-> H2]. split; auto.
  - split; [discriminate | auto].
Qed.

Theorem fmatch_accepts own f from addr m : fmatch own true f from addr m = true <-> accepts own f from addr m.
Proof.
  unfold fmatch, accepts. rewrite !andb_true_iff, opt_type_ok_spec, !opt_code_ok_spec.
  assert (S : (match f_sender f with
               | None => true
               | Some s => match from with None => name_eqb s NDriver | Some c => is_primary own c s end
               end) = true <-> (forall s, f_sender f = Some s -> sender_is own from s)).
  { destruct (f_sender f) as [s|]; [|split; [discriminate|auto]].
    unfold sender_is. destruct from as [c|].
    - rewrite is_primary_spec. split; [intros H s' E; inversion E; subst; auto | auto].
    - rewrite name_eqb_eq. split; [intros H s' E; inversion E; subst; auto | auto]. }
  assert (D : (match f_dest f with
               | Some d => match b_dest m with
                           | None => false
                           | Some md => true && (match addr with None => name_eqb d md | Some a => is_primary own a d end)
                           end
               | None => true || (match b_dest m with None => true | Some _ => false end)
               end) = true <-> (forall d, f_dest f = Some d -> exists md, b_dest m = Some md /\ addressed_is own addr md d)).
  { destruct (f_dest f) as [d|]; [|simpl; split; [discriminate|auto]].
    destruct (b_dest m) as [md|].
    - simpl. unfold addressed_is. destruct addr as [a|].
      + rewrite is_primary_spec. split.
        * intros H d' E. inversion E; subst. exists md; auto.
        * intros H. destruct (H d eq_refl) as (md' & _ & H2). auto.
      + rewrite name_eqb_eq. split.
        * intros H d' E. inversion E; subst d'. exists md; auto.
        * intros H. destruct (H d eq_refl) as (md' & E & H2). inversion E; subst; auto.
    - split; [discriminate|]. intros H. destruct (H d eq_refl) as (md & E & _). discriminate. }
  rewrite S, D. tauto.
Qed.

(* a message from the bus to nobody in particular: the registry plays no part *)
Lemma fmatch_driver_broadcast own own' ev f m : fmatch own ev f None None m = fmatch own' ev f None None m.
Proof. reflexivity. Qed.

(* a rule that does not eavesdrop never selects a message that has a DESTINATION *)
Lemma fmatch_noeaves_dest own f from addr m d : b_dest m = Some d -> fmatch own false f from addr m = false.
Proof.
  intros H. unfold fmatch. rewrite H. destruct (f_dest f); simpl; rewrite !andb_false_r; reflexivity.
Qed.

(* ---------------------------------------------------------------- the rule list *)
Definition wantsb (own : registry) (ev : bool) (rules : list (cid * flt)) (x : cid) (from addr : option cid) (m : bmsg) : bool :=
  existsb (fun r => (fst r =? x) && fmatch own ev (snd r) from addr m) rules.

Lemma wantsb_spec own mrules x from addr m :
  wantsb own true mrules x from addr m = true <-> monitor_wants mrules own x from addr m.
Proof.
  unfold wantsb, monitor_wants. rewrite existsb_exists. split.
  - intros ([o f] & Hin & H). simpl in H. apply andb_true_iff in H. destruct H as [E H].
    apply N.eqb_eq in E. subst o. exists f. split; auto. apply fmatch_accepts; auto.
  - intros (f & Hin & H). exists (x, f). split; auto. simpl. rewrite N.eqb_refl. simpl. apply fmatch_accepts; auto.
Qed.

Lemma wantsb_app own ev r1 r2 x from addr m :
  wantsb own ev (r1 ++ r2) x from addr m = wantsb own ev r1 x from addr m || wantsb own ev r2 x from addr m.
Proof. unfold wantsb. apply existsb_app. Qed.

Lemma wantsb_foreign own ev rules x from addr m :
  (forall r, In r rules -> fst r <> x) -> wantsb own ev rules x from addr m = false.
Proof.
  intros H. unfold wantsb.
  destruct (existsb (fun r => (fst r =? x) && fmatch own ev (snd r) from addr m) rules) eqn:E; auto.
  apply existsb_exists in E. destruct E as (r & Hin & E). apply andb_true_iff in E. destruct E as [E _].
  apply N.eqb_eq in E. exfalso. apply (H r Hin E).
Qed.

Lemma count_recips own ev rules from addr m x : forall seen,
  count_occ N.eq_dec (recips own ev rules from addr m seen) x =
  if negb (memN x seen) && wantsb own ev rules x from addr m then 1%nat else 0%nat.
Proof.
  induction rules as [|[o f] rules IH]; intros seen; simpl.
  - rewrite andb_false_r. reflexivity.
  - destruct (fmatch own ev f from addr m) eqn:Em; simpl.
    + destruct (memN o seen) eqn:Es; simpl.
      * rewrite IH. destruct (o =? x) eqn:Eo; simpl; auto.
        apply N.eqb_eq in Eo. subst o. rewrite Es. reflexivity.
      * destruct (N.eq_dec o x) as [->|Hne].
        -- rewrite IH. simpl. rewrite N.eqb_refl. simpl. rewrite Es. simpl. reflexivity.
        -- rewrite IH. simpl. assert (Eo : (o =? x) = false) by (apply N.eqb_neq; auto).
           rewrite Eo. simpl. assert (Ex : (x =? o) = false) by (apply N.eqb_neq; auto). rewrite Ex. simpl. reflexivity.
    + rewrite IH. rewrite andb_false_r. simpl. reflexivity.
Qed.

Lemma recips_owner own ev rules from addr m x : forall seen,
  In x (recips own ev rules from addr m seen) -> exists f, In (x, f) rules /\ fmatch own ev f from addr m = true.
Proof.
  induction rules as [|[o f] rules IH]; intros seen; simpl; [tauto|].
  destruct (fmatch own ev f from addr m && negb (memN o seen)) eqn:E.
  - intros [->|H].
    + apply andb_true_iff in E. exists f. split; [left; reflexivity | tauto].
    + destruct (IH _ H) as (g & Hg & Hm). exists g. split; auto.
  - intros H. destruct (IH _ H) as (g & Hg & Hm). exists g. split; auto.
Qed.

Lemma recips_not_seen own ev rules from addr m x : forall seen,
  In x (recips own ev rules from addr m seen) -> ~ In x seen.
Proof.
  induction rules as [|[o f] rules IH]; intros seen; simpl; [tauto|].
  destruct (fmatch own ev f from addr m && negb (memN o seen)) eqn:E.
  - intros [->|H].
    + apply andb_true_iff in E. destruct E as [_ E]. apply negb_true_iff in E. apply memN_false; auto.
    + intros Hs. apply (IH _ H). right; auto.
  - apply IH.
Qed.

(* several passes sharing the stamp: a recipient is listed once if any of the pools wants it *)
Lemma count_passes own ev pools from addr m x : forall seen,
  count_occ N.eq_dec (passes own ev pools from addr m seen) x =
  if negb (memN x seen) && existsb (fun p => wantsb own ev p x from addr m) pools then 1%nat else 0%nat.
Proof.
  induction pools as [|p ps IH]; intros seen; simpl.
  - rewrite andb_false_r. reflexivity.
  - rewrite count_occ_app, IH, count_recips, memN_app.
    destruct (memN x seen) eqn:Es; simpl.
    + rewrite orb_true_r. reflexivity.
    + destruct (wantsb own ev p x from addr m) eqn:Ew; simpl.
      * assert (Hin : memN x (recips own ev p from addr m seen) = true).
        { apply memN_In. apply (count_occ_In N.eq_dec). rewrite count_recips, Es, Ew. simpl. lia. }
        rewrite Hin. reflexivity.
      * assert (Hnin : memN x (recips own ev p from addr m seen) = false).
        { apply memN_false. apply (count_occ_not_In N.eq_dec). rewrite count_recips, Es, Ew. reflexivity. }
        rewrite Hnin. reflexivity.
Qed.

Lemma passes_owner own ev pools from addr m x : forall seen,
  In x (passes own ev pools from addr m seen) -> exists p f, In p pools /\ In (x, f) p /\ fmatch own ev f from addr m = true.
Proof.
  induction pools as [|p ps IH]; intros seen; simpl; [tauto|].
  intros H. apply in_app_or in H. destruct H as [H|H].
  - apply recips_owner in H. destruct H as (f & H1 & H2). exists p, f. auto.
  - destruct (IH _ H) as (q & f & H1 & H2 & H3). exists q, f. auto.
Qed.

Lemma opt_k_same_eq a b : opt_k_same a b = true <-> a = b.
Proof. destruct a, b; simpl; try (split; congruence). rewrite ktype_eqb_eq. split; congruence. Qed.
Lemma opt_N_same_eq a b : opt_N_same a b = true <-> a = b.
Proof. destruct a, b; simpl; try (split; congruence). rewrite N.eqb_eq. split; congruence. Qed.

Lemma pool_In rules t i r : In r (pool rules t i) <-> In r rules /\ f_type (snd r) = t /\ f_iface (snd r) = i.
Proof. unfold pool, in_pool. rewrite filter_In, andb_true_iff, opt_k_same_eq, opt_N_same_eq. tauto. Qed.

Definition the_pools (rules : list (cid * flt)) (m : bmsg) : list (list (cid * flt)) :=
  let has_iface := negb (b_iface m =? 0) in
  [pool rules None None;
   if has_iface then pool rules None (Some (b_iface m)) else [];
   match b_type m with TKnown k => pool rules (Some k) None | TOther _ => [] end;
   match b_type m with TKnown k => if has_iface then pool rules (Some k) (Some (b_iface m)) else [] | TOther _ => [] end].

Lemma get_recipients_passes own ev rules from addr m :
  get_recipients own ev rules from addr m =
  passes own ev (the_pools rules m) from addr m (match addr with Some a => [a] | None => [] end).
Proof. reflexivity. Qed.

Lemma the_pools_sub rules m p r : In p (the_pools rules m) -> In r p -> In r rules.
Proof.
  unfold the_pools. simpl. intros [<-|[<-|[<-|[<-|[]]]]] H.
  - apply pool_In in H. tauto.
  - destruct (negb (b_iface m =? 0)); [apply pool_In in H; tauto | destruct H].
  - destruct (b_type m); [apply pool_In in H; tauto | destruct H].
  - destruct (b_type m); [|destruct H]. destruct (negb (b_iface m =? 0)); [apply pool_In in H; tauto | destruct H].
Qed.

(* THE INDEX IS EXACT: every rule that can accept the message lives in one of the pools that are consulted, whatever the
   type byte of the message (in particular for types the specification does not define) *)
Theorem wantsb_pools own ev rules x from addr m :
  existsb (fun p => wantsb own ev p x from addr m) (the_pools rules m) = wantsb own ev rules x from addr m.
Proof.
  destruct (wantsb own ev rules x from addr m) eqn:E.
  - unfold wantsb in E. apply existsb_exists in E. destruct E as ([o f] & Hin & H). simpl in H.
    apply andb_true_iff in H. destruct H as [Ho Hm].
    assert (W : forall p, In (o, f) p -> wantsb own ev p x from addr m = true).
    { intros p Hp. unfold wantsb. apply existsb_exists. exists (o, f). simpl. rewrite Ho, Hm. auto. }
    pose proof Hm as Hm'. unfold fmatch in Hm'. rewrite !andb_true_iff in Hm'.
    destruct Hm' as [[[[Ht Hi] _] _] _].
    rewrite opt_type_ok_spec in Ht. rewrite opt_code_ok_spec in Hi.
    apply existsb_exists. unfold the_pools.
    destruct (f_type f) as [k|] eqn:Et; destruct (f_iface f) as [i|] eqn:Ei.
    + (* both *)
      specialize (Ht k eq_refl). destruct (Hi i eq_refl) as [Hi1 Hi2].
      exists (pool rules (Some k) (Some i)). split.
      * simpl. right; right; right; left. rewrite Ht, Hi1. assert (Z : (i =? 0) = false) by (apply N.eqb_neq; auto). rewrite Z. reflexivity.
      * apply W. apply pool_In. simpl. auto.
    + specialize (Ht k eq_refl). exists (pool rules (Some k) None). split.
      * simpl. right; right; left. rewrite Ht. reflexivity.
      * apply W. apply pool_In. simpl. auto.
    + destruct (Hi i eq_refl) as [Hi1 Hi2].
      exists (pool rules None (Some i)). split.
      * simpl. right; left. rewrite Hi1. assert (Z : (i =? 0) = false) by (apply N.eqb_neq; auto). rewrite Z. reflexivity.
      * apply W. apply pool_In. simpl. auto.
    + exists (pool rules None None). split; [left; reflexivity|]. apply W. apply pool_In. simpl. auto.
  - destruct (existsb (fun p => wantsb own ev p x from addr m) (the_pools rules m)) eqn:E2; auto.
    apply existsb_exists in E2. destruct E2 as (p & Hp & H). unfold wantsb in H. apply existsb_exists in H.
    destruct H as (r & Hr & H). assert (wantsb own ev rules x from addr m = true); [|congruence].
    unfold wantsb. apply existsb_exists. exists r. split; auto. apply (the_pools_sub rules m p r Hp Hr).
Qed.

Lemma count_get_recipients own ev rules from addr m x :
  count_occ N.eq_dec (get_recipients own ev rules from addr m) x =
  if negb (match addr with Some a => a =? x | None => false end) && wantsb own ev rules x from addr m then 1%nat else 0%nat.
Proof.
  rewrite get_recipients_passes, count_passes, wantsb_pools. destruct addr as [a|]; simpl.
  - rewrite orb_false_r. rewrite (N.eqb_sym x a). reflexivity.
  - reflexivity.
Qed.

Lemma get_recipients_owner own ev rules from addr m x :
  In x (get_recipients own ev rules from addr m) -> exists f, In (x, f) rules /\ fmatch own ev f from addr m = true.
Proof.
  rewrite get_recipients_passes. intros H. apply passes_owner in H. destruct H as (p & f & Hp & Hin & Hm).
  exists f. split; auto. apply (the_pools_sub rules m p (x, f) Hp Hin).
Qed.

Lemma get_recipients_noeaves_dest own rules from addr m d :
  b_dest m = Some d -> get_recipients own false rules from addr m = [].
Proof.
  intros H. destruct (get_recipients own false rules from addr m) as [|x l] eqn:E; auto.
  assert (Hin : In x (get_recipients own false rules from addr m)) by (rewrite E; left; reflexivity).
  apply get_recipients_owner in Hin. destruct Hin as (f & _ & Hm). rewrite (fmatch_noeaves_dest _ _ _ _ _ _ H) in Hm. discriminate.
Qed.

(* ---------------------------------------------------------------- counting *)
Lemma count_occ_zero_not_In (l : list N) x : count_occ N.eq_dec l x = 0%nat <-> ~ In x l.
Proof. symmetry. apply count_occ_not_In. Qed.
