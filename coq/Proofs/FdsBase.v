(* C15 proofs, part 1: list helpers, connection-table lemmas, ledger algebra and the
   facts about the loader that are local to one connection. *)
From Coq Require Import Permutation.
From DV Require Import Lib.Base Gen.Tables Fds.Fds.
Require Import ZifyBool ZifyN ZifyNat.
Local Open Scope N_scope.

Ltac splits := repeat match goal with |- _ /\ _ => split end.

(* ---------------------------------------------------------------- lists *)
Lemma nlen_app {A} (a b : list A) : nlen (a ++ b) = nlen a + nlen b.
Proof. unfold nlen. rewrite app_length. lia. Qed.

Lemma nlen_nil {A} (a : list A) : nlen a = 0 -> a = [].
Proof. destruct a; auto. unfold nlen; simpl; lia. Qed.

Lemma concat_snoc {A} (l : list (list A)) (x : list A) : concat (l ++ [x]) = concat l ++ x.
Proof. rewrite concat_app. simpl. rewrite app_nil_r. reflexivity. Qed.

Lemma filter_split_perm {A} (f : A -> bool) (l : list A) :
  Permutation l (filter f l ++ filter (fun x => negb (f x)) l).
Proof.
  induction l as [|x l IH]; simpl; auto.
  destruct (f x); simpl.
  - constructor. exact IH.
  - apply Permutation_cons_app. exact IH.
Qed.

Lemma concat_perm {A} (l l' : list (list A)) : Permutation l l' -> Permutation (concat l) (concat l').
Proof.
  induction 1; simpl; auto.
  - apply Permutation_app_head. assumption.
  - rewrite !app_assoc. apply Permutation_app_tail. apply Permutation_app_comm.
  - eapply Permutation_trans; eassumption.
Qed.

Lemma perm4 {A} (a b c d : list A) : Permutation ((a ++ b) ++ c ++ d) (b ++ (c ++ a) ++ d).
Proof.
  rewrite <- (app_assoc a b). eapply Permutation_trans; [apply Permutation_app_comm|].
  rewrite <- !app_assoc. apply Permutation_app_head. apply Permutation_app_head. apply Permutation_app_comm.
Qed.

(* ---------------------------------------------------------------- connection table *)
Lemma find_conn_split cs c x :
  find_conn cs c = Some x ->
  exists l1 l2, cs = l1 ++ x :: l2 /\ c_id x = c /\ (forall y, In y l1 -> c_id y <> c).
Proof.
  induction cs as [|y cs IH]; simpl; [discriminate|].
  destruct (c_id y =? c) eqn:E.
  - intros H; inversion H; subst. exists [], cs. split; [reflexivity|]. split; [apply N.eqb_eq; exact E|]. intros ? [].
  - intros H. destruct (IH H) as (l1 & l2 & -> & Hid & Hn).
    exists (y :: l1), l2. repeat split; auto.
    intros z [<-|Hz]; [apply N.eqb_neq; auto | auto].
Qed.

Lemma find_conn_in cs c x : find_conn cs c = Some x -> In x cs /\ c_id x = c.
Proof.
  intros H. destruct (find_conn_split _ _ _ H) as (l1 & l2 & -> & Hid & _).
  split; auto. apply in_or_app. right. left. reflexivity.
Qed.

Lemma upd_conn_split l1 l2 x x' :
  c_id x' = c_id x -> (forall y, In y l1 -> c_id y <> c_id x) ->
  upd_conn (l1 ++ x :: l2) x' = l1 ++ x' :: l2.
Proof.
  intros Hid Hn. induction l1 as [|y l1 IH]; simpl.
  - rewrite Hid, N.eqb_refl. reflexivity.
  - assert (c_id y =? c_id x' = false) as ->. { apply N.eqb_neq. rewrite Hid. apply Hn. left; auto. }
    rewrite IH; auto. intros z Hz. apply Hn. right; auto.
Qed.

Lemma del_conn_split l1 l2 x :
  (forall y, In y l1 -> c_id y <> c_id x) ->
  del_conn (l1 ++ x :: l2) (c_id x) = l1 ++ l2.
Proof.
  intros Hn. induction l1 as [|y l1 IH]; simpl.
  - rewrite N.eqb_refl. reflexivity.
  - assert (c_id y =? c_id x = false) as ->. { apply N.eqb_neq. apply Hn. left; auto. }
    rewrite IH; auto. intros z Hz. apply Hn. right; auto.
Qed.

(* ---------------------------------------------------------------- ledger algebra *)
Definition recv_of (l : ledger) : list fd := map snd (g_recv l).
Definition closed_of (l : ledger) : list fd := map fst (g_closed l).

(* every descriptor the process received is closed or in H (the descriptors currently owned by
   loaders and queued messages) *)
Definition bal (l : ledger) (H : list fd) : Prop := Permutation (recv_of l) (closed_of l ++ H).

Lemma recv_of_recv l c F : recv_of (led_recv l c F) = recv_of l ++ F.
Proof. unfold recv_of, led_recv; simpl. rewrite map_app, map_map. simpl. rewrite map_id. reflexivity. Qed.
Lemma closed_of_close l F w : closed_of (led_close l F w) = closed_of l ++ F.
Proof. unfold closed_of, led_close; simpl. rewrite map_app, map_map. simpl. rewrite map_id. reflexivity. Qed.

Lemma bal_perm l H H' : bal l H -> Permutation H H' -> bal l H'.
Proof. unfold bal. intros B P. rewrite B. apply Permutation_app_head. exact P. Qed.

Lemma bal_recv l c F H : bal l H -> bal (led_recv l c F) (H ++ F).
Proof.
  unfold bal. rewrite recv_of_recv. intros B. rewrite B.
  unfold closed_of, led_recv; simpl. rewrite app_assoc. reflexivity.
Qed.

Lemma bal_close l F w H : bal l (F ++ H) -> bal (led_close l F w) H.
Proof.
  unfold bal. rewrite closed_of_close. intros B.
  replace (recv_of (led_close l F w)) with (recv_of l) by reflexivity.
  rewrite B. rewrite app_assoc. reflexivity.
Qed.

Lemma bal_kdrop l F H : bal l H -> bal (led_kdrop l F) H.
Proof. unfold bal, recv_of, closed_of, led_kdrop; simpl; auto. Qed.

Lemma bal_deliv l r s d F H : bal l H -> bal (led_deliv l r s d F) H.
Proof. unfold bal, recv_of, closed_of, led_deliv; simpl; auto. Qed.

Lemma deliver_all_fields led rc s d F :
  g_recv (deliver_all led rc s d F) = g_recv led /\
  g_closed (deliver_all led rc s d F) = g_closed led /\
  g_kdrop (deliver_all led rc s d F) = g_kdrop led /\
  g_deliv (deliver_all led rc s d F) = g_deliv led ++ map (fun x => (c_id x, (s, (d, F)))) rc.
Proof.
  unfold deliver_all. revert led. induction rc as [|x rc IH]; intros led; simpl.
  - rewrite app_nil_r. auto.
  - destruct (IH (led_deliv led (c_id x) s d F)) as (A & B & C & D).
    rewrite A, B, C, D. simpl. rewrite <- app_assoc. simpl. auto.
Qed.

Lemma bal_deliver_all l rc s d F H : bal l H -> bal (deliver_all l rc s d F) H.
Proof.
  destruct (deliver_all_fields l rc s d F) as (A & B & _).
  unfold bal, recv_of, closed_of. rewrite A, B. auto.
Qed.

(* ---------------------------------------------------------------- one connection: shape *)
(* the fields of a connection record that the loader never touches *)
Definition same_conn (c c' : conn) : Prop :=
  c_id c' = c_id c /\ c_neg c' = c_neg c /\ c_listen c' = c_listen c.

Lemma same_conn_refl c : same_conn c c.
Proof. unfold same_conn; auto. Qed.
Lemma same_conn_trans a b c : same_conn a b -> same_conn b c -> same_conn a c.
Proof. unfold same_conn; intros (A1 & A2 & A3) (B1 & B2 & B3). repeat split; congruence. Qed.

(* the per-connection bookkeeping equations:
   accepted = descriptors given to loaded messages, in order, followed by what is pending;
   every loaded message got exactly the announced number *)
Definition conn_ok (c : conn) : Prop :=
  c_acc c = concat (map snd (c_loaded c)) ++ c_pend c /\
  (forall d F, In (d, F) (c_loaded c) -> nlen F = w_nfds d).

(* the timer is armed exactly while descriptors are pending, since a moment not in the future
   and less than the timeout ago *)
Definition timer_ok (cf : cfg) (now : N) (c : conn) : Prop :=
  match c_pend c, c_since c with
  | [], None => True
  | _ :: _, Some t => t <= now /\ now < t + fd_timeout cf
  | _, _ => False
  end.

Definition bounded (cf : cfg) (c : conn) : Prop := nlen (c_pend c) <= max_fds cf.

(* c_loaded only grows *)
Definition loaded_ext (c c' : conn) (L : list (wmsg * list fd)) : Prop := c_loaded c' = c_loaded c ++ L.

(* ---------------------------------------------------------------- parse / feed *)
Lemma firstn_nlen {A} (l : list A) (n : N) : n <= nlen l -> nlen (firstn (N.to_nat n) l) = n.
Proof. unfold nlen. intros H. rewrite firstn_length. lia. Qed.

Lemma parse_spec cf now c d h :
  conn_ok c -> timer_ok cf now c -> bounded cf c ->
  match parse c d h with
  | FMore c' | FCorrupt c' =>
      same_conn c c' /\ c_pend c' = c_pend c /\ conn_ok c' /\ timer_ok cf now c' /\ bounded cf c' /\ loaded_ext c c' []
  | FLoaded c' d' F =>
      d' = d /\ same_conn c c' /\ c_pend c = F ++ c_pend c' /\ conn_ok c' /\ timer_ok cf now c' /\ bounded cf c' /\
      loaded_ext c c' [(d, F)] /\ nlen F = w_nfds d
  | FFault => True
  end.
Proof.
  intros (Hacc & Hcnt) Ht Hb. unfold parse.
  assert (Hsame : forall cur, let c' := set_loader c cur (c_pend c) (c_since c) in
            same_conn c c' /\ c_pend c' = c_pend c /\ conn_ok c' /\ timer_ok cf now c' /\ bounded cf c' /\ loaded_ext c c' []).
  { intros cur. simpl. unfold same_conn, conn_ok, timer_ok, bounded, loaded_ext; simpl.
    rewrite app_nil_r. repeat split; auto. }
  destruct (h <? DBUS_MINIMUM_HEADER_SIZE); [apply Hsame|].
  destruct (negb (w_fixed_ok d)); [apply Hsame|].
  destruct (h <? w_len d); [apply Hsame|].
  destruct (negb (w_valid d)); [apply Hsame|].
  destruct (nlen (c_pend c) <? w_nfds d) eqn:E; [apply Hsame|].
  apply N.ltb_ge in E.
  set (n := N.to_nat (w_nfds d)).
  assert (Hsplit : c_pend c = firstn n (c_pend c) ++ skipn n (c_pend c)) by (symmetry; apply firstn_skipn).
  assert (HlenF : nlen (firstn n (c_pend c)) = w_nfds d) by (apply firstn_nlen; exact E).
  split; [reflexivity|]. split; [unfold same_conn; simpl; auto|].
  split; [exact Hsplit|].
  split.
  { unfold conn_ok; simpl. split.
    - rewrite map_app, concat_app. simpl. rewrite app_nil_r, <- app_assoc, <- Hsplit. exact Hacc.
    - intros d0 F0 Hin. apply in_app_or in Hin. destruct Hin as [Hin|[Heq|[]]]; [eauto|].
      inversion Heq; subst. exact HlenF. }
  split.
  { unfold timer_ok in *; simpl.
    destruct (0 <? w_nfds d) eqn:E0.
    - destruct (skipn n (c_pend c)) eqn:Es; [exact I|].
      destruct (c_pend c) eqn:Ep.
      + rewrite skipn_nil in Es. discriminate.
      + destruct (c_since c); auto.
    - apply N.ltb_ge in E0. assert (n = 0%nat) as -> by (unfold n; lia). simpl. exact Ht. }
  split.
  { unfold bounded in *; simpl. unfold nlen in *. rewrite skipn_length. lia. }
  split; [unfold loaded_ext; simpl; reflexivity | exact HlenF].
Qed.

Lemma feed_spec cf now c p :
  conn_ok c -> timer_ok cf now c -> bounded cf c ->
  match feed c p with
  | FMore c' | FCorrupt c' =>
      same_conn c c' /\ c_pend c' = c_pend c /\ conn_ok c' /\ timer_ok cf now c' /\ bounded cf c' /\ loaded_ext c c' []
  | FLoaded c' d F =>
      same_conn c c' /\ c_pend c = F ++ c_pend c' /\ conn_ok c' /\ timer_ok cf now c' /\ bounded cf c' /\
      loaded_ext c c' [(d, F)] /\ nlen F = w_nfds d
  | FFault => True
  end.
Proof.
  intros H1 H2 H3. unfold feed.
  destruct p as [d n|n]; destruct (c_cur c) as [[d0 h]|]; auto.
  - destruct ((n =? 0) || (w_len d <? n)); auto.
    pose proof (parse_spec cf now c d n H1 H2 H3) as P.
    destruct (parse c d n); auto. destruct P as (-> & P). exact P.
  - destruct ((n =? 0) || (w_len d0 <? h + n)); auto.
    pose proof (parse_spec cf now c d0 (h + n) H1 H2 H3) as P.
    destruct (parse c d0 (h + n)); auto. destruct P as (-> & P). exact P.
Qed.

Lemma feed_parts_spec cf now ps : forall c,
  conn_ok c -> timer_ok cf now c -> bounded cf c ->
  let '(c', ld, s) := feed_parts c ps in
  same_conn c c' /\ c_pend c = concat (map snd ld) ++ c_pend c' /\ conn_ok c' /\ timer_ok cf now c' /\ bounded cf c' /\
  loaded_ext c c' ld /\ (forall d F, In (d, F) ld -> nlen F = w_nfds d).
Proof.
  induction ps as [|p ps IH]; intros c H1 H2 H3; simpl.
  - unfold loaded_ext. rewrite app_nil_r. splits; auto using same_conn_refl. intros ? ? [].
  - pose proof (feed_spec cf now c p H1 H2 H3) as P.
    destruct (feed c p) as [c1|c1 d F|c1|].
    + destruct P as (S1 & Pp & O1 & T1 & B1 & L1).
      specialize (IH c1 O1 T1 B1). destruct (feed_parts c1 ps) as [[c2 ld] s].
      destruct IH as (S2 & Pp2 & O2 & T2 & B2 & L2 & C2).
      splits; auto.
      * eapply same_conn_trans; eauto.
      * congruence.
      * unfold loaded_ext in *. rewrite L2, L1, app_nil_r. reflexivity.
    + destruct P as (S1 & Pp & O1 & T1 & B1 & L1 & C1).
      specialize (IH c1 O1 T1 B1). destruct (feed_parts c1 ps) as [[c2 ld] s].
      destruct IH as (S2 & Pp2 & O2 & T2 & B2 & L2 & C2).
      splits; auto.
      * eapply same_conn_trans; eauto.
      * simpl. rewrite Pp, Pp2, app_assoc. reflexivity.
      * unfold loaded_ext in *. rewrite L2, L1, <- app_assoc. reflexivity.
      * intros d0 F0 [Heq|Hin]; [inversion Heq; subst; auto | eauto].
    + destruct P as (S1 & Pp & O1 & T1 & B1 & L1).
      simpl. splits; auto. intros ? ? [].
    + unfold loaded_ext. rewrite app_nil_r. simpl. splits; auto using same_conn_refl. intros ? ? [].
Qed.
