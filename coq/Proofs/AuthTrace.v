(* Consequences of the outcome shapes: rejections are counted and bounded, the
   Authenticated state is entered only by a BEGIN line in WaitingForBegin, a
   granted identity comes from exactly one successful mechanism step, and the
   conditions under which each mechanism succeeds. *)
From DV Require Import Lib.Base Auth.Types Gen.AuthTables Auth.Sha1 Wire.Utf8 Auth.Server Proofs.AuthInv Proofs.AuthBasics Proofs.AuthShape.
Require Import ZifyBool ZifyN ZifyNat.
Local Open Scope N_scope.

Fixpoint count_rej (rs : list resp) : N :=
  match rs with [] => 0 | R_Rejected :: r => 1 + count_rej r | _ :: r => count_rej r end.

Lemma count_rej_app a b : count_rej (a ++ b) = count_rej a + count_rej b.
Proof. induction a as [|x a IH]; [reflexivity|]. destruct x; cbn [app count_rej]; lia. Qed.

Lemma send_rejected_failures b : a_failures (fst (send_rejected b)) = a_failures b + 1.
Proof. unfold send_rejected. fs. destruct (shutdown_mech_fields b) as (_ & _ & _ & _ & _ & _ & H & _). rewrite H. reflexivity. Qed.

Lemma send_rejected_state b :
  a_state (fst (send_rejected b)) = WaitingForAuth \/ a_state (fst (send_rejected b)) = NeedDisconnect.
Proof. unfold send_rejected. fs. destruct (max_failures <=? _); auto. Qed.

Lemma send_rejected_authorized b : a_authorized (fst (send_rejected b)) = creds_empty.
Proof. unfold send_rejected. fs. destruct (shutdown_mech_fields b) as (H & _). exact H. Qed.

(* ---------- every REJECTED is counted ---------- *)
Lemma outcome_failures a r : outcome a r -> a_failures (fst r) = a_failures a + count_rej (snd r).
Proof.
  intros []; try (cbn [snd count_rej]; fs; lia).
  - rewrite send_rejected_failures. destruct H as [H _]. cbn [snd send_rejected count_rej]. lia.
  - destruct H as [H _]. fs. cbn [count_rej]. lia.
  - destruct H as [H _]. fs. cbn [count_rej]. lia.
  - destruct H as [H _]. fs. cbn [count_rej]. lia.
  - destruct H as [H _]. fs. cbn [count_rej]. lia.
Qed.

Theorem reach_rejections e inp ls rs a : reach e inp ls rs a ->
  a_failures (a_core a) = count_rej rs /\ count_rej rs <= max_failures /\
  (count_rej rs = max_failures -> in_end_state (a_core a) = true).
Proof.
  intros R. assert (H : a_failures (a_core a) = count_rej rs).
  { induction R; cbn [a_core]; auto.
    - destruct (process_command_shape e a eol) as (Hco & _ & _). cbv zeta in Hco. rewrite Hco.
      rewrite (outcome_failures _ _ (outcome_process_line e (a_core a) _)), count_rej_app, IHR. reflexivity. }
  pose proof (reach_Inv _ _ _ _ _ R) as [].
  rewrite <- H. split; [reflexivity|]. split; [assumption|]. intros X. apply I_fail. lia.
Qed.

(* ---------- which outcome enters which state ---------- *)
Lemma outcome_authenticated a r : outcome a r -> in_end_state a = false -> a_state (fst r) = Authenticated ->
  a_state a = WaitingForBegin /\ r = (set_state a Authenticated, []).
Proof.
  intros O Hend Hs. destruct O; fs.
  - destruct (send_rejected_state b) as [X|X]; congruence.
  - discriminate.
  - unfold in_end_state in Hend. rewrite <- H0, Hs in Hend. discriminate.
  - congruence.
  - discriminate.
  - discriminate.
  - auto.
  - discriminate.
  - unfold in_end_state in Hend. rewrite Hs in Hend. discriminate.
Qed.

Lemma outcome_enter_begin a r : outcome a r -> a_state a <> WaitingForBegin -> a_state (fst r) = WaitingForBegin ->
  exists b, r = send_ok b.
Proof.
  intros O Hn Hs. destruct O; fs; try congruence; try discriminate.
  - destruct (send_rejected_state b) as [X|X]; congruence.
  - eauto.
Qed.

Lemma outcome_stay_begin a r : outcome a r -> a_state a = WaitingForBegin -> a_state (fst r) = WaitingForBegin ->
  a_authorized (fst r) = a_authorized a \/ exists b, r = send_ok b.
Proof.
  intros O Ha Hs. destruct O; fs; auto; try congruence; try discriminate.
  - destruct (send_rejected_state b) as [X|X]; congruence.
  - right; eauto.
Qed.

(* ---------- the command word ---------- *)
Definition command_word (line : bytes) : bytes := firstn (N.to_nat (snd (find_blank line))) line.
Definition str_BEGIN : bytes := [66; 69; 71; 73; 78].

Lemma assoc_in {A} w (l : list (bytes * A)) v : assoc_bytes w l = Some v -> In (w, v) l.
Proof. apply find_assoc. Qed.

Lemma lookup_begin w : lookup_command w = CBegin -> w = str_BEGIN.
Proof.
  unfold lookup_command. destruct (assoc_bytes w auth_command_names) as [c|] eqn:E; [|discriminate].
  intros H. subst c. apply assoc_in in E. unfold auth_command_names in E. cbn [In] in E.
  repeat (destruct E as [E|E]; [inversion E; try reflexivity|]). contradiction.
Qed.

Lemma disp_begin_authd c : disp_waiting_for_begin c = A_GotoAuthenticated -> c = CBegin.
Proof. destruct c; cbn; intros H; try discriminate; reflexivity. Qed.

Transparent find_blank skip_blank.
Lemma process_line_authenticated e a line :
  in_end_state a = false -> a_state (fst (process_line e a line)) = Authenticated ->
  a_state a = WaitingForBegin /\ process_line e a line = (set_state a Authenticated, []) /\ command_word line = str_BEGIN.
Proof.
  intros Hend Hs.
  destruct (outcome_authenticated _ _ (outcome_process_line e a line) Hend Hs) as [Ha Hr].
  split; [exact Ha|]. split; [exact Hr|].
  unfold process_line in Hr. destruct (negb (validate_ascii line)); [discriminate|].
  unfold command_word. destruct (find_blank line) as [fb i]. cbn [snd].
  destruct (skip_blank (e_asserts e) line i) as [j|]; [|inversion Hr; destruct (a_state a); discriminate].
  unfold handle in Hr. rewrite Ha in Hr.
  apply lookup_begin, disp_begin_authd.
  destruct (disp_waiting_for_begin (lookup_command (firstn (N.to_nat i) line))) eqn:Ed; cbn [run_action] in Hr; try reflexivity.
  - pose proof (mo_handle_auth e a (skipn (N.to_nat j) line)) as M. rewrite Hr in M. inversion M.
  - discriminate.
  - unfold send_rejected in Hr. discriminate.
  - destruct (a_mech a); [|inversion Hr; destruct (a_state a); discriminate].
    pose proof (mo_process_data e a (skipn (N.to_nat j) line) m) as M. rewrite Hr in M. inversion M.
  - inversion Hr.
  - destruct (e_fd_possible e); discriminate.
Qed.

(* ---------- when does a mechanism say OK ---------- *)
Opaque find_blank skip_blank.

Lemma external_ok_only_if e a d :
  a_identity a = [] -> a_state a <> WaitingForBegin -> a_state (fst (external_mech e a d)) = WaitingForBegin ->
  exists u, c_uid (e_sock e) = Some u /\
            (d = [] \/ exists v, parse_ulong d = Some v /\ uid_of_ulong v = Some u).
Proof.
  intros Hi Hn. unfold external_mech.
  destruct (are_anonymous (e_sock e)) eqn:Ea; intros H.
  { destruct (send_rejected_state a) as [X|X]; congruence. }
  assert (Hu : exists u, c_uid (e_sock e) = Some u).
  { Transparent are_anonymous. unfold are_anonymous in Ea. destruct (c_uid (e_sock e)); [eauto|discriminate]. }
  Opaque are_anonymous.
  destruct Hu as [u Hu]. exists u. split; [exact Hu|].
  rewrite Hi in *. cbn [is_empty negb andb] in *. rewrite andb_false_r in H.
  destruct d as [|d0 dr]; [left; reflexivity|right].
  cbn [is_empty negb] in H. fs. cbn [is_empty andb] in H.
  destruct (parse_ulong (d0 :: dr)) as [v|] eqn:Ep.
  2:{ match type of H with a_state (fst (send_rejected ?b)) = _ => destruct (send_rejected_state b) as [X|X]; congruence end. }
  exists v. split; [reflexivity|].
  unfold set_uid in H. fs.
  match type of H with context [are_anonymous ?dd] => destruct (are_anonymous dd) eqn:E1 end.
  { match type of H with a_state (fst (send_rejected ?b)) = _ => destruct (send_rejected_state b) as [X|X]; congruence end. }
  match type of H with context [are_superset ?s ?dd] => destruct (are_superset s dd) eqn:E2 end.
  2:{ match type of H with a_state (fst (send_rejected ?b)) = _ => destruct (send_rejected_state b) as [X|X]; congruence end. }
  Transparent are_superset are_anonymous.
  unfold are_anonymous in E1. unfold are_superset in E2. cbn [c_uid c_pid c_gids is_none orb andb] in *.
  destruct (uid_of_ulong v) as [w|]; [|discriminate]. cbn [is_none orb] in E2. rewrite andb_true_r in E2.
  rewrite Hu in E2. cbn [opt_N_eqb] in E2. apply N.eqb_eq in E2. congruence.
Qed.

Opaque are_anonymous are_superset.

Ltac rej_contra H :=
  match type of H with a_state (fst (send_rejected ?b)) = _ => destruct (send_rejected_state b) as [X|X]; congruence end.

Lemma cookie_ok_only_if e a id d :
  a_state (fst (sha1_second e a id d)) = WaitingForBegin ->
  exists i j, find_blank d = (true, i) /\ skip_blank (e_asserts e) d i = Some j /\
    firstn (N.to_nat i) d <> [] /\ e_cookie e (a_nchal a - 1) id <> [] /\
    skipn (N.to_nat j) d =
      hex_encode (sha1 (a_challenge a ++ colon ++ firstn (N.to_nat i) d ++ colon ++ e_cookie e (a_nchal a - 1) id)).
Proof.
  unfold sha1_second. destruct (find_blank d) as [found i]. intros H.
  destruct found; cbn [negb] in H; [|rej_contra H].
  destruct (skip_blank (e_asserts e) d i) as [j|] eqn:Ej; [|fs; discriminate].
  exists i, j. split; [reflexivity|]. split; [exact Ej|].
  destruct (is_empty (firstn (N.to_nat i) d)) eqn:E1; cbn [orb] in H; [rej_contra H|].
  destruct (is_empty (skipn (N.to_nat j) d)) eqn:E2; [rej_contra H|].
  Transparent sha1_compute_hash. unfold sha1_compute_hash in H.
  destruct (is_empty (e_cookie e (a_nchal a - 1) id)) eqn:E3; [cbn [is_empty] in H; rej_contra H|].
  match type of H with context [is_empty (hex_encode ?x)] => destruct (is_empty (hex_encode x)) eqn:E4 end; [rej_contra H|].
  match type of H with context [bytes_eqb ?x ?y] => destruct (bytes_eqb x y) eqn:E5 end; cbn [negb] in H; [|rej_contra H].
  apply bytes_eqb_eq in E5.
  split; [destruct (firstn (N.to_nat i) d); [discriminate|congruence]|].
  split; [destruct (e_cookie e (a_nchal a - 1) id); [discriminate|congruence]|]. exact E5.
Qed.
Opaque sha1_compute_hash.

Lemma sha1_first_never_ok e a d : a_state (fst (sha1_first e a d)) <> WaitingForBegin.
Proof.
  pose proof (mo_sha1_first e a d) as M. intros H.
  unfold sha1_first in *. cbv zeta in *.
  repeat match type of H with
         | context [if ?x then _ else _] => destruct x
         | context [match ?x with Some _ => _ | None => _ end] => destruct x
         end; try rej_contra H; fs; discriminate.
Qed.

Lemma anonymous_ok_only_if e a d :
  a_state a <> WaitingForBegin -> a_state (fst (anonymous_mech e a d)) = WaitingForBegin ->
  d = [] \/ validate_utf8 d = Some true.
Proof.
  intros Hn. unfold anonymous_mech. destruct d as [|d0 dr]; [auto|]. cbn [is_empty].
  destruct (validate_utf8 (d0 :: dr)) as [[|]|]; intros H; [auto | rej_contra H | fs; discriminate].
Qed.

(* ---------- line-level runs ---------- *)
Definition lstep (e : env) (c : core) (l : bytes) : core :=
  if in_end_state c then c else fst (process_line e c l).
Definition lrun (e : env) (c : core) (ls : list bytes) : core := fold_left (lstep e) ls c.

Lemma lrun_snoc e c ls l : lrun e c (ls ++ [l]) = lstep e (lrun e c ls) l.
Proof. unfold lrun. rewrite fold_left_app. reflexivity. Qed.

Lemma reach_lrun e inp ls rs a : reach e inp ls rs a ->
  a_core a = lrun e core_init ls \/ a_state (a_core a) = NeedDisconnect.
Proof.
  induction 1; cbn [a_core]; auto.
  - destruct IHreach as [IH|IH]; [|unfold in_end_state in H0; rewrite IH in H0; discriminate].
    left. destruct (process_command_shape e a eol) as (Hco & _ & _). cbv zeta in Hco. rewrite Hco, lrun_snoc, <- IH.
    unfold lstep. rewrite H0. reflexivity.
Qed.

Lemma process_line_from_begin e a line :
  a_state a = WaitingForBegin -> a_state (fst (process_line e a line)) = WaitingForBegin ->
  a_authorized (fst (process_line e a line)) = a_authorized a.
Proof.
  intros Ha. unfold process_line. destruct (negb (validate_ascii line)); [reflexivity|].
  destruct (find_blank line) as [fb i]. destruct (skip_blank (e_asserts e) line i) as [j|]; [|reflexivity].
  unfold handle. rewrite Ha.
  pose proof (disp_begin_ok (lookup_command (firstn (N.to_nat i) line))) as Hok.
  destruct (disp_waiting_for_begin (lookup_command (firstn (N.to_nat i) line))); cbn [action_ok] in Hok; try discriminate;
    cbn [run_action]; intros H; try reflexivity.
  - rej_contra H.
  - destruct (e_fd_possible e); reflexivity.
Qed.

Definition ok_step (e : env) (c : core) (l : bytes) : Prop :=
  in_end_state c = false /\ a_state c <> WaitingForBegin /\ a_state (fst (process_line e c l)) = WaitingForBegin.

(* a granted identity stems from exactly one mechanism success, and Authenticated additionally needs a BEGIN line *)
Theorem lrun_granted e : forall ls,
  let c := lrun e core_init ls in
  (a_state c = WaitingForBegin \/ a_state c = Authenticated) ->
  exists pre okl post, ls = pre ++ okl :: post /\ ok_step e (lrun e core_init pre) okl /\
    a_authorized c = a_authorized (fst (process_line e (lrun e core_init pre) okl)) /\
    (a_state c = Authenticated ->
       exists mid bl post', post = mid ++ bl :: post' /\ command_word bl = str_BEGIN /\
                            a_state (lrun e core_init (pre ++ okl :: mid)) = WaitingForBegin).
Proof.
  induction ls as [|l ls IH] using rev_ind; cbv zeta.
  - cbn. intros [H|H]; discriminate.
  - rewrite lrun_snoc. set (c0 := lrun e core_init ls) in *. unfold lstep.
    destruct (in_end_state c0) eqn:Hend.
    + (* nothing is processed any more *)
      intros Hs. assert (Hs' : a_state c0 = Authenticated).
      { destruct Hs as [Hs|Hs]; [unfold in_end_state in Hend; rewrite Hs in Hend; discriminate|exact Hs]. }
      destruct (IH (or_intror Hs')) as (pre & okl & post & Hl & Hok & Hau & Hb).
      exists pre, okl, (post ++ [l]). split; [rewrite Hl, <- app_assoc; reflexivity|]. split; [exact Hok|]. split; [exact Hau|].
      intros _. destruct (Hb Hs') as (mid & bl & post' & Hp & Hw & Hm).
      exists mid, bl, (post' ++ [l]). split; [rewrite Hp, <- app_assoc; reflexivity|]. auto.
    + intros Hs. destruct (sstate_eqb (a_state c0) WaitingForBegin) eqn:E0.
      * assert (Ha : a_state c0 = WaitingForBegin) by (destruct (a_state c0); try discriminate; reflexivity).
        destruct (IH (or_introl Ha)) as (pre & okl & post & Hl & Hok & Hau & _).
        exists pre, okl, (post ++ [l]). split; [rewrite Hl, <- app_assoc; reflexivity|]. split; [exact Hok|].
        destruct Hs as [Hs|Hs].
        -- split; [rewrite process_line_from_begin by assumption; exact Hau|]. intros X; congruence.
        -- destruct (process_line_authenticated e c0 l Hend Hs) as (_ & Hr & Hw).
           split; [rewrite Hr; fs; exact Hau|]. intros _.
           exists post, l, []. split; [reflexivity|]. split; [exact Hw|]. rewrite <- Hl. exact Ha.
      * assert (Hn : a_state c0 <> WaitingForBegin) by (intros X; rewrite X in E0; discriminate).
        destruct Hs as [Hs|Hs].
        -- exists ls, l, []. split; [reflexivity|]. split; [repeat split; assumption|]. split; [reflexivity|]. intros X; congruence.
        -- destruct (process_line_authenticated e c0 l Hend Hs) as (X & _). congruence.
Qed.

(* ---------- what a successful mechanism step proves about the line ---------- *)
Definition mech_condition (e : env) (c : core) (m : mech) (d : bytes) : Prop :=
  match m with
  | EXTERNAL =>
      (* the requested identity is empty (= use the socket's) or reads as the socket's uid *)
      exists u, c_uid (e_sock e) = Some u /\ (d = [] \/ exists v, parse_ulong d = Some v /\ uid_of_ulong v = Some u)
  | COOKIE_SHA1 =>
      (* d = client-challenge blanks hash, hash = SHA-1 of "server-challenge:client-challenge:cookie" for the
         cookie the keyring holds under the id announced with the challenge *)
      exists id i j, a_cookie_id c = Some id /\
        (exists k raw, e_challenge e k = Some raw /\ e_best_key e k = Some id /\ a_challenge c = hex_encode raw) /\
        find_blank d = (true, i) /\ skip_blank (e_asserts e) d i = Some j /\
        firstn (N.to_nat i) d <> [] /\ e_cookie e (a_nchal c - 1) id <> [] /\
        skipn (N.to_nat j) d = hex_encode (sha1 (a_challenge c ++ colon ++ firstn (N.to_nat i) d ++ colon ++ e_cookie e (a_nchal c - 1) id))
  | ANONYMOUS => d = [] \/ validate_utf8 d = Some true
  end.

(* d is the complete hex decoding of a suffix of the line *)
Definition payload_of (l d : bytes) : Prop :=
  exists k, hex_decode (skipn k l) = (d, nlen (skipn k l)).

Lemma mech_data_ok_mech e m a d : a_state (fst (mech_data e m a d)) = WaitingForBegin ->
  a_mech (fst (mech_data e m a d)) = a_mech a.
Proof.
  destruct m; cbn [mech_data].
  - unfold external_mech. cbv zeta. intros H.
    repeat match type of H with
           | context [if ?x then _ else _] => destruct x
           | context [match ?x with Some _ => _ | None => _ end] => destruct x
           end; try rej_contra H; fs; try discriminate; try reflexivity.
  - unfold cookie_mech. destruct (a_cookie_id a).
    + unfold sha1_second. cbv zeta. intros H.
      repeat match type of H with
             | context [if ?x then _ else _] => destruct x
             | context [match ?x with Some _ => _ | None => _ end] => destruct x
             | context [let '(_, _) := ?x in _] => destruct x
             end; try rej_contra H; fs; try discriminate; try reflexivity.
    + intros H. exfalso. eapply sha1_first_never_ok; eauto.
  - unfold anonymous_mech. cbv zeta beta. intros H.
    repeat match type of H with
           | context [if ?x then _ else _] => destruct x
           | context [match ?x with Some _ => _ | None => _ end] => destruct x
           end; try rej_contra H; fs; try discriminate; try reflexivity.
Qed.

Lemma skipn_skipn {A} (n m : nat) (l : list A) : skipn n (skipn m l) = skipn (m + n) l.
Proof. revert l. induction m; intros l; [reflexivity|]. destruct l; [destruct n; reflexivity|]. cbn. apply IHm. Qed.

Theorem ok_step_conditions e c l : Inv e c -> ok_step e c l ->
  exists m d, permitted e m /\ a_mech (fst (process_line e c l)) = Some m /\ mech_condition e c m d /\ payload_of l d.
Proof.
  intros I (Hend & Hn & Hs). unfold process_line in *.
  destruct (negb (validate_ascii l)); [fs; congruence|].
  destruct (find_blank l) as [fb i]. destruct (skip_blank (e_asserts e) l i) as [j|]; [|fs; discriminate].
  unfold handle in *. destruct (a_state c) eqn:Hc; try (unfold in_end_state in Hend; rewrite Hc in Hend; discriminate); try congruence.
  - (* WaitingForAuth: only handle_auth can succeed *)
    pose proof (disp_auth_ok (lookup_command (firstn (N.to_nat i) l))) as Hok.
    destruct (disp_waiting_for_auth (lookup_command (firstn (N.to_nat i) l))); cbn [action_ok] in Hok; try discriminate;
      cbn [run_action] in *; try (fs; congruence); try rej_contra Hs.
    unfold handle_auth in *. destruct (is_empty (skipn (N.to_nat j) l)); [rej_contra Hs|].
    destruct (find_blank (skipn (N.to_nat j) l)) as [fb2 i2].
    destruct (skip_blank (e_asserts e) (skipn (N.to_nat j) l) i2) as [j2|]; [|fs; discriminate]. cbv zeta in *.
    destruct (find_mech e (firstn (N.to_nat i2) (skipn (N.to_nat j) l))) as [m|] eqn:Em; [|rej_contra Hs].
    unfold process_data in *.
    destruct (hex_decode (skipn (N.to_nat j2) (skipn (N.to_nat j) l))) as [dec endi] eqn:Eh.
    destruct (negb (endi =? nlen (skipn (N.to_nat j2) (skipn (N.to_nat j) l)))) eqn:Ee; [fs; congruence|].
    apply negb_false_iff, N.eqb_eq in Ee. subst endi.
    destruct I. destruct (I_idle Hc) as (Ha & Hd & Hi & Hq & Hck).
    exists m, dec. split; [eapply find_mech_permitted; eauto|].
    split; [rewrite mech_data_ok_mech by exact Hs; reflexivity|].
    split.
    + destruct m; cbn [mech_data mech_condition] in *.
      * apply external_ok_only_if in Hs; fs; auto. congruence.
      * unfold cookie_mech in Hs. fs. rewrite Hck in Hs. exfalso. eapply sha1_first_never_ok; eauto.
      * apply anonymous_ok_only_if in Hs; fs; auto. congruence.
    + exists (N.to_nat j + N.to_nat j2)%nat. rewrite <- skipn_skipn. exact Eh.
  - (* WaitingForData: only process_data can succeed *)
    pose proof (disp_data_ok (lookup_command (firstn (N.to_nat i) l))) as Hok.
    destruct (disp_waiting_for_data (lookup_command (firstn (N.to_nat i) l))); cbn [action_ok] in Hok; try discriminate;
      cbn [run_action] in *; try (fs; congruence); try rej_contra Hs.
    destruct (a_mech c) as [m|] eqn:Hm; [|fs; discriminate].
    unfold process_data in *.
    destruct (hex_decode (skipn (N.to_nat j) l)) as [dec endi] eqn:Eh.
    destruct (negb (endi =? nlen (skipn (N.to_nat j) l))) eqn:Ee; [fs; congruence|].
    apply negb_false_iff, N.eqb_eq in Ee. subst endi.
    pose proof I as I'. destruct I. exists m, dec. split; [auto|].
    split; [rewrite mech_data_ok_mech by exact Hs; exact Hm|].
    split; [|exists (N.to_nat j); exact Eh].
    destruct (I_data Hc) as (Ha & [(M & Hq & Hi & Hck & Hd)|(M & [id Hck] & Hd & (k & raw & Hch1 & Hch2 & Hch3))]).
    + assert (m = EXTERNAL) by congruence. subst m. cbn [mech_data mech_condition] in *.
      apply external_ok_only_if in Hs; auto. congruence.
    + assert (m = COOKIE_SHA1) by congruence. subst m. cbn [mech_data mech_condition] in *.
      unfold cookie_mech in Hs. rewrite Hck in Hs. apply cookie_ok_only_if in Hs.
      destruct Hs as (i0 & j0 & X). exists id, i0, j0. split; [exact Hck|]. split; [|exact X].
      exists k, raw. repeat split; auto. congruence.
Qed.
