(* Equations for the specification decoder [dec], one per type constructor,
   with the anonymous inner fixpoints named. *)
From DV Require Import Lib.Base Spec.Codec Proofs.CodecBasics Proofs.CodecWf.
From Coq Require Import ZArith ZifyBool ZifyN ZifyNat Arith.
Local Open Scope N_scope.

Fixpoint decs (le : bool) (d : nat) (ts : list ty) (depth pos : N) (data : bytes) : option (list val * N * bytes) :=
  match ts with
  | [] => Some ([], pos, data)
  | t :: r =>
      match dec le d t depth pos data with
      | Some (v, pos', data') =>
          match decs le d r depth pos' data' with
          | Some (vs, p2, d2) => Some (v :: vs, p2, d2)
          | None => None
          end
      | None => None
      end
  end.

Fixpoint dec_elems (le : bool) (d : nat) (et : ty) (depth : N) (n : nat) (pos : N) (reg : bytes) : option (list val) :=
  match n with
  | O => None
  | S n' =>
      match reg with
      | [] => Some []
      | _ => match dec le d et (depth + 1) pos reg with
             | Some (v, pos', reg') =>
                 match dec_elems le d et depth n' pos' reg' with
                 | Some vs => Some (v :: vs)
                 | None => None
                 end
             | None => None
             end
      end
  end.

Lemma decs_inner le d : forall ts depth pos data,
  (fix decs (ts : list ty) (depth pos : N) (data : bytes) : option (list val * N * bytes) :=
     match ts with
     | [] => Some ([], pos, data)
     | t :: r =>
         match dec le d t depth pos data with
         | Some (v, pos', data') =>
             match decs r depth pos' data' with
             | Some (vs, p2, d2) => Some (v :: vs, p2, d2)
             | None => None
             end
         | None => None
         end
     end) ts depth pos data = decs le d ts depth pos data.
Proof.
  induction ts as [|t r IH]; intros depth pos data; [reflexivity|].
  cbn [decs]. destruct (dec le d t depth pos data) as [[[v p'] d']|]; [|reflexivity]. rewrite IH. reflexivity.
Qed.

Lemma elems_inner le d et depth : forall n pos reg,
  (fix elems (n : nat) (pos : N) (reg : bytes) : option (list val) :=
     match n with
     | O => None
     | S n' =>
         match reg with
         | [] => Some []
         | _ => match dec le d et (depth + 1) pos reg with
                | Some (v, pos', reg') =>
                    match elems n' pos' reg' with
                    | Some vs => Some (v :: vs)
                    | None => None
                    end
                | None => None
                end
         end
     end) n pos reg = dec_elems le d et depth n pos reg.
Proof.
  induction n as [|n IH]; intros pos reg; [reflexivity|].
  cbn [dec_elems]. destruct reg as [|b reg]; [reflexivity|].
  destruct (dec le d et (depth + 1) pos (b :: reg)) as [[[v p'] r']|]; [|reflexivity]. rewrite IH. reflexivity.
Qed.

Lemma dec_struct le d ts depth pos data :
  dec le (S d) (TStruct ts) depth pos data =
  if max_value_depth <? depth then None else
  match skip_pad pos 8 data with
  | Some (p1, d1) => match decs le d ts (depth + 1) p1 d1 with
                     | Some (vs, p2, d2) => Some (VStruct vs, p2, d2)
                     | None => None
                     end
  | None => None
  end.
Proof.
  cbn [dec]. destruct (max_value_depth <? depth); [reflexivity|].
  destruct (skip_pad pos 8 data) as [[p1 d1]|]; [|reflexivity]. rewrite decs_inner. reflexivity.
Qed.

Lemma dec_dict le d k vt depth pos data :
  dec le (S d) (TDict k vt) depth pos data =
  if max_value_depth <? depth then None else
  match skip_pad pos 8 data with
  | Some (p1, d1) => match decs le d [TBasic k; vt] (depth + 1) p1 d1 with
                     | Some ([kv; vv], p2, d2) => Some (VDictE kv vv, p2, d2)
                     | _ => None
                     end
  | None => None
  end.
Proof.
  cbn [dec]. destruct (max_value_depth <? depth); [reflexivity|].
  destruct (skip_pad pos 8 data) as [[p1 d1]|]; [|reflexivity].
  change (match dec le d (TBasic k) (depth + 1) p1 d1 with
          | Some (v, pos', data') =>
              match match dec le d vt (depth + 1) pos' data' with
                    | Some (v0, pos'0, data'0) => Some ([v0], pos'0, data'0)
                    | None => None
                    end with
              | Some (vs, p2, d2) => Some (v :: vs, p2, d2)
              | None => None
              end
          | None => None
          end) with (decs le d [TBasic k; vt] (depth + 1) p1 d1) || idtac.
  cbn [decs].
  destruct (dec le d (TBasic k) (depth + 1) p1 d1) as [[[v p'] d']|]; [|reflexivity].
  destruct (dec le d vt (depth + 1) p' d') as [[[v2 p2] d2]|]; reflexivity.
Qed.

Lemma dec_array le d et depth pos data :
  dec le (S d) (TArray et) depth pos data =
  if max_value_depth <? depth then None else
  match skip_pad pos 4 data with
  | Some (p1, d1) =>
      match take 4 d1 with
      | Some (lb, d2) =>
          let len := num_of le lb in
          if max_array <? len then None else
          match skip_pad (p1 + 4) (spec_align et) d2 with
          | Some (p2, d3) =>
              match take len d3 with
              | Some (region, rest) =>
                  match dec_elems le d et depth (S (length region)) p2 region with
                  | Some vs => Some (VArr et vs, p2 + len, rest)
                  | None => None
                  end
              | None => None
              end
          | None => None
          end
      | None => None
      end
  | None => None
  end.
Proof.
  cbn [dec]. destruct (max_value_depth <? depth); [reflexivity|].
  destruct (skip_pad pos 4 data) as [[p1 d1]|]; [|reflexivity].
  destruct (take 4 d1) as [[lb d2]|]; [|reflexivity]. cbv zeta.
  destruct (max_array <? num_of le lb); [reflexivity|].
  destruct (skip_pad (p1 + 4) (spec_align et) d2) as [[p2 d3]|]; [|reflexivity].
  destruct (take (num_of le lb) d3) as [[region rest]|]; [|reflexivity].
  rewrite (elems_inner le d et depth (S (length region)) p2 region). reflexivity.
Qed.

Lemma dec_variant le d depth pos data :
  dec le (S d) TVariant depth pos data =
  if max_value_depth <? depth then None else
  match data with
  | len :: d1 =>
      match take len d1 with
      | Some (s, d2) =>
          match d2 with
          | 0 :: d3 =>
              if spec_single_signature s then
                match parse_sig s with
                | Some [ct] =>
                    match dec le d ct (depth + 1) (pos + 1 + len + 1) d3 with
                    | Some (v, p2, d5) => Some (VVar ct v, p2, d5)
                    | None => None
                    end
                | _ => None
                end
              else None
          | _ => None
          end
      | None => None
      end
  | [] => None
  end.
Proof. cbn [dec]. destruct (max_value_depth <? depth); reflexivity. Qed.

Lemma dec_fixed le d c sz depth pos data : fixed_size c = Some sz ->
  dec le (S d) (TBasic c) depth pos data =
  if max_value_depth <? depth then None else
  match skip_pad pos sz data with
  | Some (p1, d1) =>
      match take sz d1 with
      | Some (b, d2) =>
          let n := num_of le b in
          if (c =? 98) && negb ((n =? 0) || (n =? 1)) then None else Some (VNum c n, p1 + sz, d2)
      | None => None
      end
  | None => None
  end.
Proof. intros H. cbn [dec]. rewrite H. reflexivity. Qed.

Lemma dec_string le d c depth pos data : (c = 115 \/ c = 111) ->
  dec le (S d) (TBasic c) depth pos data =
  if max_value_depth <? depth then None else
  match skip_pad pos 4 data with
  | Some (p1, d1) =>
      match take 4 d1 with
      | Some (lb, d2) =>
          let len := num_of le lb in
          match take len d2 with
          | Some (s, d3) =>
              match d3 with
              | 0 :: d4 => if (if c =? 115 then spec_utf8 s else spec_path s) then Some (VStr c s, p1 + 4 + len + 1, d4) else None
              | _ => None
              end
          | None => None
          end
      | None => None
      end
  | None => None
  end.
Proof. intros [-> | ->]; reflexivity. Qed.

Lemma dec_signature le d depth pos data :
  dec le (S d) (TBasic 103) depth pos data =
  if max_value_depth <? depth then None else
  match data with
  | len :: d1 =>
      match take len d1 with
      | Some (s, d2) =>
          match d2 with
          | 0 :: d3 => if spec_signature s then Some (VStr 103 s, pos + 1 + len + 1, d3) else None
          | _ => None
          end
      | None => None
      end
  | [] => None
  end.
Proof. reflexivity. Qed.
