(* Framing theorems about the loader model (Wire/Message.v):
   - have_message looks only at the first 16 bytes;
   - conservation: the queued messages followed by the unconsumed buffer are
     exactly the bytes that were fed;
   - nothing is produced after corruption;
   - chunking independence, GIVEN locality of load_message (the verdict on a
     complete message does not depend on the bytes that follow it). *)
From DV Require Import Lib.Base Wire.Message.
From Coq Require Import ZArith ZifyBool ZifyN ZifyNat Arith.
Local Open Scope N_scope.
Ltac Zify.zify_post_hook ::= Z.div_mod_to_equations.

Definition outcome (l : loader) : bool * list message := (l_corrupted l, l_msgs l).
Definition append (l : loader) (c : bytes) : loader :=
  mkLoader (l_buf l ++ c) (l_corrupted l) (l_reason l) (l_msgs l) (l_fds l) (l_max l).
Definition norm (l : loader) : loader := queue_messages (S (length (l_buf l))) l.

Lemma feed_norm l c : feed l c 0 = norm (append l c).
Proof. unfold feed, norm, append. cbn [l_buf]. rewrite N.add_0_r. reflexivity. Qed.

Lemma append_nil l : append l [] = l.
Proof. destruct l. unfold append. cbn. rewrite app_nil_r. reflexivity. Qed.

Lemma append_append l a b : append (append l a) b = append l (a ++ b).
Proof. unfold append. cbn. rewrite app_assoc. reflexivity. Qed.

Lemma align_up_ge p : p <= align_up p 8.
Proof. unfold align_up. cbn [N.eqb Pos.eqb]. lia. Qed.

(* ---- have_message ------------------------------------------------------- *)
Lemma have_ok_inv max d le fl hl bl c :
  have_message max d = HaveOk le fl hl bl c ->
  hl = align_up (16 + fl) 8 /\ c = (bl + hl <=? nlen d).
Proof.
  unfold have_message.
  destruct (negb _); [discriminate|].
  destruct (max <? _); [discriminate|].
  destruct (max <? _); [discriminate|].
  destruct (max <? _); [discriminate|].
  intros H. inversion H. subst. split; reflexivity.
Qed.

Lemma have_ok_hl max d le fl hl bl c : have_message max d = HaveOk le fl hl bl c -> 16 <= hl.
Proof. intros H. apply have_ok_inv in H. destruct H as [-> _]. pose proof (align_up_ge (16 + fl)). lia. Qed.

Lemma byte_at_app d c i : (i < length d)%nat -> byte_at (d ++ c) i = byte_at d i.
Proof. intros H. unfold byte_at. apply app_nth1. exact H. Qed.

Lemma u32_at_app le d c i : (i + 3 < length d)%nat -> u32_at le (d ++ c) i = u32_at le d i.
Proof. intros H. unfold u32_at. rewrite !byte_at_app by lia. reflexivity. Qed.

(* the framing decision depends on the first 16 bytes (and the total length) only *)
Lemma have_message_app max d c : (16 <= length d)%nat ->
  have_message max (d ++ c) =
  match have_message max d with
  | HaveInvalid r => HaveInvalid r
  | HaveOk le fl hl bl _ => HaveOk le fl hl bl (bl + hl <=? nlen (d ++ c))
  end.
Proof.
  intros H. unfold have_message.
  rewrite byte_at_app by lia.
  destruct (negb _); [reflexivity|].
  rewrite !u32_at_app by lia.
  destruct (max <? _); [reflexivity|].
  destruct (max <? _); [reflexivity|].
  destruct (max <? _); reflexivity.
Qed.

(* ---- one step of queue_messages ------------------------------------------ *)
Lemma qm_S f l :
  queue_messages (S f) l =
  if l_corrupted l then l
  else if nlen (l_buf l) <? DBUS_MINIMUM_HEADER_SIZE then l
  else match have_message (l_max l) (l_buf l) with
       | HaveInvalid r => mkLoader (l_buf l) true r (l_msgs l) (l_fds l) (l_max l)
       | HaveOk le fl hl bl false => l
       | HaveOk le fl hl bl true =>
           match load_message le fl hl bl (l_fds l) (l_buf l) with
           | inr r => mkLoader (l_buf l) true r (l_msgs l) (l_fds l) (l_max l)
           | inl m => queue_messages f (mkLoader (skipn (N.to_nat (hl + bl)) (l_buf l)) false V_VALID
                                                 (l_msgs l ++ [m]) (l_fds l - m_nfds m) (l_max l))
           end
       end.
Proof. reflexivity. Qed.

Lemma skipn_shorter {A} n (l : list A) : (0 < n)%nat -> (n <= length l)%nat -> (length (skipn n l) < length l)%nat.
Proof. intros H1 H2. rewrite skipn_length. lia. Qed.

Lemma nlen_nat {A} (l : list A) : N.to_nat (nlen l) = length l.
Proof. unfold nlen. lia. Qed.

(* fuel above the buffer length is always enough *)
Lemma qm_fuel : forall f1 f2 l, (length (l_buf l) < f1)%nat -> (length (l_buf l) < f2)%nat ->
  queue_messages f1 l = queue_messages f2 l.
Proof.
  induction f1 as [|f1 IH]; intros f2 l H1 H2; [lia|].
  destruct f2 as [|f2]; [lia|].
  rewrite !qm_S.
  destruct (l_corrupted l); [reflexivity|].
  destruct (nlen (l_buf l) <? DBUS_MINIMUM_HEADER_SIZE); [reflexivity|].
  destruct (have_message (l_max l) (l_buf l)) as [r|le fl hl bl c] eqn:Hh; [reflexivity|].
  destruct c; [|reflexivity].
  destruct (load_message le fl hl bl (l_fds l) (l_buf l)) as [m|r]; [|reflexivity].
  pose proof (have_ok_hl _ _ _ _ _ _ _ Hh) as Hhl.
  apply have_ok_inv in Hh. destruct Hh as [_ Hc]. symmetry in Hc.
  assert (Hlen : (length (skipn (N.to_nat (hl + bl)) (l_buf l)) < length (l_buf l))%nat).
  { apply skipn_shorter; unfold nlen in Hc; lia. }
  apply IH; cbn [l_buf]; lia.
Qed.

(* ---- locality of load_message (hypothesis of the chunking theorem) ------- *)
Definition load_local : Prop :=
  forall le fl hl bl fds d c, hl + bl <= nlen d ->
    match load_message le fl hl bl fds d, load_message le fl hl bl fds (d ++ c) with
    | inl m, inl m' => m = m'
    | inr _, inr _ => True
    | _, _ => False
    end.

Lemma nlen_app {A} (a b : list A) : nlen (a ++ b) = nlen a + nlen b.
Proof. unfold nlen. rewrite app_length. lia. Qed.

Lemma corrupted_norm l : l_corrupted l = true -> norm l = l.
Proof. intros H. unfold norm. rewrite qm_S, H. reflexivity. Qed.

Section Chunking.
  Hypothesis Hlocal : load_local.

  (* processing a buffer first and then appending more bytes gives the same
     outcome as appending first *)
  Lemma stab : forall f l c, (length (l_buf l) < f)%nat ->
    outcome (norm (append (queue_messages f l) c)) = outcome (norm (append l c)).
  Proof.
    induction f as [|f IH]; intros l c Hf; [lia|].
    rewrite qm_S.
    destruct (l_corrupted l) eqn:Hcor; [reflexivity|].
    destruct (nlen (l_buf l) <? DBUS_MINIMUM_HEADER_SIZE) eqn:Hshort; [reflexivity|].
    assert (H16 : (16 <= length (l_buf l))%nat).
    { unfold nlen in Hshort. change DBUS_MINIMUM_HEADER_SIZE with 16 in Hshort. lia. }
    assert (Hshort' : (nlen (l_buf l ++ c) <? DBUS_MINIMUM_HEADER_SIZE) = false).
    { rewrite nlen_app. unfold nlen in *. change DBUS_MINIMUM_HEADER_SIZE with 16 in *. lia. }
    destruct (have_message (l_max l) (l_buf l)) as [r|le fl hl bl cpl] eqn:Hh.
    - (* invalid fixed header *)
      rewrite corrupted_norm by reflexivity.
      unfold norm at 1. rewrite qm_S. cbn [append l_corrupted l_buf l_max l_msgs l_fds].
      rewrite Hcor, Hshort', have_message_app by exact H16. rewrite Hh. reflexivity.
    - destruct cpl; [|reflexivity].
      pose proof (have_ok_hl _ _ _ _ _ _ _ Hh) as Hhl.
      pose proof (have_ok_inv _ _ _ _ _ _ _ Hh) as [_ Hc]. symmetry in Hc.
      assert (Hfit : hl + bl <= nlen (l_buf l)) by lia.
      assert (Hc' : (bl + hl <=? nlen (l_buf l ++ c)) = true) by (rewrite nlen_app; lia).
      pose proof (Hlocal le fl hl bl (l_fds l) (l_buf l) c Hfit) as Hloc.
      destruct (load_message le fl hl bl (l_fds l) (l_buf l)) as [m|r] eqn:Hl1.
      + (* a message is produced *)
        destruct (load_message le fl hl bl (l_fds l) (l_buf l ++ c)) as [m'|r'] eqn:Hl2; [|contradiction]. subst m'.
        set (l' := mkLoader (skipn (N.to_nat (hl + bl)) (l_buf l)) false V_VALID (l_msgs l ++ [m]) (l_fds l - m_nfds m) (l_max l)).
        assert (Hlen : (length (l_buf l') < f)%nat).
        { cbn [l' l_buf]. assert ((length (skipn (N.to_nat (hl + bl)) (l_buf l)) < length (l_buf l))%nat); [apply skipn_shorter; unfold nlen in Hfit; lia | lia]. }
        rewrite (IH l' c Hlen).
        (* one step of the right-hand side lands on [append l' c] *)
        unfold norm at 2. rewrite qm_S. cbn [append l_corrupted l_buf l_max l_msgs l_fds].
        rewrite Hcor, Hshort', have_message_app by exact H16. rewrite Hh, Hc', Hl2.
        assert (Hsk : skipn (N.to_nat (hl + bl)) (l_buf l ++ c) = skipn (N.to_nat (hl + bl)) (l_buf l) ++ c).
        { rewrite skipn_app. replace (N.to_nat (hl + bl) - length (l_buf l))%nat with 0%nat by (unfold nlen in Hfit; lia). reflexivity. }
        rewrite Hsk.
        change (mkLoader (skipn (N.to_nat (hl + bl)) (l_buf l) ++ c) false V_VALID (l_msgs l ++ [m]) (l_fds l - m_nfds m) (l_max l)) with (append l' c).
        unfold norm. f_equal. apply qm_fuel.
        * lia.
        * cbn [append l_buf l']. rewrite !app_length. rewrite skipn_length. lia.
      + (* the complete message is invalid: corrupt either way *)
        destruct (load_message le fl hl bl (l_fds l) (l_buf l ++ c)) as [m'|r'] eqn:Hl2; [contradiction|].
        rewrite corrupted_norm by reflexivity.
        unfold norm at 1. rewrite qm_S. cbn [append l_corrupted l_buf l_max l_msgs l_fds].
        rewrite Hcor, Hshort', have_message_app by exact H16. rewrite Hh, Hc', Hl2. reflexivity.
  Qed.

  Lemma stab_norm l c : outcome (norm (append (norm l) c)) = outcome (norm (append l c)).
  Proof. apply stab. lia. Qed.

  Theorem chunking : forall chunks l,
    outcome (feed_all (norm l) chunks) = outcome (norm (append l (concat chunks))).
  Proof.
    induction chunks as [|c r IH]; intros l.
    - cbn [feed_all fold_left concat]. rewrite append_nil. reflexivity.
    - unfold feed_all. cbn [fold_left concat]. fold (feed_all (feed (norm l) c 0) r).
      rewrite feed_norm. rewrite IH. rewrite append_append. rewrite <- (append_append l c (concat r)).
      rewrite <- !append_append. rewrite !append_append.
      rewrite <- (append_append (norm l) c (concat r)). rewrite !append_append.
      apply stab_norm.
  Qed.

  Corollary chunking_from_empty : forall chunks,
    outcome (feed_all loader_new chunks) = outcome (feed loader_new (concat chunks) 0).
  Proof.
    intros chunks. rewrite feed_norm. change loader_new with (norm loader_new) at 1. apply chunking.
  Qed.
End Chunking.

(* ---- nothing after corruption ------------------------------------------- *)
Theorem nothing_after_corruption l c : l_corrupted l = true -> outcome (feed l c 0) = outcome l.
Proof. intros H. rewrite feed_norm. rewrite corrupted_norm by exact H. reflexivity. Qed.

Theorem corruption_is_final l chunks : l_corrupted l = true -> outcome (feed_all l chunks) = outcome l.
Proof.
  revert l. induction chunks as [|c r IH]; intros l H; [reflexivity|].
  unfold feed_all. cbn [fold_left]. fold (feed_all (feed l c 0) r).
  rewrite IH.
  - apply nothing_after_corruption. exact H.
  - pose proof (nothing_after_corruption l c H) as E. unfold outcome in E. inversion E. congruence.
Qed.

(* ---- conservation of bytes ------------------------------------------------ *)
Definition msg_bytes (m : message) : bytes := m_header m ++ m_body m.
Definition consumed (l : loader) : bytes := concat (map msg_bytes (l_msgs l)).

Lemma firstn_add_skipn {A} (a b : nat) (l : list A) : firstn (a + b) l = firstn a l ++ firstn b (skipn a l).
Proof. revert l. induction a as [|a IH]; intros l; [reflexivity|]. destruct l as [|x l]; cbn; [destruct b; reflexivity|]. rewrite IH. reflexivity. Qed.

Lemma load_message_bytes le fl hl bl fds d m :
  load_message le fl hl bl fds d = inl m -> msg_bytes m = firstn (N.to_nat (hl + bl)) d.
Proof.
  unfold load_message. destruct (header_load le fl hl d) as [fs|e]; [|discriminate].
  destruct (parse_sig _) as [tys|]; [|discriminate].
  destruct (negb _); [discriminate|].
  destruct (fds <? _); [discriminate|].
  intros H. inversion H. unfold msg_bytes. cbn [m_header m_body].
  rewrite N2Nat.inj_add. symmetry. apply firstn_add_skipn.
Qed.

Theorem conservation : forall f l, consumed (queue_messages f l) ++ l_buf (queue_messages f l) = consumed l ++ l_buf l.
Proof.
  induction f as [|f IH]; intros l; [reflexivity|].
  rewrite qm_S.
  destruct (l_corrupted l); [reflexivity|].
  destruct (nlen (l_buf l) <? DBUS_MINIMUM_HEADER_SIZE); [reflexivity|].
  destruct (have_message (l_max l) (l_buf l)) as [r|le fl hl bl c]; [reflexivity|].
  destruct c; [|reflexivity].
  destruct (load_message le fl hl bl (l_fds l) (l_buf l)) as [m|r] eqn:Hl; [|reflexivity].
  rewrite IH. unfold consumed. cbn [l_msgs l_buf]. rewrite map_app, concat_app. cbn [map concat]. rewrite app_nil_r.
  rewrite (load_message_bytes _ _ _ _ _ _ _ Hl). rewrite <- app_assoc. rewrite firstn_skipn. reflexivity.
Qed.

Corollary feed_conservation l c : consumed (feed l c 0) ++ l_buf (feed l c 0) = consumed l ++ l_buf l ++ c.
Proof. rewrite feed_norm. unfold norm. rewrite conservation. reflexivity. Qed.

(* every queued message passed the validators *)
Lemma load_message_valid le fl hl bl fds d m :
  load_message le fl hl bl fds d = inl m ->
  exists fs tys, header_load le fl hl d = inl fs /\ m_fields m = fs /\
                 validate_body le tys (m_body m) = V_VALID.
Proof.
  unfold load_message. destruct (header_load le fl hl d) as [fs|e]; [|discriminate].
  destruct (parse_sig _) as [tys|]; [|discriminate].
  destruct (negb (Z.eqb _ _)) eqn:Hv; [discriminate|].
  destruct (fds <? _); [discriminate|].
  intros H. inversion H. exists fs, tys. cbn [m_fields m_body]. repeat split.
  apply negb_false_iff in Hv. apply Z.eqb_eq in Hv. exact Hv.
Qed.
