(* Lexical correspondence between the model's index-based string handling and
   the specification's structural one: words, blanks, command names, mechanism
   names, ASCII check, strict vs. lenient hex. *)
From DV Require Import Lib.Base Auth.Types Gen.AuthTables Auth.Sha1 Wire.Utf8 Auth.Server Spec.AuthSpec Proofs.AuthInv.
Require Import ZifyBool ZifyN ZifyNat.
Local Open Scope N_scope.

Lemma blank_same c : is_blank c = sblank c.
Proof. reflexivity. Qed.

Lemma find_blank_span s : forall k fb i, find_blank_from s k = (fb, i) ->
  let '(w, t) := span_word s in
  i = k + nlen w /\ s = w ++ t /\ (fb = false -> t = []).
Proof.
  induction s as [|c r IH]; intros k fb i H; cbn [find_blank_from span_word] in *.
  - inversion H; subst. unfold nlen; cbn. repeat split; auto. lia.
  - rewrite blank_same in H. destruct (sblank c) eqn:E.
    + inversion H; subst. unfold nlen; cbn. repeat split; auto; [lia|discriminate].
    + specialize (IH _ _ _ H). destruct (span_word r) as [w t]. destruct IH as (Hi & Hs & Ht).
      repeat split; auto.
      * unfold nlen in *. cbn [length]. lia.
      * cbn. rewrite Hs at 1. reflexivity.
Qed.

Lemma skip_blank_drop asserts t : forall i j, skip_blank_from asserts t i = Some j ->
  exists n, j = i + N.of_nat n /\ skipn n t = drop_blanks t.
Proof.
  induction t as [|c r IH]; intros i j H; cbn [skip_blank_from drop_blanks] in *.
  - inversion H; subst. exists 0%nat. split; [lia|reflexivity].
  - rewrite blank_same in H. destruct (sblank c) eqn:E.
    + destruct (IH _ _ H) as (n & Hj & Hs). exists (S n). split; [lia|exact Hs].
    + rewrite andb_false_r in H. inversion H; subst. exists 0%nat. split; [lia|reflexivity].
Qed.

Lemma firstn_app_len {A} (w t : list A) : firstn (length w) (w ++ t) = w.
Proof. induction w; cbn; congruence. Qed.
Lemma skipn_app_len {A} (w t : list A) : skipn (length w) (w ++ t) = t.
Proof. induction w; cbn; auto. Qed.
Lemma skipn_add {A} (n m : nat) (l : list A) : skipn (m + n) l = skipn n (skipn m l).
Proof. revert l. induction m; intros l; [reflexivity|]. destruct l; [destruct n; reflexivity|]. cbn. apply IHm. Qed.

(* the model's command word / argument split is the specification's split_word *)
Theorem split_model asserts s fb i j :
  find_blank s = (fb, i) -> skip_blank asserts s i = Some j ->
  split_word s = (firstn (N.to_nat i) s, skipn (N.to_nat j) s).
Proof.
  unfold find_blank, skip_blank, split_word. intros Hf Hs.
  pose proof (find_blank_span s 0 fb i Hf) as H. destruct (span_word s) as [w t]. destruct H as (Hi & Hst & _).
  assert (Hn : N.to_nat i = length w) by (unfold nlen in Hi; lia).
  rewrite Hn in *. rewrite Hst in Hs at 1. rewrite skipn_app_len in Hs.
  destruct (skip_blank_drop _ _ _ _ Hs) as (n & Hj & Hd).
  f_equal.
  - rewrite Hst. symmetry. apply firstn_app_len.
  - symmetry. replace (N.to_nat j) with (length w + n)%nat by lia. rewrite skipn_add. rewrite Hst. rewrite skipn_app_len. exact Hd.
Qed.

(* ---------- ASCII ---------- *)
Lemma ascii_same line : validate_ascii line = forallb ascii_ok line.
Proof.
  unfold validate_ascii. induction line as [|c r IH]; [reflexivity|]. cbn [forallb]. rewrite IH. f_equal.
  unfold is_ascii, ascii_ok. destruct (c =? 0) eqn:E1, (0 <? c) eqn:E2; cbn; auto; lia.
Qed.

(* ---------- command names ---------- *)
Lemma lookup_cases w :
  (bytes_eqb w w_AUTH = true /\ lookup_command w = CAuth) \/
  (bytes_eqb w w_AUTH = false /\ bytes_eqb w w_DATA = true /\ lookup_command w = CData) \/
  (bytes_eqb w w_AUTH = false /\ bytes_eqb w w_DATA = false /\ bytes_eqb w w_BEGIN = true /\ lookup_command w = CBegin) \/
  (bytes_eqb w w_AUTH = false /\ bytes_eqb w w_DATA = false /\ bytes_eqb w w_BEGIN = false /\ bytes_eqb w w_CANCEL = true /\
     lookup_command w = CCancel) \/
  (bytes_eqb w w_AUTH = false /\ bytes_eqb w w_DATA = false /\ bytes_eqb w w_BEGIN = false /\ bytes_eqb w w_CANCEL = false /\
     bytes_eqb w w_ERROR = true /\ lookup_command w = CError) \/
  (bytes_eqb w w_AUTH = false /\ bytes_eqb w w_DATA = false /\ bytes_eqb w w_BEGIN = false /\ bytes_eqb w w_CANCEL = false /\
     bytes_eqb w w_ERROR = false /\ bytes_eqb w w_NEGOTIATE_UNIX_FD = true /\ lookup_command w = CNegotiateFd) \/
  (bytes_eqb w w_AUTH = false /\ bytes_eqb w w_DATA = false /\ bytes_eqb w w_BEGIN = false /\ bytes_eqb w w_CANCEL = false /\
     bytes_eqb w w_ERROR = false /\ bytes_eqb w w_NEGOTIATE_UNIX_FD = false /\
     (lookup_command w = CRejected \/ lookup_command w = COk \/ lookup_command w = CAgreeFd \/ lookup_command w = CUnknown)).
Proof.
  destruct (bytes_eqb w w_AUTH) eqn:E1; [apply bytes_eqb_eq in E1; subst; left; split; reflexivity|right].
  destruct (bytes_eqb w w_DATA) eqn:E2; [apply bytes_eqb_eq in E2; subst; left; repeat split; reflexivity|right].
  destruct (bytes_eqb w w_BEGIN) eqn:E3; [apply bytes_eqb_eq in E3; subst; left; repeat split; reflexivity|right].
  destruct (bytes_eqb w w_CANCEL) eqn:E4; [apply bytes_eqb_eq in E4; subst; left; repeat split; reflexivity|right].
  destruct (bytes_eqb w w_ERROR) eqn:E5; [apply bytes_eqb_eq in E5; subst; left; repeat split; reflexivity|right].
  destruct (bytes_eqb w w_NEGOTIATE_UNIX_FD) eqn:E6; [apply bytes_eqb_eq in E6; subst; left; repeat split; reflexivity|right].
  repeat split; auto.
  unfold lookup_command. destruct (assoc_bytes w auth_command_names) as [c|] eqn:E; [|auto].
  apply find_assoc in E. unfold auth_command_names in E. cbn [In] in E.
  repeat (destruct E as [E|E];
          [inversion E; subst; auto;
           try (rewrite bytes_eqb_refl in E1; discriminate); try (rewrite bytes_eqb_refl in E2; discriminate);
           try (rewrite bytes_eqb_refl in E3; discriminate); try (rewrite bytes_eqb_refl in E4; discriminate);
           try (rewrite bytes_eqb_refl in E5; discriminate); try (rewrite bytes_eqb_refl in E6; discriminate)|]).
  contradiction.
Qed.

(* ---------- mechanism names ---------- *)
Lemma find_mech_spec e name : find_mech e name = spec_mech e name.
Proof. unfold find_mech, spec_mech. destruct (mech_allowed e name); reflexivity. Qed.

(* ---------- hex ---------- *)
Definition is_hexdigit (c : N) : bool := match hexv c with Some _ => true | None => false end.
Definition odd_hex (h : bytes) : bool := forallb is_hexdigit h && Nat.odd (length h).

Lemma pair_ind (P : bytes -> Prop) :
  P [] -> (forall a, P [a]) -> (forall a b r, P r -> P (a :: b :: r)) -> forall s, P s.
Proof.
  intros H0 H1 H2. fix F 1. intros [|a [|b r]]; [exact H0 | apply H1 | apply H2, F].
Qed.

Lemma hex_loop_strict : forall s acc i,
  match unhex s with
  | Some d => hex_decode_loop s None acc i = (rev acc ++ d, i + nlen s)
  | None => odd_hex s = true \/ snd (hex_decode_loop s None acc i) <> i + nlen s
  end.
Proof.
  induction s as [|a|a b r IH] using pair_ind; intros acc i.
  - cbn. unfold nlen; cbn. rewrite app_nil_r, N.add_0_r. reflexivity.
  - cbn [unhex]. unfold odd_hex, is_hexdigit. cbn [forallb length Nat.odd]. change hexval with hexv in *.
    cbn [hex_decode_loop]. change (hexval a) with (hexv a).
    destruct (hexv a); cbn; [left; reflexivity|right; unfold nlen; cbn; lia].
  - cbn [unhex hex_decode_loop]. change (hexval a) with (hexv a).
    destruct (hexv a) as [x|] eqn:Ea.
    2:{ right. cbn [snd]. unfold nlen; cbn [length]. lia. }
    change (hexval b) with (hexv b). destruct (hexv b) as [y|] eqn:Eb.
    2:{ right. cbn [snd]. unfold nlen; cbn [length]. lia. }
    specialize (IH ((16 * x + y) :: acc) (i + 1 + 1)).
    destruct (unhex r) as [t|].
    + rewrite IH. cbn [rev]. rewrite <- app_assoc. cbn [app]. f_equal. unfold nlen; cbn [length]. lia.
    + destruct IH as [IH|IH].
      * left. unfold odd_hex, is_hexdigit in *. cbn [forallb length]. rewrite Ea, Eb. cbn [andb].
        apply andb_true_iff in IH. destruct IH as [I1 I2]. rewrite I1. cbn [andb].
        change (Nat.odd (S (S (length r)))) with (Nat.odd (length r)). exact I2.
      * right. intros X. apply IH. rewrite X. unfold nlen; cbn [length]. lia.
Qed.

Theorem hex_strict_lenient h : odd_hex h = false ->
  match unhex h with
  | Some d => hex_decode h = (d, nlen h)
  | None => snd (hex_decode h) <> nlen h
  end.
Proof.
  intros Ho. unfold hex_decode. pose proof (hex_loop_strict h [] 0) as H.
  destruct (unhex h); [exact H|]. destruct H as [H|H]; [congruence|exact H].
Qed.

Lemma find_blank_span_true s : forall k i, find_blank_from s k = (true, i) -> snd (span_word s) <> [].
Proof.
  induction s as [|c r IH]; intros k i H; cbn [find_blank_from span_word] in *; [discriminate|].
  rewrite blank_same in H. destruct (sblank c) eqn:E; [cbn; discriminate|].
  specialize (IH _ _ H). destruct (span_word r) as [w t]. exact IH.
Qed.

Lemma sha1_nonempty x : hex_encode (sha1 x) <> [].
Proof.
  unfold sha1. destruct (fold_left compress _ sha1_init) as [[[[h0 h1] h2] h3] h4].
  unfold bytes_of_word at 1. cbn [app hex_encode]. discriminate.
Qed.

(* the assertion of _dbus_string_skip_blank cannot fail (after fix 94435c1) *)
Lemma skip_blank_from_total asserts s : forall i, skip_blank_from asserts s i <> None.
Proof.
  induction s as [|c r IH]; intros i; cbn [skip_blank_from]; [discriminate|].
  destruct (is_blank c) eqn:E; [apply IH|]. rewrite andb_false_r. discriminate.
Qed.
Theorem skip_blank_total asserts s start : skip_blank asserts s start <> None.
Proof. unfold skip_blank. apply skip_blank_from_total. Qed.
