(* C15 proofs, part 5: the model against the specification (coq/Spec/FdsSpec.v), for every history. *)
From Coq Require Import Permutation.
From DV Require Import Lib.Base Gen.Tables Gen.FdsTables Fds.Fds Spec.FdsSpec Proofs.FdsBase Proofs.FdsInv Proofs.FdsStep Proofs.FdsHist Fds.Write Proofs.FdsWrite.
Require Import ZifyBool ZifyN ZifyNat.
Local Open Scope N_scope.

Lemma occ_same l f : FdsSpec.occ l f = FdsHist.occ l f.
Proof. reflexivity. Qed.

(* ---------------------------------------------------------------- reachable states *)
Definition reach (cf : cfg) (evs : list event) : state := run cf init evs.

Lemma reach_inv cf evs : 0 < fd_timeout cf -> Inv cf (reach cf evs).
Proof. intros H. apply Inv_run; auto. apply Inv_init. Qed.

(* ---------------------------------------------------------------- conservation *)
Lemma occ_perm l l' f : Permutation l l' -> FdsSpec.occ l f = FdsSpec.occ l' f.
Proof. intros P. apply (proj1 (Permutation_count_occ N.eq_dec l l') P). Qed.

Lemma closed_partition st :
  Permutation (closed st) (closed_delivered st ++ closed_dropped st).
Proof.
  unfold closed, closed_delivered, closed_dropped. rewrite <- map_app. apply Permutation_map.
  apply filter_split_perm.
Qed.

Theorem conservation cf evs : 0 < fd_timeout cf ->
  let st := reach cf evs in
  conserved (received st) (closed_delivered st) (closed_dropped st) (held st) /\
  (forall x, In x (st_conns st) -> within_limits (max_fds cf) (fd_timeout cf) (st_now st) (c_pend x) (c_since x)) /\
  (forall x f, In x (st_dead st) -> In f (c_pend x) -> In (f, WConnClosed (c_id x)) (g_closed (st_led st))) /\
  (st_conns st = [] -> held st = [] /\ length (received st) = length (closed st)).
Proof.
  intros Hpos st. destruct (reach_inv cf evs Hpos) as [Hbal Hlive Hdead _ _ _]. fold st in Hbal, Hlive, Hdead.
  splits.
  - intros f. unfold bal in Hbal.
    change (recv_of (st_led st)) with (received st) in Hbal. change (closed_of (st_led st)) with (closed st) in Hbal.
    pose proof (occ_perm _ _ f Hbal) as P0. pose proof (occ_perm _ _ f (closed_partition st)) as P.
    unfold FdsSpec.occ, fd in *. rewrite count_occ_app in P0, P. lia.
  - intros x Hx. destruct (Hlive x Hx) as (_ & Ht & Hb). split; [exact Hb|].
    intros Hne. unfold timer_ok in Ht. destruct (c_pend x); [exfalso; apply Hne; reflexivity|].
    destruct (c_since x) as [t|]; [|contradiction]. exists t. splits; auto; apply Ht.
  - intros x f Hx Hf. destruct (Hdead x Hx) as [_ Hi]. apply Hi. unfold closed_tag. apply in_map_iff. exists f; auto.
  - intros Hnil. unfold held. rewrite Hnil. simpl. split; auto.
    unfold bal, held in Hbal. rewrite Hnil in Hbal. simpl in Hbal. rewrite app_nil_r in Hbal.
    apply Permutation_length in Hbal. exact Hbal.
Qed.

(* every descriptor received, given that the clients never send the same identity twice *)
Theorem closed_exactly_once cf evs : 0 < fd_timeout cf -> NoDup (sent_fds evs) ->
  let st := reach cf evs in
  forall f, In f (received st) -> settled_once (closed st) (held st) f.
Proof.
  intros Hpos Hnd st f Hin.
  destruct (reach_inv cf evs Hpos) as [Hbal _ _ _ _ _]. fold st in Hbal.
  assert (H1 : FdsSpec.occ (received st) f = 1%nat).
  { pose proof (received_from_sent cf evs f) as Hle. fold (reach cf evs) in Hle. fold st in Hle.
    pose proof (proj1 (NoDup_count_occ N.eq_dec (sent_fds evs)) Hnd f) as Hs.
    pose proof (proj1 (count_occ_In N.eq_dec (received st) f) Hin) as Hp.
    unfold FdsSpec.occ, FdsHist.occ in *. lia. }
  unfold bal in Hbal.
  change (recv_of (st_led st)) with (received st) in Hbal. change (closed_of (st_led st)) with (closed st) in Hbal.
  pose proof (occ_perm _ _ f Hbal) as P0. unfold settled_once, FdsSpec.occ, fd in *. rewrite count_occ_app in P0. lia.
Qed.

(* ---------------------------------------------------------------- order and count *)
Lemma nth_error_concat_at {A} (Ls : list (list A)) : forall k L rest i,
  nth_error Ls k = Some L -> (i < length L)%nat ->
  nth_error (concat Ls ++ rest) (length (concat (firstn k Ls)) + i) = nth_error L i.
Proof.
  induction Ls as [|L0 Ls IH]; intros k L rest i Hk Hi.
  - destruct k; discriminate.
  - destruct k as [|k]; simpl in *.
    + inversion Hk; subst. rewrite <- app_assoc. apply nth_error_app1. exact Hi.
    + rewrite app_length, <- app_assoc.
      replace (length L0 + length (concat (firstn k Ls)) + i)%nat
        with (length L0 + (length (concat (firstn k Ls)) + i))%nat by lia.
      rewrite nth_error_app2 by lia.
      replace (length L0 + (length (concat (firstn k Ls)) + i) - length L0)%nat
        with (length (concat (firstn k Ls)) + i)%nat by lia.
      apply IH; auto.
Qed.

Definition announced (m : wmsg * list fd) : N * list fd := (w_nfds (fst m), snd m).

Lemma sum_before_counts (Fs : list (wmsg * list fd)) : counts_ok Fs -> forall k,
  N.to_nat (sum_before (map fst (map announced Fs)) k) = length (concat (firstn k (map snd Fs))).
Proof.
  unfold sum_before. induction Fs as [|[d F] Fs IH]; intros Hc k.
  - destruct k; reflexivity.
  - destruct k as [|k]; [reflexivity|]. simpl.
    rewrite app_length, <- IH.
    + assert (nlen F = w_nfds d) by (apply Hc; left; auto). unfold nlen in *. lia.
    + intros d0 F0 Hin. apply Hc. right; auto.
Qed.

Lemma fifo_concat (Fs : list (wmsg * list fd)) stream rest :
  stream = concat (map snd Fs) ++ rest -> counts_ok Fs -> fifo_ok stream (map announced Fs).
Proof.
  intros -> Hc k n F Hk.
  rewrite nth_error_map in Hk. destruct (nth_error Fs k) as [[d F0]|] eqn:Ek; [|discriminate].
  simpl in Hk. inversion Hk; subst. clear Hk.
  assert (Hin : In (d, F) Fs) by (eapply nth_error_In; eauto).
  split; [apply Hc; auto|].
  intros i Hi. rewrite sum_before_counts by exact Hc.
  symmetry. apply nth_error_concat_at; auto.
  rewrite nth_error_map, Ek. reflexivity.
Qed.

Theorem order_and_count cf evs : 0 < fd_timeout cf ->
  let st := reach cf evs in
  (* per connection, live or gone: FIFO attachment, nothing lost or invented, order of sending kept *)
  (forall x, In x (all_conns st) ->
     fifo_ok (c_acc x) (map announced (c_loaded x)) /\
     c_acc x = concat (map snd (c_loaded x)) ++ c_pend x /\
     subseq (c_acc x) (sent_by (c_id x) evs)) /\
  (* what reaches a recipient is a loaded message of the sender, with the announced number of descriptors *)
  (forall r s d F, In (r, (s, (d, F))) (g_deliv (st_led st)) ->
     nlen F = w_nfds d /\ exists x, In x (all_conns st) /\ c_id x = s /\ In (d, F) (c_loaded x)).
Proof.
  intros Hpos st. destruct (reach_inv cf evs Hpos) as [_ Hlive Hdead _ Hdeliv _]. fold st in Hlive, Hdead, Hdeliv.
  assert (Hok : forall x, In x (all_conns st) -> conn_ok x).
  { intros x Hx. unfold all_conns in Hx. apply in_app_or in Hx. destruct Hx as [Hx|Hx]; [apply Hlive | apply Hdead]; auto. }
  split.
  - intros x Hx. destruct (Hok x Hx) as [Ha Hc]. splits; auto.
    + eapply fifo_concat; eauto.
    + apply (accepted_in_order cf evs x Hx).
  - intros r s d F Hin. destruct (Hdeliv r s d F Hin) as [(x & Hx & Hid & Hl) _].
    split; [|exists x; auto]. destruct (Hok x Hx) as [_ Hc]. eapply Hc; eauto.
Qed.

(* ---------------------------------------------------------------- negotiation *)
Definition negotiated (st : state) (c : N) : Prop := exists x, In x (all_conns st) /\ c_id x = c /\ c_neg x = true.

Theorem negotiated_only cf evs : 0 < fd_timeout cf ->
  let st := reach cf evs in
  only_negotiated (negotiated st) (map fst (g_recv (st_led st)))
                  (map (fun e => (fst e, snd (snd (snd e)))) (g_deliv (st_led st))) /\
  (* a connection number names one connection: the negotiation flag of "connection c" is unambiguous *)
  (forall x y, In x (all_conns st) -> In y (all_conns st) -> c_id x = c_id y -> c_neg x = c_neg y).
Proof.
  intros Hpos st. destruct (reach_inv cf evs Hpos) as [_ _ _ Hrecv Hdeliv [Hnd _]]. fold st in Hrecv, Hdeliv, Hnd.
  split; [split|].
  - intros c Hin. apply in_map_iff in Hin. destruct Hin as ([c' f] & <- & Hin). simpl. eapply Hrecv; eauto.
  - intros r F Hin Hne. apply in_map_iff in Hin. destruct Hin as ([r' [s [d F']]] & Heq & Hin). simpl in Heq.
    inversion Heq; subst. destruct (Hdeliv r s d F Hin) as [_ B]. apply B. exact Hne.
  - intros x y Hx Hy Hid.
    apply In_nth_error in Hx. destruct Hx as (i & Hi). apply In_nth_error in Hy. destruct Hy as (j & Hj).
    assert (i = j).
    { apply (proj1 (NoDup_nth_error (map c_id (all_conns st))) Hnd).
      - apply nth_error_Some. rewrite nth_error_map, Hi. discriminate.
      - rewrite !nth_error_map, Hi, Hj. simpl. congruence. }
    subst. congruence.
Qed.

(* ---------------------------------------------------------------- deliveries on the wire *)
(* whatever pieces the recipient's socket takes a delivered message in, the recipient finds exactly the
   message's descriptors in the ancillary data, as many as the header announces *)
Theorem delivery_on_the_wire cf evs : 0 < fd_timeout cf ->
  let st := reach cf evs in
  forall r s d F y hlen blen caps calls,
    In (r, (s, (d, F))) (g_deliv (st_led st)) -> In y (all_conns st) -> c_id y = r ->
    0 < hlen + blen -> do_writing (c_neg y) hlen blen F 0 caps = (calls, hlen + blen) ->
    wire_fds calls = F /\ nlen (wire_fds calls) = w_nfds d.
Proof.
  intros Hpos st r s d F y hlen blen caps calls Hin Hy Hid Htot Hw.
  destruct (order_and_count cf evs Hpos) as [_ Hcnt]. destruct (Hcnt r s d F Hin) as [Hn _].
  destruct (negotiated_only cf evs Hpos) as [[_ Hneg] Huniq].
  pose proof (write_split (c_neg y) hlen blen F caps) as W. rewrite Hw in W. destruct W as (A & _ & _).
  assert (E : 0 <? hlen + blen = true) by (apply N.ltb_lt; exact Htot). rewrite E, andb_true_r in A.
  assert (HF : wire_fds calls = F).
  { rewrite A. destruct (c_neg y) eqn:En; auto. destruct F as [|f F']; auto. exfalso.
    assert (Hd : In (r, f :: F') (map (fun e : N * (N * (wmsg * list fd)) => (fst e, snd (snd (snd e)))) (g_deliv (st_led st)))).
    { apply in_map_iff. exists (r, (s, (d, f :: F'))). split; auto. }
    destruct (Hneg r (f :: F') Hd) as (y' & Hy' & Hid' & Hn'); [discriminate|].
    rewrite (Huniq y y' Hy Hy') in En by congruence. congruence. }
  split; [exact HF | rewrite HF; exact Hn].
Qed.

(* ---------------------------------------------------------------- the whole statement (text repeated in Props/C15.v) *)
Lemma full_statement_holds :
  forall cf h, 0 < fd_timeout cf ->
  let st := reach cf h in
  (* (a) *)
  (forall x, In x (all_conns st) ->
     fifo_ok (c_acc x) (map announced (c_loaded x)) /\ subseq (c_acc x) (sent_by (c_id x) h)) /\
  (forall r s d F, In (r, (s, (d, F))) (g_deliv (st_led st)) ->
     nlen F = w_nfds d /\ exists x, In x (all_conns st) /\ c_id x = s /\ In (d, F) (c_loaded x)) /\
  (* (b) *)
  only_negotiated (negotiated st) (map fst (g_recv (st_led st)))
                  (map (fun e => (fst e, snd (snd (snd e)))) (g_deliv (st_led st))) /\
  (* (c) *)
  conserved (received st) (closed_delivered st) (closed_dropped st) (held st) /\
  (NoDup (sent_fds h) -> forall f, In f (received st) -> settled_once (closed st) (held st) f) /\
  (forall x, In x (st_conns st) -> within_limits (max_fds cf) (fd_timeout cf) (st_now st) (c_pend x) (c_since x)) /\
  (st_conns st = [] -> held st = [] /\ length (received st) = length (closed st)).
Proof.
  intros cf h Hpos st.
  destruct (order_and_count cf h Hpos) as [A1 A2].
  destruct (negotiated_only cf h Hpos) as [B _].
  destruct (conservation cf h Hpos) as (C1 & C2 & _ & C4).
  splits.
  - intros x Hx. destruct (A1 x Hx) as (P1 & _ & P3). split; assumption.
  - exact A2.
  - exact B.
  - exact C1.
  - intros Hnd. exact (closed_exactly_once cf h Hpos Hnd).
  - exact C2.
  - exact C4.
Qed.

(* ---------------------------------------------------------------- non-vacuity witnesses *)
Definition cf0 : cfg := mkCfg 4 600 None max_bytes_read_per_iteration.
(* the session bus defaults (bus/config-parser.c), lifted by tools/gen/fds.py *)
Definition cf_default : cfg := mkCfg default_max_message_unix_fds default_pending_fd_timeout None max_bytes_read_per_iteration.
Definition m1 : wmsg := mkW 120 true true 2 (DConn 1) false 7.
Definition m2 : wmsg := mkW 100 true true 0 (DConn 1) false 8.
Definition h_deliver : list event := [EConnect true false; EConnect true false; EWrite 0 [PHead m1 120] [50; 51]].
Definition h_surplus : list event := [EConnect true false; EConnect true false; EWrite 0 [PHead m2 100] [60; 61]].
Definition h_trunc : list event := h_surplus ++ [EWrite 0 [PHead m2 100] [62; 63; 64]].
