(* C04 proofs, part 3: every step of the model is a step of the specification
   (as-implemented variant) and keeps the invariant. *)
From DV Require Import Lib.Base Gen.Tables Wire.Names Registry.RegTypes Registry.Registry
  Spec.NamesSpec Spec.RegistrySpec Proofs.RegistryBase Proofs.RegistryInv.
Local Open Scope N_scope.

(* ---- small facts -------------------------------------------------------------------------- *)
Lemma deliver_same_shape g cs es : same_shape g -> deliver (map g cs) es = deliver cs es.
Proof.
  intros H. rewrite <- !sdeliver_abs. rewrite map_abs_same_shape by exact H. reflexivity.
Qed.

Lemma held_owned b s x : inv b -> R b s -> In x (b_conns b) -> held (s_names s) (c_id x) = nlen (c_owned x).
Proof.
  intros I Rr Hx. unfold held, nlen. f_equal.
  rewrite <- (map_length fst). apply length_eq_of_same_members.
  - apply nodup_map_filter. apply R_skeys with (b := b); exact Rr.
  - apply (inv_owned b I x Hx).
  - intros k. destruct (inv_owned b I x Hx) as [_ Hk]. rewrite Hk, <- (R_names b s Rr). split.
    + intros H. apply in_map_iff in H. destruct H as [[k0 q0] [E H]]. simpl in E. subst k0. apply filter_In in H. destruct H as [Hin Hq].
      simpl in Hq. rewrite (sget_in _ _ (R_skeys b s Rr) _ Hin). exact Hq.
    + intros H. unfold sget in H. destruct (find (fun kq => key_eqb k (fst kq)) (s_names s)) as [[k0 q0]|] eqn:E; [|discriminate].
      apply find_some in E. destruct E as [Hin Ek]. simpl in Ek. apply key_eqb_eq in Ek. subst k0. simpl in H.
      apply in_map_iff. exists (k, q0). split; [reflexivity|]. apply filter_In. split; [exact Hin | exact H].
Qed.

Lemma name_checks {A} s (x y : A) :
  (if negb (validate_bus_name s) then x else if starts_with_colon s then x else if bytes_eqb s DBUS_SERVICE_DBUS_str then x else y) =
  (if negb (requestable s) then x else y).
Proof.
  rewrite <- name_refused_spec. unfold name_refused.
  destruct (negb (validate_bus_name s)); [reflexivity|]. destruct (starts_with_colon s); [reflexivity|].
  destruct (bytes_eqb s DBUS_SERVICE_DBUS_str); reflexivity.
Qed.

Lemma qwf_cons q : qwf q -> exists p w, q = p :: w /\ NoDup (qconns (p :: w)) /\ no_dnq w.
Proof. intros [Hne [ND Hd]]. destruct q as [|p w]; [congruence|]. exists p, w. auto. Qed.

Lemma queued_cons c p w : queued c (p :: w) = (o_conn p =? c) || queued c w.
Proof. reflexivity. Qed.

(* ---- the specification's request on a well-formed queue, in explicit form --------------------- *)
Lemma request_queue_impl p w c flags : no_dnq w ->
  request_queue as_implemented (p :: w) c flags =
    let a := f_allow flags in let r := f_replace flags in let d := f_dnq flags in
    if o_conn p =? c then mkOwner c a d :: w
    else if o_allow p && r then mkOwner c a d :: (if o_dnq p then without c w else p :: without c w)
    else if d then p :: without c w
    else if r then p :: mkOwner c a false :: without c w
    else if queued c w then p :: refresh c a false w else p :: w ++ [mkOwner c a false].
Proof.
  intros Hd. unfold request_queue, rules_1_4, is. cbn [v_jump as_implemented andb].
  destruct (o_conn p =? c) eqn:Epc; cbn zeta.
  - simpl. rewrite filter_no_dnq by exact Hd. reflexivity.
  - destruct (o_allow p && f_replace flags) eqn:Ear.
    + simpl. rewrite (filter_no_dnq (without c w)) by (apply no_dnq_without; exact Hd). destruct (o_dnq p); reflexivity.
    + destruct (f_dnq flags) eqn:Ed.
      * destruct (f_replace flags) eqn:Er.
        -- simpl. rewrite filter_no_dnq by (apply no_dnq_without; exact Hd). reflexivity.
        -- destruct (queued c w) eqn:Eq.
           ++ simpl. rewrite filter_refresh_dnq by exact Hd. reflexivity.
           ++ simpl. rewrite filter_app. simpl. rewrite app_nil_r. rewrite filter_no_dnq by exact Hd.
              rewrite without_notin by exact Eq. reflexivity.
      * destruct (f_replace flags) eqn:Er.
        -- simpl. rewrite filter_no_dnq by (apply no_dnq_without; exact Hd). reflexivity.
        -- destruct (queued c w) eqn:Eq.
           ++ simpl. rewrite filter_no_dnq by (apply no_dnq_refresh; exact Hd). reflexivity.
           ++ simpl. rewrite filter_app. simpl. rewrite filter_no_dnq by exact Hd. reflexivity.
Qed.

(* ---- bus_service_add_owner on a well-formed queue ------------------------------------------------ *)
Lemma add_owner_empty k c flags :
  add_owner k [] c flags = Some ([mkOwner c (f_allow flags) (f_dnq flags)], true, [EUni c (MAcquired k)]).
Proof. unfold add_owner. simpl. rewrite orb_true_r. rewrite set_flags_eq. reflexivity. Qed.

Lemma add_owner_new k p w c flags : queued c (p :: w) = false ->
  add_owner k (p :: w) c flags =
  Some (if f_replace flags then p :: mkOwner c (f_allow flags) (f_dnq flags) :: w
        else (p :: w) ++ [mkOwner c (f_allow flags) (f_dnq flags)], true, []).
Proof.
  intros Hq. unfold add_owner. apply find_owner_none in Hq. rewrite Hq. cbn [is_nil]. rewrite orb_false_r.
  rewrite has_flag_replace, set_flags_eq. simpl. destruct (f_replace flags); reflexivity.
Qed.

Lemma add_owner_old k p w c flags : NoDup (qconns (p :: w)) -> (o_conn p =? c) = false -> queued c w = true ->
  add_owner k (p :: w) c flags =
  Some (if f_replace flags then p :: mkOwner c (f_allow flags) (f_dnq flags) :: without c w
        else p :: refresh c (f_allow flags) (f_dnq flags) w, false, []).
Proof.
  intros ND Epc Hq. unfold add_owner.
  destruct (find_owner (p :: w) c) as [o|] eqn:Ef.
  - apply find_owner_some in Ef. destruct Ef as [_ Eo]. cbn [is_nil]. rewrite has_flag_replace.
    destruct (f_replace flags).
    + rewrite unlink_without by exact ND. simpl. unfold is at 1. rewrite Epc. simpl. rewrite set_flags_eq, Eo. reflexivity.
    + rewrite refresh_first_refresh by exact ND. simpl. unfold is at 1. rewrite Epc. reflexivity.
  - apply find_owner_none in Ef. rewrite queued_cons, Epc, Hq in Ef. discriminate.
Qed.

(* membership after the usual list surgery *)
Lemma queued_without c x w : queued x (without c w) = queued x w && negb (x =? c).
Proof.
  destruct (queued x (without c w)) eqn:E.
  - apply queued_in in E. apply qconns_without in E. destruct E as [E Hne].
    apply queued_in in E. rewrite E. apply N.eqb_neq in Hne. rewrite Hne. reflexivity.
  - destruct (queued x w) eqn:E2; [|reflexivity]. destruct (N.eqb_spec x c) as [->|Hne]; [reflexivity|].
    exfalso. apply queued_false in E. apply E. apply qconns_without. split; [apply queued_in; exact E2 | exact Hne].
Qed.

Lemma queued_refresh c a d x w : queued x (refresh c a d w) = queued x w.
Proof.
  destruct (queued x (refresh c a d w)) eqn:E.
  - apply queued_in in E. rewrite qconns_refresh in E. apply queued_in in E. auto.
  - apply queued_false in E. rewrite qconns_refresh in E. apply queued_false in E. auto.
Qed.

Lemma queued_app x w o : queued x (w ++ [o]) = queued x w || (o_conn o =? x).
Proof. unfold queued. rewrite existsb_app. simpl. rewrite orb_false_r. reflexivity. Qed.

Lemma nodup_cons_notin c w : NoDup (qconns w) -> NoDup (c :: qconns (without c w)).
Proof.
  intros ND. constructor; [|apply nodup_without; exact ND]. intros H. apply qconns_without in H. tauto.
Qed.

Lemma conn_unique cs x y : NoDup (ids cs) -> In x cs -> In y cs -> c_id x = c_id y -> x = y.
Proof.
  intros ND Hx Hy E. assert (H1 := in_find_conn cs x ND Hx). assert (H2 := in_find_conn cs y ND Hy).
  rewrite E in H1. congruence.
Qed.

Lemma member_active b k x : inv b -> In x (b_conns b) -> queued (c_id x) (mget (b_services b) k) = true -> c_active x = true.
Proof.
  intros I Hx Hq. destruct (inv_members b I k (c_id x) Hq) as [y [Hy [E Ha]]].
  rewrite <- (conn_unique _ _ _ (inv_ids b I) Hy Hx E). exact Ha.
Qed.

(* the three ways a connection's services_owned may follow a change of the queue of [k] *)
Lemma tracks_general b k q' g : inv b ->
  (forall x, In x (b_conns b) ->
     (queued (c_id x) q' = queued (c_id x) (mget (b_services b) k) /\ g x = x) \/
     (queued (c_id x) (mget (b_services b) k) = false /\ queued (c_id x) q' = true /\ c_active x = true /\
      g x = mkConn (c_id x) (c_active x) (c_match x) (c_owned x ++ [k])) \/
     (queued (c_id x) q' = false /\ c_active x = true /\
      g x = mkConn (c_id x) (c_active x) (c_match x) (remove_last k (c_owned x)))) ->
  forall x, In x (b_conns b) -> owned_tracks k q' x (g x).
Proof.
  intros I H x Hx. destruct (inv_owned b I x Hx) as [ND Hk].
  destruct (H x Hx) as [[E ->]|[[E1 [E2 [Ea ->]]]|[E2 [Ea ->]]]].
  - eapply tracks_id; [exact ND | apply Hk | exact E].
  - eapply tracks_add; [exact ND | apply Hk | exact E1 | exact E2 | exact Ea].
  - eapply tracks_del; [exact ND | apply Hk | exact E2 | exact Ea].
Qed.

Lemma finish b s name q' g ss' cs' es code c :
  inv b -> R b s -> same_shape g -> cs' = map g (b_conns b) ->
  upd_law (b_services b) ss' (KW name) q' -> NoDup (keys ss') -> (q' = [] \/ qwf q') ->
  (forall c, queued c q' = true -> exists x, In x (b_conns b) /\ c_id x = c /\ c_active x = true) ->
  requestable name = true ->
  (forall x, In x (b_conns b) -> owned_tracks (KW name) q' x (g x)) ->
  sdeliver (map abs_conn (b_conns b)) (es ++ [EUni c (MReply code)]) = deliver cs' (es ++ [EUni c (MReply code)]) /\
  inv (with_services b cs' ss') /\
  R (with_services b cs' ss') (with_names s (map abs_conn (b_conns b)) (sset (s_names s) (KW name) q')).
Proof.
  intros I Rr Hg -> Hu ND Hq Hm Hreq Ht.
  destruct (update_preserves b s name q' g ss' I Rr Hg Hu ND Hq Hm Hreq Ht) as [I' R'].
  split; [|split].
  - rewrite deliver_same_shape by exact Hg. apply sdeliver_abs.
  - exact I'.
  - rewrite <- (R_conns b s Rr). exact R'.
Qed.

Lemma signals_same k a b : (a =? b) = true -> ownership_signals k (Some a) (Some b) = [].
Proof. intros E. unfold ownership_signals. simpl. rewrite E. reflexivity. Qed.

Lemma signals_change k a b : (a =? b) = false ->
  ownership_signals k (Some a) (Some b) = [EUni a (MLost k); EBcast (MNOC k (Some a) (Some b)); EUni b (MAcquired k)].
Proof. intros E. unfold ownership_signals. simpl. rewrite E. reflexivity. Qed.

Lemma signals_gone k a : ownership_signals k (Some a) None = [EUni a (MLost k); EBcast (MNOC k (Some a) None)].
Proof. reflexivity. Qed.

Lemma request_code_cons p w c flags :
  request_code (p :: w) c flags =
  if o_conn p =? c then 4 else if o_allow p && f_replace flags then 1 else if f_dnq flags then 3 else 2.
Proof. reflexivity. Qed.

Lemma primary_cons p w : primary (p :: w) = Some (o_conn p).
Proof. reflexivity. Qed.

Lemma nodup_qconns_cons p w : NoDup (qconns (p :: w)) -> queued (o_conn p) w = false /\ NoDup (qconns w).
Proof. intros ND. inversion ND. subst. split; [apply queued_false; assumption | assumption]. Qed.

(* every branch of bus_registry_acquire_service changes services_owned of the caller and of the old
   primary owner only, in one of these ways *)
Definition G (c p : N) (k : key) (c_was c_is p_removed : bool) (x : conn) : conn :=
  let x1 := if c_is then (if c_was then x else g_add c k x) else (if c_was then g_del c k x else x) in
  if p_removed then g_del p k x1 else x1.

Lemma G_shape c p k a b d : same_shape (G c p k a b d).
Proof.
  unfold G. destruct a, b, d; try apply id_shape; try apply g_add_shape; try apply g_del_shape;
    try (apply (comp_shape (g_del p k) (g_add c k)); [apply g_del_shape | apply g_add_shape]);
    try (apply (comp_shape (g_del p k) (g_del c k)); apply g_del_shape);
    try (apply (comp_shape (g_del p k) (fun x => x)); [apply g_del_shape | apply id_shape]).
Qed.

Ltac pick_disj :=
  first [ solve [left; split; reflexivity]
        | solve [right; left; repeat split; auto]
        | solve [right; right; repeat split; auto] ].

Lemma tracks_request b k cn p w q' c_is p_removed :
  inv b -> In cn (b_conns b) -> c_active cn = true -> mget (b_services b) k = p :: w ->
  NoDup (qconns (p :: w)) -> (o_conn p =? c_id cn) = false ->
  (forall x, queued x q' = if x =? c_id cn then c_is else if x =? o_conn p then negb p_removed else queued x w) ->
  forall x, In x (b_conns b) -> owned_tracks k q' x (G (c_id cn) (o_conn p) k (queued (c_id cn) w) c_is p_removed x).
Proof.
  intros I Hcn Hact Hmg ND Epc Hq'. apply tracks_general; [exact I|]. intros x Hx.
  rewrite Hmg, Hq', queued_cons. destruct (nodup_qconns_cons p w ND) as [Hpw _].
  assert (Ecp : (c_id cn =? o_conn p) = false) by (rewrite N.eqb_sym; exact Epc).
  unfold G, g_add, g_del.
  destruct (c_id x =? c_id cn) eqn:E1.
  - apply N.eqb_eq in E1. assert (x = cn) by (eapply conn_unique; eauto; apply inv_ids; exact I). subst x.
    rewrite Epc. cbn [orb]. rewrite ?N.eqb_refl.
    destruct (queued (c_id cn) w) eqn:Eq, c_is, p_removed; cbn [c_id]; rewrite ?Ecp, ?N.eqb_refl; pick_disj.
  - assert (E1' : (c_id cn =? c_id x) = false) by (rewrite N.eqb_sym; exact E1).
    destruct (c_id x =? o_conn p) eqn:E2.
    + assert (E2' : (o_conn p =? c_id x) = true) by (rewrite N.eqb_sym; exact E2). rewrite E2'. cbn [orb].
      assert (Hax : c_active x = true).
      { apply (member_active b k x I Hx). rewrite Hmg, queued_cons, E2'. reflexivity. }
      destruct (queued (c_id cn) w) eqn:Eq, c_is, p_removed; cbn [c_id negb]; rewrite ?E1, ?E2; pick_disj.
    + assert (E2' : (o_conn p =? c_id x) = false) by (rewrite N.eqb_sym; exact E2). rewrite E2'. cbn [orb].
      destruct (queued (c_id cn) w) eqn:Eq, c_is, p_removed; cbn [c_id]; rewrite ?E1, ?E2; pick_disj.
Qed.

Lemma finish_request b s name cn p w q' c_is p_removed ss' cs' es code :
  inv b -> R b s -> In cn (b_conns b) -> c_active cn = true -> requestable name = true ->
  lookup (b_services b) (KW name) = Some (p :: w) -> NoDup (qconns (p :: w)) -> (o_conn p =? c_id cn) = false ->
  cs' = map (G (c_id cn) (o_conn p) (KW name) (queued (c_id cn) w) c_is p_removed) (b_conns b) ->
  upd_law (b_services b) ss' (KW name) q' -> NoDup (keys ss') -> qwf q' ->
  (forall x, queued x q' = if x =? c_id cn then c_is else if x =? o_conn p then negb p_removed else queued x w) ->
  sdeliver (map abs_conn (b_conns b)) (es ++ [EUni (c_id cn) (MReply code)]) = deliver cs' (es ++ [EUni (c_id cn) (MReply code)]) /\
  inv (with_services b cs' ss') /\
  R (with_services b cs' ss') (with_names s (map abs_conn (b_conns b)) (sset (s_names s) (KW name) q')).
Proof.
  intros I Rr Hcn Hact Hreq El ND Epc Hcs Hu NDk Hq Hmem.
  assert (Hmg : mget (b_services b) (KW name) = p :: w) by (unfold mget; rewrite El; reflexivity).
  eapply finish; eauto.
  - apply G_shape.
  - intros x Hx. rewrite Hmem in Hx. destruct (x =? c_id cn) eqn:E1.
    + apply N.eqb_eq in E1. subst x. exists cn. auto.
    + apply (inv_members b I (KW name)). rewrite Hmg, queued_cons. destruct (x =? o_conn p) eqn:E2.
      * apply N.eqb_eq in E2. subst x. rewrite N.eqb_refl. reflexivity.
      * rewrite Hx. apply orb_true_r.
  - apply tracks_request; auto.
Qed.

Lemma find_owner_queued q c : match find_owner q c with Some _ => queued c q = true | None => queued c q = false end.
Proof.
  destruct (find_owner q c) eqn:E.
  - destruct (queued c q) eqn:E2; [reflexivity|]. apply find_owner_none in E2. congruence.
  - apply find_owner_none. exact E.
Qed.

Lemma without_cons_ne c p w : (o_conn p =? c) = false -> without c (p :: w) = p :: without c w.
Proof. intros E. unfold without. simpl. unfold is at 1. rewrite E. reflexivity. Qed.

Lemma qwf_head_without c p w : NoDup (qconns (p :: w)) -> no_dnq w -> qwf (p :: without c w).
Proof.
  intros ND Hd. destruct (nodup_qconns_cons p w ND) as [Hpw NDw]. repeat split; [discriminate | | apply no_dnq_without; exact Hd].
  simpl. constructor; [|apply nodup_without; exact NDw].
  intros H. apply qconns_without in H. destruct H as [H _]. apply queued_in in H. congruence.
Qed.

Lemma qwf_jump c a p w : NoDup (qconns (p :: w)) -> no_dnq w -> (o_conn p =? c) = false ->
  qwf (p :: mkOwner c a false :: without c w).
Proof.
  intros ND Hd Epc. destruct (nodup_qconns_cons p w ND) as [Hpw NDw]. repeat split; [discriminate | |].
  - simpl. constructor.
    + simpl. intros [H|H]; [apply N.eqb_neq in Epc; congruence|]. apply qconns_without in H. destruct H as [H _]. apply queued_in in H. congruence.
    + apply nodup_cons_notin. exact NDw.
  - simpl. intros o [<-|H]; [reflexivity | apply (no_dnq_without c w Hd); exact H].
Qed.

Lemma qwf_refresh c a p w : NoDup (qconns (p :: w)) -> no_dnq w -> qwf (p :: refresh c a false w).
Proof.
  intros ND Hd. repeat split; [discriminate | | apply no_dnq_refresh; exact Hd].
  simpl. rewrite qconns_refresh. exact ND.
Qed.

Lemma qwf_append c a p w : NoDup (qconns (p :: w)) -> no_dnq w -> (o_conn p =? c) = false -> queued c w = false ->
  qwf (p :: w ++ [mkOwner c a false]).
Proof.
  intros ND Hd Epc Hq. destruct (nodup_qconns_cons p w ND) as [Hpw NDw]. repeat split; [discriminate | |].
  - simpl. unfold qconns. rewrite map_app. simpl. constructor.
    + rewrite in_app_iff. simpl. intros [H|[H|[]]]; [apply queued_in in H; congruence | apply N.eqb_neq in Epc; congruence].
    + apply nodup_app_new; [exact NDw | apply queued_false; exact Hq].
  - simpl. intros o H. apply in_app_iff in H. destruct H as [H|[<-|[]]]; [apply Hd; exact H | reflexivity].
Qed.

Lemma qwf_replaced c a d p w : NoDup (qconns (p :: w)) -> no_dnq w -> qwf (mkOwner c a d :: without c w).
Proof.
  intros ND Hd. destruct (nodup_qconns_cons p w ND) as [Hpw NDw]. repeat split; [discriminate | | apply no_dnq_without; exact Hd].
  apply nodup_cons_notin. exact NDw.
Qed.

Lemma qwf_swapped c a d p w : NoDup (qconns (p :: w)) -> no_dnq w -> (o_conn p =? c) = false -> o_dnq p = false ->
  qwf (mkOwner c a d :: p :: without c w).
Proof.
  intros ND Hd Epc Hp. destruct (nodup_qconns_cons p w ND) as [Hpw NDw]. repeat split; [discriminate | |].
  - simpl. constructor.
    + simpl. intros [H|H]; [apply N.eqb_neq in Epc; congruence|]. apply qconns_without in H. tauto.
    + constructor; [|apply nodup_without; exact NDw]. intros H. apply qconns_without in H. destruct H as [H _]. apply queued_in in H. congruence.
  - simpl. intros o [<-|H]; [exact Hp | apply (no_dnq_without c w Hd); exact H].
Qed.

(* ---- RequestName ------------------------------------------------------------------------------------ *)
Lemma request_sim b s c name flags ord : inv b -> R b s ->
  let (b', o) := step b (EvRequest c name flags) in
  let (s', o') := spec_step as_implemented s (EvRequest c name flags) ord in
  o' = o /\ inv b' /\ R b' s'.
Proof.
  intros I Rr. unfold step, spec_step. rewrite (R_conns b s Rr), sfind_abs.
  destruct (find_conn (b_conns b) c) as [cn|] eqn:Ef; simpl; [|auto].
  destruct (find_conn_in _ _ _ Ef) as [Hin Hid]. subst c.
  destruct (c_active cn) eqn:Eact; simpl; [|auto].
  unfold acquire_service. rewrite name_checks.
  destruct (negb (requestable name)) eqn:Ereq; [auto|].
  apply negb_false_iff in Ereq.
  rewrite (R_limit b s Rr), (held_owned b s cn I Rr Hin).
  rewrite (R_names b s Rr). unfold mget.
  assert (Hholds : match lookup (b_services b) (KW name) with
                   | Some q => match find_owner q (c_id cn) with Some _ => true | None => false end
                   | None => false
                   end = queued (c_id cn) match lookup (b_services b) (KW name) with Some q => q | None => [] end).
  { destruct (lookup (b_services b) (KW name)) as [q|]; [|reflexivity].
    assert (Hfq := find_owner_queued q (c_id cn)). destruct (find_owner q (c_id cn)); rewrite Hfq; reflexivity. }
  rewrite Hholds.
  destruct ((b_limit b <=? nlen (c_owned cn)) &&
            negb (queued (c_id cn) match lookup (b_services b) (KW name) with Some q => q | None => [] end)) eqn:Elim; [auto|].
  rewrite has_flag_dnq, has_flag_replace.
  destruct (lookup (b_services b) (KW name)) as [q|] eqn:El.
  2: { (* nobody owns the name *)
    rewrite add_owner_empty.
    change (request_queue as_implemented [] (c_id cn) flags) with [mkOwner (c_id cn) (f_allow flags) (f_dnq flags)].
    change (ownership_signals (KW name) (primary []) (primary [mkOwner (c_id cn) (f_allow flags) (f_dnq flags)]))
      with [EBcast (MNOC (KW name) None (Some (c_id cn))); EUni (c_id cn) (MAcquired (KW name))].
    change (request_code [] (c_id cn) flags) with DBUS_REQUEST_NAME_REPLY_PRIMARY_OWNER.
    cbv beta iota.
    assert (Hmg : mget (b_services b) (KW name) = []) by (unfold mget; rewrite El; reflexivity).
    apply finish with (g := g_add (c_id cn) (KW name)); auto.
    - apply g_add_shape.
    - apply own_add_map. apply inv_ids; exact I.
    - apply upd_law_new; [exact El | discriminate].
    - apply nodup_keys_new; [apply inv_keys; exact I | exact El].
    - right. repeat split; [discriminate | simpl; constructor; [simpl; tauto | constructor] | intros o []].
    - intros c Hc. simpl in Hc. unfold is in Hc. simpl in Hc. rewrite orb_false_r in Hc. apply N.eqb_eq in Hc. exists cn. auto.
    - apply tracks_general; [exact I|]. intros x Hx. rewrite Hmg. unfold g_add. simpl. unfold is. simpl. rewrite orb_false_r.
      rewrite (N.eqb_sym (c_id cn) (c_id x)). destruct (c_id x =? c_id cn) eqn:E.
      + apply N.eqb_eq in E. assert (x = cn) by (eapply conn_unique; eauto; apply inv_ids; exact I). subst x. right. left. auto.
      + left. auto. }
  destruct (qwf_cons q (inv_q b I _ _ El)) as [p [w [-> [ND Hd]]]].
  assert (Hmg : mget (b_services b) (KW name) = p :: w) by (unfold mget; rewrite El; reflexivity).
  assert (Hlk : lookup (b_services b) (KW name) <> None) by (rewrite El; discriminate).
  assert (NDk := inv_keys b I). assert (NDi := inv_ids b I).
  rewrite request_queue_impl by exact Hd. cbn zeta.
  rewrite request_code_cons.
  destruct (nodup_qconns_cons p w ND) as [Hpw NDw].
  destruct (o_conn p =? c_id cn) eqn:Epc.
  - (* the caller is the primary owner: flags updated *)
    rewrite set_flags_eq, !primary_cons. cbn [o_conn]. rewrite signals_same by exact Epc.
    change DBUS_REQUEST_NAME_REPLY_ALREADY_OWNER with 4. cbv beta iota.
    apply N.eqb_eq in Epc. rewrite Epc.
    apply finish with (g := fun x => x); auto.
    + apply id_shape.
    + symmetry. apply map_id.
    + apply upd_law_set; [exact Hlk | discriminate].
    + rewrite keys_set_queue. exact NDk.
    + right. repeat split; [discriminate | rewrite <- Epc; exact ND | exact Hd].
    + intros c Hc. apply (inv_members b I (KW name)). rewrite Hmg. rewrite queued_cons in *. cbn [o_conn] in Hc. rewrite Epc. exact Hc.
    + apply tracks_general; [exact I|]. intros x Hx. left. split; [|reflexivity]. rewrite Hmg, !queued_cons. cbn [o_conn]. rewrite Epc. reflexivity.
  - rewrite !primary_cons.
    assert (Ecp : (c_id cn =? o_conn p) = false) by (rewrite N.eqb_sym; exact Epc).
    assert (Hfo := find_owner_queued (p :: w) (c_id cn)). rewrite queued_cons, Epc in Hfo. cbn [orb] in Hfo.
    destruct (o_allow p && f_replace flags) eqn:Ear.
    + (* the caller replaces the primary owner *)
      apply andb_true_iff in Ear. destruct Ear as [Ea Er]. rewrite Ea, Er. cbn [negb]. rewrite !andb_false_r. cbn [orb].
      change DBUS_REQUEST_NAME_REPLY_PRIMARY_OWNER with 1.
      assert (Hadd : add_owner (KW name) (p :: w) (c_id cn) flags =
                     Some (p :: mkOwner (c_id cn) (f_allow flags) (f_dnq flags) :: without (c_id cn) w, negb (queued (c_id cn) w), [])).
      { destruct (queued (c_id cn) w) eqn:Eq.
        - rewrite add_owner_old by assumption. rewrite Er. reflexivity.
        - rewrite add_owner_new by (rewrite queued_cons, Epc, Eq; reflexivity). rewrite Er, without_notin by exact Eq. reflexivity. }
      rewrite Hadd. unfold remove_owner, swap_owner, handover. rewrite N.eqb_refl. cbn [o_conn app]. rewrite N.eqb_refl.
      destruct (o_dnq p) eqn:Edp; rewrite !primary_cons; cbn [o_conn]; rewrite signals_change by exact Epc; cbv beta iota.
      * apply finish_request with (p := p) (w := w) (c_is := true) (p_removed := true); auto.
        -- unfold G. destruct (queued (c_id cn) w); cbn [negb].
           ++ apply own_del_map. exact NDi.
           ++ rewrite own_add_map by exact NDi. rewrite own_del_map by (rewrite ids_map_same_shape; [exact NDi | apply g_add_shape]).
              apply map_map.
        -- apply upd_law_put; assumption.
        -- apply nodup_put_queue. exact NDk.
        -- eapply qwf_replaced; eassumption.
        -- intros x. rewrite queued_cons, queued_without. cbn [o_conn negb]. rewrite (N.eqb_sym (c_id cn) x).
           destruct (x =? c_id cn) eqn:E1; [reflexivity|]. cbn [orb negb]. rewrite andb_true_r.
           destruct (N.eqb_spec x (o_conn p)) as [->|Hne]; [exact Hpw | reflexivity].
      * apply finish_request with (p := p) (w := w) (c_is := true) (p_removed := false); auto.
        -- unfold G. destruct (queued (c_id cn) w); cbn [negb].
           ++ symmetry. apply map_id.
           ++ apply own_add_map. exact NDi.
        -- apply upd_law_set; [exact Hlk | discriminate].
        -- rewrite keys_set_queue. exact NDk.
        -- apply qwf_swapped; assumption.
        -- intros x. rewrite !queued_cons, queued_without. cbn [o_conn negb]. rewrite (N.eqb_sym (c_id cn) x), (N.eqb_sym (o_conn p) x).
           destruct (x =? c_id cn) eqn:E1; [reflexivity|]. cbn [orb negb]. rewrite andb_true_r.
           destruct (x =? o_conn p); reflexivity.
    + destruct (f_dnq flags) eqn:Ed.
      * (* cannot replace, DO_NOT_QUEUE: the caller is not (any more) in the queue *)
        assert (Hc1 : (true && negb (o_allow p) || true && negb (f_replace flags)) = true)
          by (destruct (o_allow p), (f_replace flags); auto; discriminate).
        rewrite Hc1. rewrite !primary_cons. rewrite signals_same by apply N.eqb_refl.
        change DBUS_REQUEST_NAME_REPLY_EXISTS with 3.
        destruct (find_owner (p :: w) (c_id cn)) eqn:Efo; cbv beta iota.
        -- rewrite unlink_without by exact ND. rewrite without_cons_ne by exact Epc.
           apply finish_request with (p := p) (w := w) (c_is := false) (p_removed := false); auto.
           ++ rewrite Hfo. unfold G. apply own_del_map. exact NDi.
           ++ apply upd_law_set; [exact Hlk | discriminate].
           ++ rewrite keys_set_queue. exact NDk.
           ++ apply qwf_head_without; assumption.
           ++ intros x. rewrite queued_cons, queued_without. cbn [negb].
              destruct (N.eqb_spec x (c_id cn)) as [->|Hne]; [rewrite Epc, andb_false_r; reflexivity|].
              rewrite andb_true_r. rewrite (N.eqb_sym (o_conn p) x). destruct (x =? o_conn p) eqn:E2; [reflexivity | reflexivity].
        -- apply finish_request with (p := p) (w := w) (c_is := false) (p_removed := false); auto.
           ++ rewrite Hfo. unfold G. symmetry. apply map_id.
           ++ rewrite without_notin by exact Hfo. apply upd_law_same; [exact El | discriminate].
           ++ apply qwf_head_without; assumption.
           ++ intros x. rewrite queued_cons, queued_without. cbn [negb].
              destruct (N.eqb_spec x (c_id cn)) as [->|Hne]; [rewrite Epc, andb_false_r; reflexivity|].
              rewrite andb_true_r. rewrite (N.eqb_sym (o_conn p) x). destruct (x =? o_conn p) eqn:E2; [reflexivity | reflexivity].
      * (* cannot replace, no DO_NOT_QUEUE: the caller waits *)
        assert (Hc2 : (negb false && (negb (f_replace flags) || negb (o_allow p))) = true)
          by (destruct (o_allow p), (f_replace flags); auto; discriminate).
        cbn [andb orb]. rewrite Hc2.
        change DBUS_REQUEST_NAME_REPLY_IN_QUEUE with 2.
        destruct (queued (c_id cn) w) eqn:Eq.
        -- rewrite add_owner_old by assumption. rewrite Ed.
           destruct (f_replace flags) eqn:Er; rewrite !primary_cons; rewrite signals_same by apply N.eqb_refl; cbv beta iota.
           ++ apply finish_request with (p := p) (w := w) (c_is := true) (p_removed := false); auto.
              ** rewrite Eq. unfold G. symmetry. apply map_id.
              ** apply upd_law_set; [exact Hlk | discriminate].
              ** rewrite keys_set_queue. exact NDk.
              ** apply qwf_jump; assumption.
              ** intros x. rewrite !queued_cons, queued_without. cbn [o_conn negb].
                 rewrite (N.eqb_sym (c_id cn) x), (N.eqb_sym (o_conn p) x).
                 destruct (x =? c_id cn) eqn:E1; [apply orb_true_r|]. destruct (x =? o_conn p); [reflexivity|]. cbn [orb negb]. apply andb_true_r.
           ++ apply finish_request with (p := p) (w := w) (c_is := true) (p_removed := false); auto.
              ** rewrite Eq. unfold G. symmetry. apply map_id.
              ** apply upd_law_set; [exact Hlk | discriminate].
              ** rewrite keys_set_queue. exact NDk.
              ** apply qwf_refresh; assumption.
              ** intros x. rewrite !queued_cons, queued_refresh. rewrite (N.eqb_sym (o_conn p) x).
                 destruct (N.eqb_spec x (c_id cn)) as [->|Hne]; [rewrite Eq; apply orb_true_r|]. destruct (x =? o_conn p); reflexivity.
        -- rewrite add_owner_new by (rewrite queued_cons, Epc, Eq; reflexivity). rewrite Ed.
           destruct (f_replace flags) eqn:Er; rewrite !primary_cons; rewrite signals_same by apply N.eqb_refl; cbv beta iota.
           ++ rewrite without_notin by exact Eq.
              apply finish_request with (p := p) (w := w) (c_is := true) (p_removed := false); auto.
              ** rewrite Eq. unfold G. apply own_add_map. exact NDi.
              ** apply upd_law_set; [exact Hlk | discriminate].
              ** rewrite keys_set_queue. exact NDk.
              ** rewrite <- (without_notin (c_id cn) w) at 1 by exact Eq. apply qwf_jump; assumption.
              ** intros x. rewrite !queued_cons. cbn [o_conn].
                 rewrite (N.eqb_sym (c_id cn) x), (N.eqb_sym (o_conn p) x).
                 destruct (x =? c_id cn) eqn:E1; [apply orb_true_r|]. destruct (x =? o_conn p); reflexivity.
           ++ apply finish_request with (p := p) (w := w) (c_is := true) (p_removed := false); auto.
              ** rewrite Eq. unfold G. apply own_add_map. exact NDi.
              ** apply upd_law_set; [exact Hlk | discriminate].
              ** rewrite keys_set_queue. exact NDk.
              ** apply qwf_append; assumption.
              ** intros x. simpl app. rewrite !queued_cons, queued_app. cbn [o_conn].
                 rewrite (N.eqb_sym (c_id cn) x), (N.eqb_sym (o_conn p) x).
                 destruct (x =? c_id cn) eqn:E1; [rewrite !orb_true_r; reflexivity|]. rewrite orb_false_r. destruct (x =? o_conn p); reflexivity.
Qed.

(* ---- giving up one well-known name (ReleaseName, and each round of the disconnect loop) ------------- *)
Lemma queued_nonempty c q : queued c q = true -> q <> [].
Proof. destruct q; [discriminate | discriminate]. Qed.

Lemma release_core b s cn name :
  inv b -> R b s -> In cn (b_conns b) -> c_active cn = true ->
  queued (c_id cn) (mget (b_services b) (KW name)) = true ->
  let c := c_id cn in let k := KW name in let q := mget (b_services b) k in
  remove_owner k q c = Some (without c q, ownership_signals k (primary q) (primary (without c q))) /\
  inv (with_services b (own_del (b_conns b) c k) (put_queue (b_services b) k (without c q))) /\
  R (with_services b (own_del (b_conns b) c k) (put_queue (b_services b) k (without c q)))
    (with_names s (s_conns s) (sset (s_names s) k (without c q))).
Proof.
  intros I Rr Hcn Hact Hq. cbn zeta.
  unfold mget in *. destruct (lookup (b_services b) (KW name)) as [q|] eqn:El; [|discriminate].
  assert (Hreq := inv_reserved b I _ _ El).
  destruct (qwf_cons q (inv_q b I _ _ El)) as [p [w [-> [ND Hd]]]].
  destruct (nodup_qconns_cons p w ND) as [Hpw NDw].
  assert (Hlk : lookup (b_services b) (KW name) <> None) by (rewrite El; discriminate).
  assert (Hmg : mget (b_services b) (KW name) = p :: w) by (unfold mget; rewrite El; reflexivity).
  assert (NDk := inv_keys b I). assert (NDi := inv_ids b I).
  assert (Hgen : forall q', (q' = [] \/ qwf q') -> (forall x, queued x q' = queued x (p :: w) && negb (x =? c_id cn)) ->
     inv (with_services b (own_del (b_conns b) (c_id cn) (KW name)) (put_queue (b_services b) (KW name) q')) /\
     R (with_services b (own_del (b_conns b) (c_id cn) (KW name)) (put_queue (b_services b) (KW name) q'))
       (with_names s (s_conns s) (sset (s_names s) (KW name) q'))).
  { intros q' Hq' Hmem. rewrite own_del_map by exact NDi.
    apply update_preserves; auto.
    - apply g_del_shape.
    - apply upd_law_put; assumption.
    - apply nodup_put_queue. exact NDk.
    - intros x Hx. rewrite Hmem in Hx. apply andb_true_iff in Hx. destruct Hx as [Hx _].
      apply (inv_members b I (KW name)). rewrite Hmg. exact Hx.
    - apply tracks_general; [exact I|]. intros x Hx. rewrite Hmg, Hmem. unfold g_del.
      destruct (c_id x =? c_id cn) eqn:E.
      + apply N.eqb_eq in E. assert (x = cn) by (eapply conn_unique; eauto). subst x.
        right. right. rewrite andb_false_r. auto.
      + left. rewrite andb_true_r. auto. }
  rewrite queued_cons in Hq. unfold remove_owner.
  destruct (o_conn p =? c_id cn) eqn:Epc.
  - (* the primary owner gives the name up *)
    apply N.eqb_eq in Epc.
    assert (Hw : without (c_id cn) (p :: w) = w).
    { unfold without. simpl. unfold is at 1. rewrite Epc, N.eqb_refl. simpl. apply without_notin. rewrite <- Epc. exact Hpw. }
    rewrite Hw. split.
    + f_equal. f_equal. rewrite primary_cons, Epc. unfold handover. destruct w as [|n w']; [reflexivity|].
      rewrite primary_cons. rewrite signals_change; [reflexivity|].
      rewrite <- Epc. apply N.eqb_neq. intros E. rewrite queued_cons, <- E, N.eqb_refl in Hpw. discriminate.
    + apply Hgen.
      * destruct w as [|n w']; [left; reflexivity | right]. repeat split; [discriminate | exact NDw | intros o Ho; apply Hd; simpl; auto].
      * intros x. rewrite queued_cons, Epc. rewrite (N.eqb_sym (c_id cn) x). destruct (N.eqb_spec x (c_id cn)) as [->|Hne].
        -- cbn [orb negb]. rewrite andb_false_r. rewrite <- Epc. exact Hpw.
        -- cbn [orb negb]. rewrite andb_true_r. reflexivity.
  - (* a waiting connection leaves the queue *)
    cbn [orb] in Hq.
    assert (Hfo := find_owner_queued (p :: w) (c_id cn)). rewrite queued_cons, Epc, Hq in Hfo. cbn [orb] in Hfo.
    destruct (find_owner (p :: w) (c_id cn)); [|discriminate].
    rewrite unlink_without by exact ND. rewrite without_cons_ne by exact Epc. split.
    + rewrite !primary_cons. rewrite signals_same by apply N.eqb_refl. reflexivity.
    + apply Hgen.
      * right. apply qwf_head_without; assumption.
      * intros x. rewrite !queued_cons, queued_without. destruct (N.eqb_spec x (c_id cn)) as [->|Hne].
        -- cbn [negb]. rewrite !andb_false_r. rewrite Epc. reflexivity.
        -- cbn [negb]. rewrite !andb_true_r. reflexivity.
Qed.

Lemma with_services_same b : with_services b (b_conns b) (b_services b) = b.
Proof. destruct b; reflexivity. Qed.

(* ---- ReleaseName -------------------------------------------------------------------------------------- *)
Lemma release_sim b s c name ord : inv b -> R b s ->
  let (b', o) := step b (EvRelease c name) in
  let (s', o') := spec_step as_implemented s (EvRelease c name) ord in
  o' = o /\ inv b' /\ R b' s'.
Proof.
  intros I Rr. assert (Ec := R_conns b s Rr).
  assert (Hsf : sfind (s_conns s) c = option_map abs_conn (find_conn (b_conns b) c)) by (rewrite Ec; apply sfind_abs).
  unfold step, spec_step. rewrite Hsf.
  destruct (find_conn (b_conns b) c) as [cn|] eqn:Ef; simpl; [|auto].
  destruct (find_conn_in _ _ _ Ef) as [Hin Hid]. subst c.
  destruct (c_active cn) eqn:Eact; simpl; [|auto].
  unfold release_service. rewrite name_checks.
  destruct (negb (requestable name)) eqn:Ereq; [auto|].
  rewrite (R_names b s Rr). unfold mget.
  destruct (lookup (b_services b) (KW name)) as [q|] eqn:El.
  2: { rewrite with_services_same. simpl. auto. }
  destruct (qwf_cons q (inv_q b I _ _ El)) as [p [w [-> _]]].
  assert (Hfo := find_owner_queued (p :: w) (c_id cn)).
  destruct (find_owner (p :: w) (c_id cn)) eqn:Efo.
  - rewrite Hfo. cbn [negb].
    assert (Hq : queued (c_id cn) (mget (b_services b) (KW name)) = true) by (unfold mget; rewrite El; exact Hfo).
    destruct (release_core b s cn name I Rr Hin Eact Hq) as [Hrem [I' R']].
    unfold mget in Hrem, I', R'. rewrite El in Hrem, I', R'. rewrite Hrem.
    change DBUS_RELEASE_NAME_REPLY_RELEASED with 1. cbv beta iota.
    split; [|split; assumption].
    rewrite own_del_map by (apply inv_ids; exact I). rewrite deliver_same_shape by apply g_del_shape. rewrite Ec. apply sdeliver_abs.
  - rewrite Hfo. cbn [negb]. rewrite with_services_same. simpl. auto.
Qed.

(* ---- a new connection ----------------------------------------------------------------------------------- *)
Lemma not_queued_unknown b k c : inv b -> ~ In c (ids (b_conns b)) -> queued c (mget (b_services b) k) = false.
Proof.
  intros I Hn. destruct (queued c (mget (b_services b) k)) eqn:E; [|reflexivity].
  destruct (inv_members b I k c E) as [x [Hx [Hid _]]]. exfalso. apply Hn. rewrite <- Hid. apply in_map. exact Hx.
Qed.

Lemma next_fresh b : inv b -> ~ In (b_next b) (ids (b_conns b)).
Proof.
  intros I H. apply in_map_iff in H. destruct H as [x [E Hx]]. assert (Hl := inv_next b I x Hx). rewrite E in Hl. lia.
Qed.

Lemma connect_sim b s ord : inv b -> R b s ->
  let (b', o) := step b EvConnect in
  let (s', o') := spec_step as_implemented s EvConnect ord in
  o' = o /\ inv b' /\ R b' s'.
Proof.
  intros I Rr. simpl. split; [reflexivity|]. split.
  - constructor; simpl.
    + apply inv_keys; exact I.
    + apply (inv_q b I).
    + unfold ids. rewrite map_app. simpl. apply nodup_app_new; [apply inv_ids; exact I | apply next_fresh; exact I].
    + intros x Hx. apply in_app_iff in Hx. destruct Hx as [Hx|[<-|[]]]; [assert (H := inv_next b I x Hx); lia | simpl; lia].
    + intros x Hx. apply in_app_iff in Hx. destruct Hx as [Hx|[<-|[]]]; [apply (inv_owned b I); assumption|].
      simpl. split; [constructor|]. intros k. rewrite (not_queued_unknown b k (b_next b) I (next_fresh b I)). split; [tauto | discriminate].
    + intros k c Hc. destruct (inv_members b I k c Hc) as [x [Hx H]]. exists x. split; [apply in_app_iff; auto | exact H].
    + apply (inv_unique b I).
    + intros x Hx. apply in_app_iff in Hx. destruct Hx as [Hx|[<-|[]]]; [apply (inv_active b I); assumption | reflexivity].
    + apply (inv_reserved b I).
  - constructor; simpl.
    + rewrite (R_conns b s Rr), map_app, (R_next b s Rr). reflexivity.
    + apply R_names; exact Rr.
    + rewrite (R_next b s Rr). reflexivity.
    + apply R_limit; exact Rr.
    + apply R_skeys with (b := b); exact Rr.
Qed.

(* ---- changes of the connection table that leave names alone -------------------------------------------------- *)
Lemma inv_map_conns b h :
  (forall x, c_id (h x) = c_id x /\ c_active (h x) = c_active x /\ c_owned (h x) = c_owned x) ->
  inv b -> inv (with_services b (map h (b_conns b)) (b_services b)).
Proof.
  intros Hh I. constructor; simpl.
  - apply inv_keys; exact I.
  - apply (inv_q b I).
  - unfold ids. rewrite map_map. rewrite (map_ext _ c_id) by (intros x; apply Hh). apply inv_ids; exact I.
  - intros hx Hx. apply in_map_iff in Hx. destruct Hx as [x [<- Hx]]. destruct (Hh x) as [-> _]. apply (inv_next b I); assumption.
  - intros hx Hx. apply in_map_iff in Hx. destruct Hx as [x [<- Hx]]. destruct (Hh x) as [-> [_ ->]]. apply (inv_owned b I); assumption.
  - intros k c Hc. destruct (inv_members b I k c Hc) as [x [Hx [E Ha]]]. exists (h x). split; [apply in_map; exact Hx|].
    destruct (Hh x) as [-> [-> _]]. auto.
  - apply (inv_unique b I).
  - intros hx Hx. apply in_map_iff in Hx. destruct Hx as [x [<- Hx]]. destruct (Hh x) as [-> [-> ->]]. apply (inv_active b I); assumption.
  - apply (inv_reserved b I).
Qed.

Lemma smap_abs cs c f f' : (forall x, abs_conn (f x) = f' (abs_conn x)) ->
  smap (map abs_conn cs) c f' = map abs_conn (map (fun x => if c_id x =? c then f x else x) cs).
Proof.
  intros H. unfold smap. rewrite !map_map. apply map_ext. intros x. simpl. destruct (c_id x =? c); [symmetry; apply H | reflexivity].
Qed.

Lemma addmatch_sim b s c ord : inv b -> R b s ->
  let (b', o) := step b (EvAddMatch c) in
  let (s', o') := spec_step as_implemented s (EvAddMatch c) ord in
  o' = o /\ inv b' /\ R b' s'.
Proof.
  intros I Rr. assert (Ec := R_conns b s Rr).
  assert (Hsf : sfind (s_conns s) c = option_map abs_conn (find_conn (b_conns b) c)) by (rewrite Ec; apply sfind_abs).
  unfold step, spec_step. rewrite Hsf.
  destruct (find_conn (b_conns b) c) as [cn|] eqn:Ef; simpl; [|auto].
  destruct (c_active cn) eqn:Eact; simpl; [|auto].
  split; [reflexivity|]. rewrite upd_conn_map; [|reflexivity | apply inv_ids; exact I]. split.
  - apply inv_map_conns; [|exact I]. intros x. destruct (c_id x =? c); simpl; auto.
  - constructor; simpl.
    + rewrite Ec. apply smap_abs. reflexivity.
    + apply R_names; exact Rr.
    + apply R_next; exact Rr.
    + apply R_limit; exact Rr.
    + apply R_skeys with (b := b); exact Rr.
Qed.

(* ---- Hello ------------------------------------------------------------------------------------------------------ *)
Lemma hello_sim b s c ord : inv b -> R b s ->
  let (b', o) := step b (EvHello c) in
  let (s', o') := spec_step as_implemented s (EvHello c) ord in
  o' = o /\ inv b' /\ R b' s'.
Proof.
  intros I Rr. assert (Ec := R_conns b s Rr).
  assert (Hsf : sfind (s_conns s) c = option_map abs_conn (find_conn (b_conns b) c)) by (rewrite Ec; apply sfind_abs).
  unfold step, spec_step. rewrite Hsf.
  destruct (find_conn (b_conns b) c) as [cn|] eqn:Ef; [|simpl; auto]. cbn [option_map].
  change (sc_active (abs_conn cn)) with (c_active cn).
  destruct (find_conn_in _ _ _ Ef) as [Hin Hid]. subst c.
  destruct (c_active cn) eqn:Eact; [simpl; auto|].
  rewrite (R_names b s Rr). unfold mget.
  destruct (lookup (b_services b) (KU (c_id cn))) as [q|] eqn:El.
  { destruct (qwf_cons q (inv_q b I _ _ El)) as [p [w [-> _]]]. simpl. auto. }
  rewrite add_owner_empty. change (f_allow 0) with false. change (f_dnq 0) with false. cbv beta iota.
  change (ownership_signals (KU (c_id cn)) None (Some (c_id cn)))
    with [EBcast (MNOC (KU (c_id cn)) None (Some (c_id cn))); EUni (c_id cn) (MAcquired (KU (c_id cn)))].
  assert (NDi := inv_ids b I).
  rewrite upd_conn_map; [|reflexivity | exact NDi].
  set (H := fun x : conn => if c_id x =? c_id cn then mkConn (c_id x) true (c_match x) (c_owned x ++ [KU (c_id cn)]) else x).
  assert (Hown0 : c_owned cn = []). { assert (Ha := inv_active b I cn Hin). rewrite Eact in Ha. exact Ha. }
  assert (Hnq : forall k, queued (c_id cn) (mget (b_services b) k) = false).
  { intros k. destruct (inv_owned b I cn Hin) as [_ Hk]. destruct (queued (c_id cn) (mget (b_services b) k)) eqn:E; [|reflexivity].
    apply Hk in E. rewrite Hown0 in E. destruct E. }
  assert (Hm : forall k, mget (b_services b ++ [(KU (c_id cn), [mkOwner (c_id cn) false false])]) k =
                         if key_eqb k (KU (c_id cn)) then [mkOwner (c_id cn) false false] else mget (b_services b) k)
    by (intros k; apply mget_app_new; exact El).
  assert (HidH : forall x, c_id (H x) = c_id x) by (intros x; unfold H; destruct (c_id x =? c_id cn); reflexivity).
  split; [|split].
  - rewrite Ec. rewrite (smap_abs (b_conns b) (c_id cn) (fun x => mkConn (c_id x) true (c_match x) (c_owned x ++ [KU (c_id cn)]))) by reflexivity.
    apply sdeliver_abs.
  - constructor; simpl.
    + apply nodup_keys_new; [apply (inv_keys b I) | exact El].
    + intros k q Hl. rewrite lookup_app_new in Hl. destruct (lookup (b_services b) k) eqn:E.
      * inversion Hl. subst. apply (inv_q b I k q E).
      * destruct (key_eqb k (KU (c_id cn))); [|discriminate]. inversion Hl. subst.
        repeat split; [discriminate | simpl; constructor; [simpl; tauto | constructor] | intros o []].
    + unfold ids. rewrite map_map. rewrite (map_ext _ c_id) by exact HidH. exact NDi.
    + intros hx Hx. apply in_map_iff in Hx. destruct Hx as [x [<- Hx]]. rewrite HidH. apply (inv_next b I); assumption.
    + intros hx Hx. apply in_map_iff in Hx. destruct Hx as [x [<- Hx]]. rewrite HidH. destruct (inv_owned b I x Hx) as [ND Hk].
      unfold H. destruct (c_id x =? c_id cn) eqn:E.
      * apply N.eqb_eq in E. assert (x = cn) by (eapply conn_unique; eauto). subst x. simpl. rewrite Hown0. simpl.
        split; [constructor; [simpl; tauto | constructor]|]. intros k. rewrite Hm. destruct (key_eqb k (KU (c_id cn))) eqn:Ek.
        -- apply key_eqb_eq in Ek. subst k. simpl. unfold is. simpl. rewrite N.eqb_refl. tauto.
        -- apply key_eqb_neq in Ek. rewrite Hnq. simpl. split; [intros [Hk1|[]]; congruence | discriminate].
      * split; [exact ND|]. intros k. rewrite Hm, Hk. destruct (key_eqb k (KU (c_id cn))) eqn:Ek; [|tauto].
        apply key_eqb_eq in Ek. subst k. unfold mget. rewrite El. simpl. unfold is. simpl. rewrite N.eqb_sym, E. tauto.
    + intros k c Hc. rewrite Hm in Hc. destruct (key_eqb k (KU (c_id cn))).
      * simpl in Hc. unfold is in Hc. simpl in Hc. rewrite orb_false_r in Hc. apply N.eqb_eq in Hc. subst c.
        exists (H cn). split; [apply in_map; exact Hin|]. unfold H. rewrite N.eqb_refl. auto.
      * destruct (inv_members b I k c Hc) as [x [Hx [E Ha]]]. exists (H x). split; [apply in_map; exact Hx|].
        unfold H. destruct (c_id x =? c_id cn); simpl; auto.
    + intros c q Hl. rewrite lookup_app_new in Hl. destruct (lookup (b_services b) (KU c)) eqn:E.
      * inversion Hl. subst. apply (inv_unique b I c q E).
      * destruct (key_eqb (KU c) (KU (c_id cn))) eqn:Ek; [|discriminate]. apply key_eqb_eq in Ek. inversion Ek. inversion Hl. reflexivity.
    + intros hx Hx. apply in_map_iff in Hx. destruct Hx as [x [<- Hx]]. unfold H. destruct (c_id x =? c_id cn) eqn:E.
      * apply N.eqb_eq in E. assert (x = cn) by (eapply conn_unique; eauto). subst x. simpl. rewrite Hown0. simpl. eauto.
      * apply (inv_active b I); assumption.
    + intros s0 q Hl. rewrite lookup_app_new in Hl. destruct (lookup (b_services b) (KW s0)) eqn:E.
      * inversion Hl. subst. apply (inv_reserved b I s0 q E).
      * simpl in Hl. discriminate.
  - constructor; cbn [s_conns s_names s_next s_limit with_names with_services b_conns b_services b_next b_limit].
    + rewrite Ec. apply (smap_abs (b_conns b) (c_id cn) (fun x => mkConn (c_id x) true (c_match x) (c_owned x ++ [KU (c_id cn)]))). reflexivity.
    + intros k. rewrite sget_sset, Hm. destruct (key_eqb k (KU (c_id cn))); [reflexivity | apply (R_names b s Rr)].
    + apply R_next; exact Rr.
    + apply R_limit; exact Rr.
    + apply nodup_sset. apply R_skeys with (b := b); exact Rr.
Qed.
