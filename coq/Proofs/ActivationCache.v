(* C19, the table of activatable names: what bus_activation_reload builds is the
   specification's "first valid file for each name", and a lookup in the freshly
   built cache returns exactly that and changes nothing.  The refutation shows
   what is NOT true once files change under a live cache. *)
From DV Require Import Lib.Base Activation.Helper Activation.Cache Spec.ActivationSpecCache.
From Coq Require Import ZifyBool ZifyN ZifyNat PeanoNat.
Local Open Scope N_scope.

Definition has_name (n : bytes) (e : sentry) : bool := bytes_eqb e.(se_name) n.

Lemma lookup_name_app n a b :
  lookup_name n (a ++ b) = match lookup_name n a with Some e => Some e | None => lookup_name n b end.
Proof.
  unfold lookup_name. induction a as [|x a IH]; simpl; [reflexivity|].
  destruct (bytes_eqb (se_name x) n); [reflexivity | exact IH].
Qed.

Lemma find_app {A} (f : A -> bool) a b : find f (a ++ b) = match find f a with Some x => Some x | None => find f b end.
Proof. induction a as [|x a IH]; simpl; [reflexivity|]. destruct (f x); [reflexivity | exact IH]. Qed.

Lemma nth_some_in {A} (l : list (option A)) k x : nth k l None = Some x -> In (Some x) l.
Proof.
  intros E. rewrite <- E. apply nth_In. destruct (Nat.lt_ge_cases k (length l)) as [H|H]; [exact H|].
  rewrite nth_overflow in E by exact H. discriminate.
Qed.

Lemma lookup_file_some d f l e : lookup_file d f l = Some e -> In e l /\ se_dir e = d /\ se_file e = f.
Proof.
  unfold lookup_file. intros H. apply find_some in H. destruct H as [H1 H2].
  apply andb_true_iff in H2. destruct H2 as [H2 H3]. apply N.eqb_eq in H2. apply bytes_eqb_eq in H3. tauto.
Qed.

Lemma lookup_file_none d f l : (forall e, In e l -> se_dir e = d -> se_file e <> f) -> lookup_file d f l = None.
Proof.
  intros H. unfold lookup_file. destruct (find _ l) eqn:F; [|reflexivity].
  apply find_some in F. destruct F as [F1 F2]. apply andb_true_iff in F2. destruct F2 as [F2 F3].
  apply N.eqb_eq in F2. apply bytes_eqb_eq in F3. exfalso. eapply H; eauto.
Qed.

(* ---------------------------------------------------------------- a fresh cache while directories are being read *)
(* [P]: the valid files met so far, in order *)
Record Fresh (c : cache) (P : list sentry) : Prop := {
  fr_same : by_file c = by_name c;
  fr_lookup : forall n, lookup_name n (by_name c) = find (has_name n) P;
  fr_sub : forall e, In e (by_name c) -> In e P }.

Lemma update_file_valid c d strict fname f :
  ends_with DOT_SERVICE fname = true -> lookup_file d fname (by_file c) = None ->
  fst (update_file c d strict fname f) =
  match valid_file d strict fname f with
  | Some en => match lookup_name (se_name en) (by_name c) with
               | Some _ => c
               | None => mkCache (by_name c ++ [en]) (by_file c ++ [en])
               end
  | None => c
  end.
Proof.
  intros He Hl. unfold update_file, valid_file. rewrite He, Hl.
  destruct (parse_entry (fl_content f)) as [[[[n e] u] sy]|]; [|reflexivity].
  destruct (negb (bytes_eqb (n ++ DOT_SERVICE) fname) && strict); [reflexivity|].
  simpl. destruct (lookup_name n (by_name c)); reflexivity.
Qed.

Lemma valid_file_key d s fname f en : valid_file d s fname f = Some en -> se_dir en = d /\ se_file en = fname /\ se_mtime en = fl_mtime f.
Proof.
  unfold valid_file. destruct (ends_with DOT_SERVICE fname); [|discriminate].
  destruct (parse_entry (fl_content f)) as [[[[n e] u] sy]|]; [|discriminate].
  destruct (negb _ && s); [discriminate|]. intros H. inversion H; subst. simpl. tauto.
Qed.

Lemma valid_file_ext d s fname f en : valid_file d s fname f = Some en -> ends_with DOT_SERVICE fname = true.
Proof. unfold valid_file. destruct (ends_with DOT_SERVICE fname); [reflexivity | discriminate]. Qed.

Lemma fresh_step c P en : Fresh c P ->
  Fresh (match lookup_name (se_name en) (by_name c) with
         | Some _ => c
         | None => mkCache (by_name c ++ [en]) (by_file c ++ [en])
         end) (P ++ [en]).
Proof.
  intros F. destruct (lookup_name (se_name en) (by_name c)) as [e0|] eqn:L.
  - constructor; [apply F | | intros e He; apply in_app_iff; left; apply (fr_sub _ _ F); exact He].
    intros n. rewrite find_app, <- (fr_lookup _ _ F n).
    destruct (lookup_name n (by_name c)) eqn:L2; [reflexivity|]. simpl. unfold has_name.
    destruct (bytes_eqb (se_name en) n) eqn:E; [|reflexivity].
    apply bytes_eqb_eq in E. subst n. congruence.
  - constructor; simpl.
    + rewrite (fr_same _ _ F). reflexivity.
    + intros n. rewrite lookup_name_app, find_app, <- (fr_lookup _ _ F n).
      destruct (lookup_name n (by_name c)); reflexivity.
    + intros e He. apply in_app_iff in He. apply in_app_iff. destruct He as [He|He]; [left; apply (fr_sub _ _ F); exact He | right; exact He].
Qed.

Lemma update_files_fresh fs d strict : forall files c P,
  Fresh c P -> NoDup (map fst files) ->
  (forall e, In e P -> se_dir e = d -> ~ In (se_file e) (map fst files)) ->
  Fresh (update_files fs c d strict files) (P ++ flat_map (fun p => opt_list (valid_file d strict (fst p) (snd p))) files) /\
  (forall e, In e (flat_map (fun p => opt_list (valid_file d strict (fst p) (snd p))) files) -> se_dir e = d).
Proof.
  induction files as [|[fname f] files IH]; intros c P F Hnd Hfree; simpl.
  - rewrite app_nil_r. split; [exact F | intros e []].
  - inversion Hnd as [|? ? Hn Hnd']; subst.
    destruct (ends_with DOT_SERVICE fname) eqn:He; simpl.
    + assert (lookup_file d fname (by_file c) = None) as Hl.
      { apply lookup_file_none. intros e Hin Hd Hf. rewrite (fr_same _ _ F) in Hin.
        apply (Hfree e (fr_sub _ _ F e Hin) Hd). left. simpl. congruence. }
      rewrite Hl. rewrite (update_file_valid c d strict fname f He Hl).
      destruct (valid_file d strict fname f) as [en|] eqn:V; simpl.
      * destruct (valid_file_key _ _ _ _ _ V) as [K1 [K2 _]].
        pose proof (fresh_step c P en F) as F'.
        destruct (IH _ (P ++ [en]) F' Hnd') as [R1 R2].
        { intros e Hin Hd Hin'. apply in_app_iff in Hin. destruct Hin as [Hin|[<-|[]]].
          - apply (Hfree e Hin Hd). right. exact Hin'.
          - apply Hn. rewrite <- K2. exact Hin'. }
        rewrite <- app_assoc in R1. simpl in R1. split; [exact R1|].
        intros e [<-|Hin]; [exact K1 | apply R2; exact Hin].
      * apply IH; auto. intros e Hin Hd Hin'. apply (Hfree e Hin Hd). right. exact Hin'.
    + assert (valid_file d strict fname f = None) as -> by (unfold valid_file; rewrite He; reflexivity).
      simpl. apply IH; auto. intros e Hin Hd Hin'. apply (Hfree e Hin Hd). right. exact Hin'.
Qed.

Lemma update_all_fresh (fs : fsys) : wf_fs fs -> forall flags d c P,
  Fresh c P -> (forall e, In e P -> se_dir e < d) ->
  Fresh (update_all fs c d flags) (P ++ candidates_from fs d flags).
Proof.
  intros W. induction flags as [|s flags IH]; intros d c P F Hlt; simpl.
  - rewrite app_nil_r. exact F.
  - unfold update_directory, dir_candidates.
    destruct (nth (N.to_nat d) fs None) as [files|] eqn:E.
    + assert (In (Some files) fs) as Hin.
      { eapply nth_some_in; eauto. }
      destruct (update_files_fresh fs d s files c P F (W files Hin)) as [R1 R2].
      { intros e He Hd. specialize (Hlt e He). lia. }
      rewrite app_assoc. apply IH; [exact R1|].
      intros e He. apply in_app_iff in He. destruct He as [He|He]; [specialize (Hlt e He); lia | rewrite (R2 e He); lia].
    + simpl. apply IH; [exact F|]. intros e He. specialize (Hlt e He). lia.
Qed.

Lemma fresh_empty : Fresh empty_cache [].
Proof. constructor; simpl; auto. Qed.

Lemma reload_fresh flags fs : wf_fs fs -> Fresh (reload flags fs) (candidates flags fs).
Proof.
  intros W. unfold reload, candidates.
  apply (update_all_fresh fs W flags 0 empty_cache [] fresh_empty). intros e [].
Qed.

(* the table built by bus_activation_reload is the specification's *)
Theorem table_is_first_valid flags fs n : wf_fs fs ->
  lookup_name n (by_name (reload flags fs)) = spec_lookup flags fs n.
Proof. intros W. apply (fr_lookup _ _ (reload_fresh flags fs W)). Qed.

(* ---------------------------------------------------------------- looking a name up in the fresh cache *)
Lemma candidates_from_origin (fs : fsys) : forall flags d e, In e (candidates_from fs d flags) ->
  exists s files f, nth (N.to_nat (se_dir e)) fs None = Some files /\ In (se_file e, f) files /\
                    valid_file (se_dir e) s (se_file e) f = Some e /\
                    d <= se_dir e /\ nth_error flags (N.to_nat (se_dir e - d)) = Some s.
Proof.
  induction flags as [|s flags IH]; intros d e Hin; simpl in Hin; [contradiction|].
  apply in_app_iff in Hin. destruct Hin as [Hin|Hin].
  - unfold dir_candidates in Hin. destruct (nth (N.to_nat d) fs None) as [files|] eqn:E; [|contradiction].
    apply in_flat_map in Hin. destruct Hin as [[fname f] [Hf Hv]]. simpl in Hv.
    destruct (valid_file d s fname f) as [en|] eqn:V; [|contradiction]. destruct Hv as [<-|[]].
    destruct (valid_file_key _ _ _ _ _ V) as [K1 [K2 _]]. exists s, files, f. rewrite K1, K2.
    repeat split; auto; [lia|]. rewrite N.sub_diag. reflexivity.
  - destruct (IH (d + 1) e Hin) as [s' [files [f [H1 [H2 [H3 [H4 H5]]]]]]]. exists s', files, f. repeat split; auto; [lia|].
    replace (N.to_nat (se_dir e - d)) with (S (N.to_nat (se_dir e - (d + 1)))) by lia. exact H5.
Qed.

Lemma stat_file_found (fs : fsys) d files fname f : nth (N.to_nat d) fs None = Some files -> NoDup (map fst files) ->
  In (fname, f) files -> stat_file fs d fname = Some f.
Proof.
  intros E Hnd Hin. unfold stat_file. rewrite E. clear E.
  induction files as [|[n0 f0] files IH]; simpl in *; [contradiction|].
  inversion Hnd; subst. destruct Hin as [Hin|Hin].
  - inversion Hin; subst. rewrite bytes_eqb_refl. reflexivity.
  - destruct (bytes_eqb n0 fname) eqn:E.
    + apply bytes_eqb_eq in E. subst n0. exfalso. apply H1. apply in_map_iff. exists (fname, f). split; auto.
    + apply IH; auto.
Qed.

Lemma candidate_in (fs : fsys) en d s files fname f : forall flags base,
  nth_error flags (N.to_nat (d - base)) = Some s -> base <= d ->
  nth (N.to_nat d) fs None = Some files -> In (fname, f) files -> valid_file d s fname f = Some en ->
  In en (candidates_from fs base flags).
Proof.
  induction flags as [|s0 fl IHf]; intros base Hn Hb E Hin V; [destruct (N.to_nat (d - base)); discriminate|].
  simpl. apply in_app_iff. destruct (N.eq_dec base d) as [->|Hne].
  - left. rewrite N.sub_diag in Hn. simpl in Hn. inversion Hn; subst s0.
    unfold dir_candidates. rewrite E. apply in_flat_map. exists (fname, f). split; [exact Hin|].
    simpl. rewrite V. left. reflexivity.
  - right. apply IHf; auto; [|lia]. replace (N.to_nat (d - base)) with (S (N.to_nat (d - (base + 1)))) in Hn by lia. exact Hn.
Qed.

(* rescanning every directory leaves a fresh cache as it is *)
Lemma update_files_stable (fs : fsys) flags c d s : wf_fs fs ->
  Fresh c (candidates flags fs) -> nth_error flags (N.to_nat d) = Some s ->
  forall files all, nth (N.to_nat d) fs None = Some all -> (forall p, In p files -> In p all) ->
  update_files fs c d s files = c.
Proof.
  intros W F Hs. induction files as [|[fname f] files IH]; intros all E Hsub; simpl; [reflexivity|].
  assert (In (Some all) fs) as Hall.
  { eapply nth_some_in; eauto. }
  destruct (ends_with DOT_SERVICE fname) eqn:He; simpl; [|eapply IH; eauto; intros p Hp; apply Hsub; right; exact Hp].
  destruct (lookup_file d fname (by_file c)) as [e|] eqn:L.
  - apply lookup_file_some in L. destruct L as [L1 [L2 L3]]. rewrite (fr_same _ _ F) in L1.
    pose proof (fr_sub _ _ F e L1) as Hc. unfold candidates in Hc.
    destruct (candidates_from_origin fs flags 0 e Hc) as [s' [files' [f' [H1 [H2 [H3 _]]]]]].
    assert (check_file fs c e = (c, Some e)) as ->.
    { unfold check_file. rewrite (stat_file_found fs (se_dir e) files' (se_file e) f' H1); auto.
      - destruct (valid_file_key _ _ _ _ _ H3) as [_ [_ K]]. rewrite K, N.ltb_irrefl. reflexivity.
      - apply W. eapply nth_some_in; eauto. }
    simpl. eapply IH; eauto. intros p Hp. apply Hsub. right. exact Hp.
  - rewrite (update_file_valid c d s fname f He L).
    destruct (valid_file d s fname f) as [en|] eqn:V; [|eapply IH; eauto; intros p Hp; apply Hsub; right; exact Hp].
    (* a valid file that is not in the cache: its name is (it lost against an earlier file) *)
    assert (In en (candidates flags fs)) as Hc.
    { unfold candidates. apply (candidate_in fs en d s all fname f); auto; [rewrite N.sub_0_r; exact Hs | lia | apply Hsub; left; reflexivity]. }
    assert (lookup_name (se_name en) (by_name c) <> None) as Hn.
    { rewrite (fr_lookup _ _ F). intros Hnone. eapply find_none in Hnone; eauto. unfold has_name in Hnone.
      rewrite bytes_eqb_refl in Hnone. discriminate. }
    destruct (lookup_name (se_name en) (by_name c)); [|congruence].
    eapply IH; eauto. intros p Hp. apply Hsub. right. exact Hp.
Qed.

Lemma update_all_stable (fs : fsys) flags c : wf_fs fs -> Fresh c (candidates flags fs) ->
  forall rest d, (forall k s, nth_error rest k = Some s -> nth_error flags (N.to_nat d + k) = Some s) ->
  update_all fs c d rest = c.
Proof.
  intros W F. induction rest as [|s rest IH]; intros d Hr; simpl; [reflexivity|].
  assert (update_directory fs c d s = c) as ->.
  { unfold update_directory. destruct (nth (N.to_nat d) fs None) as [files|] eqn:E; [|reflexivity].
    eapply (update_files_stable fs flags c d s W F); eauto.
    specialize (Hr 0%nat s eq_refl). rewrite Nat.add_0_r in Hr. exact Hr. }
  apply IH. intros k s' Hk. specialize (Hr (S k) s' Hk).
  replace (N.to_nat (d + 1) + k)%nat with (N.to_nat d + S k)%nat by lia. exact Hr.
Qed.

(* activation_find_entry on the cache bus_activation_reload has just built, files unchanged:
   the specification's answer, and the cache is left as it is *)
Theorem lookup_fresh flags fs n : wf_fs fs ->
  find_entry flags fs (reload flags fs) n = (reload flags fs, spec_lookup flags fs n).
Proof.
  intros W. pose proof (reload_fresh flags fs W) as F. unfold find_entry.
  rewrite (table_is_first_valid flags fs n W).
  destruct (spec_lookup flags fs n) as [e|] eqn:S.
  - unfold spec_lookup in S. apply find_some in S. destruct S as [S1 _]. unfold candidates in S1.
    destruct (candidates_from_origin fs flags 0 e S1) as [s' [files' [f' [H1 [H2 [H3 _]]]]]].
    unfold check_file. rewrite (stat_file_found fs (se_dir e) files' (se_file e) f' H1); auto.
    + destruct (valid_file_key _ _ _ _ _ H3) as [_ [_ K]]. rewrite K, N.ltb_irrefl. reflexivity.
    + apply W. eapply nth_some_in; eauto.
  - rewrite (update_all_stable fs flags (reload flags fs) W F flags 0); [|intros k s Hk; exact Hk].
    rewrite (table_is_first_valid flags fs n W), S. reflexivity.
Qed.

(* ---------------------------------------------------------------- what is not true (finding F19.4, and F19.1 seen from the table) *)
(* "[D-BUS Service]\nName=a.b\nExec=/x\n" and the same with Exec=/y *)
Definition file_ab (x : N) : file :=
  mkFile 5 ([91] ++ SECTION ++ [93; 10] ++ KEY_NAME ++ [61; 97; 46; 98; 10] ++ KEY_EXEC ++ [61; 47; x; 10]).
Definition fn_ab : bytes := [97; 46; 98] ++ DOT_SERVICE.      (* a.b.service *)
Definition fn_z : bytes := [122] ++ DOT_SERVICE.              (* z.service *)
Definition fs_before : fsys := [Some [(fn_ab, file_ab 120)]; Some [(fn_z, file_ab 121)]].
Definition fs_after : fsys := [Some []; Some [(fn_z, file_ab 121)]].

(* the winning file is removed; the first lookup answers "unknown" although the second directory provides the name;
   the second lookup finds it *)
Lemma lookup_after_removal_refuted :
  let c0 := reload [false; false] fs_before in
  let '(c1, r1) := find_entry [false; false] fs_after c0 [97; 46; 98] in
  let '(c2, r2) := find_entry [false; false] fs_after c1 [97; 46; 98] in
  r1 = None /\ spec_lookup [false; false] fs_after [97; 46; 98] <> None /\ r2 = spec_lookup [false; false] fs_after [97; 46; 98].
Proof. vm_compute. repeat split. discriminate. Qed.

(* the table takes any Name as it is: a unique name, a name without a dot *)
Definition file_uniq : file :=
  mkFile 5 ([91] ++ SECTION ++ [93; 10] ++ KEY_NAME ++ [61; 58; 49; 46; 55; 10] ++ KEY_EXEC ++ [61; 47; 120; 10]).
Lemma table_accepts_unique_name :
  exists e, lookup_name [58; 49; 46; 55] (by_name (reload [false] [Some [([117] ++ DOT_SERVICE, file_uniq)]])) = Some e.
Proof. vm_compute. eexists. reflexivity. Qed.
