(* The reader model (Wire/Reader.v: DBusTypeReader as a cursor machine) reads back
   exactly the encoded values.

   [rwf]  what the reader needs of a value (a relaxation of the specification's [wfb] and of
          the validator's [wfx]: no nesting limit, no boolean / UTF-8 / path checks; only: sizes
          fit their length words, strings contain no NUL, element / contained types are types of
          the grammar);
   [reader_rwf]            read_all on the canonical encoding of rwf values = the values (all values, unbounded);
   [reader_correct]        the same from the specification's well-formedness [wfsb];
   [reader_after_validation]  for EVERY body the validator model accepts (no F11 / FD65 exclusion: the reader
                           does not care about nesting limits) the values read are the values encoded;
   [element_count_correct], [fixed_array_correct]  get_element_count / get_fixed_array.
   No Fault, no failed assertion, no fuel exhaustion on any of these inputs. *)
From DV Require Import Lib.Base Gen.Tables Wire.Body Wire.Utf8 Wire.Names Wire.Reader Spec.Codec Spec.NamesSpec Spec.Utf8Spec Wire.HeaderEdit
  Proofs.CodecBasics Proofs.CodecWf Proofs.CodecRoundtrip Proofs.BodyCursor Proofs.BodyComplete Proofs.BodyLocal
  Proofs.NamesProofs Proofs.SigRoundtrip Proofs.SigAutomaton Proofs.BodySound Proofs.WireClean.
From Coq Require Import ZArith ZifyBool ZifyN ZifyNat Arith.
Local Open Scope N_scope.
Ltac Zify.zify_post_hook ::= Z.div_mod_to_equations.

(* ================= A. raw access ================================================== *)
Lemma bf_0 s : bytes_from s 0 = s.
Proof. reflexivity. Qed.

Lemma bf_add s p n : bytes_from s (p + n) = skipn (N.to_nat n) (bytes_from s p).
Proof. unfold bytes_from. rewrite N2Nat.inj_add. symmetry. apply bl_skipn_skipn. Qed.

Lemma skipn_nlen_app {A} (a b : list A) : skipn (N.to_nat (nlen a)) (a ++ b) = b.
Proof. unfold nlen. rewrite Nat2N.id. rewrite skipn_app, skipn_all, Nat.sub_diag. reflexivity. Qed.

(* the basic step: having read [a], the rest follows *)
Lemma bf_step s p a b : bytes_from s p = a ++ b -> bytes_from s (p + nlen a) = b.
Proof. intros H. rewrite bf_add, H. apply skipn_nlen_app. Qed.

Lemma bf_step' s p a b q : bytes_from s p = a ++ b -> q = p + nlen a -> bytes_from s q = b.
Proof. intros H ->. exact (bf_step s p a b H). Qed.

Lemma get_byte_at s p b r : bytes_from s p = b :: r -> get_byte s p = inl b.
Proof. intros H. unfold get_byte. rewrite H. reflexivity. Qed.

Lemma get_num_at le data p sz n rest : bytes_from data p = bytes_of le (N.to_nat sz) n ++ rest -> n < 256 ^ sz ->
  get_num le data p sz = inl n.
Proof.
  intros H Hn. unfold get_num. rewrite H. rewrite take_app by (rewrite bytes_of_length; lia).
  rewrite num_of_bytes by (rewrite N2Nat.id; exact Hn). reflexivity.
Qed.

(* strings *)
Definition nz (s : bytes) : bool := forallb (fun b => negb (b =? 0)) s.

Lemma nz_cons c r : c <> 0 -> nz r = true -> nz (c :: r) = true.
Proof. intros Hc Hr. unfold nz in *. cbn [forallb]. rewrite Hr. replace (c =? 0) with false by lia. reflexivity. Qed.

Lemma nz_app a b : nz (a ++ b) = nz a && nz b.
Proof. unfold nz. apply forallb_app. Qed.

Lemma cstring_at : forall s rest, nz s = true -> cstring (s ++ 0 :: rest) = inl s.
Proof.
  induction s as [|c r IH]; intros rest H; [reflexivity|].
  unfold nz in H. cbn [forallb] in H. apply andb_true_iff in H. destruct H as [Hc Hr].
  cbn [app cstring]. replace (c =? 0) with false by lia. rewrite (IH rest Hr). reflexivity.
Qed.

(* ---- NUL-free strings: everything the specification / the validator accepts as a string ---- *)
Lemma utf8_nz_fuel : forall f s, spec_utf8_fuel f s = true -> nz s = true.
Proof.
  induction f as [|f IH]; intros s H; [discriminate|].
  cbn [spec_utf8_fuel] in H. unfold in_range, cont, in_range in H.
  destruct s as [|c1 r1]; [reflexivity|].
  destruct ((1 <=? c1) && (c1 <=? 127)) eqn:E1; [apply nz_cons; [lia | apply IH; exact H]|].
  destruct r1 as [|c2 r2]; [discriminate|].
  destruct ((194 <=? c1) && (c1 <=? 223)) eqn:E2.
  { apply andb_true_iff in H. destruct H as [H2 H]. apply nz_cons; [lia|]. apply nz_cons; [lia|]. apply IH; exact H. }
  destruct r2 as [|c3 r3]; [discriminate|].
  destruct (c1 =? 224) eqn:E3.
  { apply andb_true_iff in H. destruct H as [H2 H]. apply andb_true_iff in H2. destruct H2 as [H2 H3].
    apply nz_cons; [lia|]. apply nz_cons; [lia|]. apply nz_cons; [lia|]. apply IH; exact H. }
  destruct ((225 <=? c1) && (c1 <=? 236) || (238 <=? c1) && (c1 <=? 239)) eqn:E4.
  { apply andb_true_iff in H. destruct H as [H2 H]. apply andb_true_iff in H2. destruct H2 as [H2 H3].
    apply nz_cons; [lia|]. apply nz_cons; [lia|]. apply nz_cons; [lia|]. apply IH; exact H. }
  destruct (c1 =? 237) eqn:E5.
  { apply andb_true_iff in H. destruct H as [H2 H]. apply andb_true_iff in H2. destruct H2 as [H2 H3].
    apply nz_cons; [lia|]. apply nz_cons; [lia|]. apply nz_cons; [lia|]. apply IH; exact H. }
  destruct r3 as [|c4 r4]; [discriminate|].
  destruct (c1 =? 240) eqn:E6.
  { apply andb_true_iff in H. destruct H as [H2 H]. apply andb_true_iff in H2. destruct H2 as [H2 H4].
    apply andb_true_iff in H2. destruct H2 as [H2 H3].
    apply nz_cons; [lia|]. apply nz_cons; [lia|]. apply nz_cons; [lia|]. apply nz_cons; [lia|]. apply IH; exact H. }
  destruct ((241 <=? c1) && (c1 <=? 243)) eqn:E7.
  { apply andb_true_iff in H. destruct H as [H2 H]. apply andb_true_iff in H2. destruct H2 as [H2 H4].
    apply andb_true_iff in H2. destruct H2 as [H2 H3].
    apply nz_cons; [lia|]. apply nz_cons; [lia|]. apply nz_cons; [lia|]. apply nz_cons; [lia|]. apply IH; exact H. }
  destruct (c1 =? 244) eqn:E8; [|discriminate].
  apply andb_true_iff in H. destruct H as [H2 H]. apply andb_true_iff in H2. destruct H2 as [H2 H4].
  apply andb_true_iff in H2. destruct H2 as [H2 H3].
  apply nz_cons; [lia|]. apply nz_cons; [lia|]. apply nz_cons; [lia|]. apply nz_cons; [lia|]. apply IH; exact H.
Qed.

Lemma spec_utf8_nz s : spec_utf8 s = true -> nz s = true.
Proof. apply utf8_nz_fuel. Qed.

Lemma path_loop_nz : forall s since len, path_loop s since len = true -> nz s = true.
Proof.
  induction s as [|c r IH]; intros since len H; [reflexivity|].
  cbn [path_loop] in H. change SLASH with 47 in H.
  destruct (c =? 47) eqn:E.
  - destruct (since <? 2); [discriminate|]. apply nz_cons; [lia | apply (IH _ _ H)].
  - destruct (valid_name_character c) eqn:V; [|discriminate].
    apply nz_cons; [|apply (IH _ _ H)].
    intros ->. vm_compute in V. discriminate.
Qed.

Lemma spec_path_nz s : spec_path s = true -> nz s = true.
Proof.
  rewrite <- path_correct. unfold validate_path. destruct s as [|c r]; [discriminate|]. change SLASH with 47.
  destruct (c =? 47) eqn:E; [|discriminate]. intros H. apply nz_cons; [lia | apply (path_loop_nz _ _ _ H)].
Qed.

Lemma tygood_print_nz : forall t, tygood t = true -> nz (print_ty t) = true.
Proof.
  induction t as [c| |t IH|ts IH|k v IH] using ty_ind'; cbn [tygood print_ty]; intros H.
  - apply nz_cons; [|reflexivity]. destruct (basic_code_ne c H) as (_ & _ & _ & _ & _ & _ & ?). assumption.
  - reflexivity.
  - apply nz_cons; [lia | apply IH; exact H].
  - apply andb_true_iff in H. destruct H as [_ H]. apply nz_cons; [lia|]. rewrite nz_app. apply andb_true_iff. split; [|reflexivity].
    induction IH as [|x r Hx Hr IHr]; [reflexivity|]. cbn [forallb flat_map] in *. apply andb_true_iff in H. destruct H as [H1 H2].
    rewrite nz_app, (Hx H1), (IHr H2). reflexivity.
  - apply andb_true_iff in H. destruct H as [Hk Hv]. apply nz_cons; [lia|]. apply nz_cons.
    + destruct (basic_code_ne k Hk) as (_ & _ & _ & _ & _ & _ & ?). assumption.
    + rewrite nz_app, (IH Hv). reflexivity.
Qed.

Lemma tygood_prints_nz : forall ts, forallb tygood ts = true -> nz (flat_map print_ty ts) = true.
Proof.
  induction ts as [|t r IH]; intros H; [reflexivity|]. cbn [forallb flat_map] in *. apply andb_true_iff in H. destruct H as [H1 H2].
  rewrite nz_app, (tygood_print_nz t H1), (IH H2). reflexivity.
Qed.

Lemma validate_signature_nz s : validate_signature s = true -> nz s = true /\ nlen s <= 255.
Proof.
  intros H. destruct (validate_signature_shape s H) as (Hl & ts & Hok & _ & ->). split; [|exact Hl].
  apply tygood_prints_nz. rewrite forallb_forall in *. intros t Hin. apply ty_okb_tygood. apply Hok. exact Hin.
Qed.

(* ================= B. the type string ================================================ *)
Definition code_of (t : ty) : N :=
  match t with
  | TBasic c => c
  | TVariant => DBUS_TYPE_VARIANT
  | TArray _ => DBUS_TYPE_ARRAY
  | TStruct _ => DBUS_TYPE_STRUCT
  | TDict _ _ => DBUS_TYPE_DICT_ENTRY
  end.

Lemma map_type_char_basic c : is_basic_code c = true -> map_type_char c = inl c.
Proof.
  intros H. apply basic_code_cases in H.
  repeat (destruct H as [H|H]; [subst c; reflexivity|]). subst c; reflexivity.
Qed.

Lemma print_ty_cons t : exists c r, print_ty t = c :: r.
Proof. destruct t; cbn [print_ty]; eexists _, _; reflexivity. Qed.

Lemma first_type_print s p t tl : tygood t = true -> bytes_from s p = print_ty t ++ tl -> first_type s p = inl (code_of t).
Proof.
  intros G H. unfold first_type. destruct t as [c| |t'|ts|k v]; cbn [print_ty app] in H; rewrite (get_byte_at _ _ _ _ H); cbn [code_of].
  - apply map_type_char_basic. exact G.
  - reflexivity.
  - reflexivity.
  - reflexivity.
  - reflexivity.
Qed.

Lemma code_of_nonzero t : tygood t = true -> (code_of t =? T_INVALID) = false.
Proof.
  destruct t as [c| | | | ]; cbn [tygood code_of]; intros H; try reflexivity.
  destruct (basic_code_ne c H) as (_ & _ & _ & _ & _ & _ & ?). unfold T_INVALID. lia.
Qed.

(* the bracket-matching loops of _dbus_type_signature_next *)
Definition bracket (o c : N) : Prop := (o = 40 /\ c = 41) \/ (o = 123 /\ c = 125).

Lemma scan_other o c d b r : bracket o c -> b <> 0 -> b <> o -> b <> c ->
  sig_scan o c d (b :: r) = match sig_scan o c d r with inl n => inl (n + 1) | inr e => inr e end.
Proof.
  intros _ H0 H1 H2. cbn [sig_scan].
  replace (b =? 0) with false by lia. replace (b =? o) with false by lia. replace (b =? c) with false by lia. reflexivity.
Qed.

Definition SCAN (t : ty) : Prop := forall o c d rest, bracket o c ->
  sig_scan o c (S d) (print_ty t ++ rest) =
  match sig_scan o c (S d) rest with inl n => inl (n + nlen (print_ty t)) | inr e => inr e end.

Lemma scan_list ts : Forall SCAN ts -> forall o c d rest, bracket o c ->
  sig_scan o c (S d) (flat_map print_ty ts ++ rest) =
  match sig_scan o c (S d) rest with inl n => inl (n + nlen (flat_map print_ty ts)) | inr e => inr e end.
Proof.
  induction 1 as [|x r Hx Hr IH]; intros o c d rest B.
  - cbn [flat_map app]. destruct (sig_scan o c (S d) rest); [f_equal; cbn; lia | reflexivity].
  - cbn [flat_map]. rewrite <- app_assoc. rewrite (Hx o c d _ B). rewrite (IH o c d rest B).
    destruct (sig_scan o c (S d) rest); [f_equal; rewrite nlen_app; lia | reflexivity].
Qed.

Lemma scan_print : forall t, tygood t = true -> SCAN t.
Proof.
  induction t as [c0| |t IH|ts IH|k v IH] using ty_ind'; cbn [tygood]; intros G o c d rest B.
  - destruct (basic_code_ne c0 G) as (? & ? & ? & ? & ? & ? & ?). cbn [print_ty app].
    rewrite (scan_other o c (S d) c0 rest B) by (destruct B as [[-> ->]|[-> ->]]; assumption).
    destruct (sig_scan o c (S d) rest); [f_equal; cbn; lia | reflexivity].
  - cbn [print_ty app]. rewrite (scan_other o c (S d) 118 rest B) by (destruct B as [[-> ->]|[-> ->]]; discriminate).
    destruct (sig_scan o c (S d) rest); [f_equal; cbn; lia | reflexivity].
  - cbn [print_ty app]. rewrite (scan_other o c (S d) 97 _ B) by (destruct B as [[-> ->]|[-> ->]]; discriminate). rewrite (IH G o c d rest B).
    destruct (sig_scan o c (S d) rest); [f_equal; rewrite nlen_cons; lia | reflexivity].
  - apply andb_true_iff in G. destruct G as [_ G].
    assert (HF : Forall SCAN ts).
    { clear -IH G. induction IH as [|x r Hx Hr IHr]; [constructor|]. cbn [forallb] in G. apply andb_true_iff in G. destruct G as [G1 G2].
      constructor; [apply Hx; exact G1 | apply IHr; exact G2]. }
    cbn [print_ty app]. rewrite <- app_assoc. cbn [app].
    destruct B as [[-> ->]|[-> ->]].
    + (* our own bracket kind: depth goes up and comes back *)
      cbn [sig_scan N.eqb Pos.eqb]. rewrite (scan_list ts HF 40 41 (S d) _ (or_introl (conj eq_refl eq_refl))).
      cbn [sig_scan N.eqb Pos.eqb].
      destruct (sig_scan 40 41 (S d) rest); [f_equal; rewrite nlen_cons, nlen_app; cbn; lia | reflexivity].
    + rewrite (scan_other 123 125 (S d) 40 _ (or_intror (conj eq_refl eq_refl))) by discriminate.
      rewrite (scan_list ts HF 123 125 d _ (or_intror (conj eq_refl eq_refl))).
      rewrite (scan_other 123 125 (S d) 41 _ (or_intror (conj eq_refl eq_refl))) by discriminate.
      destruct (sig_scan 123 125 (S d) rest); [f_equal; rewrite nlen_cons, nlen_app; cbn; lia | reflexivity].
  - apply andb_true_iff in G. destruct G as [Gk Gv]. destruct (basic_code_ne k Gk) as (? & ? & ? & ? & ? & ? & ?).
    cbn [print_ty app]. rewrite <- app_assoc. cbn [app].
    destruct B as [[-> ->]|[-> ->]].
    + rewrite (scan_other 40 41 (S d) 123 _ (or_introl (conj eq_refl eq_refl))) by discriminate.
      rewrite (scan_other 40 41 (S d) k _ (or_introl (conj eq_refl eq_refl))) by assumption.
      rewrite (IH Gv 40 41 d _ (or_introl (conj eq_refl eq_refl))).
      rewrite (scan_other 40 41 (S d) 125 _ (or_introl (conj eq_refl eq_refl))) by discriminate.
      destruct (sig_scan 40 41 (S d) rest); [f_equal; rewrite !nlen_cons, nlen_app; cbn; lia | reflexivity].
    + cbn [sig_scan N.eqb Pos.eqb].
      rewrite (scan_other 123 125 (S (S d)) k _ (or_intror (conj eq_refl eq_refl))) by assumption.
      rewrite (IH Gv 123 125 (S d) _ (or_intror (conj eq_refl eq_refl))).
      cbn [sig_scan N.eqb Pos.eqb].
      destruct (sig_scan 123 125 (S d) rest); [f_equal; rewrite !nlen_cons, nlen_app; cbn; lia | reflexivity].
Qed.

Lemma scan_prints ts : forallb tygood ts = true -> Forall SCAN ts.
Proof.
  induction ts as [|x r IH]; intros H; [constructor|]. cbn [forallb] in H. apply andb_true_iff in H. destruct H as [H1 H2].
  constructor; [apply scan_print; exact H1 | apply IH; exact H2].
Qed.

(* skip_one_complete_type on a printed type skips exactly that type *)
Lemma sig_skip_print : forall t tl, tygood t = true -> sig_skip (print_ty t ++ tl) = inl (nlen (print_ty t)).
Proof.
  induction t as [c0| |t IH|ts IH|k v IH] using ty_ind'; cbn [tygood]; intros tl G.
  - destruct (basic_code_ne c0 G) as (? & ? & ? & ? & ? & ? & ?). cbn [print_ty app sig_skip].
    change DBUS_TYPE_ARRAY with 97. change DBUS_STRUCT_END_CHAR with 41. change DBUS_DICT_ENTRY_END_CHAR with 125.
    change DBUS_STRUCT_BEGIN_CHAR with 40. change DBUS_DICT_ENTRY_BEGIN_CHAR with 123.
    replace (c0 =? 97) with false by lia. replace ((c0 =? 41) || (c0 =? 125)) with false by lia.
    replace (c0 =? 40) with false by lia. replace (c0 =? 123) with false by lia. reflexivity.
  - reflexivity.
  - cbn [print_ty app sig_skip]. change (DBUS_TYPE_ARRAY) with 97. cbn [N.eqb Pos.eqb]. rewrite (IH tl G). f_equal. rewrite nlen_cons. reflexivity.
  - apply andb_true_iff in G. destruct G as [_ G].
    cbn [print_ty app sig_skip]. change (40 =? DBUS_TYPE_ARRAY) with false. cbv iota.
    change ((40 =? DBUS_STRUCT_END_CHAR) || (40 =? DBUS_DICT_ENTRY_END_CHAR)) with false. cbv iota.
    change (40 =? DBUS_STRUCT_BEGIN_CHAR) with true. cbv iota.
    change DBUS_STRUCT_BEGIN_CHAR with 40. change DBUS_STRUCT_END_CHAR with 41.
    rewrite <- app_assoc. rewrite (scan_list ts (scan_prints ts G) 40 41 0 _ (or_introl (conj eq_refl eq_refl))).
    cbn [app sig_scan N.eqb Pos.eqb]. f_equal. rewrite nlen_cons, nlen_app. cbn. lia.
  - apply andb_true_iff in G. destruct G as [Gk Gv]. destruct (basic_code_ne k Gk) as (? & ? & ? & ? & ? & ? & ?).
    cbn [print_ty app sig_skip]. change (123 =? DBUS_TYPE_ARRAY) with false. cbv iota.
    change ((123 =? DBUS_STRUCT_END_CHAR) || (123 =? DBUS_DICT_ENTRY_END_CHAR)) with false. cbv iota.
    change (123 =? DBUS_STRUCT_BEGIN_CHAR) with false. cbv iota. change (123 =? DBUS_DICT_ENTRY_BEGIN_CHAR) with true. cbv iota.
    change DBUS_DICT_ENTRY_BEGIN_CHAR with 123. change DBUS_DICT_ENTRY_END_CHAR with 125.
    rewrite (scan_other 123 125 1 k _ (or_intror (conj eq_refl eq_refl))) by assumption.
    rewrite <- app_assoc. rewrite (scan_print v Gv 123 125 0 _ (or_intror (conj eq_refl eq_refl))).
    cbn [app sig_scan N.eqb Pos.eqb]. f_equal. rewrite !nlen_cons, nlen_app. cbn. lia.
Qed.

Lemma sig_next_print s p t tl : tygood t = true -> bytes_from s p = print_ty t ++ tl -> sig_next s p = inl (p + nlen (print_ty t)).
Proof. intros G H. unfold sig_next. rewrite H, (sig_skip_print t tl G). reflexivity. Qed.

(* alignment of a type code = the specification's alignment of the type *)
Lemma type_align_code t : tygood t = true ->
  type_align (code_of t) = inl (spec_align t) /\ (spec_align t = 1 \/ spec_align t = 2 \/ spec_align t = 4 \/ spec_align t = 8).
Proof.
  intros G. destruct (tygood_align t G) as [E C]. split; [|exact C].
  unfold type_align. destruct t as [c| |t'|ts|k v]; cbn [code_of ty_alignment] in *.
  - rewrite E. replace (spec_align (TBasic c) =? 0) with false by lia. reflexivity.
  - reflexivity.
  - reflexivity.
  - reflexivity.
  - reflexivity.
Qed.
