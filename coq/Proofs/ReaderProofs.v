(* The reader model (Wire/Reader.v: DBusTypeReader as a cursor machine) reads back
   exactly the encoded values.

   [rwf]  what the reader needs of a value (a relaxation of the specification's [wfb] and of
          the validator's [wfx]: no nesting limit, no boolean / UTF-8 / path checks; only: sizes
          fit their length words, strings contain no NUL, element / contained types are types of
          the grammar);
   [reader_rwf]            read_all on the canonical encoding of rwf values = the values (all values, unbounded);
   [reader_correct]        the same from the specification's well-formedness [wfsb];
   [reader_after_validation]  for EVERY body the validator model accepts (no F11 / FD65 exclusion: the reader
                           does not care about nesting limits) the values read are the values encoded;
   [element_count_correct], [fixed_array_correct]  get_element_count / get_fixed_array.
   No Fault, no failed assertion, no fuel exhaustion on any of these inputs. *)
From DV Require Import Lib.Base Gen.Tables Wire.Body Wire.Message Wire.Utf8 Wire.Names Wire.Reader Spec.Codec Spec.NamesSpec Spec.Utf8Spec Wire.HeaderEdit
  Proofs.CodecBasics Proofs.CodecWf Proofs.CodecRoundtrip Proofs.BodyCursor Proofs.BodyComplete Proofs.BodyLocal
  Proofs.NamesProofs Proofs.Utf8Proofs Proofs.CodecDecEq Proofs.SigRoundtrip Proofs.SigAutomaton Proofs.BodySound Proofs.WireClean
  Proofs.CodecMessage Proofs.LoaderProofs Proofs.LoaderComplete Proofs.WireClean2.
From Coq Require Import ZArith ZifyBool ZifyN ZifyNat Arith.
Local Open Scope N_scope.
Ltac Zify.zify_post_hook ::= Z.div_mod_to_equations.

Ltac rsimp := cbn [set_finished set_tpos set_vpos r_klass r_vpos r_tpos r_finished r_tval r_start r_lenoff].
Ltac nl := unfold nlen; cbn [length]; rewrite ?app_length; cbn [length]; lia.

(* ================= A. raw access ================================================== *)
Lemma bf_0 s : bytes_from s 0 = s.
Proof. reflexivity. Qed.

Lemma bf_add s p n : bytes_from s (p + n) = skipn (N.to_nat n) (bytes_from s p).
Proof. unfold bytes_from. rewrite N2Nat.inj_add. symmetry. apply bl_skipn_skipn. Qed.

Lemma skipn_nlen_app {A} (a b : list A) : skipn (N.to_nat (nlen a)) (a ++ b) = b.
Proof. unfold nlen. rewrite Nat2N.id. rewrite skipn_app, skipn_all, Nat.sub_diag. reflexivity. Qed.

(* the basic step: having read [a], the rest follows *)
Lemma bf_step s p a b : bytes_from s p = a ++ b -> bytes_from s (p + nlen a) = b.
Proof. intros H. rewrite bf_add, H. apply skipn_nlen_app. Qed.

Lemma bf_step' s p a b q : bytes_from s p = a ++ b -> q = p + nlen a -> bytes_from s q = b.
Proof. intros H ->. exact (bf_step s p a b H). Qed.

Lemma get_byte_at s p b r : bytes_from s p = b :: r -> get_byte s p = inl b.
Proof. intros H. unfold get_byte. rewrite H. reflexivity. Qed.

Lemma get_num_at le data p sz n rest : bytes_from data p = bytes_of le (N.to_nat sz) n ++ rest -> n < 256 ^ sz ->
  get_num le data p sz = inl n.
Proof.
  intros H Hn. unfold get_num. rewrite H. rewrite take_app by (rewrite bytes_of_length; lia).
  rewrite num_of_bytes by (rewrite N2Nat.id; exact Hn). reflexivity.
Qed.

(* strings *)
Definition nz (s : bytes) : bool := forallb (fun b => negb (b =? 0)) s.

Lemma nz_cons c r : c <> 0 -> nz r = true -> nz (c :: r) = true.
Proof. intros Hc Hr. unfold nz in *. cbn [forallb]. rewrite Hr. replace (c =? 0) with false by lia. reflexivity. Qed.

Lemma nz_app a b : nz (a ++ b) = nz a && nz b.
Proof. unfold nz. apply forallb_app. Qed.

Lemma cstring_at : forall s rest, nz s = true -> cstring (s ++ 0 :: rest) = inl s.
Proof.
  induction s as [|c r IH]; intros rest H; [reflexivity|].
  unfold nz in H. cbn [forallb] in H. apply andb_true_iff in H. destruct H as [Hc Hr].
  cbn [app cstring]. replace (c =? 0) with false by lia. rewrite (IH rest Hr). reflexivity.
Qed.

(* ---- NUL-free strings: everything the specification / the validator accepts as a string ---- *)
Lemma utf8_nz_fuel : forall f s, spec_utf8_fuel f s = true -> nz s = true.
Proof.
  induction f as [|f IH]; intros s H; [discriminate|].
  cbn [spec_utf8_fuel] in H. unfold in_range, cont, in_range in H.
  destruct s as [|c1 r1]; [reflexivity|].
  destruct ((1 <=? c1) && (c1 <=? 127)) eqn:E1; [apply nz_cons; [lia | apply IH; exact H]|].
  destruct r1 as [|c2 r2]; [discriminate|].
  destruct ((194 <=? c1) && (c1 <=? 223)) eqn:E2.
  { apply andb_true_iff in H. destruct H as [H2 H]. apply nz_cons; [lia|]. apply nz_cons; [lia|]. apply IH; exact H. }
  destruct r2 as [|c3 r3]; [discriminate|].
  destruct (c1 =? 224) eqn:E3.
  { apply andb_true_iff in H. destruct H as [H2 H]. apply andb_true_iff in H2. destruct H2 as [H2 H3].
    apply nz_cons; [lia|]. apply nz_cons; [lia|]. apply nz_cons; [lia|]. apply IH; exact H. }
  destruct ((225 <=? c1) && (c1 <=? 236) || (238 <=? c1) && (c1 <=? 239)) eqn:E4.
  { apply andb_true_iff in H. destruct H as [H2 H]. apply andb_true_iff in H2. destruct H2 as [H2 H3].
    apply nz_cons; [lia|]. apply nz_cons; [lia|]. apply nz_cons; [lia|]. apply IH; exact H. }
  destruct (c1 =? 237) eqn:E5.
  { apply andb_true_iff in H. destruct H as [H2 H]. apply andb_true_iff in H2. destruct H2 as [H2 H3].
    apply nz_cons; [lia|]. apply nz_cons; [lia|]. apply nz_cons; [lia|]. apply IH; exact H. }
  destruct r3 as [|c4 r4]; [discriminate|].
  destruct (c1 =? 240) eqn:E6.
  { apply andb_true_iff in H. destruct H as [H2 H]. apply andb_true_iff in H2. destruct H2 as [H2 H4].
    apply andb_true_iff in H2. destruct H2 as [H2 H3].
    apply nz_cons; [lia|]. apply nz_cons; [lia|]. apply nz_cons; [lia|]. apply nz_cons; [lia|]. apply IH; exact H. }
  destruct ((241 <=? c1) && (c1 <=? 243)) eqn:E7.
  { apply andb_true_iff in H. destruct H as [H2 H]. apply andb_true_iff in H2. destruct H2 as [H2 H4].
    apply andb_true_iff in H2. destruct H2 as [H2 H3].
    apply nz_cons; [lia|]. apply nz_cons; [lia|]. apply nz_cons; [lia|]. apply nz_cons; [lia|]. apply IH; exact H. }
  destruct (c1 =? 244) eqn:E8; [|discriminate].
  apply andb_true_iff in H. destruct H as [H2 H]. apply andb_true_iff in H2. destruct H2 as [H2 H4].
  apply andb_true_iff in H2. destruct H2 as [H2 H3].
  apply nz_cons; [lia|]. apply nz_cons; [lia|]. apply nz_cons; [lia|]. apply nz_cons; [lia|]. apply IH; exact H.
Qed.

Lemma spec_utf8_nz s : spec_utf8 s = true -> nz s = true.
Proof. apply utf8_nz_fuel. Qed.

Lemma path_loop_nz : forall s since len, path_loop s since len = true -> nz s = true.
Proof.
  induction s as [|c r IH]; intros since len H; [reflexivity|].
  cbn [path_loop] in H. change SLASH with 47 in H.
  destruct (c =? 47) eqn:E.
  - destruct (since <? 2); [discriminate|]. apply nz_cons; [lia | apply (IH _ _ H)].
  - destruct (valid_name_character c) eqn:V; [|discriminate].
    apply nz_cons; [|apply (IH _ _ H)].
    intros ->. vm_compute in V. discriminate.
Qed.

Lemma spec_path_nz s : spec_path s = true -> nz s = true.
Proof.
  rewrite <- path_correct. unfold validate_path. destruct s as [|c r]; [discriminate|]. change SLASH with 47.
  destruct (c =? 47) eqn:E; [|discriminate]. intros H. apply nz_cons; [lia | apply (path_loop_nz _ _ _ H)].
Qed.

Lemma tygood_print_nz : forall t, tygood t = true -> nz (print_ty t) = true.
Proof.
  induction t as [c| |t IH|ts IH|k v IH] using ty_ind'; cbn [tygood print_ty]; intros H.
  - apply nz_cons; [|reflexivity]. destruct (basic_code_ne c H) as (_ & _ & _ & _ & _ & _ & ?). assumption.
  - reflexivity.
  - apply nz_cons; [lia | apply IH; exact H].
  - apply andb_true_iff in H. destruct H as [_ H]. apply nz_cons; [lia|]. rewrite nz_app. apply andb_true_iff. split; [|reflexivity].
    induction IH as [|x r Hx Hr IHr]; [reflexivity|]. cbn [forallb flat_map] in *. apply andb_true_iff in H. destruct H as [H1 H2].
    rewrite nz_app, (Hx H1), (IHr H2). reflexivity.
  - apply andb_true_iff in H. destruct H as [Hk Hv]. apply nz_cons; [lia|]. apply nz_cons.
    + destruct (basic_code_ne k Hk) as (_ & _ & _ & _ & _ & _ & ?). assumption.
    + rewrite nz_app, (IH Hv). reflexivity.
Qed.

Lemma tygood_prints_nz : forall ts, forallb tygood ts = true -> nz (flat_map print_ty ts) = true.
Proof.
  induction ts as [|t r IH]; intros H; [reflexivity|]. cbn [forallb flat_map] in *. apply andb_true_iff in H. destruct H as [H1 H2].
  rewrite nz_app, (tygood_print_nz t H1), (IH H2). reflexivity.
Qed.

Lemma validate_signature_nz s : validate_signature s = true -> nz s = true /\ nlen s <= 255.
Proof.
  intros H. destruct (validate_signature_shape s H) as (Hl & ts & Hok & _ & ->). split; [|exact Hl].
  apply tygood_prints_nz. rewrite forallb_forall in *. intros t Hin. apply ty_okb_tygood. apply Hok. exact Hin.
Qed.

(* ================= B. the type string ================================================ *)
Definition code_of (t : ty) : N :=
  match t with
  | TBasic c => c
  | TVariant => DBUS_TYPE_VARIANT
  | TArray _ => DBUS_TYPE_ARRAY
  | TStruct _ => DBUS_TYPE_STRUCT
  | TDict _ _ => DBUS_TYPE_DICT_ENTRY
  end.

Lemma map_type_char_basic c : is_basic_code c = true -> map_type_char c = inl c.
Proof.
  intros H. apply basic_code_cases in H.
  repeat (destruct H as [H|H]; [subst c; reflexivity|]). subst c; reflexivity.
Qed.

Lemma print_ty_cons t : exists c r, print_ty t = c :: r.
Proof. destruct t; cbn [print_ty]; eexists _, _; reflexivity. Qed.

Lemma first_type_print s p t tl : tygood t = true -> bytes_from s p = print_ty t ++ tl -> first_type s p = inl (code_of t).
Proof.
  intros G H. unfold first_type. destruct t as [c| |t'|ts|k v]; cbn [print_ty app] in H; rewrite (get_byte_at _ _ _ _ H); cbn [code_of].
  - apply map_type_char_basic. exact G.
  - reflexivity.
  - reflexivity.
  - reflexivity.
  - reflexivity.
Qed.

Lemma code_of_nonzero t : tygood t = true -> (code_of t =? T_INVALID) = false.
Proof.
  destruct t as [c| | | | ]; cbn [tygood code_of]; intros H; try reflexivity.
  destruct (basic_code_ne c H) as (_ & _ & _ & _ & _ & _ & ?). unfold T_INVALID. lia.
Qed.

(* the bracket-matching loops of _dbus_type_signature_next *)
Definition bracket (o c : N) : Prop := (o = 40 /\ c = 41) \/ (o = 123 /\ c = 125).

Lemma scan_other o c d b r : bracket o c -> b <> 0 -> b <> o -> b <> c ->
  sig_scan o c d (b :: r) = match sig_scan o c d r with inl n => inl (n + 1) | inr e => inr e end.
Proof.
  intros _ H0 H1 H2. cbn [sig_scan].
  replace (b =? 0) with false by lia. replace (b =? o) with false by lia. replace (b =? c) with false by lia. reflexivity.
Qed.

Lemma scan_open o c d r : bracket o c ->
  sig_scan o c d (o :: r) = match sig_scan o c (S d) r with inl n => inl (n + 1) | inr e => inr e end.
Proof. intros [[-> ->]|[-> ->]]; reflexivity. Qed.

Lemma scan_close o c d r : bracket o c ->
  sig_scan o c (S (S d)) (c :: r) = match sig_scan o c (S d) r with inl n => inl (n + 1) | inr e => inr e end.
Proof. intros [[-> ->]|[-> ->]]; reflexivity. Qed.

Lemma scan_close1 o c r : bracket o c -> sig_scan o c 1 (c :: r) = inl 1.
Proof. intros [[-> ->]|[-> ->]]; reflexivity. Qed.

Definition SCAN (t : ty) : Prop := forall o c d rest, bracket o c ->
  sig_scan o c (S d) (print_ty t ++ rest) =
  match sig_scan o c (S d) rest with inl n => inl (n + nlen (print_ty t)) | inr e => inr e end.

Lemma scan_list ts : Forall SCAN ts -> forall o c d rest, bracket o c ->
  sig_scan o c (S d) (flat_map print_ty ts ++ rest) =
  match sig_scan o c (S d) rest with inl n => inl (n + nlen (flat_map print_ty ts)) | inr e => inr e end.
Proof.
  induction 1 as [|x r Hx Hr IH]; intros o c d rest B.
  - cbn [flat_map app]. destruct (sig_scan o c (S d) rest); [f_equal; nl | reflexivity].
  - cbn [flat_map]. rewrite <- app_assoc. rewrite (Hx o c d _ B). rewrite (IH o c d rest B).
    destruct (sig_scan o c (S d) rest); [f_equal; nl | reflexivity].
Qed.

Lemma scan_print : forall t, tygood t = true -> SCAN t.
Proof.
  induction t as [c0| |t IH|ts IH|k v IH] using ty_ind'; cbn [tygood]; intros G o c d rest B.
  - destruct (basic_code_ne c0 G) as (? & ? & ? & ? & ? & ? & ?). cbn [print_ty app].
    rewrite (scan_other o c (S d) c0 rest B) by (destruct B as [[-> ->]|[-> ->]]; assumption).
    destruct (sig_scan o c (S d) rest); [f_equal; nl | reflexivity].
  - cbn [print_ty app]. rewrite (scan_other o c (S d) 118 rest B) by (destruct B as [[-> ->]|[-> ->]]; discriminate).
    destruct (sig_scan o c (S d) rest); [f_equal; nl | reflexivity].
  - cbn [print_ty app]. rewrite (scan_other o c (S d) 97 _ B) by (destruct B as [[-> ->]|[-> ->]]; discriminate). rewrite (IH G o c d rest B).
    destruct (sig_scan o c (S d) rest); [f_equal; nl | reflexivity].
  - apply andb_true_iff in G. destruct G as [_ G].
    assert (HF : Forall SCAN ts).
    { clear -IH G. induction IH as [|x r Hx Hr IHr]; [constructor|]. cbn [forallb] in G. apply andb_true_iff in G. destruct G as [G1 G2].
      constructor; [apply Hx; exact G1 | apply IHr; exact G2]. }
    cbn [print_ty app]. rewrite <- app_assoc. cbn [app].
    destruct B as [[-> ->]|[-> ->]].
    + (* our own bracket kind: depth goes up and comes back *)
      rewrite (scan_open 40 41 (S d) _ (or_introl (conj eq_refl eq_refl))).
      rewrite (scan_list ts HF 40 41 (S d) _ (or_introl (conj eq_refl eq_refl))).
      rewrite (scan_close 40 41 d _ (or_introl (conj eq_refl eq_refl))).
      destruct (sig_scan 40 41 (S d) rest); [f_equal; nl | reflexivity].
    + rewrite (scan_other 123 125 (S d) 40 _ (or_intror (conj eq_refl eq_refl))) by discriminate.
      rewrite (scan_list ts HF 123 125 d _ (or_intror (conj eq_refl eq_refl))).
      rewrite (scan_other 123 125 (S d) 41 _ (or_intror (conj eq_refl eq_refl))) by discriminate.
      destruct (sig_scan 123 125 (S d) rest); [f_equal; nl | reflexivity].
  - apply andb_true_iff in G. destruct G as [Gk Gv]. destruct (basic_code_ne k Gk) as (? & ? & ? & ? & ? & ? & ?).
    cbn [print_ty app]. rewrite <- app_assoc. cbn [app].
    destruct B as [[-> ->]|[-> ->]].
    + rewrite (scan_other 40 41 (S d) 123 _ (or_introl (conj eq_refl eq_refl))) by discriminate.
      rewrite (scan_other 40 41 (S d) k _ (or_introl (conj eq_refl eq_refl))) by assumption.
      rewrite (IH Gv 40 41 d _ (or_introl (conj eq_refl eq_refl))).
      rewrite (scan_other 40 41 (S d) 125 _ (or_introl (conj eq_refl eq_refl))) by discriminate.
      destruct (sig_scan 40 41 (S d) rest); [f_equal; nl | reflexivity].
    + rewrite (scan_open 123 125 (S d) _ (or_intror (conj eq_refl eq_refl))).
      rewrite (scan_other 123 125 (S (S d)) k _ (or_intror (conj eq_refl eq_refl))) by assumption.
      rewrite (IH Gv 123 125 (S d) _ (or_intror (conj eq_refl eq_refl))).
      rewrite (scan_close 123 125 d _ (or_intror (conj eq_refl eq_refl))).
      destruct (sig_scan 123 125 (S d) rest); [f_equal; nl | reflexivity].
Qed.

Lemma scan_prints ts : forallb tygood ts = true -> Forall SCAN ts.
Proof.
  induction ts as [|x r IH]; intros H; [constructor|]. cbn [forallb] in H. apply andb_true_iff in H. destruct H as [H1 H2].
  constructor; [apply scan_print; exact H1 | apply IH; exact H2].
Qed.

(* skip_one_complete_type on a printed type skips exactly that type *)
Lemma sig_skip_print : forall t tl, tygood t = true -> sig_skip (print_ty t ++ tl) = inl (nlen (print_ty t)).
Proof.
  induction t as [c0| |t IH|ts IH|k v IH] using ty_ind'; cbn [tygood]; intros tl G.
  - destruct (basic_code_ne c0 G) as (? & ? & ? & ? & ? & ? & ?). cbn [print_ty app sig_skip].
    change DBUS_TYPE_ARRAY with 97. change DBUS_STRUCT_END_CHAR with 41. change DBUS_DICT_ENTRY_END_CHAR with 125.
    change DBUS_STRUCT_BEGIN_CHAR with 40. change DBUS_DICT_ENTRY_BEGIN_CHAR with 123.
    replace (c0 =? 97) with false by lia. replace ((c0 =? 41) || (c0 =? 125)) with false by lia.
    replace (c0 =? 40) with false by lia. replace (c0 =? 123) with false by lia. reflexivity.
  - reflexivity.
  - cbn [print_ty app sig_skip]. change (DBUS_TYPE_ARRAY) with 97. cbn [N.eqb Pos.eqb]. rewrite (IH tl G). f_equal. rewrite nlen_cons. reflexivity.
  - apply andb_true_iff in G. destruct G as [_ G].
    cbn [print_ty app sig_skip]. change (40 =? DBUS_TYPE_ARRAY) with false. cbv iota.
    change ((40 =? DBUS_STRUCT_END_CHAR) || (40 =? DBUS_DICT_ENTRY_END_CHAR)) with false. cbv iota.
    change (40 =? DBUS_STRUCT_BEGIN_CHAR) with true. cbv iota.
    change DBUS_STRUCT_BEGIN_CHAR with 40. change DBUS_STRUCT_END_CHAR with 41.
    rewrite <- app_assoc. rewrite (scan_list ts (scan_prints ts G) 40 41 0%nat _ (or_introl (conj eq_refl eq_refl))).
    cbn [app]. rewrite (scan_close1 40 41 _ (or_introl (conj eq_refl eq_refl))). f_equal. nl.
  - apply andb_true_iff in G. destruct G as [Gk Gv]. destruct (basic_code_ne k Gk) as (? & ? & ? & ? & ? & ? & ?).
    cbn [print_ty app sig_skip]. change (123 =? DBUS_TYPE_ARRAY) with false. cbv iota.
    change ((123 =? DBUS_STRUCT_END_CHAR) || (123 =? DBUS_DICT_ENTRY_END_CHAR)) with false. cbv iota.
    change (123 =? DBUS_STRUCT_BEGIN_CHAR) with false. cbv iota. change (123 =? DBUS_DICT_ENTRY_BEGIN_CHAR) with true. cbv iota.
    change DBUS_DICT_ENTRY_BEGIN_CHAR with 123. change DBUS_DICT_ENTRY_END_CHAR with 125.
    rewrite (scan_other 123 125 1 k _ (or_intror (conj eq_refl eq_refl))) by assumption.
    rewrite <- app_assoc. rewrite (scan_print v Gv 123 125 0%nat _ (or_intror (conj eq_refl eq_refl))).
    cbn [app]. rewrite (scan_close1 123 125 _ (or_intror (conj eq_refl eq_refl))). f_equal. nl.
Qed.

Lemma sig_next_print s p t tl : tygood t = true -> bytes_from s p = print_ty t ++ tl -> sig_next s p = inl (p + nlen (print_ty t)).
Proof. intros G H. unfold sig_next. rewrite H, (sig_skip_print t tl G). reflexivity. Qed.

(* alignment of a type code = the specification's alignment of the type *)
Lemma type_align_code t : tygood t = true ->
  type_align (code_of t) = inl (spec_align t) /\ (spec_align t = 1 \/ spec_align t = 2 \/ spec_align t = 4 \/ spec_align t = 8).
Proof.
  intros G. destruct (tygood_align t G) as [E C]. split; [|exact C].
  unfold type_align. destruct t as [c| |t'|ts|k v]; cbn [code_of ty_alignment] in *.
  - rewrite E. replace (spec_align (TBasic c) =? 0) with false by lia. reflexivity.
  - reflexivity.
  - reflexivity.
  - reflexivity.
  - reflexivity.
Qed.

(* ================= C. what the reader needs of a value =============================== *)
Fixpoint rwf (le : bool) (pos : N) (v : val) {struct v} : bool :=
  let rwfs := (fix rwfs (vs : list val) (pos : N) : bool :=
                 match vs with
                 | [] => true
                 | x :: r => rwf le pos x && rwfs r (pos + nlen (enc le x pos))
                 end) in
  match v with
  | VNum c n => match fixed_size c with Some sz => n <? 256 ^ sz | None => false end
  | VStr c s => nz s && (if c =? 103 then nlen s <? 256 else ((c =? 115) || (c =? 111)) && (nlen s <? 4294967296))
  | VArr et vs =>
      let start := pos + pad_amount pos 4 + 4 + pad_amount (pos + pad_amount pos 4 + 4) (spec_align et) in
      ty_okb (TArray et) && forallb (fun x => ty_eqb (ty_of_val x) et) vs &&
      (nlen (encs le vs start) <? 4294967296) && rwfs vs start
  | VStruct fs => negb (isnil fs) && rwfs fs (pos + pad_amount pos 8)
  | VDictE k x => is_basic_val k && rwfs [k; x] (pos + pad_amount pos 8)
  | VVar t x => ty_eqb (ty_of_val x) t && ty_okb t && (nlen (print_ty t) <? 256) && rwf le (pos + (nlen (print_ty t) + 2)) x
  end.

Fixpoint rwfs (le : bool) (vs : list val) (pos : N) : bool :=
  match vs with
  | [] => true
  | x :: r => rwf le pos x && rwfs le r (pos + nlen (enc le x pos))
  end.

Lemma rwfs_inner le : forall vs pos,
  (fix rwfs (vs : list val) (pos : N) : bool :=
     match vs with
     | [] => true
     | x :: r => rwf le pos x && rwfs r (pos + nlen (enc le x pos))
     end) vs pos = rwfs le vs pos.
Proof. induction vs as [|x r IH]; intros; [reflexivity|]. cbn [rwfs]. rewrite IH. reflexivity. Qed.

Lemma rwf_arr le pos et vs :
  rwf le pos (VArr et vs) =
  ty_okb (TArray et) && forallb (fun x => ty_eqb (ty_of_val x) et) vs && (nlen (encs le vs (arr_start pos et)) <? 4294967296) &&
  rwfs le vs (arr_start pos et).
Proof. cbn [rwf]. rewrite (rwfs_inner le vs). reflexivity. Qed.

Lemma rwf_struct le pos fs : rwf le pos (VStruct fs) = negb (isnil fs) && rwfs le fs (pos + pad_amount pos 8).
Proof. cbn [rwf]. rewrite (rwfs_inner le fs). reflexivity. Qed.

Lemma rwf_dict le pos k x : rwf le pos (VDictE k x) = is_basic_val k && rwfs le [k; x] (pos + pad_amount pos 8).
Proof. cbn [rwf]. rewrite (rwfs_inner le [k; x]). reflexivity. Qed.

(* ---- the types of rwf values ------------------------------------------------------- *)
Lemma fixed_basic c sz : fixed_size c = Some sz -> is_basic_code c = true.
Proof.
  intros H. apply fixed_codes in H.
  destruct H as [[-> _] | [[[-> | ->] _] | [[[-> | [-> | [-> | ->]]] _] | [[-> | [-> | ->]] _]]]]; reflexivity.
Qed.

Lemma rwf_tygood le : forall v pos, rwf le pos v = true -> tygood (ty_of_val v) = true.
Proof.
  induction v as [c n|c s|et vs IH|fs IH|k x IHk IHx|t x IHx] using val_ind'; intros pos H.
  - cbn [rwf] in H. destruct (fixed_size c) as [sz|] eqn:E; [|discriminate]. exact (fixed_basic c sz E).
  - cbn [rwf] in H. apply andb_true_iff in H. destruct H as [_ H]. cbn [ty_of_val tygood].
    destruct (c =? 103) eqn:E; [apply N.eqb_eq in E; subst c; reflexivity|].
    apply andb_true_iff in H. destruct H as [H _]. apply orb_true_iff in H. destruct H as [H|H]; apply N.eqb_eq in H; subst c; reflexivity.
  - rewrite rwf_arr in H. apply andb_true_iff in H. destruct H as [H _]. apply andb_true_iff in H. destruct H as [H _].
    apply andb_true_iff in H. destruct H as [H _]. cbn [ty_of_val]. apply ty_okb_tygood. exact H.
  - rewrite rwf_struct in H. apply andb_true_iff in H. destruct H as [Hne Hs]. cbn [ty_of_val tygood].
    apply andb_true_iff. split; [destruct fs; [discriminate|reflexivity]|].
    clear Hne. revert Hs. generalize (pos + pad_amount pos 8). induction IH as [|f r Hf Hr IHr]; intros p Hs; [reflexivity|].
    cbn [rwfs] in Hs. apply andb_true_iff in Hs. destruct Hs as [H1 H2]. cbn [map forallb]. rewrite (Hf _ H1). exact (IHr _ H2).
  - rewrite rwf_dict in H. apply andb_true_iff in H. destruct H as [Hk Hs]. cbn [rwfs] in Hs.
    apply andb_true_iff in Hs. destruct Hs as [H1 Hs]. apply andb_true_iff in Hs. destruct Hs as [H2 _].
    cbn [ty_of_val tygood]. rewrite (IHx _ H2), andb_true_r.
    specialize (IHk _ H1). destruct k; try discriminate; exact IHk.
  - reflexivity.
Qed.

Lemma ty_okb_elem t : ty_okb t = true -> ty_okb (TArray t) = true.
Proof. destruct t; cbn [ty_okb]; auto. discriminate. Qed.

(* ---- every rwf value occupies at least one byte --------------------------------------- *)
Lemma rwf_nonempty le : forall v pos, rwf le pos v = true -> 0 < nlen (enc le v pos).
Proof.
  induction v as [c n|c s|et vs IH|fs IH|k x IHk IHx|t x IHx] using val_ind'; intros pos H.
  - cbn [rwf] in H. rewrite enc_num. destruct (fixed_size c) as [sz|] eqn:Hsz; [|discriminate].
    apply fixed_size_pos in Hsz. rewrite nlen_app, nlen_zeros, bytes_of_length. lia.
  - rewrite enc_str. destruct (c =? 103).
    + rewrite nlen_cons. lia.
    + rewrite !nlen_app, nlen_zeros, bytes_of_length. lia.
  - rewrite enc_arr. cbv zeta. rewrite !nlen_app, nlen_zeros, bytes_of_length. lia.
  - rewrite rwf_struct in H. rewrite enc_struct. destruct fs as [|f fs']; [discriminate|]. cbn [isnil negb andb rwfs] in H.
    apply andb_true_iff in H. destruct H as [Hf _]. inversion IH as [|? ? Pf _]; subst.
    specialize (Pf _ Hf). cbn [encs]. rewrite !nlen_app. lia.
  - rewrite rwf_dict in H. rewrite enc_dict. apply andb_true_iff in H. destruct H as [_ H]. cbn [rwfs] in H.
    apply andb_true_iff in H. destruct H as [Hk _]. specialize (IHk _ Hk). cbn [encs]. rewrite !nlen_app. lia.
  - rewrite enc_var. cbv zeta. rewrite nlen_app, nlen_cons. lia.
Qed.

Lemma rwfs_length le : forall vs pos, rwfs le vs pos = true -> (length vs <= length (encs le vs pos))%nat.
Proof.
  induction vs as [|x r IH]; intros pos H; [cbn; lia|].
  cbn [rwfs] in H. apply andb_true_iff in H. destruct H as [Hx Hr].
  pose proof (rwf_nonempty le x _ Hx) as Hn. specialize (IH _ Hr). cbn [encs length]. rewrite app_length. unfold nlen in Hn. lia.
Qed.

(* ---- alignment padding in front of a value ---------------------------------------------- *)
Lemma rwf_align le v pos : rwf le pos v = true ->
  spec_align (ty_of_val v) = 1 \/ spec_align (ty_of_val v) = 2 \/ spec_align (ty_of_val v) = 4 \/ spec_align (ty_of_val v) = 8.
Proof. intros H. exact (proj2 (tygood_align _ (rwf_tygood le v pos H))). Qed.

Lemma rwf_enc_split le v pos : rwf le pos v = true ->
  enc le v pos = zeros (pad_amount pos (spec_align (ty_of_val v))) ++ enc le v (pos + pad_amount pos (spec_align (ty_of_val v))).
Proof.
  intros H. pose proof (rwf_align le v pos H) as Hal.
  destruct v as [c n|c s|et vs|fs|k x|t x]; cbn [ty_of_val spec_align] in *.
  - cbn [rwf] in H. destruct (fixed_size c) as [sz|] eqn:Hsz; [|discriminate].
    rewrite !enc_num, Hsz. rewrite (pad_amount_aligned pos sz Hal). cbn [zeros repeat N.to_nat app]. reflexivity.
  - cbn [rwf] in H. apply andb_true_iff in H. destruct H as [_ H]. rewrite !enc_str.
    destruct (c =? 103) eqn:E3.
    + apply N.eqb_eq in E3. subst c. cbn [fixed_size N.eqb Pos.eqb orb]. change (pad_amount pos 1) with ((1 - pos mod 1) mod 1).
      replace ((1 - pos mod 1) mod 1) with 0 by (rewrite N.mod_1_r; reflexivity). reflexivity.
    + assert (Hc : c = 115 \/ c = 111).
      { apply andb_true_iff in H. destruct H as [H _]. apply orb_true_iff in H. destruct H as [H|H]; apply N.eqb_eq in H; auto. }
      replace (match fixed_size c with Some n => n | None => 4 end) with 4 in * by (destruct Hc as [-> | ->]; reflexivity).
      rewrite (pad_amount_aligned pos 4 ltac:(lia)). cbn [zeros repeat N.to_nat app]. reflexivity.
  - rewrite !enc_arr. cbv zeta. rewrite (pad_amount_aligned pos 4 ltac:(lia)). rewrite N.add_0_r. cbn [zeros repeat N.to_nat app]. reflexivity.
  - rewrite !enc_struct. rewrite (pad_amount_aligned pos 8 ltac:(lia)). rewrite N.add_0_r. cbn [zeros repeat N.to_nat app]. reflexivity.
  - rewrite !enc_dict. rewrite (pad_amount_aligned pos 8 ltac:(lia)). rewrite N.add_0_r. cbn [zeros repeat N.to_nat app]. reflexivity.
  - change (pad_amount pos 1) with ((1 - pos mod 1) mod 1). replace ((1 - pos mod 1) mod 1) with 0 by (rewrite N.mod_1_r; reflexivity).
    rewrite N.add_0_r. reflexivity.
Qed.

Lemma rwf_split le v pos : rwf le (pos + pad_amount pos (spec_align (ty_of_val v))) v = rwf le pos v.
Proof.
  destruct v as [c n|c s|et vs|fs|k x|t x]; cbn [ty_of_val spec_align].
  - reflexivity.
  - reflexivity.
  - rewrite !rwf_arr. unfold arr_start. rewrite (pad_amount_aligned pos 4 ltac:(lia)). rewrite N.add_0_r. reflexivity.
  - rewrite !rwf_struct. rewrite (pad_amount_aligned pos 8 ltac:(lia)). rewrite N.add_0_r. reflexivity.
  - rewrite !rwf_dict. rewrite (pad_amount_aligned pos 8 ltac:(lia)). rewrite N.add_0_r. reflexivity.
  - change (pad_amount pos 1) with ((1 - pos mod 1) mod 1). replace ((1 - pos mod 1) mod 1) with 0 by (rewrite N.mod_1_r; reflexivity).
    rewrite N.add_0_r. reflexivity.
Qed.

(* ---- nesting fuel: every level costs a byte of signature or of body ------------------------ *)
Definition tysig (vs : list val) : bytes := flat_map print_ty (map ty_of_val vs).

Lemma heights_bound_list le (vs : list val) :
  Forall (fun v => forall pos, rwf le pos v = true -> (height v <= length (print_ty (ty_of_val v)) + length (enc le v pos))%nat) vs ->
  forall pos, rwfs le vs pos = true -> (heights vs <= length (tysig vs) + length (encs le vs pos))%nat.
Proof.
  induction 1 as [|x r Hx Hr IH]; intros pos H; [cbn; lia|].
  cbn [rwfs] in H. apply andb_true_iff in H. destruct H as [H1 H2]. specialize (Hx _ H1). specialize (IH _ H2).
  rewrite heights_cons. unfold tysig in *. cbn [map flat_map encs]. rewrite !app_length. lia.
Qed.

Lemma heights_bound_elems le et (vs : list val) :
  Forall (fun v => forall pos, rwf le pos v = true -> (height v <= length (print_ty (ty_of_val v)) + length (enc le v pos))%nat) vs ->
  forall pos, rwfs le vs pos = true -> forallb (fun x => ty_eqb (ty_of_val x) et) vs = true ->
    (heights vs <= length (print_ty et) + length (encs le vs pos))%nat.
Proof.
  induction 1 as [|x r Hx Hr IH]; intros pos H Ht; [cbn; lia|].
  cbn [rwfs] in H. apply andb_true_iff in H. destruct H as [H1 H2].
  cbn [forallb] in Ht. apply andb_true_iff in Ht. destruct Ht as [T1 T2]. apply ty_eqb_eq in T1.
  specialize (Hx _ H1). specialize (IH _ H2 T2). rewrite T1 in Hx.
  rewrite heights_cons. cbn [encs]. rewrite !app_length. lia.
Qed.

Lemma height_bound le : forall v pos, rwf le pos v = true -> (height v <= length (print_ty (ty_of_val v)) + length (enc le v pos))%nat.
Proof.
  induction v as [c n|c s|et vs IH|fs IH|k x IHk IHx|t x IHx] using val_ind'; intros pos H.
  - cbn [height]. lia.
  - cbn [height]. lia.
  - rewrite rwf_arr in H. apply andb_true_iff in H. destruct H as [H Hs]. apply andb_true_iff in H. destruct H as [H _].
    apply andb_true_iff in H. destruct H as [_ Ht].
    pose proof (heights_bound_elems le et vs IH _ Hs Ht) as B. cbn [height]. fold (heights vs).
    rewrite enc_arr. cbv zeta. fold (arr_start pos et). cbn [ty_of_val print_ty length]. rewrite !app_length. lia.
  - rewrite rwf_struct in H. apply andb_true_iff in H. destruct H as [_ Hs].
    pose proof (heights_bound_list le fs IH _ Hs) as B. cbn [height]. fold (heights fs).
    rewrite enc_struct. cbn [ty_of_val print_ty length]. rewrite !app_length. unfold tysig in B. cbn [length]. lia.
  - rewrite rwf_dict in H. apply andb_true_iff in H. destruct H as [Hk Hs].
    pose proof (heights_bound_list le [k; x] (Forall_cons k IHk (Forall_cons x IHx (Forall_nil _))) _ Hs) as B.
    cbn [height]. cbn [heights fold_right] in B. rewrite enc_dict. cbn [ty_of_val print_ty length]. rewrite !app_length.
    unfold tysig in B. cbn [map flat_map] in B. rewrite !app_length in B. cbn [length] in *.
    assert (Hkl : length (print_ty (ty_of_val k)) = 1%nat) by (destruct k; try discriminate; reflexivity). lia.
  - cbn [rwf] in H. apply andb_true_iff in H. destruct H as [H Hx]. apply andb_true_iff in H. destruct H as [H _].
    apply andb_true_iff in H. destruct H as [Ht _]. apply ty_eqb_eq in Ht.
    specialize (IHx _ Hx). rewrite Ht in IHx. cbn [height]. rewrite enc_var. cbv zeta. cbn [ty_of_val print_ty length].
    rewrite !app_length. cbn [length]. rewrite app_length. cbn [length].
    replace (pos + nlen (nlen (print_ty t) :: print_ty t ++ [0])) with (pos + (nlen (print_ty t) + 2)) by nl. lia.
Qed.

Lemma heights_bound le vs pos : rwfs le vs pos = true -> (heights vs <= length (tysig vs) + length (encs le vs pos))%nat.
Proof. apply heights_bound_list. apply Forall_forall. intros v _. apply height_bound. Qed.

(* ---- rwf follows from the validator's guarantee [wfx] (hence from the specification's [wfb]) ---- *)
Lemma ty_okb_struct_fields ts : ty_okb (TStruct ts) = true -> forallb (fun t => ty_okb (TArray t)) ts = true.
Proof.
  cbn [ty_okb]. intros H. apply andb_true_iff in H. destruct H as [_ H]. rewrite forallb_forall in *. intros t Hin.
  apply ty_okb_elem. apply H. exact Hin.
Qed.

Lemma sig_model_okb t : sig_model t = true -> ty_okb t = true /\ nlen (print_ty t) < 256.
Proof.
  unfold sig_model. intros H. apply andb_true_iff in H. destruct H as [H Hp]. apply andb_true_iff in H. destruct H as [Hl _].
  destruct (parse_sig (print_ty t)) as [[|t' [|? ?]]|] eqn:P; try discriminate. apply ty_eqb_eq in Hp. subst t'.
  apply parse_sig_sound in P. destruct P as [_ P]. cbn [forallb] in P. rewrite andb_true_r in P. split; [exact P | lia].
Qed.

Lemma wfxs_rwfs le : forall vs,
  Forall (fun v => forall depth pos, wfx le depth pos v = true -> ty_okb (TArray (ty_of_val v)) = true -> rwf le pos v = true) vs ->
  forall depth pos, wfxs le vs depth pos = true -> forallb (fun t => ty_okb (TArray t)) (map ty_of_val vs) = true -> rwfs le vs pos = true.
Proof.
  induction 1 as [|x r Hx Hr IH]; intros depth pos H Ht; [reflexivity|].
  cbn [wfxs] in H. apply andb_true_iff in H. destruct H as [H1 H2].
  cbn [map forallb] in Ht. apply andb_true_iff in Ht. destruct Ht as [T1 T2].
  cbn [rwfs]. rewrite (Hx _ _ H1 T1). exact (IH _ _ H2 T2).
Qed.

Theorem wfx_rwf le : forall v depth pos, wfx le depth pos v = true -> ty_okb (TArray (ty_of_val v)) = true -> rwf le pos v = true.
Proof.
  induction v as [c n|c s|et vs IH|fs IH|k x IHk IHx|t x IHx] using val_ind'; intros depth pos H Hty.
  - cbn [wfx] in H. apply andb_true_iff in H. destruct H as [_ H]. cbn [rwf].
    destruct (fixed_size c) as [sz|]; [|discriminate]. apply andb_true_iff in H. exact (proj1 H).
  - cbn [wfx] in H. apply andb_true_iff in H. destruct H as [_ H]. cbn [rwf].
    destruct (c =? 115) eqn:E1.
    { apply andb_true_iff in H. destruct H as [Hu Hl]. rewrite (spec_utf8_nz s Hu). replace (c =? 103) with false by lia. rewrite Hl. reflexivity. }
    destruct (c =? 111) eqn:E2.
    { apply andb_true_iff in H. destruct H as [Hu Hl]. rewrite (spec_path_nz s Hu). replace (c =? 103) with false by lia. rewrite Hl. reflexivity. }
    destruct (c =? 103) eqn:E3; [|discriminate].
    destruct (validate_signature_nz s H) as [Hz Hl]. rewrite Hz. cbn [andb]. lia.
  - rewrite wfx_arr in H. apply andb_true_iff in H. destruct H as [_ H]. apply andb_true_iff in H. destruct H as [H Hs].
    apply andb_true_iff in H. destruct H as [Ht Hl]. rewrite rwf_arr. cbn [ty_of_val] in Hty.
    assert (Hok : ty_okb (TArray et) = true).
    { destruct (ty_okb_array _ Hty) as [(k & v & E & _)|Hok]; [discriminate | exact Hok]. }
    rewrite Hok, Ht. cbn [andb]. replace (nlen (encs le vs (arr_start pos et)) <? 4294967296) with true by (unfold max_array in Hl; lia).
    cbn [andb]. apply (wfxs_rwfs le vs IH _ _ Hs).
    clear -Ht Hok. induction vs as [|x r IHr]; [reflexivity|]. cbn [forallb map] in *. apply andb_true_iff in Ht. destruct Ht as [T1 T2].
    apply ty_eqb_eq in T1. rewrite T1, Hok. exact (IHr T2).
  - rewrite wfx_struct in H. apply andb_true_iff in H. destruct H as [_ H]. apply andb_true_iff in H. destruct H as [Hne Hs].
    rewrite rwf_struct. cbn [ty_of_val] in Hty.
    assert (Hok : ty_okb (TStruct (map ty_of_val fs)) = true).
    { destruct (ty_okb_array _ Hty) as [(k & v & E & _)|Hok]; [discriminate | exact Hok]. }
    replace (negb (isnil fs)) with true by (destruct fs; [discriminate|reflexivity]). cbn [andb].
    exact (wfxs_rwfs le fs IH _ _ Hs (ty_okb_struct_fields _ Hok)).
  - rewrite wfx_dict in H. apply andb_true_iff in H. destruct H as [_ H]. apply andb_true_iff in H. destruct H as [Hk Hs].
    rewrite rwf_dict, Hk. cbn [andb]. cbn [ty_of_val] in Hty.
    destruct (ty_okb_array _ Hty) as [(k' & v' & E & Hk' & Hv')|Hok]; [|discriminate]. injection E as <- <-.
    apply (wfxs_rwfs le [k; x] (Forall_cons k IHk (Forall_cons x IHx (Forall_nil _))) _ _ Hs).
    cbn [map forallb]. rewrite (ty_okb_elem _ Hv'), andb_true_r.
    destruct k; try discriminate; cbn [ty_of_val ty_okb]; exact Hk'.
  - cbn [wfx] in H. apply andb_true_iff in H. destruct H as [_ H]. apply andb_true_iff in H. destruct H as [H Hx].
    apply andb_true_iff in H. destruct H as [Ht Hm]. destruct (sig_model_okb t Hm) as [Hok Hl].
    cbn [rwf]. rewrite Ht, Hok. replace (nlen (print_ty t) <? 256) with true by lia. cbn [andb].
    apply (IHx _ _ Hx). apply ty_eqb_eq in Ht. rewrite Ht. apply ty_okb_elem. exact Hok.
Qed.

Corollary wfxs_rwfs_all le vs depth pos : wfxs le vs depth pos = true -> forallb ty_okb (map ty_of_val vs) = true -> rwfs le vs pos = true.
Proof.
  intros H Ht. apply (wfxs_rwfs le vs) with (depth := depth); [|exact H|].
  - apply Forall_forall. intros v _. apply wfx_rwf.
  - rewrite forallb_forall in *. intros t Hin. apply ty_okb_elem. apply Ht. exact Hin.
Qed.

Corollary wfsb_rwfs le vs depth pos : wfsb le vs depth pos = true -> forallb ty_okb (map ty_of_val vs) = true -> rwfs le vs pos = true.
Proof.
  intros H. apply (wfxs_rwfs_all le vs depth pos).
  apply (wfsb_wfxs le vs); [|exact H]. apply Forall_forall. intros v _ d p. apply wfb_wfx.
Qed.

(* ================= D. the machine on canonical encodings ================================ *)
Lemma fixed_width_size c sz : fixed_size c = Some sz -> fixed_width c = sz /\ (sz = 1 \/ sz = 2 \/ sz = 4 \/ sz = 8).
Proof.
  intros H. apply fixed_codes in H.
  destruct H as [[-> ->] | [[[-> | ->] ->] | [[[-> | [-> | [-> | ->]]] ->] | [[-> | [-> | ->]] ->]]]]; (split; [reflexivity | lia]).
Qed.

Section Machine.
  Variables (le : bool) (sigz data : bytes).
  Local Notation TS := (tstr sigz data).
  Local Notation CT := (current_type le sigz data).
  Local Notation RECURSE := (recurse sigz data).
  Local Notation RNEXT := (rnext le sigz data).
  Local Notation DUMP := (dump le sigz data).

  (* ---- leaves ------------------------------------------------------------------------- *)
  Lemma skip_basic_num c sz n p : fixed_size c = Some sz ->
    skip_basic le data c p = inl (p + nlen (enc le (VNum c n) p)).
  Proof.
    intros H. destruct (fixed_width_size c sz H) as [W S]. unfold skip_basic. rewrite W.
    replace (negb (sz =? 0)) with true by lia. rewrite enc_num, H. rewrite (align_up_pad p sz S).
    rewrite nlen_app, nlen_zeros, bytes_of_length. f_equal. lia.
  Qed.

  Lemma read_basic_num c sz n p rest : fixed_size c = Some sz -> n < 256 ^ sz ->
    bytes_from data p = enc le (VNum c n) p ++ rest ->
    marshal_read_basic le data p c = inl (VNum c n).
  Proof.
    intros H Hn D. destruct (fixed_width_size c sz H) as [W S]. unfold marshal_read_basic. rewrite W.
    replace (negb (sz =? 0)) with true by lia. rewrite enc_num, H in D. rewrite <- app_assoc in D.
    rewrite (align_up_pad p sz S).
    rewrite (get_num_at le data _ sz n rest); [reflexivity | | exact Hn].
    apply (bf_step' data p _ _ _ D). rewrite nlen_zeros. reflexivity.
  Qed.

  Lemma read_uint32_at p v rest : v < 4294967296 ->
    bytes_from data p = zeros (pad_amount p 4) ++ bytes_of le 4 v ++ rest ->
    read_uint32 le data p = inl (v, p + pad_amount p 4 + 4).
  Proof.
    intros Hv D. unfold read_uint32. rewrite (align_up_pad p 4 ltac:(lia)).
    rewrite (get_num_at le data _ 4 v rest); [reflexivity | | exact Hv].
    apply (bf_step' data p _ _ _ D). rewrite nlen_zeros. reflexivity.
  Qed.

  Lemma skip_basic_str_eq c p : c = 115 \/ c = 111 ->
    skip_basic le data c p = match read_uint32 le data p with inl (len, q) => inl (q + len + 1) | inr z => inr z end.
  Proof. intros [-> | ->]; reflexivity. Qed.

  Lemma mrb_str_eq c p : c = 115 \/ c = 111 ->
    marshal_read_basic le data p c =
    match read_uint32 le data p with
    | inl (_, q) => match cstring (bytes_from data q) with inl s => inl (VStr c s) | inr z => inr z end
    | inr z => inr z
    end.
  Proof. intros [-> | ->]; reflexivity. Qed.

  Lemma skip_basic_str c s p rest : c = 115 \/ c = 111 -> nlen s < 4294967296 ->
    bytes_from data p = enc le (VStr c s) p ++ rest ->
    skip_basic le data c p = inl (p + nlen (enc le (VStr c s) p)).
  Proof.
    intros Hc Hl D. rewrite (skip_basic_str_eq c p Hc).
    rewrite enc_str in *. replace (c =? 103) with false in * by (destruct Hc as [-> | ->]; reflexivity).
    rewrite <- !app_assoc in D. rewrite (read_uint32_at p (nlen s) _ Hl D).
    f_equal. rewrite !nlen_app, nlen_zeros, (bytes_of_length le 4). nl.
  Qed.

  Lemma read_basic_str c s p rest : c = 115 \/ c = 111 -> nlen s < 4294967296 -> nz s = true ->
    bytes_from data p = enc le (VStr c s) p ++ rest ->
    marshal_read_basic le data p c = inl (VStr c s).
  Proof.
    intros Hc Hl Hz D. rewrite (mrb_str_eq c p Hc).
    rewrite enc_str in *. replace (c =? 103) with false in * by (destruct Hc as [-> | ->]; reflexivity).
    rewrite <- !app_assoc in D. rewrite (read_uint32_at p (nlen s) _ Hl D).
    assert (D2 : bytes_from data (p + pad_amount p 4 + 4) = s ++ 0 :: rest).
    { rewrite app_assoc in D. apply (bf_step' data p _ _ _ D). rewrite nlen_app, nlen_zeros, (bytes_of_length le 4). lia. }
    rewrite D2, (cstring_at s rest Hz). reflexivity.
  Qed.

  Lemma skip_basic_sig s p rest : bytes_from data p = enc le (VStr 103 s) p ++ rest ->
    skip_basic le data 103 p = inl (p + nlen (enc le (VStr 103 s) p)).
  Proof.
    intros D. change (skip_basic le data 103 p) with (match get_byte data p with inl len => inl (p + len + 2) | inr z => @inr N _ z end).
    rewrite enc_str in *. change (103 =? 103) with true in *. cbv iota in *. cbn [app] in D. rewrite (get_byte_at _ _ _ _ D). f_equal. nl.
  Qed.

  Lemma read_basic_sig s p rest : nz s = true -> bytes_from data p = enc le (VStr 103 s) p ++ rest ->
    marshal_read_basic le data p 103 = inl (VStr 103 s).
  Proof.
    intros Hz D.
    change (marshal_read_basic le data p 103) with
      (match get_byte data p with
       | inl _ => match cstring (bytes_from data (p + 1)) with inl x => inl (VStr 103 x) | inr z => @inr val _ z end
       | inr z => inr z end).
    rewrite enc_str in *. change (103 =? 103) with true in *. cbv iota in *. cbn [app] in D. rewrite (get_byte_at _ _ _ _ D).
    assert (D2 : bytes_from data (p + 1) = s ++ 0 :: rest).
    { change (nlen s :: (s ++ [0]) ++ rest) with ([nlen s] ++ (s ++ [0]) ++ rest) in D. rewrite <- app_assoc in D. exact (bf_step data p _ _ D). }
    rewrite D2, (cstring_at s rest Hz). reflexivity.
  Qed.

  Lemma skip_array_at et vs p rest : tygood et = true -> nlen (encs le vs (arr_start p et)) < 4294967296 ->
    bytes_from data p = enc le (VArr et vs) p ++ rest ->
    skip_array le data (code_of et) p = inl (p + nlen (enc le (VArr et vs) p)).
  Proof.
    intros G Hl D. destruct (type_align_code et G) as [A S]. unfold skip_array.
    rewrite enc_arr in *. cbv zeta in *. fold (arr_start p et) in *. rewrite <- !app_assoc in D.
    rewrite (align_up_pad p 4 ltac:(lia)).
    assert (D1 : bytes_from data (p + pad_amount p 4) =
                 zeros (pad_amount (p + pad_amount p 4) 4) ++ bytes_of le 4 (nlen (encs le vs (arr_start p et))) ++
                 zeros (pad_amount (p + pad_amount p 4 + 4) (spec_align et)) ++ encs le vs (arr_start p et) ++ rest).
    { rewrite (pad_amount_aligned p 4 ltac:(lia)). cbn [zeros N.to_nat repeat app].
      apply (bf_step' data p _ _ _ D). rewrite nlen_zeros. reflexivity. }
    rewrite (read_uint32_at _ _ _ Hl D1). rewrite (pad_amount_aligned p 4 ltac:(lia)). rewrite N.add_0_r. rewrite A.
    rewrite (align_up_pad _ _ S). f_equal. rewrite !nlen_app, !nlen_zeros, (bytes_of_length le 4). unfold arr_start. lia.
  Qed.

  (* ---- positions -------------------------------------------------------------------------- *)
  Definition ty_at (r : reader) (x : bytes) : Prop := exists tl, bytes_from (TS r) (r_tpos r) = x ++ tl.

  Definition at_val (r : reader) (v : val) : Prop :=
    (exists rest, bytes_from data (r_vpos r) = enc le v (r_vpos r) ++ rest) /\
    ty_at r (print_ty (ty_of_val v)) /\
    rwf le (r_vpos r) v = true.

  Definition arr_ok (r : reader) (vs : list val) : Prop :=
    exists et L,
      forallb (fun x => ty_eqb (ty_of_val x) et) vs = true /\ tygood et = true /\
      (vs <> [] -> ty_at r (print_ty et)) /\
      r_lenoff r + 4 <= r_start r /\ r_lenoff r < 8 /\ (r_start r - r_lenoff r - 4) mod 4 = 0 /\
      get_num le data (r_start r - r_lenoff r - 4) 4 = inl L /\
      r_start r <= r_vpos r /\ r_start r + L = r_vpos r + nlen (encs le vs (r_vpos r)).

  Definition lvl_ok (r : reader) (vs : list val) : Prop :=
    (exists rest, bytes_from data (r_vpos r) = encs le vs (r_vpos r) ++ rest) /\
    rwfs le vs (r_vpos r) = true /\
    match r_klass r with
    | K_ARRAY => r_finished r = false /\ arr_ok r vs
    | K_STRUCT => r_finished r = isnil vs /\ (vs <> [] -> ty_at r (tysig vs ++ [41]))
    | K_DICT => r_finished r = isnil vs /\ (vs <> [] -> ty_at r (tysig vs ++ [125]))
    | _ => r_finished r = false /\ ty_at r (tysig vs ++ [0])
    end.

  Lemma tysig_cons v vs x : tysig (v :: vs) ++ x = print_ty (ty_of_val v) ++ (tysig vs ++ x).
  Proof. unfold tysig. cbn [map flat_map]. rewrite app_assoc. reflexivity. Qed.

  Lemma ty_at_head r a b : ty_at r (a ++ b) -> ty_at r a.
  Proof. intros [tl H]. exists (b ++ tl). rewrite H, app_assoc. reflexivity. Qed.

  Lemma lvl_at_val r v vs : lvl_ok r (v :: vs) -> at_val r v.
  Proof.
    intros (D & W & C). cbn [rwfs] in W. apply andb_true_iff in W. destruct W as [Wv Ws].
    split; [|split; [|exact Wv]].
    - destruct D as [rest D]. cbn [encs] in D. rewrite <- app_assoc in D. eexists. exact D.
    - destruct (r_klass r).
      + destruct C as [_ T]. rewrite tysig_cons in T. exact (ty_at_head _ _ _ T).
      + destruct C as [_ T]. specialize (T ltac:(discriminate)). rewrite tysig_cons in T. exact (ty_at_head _ _ _ T).
      + destruct C as [_ T]. specialize (T ltac:(discriminate)). rewrite tysig_cons in T. exact (ty_at_head _ _ _ T).
      + destruct C as [_ (et & L & Ht & _ & T & _)]. specialize (T ltac:(discriminate)).
        cbn [forallb] in Ht. apply andb_true_iff in Ht. destruct Ht as [Ht _]. apply ty_eqb_eq in Ht. rewrite Ht. exact T.
      + destruct C as [_ T]. rewrite tysig_cons in T. exact (ty_at_head _ _ _ T).
  Qed.

  Lemma array_len_ok r vs : r_klass r = K_ARRAY -> lvl_ok r vs ->
    exists L, array_len le data r = inl L /\ r_start r <= r_vpos r /\ r_start r + L = r_vpos r + nlen (encs le vs (r_vpos r)).
  Proof.
    intros K (_ & _ & C). rewrite K in C. destruct C as [_ (et & L & _ & _ & _ & H1 & H2 & H3 & H4 & H5 & H6)].
    exists L. split; [|split; assumption]. unfold array_len.
    replace (r_start r <? r_lenoff r + 4) with false by lia.
    rewrite (align_up_pad _ 4 ltac:(lia)). rewrite (aligned_no_pad _ 4 ltac:(lia) H3). rewrite N.add_0_r, N.eqb_refl. cbn [negb].
    rewrite H4. replace (r_start r - (r_start r - r_lenoff r - 4) - 4 <? 8) with true by lia. reflexivity.
  Qed.

  Lemma ct_cons r v vs : lvl_ok r (v :: vs) -> CT r = inl (code_of (ty_of_val v)).
  Proof.
    intros H. pose proof (lvl_at_val r v vs H) as (_ & [tl T] & W). pose proof (rwf_tygood le v _ W) as G.
    unfold current_type. destruct (r_klass r) eqn:K.
    - destruct H as (_ & _ & C). rewrite K in C. destruct C as [-> _]. apply (first_type_print _ _ _ _ G T).
    - destruct H as (_ & _ & C). rewrite K in C. destruct C as [-> _]. cbn [isnil]. apply (first_type_print _ _ _ _ G T).
    - destruct H as (_ & _ & C). rewrite K in C. destruct C as [-> _]. cbn [isnil]. apply (first_type_print _ _ _ _ G T).
    - destruct (array_len_ok r _ K H) as (L & AL & S1 & S2).
      destruct H as (_ & W2 & C). rewrite K in C. destruct C as [-> _].
      unfold check_finished. rewrite AL. cbn [encs] in S2. rewrite nlen_app in S2. pose proof (rwf_nonempty le v _ W) as NE.
      replace (r_vpos r <=? r_start r + L) with true by lia. replace (r_start r <=? r_vpos r) with true by lia. cbn [negb].
      replace (r_vpos r =? r_start r + L) with false by lia. apply (first_type_print _ _ _ _ G T).
    - destruct H as (_ & _ & C). rewrite K in C. destruct C as [-> _]. apply (first_type_print _ _ _ _ G T).
  Qed.

  Lemma ct_nil r : lvl_ok r [] -> CT r = inl T_INVALID.
  Proof.
    intros H. unfold current_type. destruct (r_klass r) eqn:K.
    - destruct H as (_ & _ & C). rewrite K in C. destruct C as [-> [tl T]]. cbn [tysig map flat_map app] in T.
      unfold first_type. rewrite (get_byte_at _ _ _ _ T). reflexivity.
    - destruct H as (_ & _ & C). rewrite K in C. destruct C as [-> _]. reflexivity.
    - destruct H as (_ & _ & C). rewrite K in C. destruct C as [-> _]. reflexivity.
    - destruct (array_len_ok r _ K H) as (L & AL & S1 & S2).
      destruct H as (_ & _ & C). rewrite K in C. destruct C as [-> _].
      unfold check_finished. rewrite AL. cbn [encs] in S2. change (nlen (@nil N)) with 0 in S2.
      replace (r_vpos r <=? r_start r + L) with true by lia. replace (r_start r <=? r_vpos r) with true by lia. cbn [negb].
      replace (r_vpos r =? r_start r + L) with true by lia. reflexivity.
    - destruct H as (_ & _ & C). rewrite K in C. destruct C as [-> [tl T]]. cbn [tysig map flat_map app] in T.
      unfold first_type. rewrite (get_byte_at _ _ _ _ T). reflexivity.
  Qed.
  (* ---- recursing into a container ----------------------------------------------------------- *)
  Lemma recurse_struct_eq r : first_type (TS r) (r_tpos r) = inl DBUS_TYPE_STRUCT ->
    RECURSE r = inl (mkR K_STRUCT false (r_tval r) (r_tpos r + 1) (align_up (r_vpos r) 8) 0 0).
  Proof. intros H. unfold recurse. rewrite H. reflexivity. Qed.

  Lemma recurse_dict_eq r : first_type (TS r) (r_tpos r) = inl DBUS_TYPE_DICT_ENTRY ->
    RECURSE r = inl (mkR K_DICT false (r_tval r) (r_tpos r + 1) (align_up (r_vpos r) 8) 0 0).
  Proof. intros H. unfold recurse. rewrite H. reflexivity. Qed.

  Lemma recurse_array_eq r : first_type (TS r) (r_tpos r) = inl DBUS_TYPE_ARRAY ->
    RECURSE r =
    match first_type (TS r) (r_tpos r + 1) with
    | inl et => match type_align et with
                | inl al =>
                    let len_pos := align_up (r_vpos r) 4 in
                    let start := align_up (len_pos + 4) al in
                    if negb (start - (len_pos + 4) <? 8) then inr R_ASSERT
                    else inl (mkR K_ARRAY false (r_tval r) (r_tpos r + 1) start start (start - (len_pos + 4)))
                | inr z => inr z
                end
    | inr z => inr z
    end.
  Proof. intros H. unfold recurse. rewrite H. reflexivity. Qed.

  Lemma recurse_variant_eq r : first_type (TS r) (r_tpos r) = inl DBUS_TYPE_VARIANT ->
    RECURSE r =
    match get_byte data (r_vpos r) with
    | inl sig_len =>
        match first_type data (r_vpos r + 1) with
        | inl ct => match type_align ct with
                    | inl al => inl (mkR K_VARIANT false true (r_vpos r + 1) (align_up (r_vpos r + 1 + sig_len + 1) al) 0 0)
                    | inr z => inr z
                    end
        | inr z => inr z
        end
    | inr z => inr z
    end.
  Proof. intros H. unfold recurse. rewrite H. reflexivity. Qed.

  Lemma R_struct r fs : at_val r (VStruct fs) ->
    exists sub, RECURSE r = inl sub /\ lvl_ok sub fs /\ r_klass sub = K_STRUCT /\
                r_vpos sub = r_vpos r + pad_amount (r_vpos r) 8 /\ r_tpos sub = r_tpos r + 1.
  Proof.
    intros ([rest D] & [tl T] & W). pose proof (rwf_tygood le _ _ W) as G.
    pose proof (first_type_print _ _ _ _ G T) as F. cbn [ty_of_val code_of] in F.
    eexists. split; [apply (recurse_struct_eq r F)|]. cbn [r_klass r_vpos r_tpos]. rewrite (align_up_pad _ 8 ltac:(lia)).
    split; [|repeat split; reflexivity].
    rewrite rwf_struct in W. apply andb_true_iff in W. destruct W as [Wne Ws].
    unfold lvl_ok. cbn [r_klass r_vpos r_tpos r_finished]. split; [|split; [exact Ws|split]].
    - rewrite enc_struct, <- app_assoc in D. exists rest. apply (bf_step' data _ _ _ _ D). rewrite nlen_zeros. reflexivity.
    - destruct fs; [discriminate|reflexivity].
    - intros _. unfold ty_at, tstr in *. cbn [r_tval r_tpos]. cbn [ty_of_val print_ty] in T. exists tl.
      change (40 :: flat_map print_ty (map ty_of_val fs) ++ [41]) with ([40] ++ (tysig fs ++ [41])) in T. rewrite <- app_assoc in T.
      exact (bf_step _ _ _ _ T).
  Qed.

  Lemma R_dict r k x : at_val r (VDictE k x) ->
    exists sub, RECURSE r = inl sub /\ lvl_ok sub [k; x] /\ r_klass sub = K_DICT /\
                r_vpos sub = r_vpos r + pad_amount (r_vpos r) 8 /\ r_tpos sub = r_tpos r + 1.
  Proof.
    intros ([rest D] & [tl T] & W). pose proof (rwf_tygood le _ _ W) as G.
    pose proof (first_type_print _ _ _ _ G T) as F. cbn [ty_of_val code_of] in F.
    eexists. split; [apply (recurse_dict_eq r F)|]. cbn [r_klass r_vpos r_tpos]. rewrite (align_up_pad _ 8 ltac:(lia)).
    split; [|repeat split; reflexivity].
    rewrite rwf_dict in W. apply andb_true_iff in W. destruct W as [Wk Ws].
    unfold lvl_ok. cbn [r_klass r_vpos r_tpos r_finished]. split; [|split; [exact Ws|split]].
    - rewrite enc_dict, <- app_assoc in D. exists rest. apply (bf_step' data _ _ _ _ D). rewrite nlen_zeros. reflexivity.
    - reflexivity.
    - intros _. unfold ty_at, tstr in *. cbn [r_tval r_tpos]. cbn [ty_of_val print_ty] in T. exists tl.
      assert (E : 123 :: match k with VNum c _ | VStr c _ => c | _ => 0 end :: print_ty (ty_of_val x) ++ [125] = [123] ++ (tysig [k; x] ++ [125])).
      { unfold tysig. cbn [map flat_map app]. rewrite app_nil_r. destruct k; try discriminate; reflexivity. }
      rewrite E, <- app_assoc in T. exact (bf_step _ _ _ _ T).
  Qed.

  Lemma R_array r et vs : at_val r (VArr et vs) ->
    exists sub, RECURSE r = inl sub /\ lvl_ok sub vs /\ r_klass sub = K_ARRAY /\
                r_vpos sub = arr_start (r_vpos r) et /\ r_start sub = arr_start (r_vpos r) et /\ r_tpos sub = r_tpos r + 1 /\
                r_tval sub = r_tval r /\ ty_at sub (print_ty et).
  Proof.
    intros ([rest D] & [tl T] & W). pose proof (rwf_tygood le _ _ W) as G.
    pose proof (first_type_print _ _ _ _ G T) as F. cbn [ty_of_val code_of] in F.
    cbn [ty_of_val tygood] in G. destruct (type_align_code et G) as [A S].
    cbn [ty_of_val print_ty] in T. change (97 :: print_ty et) with ([97] ++ print_ty et) in T. rewrite <- app_assoc in T.
    pose proof (bf_step _ _ _ _ T) as T1. change (nlen [97]) with 1 in T1.
    rewrite (recurse_array_eq r F). rewrite (first_type_print _ _ _ _ G T1), A. cbv zeta.
    rewrite (align_up_pad _ 4 ltac:(lia)). rewrite (align_up_pad _ _ S). fold (arr_start (r_vpos r) et).
    set (p := r_vpos r) in *.
    replace (arr_start p et - (p + pad_amount p 4 + 4) <? 8) with true
      by (unfold arr_start; destruct S as [S|[S|[S|S]]]; rewrite S; unfold pad_amount; lia).
    cbn [negb]. eexists. split; [reflexivity|]. cbn [r_klass r_vpos r_tpos r_start r_tval].
    split; [|split; [reflexivity|split; [reflexivity|split; [reflexivity|split; [reflexivity|split; [reflexivity|]]]]];
             unfold ty_at, tstr in *; cbn [r_tval r_tpos]; exists tl; exact T1].
    rewrite rwf_arr in W. apply andb_true_iff in W. destruct W as [W Ws]. apply andb_true_iff in W. destruct W as [W Wl].
    apply andb_true_iff in W. destruct W as [_ Wt].
    rewrite enc_arr in D. cbv zeta in D. fold (arr_start p et) in D. rewrite <- !app_assoc in D.
    unfold lvl_ok. cbn [r_klass r_vpos r_tpos r_finished]. split; [|split; [exact Ws|split; [reflexivity|]]].
    - exists rest. rewrite !app_assoc in D. rewrite <- app_assoc in D. apply (bf_step' data _ _ _ _ D).
      rewrite !nlen_app, !nlen_zeros, (bytes_of_length le 4). unfold arr_start. lia.
    - exists et, (nlen (encs le vs (arr_start p et))). cbn [r_lenoff r_start r_vpos].
      assert (Hlp : arr_start p et - (arr_start p et - (p + pad_amount p 4 + 4)) - 4 = p + pad_amount p 4) by (unfold arr_start; lia).
      split; [exact Wt|]. split; [exact G|]. split; [|split; [unfold arr_start; lia|split; [|split; [|split; [|split; [lia|lia]]]]]].
      + intros _. unfold ty_at, tstr in *. cbn [r_tval r_tpos]. exists tl. exact T1.
      + unfold arr_start; destruct S as [S|[S|[S|S]]]; rewrite S; unfold pad_amount; lia.
      + rewrite Hlp. apply (aligned_after_pad p 4). lia.
      + rewrite Hlp. eapply get_num_at; [|lia]. apply (bf_step' data _ _ _ _ D). rewrite nlen_zeros. reflexivity.
  Qed.

  Lemma R_variant r t x : at_val r (VVar t x) ->
    exists sub, RECURSE r = inl sub /\ lvl_ok sub [x] /\ r_klass sub = K_VARIANT /\
                r_vpos sub + nlen (enc le x (r_vpos sub)) = r_vpos r + nlen (enc le (VVar t x) (r_vpos r)) /\
                r_tpos sub = r_vpos r + 1 /\ r_tval sub = true.
  Proof.
    intros ([rest D] & [tl T] & W). pose proof (rwf_tygood le _ _ W) as G.
    pose proof (first_type_print _ _ _ _ G T) as F. cbn [ty_of_val code_of] in F.
    cbn [rwf] in W. apply andb_true_iff in W. destruct W as [W Wx]. apply andb_true_iff in W. destruct W as [W Wl].
    apply andb_true_iff in W. destruct W as [Wt Wok]. apply ty_eqb_eq in Wt. pose proof (ty_okb_tygood t Wok) as Gt.
    destruct (type_align_code t Gt) as [A S].
    set (p := r_vpos r) in *. set (q := p + (nlen (print_ty t) + 2)) in *.
    rewrite enc_var in D. cbv zeta in D.
    replace (p + nlen (nlen (print_ty t) :: print_ty t ++ [0])) with q in D by (unfold q; nl).
    cbn [app] in D. rewrite <- !app_assoc in D. cbn [app] in D.
    assert (D1 : bytes_from data (p + 1) = print_ty t ++ 0 :: enc le x q ++ rest).
    { change (nlen (print_ty t) :: print_ty t ++ 0 :: enc le x q ++ rest) with ([nlen (print_ty t)] ++ print_ty t ++ 0 :: enc le x q ++ rest) in D.
      exact (bf_step _ _ _ _ D). }
    rewrite (recurse_variant_eq r F). fold p. rewrite (get_byte_at _ _ _ _ D). rewrite (first_type_print _ _ _ _ Gt D1), A.
    replace (p + 1 + nlen (print_ty t) + 1) with q by (unfold q; lia). rewrite (align_up_pad _ _ S).
    assert (D2 : bytes_from data q = enc le x q ++ rest).
    { change (print_ty t ++ 0 :: enc le x q ++ rest) with (print_ty t ++ [0] ++ enc le x q ++ rest) in D1. rewrite app_assoc in D1.
      apply (bf_step' _ _ _ _ _ D1). unfold q. nl. }
    rewrite <- Wt in S. rewrite (rwf_enc_split le x q Wx) in D2. rewrite <- app_assoc in D2.
    replace (spec_align t) with (spec_align (ty_of_val x)) by (rewrite Wt; reflexivity).
    eexists. split; [reflexivity|]. cbn [r_klass r_vpos r_tpos r_tval]. split; [|split; [reflexivity|split; [|split; reflexivity]]].
    - unfold lvl_ok. cbn [r_klass r_vpos r_tpos r_finished]. split; [|split; [|split; [reflexivity|]]].
      + exists rest. cbn [encs]. rewrite app_nil_r. apply (bf_step' data _ _ _ _ D2). rewrite nlen_zeros. reflexivity.
      + cbn [rwfs]. rewrite rwf_split, Wx. reflexivity.
      + unfold ty_at, tstr. cbn [r_tval r_tpos]. unfold tysig. cbn [map flat_map]. rewrite app_nil_r, Wt.
        eexists. rewrite <- app_assoc. exact D1.
    - rewrite enc_var. cbv zeta. replace (p + nlen (nlen (print_ty t) :: print_ty t ++ [0])) with q by (unfold q; nl).
      rewrite (rwf_enc_split le x q Wx) at 1. rewrite !nlen_app, nlen_zeros. unfold q. nl.
  Qed.
  (* ---- one step of next ----------------------------------------------------------------------- *)
  Definition is_cont (v : val) : bool := match v with VStruct _ | VDictE _ _ | VVar _ _ => true | _ => false end.

  (* what "recurse, then call next on the sub-reader until it returns FALSE" must achieve *)
  Definition drain_ok (drain : reader -> rr reader) (r : reader) (v : val) : Prop :=
    forall sub, RECURSE r = inl sub ->
      exists sub', drain sub = inl sub' /\ r_vpos sub' = r_vpos r + nlen (enc le v (r_vpos r)) /\
                   (code_of (ty_of_val v) <> DBUS_TYPE_VARIANT -> r_tpos sub' = r_tpos r + nlen (print_ty (ty_of_val v))).

  Lemma base_next_sd drain r t : t = DBUS_TYPE_STRUCT \/ t = DBUS_TYPE_DICT_ENTRY ->
    base_next le sigz data drain r t =
    match RECURSE r with
    | inl sub => match drain sub with
                 | inl sub' => inl (set_tpos (set_vpos r (r_vpos sub')) (r_tpos sub'))
                 | inr z => inr z
                 end
    | inr z => inr z
    end.
  Proof. intros [-> | ->]; reflexivity. Qed.

  Lemma base_next_var drain r :
    base_next le sigz data drain r DBUS_TYPE_VARIANT =
    match RECURSE r with
    | inl sub => match drain sub with
                 | inl sub' => inl (set_tpos (set_vpos r (r_vpos sub')) (r_tpos r + 1))
                 | inr z => inr z
                 end
    | inr z => inr z
    end.
  Proof. reflexivity. Qed.

  Lemma base_next_arr drain r :
    base_next le sigz data drain r DBUS_TYPE_ARRAY =
    match first_type (TS r) (r_tpos r + 1) with
    | inl et => match skip_array le data et (r_vpos r) with
                | inl p => match sig_next (TS r) (r_tpos r) with
                           | inl tp => inl (set_tpos (set_vpos r p) tp)
                           | inr z => inr z
                           end
                | inr z => inr z
                end
    | inr z => inr z
    end.
  Proof. reflexivity. Qed.

  Lemma base_next_basic drain r c : is_basic_code c = true ->
    base_next le sigz data drain r c =
    match skip_basic le data c (r_vpos r) with
    | inl p => inl (set_tpos (set_vpos r p) (r_tpos r + 1))
    | inr z => inr z
    end.
  Proof. intros H. apply basic_code_cases in H. repeat (destruct H as [H|H]; [subst c; reflexivity|]). subst c; reflexivity. Qed.

  Lemma basic_not_container c : is_basic_code c = true -> is_sdv c = false /\ (c =? DBUS_TYPE_ARRAY) = false.
  Proof. intros H. apply basic_code_cases in H. repeat (destruct H as [H|H]; [subst c; split; reflexivity|]). subst c; split; reflexivity. Qed.

  Lemma skip_basic_val r v : at_val r v -> is_basic_val v = true ->
    is_basic_code (code_of (ty_of_val v)) = true /\
    skip_basic le data (code_of (ty_of_val v)) (r_vpos r) = inl (r_vpos r + nlen (enc le v (r_vpos r))) /\
    nlen (print_ty (ty_of_val v)) = 1.
  Proof.
    intros ([rest D] & _ & W) B. destruct v as [c n|c s| | | | ]; try discriminate; cbn [ty_of_val code_of print_ty].
    - cbn [rwf] in W. destruct (fixed_size c) as [sz|] eqn:E; [|discriminate].
      split; [exact (fixed_basic c sz E)|]. split; [exact (skip_basic_num c sz n _ E) | reflexivity].
    - cbn [rwf] in W. apply andb_true_iff in W. destruct W as [Wz W].
      destruct (c =? 103) eqn:E.
      + apply N.eqb_eq in E. subst c. split; [reflexivity|]. split; [exact (skip_basic_sig s _ rest D) | reflexivity].
      + apply andb_true_iff in W. destruct W as [Wc Wl].
        assert (Hc : c = 115 \/ c = 111) by (apply orb_true_iff in Wc; destruct Wc as [Wc|Wc]; apply N.eqb_eq in Wc; auto).
        split; [destruct Hc as [-> | ->]; reflexivity|]. split; [apply (skip_basic_str c s _ rest Hc ltac:(lia) D) | reflexivity].
  Qed.

  Lemma skip_array_val r et vs : at_val r (VArr et vs) ->
    first_type (TS r) (r_tpos r + 1) = inl (code_of et) /\
    skip_array le data (code_of et) (r_vpos r) = inl (r_vpos r + nlen (enc le (VArr et vs) (r_vpos r))) /\
    sig_next (TS r) (r_tpos r) = inl (r_tpos r + nlen (print_ty (TArray et))).
  Proof.
    intros ([rest D] & [tl T] & W). pose proof (rwf_tygood le _ _ W) as G. cbn [ty_of_val] in *.
    split; [|split].
    - pose proof T as T0. cbn [print_ty] in T0. change (97 :: print_ty et) with ([97] ++ print_ty et) in T0. rewrite <- app_assoc in T0.
      pose proof (bf_step _ _ _ _ T0) as T1. change (nlen [97]) with 1 in T1. exact (first_type_print _ _ et _ G T1).
    - rewrite rwf_arr in W. apply andb_true_iff in W. destruct W as [W _]. apply andb_true_iff in W. destruct W as [_ Wl].
      apply (skip_array_at et vs (r_vpos r) rest G ltac:(lia) D).
    - exact (sig_next_print _ _ _ _ G T).
  Qed.

  Lemma cont_code v : is_cont v = true ->
    (code_of (ty_of_val v) = DBUS_TYPE_STRUCT \/ code_of (ty_of_val v) = DBUS_TYPE_DICT_ENTRY) /\ code_of (ty_of_val v) <> DBUS_TYPE_VARIANT \/
    code_of (ty_of_val v) = DBUS_TYPE_VARIANT /\ nlen (print_ty (ty_of_val v)) = 1.
  Proof. destruct v; try discriminate; intros _; cbn [ty_of_val code_of print_ty]; [left|left|right]; (split; [auto|]); try discriminate; reflexivity. Qed.

  Lemma cont_recurse r v : at_val r v -> is_cont v = true -> exists sub, RECURSE r = inl sub.
  Proof.
    intros A C. destruct v; try discriminate.
    - destruct (R_struct r _ A) as (sub & H & _). eauto.
    - destruct (R_dict r _ _ A) as (sub & H & _). eauto.
    - destruct (R_variant r _ _ A) as (sub & H & _). eauto.
  Qed.

  Lemma val_kind v : is_basic_val v = true \/ (exists et vs, v = VArr et vs) \/ is_cont v = true.
  Proof. destruct v; cbn; eauto. Qed.

  Lemma base_next_ok drain r v : at_val r v -> (is_cont v = true -> drain_ok drain r v) ->
    base_next le sigz data drain r (code_of (ty_of_val v)) =
    inl (set_tpos (set_vpos r (r_vpos r + nlen (enc le v (r_vpos r)))) (r_tpos r + nlen (print_ty (ty_of_val v)))).
  Proof.
    intros A Hd. destruct (val_kind v) as [B|[(et & vs & ->)|C]].
    - destruct (skip_basic_val r v A B) as (Hb & Hs & Hl). rewrite (base_next_basic drain r _ Hb), Hs, Hl. reflexivity.
    - destruct (skip_array_val r et vs A) as (H1 & H2 & H3). cbn [ty_of_val code_of]. rewrite base_next_arr, H1, H2, H3. reflexivity.
    - destruct (cont_recurse r v A C) as [sub Hr]. destruct (Hd C sub Hr) as (sub' & Hdr & Hv & Ht).
      destruct (cont_code v C) as [[Hc Hnv]|[Hc Hl]].
      + rewrite (base_next_sd drain r _ Hc), Hr, Hdr, Hv, (Ht Hnv). reflexivity.
      + rewrite Hc, base_next_var, Hr, Hdr, Hv, Hl. reflexivity.
  Qed.

  Lemma print_head_ok t : tygood t = true -> exists c r, print_ty t = c :: r /\ c <> 41 /\ c <> 125 /\ c <> 0.
  Proof.
    destruct t as [c| |t'|ts|k v]; cbn [tygood print_ty]; intros H.
    - destruct (basic_code_ne c H) as (_ & _ & _ & ? & _ & ? & ?). eexists _, _. split; [reflexivity|]. auto.
    - eexists _, _. split; [reflexivity|]. repeat split; discriminate.
    - eexists _, _. split; [reflexivity|]. repeat split; discriminate.
    - eexists _, _. split; [reflexivity|]. repeat split; discriminate.
    - eexists _, _. split; [reflexivity|]. repeat split; discriminate.
  Qed.

  Lemma rwfs_head_tygood v vs p : rwfs le (v :: vs) p = true -> tygood (ty_of_val v) = true.
  Proof. cbn [rwfs]. intros H. apply andb_true_iff in H. exact (rwf_tygood le v _ (proj1 H)). Qed.

  (* the state after a step, for every class *)
  Definition step_res (r : reader) (v : val) (vs' : list val) (res : rr (reader * bool)) : Prop :=
    exists r', res = inl (r', negb (isnil vs')) /\ lvl_ok r' vs' /\
               r_vpos r' = r_vpos r + nlen (enc le v (r_vpos r)) /\ r_klass r' = r_klass r /\
               ((r_klass r = K_STRUCT \/ r_klass r = K_DICT) ->
                r_tpos r' = r_tpos r + nlen (print_ty (ty_of_val v)) + (if isnil vs' then 1 else 0)).

  Lemma lvl_data_step r v vs' : lvl_ok r (v :: vs') ->
    (exists rest, bytes_from data (r_vpos r + nlen (enc le v (r_vpos r))) = encs le vs' (r_vpos r + nlen (enc le v (r_vpos r))) ++ rest) /\
    rwfs le vs' (r_vpos r + nlen (enc le v (r_vpos r))) = true.
  Proof.
    intros ([rest D] & W & _). cbn [rwfs] in W. apply andb_true_iff in W. split; [|exact (proj2 W)].
    cbn [encs] in D. rewrite <- app_assoc in D. exists rest. exact (bf_step _ _ _ _ D).
  Qed.

  Lemma closing_next_ok closer drain r v vs' : (closer = 41 /\ r_klass r = K_STRUCT) \/ (closer = 125 /\ r_klass r = K_DICT) ->
    lvl_ok r (v :: vs') -> (is_cont v = true -> drain_ok drain r v) ->
    exists r', closing_next le sigz data closer drain r (code_of (ty_of_val v)) = inl r' /\ lvl_ok r' vs' /\
               r_vpos r' = r_vpos r + nlen (enc le v (r_vpos r)) /\ r_klass r' = r_klass r /\
               r_tpos r' = r_tpos r + nlen (print_ty (ty_of_val v)) + (if isnil vs' then 1 else 0).
  Proof.
    intros Hk L Hd. pose proof (lvl_at_val r v vs' L) as A. destruct (lvl_data_step r v vs' L) as [Dn Wn].
    unfold closing_next. rewrite (base_next_ok drain r v A Hd).
    set (vp' := r_vpos r + nlen (enc le v (r_vpos r))) in *. set (tp' := r_tpos r + nlen (print_ty (ty_of_val v))).
    assert (T : exists tl, bytes_from (TS r) tp' = tysig vs' ++ closer :: tl).
    { destruct L as (_ & _ & C). destruct Hk as [[-> K]|[-> K]]; rewrite K in C; destruct C as [_ T]; specialize (T ltac:(discriminate));
        rewrite tysig_cons in T; destruct T as [tl T]; rewrite <- !app_assoc in T; exists tl; exact (bf_step _ _ _ _ T). }
    destruct T as [tl T].
    change (TS (set_tpos (set_vpos r vp') tp')) with (TS r). rsimp.
    destruct vs' as [|y ys].
    - cbn [tysig map flat_map app] in T. rewrite (get_byte_at _ _ _ _ T), N.eqb_refl.
      eexists. split; [reflexivity|]. rsimp. cbn [isnil]. split; [|repeat split; reflexivity].
      unfold lvl_ok. rsimp. split; [exact Dn|]. split; [exact Wn|].
      destruct Hk as [[_ ->]|[_ ->]]; (split; [reflexivity | intros X; congruence]).
    - destruct (print_head_ok _ (rwfs_head_tygood _ _ _ Wn)) as (c & rr0 & E & N1 & N2 & N3).
      pose proof T as T2. rewrite tysig_cons, E in T2. cbn [app] in T2. rewrite (get_byte_at _ _ _ _ T2).
      replace (c =? closer) with false by (destruct Hk as [[-> _]|[-> _]]; lia).
      eexists. split; [reflexivity|]. rsimp. cbn [isnil]. split; [|repeat split; lia].
      unfold lvl_ok. rsimp. split; [exact Dn|]. split; [exact Wn|].
      destruct L as (_ & _ & C).
      destruct Hk as [[-> K]|[-> K]]; rewrite K in *; destruct C as [F _]; (split; [exact F|]); intros _; unfold ty_at, tstr in *; rsimp;
        exists tl; rewrite T; rewrite <- app_assoc; reflexivity.
  Qed.
  Lemma plain_next_ok drain r v vs' : r_klass r = K_BODY \/ r_klass r = K_VARIANT ->
    lvl_ok r (v :: vs') -> (is_cont v = true -> drain_ok drain r v) ->
    exists r', base_next le sigz data drain r (code_of (ty_of_val v)) = inl r' /\ lvl_ok r' vs' /\
               r_vpos r' = r_vpos r + nlen (enc le v (r_vpos r)) /\ r_klass r' = r_klass r.
  Proof.
    intros Hk L Hd. pose proof (lvl_at_val r v vs' L) as A. destruct (lvl_data_step r v vs' L) as [Dn Wn].
    rewrite (base_next_ok drain r v A Hd). eexists. split; [reflexivity|]. rsimp. split; [|split; reflexivity].
    unfold lvl_ok. rsimp. split; [exact Dn|]. split; [exact Wn|].
    destruct L as (_ & _ & C).
    destruct Hk as [K|K]; rewrite K in *; destruct C as [F [tl T]]; (split; [exact F|]); unfold ty_at, tstr in *; rsimp;
      rewrite tysig_cons, <- app_assoc in T; exists tl; exact (bf_step _ _ _ _ T).
  Qed.

  Lemma array_len_of r L : r_lenoff r + 4 <= r_start r -> r_lenoff r < 8 -> (r_start r - r_lenoff r - 4) mod 4 = 0 ->
    get_num le data (r_start r - r_lenoff r - 4) 4 = inl L -> array_len le data r = inl L.
  Proof.
    intros H1 H2 H3 H4. unfold array_len.
    replace (r_start r <? r_lenoff r + 4) with false by lia.
    rewrite (align_up_pad _ 4 ltac:(lia)). rewrite (aligned_no_pad _ 4 ltac:(lia) H3). rewrite N.add_0_r, N.eqb_refl. cbn [negb].
    rewrite H4. replace (r_start r - (r_start r - r_lenoff r - 4) - 4 <? 8) with true by lia. reflexivity.
  Qed.

  Lemma cont_sdv v : is_cont v = true -> is_sdv (code_of (ty_of_val v)) = true.
  Proof. destruct v; try discriminate; reflexivity. Qed.

  Lemma array_next_ok drain r v vs' : r_klass r = K_ARRAY ->
    lvl_ok r (v :: vs') -> (is_cont v = true -> drain_ok drain r v) ->
    exists r', array_next le sigz data drain r (code_of (ty_of_val v)) = inl r' /\ lvl_ok r' vs' /\
               r_vpos r' = r_vpos r + nlen (enc le v (r_vpos r)) /\ r_klass r' = r_klass r.
  Proof.
    intros K L Hd. pose proof (lvl_at_val r v vs' L) as A. destruct (lvl_data_step r v vs' L) as [Dn Wn].
    pose proof A as (_ & [tl0 T0] & W). pose proof (rwf_tygood le v _ W) as G. pose proof (rwf_nonempty le v _ W) as NE.
    destruct L as (_ & _ & C). rewrite K in C. destruct C as [Fin (et & L0 & Ht & Get & Tat & H1 & H2 & H3 & H4 & H5 & H6)].
    cbn [forallb] in Ht. apply andb_true_iff in Ht. destruct Ht as [Hv Ht]. apply ty_eqb_eq in Hv.
    cbn [encs] in H6. rewrite nlen_app in H6.
    set (vp' := r_vpos r + nlen (enc le v (r_vpos r))) in *.
    unfold array_next. rewrite (array_len_of r L0 H1 H2 H3 H4).
    replace (r_vpos r <? r_start r + L0) with true by lia. replace (r_start r <=? r_vpos r) with true by lia. cbn [negb].
    rewrite (first_type_print _ _ _ _ G T0).
    match goal with |- context [match (if is_sdv ?c then ?X else ?Y) with inl _ => _ | inr _ => _ end] =>
      assert (STEP : (if is_sdv c then X else Y) = inl (set_vpos r vp')) end.
    { destruct (val_kind v) as [B|[(et' & vs0 & ->)|Cn]].
      - destruct (skip_basic_val r v A B) as (Hb & Hs & _). destruct (basic_not_container _ Hb) as [N1 N2]. rewrite N1, N2, Hs. reflexivity.
      - destruct (skip_array_val r et' vs0 A) as (E1 & E2 & _). cbn [ty_of_val code_of].
        change (is_sdv DBUS_TYPE_ARRAY) with false. change (DBUS_TYPE_ARRAY =? DBUS_TYPE_ARRAY) with true. cbv iota. rewrite E1, E2. reflexivity.
      - rewrite (cont_sdv v Cn). destruct (cont_recurse r v A Cn) as [sub Hr]. destruct (Hd Cn sub Hr) as (sub' & Hdr & Hvp & _).
        rewrite Hr, Hdr, Hvp. reflexivity. }
    rewrite STEP. rsimp.
    destruct vs' as [|y ys].
    - cbn [encs] in H6. change (nlen (@nil N)) with 0 in H6.
      replace (vp' <=? r_start r + L0) with true by lia. cbn [negb]. replace (vp' =? r_start r + L0) with true by lia.
      change (TS (set_vpos r vp')) with (TS r). rewrite (sig_next_print _ _ _ _ G T0).
      eexists. split; [reflexivity|]. rsimp. split; [|split; reflexivity].
      unfold lvl_ok. rsimp. split; [exact Dn|]. split; [exact Wn|]. rewrite K. split; [exact Fin|].
      unfold arr_ok. exists et, L0. rsimp. split; [reflexivity|]. split; [exact Get|]. split; [intros X; congruence|].
      repeat split; try assumption; try lia. cbn [encs]. change (nlen (@nil N)) with 0. lia.
    - pose proof Wn as Wn2. cbn [rwfs] in Wn2. apply andb_true_iff in Wn2. destruct Wn2 as [Wy _]. pose proof (rwf_nonempty le y _ Wy) as NEy.
      cbn [encs] in H6. rewrite nlen_app in H6.
      replace (vp' <=? r_start r + L0) with true by lia. cbn [negb]. replace (vp' =? r_start r + L0) with false by lia.
      eexists. split; [reflexivity|]. rsimp. split; [|split; reflexivity].
      unfold lvl_ok. rsimp. split; [exact Dn|]. split; [exact Wn|]. rewrite K. split; [exact Fin|].
      unfold arr_ok. exists et, L0. rsimp. split; [exact Ht|]. split; [exact Get|]. split.
      + intros _. specialize (Tat ltac:(discriminate)). unfold ty_at, tstr in *. rsimp. exact Tat.
      + repeat split; try assumption; try lia. cbn [encs]. rewrite nlen_app. lia.
  Qed.

  (* class dispatch of _dbus_type_reader_next *)
  Definition drainf (d' : nat) : nat -> reader -> rr reader :=
    fix drain (n : nat) (s : reader) {struct n} : rr reader :=
      match n with
      | O => inr R_FUEL
      | S n' => match RNEXT d' s with
                | inl sm => let '(s', more) := sm in if more then drain n' s' else inl s'
                | inr z => inr z
                end
      end.

  Definition class_next (drain : reader -> rr reader) (r : reader) (t : N) : rr reader :=
    match r_klass r with
    | K_BODY | K_VARIANT => base_next le sigz data drain r t
    | K_STRUCT => closing_next le sigz data DBUS_STRUCT_END_CHAR drain r t
    | K_DICT => closing_next le sigz data DBUS_DICT_ENTRY_END_CHAR drain r t
    | K_ARRAY => array_next le sigz data drain r t
    end.

  Lemma rnext_S d' r : RNEXT (S d') r =
    match CT r with
    | inl t => if t =? T_INVALID then inl (r, false)
               else match class_next (drainf d' (loop_fuel data)) r t with
                    | inl r' => match CT r' with
                                | inl t' => inl (r', negb (t' =? T_INVALID))
                                | inr z => inr z
                                end
                    | inr z => inr z
                    end
    | inr z => inr z
    end.
  Proof. reflexivity. Qed.

  Lemma ct_of_list r vs : lvl_ok r vs -> exists t, CT r = inl t /\ negb (t =? T_INVALID) = negb (isnil vs).
  Proof.
    destruct vs as [|y ys]; intros L.
    - exists T_INVALID. split; [exact (ct_nil r L) | reflexivity].
    - exists (code_of (ty_of_val y)). split; [exact (ct_cons r y ys L)|].
      destruct L as (_ & W & _). rewrite (code_of_nonzero _ (rwfs_head_tygood _ _ _ W)). reflexivity.
  Qed.

  Lemma rnext_ok d' r v vs' : lvl_ok r (v :: vs') -> (is_cont v = true -> drain_ok (drainf d' (loop_fuel data)) r v) ->
    step_res r v vs' (RNEXT (S d') r).
  Proof.
    intros L Hd. rewrite rnext_S, (ct_cons r v vs' L).
    pose proof L as (_ & W & _). rewrite (code_of_nonzero _ (rwfs_head_tygood _ _ _ W)).
    unfold class_next, step_res. destruct (r_klass r) eqn:K.
    - destruct (plain_next_ok _ r v vs' (or_introl K) L Hd) as (r' & E & L' & P1 & P2). rewrite E.
      destruct (ct_of_list r' vs' L') as (t' & E' & B). rewrite E', B. exists r'. split; [reflexivity|]. split; [exact L'|]. split; [exact P1|]. split; [congruence|].
      intros [X|X]; congruence.
    - destruct (closing_next_ok 41 _ r v vs' (or_introl (conj eq_refl K)) L Hd) as (r' & E & L' & P1 & P2 & P3).
      change DBUS_STRUCT_END_CHAR with 41. rewrite E.
      destruct (ct_of_list r' vs' L') as (t' & E' & B). rewrite E', B. exists r'. split; [reflexivity|]. split; [exact L'|]. split; [exact P1|]. split; [congruence|]. intros _. exact P3.
    - destruct (closing_next_ok 125 _ r v vs' (or_intror (conj eq_refl K)) L Hd) as (r' & E & L' & P1 & P2 & P3).
      change DBUS_DICT_ENTRY_END_CHAR with 125. rewrite E.
      destruct (ct_of_list r' vs' L') as (t' & E' & B). rewrite E', B. exists r'. split; [reflexivity|]. split; [exact L'|]. split; [exact P1|]. split; [congruence|]. intros _. exact P3.
    - destruct (array_next_ok _ r v vs' K L Hd) as (r' & E & L' & P1 & P2). rewrite E.
      destruct (ct_of_list r' vs' L') as (t' & E' & B). rewrite E', B. exists r'. split; [reflexivity|]. split; [exact L'|]. split; [exact P1|]. split; [congruence|].
      intros [X|X]; congruence.
    - destruct (plain_next_ok _ r v vs' (or_intror K) L Hd) as (r' & E & L' & P1 & P2). rewrite E.
      destruct (ct_of_list r' vs' L') as (t' & E' & B). rewrite E', B. exists r'. split; [reflexivity|]. split; [exact L'|]. split; [exact P1|]. split; [congruence|].
      intros [X|X]; congruence.
  Qed.
  (* ---- next over whole values, by induction on the value ------------------------------------------ *)
  Definition NX (v : val) : Prop :=
    forall d r vs', (height v < d)%nat -> lvl_ok r (v :: vs') -> step_res r v vs' (RNEXT d r).

  Lemma drainf_S d' n s : drainf d' (S n) s =
    match RNEXT d' s with
    | inl sm => let '(s', more) := sm in if more then drainf d' n s' else inl s'
    | inr z => inr z
    end.
  Proof. reflexivity. Qed.

  Lemma lvl_len r vs : lvl_ok r vs -> (length vs <= length data)%nat.
  Proof.
    intros ([rest D] & W & _). pose proof (rwfs_length le vs _ W) as H1.
    assert (H2 : (length (bytes_from data (r_vpos r)) <= length data)%nat) by (unfold bytes_from; rewrite skipn_length; lia).
    rewrite D, app_length in H2. lia.
  Qed.

  Lemma drain_list : forall fs x, Forall NX (x :: fs) ->
    forall d' n sub, (heights (x :: fs) < d')%nat -> (length (x :: fs) <= n)%nat -> lvl_ok sub (x :: fs) ->
    exists sub', drainf d' n sub = inl sub' /\ r_vpos sub' = r_vpos sub + nlen (encs le (x :: fs) (r_vpos sub)) /\
                 ((r_klass sub = K_STRUCT \/ r_klass sub = K_DICT) -> r_tpos sub' = r_tpos sub + nlen (tysig (x :: fs)) + 1).
  Proof.
    induction fs as [|y ys IH]; intros x HF d' n sub Hh Hn L; inversion HF as [|? ? Hx HF']; subst;
      rewrite heights_cons in Hh; (destruct n as [|n]; [cbn [length] in Hn; lia|]); rewrite drainf_S.
    - destruct (Hx d' sub [] ltac:(lia) L) as (r' & E & L' & P1 & P2 & P3). rewrite E. cbn [isnil negb].
      exists r'. split; [reflexivity|]. split.
      + rewrite P1. cbn [encs]. rewrite app_nil_r. reflexivity.
      + intros Hk. rewrite (P3 Hk). cbn [isnil]. unfold tysig. cbn [map flat_map]. rewrite app_nil_r. lia.
    - destruct (Hx d' sub (y :: ys) ltac:(lia) L) as (r' & E & L' & P1 & P2 & P3). rewrite E. cbn [isnil negb].
      destruct (IH y HF' d' n r' ltac:(lia) ltac:(cbn [length] in *; lia) L') as (sub' & E2 & Q1 & Q2).
      exists sub'. split; [exact E2|]. split.
      + rewrite Q1, P1. cbn [encs]. rewrite !nlen_app. lia.
      + intros Hk. rewrite Q2 by (rewrite P2; exact Hk). rewrite (P3 Hk). cbn [isnil]. unfold tysig. cbn [map flat_map]. rewrite !nlen_app. lia.
  Qed.

  Lemma drain_ok_struct d' r fs : Forall NX fs -> (heights fs < d')%nat -> at_val r (VStruct fs) ->
    drain_ok (drainf d' (loop_fuel data)) r (VStruct fs).
  Proof.
    intros HF Hh A sub Hr. destruct (R_struct r fs A) as (sub0 & Hr0 & L0 & K0 & V0 & T0). rewrite Hr0 in Hr. injection Hr as <-.
    destruct fs as [|x fs']; [destruct A as (_ & _ & W); rewrite rwf_struct in W; discriminate|].
    destruct (drain_list fs' x HF d' (loop_fuel data) sub0 Hh ltac:(pose proof (lvl_len _ _ L0); unfold loop_fuel; lia) L0) as (sub' & E & P1 & P2).
    exists sub'. split; [exact E|]. split.
    - rewrite P1, V0, enc_struct, nlen_app, nlen_zeros. lia.
    - intros _. rewrite (P2 (or_introl K0)), T0. cbn [ty_of_val print_ty]. unfold tysig. nl.
  Qed.

  Lemma drain_ok_dict d' r k x : NX k -> NX x -> (Nat.max (height k) (height x) < d')%nat -> at_val r (VDictE k x) ->
    drain_ok (drainf d' (loop_fuel data)) r (VDictE k x).
  Proof.
    intros Hk Hx Hh A sub Hr. destruct (R_dict r k x A) as (sub0 & Hr0 & L0 & K0 & V0 & T0). rewrite Hr0 in Hr. injection Hr as <-.
    destruct (drain_list [x] k (Forall_cons k Hk (Forall_cons x Hx (Forall_nil _))) d' (loop_fuel data) sub0
                ltac:(cbn [heights fold_right]; lia) ltac:(pose proof (lvl_len _ _ L0); unfold loop_fuel; lia) L0) as (sub' & E & P1 & P2).
    exists sub'. split; [exact E|]. split.
    - rewrite P1, V0, enc_dict, nlen_app, nlen_zeros. lia.
    - intros _. rewrite (P2 (or_intror K0)), T0. cbn [ty_of_val print_ty]. unfold tysig. cbn [map flat_map]. rewrite app_nil_r.
      destruct A as (_ & _ & W). rewrite rwf_dict in W. apply andb_true_iff in W. destruct W as [Bk _].
      destruct k; try discriminate; cbn [ty_of_val print_ty]; nl.
  Qed.

  Lemma drain_ok_variant d' r t x : NX x -> (height x < d')%nat -> at_val r (VVar t x) ->
    drain_ok (drainf d' (loop_fuel data)) r (VVar t x).
  Proof.
    intros Hx Hh A sub Hr. destruct (R_variant r t x A) as (sub0 & Hr0 & L0 & K0 & V0 & T0 & _). rewrite Hr0 in Hr. injection Hr as <-.
    destruct (drain_list [] x (Forall_cons x Hx (Forall_nil _)) d' (loop_fuel data) sub0
                ltac:(cbn [heights fold_right]; lia) ltac:(pose proof (lvl_len _ _ L0); unfold loop_fuel; lia) L0) as (sub' & E & P1 & _).
    exists sub'. split; [exact E|]. split.
    - rewrite P1. cbn [encs]. rewrite app_nil_r. exact V0.
    - intros X. exfalso. apply X. reflexivity.
  Qed.

  Theorem next_all : forall v, NX v.
  Proof.
    induction v as [c n|c s|et vs IH|fs IH|k x IHk IHx|t x IHx] using val_ind'; intros d r vs' Hh L;
      (destruct d as [|d']; [lia|]); apply (rnext_ok d' r _ vs' L); intros C; try discriminate C.
    - apply (drain_ok_struct d' r fs IH); [cbn [height] in Hh; fold (heights fs) in Hh; lia | exact (lvl_at_val _ _ _ L)].
    - apply (drain_ok_dict d' r k x IHk IHx); [cbn [height] in Hh; lia | exact (lvl_at_val _ _ _ L)].
    - apply (drain_ok_variant d' r t x IHx); [cbn [height] in Hh; lia | exact (lvl_at_val _ _ _ L)].
  Qed.
  (* ---- reading the values (dump_iter) ------------------------------------------------------------ *)
  Local Notation RV_ := (read_value le sigz data).

  Lemma read_value_basic sub r c : is_basic_code c = true -> RV_ sub r c = read_basic le sigz data r.
  Proof. intros H. apply basic_code_cases in H. repeat (destruct H as [H|H]; [subst c; reflexivity|]). subst c; reflexivity. Qed.

  Lemma read_value_arr sub r : RV_ sub r DBUS_TYPE_ARRAY =
    match RECURSE r with
    | inl s => match get_signature sigz data r with
               | inl sg => match single_ty sg with
                           | inl aty => match aty with
                                        | TArray et => match sub s with inl xs => inl (VArr et xs) | inr z => inr z end
                                        | _ => inr R_GAP
                                        end
                           | inr z => inr z
                           end
               | inr z => inr z
               end
    | inr z => inr z
    end.
  Proof. reflexivity. Qed.

  Lemma read_value_struct sub r : RV_ sub r DBUS_TYPE_STRUCT =
    match RECURSE r with
    | inl s => match sub s with inl xs => inl (VStruct xs) | inr z => inr z end
    | inr z => inr z
    end.
  Proof. reflexivity. Qed.

  Lemma read_value_dict sub r : RV_ sub r DBUS_TYPE_DICT_ENTRY =
    match RECURSE r with
    | inl s => match sub s with
               | inl xs => match xs with [k; x] => inl (VDictE k x) | _ => inr R_GAP end
               | inr z => inr z
               end
    | inr z => inr z
    end.
  Proof. reflexivity. Qed.

  Lemma read_value_variant sub r : RV_ sub r DBUS_TYPE_VARIANT =
    match RECURSE r with
    | inl s => match get_signature sigz data s with
               | inl sg => match single_ty sg with
                           | inl ct => match sub s with
                                       | inl xs => match xs with [x] => inl (VVar ct x) | _ => inr R_GAP end
                                       | inr z => inr z
                                       end
                           | inr z => inr z
                           end
               | inr z => inr z
               end
    | inr z => inr z
    end.
  Proof. reflexivity. Qed.

  Lemma get_signature_print r t : tygood t = true -> ty_at r (print_ty t) -> get_signature sigz data r = inl (print_ty t).
  Proof.
    intros G [tl T]. unfold get_signature. rewrite T, (sig_skip_print t tl G). rewrite take_app by reflexivity. reflexivity.
  Qed.

  Lemma single_ty_print t : ty_okb t = true -> single_ty (print_ty t) = inl t.
  Proof. intros H. unfold single_ty. rewrite (parse_sig_print t H). reflexivity. Qed.

  Definition RV (v : val) : Prop :=
    forall d r, (height v <= d)%nat -> at_val r v -> CT r = inl (code_of (ty_of_val v)) ->
      RV_ (DUMP d) r (code_of (ty_of_val v)) = inl v.

  Definition loopf (d d' : nat) : nat -> reader -> rr (list val) :=
    fix loop (n : nat) (r : reader) {struct n} : rr (list val) :=
      match n with
      | O => inr R_FUEL
      | S n' =>
          match CT r with
          | inl t => if t =? T_INVALID then inl []
                     else match RV_ (DUMP d') r t with
                          | inl v => match RNEXT d r with
                                     | inl rm => match loop n' (fst rm) with inl rest => inl (v :: rest) | inr z => inr z end
                                     | inr z => inr z
                                     end
                          | inr z => inr z
                          end
          | inr z => inr z
          end
      end.

  Lemma dump_S d' r : DUMP (S d') r = loopf (S d') d' (loop_fuel data) r.
  Proof. reflexivity. Qed.

  Lemma loopf_S d d' n r : loopf d d' (S n) r =
    match CT r with
    | inl t => if t =? T_INVALID then inl []
               else match RV_ (DUMP d') r t with
                    | inl v => match RNEXT d r with
                               | inl rm => match loopf d d' n (fst rm) with inl rest => inl (v :: rest) | inr z => inr z end
                               | inr z => inr z
                               end
                    | inr z => inr z
                    end
    | inr z => inr z
    end.
  Proof. reflexivity. Qed.

  Lemma loop_list : forall vs, Forall RV vs -> forall d' n r, (heights vs < S d')%nat -> (length vs < n)%nat -> lvl_ok r vs ->
    loopf (S d') d' n r = inl vs.
  Proof.
    induction 1 as [|x rest Hx Hr IH]; intros d' n r Hh Hn L; (destruct n as [|n]; [lia|]); rewrite loopf_S.
    - rewrite (ct_nil r L). reflexivity.
    - rewrite heights_cons in Hh. rewrite (ct_cons r x rest L).
      pose proof L as (_ & W & _). rewrite (code_of_nonzero _ (rwfs_head_tygood _ _ _ W)).
      rewrite (Hx d' r ltac:(lia) (lvl_at_val _ _ _ L) (ct_cons r x rest L)).
      destruct (next_all x (S d') r rest ltac:(lia) L) as (r' & E & L' & _). rewrite E. cbn [fst].
      rewrite (IH d' n r' ltac:(lia) ltac:(cbn [length] in Hn; lia) L'). reflexivity.
  Qed.

  Lemma dump_list vs : Forall RV vs -> forall d r, (heights vs < d)%nat -> lvl_ok r vs -> DUMP d r = inl vs.
  Proof.
    intros HF d r Hh L. destruct d as [|d']; [lia|]. rewrite dump_S.
    apply (loop_list vs HF d' _ r Hh); [|exact L]. pose proof (lvl_len r vs L). unfold loop_fuel. lia.
  Qed.

  Theorem value_all : forall v, RV v.
  Proof.
    induction v as [c n|c s|et vs IH|fs IH|k x IHk IHx|t x IHx] using val_ind'; intros d r Hh A HCT.
    - destruct A as ([rest D] & _ & W). cbn [rwf] in W. destruct (fixed_size c) as [sz|] eqn:E; [|discriminate].
      cbn [ty_of_val code_of] in *. rewrite (read_value_basic _ r c (fixed_basic c sz E)). unfold read_basic. rewrite HCT.
      apply (read_basic_num c sz n _ rest E ltac:(lia) D).
    - destruct A as ([rest D] & _ & W). cbn [rwf] in W. apply andb_true_iff in W. destruct W as [Wz W]. cbn [ty_of_val code_of] in *.
      destruct (c =? 103) eqn:E.
      + apply N.eqb_eq in E. subst c. rewrite (read_value_basic _ r 103 eq_refl). unfold read_basic. rewrite HCT.
        exact (read_basic_sig s _ rest Wz D).
      + apply andb_true_iff in W. destruct W as [Wc Wl].
        assert (Hc : c = 115 \/ c = 111) by (apply orb_true_iff in Wc; destruct Wc as [Wc|Wc]; apply N.eqb_eq in Wc; auto).
        rewrite (read_value_basic _ r c) by (destruct Hc as [-> | ->]; reflexivity). unfold read_basic. rewrite HCT.
        exact (read_basic_str c s _ rest Hc ltac:(lia) Wz D).
    - cbn [ty_of_val code_of]. rewrite read_value_arr.
      destruct (R_array r et vs A) as (sub & Hr & L & _). rewrite Hr.
      destruct A as (_ & T & W). pose proof (rwf_tygood le _ _ W) as G. cbn [ty_of_val] in T, G.
      rewrite (get_signature_print r (TArray et) G T).
      rewrite rwf_arr in W. apply andb_true_iff in W. destruct W as [W _]. apply andb_true_iff in W. destruct W as [W _].
      apply andb_true_iff in W. destruct W as [Wok _]. rewrite (single_ty_print _ Wok).
      cbn [height] in Hh. fold (heights vs) in Hh. rewrite (dump_list vs IH d sub ltac:(lia) L). reflexivity.
    - cbn [ty_of_val code_of]. rewrite read_value_struct.
      destruct (R_struct r fs A) as (sub & Hr & L & _). rewrite Hr.
      cbn [height] in Hh. fold (heights fs) in Hh. rewrite (dump_list fs IH d sub ltac:(lia) L). reflexivity.
    - cbn [ty_of_val code_of]. rewrite read_value_dict.
      destruct (R_dict r k x A) as (sub & Hr & L & _). rewrite Hr.
      cbn [height] in Hh.
      rewrite (dump_list [k; x] (Forall_cons k IHk (Forall_cons x IHx (Forall_nil _))) d sub ltac:(cbn [heights fold_right]; lia) L). reflexivity.
    - cbn [ty_of_val code_of]. rewrite read_value_variant.
      destruct (R_variant r t x A) as (sub & Hr & L & K & _). rewrite Hr.
      destruct A as (_ & _ & W). cbn [rwf] in W. apply andb_true_iff in W. destruct W as [W _]. apply andb_true_iff in W. destruct W as [W _].
      apply andb_true_iff in W. destruct W as [Wt Wok]. apply ty_eqb_eq in Wt.
      assert (T : ty_at sub (print_ty t)).
      { destruct L as (_ & _ & C). rewrite K in C. destruct C as [_ T]. unfold tysig in T. cbn [map flat_map] in T. rewrite app_nil_r, Wt in T.
        exact (ty_at_head _ _ _ T). }
      rewrite (get_signature_print sub t (ty_okb_tygood t Wok) T), (single_ty_print t Wok).
      cbn [height] in Hh.
      rewrite (dump_list [x] (Forall_cons x IHx (Forall_nil _)) d sub ltac:(cbn [heights fold_right]; lia) L). reflexivity.
  Qed.

  (* reading from any position of the body, any class of reader *)
  Theorem dump_correct vs d r : (heights vs < d)%nat -> lvl_ok r vs -> DUMP d r = inl vs.
  Proof. apply dump_list. apply Forall_forall. intros v _. apply value_all. Qed.
  (* ---- get_element_count and get_fixed_array ------------------------------------------------------- *)
  Definition countf (d : nat) : nat -> reader -> N -> rr N :=
    fix count (n : nat) (s : reader) (acc : N) {struct n} : rr N :=
      match n with
      | O => inr R_FUEL
      | S n' =>
          match CT s with
          | inl t => if t =? T_INVALID then inl acc
                     else match RNEXT d s with
                          | inl sm => count n' (fst sm) (acc + 1)
                          | inr z => inr z
                          end
          | inr z => inr z
          end
      end.

  Lemma element_count_eq d r : element_count le sigz data d r =
    match CT r with
    | inl t =>
        if negb (t =? DBUS_TYPE_ARRAY) then inr R_ASSERT
        else match element_type sigz data r with
             | inl et => match RECURSE r with
                         | inl arr =>
                             if type_fixed et then
                               match type_align et with
                               | inl al => match array_len le data arr with inl total => inl (total / al) | inr z => inr z end
                               | inr z => inr z
                               end
                             else countf d (loop_fuel data) arr 0
                         | inr z => inr z
                         end
             | inr z => inr z
             end
    | inr z => inr z
    end.
  Proof. reflexivity. Qed.

  Lemma countf_S d n s acc : countf d (S n) s acc =
    match CT s with
    | inl t => if t =? T_INVALID then inl acc
               else match RNEXT d s with
                    | inl sm => countf d n (fst sm) (acc + 1)
                    | inr z => inr z
                    end
    | inr z => inr z
    end.
  Proof. reflexivity. Qed.

  Lemma count_list : forall vs d n s acc, (heights vs < d)%nat -> (length vs < n)%nat -> lvl_ok s vs ->
    countf d n s acc = inl (acc + N.of_nat (length vs)).
  Proof.
    induction vs as [|x rest IH]; intros d n s acc Hh Hn L; (destruct n as [|n]; [lia|]); rewrite countf_S.
    - rewrite (ct_nil s L). cbn. f_equal. lia.
    - rewrite heights_cons in Hh. rewrite (ct_cons s x rest L).
      pose proof L as (_ & W & _). rewrite (code_of_nonzero _ (rwfs_head_tygood _ _ _ W)).
      destruct (next_all x d s rest ltac:(lia) L) as (r' & E & L' & _). rewrite E. cbn [fst].
      rewrite (IH d n r' (acc + 1) ltac:(lia) ltac:(cbn [length] in Hn; lia) L'). f_equal. cbn [length]. lia.
  Qed.

  Lemma fixed_code_ty et : tygood et = true -> type_fixed (code_of et) = true -> exists c sz, et = TBasic c /\ fixed_size c = Some sz.
  Proof.
    destruct et as [c| | | | ]; cbn [code_of]; intros G F; try (vm_compute in F; discriminate).
    destruct (type_fixed_size c F) as [sz E]. eauto.
  Qed.

  Lemma fixed_len c sz : fixed_size c = Some sz ->
    forall vs start, start mod sz = 0 -> rwfs le vs start = true -> forallb (fun x => ty_eqb (ty_of_val x) (TBasic c)) vs = true ->
      encs le vs start = flat_map (fun n => bytes_of le (N.to_nat sz) n) (nums_of vs) /\
      nlen (encs le vs start) = N.of_nat (length vs) * sz /\ length (nums_of vs) = length vs.
  Proof.
    intros Hsz. destruct (fixed_tables c sz Hsz) as (_ & _ & Hs).
    induction vs as [|x r IH]; intros start Hal Hw Ht.
    - cbn. repeat split; lia.
    - cbn [rwfs] in Hw. apply andb_true_iff in Hw. destruct Hw as [Hwx Hwr].
      cbn [forallb] in Ht. apply andb_true_iff in Ht. destruct Ht as [Htx Htr]. apply ty_eqb_eq in Htx.
      destruct x as [c' n|c' s0| | | | ]; cbn [ty_of_val] in Htx; try discriminate.
      + inversion Htx; subst c'.
        assert (He : enc le (VNum c n) start = bytes_of le (N.to_nat sz) n).
        { rewrite enc_num, Hsz. rewrite (aligned_no_pad start sz Hs Hal). reflexivity. }
        assert (Hl : nlen (enc le (VNum c n) start) = sz) by (rewrite He, bytes_of_length; lia).
        rewrite Hl in Hwr.
        destruct (IH (start + sz) (aligned_step start sz Hs Hal) Hwr Htr) as (E1 & E2 & E3).
        cbn [encs nums_of flat_map length]. rewrite Hl, He, E1. repeat split.
        * rewrite nlen_app, bytes_of_length. rewrite <- E1, E2. lia.
        * lia.
      + inversion Htx; subst c'. exfalso. cbn [rwf] in Hwx. apply andb_true_iff in Hwx. destruct Hwx as [_ Hwx].
        destruct (c =? 103) eqn:E3; [apply N.eqb_eq in E3; subst c; discriminate|].
        apply andb_true_iff in Hwx. destruct Hwx as [Hc _]. apply orb_true_iff in Hc. destruct Hc as [Hc|Hc]; apply N.eqb_eq in Hc; subst c; discriminate.
  Qed.

  Lemma arr_start_aligned p et : (spec_align et = 1 \/ spec_align et = 2 \/ spec_align et = 4 \/ spec_align et = 8) ->
    arr_start p et mod spec_align et = 0.
  Proof. intros S. unfold arr_start. apply aligned_after_pad. exact S. Qed.

  Theorem element_count_ok d r et vs rest : (height (VArr et vs) < d)%nat -> lvl_ok r (VArr et vs :: rest) ->
    element_count le sigz data d r = inl (N.of_nat (length vs)).
  Proof.
    intros Hh L. pose proof (lvl_at_val _ _ _ L) as A. rewrite element_count_eq, (ct_cons r _ _ L). cbn [ty_of_val code_of].
    change (negb (DBUS_TYPE_ARRAY =? DBUS_TYPE_ARRAY)) with false. cbv iota.
    destruct (skip_array_val r et vs A) as (E1 & _). unfold element_type. rewrite E1.
    destruct (R_array r et vs A) as (sub & Hr & Ls & Ks & Vs & Ss & _). rewrite Hr.
    pose proof A as (_ & _ & W). pose proof (rwf_tygood le _ _ W) as G. cbn [ty_of_val tygood] in G.
    destruct (type_fixed (code_of et)) eqn:F.
    - destruct (fixed_code_ty et G F) as (c & sz & -> & Hsz). destruct (type_align_code _ G) as [Al S]. rewrite Al.
      cbn [spec_align] in *. rewrite Hsz in *.
      pose proof Ls as (_ & Ws & C). rewrite Ks in C. destruct C as [_ (et' & L0 & Ht & _ & _ & H1 & H2 & H3 & H4 & H5 & H6)].
      rewrite (array_len_of sub L0 H1 H2 H3 H4). f_equal.
      rewrite rwf_arr in W. apply andb_true_iff in W. destruct W as [W _]. apply andb_true_iff in W. destruct W as [W _].
      apply andb_true_iff in W. destruct W as [_ Wt].
      rewrite Vs in *. rewrite Ss in *.
      pose proof (arr_start_aligned (r_vpos r) (TBasic c)) as Hal. cbn [spec_align] in Hal. rewrite Hsz in Hal. specialize (Hal S).
      destruct (fixed_len c sz Hsz vs _ Hal Ws Wt) as (_ & E2 & _).
      assert (L0 = N.of_nat (length vs) * sz) by lia. subst L0. apply N.div_mul. lia.
    - cbn [height] in Hh. fold (heights vs) in Hh.
      rewrite (count_list vs d (loop_fuel data) sub 0 ltac:(lia) ltac:(pose proof (lvl_len _ _ Ls); unfold loop_fuel; lia) Ls). f_equal.
  Qed.

  Theorem fixed_array_ok r c sz vs : fixed_size c = Some sz -> at_val r (VArr (TBasic c) vs) ->
    exists sub, RECURSE r = inl sub /\
      read_fixed_multi le sigz data sub = inl (encs le vs (arr_start (r_vpos r) (TBasic c)), N.of_nat (length vs)) /\
      encs le vs (arr_start (r_vpos r) (TBasic c)) = flat_map (fun n => bytes_of le (N.to_nat sz) n) (nums_of vs) /\
      length (nums_of vs) = length vs.
  Proof.
    intros Hsz A. destruct (R_array r _ vs A) as (sub & Hr & Ls & Ks & Vs & Ss & _ & _ & [tl T]). exists sub. split; [exact Hr|].
    pose proof A as (_ & _ & W). pose proof (rwf_tygood le _ _ W) as G. cbn [ty_of_val tygood] in G.
    destruct (type_align_code (TBasic c) G) as [Al S]. cbn [spec_align code_of] in *. rewrite Hsz in *.
    pose proof Ls as ([rest Ds] & Ws & C). rewrite Ks in C. destruct C as [_ (et' & L0 & Ht & _ & _ & H1 & H2 & H3 & H4 & H5 & H6)].
    rewrite rwf_arr in W. apply andb_true_iff in W. destruct W as [W _]. apply andb_true_iff in W. destruct W as [W _].
    apply andb_true_iff in W. destruct W as [_ Wt].
    pose proof (arr_start_aligned (r_vpos r) (TBasic c)) as Hal. cbn [spec_align] in Hal. rewrite Hsz in Hal. specialize (Hal S).
    pose proof (array_len_of sub L0 H1 H2 H3 H4) as AL.
    rewrite Vs, Ss in *.
    destruct (fixed_len c sz Hsz vs _ Hal Ws Wt) as (E1 & E2 & E3).
    split; [|split; [exact E1 | exact E3]].
    unfold read_fixed_multi. rewrite Ks. rewrite (first_type_print _ _ (TBasic c) _ G T). cbn [code_of].
    destruct (fixed_tables c sz Hsz) as (Fx & _ & _).
    replace (c =? T_INVALID) with false by (destruct (basic_code_ne c G) as (_ & _ & _ & _ & _ & _ & ?); unfold T_INVALID; lia).
    rewrite Fx. cbn [negb]. rewrite Al. rewrite Vs, Ss. rewrite N.leb_refl. cbn [negb].
    rewrite AL.
    assert (HL : L0 = N.of_nat (length vs) * sz) by lia. rewrite HL.
    replace (arr_start (r_vpos r) (TBasic c) + N.of_nat (length vs) * sz <? arr_start (r_vpos r) (TBasic c)) with false by lia.
    replace (arr_start (r_vpos r) (TBasic c) + N.of_nat (length vs) * sz - arr_start (r_vpos r) (TBasic c)) with (N.of_nat (length vs) * sz) by lia.
    rewrite N.leb_refl. cbn [negb]. rewrite N.mod_mul by lia. cbn [N.eqb negb].
    destruct vs as [|x xs].
    - cbn [length N.of_nat N.mul N.eqb]. cbn. reflexivity.
    - replace (N.of_nat (length (x :: xs)) * sz =? 0) with false by (cbn [length]; lia).
      rewrite Ds. rewrite take_app by (rewrite E2; reflexivity). rewrite N.div_mul by lia. reflexivity.
  Qed.
End Machine.

(* ================= E. whole bodies ======================================================= *)
Lemma init_lvl_ok le sg pre vs rest : rwfs le vs (nlen pre) = true -> sg = tysig vs ->
  lvl_ok le (sg ++ [0]) (pre ++ encs le vs (nlen pre) ++ rest) (reader_init 0 (nlen pre)) vs.
Proof.
  intros W ->. unfold lvl_ok, reader_init. rsimp. split; [|split; [exact W|split; [reflexivity|]]].
  - exists rest. unfold bytes_from. apply skipn_nlen_app.
  - unfold ty_at, tstr. rsimp. exists []. rewrite app_nil_r. reflexivity.
Qed.

(* the reader on the canonical encoding of any values it can make sense of, placed anywhere in a
   buffer and followed by anything: no Fault, no failed assertion, exactly the values *)
Theorem reader_rwf_at le pre vs rest d : rwfs le vs (nlen pre) = true -> (heights vs < d)%nat ->
  dump le (tysig vs ++ [0]) (pre ++ encs le vs (nlen pre) ++ rest) d (reader_init 0 (nlen pre)) = inl vs.
Proof. intros W Hd. apply dump_correct; [exact Hd|]. apply init_lvl_ok; [exact W | reflexivity]. Qed.

Theorem reader_rwf le vs : rwfs le vs 0 = true -> read_all le (tysig vs) (encs le vs 0) = inl vs.
Proof.
  intros W. unfold read_all.
  pose proof (reader_rwf_at le [] vs [] (depth_fuel (tysig vs) (encs le vs 0)) W) as H. cbn [app nlen length N.of_nat] in H.
  rewrite app_nil_r in H. apply H. pose proof (heights_bound le vs 0 W). unfold depth_fuel. lia.
Qed.

(* (1) for ALL values that are well formed per the specification *)
Theorem reader_correct le vs : wfsb le vs 0 0 = true -> forallb ty_okb (map ty_of_val vs) = true ->
  read_all le (flat_map print_ty (map ty_of_val vs)) (encs le vs 0) = inl vs.
Proof. intros W T. apply (reader_rwf le vs). exact (wfsb_rwfs le vs 0 0 W T). Qed.

(* the premise on the types is needed only for the element types of EMPTY arrays, which [wfb] leaves
   unconstrained: recursing into an empty array of a non-type trips _dbus_type_get_alignment's assertion *)
Example reader_needs_types :
  wfsb true [VArr (TBasic 0) []] 0 0 = true /\
  read_all true (flat_map print_ty (map ty_of_val [VArr (TBasic 0) []])) (encs true [VArr (TBasic 0) []] 0) = inr R_ASSERT.
Proof. split; vm_compute; reflexivity. Qed.

(* (2) for EVERY body the validator model accepts (no exclusion: neither F11 nor FD65 matters to the reader):
   the values read through the iterator are exactly the values whose canonical encoding the body is *)
Theorem reader_after_validation le sg tys body :
  parse_sig sg = Some tys -> all_bytes body = true -> validate_body le tys body = V_VALID ->
  exists vs, map ty_of_val vs = tys /\ wfxs le vs 0 0 = true /\ body = encs le vs 0 /\ read_all le sg body = inl vs.
Proof.
  intros P B V. destruct (validate_body_sound_sig le sg tys body P B V) as (vs & Ht & Hw & _ & E).
  exists vs. split; [exact Ht|]. split; [exact Hw|]. split; [exact E|].
  apply parse_sig_sound in P. destruct P as [-> Hok]. rewrite <- Ht in *. rewrite E.
  apply (reader_rwf le vs). exact (wfxs_rwfs_all le vs 0 0 Hw Hok).
Qed.

(* outside the two recorded deviations of the validator the values are well formed per the specification
   and are what the specification decoder returns *)
Corollary reader_after_validation_spec le sg tys body :
  parse_sig sg = Some tys -> all_bytes body = true -> validate_body le tys body = V_VALID ->
  exists vs, read_all le sg body = inl vs /\ body = encs le vs 0 /\
             (forallb (nodev 0) vs = true -> wfsb le vs 0 0 = true /\ dec_seq le tys 0 body = Some (vs, nlen body, [])).
Proof.
  intros P B V. destruct (reader_after_validation le sg tys body P B V) as (vs & Ht & Hw & E & R).
  exists vs. split; [exact R|]. split; [exact E|]. intros Hn.
  pose proof (wfxs_wfsb_all le vs 0 0 Hn Hw) as Hwf. split; [exact Hwf|].
  pose proof (dec_seq_encs le vs 0 [] Hwf) as D. rewrite app_nil_r, Ht, <- E in D. rewrite D, N.add_0_l. reflexivity.
Qed.

(* (3) reader = specification decoder: whatever the decoder decodes from a whole body, the reader reads *)
Theorem reader_eq_decoder le sg tys body vs p :
  parse_sig sg = Some tys -> all_bytes body = true -> dec_seq le tys 0 body = Some (vs, p, []) ->
  read_all le sg body = inl vs.
Proof.
  intros P B D. destruct (dec_seq_sound le tys 0 body vs p [] (parse_sig_tygood sg tys P) B D) as (Ht & Hw & E & _).
  rewrite app_nil_r in E. apply parse_sig_sound in P. destruct P as [-> Hok]. rewrite <- Ht in *. rewrite E.
  exact (reader_correct le vs Hw Hok).
Qed.

(* (3') whole messages.  A loosely well-formed abstract message (the loader model accepts exactly the
   encodings of those: WireClean2.loader_characterisation): the reader, started on its body with its
   signature, reads exactly its body values *)
Theorem reader_msg m : wf_msg_x m = true ->
  read_all (s_le m) (s_sig m) (encs (s_le m) (s_body m) 0) = inl (s_body m).
Proof.
  intros W. unfold wf_msg_x in W. cbv zeta in W. repeat (apply andb_true_iff in W; destruct W as [W ?]).
  destruct (parse_sig (s_sig m)) as [tys|] eqn:P; [|discriminate].
  match goal with H : context [tys] |- _ => apply tys_eq_list in H; subst tys end.
  apply parse_sig_sound in P. destruct P as [E Hok]. rewrite E.
  apply (reader_rwf (s_le m) (s_body m)). apply (wfxs_rwfs_all (s_le m) (s_body m) 0 0); assumption.
Qed.

(* every message the loader model queues from a buffer of bytes IS the canonical encoding of an abstract
   message m, its body part is the encoding of m's body values, and the reader -- initialised as
   dbus_message_iter_init does, on the body with the message's signature -- reads exactly those values *)
Theorem reader_loaded le fl hl bl fds d msg :
  all_bytes d = true -> have_message max_message d = HaveOk le fl hl bl true ->
  load_message le fl hl bl fds d = inl msg ->
  exists m, m_header msg ++ m_body msg = spec_encode_message m /\ s_le m = le /\ wf_msg_x m = true /\
            m_body msg = encs le (s_body m) 0 /\ read_all le (s_sig m) (m_body msg) = inl (s_body m).
Proof.
  intros Hb Hh Hl.
  destruct (load_message_sound_x max_message le fl hl bl fds d msg ltac:(lia) Hb Hh Hl) as (m & E & Hle & _ & W & F).
  exists m. split; [exact E|]. split; [exact Hle|]. split; [exact W|].
  pose proof (load_message_bytes _ _ _ _ _ _ _ Hl) as Eb. unfold msg_bytes in Eb.
  assert (Hd : d = spec_encode_message m ++ skipn (N.to_nat (hl + bl)) d) by (rewrite <- E, Eb; symmetry; apply firstn_skipn).
  destruct (loader_complete_loose m (skipn (N.to_nat (hl + bl)) d) fds W F) as (Hh' & hs & _ & Hload & _). cbv zeta in *.
  rewrite <- Hd in Hh', Hload. change DBUS_MAXIMUM_MESSAGE_LENGTH with max_message in Hh'. rewrite Hh in Hh'.
  injection Hh' as -> -> -> ->. rewrite Hl in Hload. injection Hload as ->. cbn [m_body]. unfold m_bodyb.
  split; [reflexivity|]. exact (reader_msg m W).
Qed.

(* (4) dbus_message_iter_get_element_count of the first argument = the length of the array *)
Theorem element_count_correct le et xs rest : rwfs le (VArr et xs :: rest) 0 = true ->
  first_element_count le (tysig (VArr et xs :: rest)) (encs le (VArr et xs :: rest) 0) = inl (N.of_nat (length xs)).
Proof.
  intros W. unfold first_element_count.
  pose proof (init_lvl_ok le _ [] (VArr et xs :: rest) [] W eq_refl) as L. cbn [app nlen length N.of_nat] in L. rewrite app_nil_r in L.
  apply (element_count_ok le _ _ _ _ et xs rest); [|exact L].
  pose proof (heights_bound le _ 0 W) as Hb. rewrite heights_cons in Hb. unfold depth_fuel. lia.
Qed.

(* (5) recurse + dbus_message_iter_get_fixed_array on an array of fixed-size elements: the block returned is
   exactly the elements' bytes (in the message's byte order), and the count is the number of elements *)
Theorem fixed_array_correct le c sz xs rest : fixed_size c = Some sz -> rwfs le (VArr (TBasic c) xs :: rest) 0 = true ->
  first_fixed_array le (tysig (VArr (TBasic c) xs :: rest)) (encs le (VArr (TBasic c) xs :: rest) 0) =
    inl (flat_map (fun n => bytes_of le (N.to_nat sz) n) (nums_of xs), N.of_nat (length xs)) /\
  length (nums_of xs) = length xs.
Proof.
  intros Hsz W. unfold first_fixed_array.
  pose proof (init_lvl_ok le _ [] (VArr (TBasic c) xs :: rest) [] W eq_refl) as L. cbn [app nlen length N.of_nat] in L. rewrite app_nil_r in L.
  destruct (fixed_array_ok le _ _ _ c sz xs Hsz (lvl_at_val le _ _ _ _ _ L)) as (sub & Hr & Hf & E & El).
  rewrite Hr, Hf, E. split; [reflexivity | exact El].
Qed.

(* ================= F. non-vacuity ============================================================ *)
Definition ex_vals : list val :=
  [VNum 121 7;
   VArr (TStruct [TBasic 121; TVariant]) [VStruct [VNum 121 1; VVar (TBasic 115) (VStr 115 [104; 105])];
                                          VStruct [VNum 121 2; VVar (TArray (TBasic 120)) (VArr (TBasic 120) [VNum 120 5; VNum 120 6])]];
   VArr (TDict 115 (TBasic 117)) [VDictE (VStr 115 [97]) (VNum 117 9)];
   VArr (TBasic 116) [];
   VStr 103 [97; 123; 115; 118; 125]].

Example ex_vals_wf : wfsb true ex_vals 0 0 = true /\ wfsb false ex_vals 0 0 = true /\ forallb ty_okb (map ty_of_val ex_vals) = true.
Proof. repeat split; vm_compute; reflexivity. Qed.

Example ex_read_le : read_all true (tysig ex_vals) (encs true ex_vals 0) = inl ex_vals.
Proof. vm_compute. reflexivity. Qed.
Example ex_read_be : read_all false (tysig ex_vals) (encs false ex_vals 0) = inl ex_vals.
Proof. vm_compute. reflexivity. Qed.

(* the Fault is real: the same bytes cut short make the reader run off the end *)
Example ex_fault : read_all true (tysig ex_vals) (firstn 20 (encs true ex_vals 0)) = inr R_FAULT.
Proof. vm_compute. reflexivity. Qed.
(* ... and the validator model rejects that buffer, so [reader_after_validation] does not cover it *)
Example ex_fault_invalid : validate_body true (map ty_of_val ex_vals) (firstn 20 (encs true ex_vals 0)) <> V_VALID.
Proof. vm_compute. discriminate. Qed.

Example ex_validated : validate_body true (map ty_of_val ex_vals) (encs true ex_vals 0) = V_VALID /\
                       parse_sig (tysig ex_vals) = Some (map ty_of_val ex_vals) /\ all_bytes (encs true ex_vals 0) = true.
Proof. repeat split; vm_compute; reflexivity. Qed.

Example ex_count : first_element_count true (tysig (tl ex_vals)) (encs true (tl ex_vals) 0) = inl 2.
Proof. vm_compute. reflexivity. Qed.
Example ex_fixed : first_fixed_array false [97; 110] (encs false [VArr (TBasic 110) [VNum 110 258; VNum 110 3]] 0) = inl ([1; 2; 0; 3], 2).
Proof. vm_compute. reflexivity. Qed.

Print Assumptions reader_rwf_at.
Print Assumptions reader_correct.
Print Assumptions reader_after_validation.
Print Assumptions reader_after_validation_spec.
Print Assumptions reader_eq_decoder.
Print Assumptions reader_loaded.
Print Assumptions element_count_correct.
Print Assumptions fixed_array_correct.
