(* Proofs that the scanner models of Wire/Names.v (which use the character
   tables GENERATED from the C macros) decide the grammars of Spec/NamesSpec.v. *)
From DV Require Import Lib.Base Gen.Tables Wire.Names Spec.NamesSpec.
From Coq Require Import ZifyBool ZifyN ZifyNat Wf_nat Arith.
Local Open Scope N_scope.

(* ---- generated tables = specification character classes (256-way sweeps) -- *)
Lemma big_alnum_us_hy c : 256 <= c -> is_alnum_us_hy c = false.
Proof. intros H. unfold is_alnum_us_hy, is_alnum_us, is_alpha_us, is_upper, is_lower, is_digit. lia. Qed.
Lemma big_alpha_us_hy c : 256 <= c -> is_alpha_us_hy c = false.
Proof. intros H. unfold is_alpha_us_hy, is_alpha_us, is_upper, is_lower. lia. Qed.
Lemma big_alnum_us c : 256 <= c -> is_alnum_us c = false.
Proof. intros H. unfold is_alnum_us, is_alpha_us, is_upper, is_lower, is_digit. lia. Qed.
Lemma big_alpha_us c : 256 <= c -> is_alpha_us c = false.
Proof. intros H. unfold is_alpha_us, is_upper, is_lower. lia. Qed.

Lemma length_256_le c (t : list bool) : length t = 256%nat -> 256 <= c -> N.of_nat (length t) <= c.
Proof. intros -> H. exact H. Qed.

Lemma gen_initial_name : forall c, valid_initial_name_character c = is_alpha_us c.
Proof.
  apply sweep256; [vm_compute; reflexivity|]. intros c Hc. rewrite big_alpha_us by exact Hc.
  apply tbl_big. apply length_256_le; [reflexivity | exact Hc].
Qed.
Lemma gen_name : forall c, valid_name_character c = is_alnum_us c.
Proof.
  apply sweep256; [vm_compute; reflexivity|]. intros c Hc. rewrite big_alnum_us by exact Hc.
  apply tbl_big. apply length_256_le; [reflexivity | exact Hc].
Qed.
Lemma gen_initial_bus_name : forall c, valid_initial_bus_name_character c = is_alpha_us_hy c.
Proof.
  apply sweep256; [vm_compute; reflexivity|]. intros c Hc. rewrite big_alpha_us_hy by exact Hc.
  apply tbl_big. apply length_256_le; [reflexivity | exact Hc].
Qed.
Lemma gen_bus_name : forall c, valid_bus_name_character c = is_alnum_us_hy c.
Proof.
  apply sweep256; [vm_compute; reflexivity|]. intros c Hc. rewrite big_alnum_us_hy by exact Hc.
  apply tbl_big. apply length_256_le; [reflexivity | exact Hc].
Qed.

(* ---- split facts -------------------------------------------------------- *)
Lemma split_nonempty sep s : split sep s <> [].
Proof. destruct s as [|c t]; simpl; [discriminate|]. destruct (c =? sep); [discriminate|]. destruct (split sep t); discriminate. Qed.

Lemma split_cons_sep sep t : split sep (sep :: t) = [] :: split sep t.
Proof. simpl. rewrite N.eqb_refl. reflexivity. Qed.

Lemma split_cons_other sep c t e es : (c =? sep) = false -> split sep t = e :: es -> split sep (c :: t) = (c :: e) :: es.
Proof. intros H1 H2. simpl. rewrite H1, H2. reflexivity. Qed.

(* strong induction on lists by length *)
Lemma list_strong_ind {A} (P : list A -> Prop) :
  (forall l, (forall l', (length l' < length l)%nat -> P l') -> P l) -> forall l, P l.
Proof.
  intros H l. remember (length l) as n eqn:Hn. revert l Hn.
  induction n as [n IH] using lt_wf_ind. intros l ->. apply H. intros l' Hl'. eapply IH; [exact Hl'|reflexivity].
Qed.

(* ---- the C "validate next and skip two" loop = split-and-check ---------- *)
Section DottedProof.
  Variable initial_ok char_ok : N -> bool.
  Hypothesis initial_not_dot : initial_ok 46 = false.

  Definition tail_spec (s : bytes) (b : bool) : bool :=
    match split 46 s with
    | e0 :: es => forallb char_ok e0 && forallb (element initial_ok char_ok) es && (b || negb (match es with [] => true | _ => false end))
    | [] => false
    end.

  Lemma dotted_loop_spec : forall s b, dotted_loop initial_ok char_ok s b = tail_spec s b.
  Proof.
    induction s as [s IH] using list_strong_ind. intros b.
    destruct s as [|c rest].
    - unfold tail_spec. simpl. destruct b; reflexivity.
    - cbn [dotted_loop]. unfold DOT. destruct (c =? 46) eqn:Hc.
      + apply N.eqb_eq in Hc. subst c. unfold tail_spec. rewrite split_cons_sep.
        destruct rest as [|d rest'].
        * simpl. reflexivity.
        * destruct (d =? 46) eqn:Hd.
          { apply N.eqb_eq in Hd. subst d. rewrite initial_not_dot. rewrite split_cons_sep. simpl. reflexivity. }
          destruct (split 46 rest') as [|f0 fs] eqn:Hs; [exfalso; eapply split_nonempty; exact Hs|].
          rewrite (split_cons_other 46 d rest' f0 fs Hd Hs).
          destruct (initial_ok d) eqn:Hi.
          { rewrite (IH rest') by (simpl; lia). unfold tail_spec. rewrite Hs.
            cbn [forallb element negb orb]. rewrite Hi. rewrite orb_true_r. cbn [andb]. rewrite !andb_true_r. reflexivity. }
          { cbn [forallb element]. rewrite Hi. cbn [andb]. reflexivity. }
      + destruct (split 46 rest) as [|e0 es] eqn:Hs; [exfalso; eapply split_nonempty; exact Hs|].
        unfold tail_spec. rewrite (split_cons_other 46 c rest e0 es Hc Hs).
        cbn [forallb]. destruct (char_ok c) eqn:Hk.
        * rewrite (IH rest) by (simpl; lia). unfold tail_spec. rewrite Hs. reflexivity.
        * reflexivity.
  Qed.
End DottedProof.

Lemma nlen_cons {A} (x : A) l : nlen (x :: l) = nlen l + 1.
Proof. unfold nlen. simpl length. lia. Qed.

Lemma ltb_leb_neg a b : (a <? b) = negb (b <=? a).
Proof. lia. Qed.

Lemma forallb_ext_eq {A} (f g : A -> bool) l : (forall x, f x = g x) -> forallb f l = forallb g l.
Proof. intros H. induction l as [|x l IH]; simpl; [reflexivity|]. rewrite H, IH. reflexivity. Qed.

Lemma element_ext f1 g1 f2 g2 e : (forall c, f1 c = f2 c) -> (forall c, g1 c = g2 c) -> element f1 g1 e = element f2 g2 e.
Proof. intros H1 H2. destruct e as [|c t]; simpl; [reflexivity|]. rewrite H1. rewrite (forallb_ext_eq g1 g2 t H2). reflexivity. Qed.

(* generic: a dotted name with >= 2 elements *)
Lemma dotted_name_spec (initial_ok char_ok : N -> bool) (first other : N -> bool) (ns : bool) :
  (forall c, initial_ok c = first c) -> (forall c, char_ok c = other c) -> first 46 = false ->
  forall c rest,
    (if c =? 46 then false else if negb (initial_ok c) then false else dotted_loop initial_ok char_ok rest ns)
    = (ns || (2 <=? nlen (split 46 (c :: rest)))) && forallb (element first other) (split 46 (c :: rest)).
Proof.
  intros Hi Hc Hd c rest.
  destruct (c =? 46) eqn:Hc46.
  - apply N.eqb_eq in Hc46. subst c. rewrite split_cons_sep. cbn [forallb element]. rewrite andb_false_r. reflexivity.
  - rewrite dotted_loop_spec by (rewrite Hi; exact Hd). unfold tail_spec.
    destruct (split 46 rest) as [|e0 es] eqn:Hs; [exfalso; eapply split_nonempty; exact Hs|].
    rewrite (split_cons_other 46 c rest e0 es Hc46 Hs). cbn [forallb element].
    rewrite <- Hi. destruct (initial_ok c); cbn [negb andb]; [|rewrite andb_false_r; reflexivity].
    rewrite (forallb_ext_eq char_ok other e0 Hc).
    rewrite (forallb_ext_eq _ _ es (fun e => element_ext initial_ok char_ok first other e Hi Hc)).
    destruct es as [|e1 es']; unfold nlen; cbn [length negb];
      [replace (2 <=? N.of_nat 1) with false by lia | replace (2 <=? N.of_nat (S (S (length es')))) with true by lia];
      destruct ns; cbn [orb negb andb]; rewrite ?andb_true_r, ?andb_false_r; reflexivity.
Qed.

Lemma is_alpha_us_dot : is_alpha_us 46 = false. Proof. reflexivity. Qed.
Lemma is_alpha_us_hy_dot : is_alpha_us_hy 46 = false. Proof. reflexivity. Qed.
Lemma is_alnum_us_hy_dot : is_alnum_us_hy 46 = false. Proof. reflexivity. Qed.

Lemma max_name_eq : DBUS_MAXIMUM_NAME_LENGTH = max_name. Proof. reflexivity. Qed.

Theorem interface_correct : forall s, validate_interface s = spec_interface s.
Proof.
  intros s. unfold validate_interface, spec_interface. rewrite max_name_eq, ltb_leb_neg.
  destruct (nlen s <=? max_name); cbn [negb andb]; [|reflexivity].
  destruct s as [|c rest]; [reflexivity|].
  unfold DOT. rewrite (dotted_name_spec _ _ is_alpha_us is_alnum_us false gen_initial_name gen_name is_alpha_us_dot). reflexivity.
Qed.

Theorem error_name_correct : forall s, validate_error_name s = spec_error_name s.
Proof. exact interface_correct. Qed.

Theorem member_correct : forall s, validate_member s = spec_member s.
Proof.
  intros s. unfold validate_member, spec_member. rewrite max_name_eq, ltb_leb_neg.
  destruct (nlen s <=? max_name); cbn [negb andb]; [|reflexivity].
  destruct s as [|c rest]; [reflexivity|]. cbn [element]. rewrite gen_initial_name.
  rewrite (forallb_ext_eq _ _ rest gen_name). destruct (is_alpha_us c); reflexivity.
Qed.

Theorem wellknown_correct : forall s, (match s with 58 :: _ => False | _ => True end) -> validate_bus_name s = spec_bus_name s.
Proof.
  intros s Hs. unfold validate_bus_name, validate_bus_name_full, spec_bus_name.
  assert (Hw : spec_bus_name s = spec_wellknown s).
  { unfold spec_bus_name. destruct s as [|c r]; [reflexivity|]. destruct c as [|p]; [reflexivity|].
    do 6 (destruct p as [p|p|]; try reflexivity). contradiction. }
  fold (spec_bus_name s). rewrite Hw. unfold spec_wellknown. rewrite max_name_eq, ltb_leb_neg.
  destruct (nlen s <=? max_name); cbn [negb andb]; [|reflexivity].
  destruct s as [|c rest]; [reflexivity|].
  assert (Hcol : (c =? COLON) = false).
  { unfold COLON. apply N.eqb_neq. intros ->. contradiction. }
  rewrite Hcol. unfold DOT.
  rewrite (dotted_name_spec _ _ is_alpha_us_hy is_alnum_us_hy false gen_initial_bus_name gen_bus_name is_alpha_us_hy_dot). reflexivity.
Qed.

Theorem bus_namespace_correct : forall s, (match s with 58 :: _ => False | _ => True end) ->
  validate_bus_namespace s = spec_bus_namespace_wellknown s && negb (match s with [] => true | _ => false end).
Proof.
  intros s Hs. unfold validate_bus_namespace, validate_bus_name_full, spec_bus_namespace_wellknown.
  rewrite max_name_eq, ltb_leb_neg.
  destruct (nlen s <=? max_name); cbn [negb andb]; [|reflexivity].
  destruct s as [|c rest]; [reflexivity|].
  assert (Hcol : (c =? COLON) = false).
  { unfold COLON. apply N.eqb_neq. intros ->. contradiction. }
  rewrite Hcol. unfold DOT.
  rewrite (dotted_name_spec _ _ is_alpha_us_hy is_alnum_us_hy true gen_initial_bus_name gen_bus_name is_alpha_us_hy_dot).
  cbn [orb andb negb]. rewrite andb_true_r. reflexivity.
Qed.

(* What the code accepts for unique names, exactly (F2): the first element may
   be empty and one element is enough. *)
Definition unique_as_implemented (s : bytes) : bool :=
  match s with
  | 58 :: r =>
      (nlen s <=? max_name) &&
      match split 46 r with
      | e0 :: es => forallb is_alnum_us_hy e0 && forallb (element is_alnum_us_hy is_alnum_us_hy) es
      | [] => false
      end
  | _ => false
  end.

Theorem unique_exact : forall r, validate_bus_name (58 :: r) = unique_as_implemented (58 :: r).
Proof.
  intros r. unfold validate_bus_name, validate_bus_name_full, unique_as_implemented.
  rewrite max_name_eq, ltb_leb_neg.
  destruct (nlen (58 :: r) <=? max_name); cbn [negb andb]; [|reflexivity].
  change (58 =? COLON) with true. cbn iota. unfold unique_loop.
  rewrite dotted_loop_spec by (rewrite gen_bus_name; reflexivity). unfold tail_spec.
  destruct (split 46 r) as [|e0 es]; [reflexivity|]. cbn [orb]. rewrite andb_true_r.
  rewrite (forallb_ext_eq _ _ e0 gen_bus_name).
  rewrite (forallb_ext_eq _ _ es (fun e => element_ext _ _ is_alnum_us_hy is_alnum_us_hy e gen_bus_name gen_bus_name)).
  reflexivity.
Qed.

Theorem unique_spec_implies_model : forall s, spec_unique s = true -> validate_bus_name s = true.
Proof.
  intros s H. unfold spec_unique in H. destruct s as [|c r]; [discriminate|].
  destruct (N.eq_dec c 58) as [->|Hne].
  - rewrite unique_exact. unfold unique_as_implemented.
    apply andb_true_iff in H. destruct H as [H H3]. apply andb_true_iff in H. destruct H as [H1 H2].
    rewrite H1. cbn [andb]. destruct (split 46 r) as [|e0 es]; [discriminate|].
    cbn [forallb] in H3. apply andb_true_iff in H3. destruct H3 as [He0 Hes]. rewrite Hes, andb_true_r.
    destruct e0 as [|x t]; [discriminate|]. cbn [element] in He0. exact He0.
  - exfalso. destruct c as [|p]; [discriminate|].
    do 6 (destruct p as [p|p|]; try discriminate). apply Hne. reflexivity.
Qed.

(* ---- object paths -------------------------------------------------------- *)
Lemma elem_alnum_since e : (2 <=? 1 + nlen e) && forallb is_alnum_us e = element is_alnum_us is_alnum_us e.
Proof. destruct e as [|x t]; [reflexivity|]. rewrite nlen_cons. cbn [element forallb]. replace (2 <=? 1 + (nlen t + 1)) with true by lia. reflexivity. Qed.

(* state of the C loop: [since] = bytes since the last slash, that slash included *)
Lemma path_loop_spec : forall s since len, 1 <= since -> 1 < len ->
  path_loop s since len =
  match split 47 s with
  | e0 :: es => (2 <=? since + nlen e0) && forallb is_alnum_us e0 && forallb (element is_alnum_us is_alnum_us) es
  | [] => false
  end.
Proof.
  induction s as [|c rest IH]; intros since len Hs Hl.
  - cbn [path_loop split forallb nlen length]. replace (1 <? len) with true by lia. rewrite andb_true_r, !andb_true_r. change (nlen (@nil N)) with 0. lia.
  - cbn [path_loop]. unfold SLASH. destruct (c =? 47) eqn:Hc.
    + apply N.eqb_eq in Hc. subst c. rewrite split_cons_sep. cbn [forallb]. change (nlen (@nil N)) with 0. rewrite N.add_0_r, andb_true_r.
      destruct (since <? 2) eqn:Hlt.
      * replace (2 <=? since) with false by lia. reflexivity.
      * replace (2 <=? since) with true by lia. cbn [andb]. rewrite IH by lia.
        destruct (split 47 rest) as [|e0 es] eqn:Hsp; [exfalso; eapply split_nonempty; exact Hsp|].
        cbn [forallb]. rewrite elem_alnum_since. reflexivity.
    + destruct (split 47 rest) as [|e0 es] eqn:Hsp; [exfalso; eapply split_nonempty; exact Hsp|].
      rewrite (split_cons_other 47 c rest e0 es Hc Hsp). rewrite gen_name. cbn [forallb]. rewrite nlen_cons.
      destruct (is_alnum_us c).
      * rewrite IH by lia. replace (since + 1 + nlen e0) with (since + (nlen e0 + 1)) by lia. cbn [andb]. reflexivity.
      * cbn [andb]. rewrite andb_false_r. reflexivity.
Qed.

Lemma split_single_nil sep s : split sep s = [[]] -> s = [].
Proof.
  destruct s as [|c t]; [reflexivity|]. simpl. destruct (c =? sep).
  - intros H. inversion H as [H1]. exfalso. eapply split_nonempty; exact H1.
  - destruct (split sep t); discriminate.
Qed.

Theorem path_correct : forall s, validate_path s = spec_path s.
Proof.
  intros s. unfold validate_path, spec_path. destruct s as [|c rest]; [reflexivity|].
  unfold SLASH. destruct (c =? 47) eqn:Hc.
  - apply N.eqb_eq in Hc. subst c. rewrite split_cons_sep.
    destruct rest as [|d rest'].
    + reflexivity.
    + rewrite path_loop_spec; [|lia|rewrite !nlen_cons; lia].
      destruct (split 47 (d :: rest')) as [|e0 es] eqn:Hsp; [exfalso; eapply split_nonempty; exact Hsp|].
      rewrite elem_alnum_since.
      destruct e0 as [|x t]; [|reflexivity].
      destruct es as [|e1 es']; [apply split_single_nil in Hsp; discriminate|]. reflexivity.
  - destruct (split 47 rest) as [|e0 es] eqn:Hsp; [exfalso; eapply split_nonempty; exact Hsp|].
    rewrite (split_cons_other 47 c rest e0 es Hc Hsp). reflexivity.
Qed.
