(* C07: equality of rules, RemoveMatch, disconnect, and the invariants that hold
   along every history of AddMatch / RemoveMatch / disconnect. *)
From DV Require Import Lib.Base Match.Rule Match.Matcher Match.Bus Spec.MatchSpec
  Proofs.MatchRecipients Proofs.MatchSemantics.
From Coq Require Import ZArith ZifyBool ZifyN ZifyNat.
Local Open Scope N_scope.

(* ---- rule->flags: equal masks <-> the same keys present ------------------------------- *)
Definition present (r : rule) : list bool :=
  [isSome (r_type r); isSome (r_iface r); isSome (r_member r); isSome (r_sender r); isSome (r_dest r);
   match r_path r with Some (false, _) => true | _ => false end;
   match r_args r with [] => false | _ => true end;
   match r_path r with Some (true, _) => true | _ => false end;
   r_eaves r].

Lemma bits9 (x0 x1 x2 x3 x4 x5 x6 x7 x8 y0 y1 y2 y3 y4 y5 y6 y7 y8 : N) :
  x0 <= 1 -> x1 <= 1 -> x2 <= 1 -> x3 <= 1 -> x4 <= 1 -> x5 <= 1 -> x6 <= 1 -> x7 <= 1 -> x8 <= 1 ->
  y0 <= 1 -> y1 <= 1 -> y2 <= 1 -> y3 <= 1 -> y4 <= 1 -> y5 <= 1 -> y6 <= 1 -> y7 <= 1 -> y8 <= 1 ->
  x0 + 2 * x1 + 4 * x2 + 8 * x3 + 16 * x4 + 32 * x5 + 64 * x6 + 128 * x7 + 256 * x8 =
  y0 + 2 * y1 + 4 * y2 + 8 * y3 + 16 * y4 + 32 * y5 + 64 * y6 + 128 * y7 + 256 * y8 ->
  x0 = y0 /\ x1 = y1 /\ x2 = y2 /\ x3 = y3 /\ x4 = y4 /\ x5 = y5 /\ x6 = y6 /\ x7 = y7 /\ x8 = y8.
Proof. lia. Qed.

Definition weight (l : list bool) : N :=
  match l with
  | [b0; b1; b2; b3; b4; b5; b6; b7; b8] =>
      N.b2n b0 + 2 * N.b2n b1 + 4 * N.b2n b2 + 8 * N.b2n b3 + 16 * N.b2n b4 + 32 * N.b2n b5 + 64 * N.b2n b6 + 128 * N.b2n b7 + 256 * N.b2n b8
  | _ => 0
  end.

(* uses the generated BUS_MATCH_* values: they are the distinct powers of two 1..256 *)
Lemma flags_weight r : rule_flags r = weight (present r).
Proof.
  unfold rule_flags, present, weight.
  destruct (r_type r), (r_iface r), (r_member r), (r_sender r), (r_dest r), (r_path r) as [[[|] ?]|], (r_args r), (r_eaves r); reflexivity.
Qed.

Lemma b2n_le1 b : N.b2n b <= 1. Proof. destruct b; simpl; lia. Qed.
Lemma b2n_inj a b : N.b2n a = N.b2n b -> a = b. Proof. destruct a, b; simpl; intros; try reflexivity; lia. Qed.

Lemma flags_present a b : rule_flags a = rule_flags b <-> present a = present b.
Proof.
  rewrite !flags_weight. split; [|intros ->; reflexivity].
  unfold present, weight. intros H.
  apply bits9 in H; try apply b2n_le1.
  destruct H as (H0 & H1 & H2 & H3 & H4 & H5 & H6 & H7 & H8).
  apply b2n_inj in H0, H1, H2, H3, H4, H5, H6, H7, H8. congruence.
Qed.

(* ---- match_rule_equal -------------------------------------------------------------------- *)
Lemma argkind_eqb_eq a b : argkind_eqb a b = true <-> a = b.
Proof. destruct a, b; simpl; split; congruence. Qed.

Lemma arg_slot_eqb_eq x y : arg_slot_eqb x y = true <-> x = y.
Proof.
  destruct x as [[k1 v1]|], y as [[k2 v2]|]; simpl; try (split; congruence).
  rewrite andb_true_iff, argkind_eqb_eq, bytes_eqb_eq. split; [intros [-> ->]; reflexivity | intros E; inversion E; auto].
Qed.

Lemma args_eqb_eq x y : args_eqb x y = true <-> x = y.
Proof.
  revert y; induction x as [|u x IH]; intros [|v y]; simpl; try (split; congruence).
  rewrite andb_true_iff, arg_slot_eqb_eq, IH. split; [intros [-> ->]; reflexivity | intros E; inversion E; auto].
Qed.

(* since commit 5996fca: equal exactly when they are the same rule *)
Theorem rule_equal_eq a b : rule_equal a b = true <-> a = b.
Proof.
  split.
  - unfold rule_equal. rewrite !andb_true_iff. intros [[[[[[[[Hf Ho] Ht] Hm] Hp] Hi] Hs] Hd] Ha].
    apply N.eqb_eq in Hf. apply flags_present in Hf. apply N.eqb_eq in Ho. apply args_eqb_eq in Ha.
    destruct a as [ao at_ ai am as_ ad ap ae aa], b as [bo bt bi bm bs bd bp be ba].
    unfold present in *. cbn [r_owner r_type r_iface r_member r_sender r_dest r_path r_eaves r_args] in *.
    injection Hf as F1 F2 F3 F4 F5 F6 F7 F8 F9. subst.
    assert (at_ = bt) as ->.
    { destruct at_, bt; simpl in *; try discriminate; [apply N.eqb_eq in Ht; now subst | reflexivity]. }
    assert (ai = bi) as ->.
    { destruct ai, bi; simpl in *; try discriminate; [apply bytes_eqb_eq in Hi; now subst | reflexivity]. }
    assert (am = bm) as ->.
    { destruct am, bm; simpl in *; try discriminate; [apply bytes_eqb_eq in Hm; now subst | reflexivity]. }
    assert (as_ = bs) as ->.
    { destruct as_, bs; simpl in *; try discriminate; [apply bytes_eqb_eq in Hs; now subst | reflexivity]. }
    assert (ad = bd) as ->.
    { destruct ad, bd; simpl in *; try discriminate; [apply bytes_eqb_eq in Hd; now subst | reflexivity]. }
    assert (ap = bp) as ->.
    { destruct ap as [[[|] x]|], bp as [[[|] y]|]; simpl in *; try discriminate; try reflexivity;
        apply bytes_eqb_eq in Hp; now subst. }
    reflexivity.
  - intros ->. unfold rule_equal. rewrite !andb_true_iff. repeat split.
    + apply N.eqb_refl.
    + apply N.eqb_refl.
    + destruct (r_type b); simpl; [apply N.eqb_refl | reflexivity].
    + destruct (r_member b); simpl; [apply bytes_eqb_refl | reflexivity].
    + destruct (r_path b) as [[[|] x]|]; simpl; try reflexivity; apply bytes_eqb_refl.
    + destruct (r_iface b); simpl; [apply bytes_eqb_refl | reflexivity].
    + destruct (r_sender b); simpl; [apply bytes_eqb_refl | reflexivity].
    + destruct (r_dest b); simpl; [apply bytes_eqb_refl | reflexivity].
    + now apply args_eqb_eq.
Qed.

Lemma rule_equal_refl a : rule_equal a a = true.
Proof. now apply rule_equal_eq. Qed.

(* equal rules live in the same pool, so looking only in the value's pool loses nothing *)
Lemma rule_equal_same_pool r v : rule_equal r v = true -> in_pool (r_type v) (r_iface v) r = true.
Proof.
  unfold rule_equal. rewrite !andb_true_iff. intros [[[[[[[[Hf Ho] Ht] Hm] Hp] Hi] Hs] Hd] Ha].
  apply N.eqb_eq in Hf. apply flags_present in Hf. unfold present in Hf. injection Hf as F1 F2 _ _ _ _ _ _ _.
  apply in_pool_iff. split.
  - destruct (r_type r), (r_type v); simpl in *; try discriminate; [apply N.eqb_eq in Ht; now subst | reflexivity].
  - destruct (r_iface r), (r_iface v); simpl in *; try discriminate; [apply bytes_eqb_eq in Hi; now subst | reflexivity].
Qed.

(* ---- bus_matchmaker_remove_rule_by_value --------------------------------------------------------- *)
Lemma remove_first_equal_spec : forall l v,
  match remove_first_equal l v with
  | Some l' => exists l1 r l2, l = l1 ++ r :: l2 /\ l' = l1 ++ l2 /\ rule_equal r v = true /\
                               (forall x, In x l1 -> rule_equal x v = false)
  | None => forall x, In x l -> rule_equal x v = false
  end.
Proof.
  induction l as [|r rest IH]; intros v; simpl.
  - intros x [].
  - destruct (in_pool (r_type v) (r_iface v) r && rule_equal r v) eqn:E.
    + apply andb_true_iff in E. destruct E as [_ E]. exists [], r, rest. simpl. repeat split; auto. intros x [].
    + assert (Er : rule_equal r v = false).
      { destruct (rule_equal r v) eqn:E2; [|reflexivity]. rewrite (rule_equal_same_pool r v E2) in E. discriminate. }
      specialize (IH v). destruct (remove_first_equal rest v) as [rest'|].
      * destruct IH as [l1 [r0 [l2 [-> [-> [He Hn]]]]]]. exists (r :: l1), r0, l2. simpl. repeat split; auto.
        intros x [<-|Hx]; auto.
      * intros x [<-|Hx]; auto.
Qed.

(* RemoveMatch: exactly one rule goes, it is rule_equal to the argument and it is the newest such rule;
   every other rule stays, in order.  None exactly when no rule is rule_equal to the argument. *)
Theorem remove_rule_by_value_spec m v :
  match remove_rule_by_value m v with
  | Some m' => exists l1 r l2, m = l1 ++ r :: l2 /\ m' = l1 ++ l2 /\ rule_equal r v = true /\
                               (forall x, In x l2 -> rule_equal x v = false)
  | None => forall x, In x m -> rule_equal x v = false
  end.
Proof.
  unfold remove_rule_by_value. pose proof (remove_first_equal_spec (rev m) v) as H.
  destruct (remove_first_equal (rev m) v) as [l'|].
  - destruct H as [l1 [r [l2 [E1 [E2 [He Hn]]]]]].
    exists (rev l2), r, (rev l1). repeat split.
    + rewrite <- (rev_involutive m), E1, rev_app_distr. simpl. now rewrite <- app_assoc.
    + subst l'. now rewrite rev_app_distr.
    + assumption.
    + intros x Hx. apply Hn. now apply in_rev.
  - intros x Hx. apply H. now apply -> in_rev.
Qed.

(* ---- disconnect -------------------------------------------------------------------------------------- *)
Theorem disconnect_clears m c name : forall r, In r (handle_disconnect m c name) -> r_owner r <> c.
Proof.
  intros r Hin Ho. unfold handle_disconnect in Hin.
  destruct (0 <? n_match_rules m c) eqn:E.
  - unfold matchmaker_disconnected in Hin. apply filter_In in Hin. destruct Hin as [_ Hd].
    unfold dropped_on_disconnect in Hd. apply N.eqb_eq in Ho. rewrite Ho in Hd. discriminate.
  - unfold n_match_rules, nlen in E.
    assert (In r (filter (fun r0 => r_owner r0 =? c) m)) as Hf by (apply filter_In; split; [assumption | now apply N.eqb_eq]).
    destruct (filter (fun r0 => r_owner r0 =? c) m); [destruct Hf | simpl in E; lia].
Qed.

(* rules of other connections survive unless they name the leaving unique name *)
Theorem disconnect_keeps m c name r :
  In r m -> r_owner r <> c -> r_sender r <> Some name -> r_dest r <> Some name -> In r (handle_disconnect m c name).
Proof.
  intros Hin Ho Hs Hd. unfold handle_disconnect. destruct (0 <? n_match_rules m c); [|assumption].
  unfold matchmaker_disconnected. apply filter_In. split; [assumption|].
  unfold dropped_on_disconnect. apply N.eqb_neq in Ho. rewrite Ho.
  assert ((match r_sender r with Some s => bytes_eqb s name | None => false end) = false) as ->.
  { destruct (r_sender r) as [s|]; [|reflexivity]. destruct (bytes_eqb s name) eqn:E; [|reflexivity]. apply bytes_eqb_eq in E. subst. congruence. }
  assert ((match r_dest r with Some s => bytes_eqb s name | None => false end) = false) as ->.
  { destruct (r_dest r) as [s|]; [|reflexivity]. destruct (bytes_eqb s name) eqn:E; [|reflexivity]. apply bytes_eqb_eq in E. subst. congruence. }
  destruct (_ || _); reflexivity.
Qed.

Theorem disconnect_sublist m c name r : In r (handle_disconnect m c name) -> In r m.
Proof.
  unfold handle_disconnect. destruct (0 <? n_match_rules m c); [|auto].
  unfold matchmaker_disconnected. intros H. apply filter_In in H. tauto.
Qed.

(* ---- what the parser guarantees about every stored rule ------------------------------------------- *)
Definition rule_ok (r : rule) : Prop := type_wf r /\ path_wf r.

Lemma type_from_string_valid v t : type_from_string v = Some t -> valid_type t = true.
Proof.
  unfold type_from_string.
  repeat match goal with |- (if ?c then _ else _) = _ -> _ => destruct c end;
    intros E; inversion E; reflexivity.
Qed.

Lemma parse_arg_match_fields r k v r' : parse_arg_match r k v = Some r' ->
  r_owner r' = r_owner r /\ r_type r' = r_type r /\ r_path r' = r_path r.
Proof.
  unfold parse_arg_match.
  destruct (nlen k <? 4); [discriminate|].
  destruct (parse_uint (skipn 3 k)) as [[arg consumed]|]; [|discriminate].
  match goal with |- match ?K with _ => _ end = _ -> _ => destruct K as [kind|] end; [|discriminate].
  destruct (DBUS_MAXIMUM_MATCH_RULE_ARG_NUMBER <? arg); [discriminate|].
  destruct (arg_slot_taken r arg); [discriminate|].
  intros E; inversion E; auto.
Qed.

Lemma parse_token_ok r t r' : rule_ok r -> parse_token r t = Some r' -> rule_ok r' /\ r_owner r' = r_owner r.
Proof.
  intros [Ht Hp] H. destruct t as [key value]. unfold parse_token in H. unfold rule_ok, type_wf, path_wf in *.
  repeat match type of H with
         | (if ?c then _ else _) = Some _ => destruct c eqn:?; try discriminate
         | match ?x with Some _ => _ | None => _ end = Some _ => destruct x eqn:?; try discriminate
         end;
    try (inversion H; subst; cbn [r_type r_path r_owner]; repeat split; auto; fail).
  - inversion H; subst; cbn [r_type r_path r_owner]. repeat split; auto. eapply type_from_string_valid; eauto.
  - inversion H; subst; cbn [r_type r_path r_owner]. repeat split; auto.
    destruct (bytes_eqb key S_path_namespace); [|exact I]. apply negb_false_iff. assumption.
  - apply parse_arg_match_fields in H. destruct H as [Ho [Ety Epa]]. rewrite Ety, Epa. auto.
Qed.

Lemma parse_tokens_ok : forall ts r r', rule_ok r -> parse_tokens r ts = Some r' -> rule_ok r' /\ r_owner r' = r_owner r.
Proof.
  induction ts as [|t ts IH]; intros r r' Hok H; simpl in H.
  - inversion H; subst. auto.
  - destruct (parse_token r t) as [r1|] eqn:E; [|discriminate].
    destruct (parse_token_ok _ _ _ Hok E) as [Hok1 Ho1].
    destruct (IH _ _ Hok1 H) as [Hok' Ho']. split; [assumption | congruence].
Qed.

Theorem parse_rule_ok c text r : parse_rule c text = POk r -> rule_ok r /\ r_owner r = c.
Proof.
  unfold parse_rule. destruct (DBUS_MAXIMUM_MATCH_RULE_LENGTH <? nlen text); [discriminate|].
  destruct (tokenize text) as [toks|]; [|discriminate].
  destruct (parse_tokens (empty_rule c) (token_prefix toks)) as [r0|] eqn:E; [|discriminate].
  intros H; inversion H; subst r0.
  apply (parse_tokens_ok (token_prefix toks) (empty_rule c) r); [|assumption].
  split; [exact I | exact I].
Qed.

(* ---- every history --------------------------------------------------------------------------------- *)
(* the states the matchmaker can be in: any sequence of AddMatch / RemoveMatch / disconnect, by any
   connections, with any rule texts *)
Inductive reachable (limit : N) : mm -> Prop :=
| reach_empty : reachable limit []
| reach_add m c text priv : reachable limit m -> reachable limit (fst (handle_add_match limit priv m c text))
| reach_remove m c text : reachable limit m -> reachable limit (fst (handle_remove_match m c text))
| reach_disconnect m c name : reachable limit m -> reachable limit (handle_disconnect m c name).

Lemma count_app m r c : n_match_rules (m ++ [r]) c = n_match_rules m c + (if r_owner r =? c then 1 else 0).
Proof.
  unfold n_match_rules, nlen. rewrite filter_app, app_length. simpl. destruct (r_owner r =? c); simpl; lia.
Qed.

Lemma count_remove l1 r l2 c : n_match_rules (l1 ++ l2) c <= n_match_rules (l1 ++ r :: l2) c.
Proof.
  unfold n_match_rules, nlen. rewrite !filter_app, !app_length. simpl. destruct (r_owner r =? c); simpl; lia.
Qed.

Lemma count_filter (f : rule -> bool) m c : n_match_rules (filter f m) c <= n_match_rules m c.
Proof.
  unfold n_match_rules, nlen. induction m as [|x m IH]; simpl; [lia|].
  destruct (f x); simpl; destruct (r_owner x =? c); simpl; lia.
Qed.

Theorem reachable_inv limit m : reachable limit m ->
  Forall rule_ok m /\ (forall c, n_match_rules m c <= limit).
Proof.
  induction 1 as [|m c text priv Hr [IH1 IH2]|m c text Hr [IH1 IH2]|m c name Hr [IH1 IH2]].
  - split; [constructor|]. intros c. unfold n_match_rules, nlen. simpl. lia.
  - unfold handle_add_match. destruct (limit <=? n_match_rules m c) eqn:El; [auto|].
    destruct (parse_rule c text) as [| |r] eqn:Ep; simpl; auto.
    destruct (r_eaves r && negb priv); simpl; [auto|].
    destruct (parse_rule_ok _ _ _ Ep) as [Hok Ho].
    split.
    + unfold add_rule. apply Forall_app. split; [assumption|]. constructor; [assumption|constructor].
    + intros c'. unfold add_rule. rewrite count_app. rewrite Ho.
      destruct (c =? c') eqn:Ec; [apply N.eqb_eq in Ec; subst c'; specialize (IH2 c); lia | specialize (IH2 c'); lia].
  - unfold handle_remove_match. destruct (parse_rule c text) as [| |r] eqn:Ep; simpl; auto.
    pose proof (remove_rule_by_value_spec m r) as Hs.
    destruct (remove_rule_by_value m r) as [m'|]; simpl; [|auto].
    destruct Hs as [l1 [r0 [l2 [-> [-> _]]]]]. split.
    + apply Forall_app in IH1. destruct IH1 as [Ha Hb]. inversion Hb; subst. apply Forall_app. auto.
    + intros c'. specialize (IH2 c'). pose proof (count_remove l1 r0 l2 c'). lia.
  - split.
    + apply Forall_forall. intros r Hin. apply disconnect_sublist in Hin. rewrite Forall_forall in IH1. auto.
    + intros c'. unfold handle_disconnect. destruct (0 <? n_match_rules m c); [|auto].
      unfold matchmaker_disconnected. pose proof (count_filter (fun r => negb (dropped_on_disconnect c name r)) m c'). specialize (IH2 c'). lia.
Qed.

(* ---- the delivery statement ------------------------------------------------------------------------- *)
Lemma fan_out_filter caps nfds l : fan_out caps nfds l = filter (fd_ok caps nfds) l.
Proof. induction l as [|d l IH]; simpl; [reflexivity|]. destruct (fd_ok caps nfds d); now rewrite IH. Qed.

Lemma fd_ok_iff caps nfds c : fd_ok caps nfds c = true <-> nfds = 0 \/ In c caps.
Proof. unfold fd_ok. rewrite orb_true_iff, N.eqb_eq, existsb_eqb_In. tauto. Qed.

(* A broadcast signal sent by connection c, in any reachable state: the list of connections that get a
   copy has no repetition and contains exactly the connections that hold a rule which matches according
   to the specification AND can take the message (it carries no unix fds, or they negotiated fd passing).
   In particular a recipient that is skipped has no influence on any other. *)
Theorem broadcast_delivery limit mk ns caps c m nfds l :
  reachable limit mk ->
  m_dest m = None -> m_type m = DBUS_MESSAGE_TYPE_SIGNAL ->
  dispatch ns mk caps c m nfds = Some (RDelivered l) ->
  NoDup l /\
  forall x, In x l <-> (nfds = 0 \/ In x caps) /\
                       exists r, In r mk /\ r_owner r = x /\ spec_matches ns (abs_rule r) (Some c) None m = true.
Proof.
  intros Hr Hd Ht H. unfold dispatch, dispatch_with in H. rewrite Hd, Ht in H. rewrite N.eqb_refl in H.
  destruct (get_recipients ns mk (Some c) None m) as [l0|] eqn:Eg; [|discriminate].
  inversion H; subst l; clear H. rewrite fan_out_filter.
  destruct (reachable_inv _ _ Hr) as [Hok _].
  assert (Hwf : Forall type_wf mk) by (eapply Forall_impl; [|exact Hok]; intros r [Hx _]; exact Hx).
  destruct (get_recipients_exact _ _ _ _ _ _ Hwf Eg) as [Hnd [Hin Hnf]].
  split; [apply NoDup_filter; assumption|]. intros x. rewrite filter_In, fd_ok_iff, Hin. split.
  - intros [[_ [r [Hr1 [Ho Hf]]]] Hc]. split; [assumption|]. exists r. split; [assumption|]. split; [assumption|].
    rewrite Forall_forall in Hok. apply (matches_spec ns r (Some c) None m true); [apply Hok; assumption | exact Hf].
  - intros [Hc [r [Hr1 [Ho Hs]]]]. split; [|assumption]. split; [discriminate|]. exists r. split; [assumption|]. split; [assumption|].
    unfold full. destruct (rule_matches ns r (Some c) None m false) as [b|] eqn:Em.
    + rewrite Forall_forall in Hok. rewrite (matches_spec ns r (Some c) None m b) in Hs; [congruence | apply Hok; assumption | exact Em].
    + exfalso. exact (Hnf r Hr1 Em).
Qed.

(* a unicast message: the addressed connection first, then the eavesdroppers, nobody twice *)
Theorem unicast_delivery limit mk ns caps c m nfds d a l :
  reachable limit mk ->
  m_dest m = Some d -> bytes_eqb d S_org_freedesktop_DBus = false -> owner_of ns d = Some a ->
  dispatch ns mk caps c m nfds = Some (RDelivered l) ->
  valid_type (m_type m) = true /\ (nfds = 0 \/ In a caps) /\ NoDup l /\ In a l /\
  forall x, x <> a -> (In x l <-> (nfds = 0 \/ In x caps) /\
                                  exists r, In r mk /\ r_owner r = x /\ spec_matches ns (abs_rule r) (Some c) (Some a) m = true).
Proof.
  intros Hr Hd Hnd Ho H. unfold dispatch, dispatch_with in H. rewrite Hd, Hnd, Ho in H.
  destruct (valid_type (m_type m)) eqn:Evt; cbn [negb] in H; [|discriminate]. split; [reflexivity|].
  destruct (fd_ok caps nfds a) eqn:Efd; cbn [negb] in H; [|discriminate]. split; [now apply fd_ok_iff|].
  destruct (get_recipients ns mk (Some c) (Some a) m) as [l0|] eqn:Eg; [|discriminate].
  inversion H; subst l; clear H. rewrite fan_out_filter.
  destruct (reachable_inv _ _ Hr) as [Hok _].
  assert (Hwf : Forall type_wf mk) by (eapply Forall_impl; [|exact Hok]; intros r [Hx _]; exact Hx).
  destruct (get_recipients_exact _ _ _ _ _ _ Hwf Eg) as [Hnodup [Hin Hnf]].
  split.
  - constructor; [|apply NoDup_filter; assumption]. intros Ha. apply filter_In in Ha. destruct Ha as [Ha _].
    apply Hin in Ha. destruct Ha as [Hne _]. now apply Hne.
  - split; [now left|]. intros x Hx. simpl. rewrite filter_In, fd_ok_iff. split.
    + intros [E|[Hl Hc]]; [congruence|]. split; [assumption|]. apply Hin in Hl. destruct Hl as [_ [r [Hr1 [Hown Hf]]]].
      exists r. split; [assumption|]. split; [assumption|].
      rewrite Forall_forall in Hok. apply (matches_spec ns r (Some c) (Some a) m true); [apply Hok; assumption | exact Hf].
    + intros [Hc [r [Hr1 [Hown Hs]]]]. right. split; [|assumption]. apply Hin. split; [congruence|]. exists r. split; [assumption|]. split; [assumption|].
      unfold full. destruct (rule_matches ns r (Some c) (Some a) m false) as [b|] eqn:Em.
      * rewrite Forall_forall in Hok. rewrite (matches_spec ns r (Some c) (Some a) m b) in Hs; [congruence | apply Hok; assumption | exact Em].
      * exfalso. exact (Hnf r Hr1 Em).
Qed.

(* ---- the matcher is total (commit c577f29): no message and no rule set make dispatch fault --------------- *)
Lemma rfl_total ns s a m : forall rules seen acc, recipients_from_list ns rules s a m seen acc <> None.
Proof.
  induction rules as [|r rest IH]; intros seen acc; simpl; [discriminate|].
  pose proof (no_fault ns r s a m true) as Hn.
  destruct (rule_matches ns r s a m true) as [[|]|]; [|apply IH|congruence].
  destruct (existsb (N.eqb (r_owner r)) seen); apply IH.
Qed.

Theorem get_recipients_total ns mk s a m : get_recipients ns mk s a m <> None.
Proof.
  unfold get_recipients.
  repeat match goal with
         | |- match recipients_from_list ?n ?l ?s ?a ?m ?x ?y with _ => _ end <> None =>
             let E := fresh in pose proof (rfl_total n s a m l x y) as E;
             destruct (recipients_from_list n l s a m x y) as [[? ?]|]; [clear E|congruence]
         end.
  discriminate.
Qed.

Theorem dispatch_total ns mk caps c m nfds : dispatch ns mk caps c m nfds <> None.
Proof.
  unfold dispatch, dispatch_with. destruct (m_dest m) as [d|].
  - destruct (bytes_eqb d S_org_freedesktop_DBus); [discriminate|].
    destruct (owner_of ns d) as [a|]; [|discriminate].
    destruct (negb (valid_type (m_type m))); [discriminate|].
    destruct (negb (fd_ok caps nfds a)); [discriminate|].
    pose proof (get_recipients_total ns mk (Some c) (Some a) m). destruct (get_recipients ns mk (Some c) (Some a) m); [discriminate|congruence].
  - destruct (m_type m =? DBUS_MESSAGE_TYPE_SIGNAL); [|discriminate].
    pose proof (get_recipients_total ns mk (Some c) None m). destruct (get_recipients ns mk (Some c) None m); [discriminate|congruence].
Qed.

(* ---- RemoveMatch replies (after the F9 fix) ------------------------------------------------------------------ *)
Theorem remove_single_reply m c text : snd (handle_remove_match m c text) <> RepOkThenNotFound.
Proof.
  unfold handle_remove_match. destruct (parse_rule c text); try (simpl; discriminate).
  destruct (remove_rule_by_value m r); simpl; discriminate.
Qed.

Theorem remove_not_found m c text :
  snd (handle_remove_match m c text) = RepNotFound <->
  exists r, parse_rule c text = POk r /\ (forall x, In x m -> x <> r).
Proof.
  unfold handle_remove_match. destruct (parse_rule c text) as [| |r] eqn:Ep.
  - simpl. split; [discriminate | intros [r [E _]]; discriminate].
  - simpl. split; [discriminate | intros [r [E _]]; discriminate].
  - pose proof (remove_rule_by_value_spec m r) as Hs.
    destruct (remove_rule_by_value m r) as [m'|]; simpl.
    + split; [discriminate|]. intros [r0 [E Hno]]. inversion E; subst r0.
      destruct Hs as [l1 [x [l2 [-> [_ [He _]]]]]]. apply rule_equal_eq in He. subst x.
      exfalso. apply (Hno r); [apply in_or_app; right; now left | reflexivity].
    + split; [|reflexivity]. intros _. exists r. split; [reflexivity|].
      intros x Hx E. subst x. specialize (Hs r Hx). rewrite rule_equal_refl in Hs. discriminate.
Qed.

Theorem remove_failure_keeps m c text :
  snd (handle_remove_match m c text) <> RepOk -> fst (handle_remove_match m c text) = m.
Proof.
  unfold handle_remove_match. destruct (parse_rule c text); try reflexivity.
  destruct (remove_rule_by_value m r); simpl; [congruence | reflexivity].
Qed.
