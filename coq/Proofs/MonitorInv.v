(* C18, part 2: the invariant of reachable states.  Monitors own nothing, wait for no reply and are
   awaited by nobody, have no ordinary match rules, and are connected; registry links are distinct. *)
From Coq Require Import ZifyBool ZifyN ZifyNat Permutation.
From DV Require Import Lib.Base Monitor.Monitor Spec.MonitorSpec Proofs.MonitorBase.
Local Open Scope N_scope.

Record Inv (st : state) : Prop := mkInv {
  own_ok : forall n c, In (n, c) (st_own st) -> connected st c = true /\ is_monitor st c = false;
  own_nodup : NoDup (st_own st);
  pend_ok : forall p, In p (st_pend st) ->
            is_monitor st (p_get p) = false /\ (forall s, p_send p = Some s -> is_monitor st s = false);
  rules_ok : forall r, In r (st_rules st) -> is_monitor st (fst r) = false;
  mons_conn : forall x, is_monitor st x = true -> connected st x = true;
  conns_lt : forall c, connected st c = true -> c < st_next st;
  held_ok : forall n c m, In (n, c, m) (st_held st) -> is_monitor st c = false /\ b_sender m = SConn c }.

Lemma Inv_init : Inv init.
Proof. split; simpl; try tauto; try constructor; try discriminate. Qed.

Lemma has_held_false st c : has_held st c = false -> forall n m, ~ In (n, c, m) (st_held st).
Proof.
  intros H n m Hin. apply Bool.not_true_iff_false in H. apply H. unfold has_held.
  apply existsb_exists. exists (n, c, m). split; auto. simpl. apply N.eqb_refl.
Qed.

(* ---------------------------------------------------------------- how the helper functions move the state *)
Lemma remove_owner_state st c n : fst (remove_owner st c n) = set_own st (unlink (st_own st) n c).
Proof.
  unfold remove_owner. destruct (queue (st_own st) n) as [|p rest]; simpl; auto.
  destruct (p =? c); reflexivity.
Qed.

Definition unlink_all (own : registry) (c : cid) (ns : list name) : registry :=
  fold_left (fun o n => unlink o n c) ns own.

Lemma release_all_state st c ns : fst (release_all st c ns) = set_own st (unlink_all (st_own st) c ns).
Proof.
  revert st. induction ns as [|n ns IH]; intros st; simpl.
  - destruct st; reflexivity.
  - destruct (remove_owner st c n) as [st1 i1] eqn:E1. destruct (release_all st1 c ns) as [st2 i2] eqn:E2.
    simpl. pose proof (IH st1) as H. rewrite E2 in H. simpl in H. rewrite H.
    pose proof (remove_owner_state st c n) as H1. rewrite E1 in H1. simpl in H1. subst st1. reflexivity.
Qed.

Lemma unlink_all_In own c ns k o : In (k, o) (unlink_all own c ns) <-> In (k, o) own /\ ~ (In k ns /\ o = c).
Proof.
  revert own. induction ns as [|n ns IH]; intros own; simpl.
  - tauto.
  - rewrite IH, unlink_In. split.
    + intros [[H1 H2] H3]. split; auto. intros [[->|H4] ->]; tauto.
    + intros [H1 H2]. split; [split; auto|]; intros [H3 H4]; apply H2; subst; auto.
Qed.

Lemma unlink_all_owned own c : forall k o, In (k, o) (unlink_all own c (owned own c)) <-> In (k, o) own /\ o <> c.
Proof.
  intros k o. rewrite unlink_all_In, owned_In. split.
  - intros [H1 H2]. split; auto. intros ->. tauto.
  - intros [H1 H2]. split; auto. tauto.
Qed.

Lemma unlink_all_owned_rev own c : forall k o, In (k, o) (unlink_all own c (rev (owned own c))) <-> In (k, o) own /\ o <> c.
Proof.
  intros k o. rewrite unlink_all_In, <- in_rev, owned_In. split.
  - intros [H1 H2]. split; auto. intros ->. tauto.
  - intros [H1 H2]. split; auto. tauto.
Qed.

Lemma NoDup_unlink own n c : NoDup own -> NoDup (unlink own n c).
Proof. intros H. unfold unlink. apply NoDup_filter; auto. Qed.

Lemma NoDup_unlink_all own c ns : NoDup own -> NoDup (unlink_all own c ns).
Proof. revert own. induction ns; intros own H; simpl; auto. apply IHns. apply NoDup_unlink; auto. Qed.

Lemma noreply_items_state st c : fst (noreply_items st c) = set_pend st (drop_pending (st_pend st) c).
Proof. reflexivity. Qed.

Lemma drop_pending_In pl c p : In p (drop_pending pl c) <-> In p pl /\ involves c p = false.
Proof. unfold drop_pending. rewrite filter_In, negb_true_iff. tauto. Qed.

Lemma involves_false c p : involves c p = false <-> p_get p <> c /\ (forall s, p_send p = Some s -> s <> c).
Proof.
  unfold involves. rewrite orb_false_iff, N.eqb_neq. destruct (p_send p) as [s|].
  - rewrite N.eqb_neq. split; [intros [H1 H2]; split; auto; intros s' E; inversion E; subst; auto | intros [H1 H2]; auto].
  - split; [intros [H1 _]; split; auto; discriminate | tauto].
Qed.

Lemma check_reply_sub l sd g s l' : check_reply l sd g s = Some l' -> forall p, In p l' -> In p l.
Proof.
  revert l'. induction l as [|q l IH]; simpl; intros l' H p Hp; [discriminate|].
  destruct (pend_match g sd s q).
  - inversion H; subst. right; auto.
  - destruct (check_reply l sd g s) as [r|]; [|discriminate]. inversion H; subst.
    destruct Hp as [->|Hp]; [left; auto | right; eapply IH; eauto].
Qed.

Lemma check_policy_sub pl c r m pl' v :
  check_policy pl c r m = (pl', v) -> forall p, In p pl' -> In p pl \/ p = mkPend c (Some r) (b_serial m).
Proof.
  unfold check_policy. intros H p Hp.
  destruct (unknown_type m); [inversion H; subst; left; auto|].
  set (pr := if b_rserial m =? 0 then (pl, false)
             else match check_reply pl c r (b_rserial m) with Some pl'0 => (pl'0, true) | None => (pl, false) end) in H.
  assert (Hs : forall q, In q (fst pr) -> In q pl).
  { subst pr. destruct (b_rserial m =? 0); simpl; auto.
    destruct (check_reply pl c r (b_rserial m)) as [x|] eqn:E; simpl; auto. intros q. apply (check_reply_sub _ _ _ _ _ E). }
  destruct pr as [pl1 req]. simpl in Hs.
  destruct (deny_send m req || deny_recv m req).
  - inversion H; subst. left; auto.
  - destruct (b_type m) as [[| | |]|n]; try solve [inversion H; subst; left; auto].
    unfold expect_reply in H. destruct (b_noreply m); [inversion H; subst; left; auto|].
    destruct (existsb (pend_match c r (b_serial m)) pl1); inversion H; subst; [left; auto|].
    destruct Hp as [<-|Hp]; [right; reflexivity | left; auto].
Qed.

Lemma NoDup_snoc {A} (l : list A) a : NoDup l -> ~ In a l -> NoDup (l ++ [a]).
Proof.
  induction l as [|x l IH]; simpl; intros Hn Hi.
  - constructor; auto.
  - inversion Hn; subst. constructor.
    + intros H. apply in_app_or in H. destruct H as [H|[H|[]]]; [auto | subst; apply Hi; left; auto].
    + apply IH; auto.
Qed.

(* ---------------------------------------------------------------- preservation, piece by piece *)
Lemma Inv_set_own_sub st own' :
  Inv st -> (forall p, In p own' -> In p (st_own st)) -> NoDup own' -> Inv (set_own st own').
Proof.
  intros I Hs Hn. destruct I. split; simpl; auto.
  intros n c H. apply (own_ok0 n c). apply Hs; auto.
Qed.

Lemma Inv_set_held st h' :
  Inv st -> (forall x, In x h' -> In x (st_held st) \/
                                  (is_monitor st (snd (fst x)) = false /\ b_sender (snd x) = SConn (snd (fst x)))) ->
  Inv (set_held st h').
Proof.
  intros I H. destruct I. split; simpl; auto.
  intros n c m Hin. destruct (H _ Hin) as [H1|H1]; auto. apply (held_ok0 n c m H1).
Qed.

Lemma Inv_set_own_add st n c :
  Inv st -> connected st c = true -> is_monitor st c = false -> ~ In (n, c) (st_own st) ->
  Inv (set_own st (st_own st ++ [(n, c)])).
Proof.
  intros I Hc Hm Hn. destruct I. split; simpl; auto.
  - intros k o H. apply in_app_or in H. destruct H as [H|[H|[]]]; [apply (own_ok0 k o); auto|].
    inversion H; subst. auto.
  - apply NoDup_snoc; auto.
Qed.

Lemma Inv_set_pend st pl' :
  Inv st ->
  (forall p, In p pl' -> In p (st_pend st) \/
                         (is_monitor st (p_get p) = false /\ forall s, p_send p = Some s -> is_monitor st s = false)) ->
  Inv (set_pend st pl').
Proof.
  intros I H. destruct I. split; simpl; auto.
  intros p Hp. destruct (H p Hp) as [H1|H1]; auto. apply (pend_ok0 p H1).
Qed.

Lemma Inv_remove_owner st c n : Inv st -> Inv (fst (remove_owner st c n)).
Proof.
  intros I. rewrite remove_owner_state. apply Inv_set_own_sub; auto.
  - intros [k o] H. apply unlink_In in H. tauto.
  - apply NoDup_unlink. apply (own_nodup _ I).
Qed.

Lemma Inv_release_all st c ns : Inv st -> Inv (fst (release_all st c ns)).
Proof.
  intros I. rewrite release_all_state. apply Inv_set_own_sub; auto.
  - intros [k o] H. apply unlink_all_In in H. tauto.
  - apply NoDup_unlink_all. apply (own_nodup _ I).
Qed.

Lemma Inv_noreply_items st c : Inv st -> Inv (fst (noreply_items st c)).
Proof.
  intros I. rewrite noreply_items_state. apply Inv_set_pend; auto.
  intros p H. left. apply drop_pending_In in H. tauto.
Qed.

Lemma deliver_state st c r m b : fst (deliver st c r m b) = set_pend st (fst (check_policy (st_pend st) c r m)).
Proof.
  unfold deliver. destruct (check_policy (st_pend st) c r m) as [pl v]. simpl.
  destruct v; [reflexivity|]. destruct (fanout (set_pend st pl) (Some c) (Some r) m); reflexivity.
Qed.

Lemma Inv_deliver st c r m b :
  Inv st -> is_monitor st c = false -> is_monitor st r = false -> Inv (fst (deliver st c r m b)).
Proof.
  intros I Hc Hr. rewrite deliver_state. destruct (check_policy (st_pend st) c r m) as [pl v] eqn:Ec. simpl.
  apply Inv_set_pend; auto. intros p Hp.
  destruct (check_policy_sub _ _ _ _ _ _ Ec p Hp) as [H | ->]; [left; auto|]. right. simpl.
  split; auto. intros s E. inversion E; subst; auto.
Qed.

Lemma Inv_resume_all r l : forall st,
  Inv st -> is_monitor st r = false -> (forall n c m, In (n, c, m) l -> is_monitor st c = false) ->
  Inv (fst (resume_all st r l)) /\ st_mons (fst (resume_all st r l)) = st_mons st.
Proof.
  induction l as [|[[n c] m] l IH]; intros st I Hr Hl; simpl; auto.
  destruct (connected st c).
  - destruct (deliver st c r m true) as [st1 i1] eqn:E1.
    pose proof (deliver_state st c r m true) as Hs. rewrite E1 in Hs. simpl in Hs.
    assert (I1 : Inv st1).
    { pose proof (Inv_deliver st c r m true I (Hl n c m (or_introl eq_refl)) Hr) as H. rewrite E1 in H. exact H. }
    assert (Em : st_mons st1 = st_mons st) by (subst st1; reflexivity).
    destruct (IH st1 I1) as [I2 E2].
    + unfold is_monitor. rewrite Em. exact Hr.
    + intros n' c' m' H. unfold is_monitor. rewrite Em. apply (Hl n' c' m'). right; auto.
    + destruct (resume_all st1 r l) as [st2 i2]. simpl in *. split; auto. congruence.
  - apply IH; auto. intros n' c' m' H. apply (Hl n' c' m'). right; auto.
Qed.

Lemma Inv_release_held st nm : Inv st -> Inv (fst (release_held st nm)).
Proof.
  intros I. unfold release_held. destruct (primary (st_own st) nm) as [r|] eqn:Ep; [|simpl; auto].
  assert (Hr : is_monitor st r = false). { apply primary_In in Ep. apply (own_ok _ I) in Ep. tauto. }
  apply Inv_resume_all.
  - apply Inv_set_held; auto. intros x H. apply filter_In in H. tauto.
  - exact Hr.
  - intros n c m H. apply filter_In in H. destruct H as [H _]. apply (held_ok _ I) in H. tauto.
Qed.

Lemma Inv_request_name st c s n dnq :
  Inv st -> connected st c = true -> is_monitor st c = false -> Inv (fst (request_name st c s n dnq)).
Proof.
  intros I Hc Hm. unfold request_name.
  assert (G : forall st' (l : list item) (code : N), Inv st' ->
              Inv (fst (let '(st'', l2) := release_held st' (NWk n) in
                        (st'', l ++ l2 ++ [from_driver st'' c (reply_msg c s [ANum code])])))).
  { intros st' l code I'. pose proof (Inv_release_held st' (NWk n) I') as H.
    destruct (release_held st' (NWk n)) as [st'' l2]. exact H. }
  destruct (queue (st_own st) (NWk n)) as [|p q] eqn:Eq.
  - apply G. apply Inv_set_own_add; auto. intros H. apply queue_In in H. rewrite Eq in H. destruct H.
  - destruct (p =? c); [apply G; auto|].
    destruct dnq.
    + apply G. apply Inv_set_own_sub; auto.
      * intros [k o] H. apply unlink_In in H. tauto.
      * apply NoDup_unlink. apply (own_nodup _ I).
    + destruct (memN c (p :: q)) eqn:Em; [apply G; auto|].
      apply G. apply Inv_set_own_add; auto. intros H. apply queue_In in H. rewrite Eq in H.
      apply memN_false in Em. auto.
Qed.

Lemma Inv_release_name st c s n : Inv st -> Inv (fst (release_name st c s n)).
Proof.
  intros I. unfold release_name.
  destruct (queue (st_own st) (NWk n)) as [|p q] eqn:Eq; [simpl; auto|].
  destruct (memN c (p :: q)); [|simpl; auto].
  destruct (remove_owner st c (NWk n)) as [st1 l1] eqn:E. simpl.
  pose proof (Inv_remove_owner st c (NWk n) I) as H. rewrite E in H. auto.
Qed.

Lemma Inv_add_match st c s f : Inv st -> is_monitor st c = false -> Inv (fst (add_match st c s f)).
Proof.
  intros I Hm. destruct I. unfold add_match. split; simpl; auto.
  intros r H. apply in_app_or in H. destruct H as [H|[<-|[]]]; auto. apply (rules_ok0 r H).
Qed.

Lemma Inv_dispatch st c m :
  Inv st -> is_monitor st c = false -> b_sender m = SConn c -> Inv (fst (dispatch st c m)).
Proof.
  intros I Hm Hs. unfold dispatch.
  destruct (b_dest m) as [d|].
  2:{ destruct (fanout st (Some c) None m); simpl; auto. }
  assert (G : forall d', Inv (fst (match primary (st_own st) d' with
                                   | None => no_owner st c d' m
                                   | Some r => deliver st c r m false
                                   end))).
  { intros d'. destruct (primary (st_own st) d') as [r|] eqn:Ep.
    - apply Inv_deliver; auto. apply primary_In in Ep. apply (own_ok _ I) in Ep. tauto.
    - unfold no_owner. destruct (b_noauto m); [simpl; auto|]. destruct (negb (activatable d')); [simpl; auto|].
      destruct (deny_send m false); [simpl; auto|]. simpl.
      apply Inv_set_held; auto. intros x H. apply in_app_or in H. destruct H as [H|[<-|[]]]; auto. }
  destruct d as [|u|w].
  - unfold to_driver. destruct (deny_send m false); [simpl; auto|].
    destruct (driver_generic st c m) as [st' l] eqn:E. simpl.
    unfold driver_generic in E. destruct (b_type m) as [[| | |]|n]; inversion E; subst; auto.
  - apply G.
  - apply G.
Qed.

Lemma filter_neq_In (x : cid) l c : In c (filter (fun y => negb (y =? x)) l) <-> In c l /\ c <> x.
Proof. rewrite filter_In, negb_true_iff, N.eqb_neq. tauto. Qed.

Lemma connected_filter st c x conns' :
  conns' = filter (fun y => negb (y =? x)) (st_conns st) ->
  memN c conns' = connected st c && negb (c =? x).
Proof. intros ->. unfold connected. apply memN_filter_neq. Qed.

(* a monitor is party to no pending reply: dropping them changes nothing and nobody is owed a NoReply *)
Lemma monitor_no_pending st c :
  Inv st -> is_monitor st c = true -> drop_pending (st_pend st) c = st_pend st /\ orphaned (st_pend st) c = [].
Proof.
  intros I Hm.
  assert (H : forall p, In p (st_pend st) -> involves c p = false).
  { intros p Hp. destruct (pend_ok _ I p Hp) as [H1 H2]. apply involves_false. split.
    - intros E. rewrite E in H1. congruence.
    - intros s E ->. rewrite (H2 c E) in Hm. discriminate. }
  split.
  - unfold drop_pending. induction (st_pend st) as [|p l IH]; simpl; auto.
    rewrite (H p (or_introl eq_refl)). simpl. f_equal. apply IH. intros q Hq. apply H. right; auto.
  - unfold orphaned. induction (st_pend st) as [|p l IH]; simpl; auto.
    assert (Hp := H p (or_introl eq_refl)). apply involves_false in Hp. destruct Hp as [Hg Hs].
    assert (E : (match p_send p with Some s => s =? c | None => false end) = false).
    { destruct (p_send p) as [s|] eqn:Es; auto. apply N.eqb_neq. apply Hs; auto. }
    rewrite E, andb_false_r. apply IH. intros q Hq. apply H. right; auto.
Qed.

Lemma Inv_disconnect st c : Inv st -> connected st c = true -> Inv (fst (disconnect st c)).
Proof.
  intros I Hc. unfold disconnect. destruct (is_monitor st c) eqn:Em.
  - (* a monitor leaves *)
    rewrite noreply_items_state. simpl. destruct (monitor_no_pending st c I Em) as [Ed _]. rewrite Ed.
    destruct I. split; simpl; unfold connected, is_monitor in *; simpl.
    + intros n o H. destruct (own_ok0 n o H) as [H1 H2]. rewrite !memN_filter_neq, H1, H2. simpl. split; auto.
      destruct (o =? c) eqn:E; auto. apply N.eqb_eq in E. subst. congruence.
    + auto.
    + intros p H. destruct (pend_ok0 p H) as [H1 H2]. rewrite memN_filter_neq, H1. split; auto.
      intros s E. rewrite memN_filter_neq, (H2 s E). reflexivity.
    + intros r H. rewrite memN_filter_neq, (rules_ok0 r H). reflexivity.
    + intros x H. rewrite memN_filter_neq in *. apply andb_true_iff in H. destruct H as [H1 H2].
      rewrite (mons_conn0 x H1), H2. reflexivity.
    + intros x H. rewrite memN_filter_neq in H. apply andb_true_iff in H. apply conns_lt0. tauto.
    + intros n o m H. destruct (held_ok0 n o m H) as [H1 H2]. rewrite memN_filter_neq, H1. auto.
  - (* an ordinary client leaves *)
    set (st1 := upd st (filter (fun x => negb (x =? c)) (st_conns st)) (st_next st) (st_own st)
                        (drop_rules (st_rules st) c) (st_mrules st) (st_mons st) (st_pend st)).
    destruct (release_all st1 c (rev (owned (st_own st1) c))) as [st2 rel] eqn:E2.
    destruct (noreply_items st2 c) as [st3 nr] eqn:E3. simpl.
    pose proof (release_all_state st1 c (rev (owned (st_own st1) c))) as H2. rewrite E2 in H2. simpl in H2.
    pose proof (noreply_items_state st2 c) as H3. rewrite E3 in H3. simpl in H3. subst st3 st2.
    destruct I. split; simpl; unfold connected, is_monitor in *; simpl.
    + intros n o H. apply unlink_all_owned_rev in H. destruct H as [H Hne].
      destruct (own_ok0 n o H) as [H1 H2]. rewrite memN_filter_neq, H1, H2. simpl. split; auto.
      apply negb_true_iff. apply N.eqb_neq. auto.
    + apply NoDup_unlink_all. auto.
    + intros p H. apply drop_pending_In in H. destruct H as [H _]. apply pend_ok0; auto.
    + intros r H. unfold drop_rules in H. apply filter_In in H. apply rules_ok0. tauto.
    + intros x H. rewrite memN_filter_neq, (mons_conn0 x H). simpl. apply negb_true_iff. apply N.eqb_neq. intros ->. congruence.
    + intros x H. rewrite memN_filter_neq in H. apply andb_true_iff in H. apply conns_lt0. tauto.
    + intros n o m H. apply (held_ok0 n o m H).
Qed.

Lemma Inv_become_monitor st c s fs :
  Inv st -> connected st c = true -> has_held st c = false -> Inv (fst (become_monitor st c s fs)).
Proof.
  intros I Hc Hh. pose proof (has_held_false st c Hh) as Hnh. unfold become_monitor.
  set (fs' := match fs with [] => [empty_filter] | _ => fs end).
  set (st1 := upd st (st_conns st) (st_next st) (st_own st) (st_rules st)
                      (st_mrules st ++ map (fun f => (c, f)) fs') (st_mons st) (st_pend st)).
  destruct (release_all st1 c (owned (st_own st1) c)) as [st2 rel] eqn:E2.
  pose proof (release_all_state st1 c (owned (st_own st1) c)) as H2. rewrite E2 in H2. simpl in H2.
  set (st3 := upd st2 (st_conns st2) (st_next st2) (st_own st2) (drop_rules (st_rules st2) c)
                      (st_mrules st2) (st_mons st2 ++ [c]) (st_pend st2)).
  destruct (noreply_items st3 c) as [st4 nr] eqn:E4. simpl.
  pose proof (noreply_items_state st3 c) as H4. rewrite E4 in H4. simpl in H4. subst st4 st3 st2.
  destruct I. split; simpl; unfold connected, is_monitor in *; simpl.
  - intros n o H. apply unlink_all_owned in H. destruct H as [H Hne].
    destruct (own_ok0 n o H) as [H1 H2]. split; auto.
    rewrite memN_app, H2. simpl. rewrite orb_false_r. apply N.eqb_neq. auto.
  - apply NoDup_unlink_all. auto.
  - intros p H. apply drop_pending_In in H. destruct H as [H Hi]. apply involves_false in Hi. destruct Hi as [Hg Hs].
    destruct (pend_ok0 p H) as [H1 H2]. split.
    + rewrite memN_app, H1. simpl. rewrite orb_false_r. apply N.eqb_neq. auto.
    + intros s' E. rewrite memN_app, (H2 s' E). simpl. rewrite orb_false_r. apply N.eqb_neq. apply Hs; auto.
  - intros r H. unfold drop_rules in H. apply filter_In in H. destruct H as [H Hne].
    rewrite memN_app, (rules_ok0 r H). simpl. rewrite orb_false_r. apply N.eqb_neq. intros E.
    simpl in Hne. apply negb_true_iff in Hne. apply N.eqb_neq in Hne. apply Hne. exact E.
  - intros x H. rewrite memN_app in H. apply orb_true_iff in H. destruct H as [H|H]; auto.
    simpl in H. rewrite orb_false_r in H. apply N.eqb_eq in H. subst; auto.
  - auto.
  - intros n o m H. destruct (held_ok0 n o m H) as [H1 H2]. split; auto.
    rewrite memN_app, H1. simpl. rewrite orb_false_r. apply N.eqb_neq. intros ->. apply (Hnh n m H).
Qed.

Lemma parse_all_None rs : parse_all rs = None <-> In None rs.
Proof.
  induction rs as [|[f|] rs IH]; simpl.
  - split; [discriminate | tauto].
  - destruct (parse_all rs) as [l|].
    + split; [discriminate|]. intros [H|H]; [discriminate|]. apply IH in H. discriminate.
    + split; auto. intros _. right. apply IH. reflexivity.
  - split; auto.
Qed.

Lemma Inv_become_monitor_call st c s so fl rs :
  Inv st -> connected st c = true -> has_held st c = false -> Inv (fst (become_monitor_call st c s so fl rs)).
Proof.
  intros I Hc Hh. unfold become_monitor_call.
  destruct (memN c (st_unpriv st)); [simpl; auto|]. destruct (negb so); [simpl; auto|].
  destruct (negb (fl =? 0)); [simpl; auto|]. destruct (parse_all rs); [|simpl; auto].
  apply Inv_become_monitor; auto.
Qed.

Lemma Inv_connect st priv : Inv st -> Inv (fst (connect st priv)).
Proof.
  intros I. unfold connect. simpl. destruct I. unfold set_own. simpl.
  assert (Hfresh : connected st (st_next st) = false).
  { destruct (connected st (st_next st)) eqn:E; auto. apply conns_lt0 in E. lia. }
  assert (Hnm : is_monitor st (st_next st) = false).
  { destruct (is_monitor st (st_next st)) eqn:E; auto. apply mons_conn0 in E. congruence. }
  split; simpl; unfold connected, is_monitor in *; simpl.
  - intros n o H. apply in_app_or in H. destruct H as [H|[H|[]]].
    + destruct (own_ok0 n o H) as [H1 H2]. rewrite memN_app, H1. auto.
    + inversion H; subst. rewrite memN_app. simpl. rewrite N.eqb_refl. simpl. rewrite orb_true_r. auto.
  - apply NoDup_snoc; auto. intros H. apply own_ok0 in H. destruct H as [H _]. congruence.
  - auto.
  - auto.
  - intros x H. rewrite memN_app, (mons_conn0 x H). reflexivity.
  - intros x H. rewrite memN_app in H. apply orb_true_iff in H. destruct H as [H|H].
    + apply conns_lt0 in H. lia.
    + simpl in H. rewrite orb_false_r in H. apply N.eqb_eq in H. lia.
  - intros n o m H. apply (held_ok0 n o m H).
Qed.

Lemma Inv_to_driver st c m h : Inv st -> Inv (fst h) -> Inv (fst (to_driver st c m h)).
Proof.
  intros I Ih. unfold to_driver. destruct (deny_send m false); [simpl; auto|]. destruct h; simpl in *; auto.
Qed.

Theorem Inv_step st e : Inv st -> calm_event st e = true -> Inv (fst (step st e)).
Proof.
  intros I Hcalm. unfold step. destruct (wf_event st e) eqn:W; simpl; auto.
  destruct e as [priv|c|c m|c s n dnq|c s n|c s f|c s|c s so fl rs]; simpl in W.
  - apply Inv_connect; auto.
  - apply Inv_disconnect; auto.
  - simpl. apply andb_true_iff in W. destruct W as [Wc _].
    destruct (peer_local (stamp c m)); [simpl; auto|].
    destruct (is_monitor st c) eqn:Em; [apply Inv_disconnect; auto|].
    destruct (unrouted (stamp c m)); [simpl; auto|]. apply Inv_dispatch; auto.
  - simpl. apply andb_true_iff in W. destruct W as [Wc _].
    destruct (is_monitor st c) eqn:Em; [apply Inv_disconnect; auto|].
    apply Inv_to_driver; auto. apply Inv_request_name; auto.
  - simpl. apply andb_true_iff in W. destruct W as [Wc _].
    destruct (is_monitor st c) eqn:Em; [apply Inv_disconnect; auto|].
    apply Inv_to_driver; auto. apply Inv_release_name; auto.
  - simpl. apply andb_true_iff in W. destruct W as [Wc _].
    destruct (is_monitor st c) eqn:Em; [apply Inv_disconnect; auto|].
    apply Inv_to_driver; auto. apply Inv_add_match; auto.
  - simpl. apply andb_true_iff in W. destruct W as [Wc _].
    destruct (is_monitor st c) eqn:Em; [apply Inv_disconnect; auto|].
    apply Inv_to_driver; auto.
  - simpl. apply andb_true_iff in W. destruct W as [Wc _].
    destruct (is_monitor st c) eqn:Em; [apply Inv_disconnect; auto|].
    apply Inv_to_driver; auto. apply Inv_become_monitor_call; auto.
    simpl in Hcalm. apply negb_true_iff in Hcalm. exact Hcalm.
Qed.

Lemma run_app st h1 h2 :
  run st (h1 ++ h2) = let '(s1, t1) := run st h1 in let '(s2, t2) := run s1 h2 in (s2, t1 ++ t2).
Proof.
  revert st. induction h1 as [|e h1 IH]; intros st; simpl.
  - destruct (run st h2); reflexivity.
  - destruct (step st e) as [s1 i1]. rewrite IH. destruct (run s1 h1) as [s2 t1]. destruct (run s2 h2). reflexivity.
Qed.

Lemma Inv_run st h : Inv st -> calm st h = true -> Inv (fst (run st h)).
Proof.
  revert st. induction h as [|e h IH]; intros st I Hc; simpl; auto.
  simpl in Hc. apply andb_true_iff in Hc. destruct Hc as [Hc1 Hc2].
  destruct (step st e) as [s1 i1] eqn:E. pose proof (Inv_step st e I Hc1) as I1. rewrite E in I1. simpl in I1, Hc2.
  specialize (IH s1 I1 Hc2). destruct (run s1 h); auto.
Qed.

Theorem Inv_creachable st : creachable st -> Inv st.
Proof. intros (h & Hc & ->). unfold state_after. apply Inv_run; auto. apply Inv_init. Qed.
