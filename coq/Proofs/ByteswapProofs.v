(* Correctness of the byte-order converter model (Wire/Byteswap.v) against the
   specification codec (Spec/Codec.v): run on the canonical encoding of any
   well-formed value / body / message in one byte order it produces exactly the
   canonical encoding in the other byte order, consumes exactly the encoding and
   leaves what follows untouched.  Unbounded: induction on values. *)
From DV Require Import Lib.Base Gen.Tables Wire.Body Wire.Message Wire.Byteswap Spec.Codec Wire.HeaderEdit
  Proofs.CodecBasics Proofs.CodecWf Proofs.CodecRoundtrip Proofs.CodecMessage Proofs.BodyCursor Proofs.BodyComplete
  Proofs.BodySound Proofs.LoaderComplete Proofs.SigRoundtrip Proofs.WireClean Proofs.EditProofs Proofs.Utf8Proofs.
From Coq Require Import ZArith ZifyBool ZifyN ZifyNat Arith.
Local Open Scope N_scope.
Ltac Zify.zify_post_hook ::= Z.div_mod_to_equations.

(* ---- A. the encoder's lengths, and hence well-formedness, do not depend on the byte order ---- *)
Lemma encs_len_order_F : forall vs,
  Forall (fun v => forall le le' pos, nlen (enc le v pos) = nlen (enc le' v pos)) vs ->
  forall le le' pos, nlen (encs le vs pos) = nlen (encs le' vs pos).
Proof.
  induction 1 as [|x r Hx Hr IH]; intros le le' pos; [reflexivity|].
  cbn [encs]. rewrite !nlen_app. rewrite (Hx le le' pos). rewrite (IH le le'). reflexivity.
Qed.

Theorem enc_len_order : forall v le le' pos, nlen (enc le v pos) = nlen (enc le' v pos).
Proof.
  induction v as [c n|c s|et vs IH|fs IH|k x IHk IHx|t x IHx] using val_ind'; intros le le' pos.
  - rewrite !enc_num. destruct (fixed_size c) as [sz|]; [|reflexivity]. rewrite !nlen_app, !bytes_of_length. reflexivity.
  - rewrite !enc_str. destruct (c =? 103); [reflexivity|]. rewrite !nlen_app, !(bytes_of_length _ 4). reflexivity.
  - rewrite !enc_arr. cbv zeta. rewrite !nlen_app, !(bytes_of_length _ 4). rewrite (encs_len_order_F vs IH le le'). reflexivity.
  - rewrite !enc_struct. rewrite !nlen_app. rewrite (encs_len_order_F fs IH le le'). reflexivity.
  - rewrite !enc_dict. rewrite !nlen_app.
    rewrite (encs_len_order_F [k; x] (Forall_cons k IHk (Forall_cons x IHx (Forall_nil _))) le le'). reflexivity.
  - rewrite !enc_var. cbv zeta. rewrite !nlen_app. rewrite (IHx le le'). reflexivity.
Qed.

Theorem encs_len_order : forall vs le le' pos, nlen (encs le vs pos) = nlen (encs le' vs pos).
Proof. intros vs. apply encs_len_order_F. apply Forall_forall. intros v _. apply enc_len_order. Qed.

Lemma wfsb_order_F : forall vs,
  Forall (fun v => forall le le' depth pos, wfb le depth pos v = wfb le' depth pos v) vs ->
  forall le le' depth pos, wfsb le vs depth pos = wfsb le' vs depth pos.
Proof.
  induction 1 as [|x r Hx Hr IH]; intros le le' depth pos; [reflexivity|].
  cbn [wfsb]. rewrite (Hx le le'). rewrite (enc_len_order x le le'). rewrite (IH le le'). reflexivity.
Qed.

Theorem wfb_order : forall v le le' depth pos, wfb le depth pos v = wfb le' depth pos v.
Proof.
  induction v as [c n|c s|et vs IH|fs IH|k x IHk IHx|t x IHx] using val_ind'; intros le le' depth pos.
  - reflexivity.
  - reflexivity.
  - rewrite !wfb_arr. rewrite (encs_len_order vs le le'). rewrite (wfsb_order_F vs IH le le'). reflexivity.
  - rewrite !wfb_struct. rewrite (wfsb_order_F fs IH le le'). reflexivity.
  - rewrite !wfb_dict. rewrite (wfsb_order_F [k; x] (Forall_cons k IHk (Forall_cons x IHx (Forall_nil _))) le le'). reflexivity.
  - cbn [wfb]. rewrite (IHx le le'). reflexivity.
Qed.

Theorem wfsb_order : forall vs le le' depth pos, wfsb le vs depth pos = wfsb le' vs depth pos.
Proof. intros vs. apply wfsb_order_F. apply Forall_forall. intros v _. apply wfb_order. Qed.

Lemma fields_val_order le le' fs : fields_val le fs = fields_val le' fs.
Proof. reflexivity. Qed.

Theorem wf_msg_swap : forall m, wf_msg (swap_order m) = wf_msg m.
Proof.
  intros [le mt fl serial fs sg body]. unfold wf_msg, swap_order. cbn [s_le s_type s_flags s_serial s_fields s_sig s_body].
  rewrite (wfb_order (fields_val (negb le) fs) (negb le) le). rewrite (fields_val_order (negb le) le).
  rewrite (wfsb_order body (negb le) le). rewrite (encs_len_order body (negb le) le).
  change (map (enc_field (negb le)) fs) with (map (enc_field le) fs).
  rewrite (encs_len_order (map (enc_field le) fs) (negb le) le). reflexivity.
Qed.

(* ---- B. the primitives on canonical pieces ---------------------------------------------------- *)
Lemma grab_app n x d : nlen x = n -> grab n (x ++ d) = Some (x, d).
Proof.
  intros H. unfold grab. rewrite nlen_app. replace (nlen x + nlen d <? n) with false by lia.
  subst n. unfold nlen. rewrite Nat2N.id. rewrite firstn_app, skipn_app. rewrite Nat.sub_diag. cbn [firstn skipn].
  rewrite firstn_all, skipn_all. rewrite app_nil_r. reflexivity.
Qed.

Lemma grab_all n x : nlen x = n -> grab n x = Some (x, []).
Proof. intros H. rewrite <- (app_nil_r x) at 1. apply grab_app. exact H. Qed.

Lemma align_skip_zeros pos a d : (a = 1 \/ a = 2 \/ a = 4 \/ a = 8) ->
  align_skip pos a (zeros (pad_amount pos a) ++ d) = BOk (zeros (pad_amount pos a), pos + pad_amount pos a, d).
Proof.
  intros Ha. unfold align_skip. rewrite (align_up_pad pos a Ha).
  replace (pos + pad_amount pos a - pos) with (pad_amount pos a) by lia.
  rewrite grab_app by apply nlen_zeros. reflexivity.
Qed.

Lemma rev_bytes_of le n v : rev (bytes_of le n v) = bytes_of (negb le) n v.
Proof. unfold bytes_of. destruct le; cbn [negb]; [reflexivity | apply rev_involutive]. Qed.

Lemma swap_word_enc le sz n pos rest : (sz = 1 \/ sz = 2 \/ sz = 4 \/ sz = 8) ->
  swap_word sz pos (zeros (pad_amount pos sz) ++ bytes_of le (N.to_nat sz) n ++ rest)
  = BOk (zeros (pad_amount pos sz) ++ bytes_of (negb le) (N.to_nat sz) n, pos + pad_amount pos sz + sz, rest).
Proof.
  intros Hs. unfold swap_word. rewrite (align_skip_zeros pos sz _ Hs). cbn [bbind].
  rewrite grab_app by (rewrite bytes_of_length; lia). rewrite rev_bytes_of. reflexivity.
Qed.

Lemma swap_len32_enc le pos v d : v < 4294967296 ->
  swap_len32 le pos (zeros (pad_amount pos 4) ++ bytes_of le 4 v ++ d)
  = BOk (zeros (pad_amount pos 4) ++ bytes_of (negb le) 4 v, v, pos + pad_amount pos 4 + 4, d).
Proof.
  intros Hv. unfold swap_len32. rewrite (align_skip_zeros pos 4 _ ltac:(lia)). cbn [bbind].
  destruct (bytes_of_4 le v) as (b0 & b1 & b2 & b3 & E & U).
  rewrite <- (rev_bytes_of le 4 v). rewrite E. cbn [app rev]. rewrite (U Hv). reflexivity.
Qed.

(* _dbus_swap_array on a run of fixed-size numbers *)
Lemma swap_blocks_nums le w : forall ns tail,
  swap_blocks (length ns) w (flat_map (fun n => bytes_of le w n) ns ++ tail) = flat_map (fun n => bytes_of (negb le) w n) ns ++ tail.
Proof.
  induction ns as [|n r IH]; intros tail; [reflexivity|].
  cbn [length swap_blocks flat_map]. rewrite <- !app_assoc.
  assert (L : length (bytes_of le w n) = w) by (pose proof (bytes_of_length le w n) as H; unfold nlen in H; lia).
  rewrite (firstn_app_exact _ _ w L), (skipn_app_exact _ _ w L). rewrite rev_bytes_of. rewrite IH. reflexivity.
Qed.

Lemma swap_blocks_1 : forall n d, swap_blocks n 1 d = d.
Proof.
  induction n as [|n IH]; intros d; [reflexivity|]. cbn [swap_blocks]. rewrite IH.
  destruct d as [|b d']; [reflexivity|]. reflexivity.
Qed.

Lemma bytes_of_1 le le' v : bytes_of le 1 v = bytes_of le' 1 v.
Proof. destruct le, le'; reflexivity. Qed.

(* ---- C. one value ------------------------------------------------------------------------------ *)
Ltac walk_eq := match goal with |- BOk (?o, ?a, ?r) = BOk (?o', ?b, ?r) => replace b with a; [replace o' with o; [reflexivity|] |] end.

Definition BSV (le : bool) (v : val) : Prop :=
  forall d depth pos rest, wfb le depth pos v = true -> wire_ok v = true -> (height v < d)%nat ->
    bsv le d (ty_of_val v) pos (enc le v pos ++ rest) = BOk (enc (negb le) v pos, pos + nlen (enc le v pos), rest).

Lemma bs_fields_encs le : forall vs, Forall (BSV le) vs ->
  forall d depth pos rest, wfsb le vs depth pos = true -> forallb wire_ok vs = true -> (heights vs < d)%nat ->
    bs_fields (bsv le d) (map ty_of_val vs) pos (encs le vs pos ++ rest)
    = BOk (encs (negb le) vs pos, pos + nlen (encs le vs pos), rest).
Proof.
  induction 1 as [|x r Hx Hr IH]; intros d depth pos rest Hw Hk Hh.
  - cbn. rewrite N.add_0_r. reflexivity.
  - cbn [wfsb] in Hw. apply andb_true_iff in Hw. destruct Hw as [Hwx Hwr].
    cbn [forallb] in Hk. apply andb_true_iff in Hk. destruct Hk as [Hkx Hkr].
    rewrite heights_cons in Hh. cbn [map bs_fields encs]. rewrite <- app_assoc.
    rewrite (Hx d depth pos _ Hwx Hkx) by lia. cbn [bbind].
    rewrite (IH d depth _ rest Hwr Hkr) by lia. cbn [bbind].
    rewrite (enc_len_order x (negb le) le). rewrite nlen_app. walk_eq; [reflexivity|lia].
Qed.

Lemma bs_elems_encs le et : forall vs, Forall (BSV le) vs ->
  forall d depth n pos rest array_end, wfsb le vs depth pos = true -> forallb wire_ok vs = true ->
    forallb (fun x => ty_eqb (ty_of_val x) et) vs = true ->
    (heights vs < d)%nat -> (length vs < n)%nat -> array_end = pos + nlen (encs le vs pos) ->
    bs_elems (bsv le d) n et array_end pos (encs le vs pos ++ rest) = BOk (encs (negb le) vs pos, array_end, rest).
Proof.
  induction 1 as [|x r Hx Hr IH]; intros d depth n pos rest array_end Hw Hk Ht Hh Hn He.
  - destruct n as [|n]; [lia|]. cbn [bs_elems encs app]. cbn [encs] in He. rewrite nlen_nil in He.
    replace (pos <? array_end) with false by lia. subst array_end. rewrite N.add_0_r. reflexivity.
  - cbn [wfsb] in Hw. apply andb_true_iff in Hw. destruct Hw as [Hwx Hwr].
    cbn [forallb] in Hk. apply andb_true_iff in Hk. destruct Hk as [Hkx Hkr].
    cbn [forallb] in Ht. apply andb_true_iff in Ht. destruct Ht as [Htx Htr]. apply ty_eqb_eq in Htx.
    rewrite heights_cons in Hh. destruct n as [|n]; [lia|]. cbn [bs_elems encs].
    pose proof (enc_nonempty le x _ _ Hwx) as Hne. cbn [encs] in He. rewrite nlen_app in He.
    replace (pos <? array_end) with true by lia. rewrite <- app_assoc. subst et.
    rewrite (Hx d depth pos _ Hwx Hkx) by lia. cbn [bbind].
    rewrite (IH d depth n _ rest array_end Hwr Hkr Htr); [|lia|cbn [length] in Hn; lia|lia]. cbn [bbind].
    rewrite (enc_len_order x (negb le) le). reflexivity.
Qed.

Lemma bs_basic_fixed le c sz : fixed_size c = Some sz -> forall pos data,
  bs_basic le c pos data =
  if sz =? 1 then match grab 1 data with Some (b, r) => BOk (b, pos + 1, r) | None => BFault end
  else swap_word sz pos data.
Proof.
  intros H pos data. apply fixed_codes in H.
  destruct H as [[-> ->] | [[[-> | ->] ->] | [[[-> | [-> | [-> | ->]]] ->] | [[-> | [-> | ->]] ->]]]]; reflexivity.
Qed.

Lemma bs_basic_string le c pos data : (c = 115 \/ c = 111) ->
  bs_basic le c pos data =
  bbind (swap_len32 le pos data) (fun '(o, len, p1, d1) =>
    match grab (len + 1) d1 with Some (s, d2) => BOk (o ++ s, p1 + (len + 1), d2) | None => BFault end).
Proof. intros [-> | ->]; reflexivity. Qed.

Lemma bs_basic_signature le pos data :
  bs_basic le 103 pos data =
  match data with
  | [] => BFault
  | len :: d1 => match grab (len + 1) d1 with Some (s, d2) => BOk (len :: s, pos + (len + 2), d2) | None => BFault end
  end.
Proof. reflexivity. Qed.

Lemma fixed_payload_swap le c sz vs depth start : fixed_size c = Some sz -> type_fixed c = true ->
  start mod sz = 0 -> wfsb le vs depth start = true -> forallb (fun x => ty_eqb (ty_of_val x) (TBasic c)) vs = true ->
  forall tail,
  swap_blocks (N.to_nat (nlen (encs le vs start) / sz)) (N.to_nat sz) (encs le vs start ++ tail) = encs (negb le) vs start ++ tail.
Proof.
  intros Hsz Hfx Hal Hw Ht tail.
  destruct (fixed_tables c sz Hsz) as (_ & _ & Hs).
  destruct (fixed_elems le c sz Hsz Hfx vs depth start Hal Hw Ht) as (E1 & E2 & E3 & _).
  assert (Hw' : wfsb (negb le) vs depth start = true) by (rewrite (wfsb_order vs (negb le) le); exact Hw).
  destruct (fixed_elems (negb le) c sz Hsz Hfx vs depth start Hal Hw' Ht) as (F1 & _ & _ & _).
  rewrite E2. rewrite N.div_mul by lia. rewrite Nat2N.id. rewrite <- E3. rewrite E1, F1.
  apply swap_blocks_nums.
Qed.


Theorem bsv_enc le : forall v, BSV le v.
Proof.
  induction v as [c n|c s|et vs IH|fs IH|k x IHk IHx|t x IHx] using val_ind'; intros d depth pos rest Hw Hk Hh;
    destruct d as [|d]; try lia; cbn [ty_of_val bsv].
  - (* fixed-size *)
    cbn [wfb] in Hw. apply andb_true_iff in Hw. destruct Hw as [Hd Hw].
    destruct (fixed_size c) as [sz|] eqn:Hsz; [|discriminate].
    destruct (fixed_tables c sz Hsz) as (_ & _ & Hs).
    rewrite (bs_basic_fixed le c sz Hsz). rewrite !enc_num, Hsz. rewrite <- app_assoc.
    destruct (sz =? 1) eqn:E1.
    + apply N.eqb_eq in E1. subst sz. rewrite pad1. change (zeros 0) with (@nil N). cbn [app]. change (N.to_nat 1) with 1%nat.
      rewrite grab_app by apply (bytes_of_length le 1). rewrite (bytes_of_length le 1). rewrite (bytes_of_1 (negb le) le). reflexivity.
    + rewrite (swap_word_enc le sz n pos rest Hs). rewrite nlen_app, nlen_zeros, bytes_of_length. walk_eq; [reflexivity|lia].
  - (* string-like *)
    cbn [wfb] in Hw. apply andb_true_iff in Hw. destruct Hw as [Hd Hw]. rewrite !enc_str.
    destruct (c =? 115) eqn:E115; [|destruct (c =? 111) eqn:E111; [|destruct (c =? 103) eqn:E103; [|discriminate]]].
    + apply andb_true_iff in Hw. destruct Hw as [_ Hl]. replace (c =? 103) with false by lia.
      rewrite (bs_basic_string le c) by (left; lia). rewrite <- !app_assoc.
      rewrite swap_len32_enc by lia. cbn [bbind]. rewrite app_assoc.
      rewrite grab_app by (rewrite nlen_app; reflexivity).
      rewrite !nlen_app, nlen_zeros, (bytes_of_length le 4). change (nlen [0]) with 1. rewrite <- !app_assoc. walk_eq; [reflexivity|lia].
    + apply andb_true_iff in Hw. destruct Hw as [_ Hl]. replace (c =? 103) with false by lia.
      rewrite (bs_basic_string le c) by (right; lia). rewrite <- !app_assoc.
      rewrite swap_len32_enc by lia. cbn [bbind]. rewrite app_assoc.
      rewrite grab_app by (rewrite nlen_app; reflexivity).
      rewrite !nlen_app, nlen_zeros, (bytes_of_length le 4). change (nlen [0]) with 1. rewrite <- !app_assoc. walk_eq; [reflexivity|lia].
    + apply N.eqb_eq in E103. subst c. rewrite bs_basic_signature. cbn [app].
      rewrite grab_app by (rewrite nlen_app; reflexivity).
      rewrite nlen_cons, nlen_app. change (nlen [0]) with 1. walk_eq; [reflexivity|lia].
  - (* array *)
    rewrite wfb_arr in Hw. apply andb_true_iff in Hw. destruct Hw as [Hd Hw].
    apply andb_true_iff in Hw. destruct Hw as [Hw Hws]. apply andb_true_iff in Hw. destruct Hw as [Hty Hsz].
    cbn [wire_ok] in Hk. apply andb_true_iff in Hk. destruct Hk as [Hk Hkall].
    apply andb_true_iff in Hk. destruct Hk as [Hal1 Hal2]. apply N.eqb_eq in Hal1.
    assert (Hal : spec_align et = 1 \/ spec_align et = 2 \/ spec_align et = 4 \/ spec_align et = 8) by lia.
    rewrite !enc_arr. cbv zeta. fold (arr_start pos et).
    rewrite (encs_len_order vs (negb le) le).
    set (payload := encs le vs (arr_start pos et)) in *. unfold max_array in Hsz.
    unfold bs_array. rewrite <- !app_assoc. rewrite swap_len32_enc by lia. cbn [bbind].
    rewrite Hal1. replace (spec_align et =? 0) with false by lia.
    rewrite (align_skip_zeros _ _ _ Hal). cbn [bbind].
    change (pos + pad_amount pos 4 + 4 + pad_amount (pos + pad_amount pos 4 + 4) (spec_align et)) with (arr_start pos et).
    destruct (ty_is_fixed et) eqn:Hfixed.
    + (* fixed-size elements: _dbus_swap_array *)
      rewrite grab_app by reflexivity.
      assert (Hsw : (if 1 <? spec_align et then swap_blocks (N.to_nat (nlen payload / spec_align et)) (N.to_nat (spec_align et)) payload else payload)
                    = encs (negb le) vs (arr_start pos et)).
      { destruct et as [c| | | | ]; cbn [ty_is_fixed] in Hfixed; try discriminate.
        destruct (type_fixed_size c Hfixed) as [sz Hfsz]. destruct (fixed_tables c sz Hfsz) as (_ & _ & Hs).
        assert (Hsa : spec_align (TBasic c) = sz) by (cbn [spec_align]; rewrite Hfsz; reflexivity).
        assert (Hstart : arr_start pos (TBasic c) mod sz = 0).
        { unfold arr_start. rewrite Hsa. apply aligned_after_pad. exact Hs. }
        rewrite Hsa.
        pose proof (fixed_payload_swap le c sz vs (depth + 1) _ Hfsz Hfixed Hstart Hws Hty []) as P.
        rewrite !app_nil_r in P. fold payload in P.
        destruct (1 <? sz) eqn:E1; [exact P|].
        assert (Hs1 : sz = 1) by lia. rewrite Hs1 in P. change (N.to_nat 1) with 1%nat in P. rewrite swap_blocks_1 in P. exact P. }
      rewrite Hsw. rewrite !nlen_app, !nlen_zeros, (bytes_of_length le 4). rewrite <- !app_assoc. walk_eq; [reflexivity|unfold arr_start; lia].
    + cbn [height] in Hh. fold (heights vs) in Hh.
      pose proof (length_le_encs le _ _ _ Hws) as Hlen. fold payload in Hlen.
      subst payload.
      rewrite (bs_elems_encs le et vs IH d (depth + 1) _ (arr_start pos et) rest
                 (arr_start pos et + nlen (encs le vs (arr_start pos et))) Hws Hkall Hty); [|lia|rewrite app_length; unfold nlen in Hlen; lia|reflexivity].
      cbn [bbind]. rewrite !nlen_app, !nlen_zeros, (bytes_of_length le 4). rewrite <- !app_assoc. walk_eq; [reflexivity|unfold arr_start; lia].
  - (* struct *)
    rewrite wfb_struct in Hw. apply andb_true_iff in Hw. destruct Hw as [Hd Hw]. apply andb_true_iff in Hw. destruct Hw as [Hne Hws].
    cbn [wire_ok] in Hk. rewrite !enc_struct. unfold bs_struct. rewrite <- app_assoc.
    rewrite (align_skip_zeros pos 8 _ ltac:(lia)). cbn [bbind].
    cbn [height] in Hh. fold (heights fs) in Hh.
    rewrite (bs_fields_encs le fs IH d (depth + 1) _ rest Hws Hk) by lia. cbn [bbind].
    rewrite nlen_app, nlen_zeros. walk_eq; [reflexivity|lia].
  - (* dict entry *)
    rewrite wfb_dict in Hw. apply andb_true_iff in Hw. destruct Hw as [Hd Hw]. apply andb_true_iff in Hw. destruct Hw as [Hkb Hws].
    cbn [wire_ok] in Hk. apply andb_true_iff in Hk. destruct Hk as [Hk1 Hk2].
    rewrite !enc_dict. unfold bs_struct. rewrite <- app_assoc.
    rewrite (align_skip_zeros pos 8 _ ltac:(lia)). cbn [bbind].
    assert (Hkt : TBasic (match k with VNum c _ => c | VStr c _ => c | _ => 0 end) = ty_of_val k) by (destruct k; try discriminate; reflexivity).
    rewrite Hkt. change [ty_of_val k; ty_of_val x] with (map ty_of_val [k; x]).
    cbn [height] in Hh.
    rewrite (bs_fields_encs le [k; x] (Forall_cons k IHk (Forall_cons x IHx (Forall_nil _))) d (depth + 1) _ rest Hws)
      by (cbn [forallb heights fold_right]; (rewrite Hk1, Hk2; reflexivity) || lia).
    cbn [bbind]. rewrite nlen_app, nlen_zeros. walk_eq; [reflexivity|lia].
  - (* variant *)
    cbn [wfb] in Hw. apply andb_true_iff in Hw. destruct Hw as [Hd Hw].
    apply andb_true_iff in Hw. destruct Hw as [Hw Hwx]. apply andb_true_iff in Hw. destruct Hw as [Hty Hsig].
    apply ty_eqb_eq in Hty.
    unfold sig_roundtrips in Hsig. apply andb_true_iff in Hsig. destruct Hsig as [Hsig Hparse].
    destruct (parse_sig (print_ty t)) as [[|t' [|? ?]]|] eqn:Hp; try discriminate. apply ty_eqb_eq in Hparse. subst t'.
    cbn [wire_ok] in Hk. apply andb_true_iff in Hk. destruct Hk as [_ Hkx].
    rewrite !enc_var. cbv zeta. unfold bs_variant. cbn [app]. rewrite <- !app_assoc.
    rewrite grab_app by reflexivity. cbn [app]. rewrite Hp.
    assert (Hp0 : pos + 1 + nlen (print_ty t) + 1 = pos + nlen (nlen (print_ty t) :: print_ty t ++ [0])).
    { rewrite nlen_cons, nlen_app. change (nlen [0]) with 1. lia. }
    rewrite Hp0. set (p0 := pos + nlen (nlen (print_ty t) :: print_ty t ++ [0])) in *.
    assert (Hwx0 : wfb le (depth + 1) p0 x = true).
    { replace p0 with (pos + (nlen (print_ty t) + 2)); [exact Hwx|]. subst p0. rewrite nlen_cons, nlen_app. change (nlen [0]) with 1. lia. }
    destruct (ty_alignment_spec le x _ _ Hwx0) as [Hta Hal]. rewrite Hty in Hta, Hal.
    rewrite Hta. rewrite (enc_split le x _ _ Hwx0). rewrite Hty. rewrite <- app_assoc.
    rewrite (align_skip_zeros p0 _ _ Hal). cbn [bbind].
    assert (Hwx1 : wfb le (depth + 1) (p0 + pad_amount p0 (spec_align t)) x = true).
    { rewrite <- Hty. rewrite wfb_split. exact Hwx0. }
    cbn [height] in Hh. rewrite <- Hty at 1.
    rewrite (IHx d (depth + 1) _ rest Hwx1 Hkx) by lia. cbn [bbind].
    assert (Hwn : wfb (negb le) (depth + 1) p0 x = true) by (rewrite (wfb_order x (negb le) le); exact Hwx0).
    rewrite (enc_split (negb le) x _ _ Hwn). rewrite Hty.
    walk_eq; [reflexivity|].
    subst p0. unfold nlen, zeros. cbn [length]. rewrite !app_length. cbn [length]. rewrite !app_length, repeat_length. cbn [length]. lia.
Qed.

(* one value whose type is a signature type, at any offset, nesting depth and followed by anything *)
Theorem byteswap_value_correct : forall le v d depth pos rest,
  wfb le depth pos v = true -> tygood (ty_of_val v) = true -> (height v < d)%nat ->
  bsv le d (ty_of_val v) pos (enc le v pos ++ rest) = BOk (enc (negb le) v pos, pos + nlen (enc le v pos), rest).
Proof. intros le v d depth pos rest Hw Hg Hh. apply (bsv_enc le v d depth pos rest Hw); [|exact Hh]. exact (wfb_wire_ok le v depth pos Hw Hg). Qed.

(* ---- D. a sequence of top-level values (a body) -------------------------------------------------- *)
Lemma wfsb_heights_le le : forall vs depth pos, wfsb le vs depth pos = true -> (heights vs <= 65)%nat.
Proof.
  induction vs as [|x r IH]; intros depth pos H; [cbn; lia|].
  cbn [wfsb] in H. apply andb_true_iff in H. destruct H as [Hx Hr].
  rewrite heights_cons. pose proof (wfb_height le x _ _ Hx). specialize (IH _ _ Hr). lia.
Qed.

Lemma byteswap_walk_encs le vs depth pos rest : wfsb le vs depth pos = true -> forallb wire_ok vs = true ->
  byteswap_walk le (map ty_of_val vs) pos (encs le vs pos ++ rest) = BOk (encs (negb le) vs pos, pos + nlen (encs le vs pos), rest).
Proof.
  intros Hw Hk. unfold byteswap_walk.
  apply (bs_fields_encs le vs) with (depth := depth); [|exact Hw|exact Hk|].
  - apply Forall_forall. intros v _. apply bsv_enc.
  - pose proof (wfsb_heights_le le vs depth pos Hw). unfold BS_FUEL. lia.
Qed.

(* the converter run at offset [pos] on the canonical encoding of well-formed values whose types are
   signature types, followed by anything: the encoding in the other order, the rest untouched *)
Theorem byteswap_at_correct : forall le vs pos rest,
  wfsb le vs 0 pos = true -> forallb tygood (map ty_of_val vs) = true ->
  byteswap_at le (map ty_of_val vs) pos (encs le vs pos ++ rest) = Some (encs (negb le) vs pos ++ rest).
Proof.
  intros le vs pos rest Hw Hg. unfold byteswap_at, byteswap_at_r.
  rewrite (byteswap_walk_encs le vs 0 pos rest Hw (wfsb_wire_ok le vs 0 pos Hw Hg)). reflexivity.
Qed.

Theorem byteswap_body_correct : forall le vs pos,
  wfsb le vs 0 pos = true -> forallb tygood (map ty_of_val vs) = true ->
  byteswap_at le (map ty_of_val vs) pos (encs le vs pos) = Some (encs (negb le) vs pos).
Proof.
  intros le vs pos Hw Hg. pose proof (byteswap_at_correct le vs pos [] Hw Hg) as H. rewrite !app_nil_r in H. exact H.
Qed.

(* the C entry point: a body starts at offset 0; its types come from a signature *)
Corollary byteswap_body_signature : forall le vs sg,
  wfsb le vs 0 0 = true -> parse_sig sg = Some (map ty_of_val vs) ->
  match parse_sig sg with
  | Some tys => byteswap_body le tys (encs le vs 0) = Some (encs (negb le) vs 0)
  | None => False
  end.
Proof.
  intros le vs sg Hw Hp. rewrite Hp. unfold byteswap_body. apply byteswap_body_correct; [exact Hw|]. exact (parse_sig_tygood _ _ Hp).
Qed.

(* the type premise cannot be dropped: [wfb] does not look at the element type of an empty array, and
   'r' (the struct type code, which never occurs in a signature) has alignment 8 in the C table *)
Theorem byteswap_body_needs_types :
  exists vs, wfsb true vs 0 0 = true /\ byteswap_body true (map ty_of_val vs) (encs true vs 0) <> Some (encs false vs 0).
Proof. exists [VArr (TBasic 114) []]. split; [vm_compute; reflexivity | vm_compute; discriminate]. Qed.

Corollary byteswap_body_involutive : forall le vs pos,
  wfsb le vs 0 pos = true -> forallb tygood (map ty_of_val vs) = true ->
  match byteswap_at le (map ty_of_val vs) pos (encs le vs pos) with
  | Some b => byteswap_at (negb le) (map ty_of_val vs) pos b = Some (encs le vs pos)
  | None => False
  end.
Proof.
  intros le vs pos Hw Hg. rewrite (byteswap_body_correct le vs pos Hw Hg).
  pose proof (byteswap_body_correct (negb le) vs pos) as H. rewrite negb_involutive in H. apply H; [|exact Hg].
  rewrite (wfsb_order vs (negb le) le). exact Hw.
Qed.

Corollary byteswap_body_length : forall le vs pos b,
  wfsb le vs 0 pos = true -> forallb tygood (map ty_of_val vs) = true ->
  byteswap_at le (map ty_of_val vs) pos (encs le vs pos) = Some b -> nlen b = nlen (encs le vs pos).
Proof.
  intros le vs pos b Hw Hg H. rewrite (byteswap_body_correct le vs pos Hw Hg) in H. injection H as <-. apply encs_len_order.
Qed.

(* the converted body decodes, with the specification decoder in the new order, to the same values *)
Corollary byteswap_body_decodes : forall le vs pos b,
  wfsb le vs 0 pos = true -> forallb tygood (map ty_of_val vs) = true ->
  byteswap_at le (map ty_of_val vs) pos (encs le vs pos) = Some b ->
  dec_seq (negb le) (map ty_of_val vs) pos b = Some (vs, pos + nlen b, []).
Proof.
  intros le vs pos b Hw Hg H. rewrite (byteswap_body_correct le vs pos Hw Hg) in H. injection H as <-.
  pose proof (dec_seq_encs (negb le) vs pos []) as D. rewrite app_nil_r in D. apply D.
  rewrite (wfsb_order vs (negb le) le). exact Hw.
Qed.

(* ---- E. the header: looking up the body signature, converting the header ------------------------ *)
Lemma field_shape le f d pos : wfb le d pos (enc_field le f) = true ->
  let t := sf_ty f in let x := sf_val f in let sg := print_ty t in
  let p0 := pos + pad_amount pos 8 in
  let p3 := p0 + 1 + 1 + nlen sg + 1 in
  sf_code f < 256 /\ ty_of_val x = t /\ parse_sig sg = Some [t] /\ wfb le (d + 2) p3 x = true /\
  enc le (enc_field le f) pos = zeros (pad_amount pos 8) ++ sf_code f :: nlen sg :: sg ++ 0 :: enc le x p3.
Proof.
  destruct f as [code t x]. unfold enc_field. cbn [sf_code sf_ty sf_val]. intros Hw. cbv zeta.
  rewrite wfb_struct in Hw. apply andb_true_iff in Hw. destruct Hw as [Hd Hw]. cbn [negb andb] in Hw.
  cbn [wfsb] in Hw. rewrite enc_byte, nlen1 in Hw.
  apply andb_true_iff in Hw. destruct Hw as [Hc Hw]. rewrite andb_true_r in Hw.
  cbn [wfb fixed_size N.eqb Pos.eqb negb orb] in Hc. change (256 ^ 1) with 256 in Hc.
  assert (Hcode : code < 256) by lia. clear Hc.
  cbn [wfb] in Hw. apply andb_true_iff in Hw. destruct Hw as [Hd1 Hw].
  apply andb_true_iff in Hw. destruct Hw as [Hw Hwx]. apply andb_true_iff in Hw. destruct Hw as [Hty Hsig].
  apply ty_eqb_eq in Hty.
  unfold sig_roundtrips in Hsig. apply andb_true_iff in Hsig. destruct Hsig as [Hsig Hparse].
  destruct (parse_sig (print_ty t)) as [[|t' [|? ?]]|] eqn:Hp; try discriminate. apply ty_eqb_eq in Hparse. subst t'.
  set (p0 := pos + pad_amount pos 8) in *.
  set (p3 := p0 + 1 + 1 + nlen (print_ty t) + 1).
  replace (p0 + 1 + (nlen (print_ty t) + 2)) with p3 in Hwx by (subst p3; lia).
  replace (d + 1 + 1) with (d + 2) in Hwx by lia.
  split; [exact Hcode|]. split; [exact Hty|]. split; [reflexivity|]. split; [exact Hwx|].
  rewrite enc_struct. fold p0. cbn [encs]. rewrite enc_byte, nlen1. rewrite N.mod_small by exact Hcode.
  rewrite enc_var. cbv zeta. rewrite app_nil_r. cbn [app]. rewrite <- app_assoc. cbn [app].
  replace (p0 + 1 + nlen (nlen (print_ty t) :: print_ty t ++ [0])) with p3
    by (subst p3; rewrite nlen_cons, nlen_app; change (nlen [0]) with 1; lia).
  reflexivity.
Qed.

Definition osig (o : option bytes) : bytes := match o with Some s => s | None => [] end.

Lemma find_signature_enc le : forall fs fuel d pos rest aend seen,
  (length fs < fuel)%nat -> wfsb le (map (enc_field le) fs) d pos = true -> forallb wire_ok (map (enc_field le) fs) = true ->
  fields_ok seen fs = true ->
  aend = pos + nlen (encs le (map (enc_field le) fs) pos) ->
  exists o, find_signature fuel le aend pos (encs le (map (enc_field le) fs) pos ++ rest) = BOk o /\ osig o = sig_of_fields fs.
Proof.
  induction fs as [|f r IH]; intros fuel d pos rest aend seen Hf Hw Hk Hok He; (destruct fuel as [|fuel]; [cbn [length] in Hf; lia|]).
  - exists None. split; [|reflexivity]. cbn [map encs app find_signature]. cbn [map encs] in He. rewrite nlen_nil in He.
    replace (pos <? aend) with false by lia. reflexivity.
  - cbn [map encs wfsb forallb] in *.
    apply andb_true_iff in Hw. destruct Hw as [Hwf Hwr]. apply andb_true_iff in Hk. destruct Hk as [Hkf Hkr].
    pose proof (enc_nonempty le _ _ _ Hwf) as Hne.
    destruct (field_shape le f d pos Hwf) as (Hcode & Hty & Hp & Hwx & Eshape). cbv zeta in *.
    rewrite nlen_app in He. cbn [find_signature]. replace (pos <? aend) with true by lia.
    rewrite <- app_assoc.
    remember (enc le (enc_field le f) pos) as F eqn:EF.
    set (p3 := pos + pad_amount pos 8 + 1 + 1 + nlen (print_ty (sf_ty f)) + 1) in *.
    set (tail := encs le (map (enc_field le) r) (pos + nlen F) ++ rest).
    assert (HD : F ++ tail = zeros (pad_amount pos 8) ++ sf_code f :: nlen (print_ty (sf_ty f)) :: print_ty (sf_ty f) ++ 0 :: enc le (sf_val f) p3 ++ tail).
    { rewrite Eshape. rewrite <- !app_assoc. cbn [app]. rewrite <- app_assoc. reflexivity. }
    rewrite HD.
    rewrite (align_skip_zeros pos 8 _ ltac:(lia)). cbn [bbind].
    rewrite grab_app by reflexivity.
    assert (Hkx : wire_ok (sf_val f) = true).
    { unfold enc_field in Hkf. cbn [wire_ok forallb] in Hkf. rewrite andb_true_r in Hkf. apply andb_true_iff in Hkf. destruct Hkf as [_ Hkf].
      apply andb_true_iff in Hkf. exact (proj2 Hkf). }
    assert (HlenF : pos + nlen F = p3 + nlen (enc le (sf_val f) p3)).
    { rewrite Eshape. subst p3. unfold nlen, zeros. cbn [length]. rewrite !app_length. cbn [length]. rewrite !app_length, repeat_length. cbn [length]. lia. }
    cbn [fields_ok] in Hok.
    destruct (sf_code f =? 0) eqn:E0; [discriminate|].
    destruct (sf_code f =? DBUS_HEADER_FIELD_SIGNATURE) eqn:E8.
    + (* the SIGNATURE field *)
      change DBUS_HEADER_FIELD_SIGNATURE with 8 in E8. apply N.eqb_eq in E8.
      rewrite E8 in Hok. change (field_ty 8) with (Some (TBasic 103)) in Hok.
      apply andb_true_iff in Hok. destruct Hok as [Hok _]. apply andb_true_iff in Hok. destruct Hok as [Hok _].
      apply andb_true_iff in Hok. destruct Hok as [Hteq _]. apply ty_eqb_eq in Hteq.
      destruct f as [code t x]. cbn [sf_code sf_ty sf_val] in *. subst t code.
      destruct x as [c n|c s| | | | ]; cbn [ty_of_val] in Hty; try discriminate; inversion Hty; subst c.
      * exfalso. cbn [wfb] in Hwx. apply andb_true_iff in Hwx. destruct Hwx as [_ Hwx]. cbn in Hwx. discriminate.
      * rewrite enc_str. change (103 =? 103) with true. cbv iota. cbn [app].
        rewrite <- app_assoc. rewrite grab_app by reflexivity.
        exists (Some s). split; reflexivity.
    + (* any other field: step over its value *)
      rewrite Hp.
      pose proof (wfb_height le (sf_val f) _ _ Hwx) as Hh.
      pose proof (bsv_enc le (sf_val f) BS_FUEL (d + 2) p3 tail Hwx Hkx ltac:(unfold BS_FUEL; lia)) as HB.
      rewrite Hty in HB. fold p3. rewrite HB. cbn [bbind].
      assert (Hok' : exists seen', fields_ok seen' r = true).
      { destruct (field_ty (sf_code f)); [|exists seen; exact Hok].
        apply andb_true_iff in Hok. destruct Hok as [_ Hok]. eexists. exact Hok. }
      destruct Hok' as [seen' Hok'].
      rewrite <- HlenF.
      destruct (IH fuel d (pos + nlen F) rest aend seen' ltac:(cbn [length] in Hf; lia) Hwr Hkr Hok' ltac:(lia)) as (o & Ho & Hs).
      exists o. split; [exact Ho|]. rewrite Hs. unfold sig_of_fields. cbn [find].
      change DBUS_HEADER_FIELD_SIGNATURE with 8 in E8. rewrite E8. reflexivity.
Qed.

Lemma byteswap_at_r_encs le vs depth pos rest : wfsb le vs depth pos = true -> forallb wire_ok vs = true ->
  byteswap_at_r le (map ty_of_val vs) pos (encs le vs pos ++ rest) = BOk (encs (negb le) vs pos ++ rest).
Proof. intros Hw Hk. unfold byteswap_at_r. rewrite (byteswap_walk_encs le vs depth pos rest Hw Hk). reflexivity. Qed.

Lemma header_types_eq a b c d x y le fs :
  header_types = Some (map ty_of_val [VNum 121 a; VNum 121 b; VNum 121 c; VNum 121 d; VNum 117 x; VNum 117 y; fields_val le fs]).
Proof. reflexivity. Qed.

(* the message converter on a list whose first sixteen bytes are known *)
Lemma bmr_unfold d bo mt fl ver l0 l1 l2 l3 s0 s1 s2 s3 f0 f1 f2 f3 tl :
  d = bo :: mt :: fl :: ver :: l0 :: l1 :: l2 :: l3 :: s0 :: s1 :: s2 :: s3 :: f0 :: f1 :: f2 :: f3 :: tl ->
  byteswap_message_r d =
  if negb ((bo =? DBUS_LITTLE_ENDIAN) || (bo =? DBUS_BIG_ENDIAN)) then BFault else
  let old_le := bo =? DBUS_LITTLE_ENDIAN in
  let body_len := unpack32 old_le (l0, l1, l2, l3) in
  let fields_len := unpack32 old_le (f0, f1, f2, f3) in
  let header_len := align_up (16 + fields_len) 8 in
  match grab header_len d with
  | None => BFault
  | Some (hdr, body) =>
      if negb (nlen body =? body_len) then BFault else
      bbind (find_signature (S (length hdr)) old_le (16 + fields_len) 16 (skipn 16 hdr)) (fun osig =>
      match parse_sig (match osig with Some s => s | None => [] end) with
      | None => BFault
      | Some tys =>
          bbind (byteswap_at_r old_le tys 0 body) (fun body' =>
          bbind (byteswap_header_r old_le hdr) (fun hdr' => BOk (hdr' ++ body')))
      end)
  end.
Proof. intros ->. reflexivity. Qed.

Theorem byteswap_message_r_correct : forall m, wf_msg m = true ->
  byteswap_message_r (spec_encode_message m) = BOk (spec_encode_message (swap_order m)).
Proof.
  intros m Hwf.
  destruct (wf_msg_inv m Hwf) as (Hmt0 & Hmt & Hfl & Hs0 & Hs & Hwfv & Hfok & Hmand & Hsig & Hparse & Hwb & Hbl & Htot).
  destruct (wf_msg_wire m Hwf) as [Kf Kb].
  unfold max_message in *.
  pose proof (encode_shape m) as HE. pose proof (encode_shape (swap_order m)) as HE'.
  destruct (wf_fields_val _ _ Hwfv) as [Hwfs Hflen]. fold (m_payload m) in Hflen. fold (m_flen m) in Hflen. unfold max_array in Hflen.
  (* the other order: same lengths *)
  assert (Lb : m_blen (swap_order m) = m_blen m) by (unfold m_blen, m_bodyb; cbn [swap_order s_le s_body]; apply encs_len_order).
  assert (Lf : m_flen (swap_order m) = m_flen m) by (unfold m_flen, m_payload; cbn [swap_order s_le s_fields]; apply encs_len_order).
  rewrite Lb, Lf in HE'. cbn [swap_order s_le s_type s_flags s_serial] in HE'.
  set (E := spec_encode_message m) in *. set (E' := spec_encode_message (swap_order m)) in *.
  set (le := s_le m) in *. set (flen := m_flen m) in *. set (blen := m_blen m) in *. set (bodyb := m_bodyb m) in *.
  set (payload := m_payload m) in *.
  set (Z := zeros (pad_amount (16 + flen) 8)) in *.
  set (Hp := [if le then 108 else 66; s_type m; s_flags m; 1] ++ bytes_of le 4 blen ++ bytes_of le 4 (s_serial m) ++ bytes_of le 4 flen ++ payload) in *.
  assert (Hhl : m_hlen m = 16 + flen + pad_amount (16 + flen) 8) by reflexivity.
  assert (Hal : align_up (16 + flen) 8 = m_hlen m) by (rewrite Hhl; apply align_up_pad; lia).
  assert (HpZ : nlen (Hp ++ Z) = m_hlen m).
  { subst Hp Z. rewrite !nlen_app, !(bytes_of_length le 4), nlen_zeros. change (nlen payload) with flen.
    change (nlen [if le then 108 else 66; s_type m; s_flags m; 1]) with 4. rewrite Hhl. lia. }
  assert (HE2 : E = (Hp ++ Z) ++ bodyb) by (rewrite HE; rewrite <- !app_assoc; reflexivity).
  destruct (bytes_of_4 le blen) as (a0 & a1 & a2 & a3 & Ea & Ua).
  destruct (bytes_of_4 le (s_serial m)) as (b0 & b1 & b2 & b3 & Eb & Ub).
  destruct (bytes_of_4 le flen) as (c0 & c1 & c2 & c3 & Ec & Uc).
  assert (H16 : E = (if le then 108 else 66) :: s_type m :: s_flags m :: 1 :: a0 :: a1 :: a2 :: a3 :: b0 :: b1 :: b2 :: b3 :: c0 :: c1 :: c2 :: c3 :: (payload ++ Z ++ bodyb)).
  { rewrite HE2. subst Hp. rewrite Ea, Eb, Ec. cbn [app]. rewrite <- !app_assoc. reflexivity. }
  assert (Hskip : skipn 16 (Hp ++ Z) = payload ++ Z) by (subst Hp; rewrite Ea, Eb, Ec; reflexivity).
  rewrite (bmr_unfold E _ _ _ _ _ _ _ _ _ _ _ _ _ _ _ _ _ H16).
  replace (negb (((if le then 108 else 66) =? DBUS_LITTLE_ENDIAN) || ((if le then 108 else 66) =? DBUS_BIG_ENDIAN))) with false by (destruct le; reflexivity).
  rewrite bo_le. cbv zeta. rewrite (Ua ltac:(lia)), (Uc ltac:(lia)). rewrite Hal.
  rewrite HE2. rewrite grab_app by exact HpZ.
  change (nlen bodyb) with blen. rewrite N.eqb_refl. cbn [negb].
  (* the body signature *)
  rewrite Hskip.
  assert (Kfs : forallb wire_ok (map (enc_field le) (s_fields m)) = true).
  { unfold fields_val in Kf. cbn [wire_ok] in Kf. apply andb_true_iff in Kf. exact (proj2 Kf). }
  assert (Hnf : (length (s_fields m) < S (length (Hp ++ Z)))%nat).
  { pose proof (length_le_encs le _ _ _ Hwfs) as L. rewrite map_length in L. change (nlen (encs le (map (enc_field le) (s_fields m)) 16)) with (nlen payload) in L.
    assert (nlen payload <= nlen (Hp ++ Z)) by (subst Hp; rewrite !nlen_app; lia). unfold nlen in *. lia. }
  destruct (find_signature_enc le (s_fields m) (S (length (Hp ++ Z))) 1 16 Z (16 + flen) [] Hnf Hwfs Kfs Hfok ltac:(reflexivity)) as (o & Ho & Hos).
  change (encs le (map (enc_field le) (s_fields m)) 16) with payload in Ho. rewrite Ho. cbn [bbind]. fold (osig o). rewrite Hos, <- Hsig, Hparse.
  (* the body *)
  pose proof (byteswap_at_r_encs le (s_body m) 0 0 [] Hwb Kb) as HB. rewrite !app_nil_r in HB. change (encs le (s_body m) 0) with bodyb in HB.
  rewrite HB. cbn [bbind].
  (* the header *)
  assert (Hbo : (if le then 108 else 66) < 256) by (destruct le; lia).
  unfold byteswap_header_r.
  rewrite (header_types_eq (if le then 108 else 66) (s_type m) (s_flags m) 1 blen (s_serial m) le (s_fields m)).
  set (hv := [VNum 121 (if le then 108 else 66); VNum 121 (s_type m); VNum 121 (s_flags m); VNum 121 1; VNum 117 blen; VNum 117 (s_serial m); fields_val le (s_fields m)]).
  assert (HpE : Hp = encs le hv 0).
  { subst hv Hp. rewrite encs_hdr by lia. rewrite enc_fields_val. reflexivity. }
  assert (Hwh : wfsb le hv 0 0 = true) by (apply wfsb_hdr; try lia; exact Hwfv).
  assert (Hkh : forallb wire_ok hv = true) by (subst hv; cbn [forallb wire_ok]; rewrite Kf; reflexivity).
  rewrite HpE. rewrite (byteswap_at_r_encs le hv 0 0 Z Hwh Hkh). cbn [bbind].
  subst hv. rewrite encs_hdr by lia. change (fields_val le (s_fields m)) with (fields_val (negb le) (s_fields m)).
  rewrite (enc_fields_val (negb le)). cbn [app].
  (* assemble *)
  change (if le then DBUS_BIG_ENDIAN else DBUS_LITTLE_ENDIAN) with (if le then 66 else 108).
  replace (if le then 66 else 108) with (if negb le then 108 else 66) by (destruct le; reflexivity).
  change (map (enc_field (negb le)) (s_fields m)) with (map (enc_field le) (s_fields m)).
  assert (Lp : nlen (encs (negb le) (map (enc_field le) (s_fields m)) 16) = flen) by (unfold flen, m_flen, m_payload; apply encs_len_order).
  rewrite Lp. cbn [bbind app]. f_equal. rewrite HE'. unfold m_payload, m_bodyb. cbn [swap_order s_le s_fields s_body].
  change (map (enc_field (negb le)) (s_fields m)) with (map (enc_field le) (s_fields m)).
  cbn [app]. rewrite <- !app_assoc. reflexivity.
Qed.

Theorem byteswap_message_correct : forall m, wf_msg m = true ->
  byteswap_message (spec_encode_message m) = Some (spec_encode_message (swap_order m)).
Proof. intros m H. unfold byteswap_message. rewrite (byteswap_message_r_correct m H). reflexivity. Qed.

(* ---- F. corollaries ---------------------------------------------------------------------------------- *)
Lemma encode_len_swap m : nlen (spec_encode_message (swap_order m)) = nlen (spec_encode_message m).
Proof.
  rewrite !encode_len. unfold m_hlen, m_flen, m_blen, m_payload, m_bodyb. cbn [swap_order s_le s_fields s_body].
  change (map (enc_field (negb (s_le m))) (s_fields m)) with (map (enc_field (s_le m)) (s_fields m)).
  rewrite (encs_len_order (map (enc_field (s_le m)) (s_fields m)) (negb (s_le m)) (s_le m)).
  rewrite (encs_len_order (s_body m) (negb (s_le m)) (s_le m)). reflexivity.
Qed.

(* converting twice gives the original bytes back *)
Corollary byteswap_message_involutive : forall m, wf_msg m = true ->
  match byteswap_message (spec_encode_message m) with
  | Some b => byteswap_message b = Some (spec_encode_message m)
  | None => False
  end.
Proof.
  intros m H. rewrite (byteswap_message_correct m H).
  rewrite (byteswap_message_correct (swap_order m)) by (rewrite wf_msg_swap; exact H).
  rewrite swap_involutive. reflexivity.
Qed.

Corollary byteswap_message_length : forall m b, wf_msg m = true ->
  byteswap_message (spec_encode_message m) = Some b -> nlen b = nlen (spec_encode_message m).
Proof. intros m b H E. rewrite (byteswap_message_correct m H) in E. injection E as <-. apply encode_len_swap. Qed.

(* the converted bytes are a valid message per the specification decoder: the same abstract message in
   the other byte order -- every header field and body value unchanged *)
Corollary byteswap_message_decodes : forall m b, wf_msg m = true ->
  byteswap_message (spec_encode_message m) = Some b ->
  spec_decode_message b = Some (swap_order m, nlen b) /\
  s_fields (swap_order m) = s_fields m /\ s_body (swap_order m) = s_body m /\ s_sig (swap_order m) = s_sig m /\
  s_type (swap_order m) = s_type m /\ s_flags (swap_order m) = s_flags m /\ s_serial (swap_order m) = s_serial m /\
  s_le (swap_order m) = negb (s_le m).
Proof.
  intros m b H E. rewrite (byteswap_message_correct m H) in E. injection E as <-.
  split; [apply message_roundtrip; rewrite wf_msg_swap; exact H|]. repeat split.
Qed.

(* ... and whatever valid message the specification decoder reads from bytes, the converter turns those bytes
   into the encoding of the same message in the other order *)
Corollary byteswap_decoded : forall d m, all_bytes d = true -> spec_decode_message d = Some (m, nlen d) ->
  byteswap_message d = Some (spec_encode_message (swap_order m)).
Proof.
  intros d m Hb Hd. destruct (proj1 (spec_decode_iff d m Hb) Hd) as [-> Hwf]. apply byteswap_message_correct. exact Hwf.
Qed.

(* ---- G. non-vacuity: concrete messages, both directions, by computation ----------------------------- *)
(* an empty a{sv} (whose 8-byte element alignment padding is present although there is no element)
   followed by an int32 *)
Definition ex_swap1 : smsg :=
  build true 4 0 7 [ESet 1 (VStr 111 [47;97]); ESet 2 (VStr 115 [97;46;98]); ESet 3 (VStr 115 [83])]
        [VArr (TDict 115 TVariant) []; VNum 105 16909060].
(* a variant holding an array of structs, then 16- and 64-bit values after an odd-length string *)
Definition ex_swap2 : smsg :=
  build false 1 1 258 [ESet 1 (VStr 111 [47]); ESet 3 (VStr 115 [77]); ESet 6 (VStr 115 [58;49;46;53])]
        [VVar (TArray (TStruct [TBasic 105; TBasic 120])) (VArr (TStruct [TBasic 105; TBasic 120]) [VStruct [VNum 105 1; VNum 120 2]; VStruct [VNum 105 3; VNum 120 4]]);
         VStr 115 [104;105;33]; VNum 110 258; VArr (TBasic 113) [VNum 113 258; VNum 113 772; VNum 113 1286]; VNum 116 72623859790382856].

Example ex_swap1_wf : wf_msg ex_swap1 = true. Proof. vm_compute. reflexivity. Qed.
Example ex_swap2_wf : wf_msg ex_swap2 = true. Proof. vm_compute. reflexivity. Qed.
Example ex_swap1_le_to_be : byteswap_message (spec_encode_message ex_swap1) = Some (spec_encode_message (swap_order ex_swap1)).
Proof. vm_compute. reflexivity. Qed.
Example ex_swap1_be_to_le : byteswap_message (spec_encode_message (swap_order ex_swap1)) = Some (spec_encode_message ex_swap1).
Proof. vm_compute. reflexivity. Qed.
Example ex_swap2_be_to_le : byteswap_message (spec_encode_message ex_swap2) = Some (spec_encode_message (swap_order ex_swap2)).
Proof. vm_compute. reflexivity. Qed.
Example ex_swap2_le_to_be : byteswap_message (spec_encode_message (swap_order ex_swap2)) = Some (spec_encode_message ex_swap2).
Proof. vm_compute. reflexivity. Qed.
(* the tail of the first example's body in both orders: length word 0, four bytes of padding, the int32 *)
Example ex_swap1_body_bytes :
  encs true (s_body ex_swap1) 0 = [0;0;0;0; 0;0;0;0; 4;3;2;1] /\
  byteswap_body true (map ty_of_val (s_body ex_swap1)) (encs true (s_body ex_swap1) 0) = Some [0;0;0;0; 0;0;0;0; 1;2;3;4].
Proof. vm_compute. split; reflexivity. Qed.
(* faults are explicit: truncated data, a type code that is not a type *)
Example ex_swap_fault_truncated : byteswap_body true [TBasic 105] [1; 2; 3] = None. Proof. reflexivity. Qed.
Example ex_swap_fault_typecode : byteswap_body true [TBasic 114] [1; 2; 3; 4; 5; 6; 7; 8] = None. Proof. reflexivity. Qed.
Example ex_swap_fault_message : byteswap_message [108; 1; 0; 1; 0; 0; 0; 0; 1; 0; 0; 0; 9; 0; 0; 0; 1; 2] = None. Proof. vm_compute. reflexivity. Qed.
