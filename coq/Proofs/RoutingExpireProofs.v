(* Proofs about the expiry machinery (Routing/Expire.v): what one walk over the list does, that the timer is always armed
   and never set beyond the earliest deadline, that every entry expires at most once and never after it was removed, and
   what check_timeout answers. *)
From Coq Require Import ZArith List Bool Lia Permutation.
From DV Require Import Routing.Expire.
Import ListNotations.
Local Open Scope Z_scope.

Definition to_wait_us (after : Z) (now : tv) (it : item) : Z := after * 1000 - elapsed_us (it_added it) now.
Definition deadline_us (after : Z) (it : item) : Z := us (it_added it) + after * 1000.

Lemma to_wait_deadline after now it : to_wait_us after now it = deadline_us after it - us now.
Proof. unfold to_wait_us, deadline_us, elapsed_us, us. lia. Qed.

Lemma due_false_wait after now it : due after now it = false -> 0 < after -> 0 < to_wait_us after now it.
Proof.
  unfold due, to_wait_us. intros H Ha. apply orb_false_iff in H. destruct H as [_ H].
  apply andb_false_iff in H. destruct H as [H|H]; [apply Z.ltb_ge in H; lia|apply Z.leb_gt in H; lia].
Qed.

(* one walk: what is kept, what expires (in list order), and the minimum *)
Lemma do_exp_lists after now l : forall minw w,
  let '(kept, ex, _, _) := do_exp after now l minw w in
  kept = filter (fun it => negb (due after now it)) l /\ ex = map it_id (filter (due after now) l).
Proof.
  induction l as [|it l IH]; intros minw w; simpl; auto.
  destruct (due after now it) eqn:D; simpl.
  - specialize (IH minw w). destruct (do_exp after now l minw w) as [[[kept ex] mw] w']. destruct IH as [-> ->]. auto.
  - destruct (0 <? after).
    + match goal with |- context [do_exp after now l ?m true] => specialize (IH m true); destruct (do_exp after now l m true) as [[[kept ex] mw] w'] end.
      destruct IH as [-> ->]. auto.
    + specialize (IH minw w). destruct (do_exp after now l minw w) as [[[kept ex] mw] w']. destruct IH as [-> ->]. auto.
Qed.

Lemma min_step tw minw : 0 <= tw -> (if tw <? minw * 1000 then Z.quot tw 1000 else minw) = Z.min minw (tw / 1000).
Proof.
  intros H. rewrite Z.quot_div_nonneg by lia. destruct (tw <? minw * 1000) eqn:E.
  - apply Z.ltb_lt in E. assert (tw / 1000 < minw) by (apply Z.div_lt_upper_bound; lia). lia.
  - apply Z.ltb_ge in E. assert (minw <= tw / 1000) by (apply Z.div_le_lower_bound; lia). lia.
Qed.

Lemma do_exp_min after now l : 0 < after -> forall minw w,
  let '(kept, _, mw, w') := do_exp after now l minw w in
  mw <= minw /\ (forall it, In it kept -> mw * 1000 <= to_wait_us after now it) /\
  (mw = minw \/ exists it, In it kept /\ mw = to_wait_us after now it / 1000) /\
  w' = (w || negb (match kept with [] => true | _ => false end)).
Proof.
  intros Ha. induction l as [|it l IH]; intros minw w; simpl.
  - repeat split; auto; try lia; try (intros it []); try (rewrite orb_false_r; reflexivity).
  - destruct (due after now it) eqn:D.
    + specialize (IH minw w). destruct (do_exp after now l minw w) as [[[kept ex] mw] w']. exact IH.
    + assert (Hp : (0 <? after) = true) by (apply Z.ltb_lt; auto). rewrite Hp.
      pose proof (due_false_wait _ _ _ D Ha) as Hw. fold (to_wait_us after now it).
      rewrite min_step by lia.
      specialize (IH (Z.min minw (to_wait_us after now it / 1000)) true).
      destruct (do_exp after now l (Z.min minw (to_wait_us after now it / 1000)) true) as [[[kept ex] mw] w'].
      destruct IH as (I1 & I2 & I3 & I4). repeat split.
      * lia.
      * intros x [<-|Hx]; [|auto]. assert (to_wait_us after now it / 1000 * 1000 <= to_wait_us after now it) by (pose proof (Z.mul_div_le (to_wait_us after now it) 1000); lia). lia.
      * destruct I3 as [E|(x & Hx & E)]; [|right; exists x; split; auto; right; auto].
        destruct (Z.min_spec minw (to_wait_us after now it / 1000)) as [[_ M]|[_ M]]; rewrite M in E; [left; auto|right; exists it; split; auto; left; auto].
      * rewrite I4. simpl. rewrite orb_true_r. reflexivity.
Qed.

(* do_expiration_with_monotonic_time, all in one *)
Theorem do_expiration_spec after now l :
  let '(kept, ex, next) := do_expiration after now l in
  kept = filter (fun it => negb (due after now it)) l /\
  ex = map it_id (filter (due after now) l) /\
  (0 < after ->
     match kept with
     | [] => next = -1
     | _ => 0 <= next <= 3600 * 1000 /\
            (forall it, In it kept -> next * 1000 <= deadline_us after it - us now) /\
            (next = 3600 * 1000 \/ exists it, In it kept /\ next = (deadline_us after it - us now) / 1000)
     end) /\
  (after <= 0 -> next = -1).
Proof.
  unfold do_expiration. pose proof (do_exp_lists after now l (3600 * 1000) false) as L.
  destruct (do_exp after now l (3600 * 1000) false) as [[[kept ex] mw] w] eqn:E. destruct L as [Lk Le].
  split; auto. split; auto. split.
  - intros Ha. pose proof (do_exp_min after now l Ha (3600 * 1000) false) as M. rewrite E in M.
    destruct M as (M1 & M2 & M3 & M4). simpl in M4. subst w.
    destruct kept as [|k kept']; simpl; auto.
    assert (Hpos : forall it, In it (k :: kept') -> 0 < to_wait_us after now it).
    { intros it Hin. rewrite Lk in Hin. apply filter_In in Hin. destruct Hin as [_ Hd]. apply negb_true_iff in Hd. apply due_false_wait; auto. }
    repeat split.
    + destruct M3 as [->|(it & Hin & ->)]; [lia|]. specialize (Hpos it Hin). apply Z.div_pos; lia.
    + exact M1.
    + intros it Hin. rewrite <- to_wait_deadline. apply M2; auto.
    + destruct M3 as [->|(it & Hin & ->)]; [left; auto|right; exists it; split; auto; rewrite to_wait_deadline; auto].
  - intros Ha. assert (w = false); [|subst; auto].
    assert (G : forall l minw w0, let '(_, _, _, w') := do_exp after now l minw w0 in w' = w0).
    { assert (Hn : (0 <? after) = false) by (apply Z.ltb_ge; lia).
      induction l0 as [|it l0 IH]; intros minw w0; simpl; auto. rewrite Hn.
      destruct (due after now it); specialize (IH minw w0); destruct (do_exp after now l0 minw w0) as [[[a b] c] d]; auto. }
    specialize (G l (3600 * 1000) false). rewrite E in G. auto.
Qed.

(* never early: whatever a walk expires was marked (callee left) or is at least reply_timeout old *)
Theorem expired_not_early after now l id :
  In id (snd (fst (do_expiration after now l))) ->
  exists it, In it l /\ it_id it = id /\
    (is_marked it = true \/ (0 < after /\ after * 1000 <= us now - us (it_added it))).
Proof.
  pose proof (do_expiration_spec after now l) as S. destruct (do_expiration after now l) as [[kept ex] next]. destruct S as (_ & -> & _).
  cbn [fst snd]. intros H. apply in_map_iff in H. destruct H as (it & <- & Hin). apply filter_In in Hin. destruct Hin as [Hin Hd].
  exists it. split; auto. split; auto. unfold due in Hd. apply orb_true_iff in Hd. destruct Hd as [Hd|Hd]; auto.
  right. apply andb_true_iff in Hd. destruct Hd as [H1 H2]. apply Z.ltb_lt in H1. apply Z.leb_le in H2.
  unfold elapsed_us in H2. unfold us. lia.
Qed.

(* ... and at a walk everything that is due goes, nothing that is due stays *)
Theorem expired_when_due after now l it :
  In it l -> due after now it = true ->
  In (it_id it) (snd (fst (do_expiration after now l))) /\ ~ In it (fst (fst (do_expiration after now l))).
Proof.
  pose proof (do_expiration_spec after now l) as S. destruct (do_expiration after now l) as [[kept ex] next]. destruct S as (-> & -> & _).
  cbn [fst snd]. intros Hin Hd. split.
  - apply in_map. apply filter_In. auto.
  - intros H. apply filter_In in H. destruct H as [_ H]. rewrite Hd in H. discriminate.
Qed.

(* ------------------------------------------------------------------ the timer *)
Definition armed (x : xlist) : Prop := 0 < x_after x -> x_items x <> [] -> tm_enabled (x_timer x) = true.

Lemma check_timeout_enabled now tm : tm_enabled (snd (check_timeout now tm)) = tm_enabled tm.
Proof.
  unfold check_timeout.
  destruct (1000000 <=? tv_usec (tm_last tm) + Z.rem (tm_interval tm) 1000 * 1000);
  match goal with |- context [if ?c then (tm_interval tm, _) else _] => destruct c end; reflexivity.
Qed.

Lemma set_interval_enabled tm n : 0 <= n -> tm_enabled (set_interval tm n) = true.
Proof. intros H. unfold set_interval. apply Z.leb_le in H. rewrite H. reflexivity. Qed.

(* after the handler ran: armed with an interval that does not pass the earliest deadline; disabled when nothing waits *)
Theorem expire_timer x now :
  let '(x', ex) := expire x now in
  x_after x' = x_after x /\
  x_items x' = filter (fun it => negb (due (x_after x) now it)) (x_items x) /\
  ex = map it_id (filter (due (x_after x) now) (x_items x)) /\
  match x_items x' with
  | [] => tm_enabled (x_timer x') = false
  | _ => 0 < x_after x ->
         tm_enabled (x_timer x') = true /\ tm_needs_restart (x_timer x') = true /\
         (forall it, In it (x_items x') -> tm_interval (x_timer x') * 1000 <= deadline_us (x_after x) it - us now) /\
         (tm_interval (x_timer x') = 3600 * 1000 \/
          exists it, In it (x_items x') /\ tm_interval (x_timer x') = (deadline_us (x_after x) it - us now) / 1000)
  end.
Proof.
  unfold expire. destruct (x_items x) as [|i0 l0] eqn:Ei.
  - simpl. repeat split; auto. unfold set_interval. simpl. destruct (tm_enabled (x_timer x)) eqn:E; simpl; auto.
  - rewrite <- Ei. pose proof (do_expiration_spec (x_after x) now (x_items x)) as S.
    destruct (do_expiration (x_after x) now (x_items x)) as [[kept ex] next]. destruct S as (Sk & Se & Sp & Sn). cbn [x_items x_after x_timer].
    split; auto. split; auto. split; auto.
    destruct kept as [|k kept'] eqn:Ek.
    + destruct (Z_lt_le_dec 0 (x_after x)) as [Ha|Ha]; [rewrite (Sp Ha)|rewrite (Sn Ha)]; unfold set_interval; simpl;
        destruct (tm_enabled (x_timer x)) eqn:E; simpl; auto.
    + intros Ha. destruct (Sp Ha) as ((N1 & N2) & N3 & N4). unfold set_interval. assert (E : (0 <=? next) = true) by (apply Z.leb_le; lia).
      rewrite E. simpl. repeat split; auto.
Qed.

Lemma expire_armed x now : armed (fst (expire x now)).
Proof.
  pose proof (expire_timer x now) as H. destruct (expire x now) as [x' ex]. destruct H as (Ha & _ & _ & H). cbn [fst].
  intros Hp Hne. destruct (x_items x') eqn:E; [congruence|]. rewrite Ha in Hp. destruct (H Hp) as (H1 & _). exact H1.
Qed.

Theorem armed_step x o : armed x -> armed (fst (xstep x o)).
Proof.
  intros A. destruct o as [id a|id|id|t1 t2 t3]; cbn [xstep fst].
  - intros _ _. unfold add. cbn [x_timer]. destruct (tm_enabled (x_timer x)) eqn:E; auto; apply set_interval_enabled; lia.
  - intros Hp Hne. unfold remove in *. cbn [x_timer x_items x_after] in *. apply A; auto.
    intros E. rewrite E in Hne. simpl in Hne. congruence.
  - intros _ _. unfold mark, recheck. cbn [x_timer]. apply set_interval_enabled. lia.
  - unfold iterate.
    set (tm1 := if tm_enabled (x_timer x) then _ else x_timer x).
    assert (E1 : tm_enabled tm1 = tm_enabled (x_timer x)).
    { unfold tm1. destruct (tm_enabled (x_timer x)) eqn:E; auto. rewrite check_timeout_enabled. destruct (tm_needs_restart (x_timer x)); auto. }
    destruct (tm_enabled tm1) eqn:E2.
    + destruct (check_timeout t2 tm1) as [rem tm2] eqn:C. destruct (rem =? 0).
      * apply expire_armed.
      * cbn [fst]. intros Hp Hne. cbn [x_timer]. replace tm2 with (snd (check_timeout t2 tm1)) by (rewrite C; auto).
        rewrite check_timeout_enabled. exact E2.
    + cbn [fst]. intros Hp Hne. cbn [x_timer x_items x_after] in *. rewrite (A Hp Hne) in E1. discriminate.
Qed.

Theorem armed_always after ops : armed (fst (xrun (xinit after) ops)).
Proof.
  assert (G : forall ops x, armed x -> armed (fst (xrun x ops))).
  { induction ops0 as [|o ops0 IH]; intros x A; simpl; auto.
    pose proof (armed_step x o A) as A1. destruct (xstep x o) as [x1 ex]. specialize (IH x1 A1).
    destruct (xrun x1 ops0) as [x2 exs]. exact IH. }
  apply G. intros _ H. simpl in H. congruence.
Qed.

(* ------------------------------------------------------------------ check_timeout *)
Definition norm (t : tv) : Prop := 0 <= tv_usec t < 1000000.
Definition fire_at_us (tm : timer) : Z := us (tm_last tm) + tm_interval tm * 1000.

(* asked at or after the programmed instant it says "now" and leaves the timer alone (never late) *)
Theorem check_timeout_due now tm :
  norm now -> norm (tm_last tm) -> 0 <= tm_interval tm -> fire_at_us tm <= us now ->
  check_timeout now tm = (0, tm).
Proof.
  unfold norm, fire_at_us, us, check_timeout. intros Hn Hl Hi Hd.
  pose proof (Z.quot_rem' (tm_interval tm) 1000) as Q. pose proof (Z.rem_bound_pos (tm_interval tm) 1000 Hi ltac:(lia)) as R.
  set (q := Z.quot (tm_interval tm) 1000) in *. set (r := Z.rem (tm_interval tm) 1000) in *.
  destruct (1000000 <=? tv_usec (tm_last tm) + r * 1000) eqn:C; [apply Z.leb_le in C|apply Z.leb_gt in C].
  - set (eu := tv_usec (tm_last tm) + r * 1000 - 1000000). set (es := tv_sec (tm_last tm) + q + 1).
    pose proof (Z.quot_rem' (eu - tv_usec now) 1000) as Q2.
    assert (Hc : ((es - tv_sec now <? 0) || ((es - tv_sec now =? 0) && (Z.quot (eu - tv_usec now) 1000 <? 0))) = true \/
                 (es - tv_sec now = 0 /\ Z.quot (eu - tv_usec now) 1000 = 0)).
    { destruct (Z_lt_le_dec (es - tv_sec now) 0) as [L|L]; [left; apply orb_true_iff; left; apply Z.ltb_lt; auto|].
      assert (es - tv_sec now = 0) by (unfold es, eu in *; nia). 
      assert (eu - tv_usec now <= 0) by (unfold es, eu in *; nia).
      destruct (Z.eq_dec (Z.quot (eu - tv_usec now) 1000) 0) as [E|E]; [right; auto|left].
      assert (Z.quot (eu - tv_usec now) 1000 <= 0) by (apply Z.quot_le_upper_bound; lia).
      apply orb_true_iff; right. apply andb_true_iff. split; [apply Z.eqb_eq; auto|apply Z.ltb_lt; lia]. }
    destruct Hc as [Hc|[E1 E2]].
    + rewrite Hc. assert (H0 : (tm_interval tm <? 0) = false) by (apply Z.ltb_ge; lia). rewrite H0. reflexivity.
    + rewrite E1, E2. simpl. assert (H0 : (tm_interval tm <? 0) = false) by (apply Z.ltb_ge; lia). rewrite H0. reflexivity.
  - set (eu := tv_usec (tm_last tm) + r * 1000). set (es := tv_sec (tm_last tm) + q).
    assert (Hc : ((es - tv_sec now <? 0) || ((es - tv_sec now =? 0) && (Z.quot (eu - tv_usec now) 1000 <? 0))) = true \/
                 (es - tv_sec now = 0 /\ Z.quot (eu - tv_usec now) 1000 = 0)).
    { destruct (Z_lt_le_dec (es - tv_sec now) 0) as [L|L]; [left; apply orb_true_iff; left; apply Z.ltb_lt; auto|].
      assert (es - tv_sec now = 0) by (unfold es, eu in *; nia).
      assert (eu - tv_usec now <= 0) by (unfold es, eu in *; nia).
      destruct (Z.eq_dec (Z.quot (eu - tv_usec now) 1000) 0) as [E|E]; [right; auto|left].
      assert (Z.quot (eu - tv_usec now) 1000 <= 0) by (apply Z.quot_le_upper_bound; lia).
      apply orb_true_iff; right. apply andb_true_iff. split; [apply Z.eqb_eq; auto|apply Z.ltb_lt; lia]. }
    destruct Hc as [Hc|[E1 E2]].
    + rewrite Hc. assert (H0 : (tm_interval tm <? 0) = false) by (apply Z.ltb_ge; lia). rewrite H0. reflexivity.
    + rewrite E1, E2. simpl. assert (H0 : (tm_interval tm <? 0) = false) by (apply Z.ltb_ge; lia). rewrite H0. reflexivity.
Qed.

(* it says "now" at most one millisecond before the programmed instant (the /1000 truncations) *)
Theorem check_timeout_not_early now tm :
  norm now -> norm (tm_last tm) -> 0 < tm_interval tm -> fst (check_timeout now tm) = 0 ->
  fire_at_us tm - us now < 1000.
Proof.
  unfold norm, fire_at_us, us, check_timeout. intros Hn Hl Hi.
  pose proof (Z.quot_rem' (tm_interval tm) 1000) as Q. pose proof (Z.rem_bound_pos (tm_interval tm) 1000 ltac:(lia) ltac:(lia)) as R.
  set (q := Z.quot (tm_interval tm) 1000) in *. set (r := Z.rem (tm_interval tm) 1000) in *.
  assert (G : forall es eu, 0 <= eu < 1000000 ->
     fst (let sec_remaining := es - tv_sec now in
          let msec_remaining := Z.quot (eu - tv_usec now) 1000 in
          let timeout :=
            if (sec_remaining <? 0) || ((sec_remaining =? 0) && (msec_remaining <? 0)) then 0
            else let '(sr, mr) := if msec_remaining <? 0 then (sec_remaining - 1, msec_remaining + 1000) else (sec_remaining, msec_remaining) in
                 if (Z.quot INT_MAX 1000 <? sr) || (INT_MAX <? mr) then INT_MAX else sr * 1000 + mr in
          if tm_interval tm <? timeout
          then (tm_interval tm, mkTimer (tm_enabled tm) (tm_interval tm) (tm_needs_restart tm) now)
          else (timeout, tm)) = 0 ->
     es * 1000000 + eu - (tv_sec now * 1000000 + tv_usec now) < 1000).
  { intros es eu He. cbv zeta.
    pose proof (Z.quot_rem' (eu - tv_usec now) 1000) as Q2.
    assert (R2 : -1000 < Z.rem (eu - tv_usec now) 1000 < 1000) by (pose proof (Z.rem_bound_abs (eu - tv_usec now) 1000 ltac:(lia)); lia).
    assert (S2 : 0 <= eu - tv_usec now -> 0 <= Z.rem (eu - tv_usec now) 1000) by (intros; apply Z.rem_nonneg; lia).
    assert (S3 : eu - tv_usec now <= 0 -> Z.rem (eu - tv_usec now) 1000 <= 0) by (intros; apply Z.rem_nonpos; lia).
    set (m := Z.quot (eu - tv_usec now) 1000) in *. set (rr := Z.rem (eu - tv_usec now) 1000) in *.
    destruct ((es - tv_sec now <? 0) || ((es - tv_sec now =? 0) && (m <? 0))) eqn:C1.
    - intros _. apply orb_true_iff in C1. destruct C1 as [C1|C1]; [apply Z.ltb_lt in C1; nia|].
      apply andb_true_iff in C1. destruct C1 as [C1 C2]. apply Z.eqb_eq in C1. apply Z.ltb_lt in C2. nia.
    - apply orb_false_iff in C1. destruct C1 as [C1 C2]. apply Z.ltb_ge in C1.
      destruct (m <? 0) eqn:M; [apply Z.ltb_lt in M|apply Z.ltb_ge in M].
      + destruct ((Z.quot INT_MAX 1000 <? es - tv_sec now - 1) || (INT_MAX <? m + 1000)) eqn:C3.
        * destruct (tm_interval tm <? INT_MAX); simpl; intros E; [lia|unfold INT_MAX in E; discriminate].
        * destruct (tm_interval tm <? (es - tv_sec now - 1) * 1000 + (m + 1000)) eqn:C4; simpl; intros E; [lia|].
          apply andb_false_iff in C2. assert (es - tv_sec now <> 0) by (destruct C2 as [C2|C2]; [apply Z.eqb_neq in C2; auto|discriminate]).
          assert (m + 1000 >= 0) by (assert (-1000 <= m); [apply Z.quot_le_lower_bound; lia|lia]). nia.
      + destruct ((Z.quot INT_MAX 1000 <? es - tv_sec now) || (INT_MAX <? m)) eqn:C3.
        * destruct (tm_interval tm <? INT_MAX); simpl; intros E; [lia|unfold INT_MAX in E; discriminate].
        * destruct (tm_interval tm <? (es - tv_sec now) * 1000 + m) eqn:C4; simpl; intros E; [lia|]. nia. }
  destruct (1000000 <=? tv_usec (tm_last tm) + r * 1000) eqn:C; [apply Z.leb_le in C|apply Z.leb_gt in C]; intros H.
  - specialize (G (tv_sec (tm_last tm) + q + 1) (tv_usec (tm_last tm) + r * 1000 - 1000000) ltac:(lia) H). nia.
  - specialize (G (tv_sec (tm_last tm) + q) (tv_usec (tm_last tm) + r * 1000) ltac:(lia) H). nia.
Qed.

(* the clock reads at least 1 ms EARLIER than when the timer was started ("System clock set backward"): the timer is
   restarted from the present reading with its full interval -- it neither fires at once nor waits for the old instant *)
Theorem check_timeout_clock_backward now tm :
  norm now -> norm (tm_last tm) -> 0 <= tm_interval tm <= 3600 * 1000 -> us now + 1000 <= us (tm_last tm) ->
  check_timeout now tm = (tm_interval tm, mkTimer (tm_enabled tm) (tm_interval tm) (tm_needs_restart tm) now).
Proof.
  unfold norm, us, check_timeout. intros Hn Hl Hi Hb.
  pose proof (Z.quot_rem' (tm_interval tm) 1000) as Q. pose proof (Z.rem_bound_pos (tm_interval tm) 1000 ltac:(lia) ltac:(lia)) as R.
  set (q := Z.quot (tm_interval tm) 1000) in *. set (r := Z.rem (tm_interval tm) 1000) in *.
  assert (G : forall es eu, 0 <= eu < 1000000 ->
     es * 1000000 + eu - (tv_sec now * 1000000 + tv_usec now) >= tm_interval tm * 1000 + 1000 ->
     (let sec_remaining := es - tv_sec now in
      let msec_remaining := Z.quot (eu - tv_usec now) 1000 in
      let timeout :=
        if (sec_remaining <? 0) || ((sec_remaining =? 0) && (msec_remaining <? 0)) then 0
        else let '(sr, mr) := if msec_remaining <? 0 then (sec_remaining - 1, msec_remaining + 1000) else (sec_remaining, msec_remaining) in
             if (Z.quot INT_MAX 1000 <? sr) || (INT_MAX <? mr) then INT_MAX else sr * 1000 + mr in
      if tm_interval tm <? timeout
      then (tm_interval tm, mkTimer (tm_enabled tm) (tm_interval tm) (tm_needs_restart tm) now)
      else (timeout, tm)) = (tm_interval tm, mkTimer (tm_enabled tm) (tm_interval tm) (tm_needs_restart tm) now)).
  { intros es eu He Hv. cbv zeta.
    pose proof (Z.quot_rem' (eu - tv_usec now) 1000) as Q2.
    assert (R2 : -1000 < Z.rem (eu - tv_usec now) 1000 < 1000) by (pose proof (Z.rem_bound_abs (eu - tv_usec now) 1000 ltac:(lia)); lia).
    set (m := Z.quot (eu - tv_usec now) 1000) in *. set (rr := Z.rem (eu - tv_usec now) 1000) in *.
    assert (C1 : ((es - tv_sec now <? 0) || ((es - tv_sec now =? 0) && (m <? 0))) = false).
    { apply orb_false_iff. split; [apply Z.ltb_ge; nia|].
      destruct (es - tv_sec now =? 0) eqn:E; auto. apply Z.eqb_eq in E. simpl. apply Z.ltb_ge. nia. }
    rewrite C1.
    assert (Hlt : forall t, tm_interval tm < t -> (tm_interval tm <? t) = true) by (intros; apply Z.ltb_lt; auto).
    destruct (m <? 0) eqn:M; [apply Z.ltb_lt in M|apply Z.ltb_ge in M].
    - destruct ((Z.quot INT_MAX 1000 <? es - tv_sec now - 1) || (INT_MAX <? m + 1000)).
      + rewrite Hlt; [reflexivity|unfold INT_MAX; lia].
      + rewrite Hlt; [reflexivity|nia].
    - destruct ((Z.quot INT_MAX 1000 <? es - tv_sec now) || (INT_MAX <? m)).
      + rewrite Hlt; [reflexivity|unfold INT_MAX; lia].
      + rewrite Hlt; [reflexivity|nia]. }
  destruct (1000000 <=? tv_usec (tm_last tm) + r * 1000) eqn:C; [apply Z.leb_le in C|apply Z.leb_gt in C].
  - apply (G (tv_sec (tm_last tm) + q + 1) (tv_usec (tm_last tm) + r * 1000 - 1000000)); nia.
  - apply (G (tv_sec (tm_last tm) + q) (tv_usec (tm_last tm) + r * 1000)); nia.
Qed.

(* ------------------------------------------------------------------ exactly once, never after removal *)
Definition ids (x : xlist) : list Z := map it_id (x_items x).
Definition adds (o : xop) : list Z := match o with XAdd id _ => [id] | _ => [] end.
Definition all_adds (ops : list xop) : list Z := flat_map adds ops.

Lemma NoDup_app_iff {A} (l1 l2 : list A) : NoDup (l1 ++ l2) <-> NoDup l1 /\ NoDup l2 /\ (forall x, In x l1 -> ~ In x l2).
Proof.
  induction l1 as [|a l1 IH]; simpl.
  - split; [intros H; repeat split; auto; constructor|tauto].
  - split.
    + intros H. inversion H as [|? ? Hn Hd]; subst. apply IH in Hd. destruct Hd as (D1 & D2 & D3). repeat split; auto.
      * constructor; auto. intros Hi. apply Hn. apply in_app_iff. auto.
      * intros x [<-|Hx] Hx2; [apply Hn; apply in_app_iff; auto|apply (D3 x); auto].
    + intros (D1 & D2 & D3). inversion D1 as [|? ? Hn Hd]; subst. constructor.
      * intros Hi. apply in_app_iff in Hi. destruct Hi as [Hi|Hi]; [auto|apply (D3 a); auto].
      * apply IH. repeat split; auto.
Qed.

Lemma filter_partition_nodup {A B} (f : A -> B) (p : A -> bool) l :
  NoDup (map f l) -> NoDup (map f (filter p l) ++ map f (filter (fun x => negb (p x)) l)).
Proof.
  induction l as [|a l IH]; simpl; [constructor|]. intros H. inversion H as [|? ? Hn Hd]; subst. specialize (IH Hd).
  assert (Hsub : forall q y, In y (map f (filter q l)) -> In y (map f l)).
  { intros q y Hy. apply in_map_iff in Hy. destruct Hy as (z & <- & Hz). apply filter_In in Hz. apply in_map. tauto. }
  destruct (p a); simpl.
  - constructor; auto. intros Hi. apply in_app_iff in Hi. destruct Hi as [Hi|Hi]; apply Hn; eapply Hsub; eauto.
  - apply NoDup_app_iff in IH. destruct IH as (I1 & I2 & I3). apply NoDup_app_iff. repeat split; auto.
    + constructor; auto. intros Hi. apply Hn. eapply Hsub; eauto.
    + intros x Hx [<-|Hx2]; [apply Hn; eapply Hsub; eauto|apply (I3 x); auto].
Qed.

Lemma remove_id_sub l id x : In x (map it_id (remove_id l id)) -> In x (map it_id l).
Proof.
  induction l as [|it l IH]; simpl; auto. destruct (it_id it =? id); simpl; auto. intros [H|H]; auto.
Qed.

Lemma remove_id_nodup l id : NoDup (map it_id l) -> NoDup (map it_id (remove_id l id)) /\ ~ In id (map it_id (remove_id l id)).
Proof.
  induction l as [|it l IH]; simpl; [intros _; split; [constructor|tauto]|].
  intros H. inversion H as [|? ? Hn Hd]; subst. destruct (it_id it =? id) eqn:E.
  - apply Z.eqb_eq in E. subst. split; auto.
  - apply Z.eqb_neq in E. destruct (IH Hd) as [I1 I2]. simpl. split.
    + constructor; auto. intros Hi. apply Hn. eapply remove_id_sub; eauto.
    + intros [Hi|Hi]; auto.
Qed.

Lemma mark_ids l id : map it_id (map (fun it => if it_id it =? id then mkItem id (mkTv 0 0) else it) l) = map it_id l.
Proof.
  induction l as [|it l IH]; simpl; auto. rewrite IH. destruct (it_id it =? id) eqn:E; auto. apply Z.eqb_eq in E. simpl. congruence.
Qed.

(* one operation: what expires was in the list, it is gone afterwards, nothing appears from nowhere *)
Lemma xstep_ids x o :
  NoDup (ids x ++ adds o) ->
  NoDup (snd (xstep x o) ++ ids (fst (xstep x o))) /\
  (forall id, In id (snd (xstep x o)) -> In id (ids x)) /\
  (forall id, In id (ids (fst (xstep x o))) -> In id (ids x ++ adds o)).
Proof.
  intros H. destruct o as [id a|id|id|t1 t2 t3]; cbn [xstep fst snd adds] in *.
  - unfold ids, add. cbn [x_items map it_id app]. apply NoDup_app_iff in H. destruct H as (H1 & _ & H3). repeat split.
    + constructor; auto. intros Hi. apply (H3 id); simpl; auto.
    + intros ? [].
    + intros i [<-|Hi]; apply in_app_iff; simpl; auto.
  - rewrite app_nil_r in H. unfold ids, remove. cbn [x_items app]. destruct (remove_id_nodup (x_items x) id H) as [R1 _]. repeat split; auto.
    + intros ? [].
    + intros i Hi. rewrite app_nil_r. eapply remove_id_sub; eauto.
  - rewrite app_nil_r in H. unfold ids, mark, recheck. cbn [x_items app]. rewrite mark_ids. repeat split; auto.
    + intros ? [].
    + intros i Hi. rewrite app_nil_r. auto.
  - rewrite app_nil_r in H |- *. unfold iterate.
    set (tm1 := if tm_enabled (x_timer x) then _ else x_timer x).
    assert (Same : forall tm, NoDup ([] ++ ids (mkX (x_items x) tm (x_after x))) /\ (forall id, In id (@nil Z) -> In id (ids x)) /\
                              (forall id, In id (ids (mkX (x_items x) tm (x_after x))) -> In id (ids x))).
    { intros tm. unfold ids. cbn [x_items app]. repeat split; auto. intros ? []. }
    destruct (tm_enabled tm1); [|apply Same].
    destruct (check_timeout t2 tm1) as [rem tm2]. destruct (rem =? 0); [|apply Same].
    match goal with |- context [expire ?y t3] => pose proof (expire_timer y t3) as E; destruct (expire y t3) as [x' ex] end.
    cbn [x_items x_after fst snd] in *. destruct E as (_ & Ei & Ee & _). unfold ids in *. rewrite Ei, Ee. repeat split.
    + apply filter_partition_nodup. exact H.
    + intros i Hi. apply in_map_iff in Hi. destruct Hi as (z & <- & Hz). apply filter_In in Hz. apply in_map. tauto.
    + intros i Hi. apply in_map_iff in Hi. destruct Hi as (z & <- & Hz). apply filter_In in Hz. apply in_map. tauto.
Qed.

Lemma xrun_ids ops : forall x,
  NoDup (ids x ++ all_adds ops) ->
  NoDup (concat (snd (xrun x ops)) ++ ids (fst (xrun x ops))) /\
  (forall id, In id (concat (snd (xrun x ops)) ++ ids (fst (xrun x ops))) -> In id (ids x ++ all_adds ops)).
Proof.
  induction ops as [|o ops IH]; intros x H; simpl.
  - rewrite app_nil_r in H. split; auto. intros id Hi. rewrite app_nil_r. auto.
  - simpl in H. rewrite app_assoc in H. pose proof H as H0. apply NoDup_app_iff in H. destruct H as (Hxo & Hops & Hdis).
    destruct (xstep_ids x o Hxo) as (S1 & S2 & S3). destruct (xstep x o) as [x1 ex] eqn:E1. cbn [fst snd] in *.
    apply NoDup_app_iff in S1. destruct S1 as (Sex & Sx1 & Sdis).
    assert (H1 : NoDup (ids x1 ++ all_adds ops)).
    { apply NoDup_app_iff. repeat split; auto; intros i Hi; apply Hdis; auto. }
    destruct (IH x1 H1) as (I1 & I2). destruct (xrun x1 ops) as [x2 exs] eqn:E2. cbn [fst snd concat] in *. split.
    + rewrite <- app_assoc. apply NoDup_app_iff. repeat split; auto.
      intros i Hi Hi2. apply I2 in Hi2. apply in_app_iff in Hi2. destruct Hi2 as [Hi2|Hi2].
      * apply (Sdis i); auto.
      * apply (Hdis i); auto. apply in_app_iff. left. auto.
    + intros i Hi. rewrite <- app_assoc in Hi. apply in_app_iff in Hi. rewrite app_assoc. destruct Hi as [Hi|Hi].
      * apply in_app_iff. left. apply in_app_iff. left. auto.
      * apply I2 in Hi. apply in_app_iff in Hi. apply in_app_iff. destruct Hi as [Hi|Hi]; auto.
Qed.

(* every entry expires at most once (entries are added under distinct ids) *)
Theorem expires_at_most_once after ops :
  NoDup (all_adds ops) -> NoDup (concat (snd (xrun (xinit after) ops))).
Proof.
  intros H. destruct (xrun_ids ops (xinit after)) as [N _]; [simpl; exact H|].
  apply NoDup_app_iff in N. tauto.
Qed.

(* an entry removed (a real reply consumed the slot) never expires afterwards *)
Theorem removed_never_expires x id ops :
  NoDup (ids x ++ all_adds ops) -> ~ In id (all_adds ops) ->
  ~ In id (concat (snd (xrun (remove x id) ops))).
Proof.
  intros H Hn Hi. apply NoDup_app_iff in H. destruct H as (H1 & H2 & H3).
  destruct (remove_id_nodup (x_items x) id H1) as [R1 R2].
  assert (Hr : NoDup (ids (remove x id) ++ all_adds ops)).
  { apply NoDup_app_iff. repeat split; auto. intros i Hi2. apply H3. unfold ids, remove in Hi2. cbn [x_items] in Hi2. eapply remove_id_sub; eauto. }
  destruct (xrun_ids ops (remove x id) Hr) as [_ I]. specialize (I id ltac:(apply in_app_iff; left; exact Hi)).
  apply in_app_iff in I. destruct I as [I|I]; [apply R2; exact I|auto].
Qed.

(* ------------------------------------------------------------------ link to the routing model's abstract clock *)
From Coq Require Import NArith ZifyBool ZifyN.
From DV Require Routing.Routing.

Definition after_of (cf : Routing.cfg) : Z := match Routing.reply_timeout cf with Some t => Z.of_N t | None => -1 end.
Definition tv_of_ms (ms : N) : tv := mkTv 1 (Z.of_N ms * 1000).
Definition item_of (id : Z) (p : Routing.pend) : item :=
  mkItem id (match Routing.p_send p with None => mkTv 0 0 | Some _ => tv_of_ms (Routing.p_added p) end).

(* the test Routing.expire_pass applies at its millisecond clock is do_expiration's test *)
Theorem expired_agrees cf now id p :
  Routing.expired cf now p = due (after_of cf) (tv_of_ms now) (item_of id p).
Proof.
  unfold Routing.expired, due, item_of, after_of, is_marked, elapsed_us, tv_of_ms. destruct (Routing.p_send p); simpl; auto.
  destruct (Routing.reply_timeout cf) as [t|]; simpl; auto.
  destruct (N.ltb 0 t) eqn:A; destruct (N.leb t (now - Routing.p_added p)) eqn:B;
    destruct (0 <? Z.of_N t) eqn:C; destruct (Z.of_N t * 1000 <=? (1 - 1) * 1000000 + (Z.of_N now * 1000 - Z.of_N (Routing.p_added p) * 1000)) eqn:D;
    simpl; auto; exfalso; lia.
Qed.
