(* C08/C11 boundary theorem: for every way of cutting "handshake ++ messages"
   into reads, the transport ends authenticated with the identity the handshake
   established, the auth object has interpreted exactly the handshake's lines, and
   the message loader has seen exactly the message bytes -- its outcome is the one
   of feeding them in one piece. *)
From DV Require Import Lib.Base Auth.Types Gen.AuthTables Auth.Sha1 Wire.Utf8 Auth.Server Auth.Transport Auth.Handover
  Wire.Message Proofs.LoaderProofs Proofs.LoadLocal
  Proofs.AuthInv Proofs.AuthBasics Proofs.AuthShape Proofs.AuthTrace Proofs.AuthChunk Proofs.AuthTransport Proofs.AuthMain.
Require Import ZifyBool ZifyN ZifyNat.
Local Open Scope N_scope.

(* ---------- the loader is fed what Auth.Transport records, chunk by chunk ---------- *)
Definition XInv (x : xstate) : Prop :=
  exists chunks, snd x = feed_all loader_new chunks /\ concat chunks = tr_loader (fst x).

Lemma feed_all_snoc l chunks c : feed_all l (chunks ++ [c]) = feed (feed_all l chunks) c 0.
Proof. unfold feed_all. rewrite fold_left_app. reflexivity. Qed.

Lemma XInv_feed t l c t' : XInv (t, l) -> tr_loader t' = tr_loader t ++ c -> XInv (t', feed l c 0).
Proof.
  intros (chunks & Hl & Hc) Ht. cbn [fst snd] in *. exists (chunks ++ [c]). split.
  - rewrite feed_all_snoc, Hl. reflexivity.
  - cbn [fst]. rewrite concat_app, Hc, Ht. cbn. rewrite app_nil_r. reflexivity.
Qed.

Lemma XInv_same t l t' : XInv (t, l) -> tr_loader t' = tr_loader t -> XInv (t', l).
Proof. intros (chunks & Hl & Hc) Ht. exists chunks. cbn [fst snd] in *. split; [exact Hl|congruence]. Qed.

Lemma try_fields te t :
  tr_loader (try_to_authenticate te t) = tr_loader t /\ tr_recovered (try_to_authenticate te t) = tr_recovered t.
Proof.
  unfold try_to_authenticate. destruct (tr_authenticated t); [auto|]. destruct (tr_disconnected t); [auto|].
  destruct (do_work (t_env te) (tr_auth t)) as [a|]; [|auto].
  destruct (work_result a); try (cbn; auto). destruct (admission te (get_identity a)); cbn; auto.
Qed.

Lemma recover_loader t :
  tr_loader (recover t) = if tr_authenticated t && negb (tr_recovered t) then tr_loader t ++ a_incoming (tr_auth t) else tr_loader t.
Proof. unfold recover. destruct (tr_authenticated t && negb (tr_recovered t)); reflexivity. Qed.

Lemma XInv_recover t l : XInv (t, l) -> XInv (recover t, xrecover t l).
Proof.
  intros H. unfold xrecover. pose proof (recover_loader t) as R.
  destruct (tr_authenticated t && negb (tr_recovered t)).
  - eapply XInv_feed; eauto.
  - eapply XInv_same; eauto.
Qed.

Theorem XInv_step te x ev : XInv x -> XInv (xstep te x ev).
Proof.
  destruct x as [t l]. intros H. destruct ev as [c|n|]; cbn [xstep tstep].
  - destruct (tr_authenticated t) eqn:Ea.
    + pose proof (XInv_recover t l H) as H1.
      destruct (tr_disconnected (recover t)); cbn [fst]; [exact H1|].
      eapply XInv_feed; [exact H1|reflexivity].
    + destruct (try_fields te t) as [T1 _].
      destruct (tr_authenticated (try_to_authenticate te t) || tr_disconnected (try_to_authenticate te t)); cbn [fst];
        [eapply XInv_same; eauto|].
      destruct (work_result (tr_auth (try_to_authenticate te t))); cbn [fst]; try (eapply XInv_same; eauto; fail).
      eapply XInv_same; [exact H|].
      match goal with |- tr_loader (try_to_authenticate te ?u) = _ => destruct (try_fields te u) as [X _]; rewrite X end.
      cbn [with_auth tr_loader]. exact T1.
  - destruct (tr_authenticated t) eqn:Ea; cbn [fst]; [exact H|].
    destruct (try_fields te t) as [T1 _].
    destruct (tr_authenticated (try_to_authenticate te t) || tr_disconnected (try_to_authenticate te t)); cbn [fst];
      [eapply XInv_same; eauto|].
    destruct (work_result (tr_auth (try_to_authenticate te t))); cbn [fst]; try (eapply XInv_same; eauto; fail).
    eapply XInv_same; [exact H|].
    match goal with |- tr_loader (try_to_authenticate te ?u) = _ => destruct (try_fields te u) as [X _]; rewrite X end.
    cbn [with_auth tr_loader]. exact T1.
  - cbn [fst]. destruct (try_fields te t) as [T1 T2].
    assert (H1 : XInv (try_to_authenticate te t, l)) by (eapply XInv_same; eauto).
    exact (XInv_recover _ _ H1).
Qed.

Lemma XInv_run te : forall evs x, XInv x -> XInv (xrun te x evs).
Proof. induction evs as [|ev r IH]; intros x H; [exact H|]. cbn [xrun fold_left]. apply IH. apply XInv_step. exact H. Qed.

Lemma xrun_fst te : forall evs t l, fst (xrun te (t, l) evs) = fst (trun te t evs).
Proof.
  induction evs as [|ev r IH]; intros t l; [reflexivity|].
  cbn [xrun fold_left trun]. cbn [xstep]. destruct (tstep te t ev) as [t1 c1] eqn:E. cbn [fst].
  fold (xrun te (t1, match ev with
                     | T_Read c => if tr_authenticated t then if tr_disconnected (recover t) then xrecover t l else feed (xrecover t l) c 0 else l
                     | T_Write _ => l
                     | T_Dispatch => xrecover (try_to_authenticate te t) l
                     end) r).
  rewrite IH. destruct (trun te t1 r). reflexivity.
Qed.

(* ---------- two authenticated conversations over streams with a common extension ---------- *)
Lemma authenticated_common_extension e F1 ls1 rs1 a1 F2 ls2 rs2 a2 x1 x2 :
  reach e F1 ls1 rs1 a1 -> reach e F2 ls2 rs2 a2 ->
  a_state (a_core a1) = Authenticated -> a_state (a_core a2) = Authenticated ->
  F1 ++ x1 = F2 ++ x2 ->
  ls1 = ls2 /\ a_core a1 = a_core a2 /\ a_incoming a1 ++ x1 = a_incoming a2 ++ x2.
Proof.
  intros H1 H2 S1 S2 E.
  assert (Hc1 : is_crashed (a_core a1) = false) by (unfold is_crashed; rewrite S1; reflexivity).
  assert (Hc2 : is_crashed (a_core a2) = false) by (unfold is_crashed; rewrite S2; reflexivity).
  pose proof (reach_framing _ _ _ _ _ H1 Hc1) as Fr1. pose proof (reach_framing _ _ _ _ _ H2 Hc2) as Fr2.
  destruct (reach_lrun _ _ _ _ _ H1) as [L1|L1]; [|congruence]. destruct (reach_lrun _ _ _ _ _ H2) as [L2|L2]; [|congruence].
  destruct (reach_lines _ _ _ _ _ H1) as [Cf1 P1]. destruct (reach_lines _ _ _ _ _ H2) as [Cf2 P2].
  rewrite Fr1, Fr2, <- !app_assoc in E.
  assert (End1 : in_end_state (lrun e core_init ls1) = true) by (rewrite <- L1; unfold in_end_state; rewrite S1; reflexivity).
  assert (End2 : in_end_state (lrun e core_init ls2) = true) by (rewrite <- L2; unfold in_end_state; rewrite S2; reflexivity).
  destruct (lines_comparable _ _ _ _ Cf1 Cf2 E) as [(m & Hm & Ht)|(m & Hm & Ht)].
  - destruct m as [|m0 mr].
    + rewrite app_nil_r in Hm. subst ls2. cbn in Ht. split; [reflexivity|]. split; [congruence|exact Ht].
    + exfalso. pose proof (P2 ls1 m0 mr Hm). congruence.
  - destruct m as [|m0 mr].
    + rewrite app_nil_r in Hm. subst ls1. cbn in Ht. split; [reflexivity|]. split; [congruence|symmetry; exact Ht].
    + exfalso. pose proof (P1 ls2 m0 mr Hm). congruence.
Qed.

(* ---------- the boundary theorem ---------- *)
Theorem handshake_boundary te hs msgs a_hs evs :
  (* hs is a complete, successful client handshake: fed in one piece it ends Authenticated with nothing left over *)
  run (t_env te) auth_init [Feed hs] = Some a_hs -> a_state (a_core a_hs) = Authenticated -> a_incoming a_hs = [] ->
  let t := fst (xrun te xinit evs) in
  let ld := snd (xrun te xinit evs) in
  (* evs: any sequence of read / write / dispatch events, i.e. any cutting into reads; so far it consumed hs ++ msgs
     and the hand-over has happened *)
  snd (trun te transport_init evs) = hs ++ msgs -> tr_recovered t = true ->
  tr_authenticated t = true /\
  a_core (tr_auth t) = a_core a_hs /\ get_identity (tr_auth t) = get_identity a_hs /\
  admission te (get_identity a_hs) = true /\
  (* the auth object interpreted exactly the lines of hs ... *)
  (exists ls aevs rs, run (t_env te) auth_init aevs = Some (tr_auth t) /\ reach (t_env te) (fed aevs) ls rs (tr_auth t) /\ join_lines ls = hs) /\
  (* ... the loader received exactly msgs, and what it made of them does not depend on the cutting *)
  tr_loader t = msgs /\
  LoaderProofs.outcome ld = LoaderProofs.outcome (feed loader_new msgs 0).
Proof.
  intros Hhs Shs Ihs. cbv zeta. intros Hcons Hrec.
  pose proof (xrun_fst te evs transport_init loader_new) as Hfst. fold xinit in Hfst.
  pose proof (transport_gate te evs) as G. cbv zeta in G. rewrite <- Hfst in G.
  set (t := fst (xrun te xinit evs)) in *.
  destruct G as (Gauth & Gun & aevs & after & Grun & Gcons & _ & Grec).
  assert (Ta : tr_authenticated t = true).
  { destruct (tr_authenticated t) eqn:X; [reflexivity|]. destruct (Gun eq_refl) as [_ Y]. congruence. }
  destruct (Gauth Ta) as (Sa & _ & Hadm).
  specialize (Grec Hrec).
  destruct (run_reach _ _ _ Grun) as (ls1 & rs1 & R1).
  destruct (run_reach _ _ _ Hhs) as (ls2 & rs2 & R2). cbn [fed] in R2. rewrite app_nil_r in R2.
  rewrite Hcons in Gcons.
  destruct (authenticated_common_extension _ _ _ _ _ _ _ _ _ after msgs R1 R2 Sa Shs (eq_sym Gcons)) as (Hls & Hcore & Hinc).
  rewrite Ihs in Hinc. cbn [app] in Hinc.
  assert (Hjoin : join_lines ls2 = hs).
  { assert (Hc : is_crashed (a_core a_hs) = false) by (unfold is_crashed; rewrite Shs; reflexivity).
    pose proof (reach_framing _ _ _ _ _ R2 Hc) as Fr. rewrite Ihs, app_nil_r in Fr. symmetry. exact Fr. }
  assert (Hload : tr_loader t = msgs) by (rewrite Grec; exact Hinc).
  split; [exact Ta|]. split; [exact Hcore|]. split; [unfold get_identity; rewrite Hcore; reflexivity|].
  split; [unfold get_identity in *; rewrite <- Hcore; exact Hadm|].
  split; [exists ls1, aevs, rs1; split; [exact Grun|]; split; [exact R1|]; rewrite Hls; exact Hjoin|].
  split; [exact Hload|].
  destruct (XInv_run te evs xinit) as (chunks & Hl & Hc).
  { exists []. split; reflexivity. }
  rewrite Hl. rewrite chunking_unconditional. fold t in Hc. rewrite Hc, Hload. reflexivity.
Qed.
