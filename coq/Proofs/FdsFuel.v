(* C15 proofs, part 6: the fuel of do_reading / pump is always enough: the out-of-fuel result is
   never produced, so the model's loops are the C loops and not a truncation of them. *)
From DV Require Import Lib.Base Gen.Tables Fds.Fds.
Require Import ZifyBool ZifyN ZifyNat.
Local Open Scope N_scope.

(* bytes plus pieces still in the socket *)
Definition msr (sock : list part) : nat := (N.to_nat (bytes_of sock) + length sock)%nat.

Lemma msr_cons p r : msr (p :: r) = (N.to_nat (psize p) + S (msr r))%nat.
Proof. unfold msr. simpl. lia. Qed.

Lemma take_bytes_msr sock : forall k taken rest,
  take_bytes k sock = (taken, rest) ->
  (msr rest <= msr sock)%nat /\ (taken <> [] -> (msr rest < msr sock)%nat).
Proof.
  induction sock as [|p r IH]; intros k taken rest H; simpl in H.
  - inversion H; subst. split; [lia|congruence].
  - destruct (psize p <=? k) eqn:E.
    + destruct (take_bytes (k - psize p) r) as [t r'] eqn:Et. inversion H; subst.
      destruct (IH _ _ _ Et) as [A _]. rewrite msr_cons. split; lia.
    + destruct (k =? 0) eqn:E0.
      * inversion H; subst. split; [lia|congruence].
      * inversion H; subst. apply N.leb_gt in E. apply N.eqb_neq in E0.
        rewrite !msr_cons. simpl. split; lia.
Qed.

Definition fuel_ok (rs : rstat) : Prop := rs <> ROutOfFuel.

Lemma do_reading_fuel cf now fuel : forall c sock sfds led acc total,
  (msr sock < fuel)%nat ->
  let '(_, _, _, rs) := do_reading fuel cf now c sock sfds led acc total in
  fuel_ok rs /\ forall r, rs = RMore r -> (msr r <= msr sock)%nat /\ (total = 0 -> (msr r < msr sock)%nat).
Proof.
  induction fuel as [|fuel IH]; intros c sock sfds led acc total Hf; [lia|].
  simpl.
  destruct (read_cap cf <? total) eqn:Ec.
  { split; [unfold fuel_ok; discriminate|]. intros r Hr. inversion Hr; subst. split; [lia|].
    intros ->. apply N.ltb_lt in Ec. lia. }
  destruct (get_buffer c) as [mx may].
  destruct (take_bytes (N.min mx (read_cap cf)) sock) as [taken rest] eqn:Et.
  destruct taken as [|p0 tk]; [split; [unfold fuel_ok|intros ?]; discriminate|].
  destruct (take_bytes_msr _ _ _ _ Et) as [_ Hlt]. assert (Hm : (msr rest < msr sock)%nat) by (apply Hlt; discriminate).
  destruct (recv_fds cf now c may sfds led) as [[c1 led1] trunc].
  destruct trunc; [split; [unfold fuel_ok|intros ?]; discriminate|].
  destruct (feed_parts c1 (p0 :: tk)) as [[c2 ld] s].
  destruct s; try (split; [unfold fuel_ok|intros ?]; discriminate).
  assert (Hf' : (msr rest < fuel)%nat) by lia.
  specialize (IH c2 rest [] led1 (acc ++ ld) (total + bytes_of (p0 :: tk)) Hf').
  destruct (do_reading fuel cf now c2 rest [] led1 (acc ++ ld) (total + bytes_of (p0 :: tk))) as [[[? ?] ?] rs].
  destruct IH as [A B]. split; auto.
  intros r Hr. destruct (B r Hr) as [B1 _]. split; lia.
Qed.

Lemma pump_fuel cf now cs fuel : forall c sock sfds led o,
  (msr sock < fuel)%nat ->
  let '(_, _, _, rs) := pump fuel cf now cs c sock sfds led o in
  fuel_ok rs /\ forall r, rs <> RMore r.
Proof.
  induction fuel as [|fuel IH]; intros c sock sfds led o Hf; [lia|].
  cbn [pump].
  assert (Hfs : (msr sock < S fuel)%nat) by exact Hf.
  pose proof (do_reading_fuel cf now (S fuel) c sock sfds led [] 0 Hfs) as R.
  destruct (do_reading (S fuel) cf now c sock sfds led [] 0) as [[[c1 q] led1] rs].
  destruct R as [A B].
  destruct (dispatch_all cf cs (c_id c) (sender_gone rs) q led1) as [o1 led2].
  destruct rs as [|rest| | | |]; try (split; [unfold fuel_ok|intros ?]; discriminate).
  - destruct (B rest eq_refl) as [_ Hlt]. specialize (Hlt eq_refl).
    apply IH. lia.
  - exfalso. apply A. reflexivity.
Qed.

(* a step never runs out of fuel: the fault flag can only come from an ill-formed event *)
Theorem step_never_out_of_fuel cf now cs c ps fds led :
  let '(_, _, _, rs) := pump (fuel_for ps) cf now cs c ps fds led [] in
  rs <> ROutOfFuel /\ forall r, rs <> RMore r.
Proof.
  apply pump_fuel. unfold fuel_for, msr. lia.
Qed.
