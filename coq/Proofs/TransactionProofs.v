(* C04 proofs: the transaction layer (Registry/Transaction.v) delivers to every
   connection exactly what was staged for it, in staging order. *)
From DV Require Import Lib.Base Registry.RegTypes Registry.Transaction.
Local Open Scope N_scope.

Section Trans.
Variable connected : N -> bool.
Variable tid : N.

Definition mine (p : pend) : list msg := map snd (filter (of_trans tid) p).
Definition foreign (p : pend) : pend := filter (fun e => negb (of_trans tid e)) p.
Definition staged_for (c : N) (sent : list out) : list msg := map snd (filter (fun x => (fst x =? c) && connected (fst x)) sent).

Lemma exec_walk_filter l : exec_walk tid l = map snd (filter (of_trans tid) l).
Proof. induction l as [|e l IH]; simpl; [reflexivity|]. destruct (of_trans tid e); simpl; [f_equal|]; exact IH. Qed.

Lemma filter_rev {A} (f : A -> bool) l : filter f (rev l) = rev (filter f l).
Proof.
  induction l as [|x l IH]; simpl; [reflexivity|]. rewrite filter_app, IH. simpl. destruct (f x); simpl; [reflexivity | apply app_nil_r].
Qed.

Lemma exec_conn_spec p : exec_conn tid p = (rev (mine p), foreign p).
Proof. unfold exec_conn, mine, foreign. rewrite exec_walk_filter, filter_rev, map_rev. reflexivity. Qed.

Lemma mine_nil_existsb p : mine p = [] <-> existsb (of_trans tid) p = false.
Proof.
  unfold mine. induction p as [|e p IH]; simpl; [tauto|]. destruct (of_trans tid e); simpl; [split; discriminate | exact IH].
Qed.

Lemma foreign_all p : mine p = [] -> foreign p = p.
Proof.
  unfold mine, foreign. induction p as [|e p IH]; simpl; [reflexivity|]. destruct (of_trans tid e); simpl; [discriminate|]. intros H. f_equal. auto.
Qed.

(* the state after some messages have been staged *)
Record staged (ts0 ts : tstate) (sent : list out) : Prop := mkStaged {
  st_nodup : NoDup (tc ts);
  st_conns : forall c, In c (tc ts) <-> mine (tp ts c) <> [];
  st_mine : forall c, rev (mine (tp ts c)) = staged_for c sent;
  st_foreign : forall c, foreign (tp ts c) = tp ts0 c
}.

Lemma staged_fresh ts0 : fresh tid ts0 -> staged ts0 ts0 [].
Proof.
  intros [Hc Hp].
  assert (Hm : forall c, mine (tp ts0 c) = []).
  { intros c. apply mine_nil_existsb. destruct (existsb (of_trans tid) (tp ts0 c)) eqn:E; [|reflexivity].
    apply existsb_exists in E. destruct E as [e [He Hb]]. rewrite (Hp c e He) in Hb. discriminate. }
  constructor.
  - rewrite Hc. constructor.
  - intros c. rewrite Hc, Hm. simpl. tauto.
  - intros c. rewrite Hm. reflexivity.
  - intros c. apply foreign_all. apply Hm.
Qed.

Lemma staged_send ts0 ts sent o : staged ts0 ts sent -> staged ts0 (tsend connected tid ts o) (sent ++ [o]).
Proof.
  intros S. unfold tsend. destruct o as [c m]. cbn [fst snd].
  assert (Hfor : forall x, staged_for x (sent ++ [(c, m)]) = staged_for x sent ++ (if (c =? x) && connected c then [m] else [])).
  { intros x. unfold staged_for. rewrite filter_app, map_app. simpl. destruct ((c =? x) && connected c); reflexivity. }
  destruct (connected c) eqn:Ec; cbn [negb].
  2: { constructor; try apply S. intros x. rewrite Hfor, andb_false_r, app_nil_r. apply (st_mine _ _ _ S). }
  assert (Hmine : forall x, mine (if x =? c then (tid, m) :: tp ts c else tp ts x) = if x =? c then m :: mine (tp ts c) else mine (tp ts x)).
  { intros x. destruct (x =? c); [|reflexivity]. unfold mine. simpl. unfold of_trans at 1. simpl. rewrite N.eqb_refl. reflexivity. }
  assert (Hforeign : forall x, foreign (if x =? c then (tid, m) :: tp ts c else tp ts x) = tp ts0 x).
  { intros x. destruct (N.eqb_spec x c) as [->|Hne]; [|apply (st_foreign _ _ _ S)].
    unfold foreign. simpl. unfold of_trans at 1. simpl. rewrite N.eqb_refl. simpl. apply (st_foreign _ _ _ S). }
  assert (Hm' : forall x, rev (if x =? c then m :: mine (tp ts c) else mine (tp ts x)) = staged_for x (sent ++ [(c, m)])).
  { intros x. rewrite Hfor, andb_true_r, (N.eqb_sym c x). destruct (x =? c) eqn:E.
    - apply N.eqb_eq in E. subst x. simpl. rewrite (st_mine _ _ _ S). reflexivity.
    - rewrite app_nil_r. apply (st_mine _ _ _ S). }
  destruct (existsb (of_trans tid) (tp ts c)) eqn:Ee.
  - (* the recipient is already in transaction->connections *)
    constructor; cbn [tp tc].
    + apply (st_nodup _ _ _ S).
    + intros x. rewrite Hmine. destruct (N.eqb_spec x c) as [->|Hne]; [|apply (st_conns _ _ _ S)].
      split; [discriminate|]. intros _. apply (st_conns _ _ _ S). intros H. apply mine_nil_existsb in H. congruence.
    + intros x. rewrite Hmine. apply Hm'.
    + exact Hforeign.
  - constructor; cbn [tp tc].
    + constructor; [|apply (st_nodup _ _ _ S)]. intros H. apply (st_conns _ _ _ S) in H. apply H. apply mine_nil_existsb. exact Ee.
    + intros x. rewrite Hmine. simpl. destruct (N.eqb_spec x c) as [->|Hne].
      * split; [discriminate | auto].
      * rewrite <- (st_conns _ _ _ S). split; [intros [H|H]; [congruence | exact H] | auto].
    + intros x. rewrite Hmine. apply Hm'.
    + exact Hforeign.
Qed.

Lemma staged_all ts0 : forall ms ts sent, staged ts0 ts sent -> staged ts0 (stage_all connected tid ts ms) (sent ++ ms).
Proof.
  induction ms as [|o ms IH]; intros ts sent S; simpl.
  - rewrite app_nil_r. exact S.
  - replace (sent ++ o :: ms) with ((sent ++ [o]) ++ ms) by (rewrite <- app_assoc; reflexivity).
    apply IH. apply staged_send. exact S.
Qed.

(* executing: what each connection gets, and what stays in its list *)
Definition to (c : N) (o : list out) : list msg := map snd (filter (fun x => fst x =? c) o).

Lemma to_app c o1 o2 : to c (o1 ++ o2) = to c o1 ++ to c o2.
Proof. unfold to. rewrite filter_app, map_app. reflexivity. Qed.

Lemma to_same c ms : to c (map (fun m => (c, m)) ms) = ms.
Proof. unfold to. induction ms as [|m ms IH]; simpl; [reflexivity|]. rewrite N.eqb_refl. simpl. f_equal. exact IH. Qed.

Lemma to_other c c' ms : c' <> c -> to c (map (fun m => (c', m)) ms) = [].
Proof.
  intros H. unfold to. induction ms as [|m ms IH]; simpl; [reflexivity|]. destruct (N.eqb_spec c' c); [contradiction | exact IH].
Qed.

Lemma texec_conns_spec : forall cs p, NoDup cs ->
  (forall c, to c (fst (texec_conns tid cs p)) = if existsb (N.eqb c) cs then rev (mine (p c)) else []) /\
  (forall c, snd (texec_conns tid cs p) c = if existsb (N.eqb c) cs then foreign (p c) else p c).
Proof.
  induction cs as [|c0 r IH]; intros p ND; cbn [texec_conns].
  - simpl. auto.
  - inversion ND as [|? ? Hn ND']. subst. rewrite exec_conn_spec.
    specialize (IH (fun x => if x =? c0 then foreign (p c0) else p x) ND').
    destruct (texec_conns tid r (fun x => if x =? c0 then foreign (p c0) else p x)) as [o p']. cbn [fst snd] in *.
    destruct IH as [IH1 IH2].
    assert (Hr : existsb (N.eqb c0) r = false).
    { destruct (existsb (N.eqb c0) r) eqn:E; [|reflexivity]. apply existsb_exists in E. destruct E as [x [Hx Ex]]. apply N.eqb_eq in Ex. subst x. contradiction. }
    split; intros c; cbn [existsb].
    + rewrite to_app, IH1. destruct (N.eqb_spec c c0) as [->|Hne]; cbn [orb].
      * rewrite to_same, Hr. apply app_nil_r.
      * rewrite to_other by congruence. reflexivity.
    + rewrite IH2. destruct (N.eqb_spec c c0) as [->|Hne]; cbn [orb].
      * rewrite Hr, ?N.eqb_refl. reflexivity.
      * reflexivity.
Qed.

Lemma existsb_in c cs : existsb (N.eqb c) cs = true <-> In c cs.
Proof.
  rewrite existsb_exists. split; [intros [x [H E]]; apply N.eqb_eq in E; subst; exact H | intros H; exists c; split; [exact H | apply N.eqb_refl]].
Qed.

(* per-recipient FIFO: the whole point of the structure *)
Theorem transaction_fifo ts0 ms :
  fresh tid ts0 ->
  let ts := stage_all connected tid ts0 ms in
  (forall c, to c (fst (texec tid ts)) = staged_for c ms) /\
  (forall c, snd (texec tid ts) c = tp ts0 c).
Proof.
  intros Hf. cbn zeta. assert (S := staged_all ts0 ms ts0 [] (staged_fresh ts0 Hf)). simpl in S.
  set (ts := stage_all connected tid ts0 ms) in *. unfold texec.
  destruct (texec_conns_spec (tc ts) (tp ts) (st_nodup _ _ _ S)) as [H1 H2]. split; intros c.
  - rewrite H1. destruct (existsb (N.eqb c) (tc ts)) eqn:E.
    + apply (st_mine _ _ _ S).
    + assert (Hm : mine (tp ts c) = []).
      { destruct (mine (tp ts c)) eqn:Em; [reflexivity|]. exfalso. assert (In c (tc ts)) by (apply (st_conns _ _ _ S); rewrite Em; discriminate).
        apply existsb_in in H. congruence. }
      rewrite <- (st_mine _ _ _ S c), Hm. reflexivity.
  - rewrite H2. destruct (existsb (N.eqb c) (tc ts)) eqn:E.
    + apply (st_foreign _ _ _ S).
    + assert (Hm : mine (tp ts c) = []).
      { destruct (mine (tp ts c)) eqn:Em; [reflexivity|]. exfalso. assert (In c (tc ts)) by (apply (st_conns _ _ _ S); rewrite Em; discriminate).
        apply existsb_in in H. congruence. }
      rewrite <- (st_foreign _ _ _ S c). symmetry. apply foreign_all. exact Hm.
Qed.

(* a cancelled transaction delivers nothing and leaves every list as it was *)
Lemma tcancel_conns_spec : forall cs p c, tcancel_conns tid cs p c = if existsb (N.eqb c) cs then foreign (p c) else p c.
Proof.
  induction cs as [|c0 r IH]; intros p c; cbn [tcancel_conns existsb]; [reflexivity|].
  rewrite IH. destruct (N.eqb_spec c c0) as [->|Hne]; cbn [orb].
  - destruct (existsb (N.eqb c0) r); [|reflexivity]. unfold foreign. clear. induction (p c0) as [|e l IHl]; simpl; [reflexivity|].
    destruct (of_trans tid e) eqn:E; simpl; [exact IHl | rewrite E; simpl; f_equal; exact IHl].
  - reflexivity.
Qed.

Theorem transaction_cancel ts0 ms :
  fresh tid ts0 -> forall c, tcancel tid (stage_all connected tid ts0 ms) c = tp ts0 c.
Proof.
  intros Hf c. assert (S := staged_all ts0 ms ts0 [] (staged_fresh ts0 Hf)). simpl in S.
  set (ts := stage_all connected tid ts0 ms) in *. unfold tcancel. rewrite tcancel_conns_spec.
  destruct (existsb (N.eqb c) (tc ts)) eqn:E.
  - apply (st_foreign _ _ _ S).
  - assert (Hm : mine (tp ts c) = []).
    { destruct (mine (tp ts c)) eqn:Em; [reflexivity|]. exfalso. assert (In c (tc ts)) by (apply (st_conns _ _ _ S); rewrite Em; discriminate).
      apply existsb_in in H. congruence. }
    rewrite <- (st_foreign _ _ _ S c). symmetry. apply foreign_all. exact Hm.
Qed.

End Trans.
